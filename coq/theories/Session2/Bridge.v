(* The model's [step] coincides with the two-mode operations of Session2/Legacy.v whenever no write can fail hard:
   there is no socket, or the socket is not in failing mode, and the operation does not switch it to failing
   mode.  This is how the preservation proofs written for the two-mode operations (L*.v) carry over. *)
From PahoV Require Import Base.Prelude Codec.Mid Session2.Model.
From PahoV Require Session2.Legacy.

(* the two-mode operation that an operation of the model corresponds to *)
Definition leg (o : op) : Legacy.op :=
  match o with
  | OPublish q => Legacy.OPublish q
  | OReconnect ok => Legacy.OReconnect ok
  | OConnLost => Legacy.OConnLost
  | ORx p r => Legacy.ORx p r
  | OAck mid q => Legacy.OAck mid q
  | OTransport m => Legacy.OBlock (is_block m)
  end.

(* no write can fail hard in this operation *)
Definition calm (s : sess) (o : op) : Prop :=
  (sock s = true -> failing s = false) /\ o <> OTransport TFail.

Definition bmode (b : bool) : tmode := if b then TBlock else TAccept.

Lemma tm_calm s : failing s = false -> tm s = bmode (blocked s).
Proof. unfold tm. intros ->. reflexivity. Qed.

Lemma lw_eq cn b q : lw cn (bmode b) true q = (fst (Legacy.lw cn (negb b) q), snd (Legacy.lw cn (negb b) q), true).
Proof. destruct b; reflexivity. Qed.

Lemma pq_eq cn b q x :
  pq cn (bmode b) true q x = (fst (Legacy.pq cn (negb b) q x), snd (Legacy.pq cn (negb b) q x), true).
Proof.
  unfold pq, Legacy.pq. rewrite lw_eq. destruct (Legacy.lw cn (negb b) (q ++ [x])). reflexivity.
Qed.

Lemma update_inflight_eq c cn b : forall l infl q,
  update_inflight c cn (bmode b) infl q l =
    let '(r, n, q', ev) := Legacy.update_inflight c cn (negb b) infl q l in (r, n, q', ev, true).
Proof.
  induction l as [|m l IH]; intros infl q; cbn [update_inflight Legacy.update_inflight]; [reflexivity|].
  destruct (infl <? c_max c); [|reflexivity]. destruct (is_queued m).
  - rewrite pq_eq. destruct (Legacy.pq cn (negb b) q (mkQ (pub_pkt m) false)) as [q1 ev1]. cbn [fst snd].
    rewrite IH. destruct (Legacy.update_inflight c cn (negb b) (infl + 1) q1 l) as [[[r n] q2] ev2]. reflexivity.
  - rewrite IH. destruct (Legacy.update_inflight c cn (negb b) infl q l) as [[[r n] q2] ev2]. reflexivity.
Qed.

Lemma connack_loop_eq cn b : forall l q,
  connack_loop cn (bmode b) q l =
    let '(r, q', ev) := Legacy.connack_loop cn (negb b) q l in (r, q', ev, true).
Proof.
  induction l as [|m l IH]; intros q; cbn [connack_loop Legacy.connack_loop]; [reflexivity|].
  assert (Hskip : (let '(q1, ev1, a1) := lw cn (bmode b) true q in
                   if a1 then
                     let '(r, q2, ev2, a2) := connack_loop cn (bmode b) q1 l in (m :: r, q2, ev1 ++ ev2, a2)
                   else (m :: l, q1, ev1, false)) =
                  (let '(r, q', ev) := (let (q1, ev1) := Legacy.lw cn (negb b) q in
                     let '(r, q2, ev2) := Legacy.connack_loop cn (negb b) q1 l in (m :: r, q2, ev1 ++ ev2)) in (r, q', ev, true))).
  { rewrite lw_eq. destruct (Legacy.lw cn (negb b) q) as [q1 ev1]. cbn [fst snd]. rewrite IH.
    destruct (Legacy.connack_loop cn (negb b) q1 l) as [[r q2] ev2]. reflexivity. }
  assert (Hsend : forall x m', (let '(q1, ev1, a1) := pq cn (bmode b) true q x in
                   if a1 then
                     let '(r, q2, ev2, a2) := connack_loop cn (bmode b) q1 l in (m' :: r, q2, ev1 ++ ev2, a2)
                   else (m' :: l, q1, ev1, false)) =
                  (let '(r, q', ev) := (let (q1, ev1) := Legacy.pq cn (negb b) q x in
                     let '(r, q2, ev2) := Legacy.connack_loop cn (negb b) q1 l in (m' :: r, q2, ev1 ++ ev2)) in (r, q', ev, true))).
  { intros x m'. rewrite pq_eq. destruct (Legacy.pq cn (negb b) q x) as [q1 ev1]. cbn [fst snd]. rewrite IH.
    destruct (Legacy.connack_loop cn (negb b) q1 l) as [[r q2] ev2]. reflexivity. }
  destruct (o_st m); try exact Hskip.
  - apply Hsend.
  - destruct (o_qos m =? 2); [apply Hsend | exact Hskip].
  - rewrite lw_eq. destruct (Legacy.lw cn (negb b) q). reflexivity.
Qed.

Lemma send_eq s x : (sock s = true -> failing s = false) -> send s x = Legacy.send s x.
Proof.
  intros Hc. unfold send, Legacy.send, Legacy.can_write. destruct (sock s) eqn:Hs.
  - rewrite (tm_calm s (Hc eq_refl)), pq_eq. cbn [andb].
    destruct (Legacy.pq (conn s) (negb (blocked s)) (outq s) x) as [q' ev]. reflexivity.
  - reflexivity.
Qed.

Lemma do_on_publish_eq c s m : sock s = true -> failing s = false ->
  do_on_publish c s m = Legacy.do_on_publish c s m.
Proof.
  intros Hs Hf. unfold do_on_publish, Legacy.do_on_publish, Legacy.can_write. rewrite Hs. cbn [andb].
  destruct (c_max c >? 0); [|reflexivity].
  rewrite (tm_calm s Hf), update_inflight_eq.
  destruct (Legacy.update_inflight c (conn s) (negb (blocked s)) (inflight s - 1) (outq s) (remove_mid (o_mid m) (out s)))
    as [[[o' n] q'] ev]. reflexivity.
Qed.

Lemma step_bridge c s o : calm s o -> step c s o = Legacy.step c s (leg o).
Proof.
  intros [Hc Ho]. destruct o as [q|ok| |p r|mid q|m]; cbn [step leg Legacy.step].
  - (* publish() *)
    unfold do_publish, Legacy.do_publish. cbv zeta.
    destruct (q =? 0).
    + destruct (sock s) eqn:Hs; [|reflexivity].
      rewrite send_eq by (cbn [sock failing]; intros _; exact (Hc eq_refl)).
      pose proof (Legacy.send) as _.
      set (s1 := mkS _ _ _ _ _ _ _ _ _ _ _ _). set (x := mkQ _ _).
      assert (Hsk : sock (fst (Legacy.send s1 x)) = true).
      { unfold Legacy.send. destruct (Legacy.pq (conn s1) (Legacy.can_write s1) (outq s1) x). reflexivity. }
      destruct (Legacy.send s1 x) as [s2 ev]. cbn [fst] in Hsk. rewrite Hsk. reflexivity.
    + destruct ((c_maxq c >? 0) && (Z.of_nat (length (out s)) >=? c_maxq c)); [reflexivity|].
      destruct (has_mid (mid_next (last_mid s)) (out s)); [reflexivity|].
      destruct (window_free c (inflight s)); [|reflexivity].
      destruct (sock s) eqn:Hs; [|reflexivity].
      rewrite send_eq by (cbn [sock failing with_out]; intros _; exact (Hc eq_refl)).
      set (s1 := with_out _ _ _). set (x := mkQ _ _).
      assert (Hsk : sock (fst (Legacy.send s1 x)) = true).
      { unfold Legacy.send. destruct (Legacy.pq (conn s1) (Legacy.can_write s1) (outq s1) x). reflexivity. }
      destruct (Legacy.send s1 x) as [s2 ev]. cbn [fst] in Hsk. rewrite Hsk. reflexivity.
  - reflexivity.
  - reflexivity.
  - (* one inbound packet *)
    unfold do_rx, Legacy.do_rx. destruct (sock s) eqn:Hs; cbn [negb]; [|reflexivity].
    pose proof (Hc eq_refl) as Hf.
    destruct p as [rc|mid|mid|mid|mid|q mid tag].
    + destruct (rc =? 0); [|reflexivity]. unfold Legacy.can_write. rewrite Hs. cbn [andb].
      rewrite (tm_calm s Hf), connack_loop_eq.
      destruct (Legacy.connack_loop (conn s) (negb (blocked s)) (outq s) (out s)) as [[o q'] ev]. reflexivity.
    + destruct (find_mid mid (out s)) as [m|]; [|reflexivity]. rewrite do_on_publish_eq by assumption. reflexivity.
    + unfold has_mid. destruct (find_mid mid (out s)) as [m|]; [|reflexivity].
      rewrite send_eq by (cbn [sock failing with_out]; intros _; exact Hf). reflexivity.
    + destruct (find_mid mid (out s)) as [m|]; [|reflexivity]. rewrite do_on_publish_eq by assumption. reflexivity.
    + destruct (in_find mid (inm s)) as [tag|].
      * destruct (deliver c mid 2 tag r) as [ev pr]. destruct pr; [reflexivity|]. destruct (c_manual c); [reflexivity|].
        rewrite send_eq by (cbn [sock failing with_inm]; intros _; exact Hf). reflexivity.
      * destruct (c_manual c); [reflexivity|]. rewrite send_eq by (intros _; exact Hf). reflexivity.
    + destruct (q =? 0); [reflexivity|]. destruct (q =? 1).
      * destruct (deliver c mid 1 tag r) as [ev pr]. destruct pr; [reflexivity|]. destruct (c_manual c); [reflexivity|].
        rewrite send_eq by (intros _; exact Hf). reflexivity.
      * rewrite send_eq by (intros _; exact Hf). reflexivity.
  - (* ack() *)
    unfold do_ack, Legacy.do_ack. destruct (c_manual c); [|reflexivity].
    destruct (q =? 1); [apply send_eq; exact Hc|]. destruct (q =? 2); [apply send_eq; exact Hc | reflexivity].
  - (* the transport blocks / accepts again *)
    unfold do_transport, Legacy.do_block. destruct (sock s) eqn:Hs; [|reflexivity].
    pose proof (Hc eq_refl) as Hf.
    destruct m; [| |exfalso; apply Ho; reflexivity]; cbn [is_block].
    + cbn [lw Legacy.lw settle]. unfold with_tm, Legacy.with_blocked, with_q. cbn. rewrite Hf. reflexivity.
    + unfold with_tm, Legacy.with_blocked. cbn. rewrite Hf. reflexivity.
Qed.

Lemma conf_bridge c s o : conf_op c s o = Legacy.conf_op c s (leg o).
Proof. destruct o; reflexivity. Qed.

(* the remaining cases: a failing socket, or the operation that makes it failing *)
Lemma not_calm s o : ~ calm s o -> (sock s = true /\ failing s = true) \/ o = OTransport TFail.
Proof.
  intros H. destruct (sock s) eqn:Hs; destruct (failing s) eqn:Hf; [left; split; reflexivity| | |]; right;
    (destruct o as [| | | | |[| |]]; try reflexivity; exfalso; apply H; split;
       try discriminate; intros Hx; congruence).
Qed.

Lemma calm_dec s o : calm s o \/ ~ calm s o.
Proof.
  assert (Ho : o = OTransport TFail \/ o <> OTransport TFail).
  { destruct o as [| | | | |[| |]]; try (right; discriminate). left. reflexivity. }
  unfold calm. destruct Ho as [->|Ho]; [right; intros [_ H]; apply H; reflexivity|].
  destruct (sock s); destruct (failing s).
  - right. intros [H _]. specialize (H eq_refl). discriminate.
  - left. split; [intros _; reflexivity | exact Ho].
  - left. split; [discriminate | exact Ho].
  - left. split; [discriminate | exact Ho].
Qed.
