(* C02 on the second-generation Session model.  Operation-by-operation preservation for the two-mode operations is in
   LC02.v (against the strong form of the invariant, LInvS.v); lifted here to the model's runs for histories without
   hard write failures (Calm.v). *)
From PahoV Require Import Base.Prelude Codec.Mid Codec.MidProofs Session2.Model Session2.Check Session2.Statements
  Session2.Bridge Session2.Calm Session2.LLemmas Session2.LInvS Session2.LC02.
From PahoV Require Session2.Legacy.

Lemma R_init c : LC02.R c (init c) k02_init.
Proof.
  constructor; cbn; try reflexivity; try discriminate; try (intros m []); try constructor.
Qed.

Theorem c02_calm_proved : C02_calm_stmt.
Proof.
  intros c ops Hcfg Hc Hn. unfold c02_ok, optrace.
  destruct (lift_calm c (LInvS.Inv c) (LInvS.inv_step c Hcfg) k02 (k02_op (pers c)) (LC02.R c)
              (fun s o k Hi Hcf HR => LC02.step_R c s k o Hcfg Hi Hcf HR) ops (init c) k02_init (LInvS.inv_init c) eq_refl Hn Hc (R_init c))
    as (s' & H).
  exact (r_ok _ _ _ H).
Qed.

Print Assumptions c02_calm_proved.
