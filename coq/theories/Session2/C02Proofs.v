(* C02 on the second-generation Session model.  Operation-by-operation preservation for the two-mode operations is in
   LC02.v; here the operations on a dead socket (Fail.v) are added and the relation is lifted over every conforming
   history, hard write failures included (Full.v). *)
From PahoV Require Import Base.Prelude Codec.Mid Codec.MidProofs Session2.Model Session2.Check Session2.Statements
  Session2.Bridge Session2.Fail Session2.LLemmas Session2.LInv Session2.Inv Session2.Full Session2.LC02.
From PahoV Require Session2.Legacy.

Lemma R_init c : LC02.R c (init c) k02_init.
Proof.
  constructor; cbn; try reflexivity; try discriminate; try (intros m []); try constructor.
Qed.

Section Dup3.
Variable c : cfg.
Hypothesis Hcfg : cfg_ok c = true.
Notation opf := (k02_op (pers c)).
Notation kev := (k02_ev (pers c)).

Lemma k02_eta k : mkK02 (k2_live k) (k2_h1 k) (k2_h2 k) (k2_sent k) (k2_rec k) (k2_blk k) (k2_ok k) = k.
Proof. destruct k. reflexivity. Qed.

Lemma existsb_snoc {A} (f : A -> bool) l x : existsb f (l ++ [x]) = existsb f l || f x.
Proof. rewrite existsb_app. cbn [existsb]. rewrite orb_false_r. reflexivity. Qed.

(* the loss of the connection at the end of an operation, judged as an operation of its own *)
Lemma split02 s1 k ev1 : LC02.R c s1 (opf k ev1) -> opf k (ev1 ++ [SockLost]) = opf (opf k ev1) [SockLost].
Proof.
  intros HR. pose proof (r_ok _ _ _ HR) as Hok.
  assert (E2 : opf (opf k ev1) [SockLost] = opf k ev1).
  { unfold k02_op at 1. cbn [existsb is_connack0 fold_left k02_ev]. rewrite andb_false_r. reflexivity. }
  rewrite E2. clear E2. unfold k02_op in Hok |- *. rewrite !existsb_snoc. cbn [is_socklost is_connack0]. rewrite orb_true_r, orb_false_r. cbn [negb].
  rewrite andb_false_r. rewrite fold_left_app. cbn [fold_left k02_ev].
  destruct (pers c && existsb is_connack0 ev1 && negb (existsb is_socklost ev1)); [|reflexivity].
  cbn [k2_ok] in Hok. apply andb_true_iff in Hok as [H1 H2]. rewrite H2, andb_true_r. symmetry. apply k02_eta.
Qed.

Lemma R02_sf s b k : LC02.R c s k -> LC02.R c (set_failing s b) k.
Proof. intros H. apply (R_ext c s); try reflexivity; try lia. exact H. Qed.

Lemma R02_lost s k : LC02.R c s k -> LC02.R c (lost s) k.
Proof. intros H. apply (R_down c s); try reflexivity; try (intros Hf; exact Hf); [cbn; apply andb_false_r | exact H]. Qed.

(* publish(qos=0) on a dead socket: for this checker the two-mode operation (the result code of a QoS 0 publish is
   not looked at), then the loss *)
Lemma d3_pub0 s k : Inv c s -> dead s -> LC02.R c s k ->
  LC02.R c (fst (do_publish c s 0)) (opf k (snd (do_publish c s 0))).
Proof.
  intros I Hd HR. pose proof Hd as (Hs & _ & _).
  pose proof (LC02.step_R c s k (Legacy.OPublish 0) Hcfg I eq_refl HR) as HL. cbn [Legacy.step] in HL.
  assert (E : snd (Legacy.do_publish c s 0) =
              [Handed (conn s) (PPublish (mid_next (last_mid s)) 0 false (ntag s)); Ret (ntag s) (mid_next (last_mid s)) 0 0]).
  { unfold Legacy.do_publish. cbv zeta. cbn [Z.eqb]. rewrite Hs.
    set (s1 := mkS _ _ _ _ _ _ _ _ _ _ _ _).
    assert (Hc1 : Legacy.can_write s1 = false) by (destruct Hd as (_ & _ & Hb); unfold Legacy.can_write; cbn; rewrite Hb; reflexivity).
    rewrite (legacy_send_blocked s1 _ Hc1). reflexivity. }
  rewrite E in HL. rewrite (publish0_dead c s Hd). cbn [fst snd].
  assert (Ek : opf k [Handed (conn s) (PPublish (mid_next (last_mid s)) 0 false (ntag s)); SockLost;
                      Ret (ntag s) (mid_next (last_mid s)) 0 7] =
               opf k [Handed (conn s) (PPublish (mid_next (last_mid s)) 0 false (ntag s)); Ret (ntag s) (mid_next (last_mid s)) 0 0])
    by (rewrite !k02_op_plain by reflexivity; reflexivity).
  rewrite Ek. apply R02_lost. exact HL.
Qed.

(* publish(qos>0) on a dead socket: for the checker, publish() without a socket after the loss, plus the hand-over of
   a PUBLISH with a fresh tag and DUP = 0, which stays in the queue until reconnect() drops it *)
Lemma d3_pubw s q k : Inv c s -> dead s -> pub_wrote c s q = true -> conf_op c s (OPublish q) = true -> LC02.R c s k ->
  LC02.R c (fst (do_publish c s q)) (opf k (snd (do_publish c s q))).
Proof.
  intros I Hd Hw Hconf HR. pose proof Hd as (Hs & _ & _).
  assert (Hq0 : (q =? 0) = false) by (unfold pub_wrote in Hw; destruct (q =? 0); [discriminate|reflexivity]).
  assert (Hqpos : (q >? 0) = true) by (cbn [conf_op] in Hconf; lia).
  pose proof (LC02.step_R c (lost s) k (Legacy.OPublish q) Hcfg (inv_lost c s I) Hconf (R02_lost s k HR)) as H2. cbn [Legacy.step] in H2.
  destruct (legacy_publish_offline_wrote c (lost s) q eq_refl Hw) as (so & Eo & Eout & En & Eq & Hso). rewrite Eo in H2. cbn [fst snd] in H2.
  rewrite (publish_dead_wrote c s q Hd Hw), Eo. cbn [fst snd].
  pose proof (fresh_h1 _ _ _ HR) as Fh. pose proof (fresh_sent _ _ _ HR) as Fs.
  cbn [lost with_sock ntag last_mid outq out] in *.
  set (tag := ntag s) in *. set (mid := mid_next (last_mid s)) in *.
  (* the checker's state: that of the offline publish(), with the fresh tag added to the handed-over set *)
  assert (Ek : opf k [Handed (conn s) (PPublish mid q false tag); SockLost; Ret tag mid q 4] =
               let k0 := opf k [Ret tag mid q 4] in
               mkK02 (k2_live k0) (zadd tag (k2_h1 k)) (k2_h2 k0) (k2_sent k0) (k2_rec k0) (k2_blk k0) (k2_ok k0)).
  { rewrite !k02_op_plain by reflexivity. cbn [fold_left k02_ev]. rewrite Fh, Hqpos. cbn [andb orb negb Z.eqb k2_ok k2_live k2_h1 k2_h2 k2_sent k2_rec k2_blk].
    rewrite !andb_true_r. reflexivity. }
  rewrite Ek. cbv zeta. clear Ek.
  assert (Eh : k2_h1 (opf k [Ret tag mid q 4]) = k2_h1 k).
  { rewrite k02_op_plain by reflexivity. cbn [fold_left k02_ev]. rewrite Hqpos. reflexivity. }
  destruct H2 as [H1 H2 H3 H4 H5 H6 H7 H8 H9 H10 H11 H12 H13 H14]. rewrite Eh in H3, H4.
  constructor; cbn [k2_ok k2_live k2_h1 k2_h2 k2_sent k2_rec k2_blk out ntag sock cack first outq blocked with_q]; try assumption.
  - intros m Hm Hsn. rewrite zin_zadd, (H3 m Hm Hsn). apply orb_true_r.
  - intros t Ht. rewrite zin_zadd in Ht. apply orb_true_iff in Ht as [Ht|Ht]; [rewrite En; lia | exact (H4 t Ht)].
  - apply Forall_app. split.
    + rewrite Eq in H11. eapply Forall_impl; [|exact H11]. intros y. unfold pk_inv. destruct (q_pkt y); exact (fun a => a).
    + constructor; [|constructor]. unfold pk_inv. cbn [q_pkt]. split; [|split].
      * intros Hz. exfalso. specialize (H5 tag Hz). rewrite En in H5.
        assert (Hz' : zin tag (k2_sent k) = true).
        { revert Hz. rewrite k02_op_plain by reflexivity. cbn [fold_left k02_ev]. rewrite Hqpos. cbn [andb orb Z.eqb k2_sent]. exact (fun a => a). }
        congruence.
      * discriminate.
      * intros E0. lia.
  - rewrite pubtags_app. cbn. apply NoDup_app_snoc; [rewrite Eq in H12; exact H12|].
    intros Hin. rewrite Eq in H14. specialize (H14 tag Hin).
    pose proof (r_qlt _ _ _ HR tag Hin). unfold tag in *. lia.
  - intros t Ht. rewrite pubtags_app in Ht. apply in_app_or in Ht as [Ht|Ht]; [rewrite Eq in H14; exact (H14 t Ht)|].
    cbn in Ht. destruct Ht as [<-|[]]. rewrite En. lia.
Qed.

(* the accepting CONNACK on a dead socket *)
Lemma d3_connack s r k : Inv c s -> dead s -> cack s = false -> LC02.R c s k ->
  LC02.R c (fst (do_rx c s (IConnack 0) r)) (opf k (snd (do_rx c s (IConnack 0) r))).
Proof.
  intros I Hd Hck HR. pose proof Hd as (Hs & _ & _).
  assert (Hconf : Legacy.conf_op c s (Legacy.ORx (IConnack 0) r) = true) by (cbn [Legacy.conf_op]; rewrite Hs, Hck; reflexivity).
  pose proof (LC02.step_R c s k (Legacy.ORx (IConnack 0) r) Hcfg I Hconf HR) as HL. cbn [Legacy.step] in HL.
  destruct (connack_dead_cases c s r Hd) as [E|[(sd & E & Hsd & Eo & Eq & En & Hckd & Hfd)|(sd & l1 & m & l2 & x & rest & E & Hsd & So & Eo & Eq & En & Ex & _ & Hckd & Hfd)]].
  - rewrite E. exact HL.
  - (* the loop stopped at a loop_write() on a non-empty queue: nothing was handed over *)
    rewrite E. cbn [fst snd].
    assert (Ek : opf k [Inp (IConnack 0); SockLost] = k).
    { unfold k02_op. cbn [existsb is_socklost orb negb]. rewrite andb_false_r. reflexivity. }
    rewrite Ek. apply (R_down c s); try assumption. rewrite Hfd. discriminate.
  - (* it stopped after handing over the packet of the first message that needed one *)
    rewrite E. cbn [fst snd].
    assert (Hm : In m (out s)) by (rewrite So; apply in_or_app; right; left; reflexivity).
    pose proof (inv_qos_ok _ _ _ I Hm) as Hqo. pose proof (qos_pos m Hqo) as Hqpos.
    pose proof (inv_nodup_tags _ _ I) as Hnd. pose proof (inv_tag_lt _ _ _ I Hm) as Htl.
    assert (Ek0 : opf k [Inp (IConnack 0); Handed (conn s) (q_pkt x); SockLost] = kev k (Handed (conn s) (q_pkt x))).
    { unfold k02_op. cbn [existsb is_socklost orb negb]. rewrite ?orb_true_r. cbn [negb]. rewrite ?andb_false_r. destruct (q_pkt x); reflexivity. }
    rewrite Ek0. clear Ek0.
    assert (Hsub : forall y, In y (out sd) -> y = cl1 m \/ (In y (out s) /\ y <> m)).
    { intros y Hy. rewrite Eo in Hy. apply in_app_or in Hy as [Hy|[Hy|Hy]].
      - right. split; [rewrite So; apply in_or_app; left; exact Hy|]. intros ->.
        rewrite So in Hnd. unfold tags in Hnd. rewrite map_app in Hnd. cbn [map] in Hnd.
        apply NoDup_remove_2 in Hnd. apply Hnd. apply in_or_app. left. apply in_map. exact Hy.
      - left. symmetry. exact Hy.
      - right. split; [rewrite So; apply in_or_app; right; right; exact Hy|]. intros ->.
        rewrite So in Hnd. unfold tags in Hnd. rewrite map_app in Hnd. cbn [map] in Hnd.
        apply NoDup_remove_2 in Hnd. apply Hnd. apply in_or_app. right. apply in_map. exact Hy. }
    assert (Htg : tags (out sd) = tags (out s)).
    { rewrite Eo, So. unfold tags. rewrite !map_app. cbn [map]. rewrite cl1_tag. reflexivity. }
    assert (Hlm : map lm (out sd) = map lm (out s)).
    { rewrite Eo, So, !map_app. cbn [map]. rewrite lm_cl1. reflexivity. }
    (* the two kinds of packet *)
    unfold cl_pk in Ex. destruct (o_st m) eqn:Est; try discriminate.
    + (* PUBLISH of a message in state publish *)
      inversion Ex; subst x. clear Ex. cbn [q_pkt pub_pkt].
      assert (Hp : isPub m = true) by (unfold isPub; rewrite Est; reflexivity).
      assert (Hc1 : cl1 m = set_st m (wait_of (o_qos m))) by (unfold cl1; rewrite Est; reflexivity).
      destruct (msg_hc c s k m I HR Hm (or_introl Hp)) as (Hrec & Hd1 & Hsent & _).
      cbn [rel_pk pub_pkt q_pkt] in Hrec, Hd1, Hsent.
      assert (Eok : k2_ok (kev k (Handed (conn s) (PPublish (o_mid m) (o_qos m) (o_dup m) (o_tag m)))) = true).
      { cbn [k02_ev k2_ok]. rewrite (r_ok _ _ _ HR). replace (o_qos m >? 0) with true by lia. cbn [andb orb].
        destruct (o_dup m); [rewrite (Hd1 eq_refl)|rewrite orb_true_r]; reflexivity. }
      cbn [k02_ev k2_ok] in Eok.
      destruct HR as [H1 H2 H3 H4 H5 H6 H7 H8 H9 H10 H11 H12 H13 H14].
      constructor; unfold pub_pkt; cbn [q_pkt k02_ev k2_ok k2_live k2_h1 k2_h2 k2_sent k2_rec k2_blk]; rewrite ?Hsd, ?Hckd, ?En, ?Htg, ?Hlm; try assumption; try discriminate.
      * intros y Hy Hsn. rewrite zin_zadd. destruct (Hsub y Hy) as [->|[Hy' _]].
        -- rewrite cl1_tag, Z.eqb_refl. reflexivity.
        -- rewrite (H3 y Hy' Hsn). apply orb_true_r.
      * intros t0 Ht0. rewrite zin_zadd in Ht0. apply orb_true_iff in Ht0 as [Ht0|Ht0]; [lia | exact (H4 t0 Ht0)].
      * intros y Hy Hst Hz. destruct (Hsub y Hy) as [->|[Hy' _]].
        -- exfalso. rewrite Hc1 in Hst. destruct Hst as [Hst|Hst]; revert Hst; unfold isPub, is_queued, set_st, wait_of; cbn [o_st];
             destruct (o_qos m =? 1); discriminate.
        -- exact (H6 y Hy' Hst Hz).
      * intros Hc t0 Ht0. destruct (H7 Hc t0 Ht0) as (y & Hy & Ety & Hqy & Hrc & _).
        assert (Hym : y <> m) by (intros ->; revert Hrc; unfold isrec; rewrite Est; discriminate).
        exists y. split.
        { rewrite Eo. rewrite So in Hy. apply in_app_or in Hy as [Hy|[Hy|Hy]];
            [apply in_or_app; left; exact Hy | exfalso; apply Hym; symmetry; exact Hy | apply in_or_app; right; right; exact Hy]. }
        repeat split; try assumption. intros Hx. discriminate.
      * intros Hc Hf. rewrite Hfd in Hf. discriminate.
      * rewrite Eq. apply Forall_app. split.
        -- eapply Forall_impl; [|exact H11]. intros y. unfold pk_inv. destruct (q_pkt y) as [|mi qs dd tt| | | |]; try exact (fun a => a).
           cbn [k2_sent k2_h2]. rewrite Htg, En. intros (P1 & P2 & P3). split; [exact P1|]. split; [|exact P3].
           intros Hdd. specialize (P2 Hdd). destruct (zin (o_tag m) (k2_h1 k)); [rewrite zin_zadd, P2; apply orb_true_r | exact P2].
        -- constructor; [|constructor]. unfold pk_inv. cbn [q_pkt k2_sent k2_h2]. split; [exact Hsent|]. split.
           ++ intros Hdd. rewrite (Hd1 Hdd), zin_zadd, Z.eqb_refl. reflexivity.
           ++ intros E0. lia.
      * rewrite Eq, pubtags_app. cbn. apply NoDup_app_snoc; [exact H12|].
        intros Hin. unfold pubtags in Hin. apply in_flat_map in Hin as (y & Hy & Hty). unfold pubtag in Hty.
        destruct (q_pkt y) as [|mi qs dd tt| | | |] eqn:Ey; try (destruct Hty; fail). destruct Hty as [Et|[]]. subst tt.
        destruct (Z.eq_dec qs 0) as [E0|E0].
        -- pose proof (proj1 (Forall_forall _ _) H11 y Hy) as Hpk. unfold pk_inv in Hpk. rewrite Ey in Hpk.
           destruct Hpk as (_ & _ & P3). destruct (P3 E0) as (_ & B & _). apply B. unfold tags. apply in_map. exact Hm.
        -- pose proof (proj1 (Forall_forall _ _) (inv_q _ _ I Hs) y Hy) as Hok. unfold qpkt_ok in Hok. rewrite Ey in Hok.
           destruct (Hok E0) as (w & Hw & _ & Etw & _ & _ & Hstw).
           assert (w = m) by (eapply tag_inj; [exact Hnd | exact Hw | exact Hm | exact Etw]). subst w.
           rewrite Est in Hstw. unfold wait_of in Hstw. destruct (qs =? 1); discriminate.
      * intros t0 Ht0. rewrite Eq, pubtags_app in Ht0. apply in_app_or in Ht0 as [Ht0|Ht0]; [exact (H14 t0 Ht0)|].
        cbn in Ht0. destruct Ht0 as [<-|[]]. lia.
    + (* PUBREL of a message in state resend_pubrel: the checker sees nothing *)
      destruct (o_qos m =? 2) eqn:Eq2; [|discriminate]. inversion Ex; subst x. clear Ex. cbn [q_pkt rel_pkt k02_ev].
      assert (Hc1 : cl1 m = set_st m MsWaitPubcomp) by (unfold cl1; rewrite Est, Eq2; reflexivity).
      assert (Hsm : snt m = true) by (unfold snt, is_wait; rewrite Est; reflexivity).
      destruct HR as [H1 H2 H3 H4 H5 H6 H7 H8 H9 H10 H11 H12 H13 H14].
      constructor; rewrite ?Hsd, ?Hckd, ?En, ?Htg, ?Hlm; try assumption; try discriminate.
      * intros y Hy Hsn. destruct (Hsub y Hy) as [->|[Hy' _]]; [rewrite cl1_tag; exact (H3 m Hm Hsm) | exact (H3 y Hy' Hsn)].
      * intros y Hy Hst Hz. destruct (Hsub y Hy) as [->|[Hy' _]].
        -- exfalso. rewrite Hc1 in Hst. destruct Hst as [Hst|Hst]; revert Hst; unfold isPub, is_queued, set_st; cbn [o_st]; discriminate.
        -- exact (H6 y Hy' Hst Hz).
      * intros Hc t0 Ht0. destruct (H7 Hc t0 Ht0) as (y & Hy & Ety & Hqy & Hrc & _).
        destruct (Z.eq_dec (o_tag y) (o_tag m)) as [Etm|Hnt].
        -- assert (y = m) by (eapply tag_inj; [exact Hnd | exact Hy | exact Hm | exact Etm]). subst y.
           exists (cl1 m). split; [rewrite Eo; apply in_or_app; right; left; reflexivity|].
           rewrite cl1_tag, cl1_qos. repeat split; try assumption; [apply rec_cl1; exact Hrc | intros Hx; discriminate].
        -- exists y. split.
           { rewrite Eo. rewrite So in Hy. apply in_app_or in Hy as [Hy|[Hy|Hy]];
               [apply in_or_app; left; exact Hy | exfalso; apply Hnt; rewrite Hy; reflexivity | apply in_or_app; right; right; exact Hy]. }
           repeat split; try assumption. intros Hx. discriminate.
      * intros Hc Hf. rewrite Hfd in Hf. discriminate.
      * rewrite Eq. apply Forall_app. split; [|repeat constructor].
        eapply Forall_impl; [|exact H11]. intros y. unfold pk_inv. destruct (q_pkt y); try exact (fun a => a). rewrite Htg, En. exact (fun a => a).
      * rewrite Eq, pubtags_app. cbn. rewrite app_nil_r. exact H12.
      * intros t0 Ht0. rewrite Eq, pubtags_app in Ht0. cbn in Ht0. rewrite app_nil_r in Ht0. exact (H14 t0 Ht0).
Qed.

End Dup3.

(* EVERY conforming history, hard write failures included *)
Theorem c02_proved : C02_stmt.
Proof.
  intros c ops Hcfg Hc. unfold c02_ok, optrace.
  destruct (lift_full c Hcfg k02 (k02_op (pers c)) (LC02.R c) (split02 c)
              (fun s o k Hi Hcf HR => LC02.step_R c s k o Hcfg Hi Hcf HR) (R02_sf c)
              (d3_pub0 c Hcfg) (d3_pubw c Hcfg) (d3_connack c Hcfg) ops (init c) k02_init (inv3_init c) Hc (R_init c))
    as (s' & H).
  exact (r_ok _ _ _ H).
Qed.

Print Assumptions c02_proved.
