(* C12 on the second-generation Session model: the in-flight window (written and handed-over packets) and the
   queue bound.  Operation-by-operation preservation for the two-mode operations is in LC12.v; lifted here
   to the model's runs for histories without hard write failures (Calm.v).  The window invariant of the state
   ([c12_no_idle_slot], [inflight <= max_inflight]) is part of [Inv] and holds for EVERY conforming history,
   hard write failures included (Inv.v). *)
From PahoV Require Import Base.Prelude Codec.Mid Codec.MidProofs Session2.Model Session2.Check Session2.Statements
  Session2.Bridge Session2.Calm Session2.LLemmas Session2.LInv Session2.Inv Session2.LC12.
From PahoV Require Session2.Legacy.

Lemma c12_gen_calm c sel : cfg_ok c = true -> view_ok sel -> forall ops,
  conforming c ops = true -> no_fail ops = true -> c12_gen_ok sel c (optrace c ops) = true.
Proof.
  intros Hcfg Hsel ops Hc Hn. unfold c12_gen_ok, optrace.
  destruct (lift_calm c (LInv.Inv c) (LInv.inv_step c Hcfg) k12 (fun k evs => fold_left (k12_ev sel (c_max c)) evs k) R12
              (win_step c Hcfg sel Hsel) ops (init c) k12_init (LInv.inv_init c) eq_refl Hn Hc) as (s' & H & _).
  - split; [reflexivity|]. split; [constructor|]. intros _. apply incl_nil_l.
  - exact H.
Qed.

Theorem c12_window_calm_proved : C12_window_calm_stmt.
Proof. intros c ops Hcfg Hc Hn. apply c12_gen_calm; [assumption | exact view_tx | assumption | assumption]. Qed.

Theorem c12_handed_calm_proved : C12_handed_calm_stmt.
Proof. intros c ops Hcfg Hc Hn. apply c12_gen_calm; [assumption | exact view_handed | assumption | assumption]. Qed.

Theorem c12_queue_calm_proved : C12_queue_calm_stmt.
Proof.
  intros c ops Hcfg Hc Hn. unfold c12_queue_ok, optrace.
  destruct (lift_calm c (LInv.Inv c) (LInv.inv_step c Hcfg) k12q (fun k evs => fold_left (qev c) evs k) Rq
              (q_step c Hcfg) ops (init c) (mkK12q [] true) (LInv.inv_init c) eq_refl Hn Hc) as (s' & H & _).
  - split; [reflexivity|]. split; [reflexivity|]. intros t [].
  - exact H.
Qed.

(* On an established connection no accepted message waits while a window slot is free:
   every stored message has been handed over and awaits its acknowledgement, or it is
   queued and the window is exactly full.  EVERY conforming history, hard write failures included. *)
Theorem c12_no_idle_slot c s : Inv c s -> cack s = true ->
  Forall (fun m => is_wait m = true \/
                   (is_queued m = true /\ inflight s = c_max c /\ 0 < c_max c)) (out s).
Proof.
  intros I Hck. destruct (inv_shape _ _ I) as (C & U & Q & [So Si SC SU SQ Sm Sf Ss Se]).
  pose proof (inv_cack _ _ I Hck) as Hs. rewrite (Ss Hs) in So. cbn [app] in So.
  rewrite So. apply Forall_app. split.
  - eapply Forall_impl; [|exact (Se Hck)]. cbn beta. intros a Ha. left. exact Ha.
  - destruct Q as [|x Q]; [constructor|]. destruct (Sf ltac:(discriminate)) as [Hpos Hfull].
    eapply Forall_impl; [|exact SQ]. cbn beta. intros a Ha. right.
    split; [exact Ha|]. split; [lia | exact Hpos].
Qed.

Theorem c12_no_idle_slot_reachable c ops : cfg_ok c = true -> conforming c ops = true ->
  let s := fst (run c ops) in
  cack s = true ->
  Forall (fun m => is_wait m = true \/
                   (is_queued m = true /\ inflight s = c_max c /\ 0 < c_max c)) (out s).
Proof.
  intros Hcfg Hc s Hck. apply c12_no_idle_slot; [|assumption].
  apply inv_reachable; assumption.
Qed.

(* the counter never exceeds the window, and counts exactly the messages in the window part of the store *)
Theorem c12_counter_bounded c ops : cfg_ok c = true -> conforming c ops = true ->
  let s := fst (run c ops) in 0 < c_max c -> 0 <= inflight s <= c_max c.
Proof.
  intros Hcfg Hc s Hpos. pose proof (inv_reachable c Hcfg ops Hc) as I.
  destruct (inv_shape _ _ I) as (C & U & Q & [So Si SC SU SQ Sm Sf Ss Se]). fold s in Si, Sm.
  specialize (Sm Hpos). lia.
Qed.

Print Assumptions c12_window_calm_proved.
Print Assumptions c12_handed_calm_proved.
Print Assumptions c12_queue_calm_proved.
Print Assumptions c12_no_idle_slot_reachable.
Print Assumptions c12_counter_bounded.
