(* C12 on the second-generation Session model: the in-flight window (written and handed-over packets) and the
   queue bound.  Operation-by-operation preservation for the two-mode operations is in LC12.v; lifted here
   to the model's runs for histories without hard write failures (Calm.v).  The window invariant of the state
   ([c12_no_idle_slot], [inflight <= max_inflight]) is part of [Inv] and holds for EVERY conforming history,
   hard write failures included (Inv.v). *)
From PahoV Require Import Base.Prelude Codec.Mid Codec.MidProofs Session2.Model Session2.Check Session2.Statements
  Session2.Bridge Session2.Fail Session2.LLemmas Session2.LInv Session2.Inv Session2.Full Session2.LC12.
From PahoV Require Session2.Legacy.

(* ================================================================ hard write failures: the window *)
Section Window3.
Variable c : cfg.
Hypothesis Hcfg : cfg_ok c = true.
Variable sel : event -> option pkt.
Hypothesis Hsel : view_ok sel.
Notation kev := (k12_ev sel (c_max c)).

Lemma k12_ev_ok k e : k12_ok (kev k e) = true -> k12_ok k = true.
Proof.
  assert (H : forall e', k12_ok (match sel e' with
                          | Some p => match ptag p with
                                      | Some tag => let u := zadd tag (k12_un k) in mkK12 u (k12_ok k && ((c_max c =? 0) || (zlen u <=? c_max c)))
                                      | None => k end
                          | None => k end) = true -> k12_ok k = true).
  { intros e'. destruct (sel e'); [|exact (fun x => x)]. destruct (ptag p); [|exact (fun x => x)].
    cbn [k12_ok]. intros H. apply andb_true_iff in H as [H _]. exact H. }
  destruct e; cbn [k12_ev k12_ok]; try exact (H _); exact (fun x => x).
Qed.

Lemma k12_fold_ok : forall evs k, k12_ok (fold_left kev evs k) = true -> k12_ok k = true.
Proof. induction evs as [|e evs IH]; intros k H; [exact H|]. cbn [fold_left] in H. apply (k12_ev_ok k e). exact (IH _ H). Qed.

Lemma k12_ev_nodup k e : NoDup (k12_un k) -> NoDup (k12_un (kev k e)).
Proof.
  intros Hnd.
  assert (H : forall e', NoDup (k12_un (match sel e' with
                          | Some p => match ptag p with
                                      | Some tag => let u := zadd tag (k12_un k) in mkK12 u (k12_ok k && ((c_max c =? 0) || (zlen u <=? c_max c)))
                                      | None => k end
                          | None => k end))).
  { intros e'. destruct (sel e'); [|exact Hnd]. destruct (ptag p); [|exact Hnd]. cbn [k12_un]. apply zadd_NoDup. exact Hnd. }
  destruct e; cbn [k12_ev k12_un]; try exact (H _); [apply zrem_NoDup; exact Hnd | constructor].
Qed.

Lemma k12_fold_nodup : forall evs k, NoDup (k12_un k) -> NoDup (k12_un (fold_left kev evs k)).
Proof. induction evs as [|e evs IH]; intros k H; [exact H|]. cbn [fold_left]. apply IH. apply k12_ev_nodup. exact H. Qed.

Lemma R12_closed s' k' : k12_ok k' = true -> NoDup (k12_un k') -> sock s' = false -> R12 s' k'.
Proof. intros H1 H2 H3. split; [exact H1|]. split; [exact H2|]. intros H. congruence. Qed.

(* the events of an operation on a dead socket are, for this checker, a prefix of the events of the two-mode
   operation on the same state *)
Lemma R12_prefix s sb s' k a b : R12 s k -> R12 sb (fold_left kev (a ++ b) k) -> sock s' = false -> R12 s' (fold_left kev a k).
Proof.
  intros (_ & Hnd & _) (Hok & _ & _) Hs'. rewrite fold_left_app in Hok.
  apply R12_closed; [exact (k12_fold_ok _ _ Hok) | apply k12_fold_nodup; exact Hnd | exact Hs'].
Qed.

Definition plain12 (e : event) : Prop := evtag e = [] /\ match e with SockOpened _ | CbPublish _ _ => False | _ => True end.

Lemma R12_sf s b k : R12 s k -> R12 (set_failing s b) k.
Proof. destruct s. exact (fun H => H). Qed.

Lemma win3_pub0 s k : Inv c s -> dead s -> R12 s k ->
  R12 (fst (do_publish c s 0)) (fold_left kev (snd (do_publish c s 0)) k).
Proof.
  intros I Hd HR. rewrite (publish0_dead c s Hd). cbn [fst snd].
  rewrite (k12_fold_plain sel Hsel).
  - destruct HR as (Hok & Hnd & _). apply R12_closed; [exact Hok | exact Hnd | reflexivity].
  - repeat constructor.
Qed.

Lemma win3_pubw s q k : Inv c s -> dead s -> pub_wrote c s q = true -> conf_op c s (OPublish q) = true -> R12 s k ->
  R12 (fst (do_publish c s q)) (fold_left kev (snd (do_publish c s q)) k).
Proof.
  intros I Hd Hw Hconf HR.
  pose proof (win_step c Hcfg sel Hsel s (Legacy.OPublish q) k I Hconf HR) as HL. cbn [Legacy.step] in HL.
  destruct (legacy_publish_dead_wrote c s q Hd Hw) as (sb & E & _). rewrite E in HL. cbn [fst snd] in HL.
  rewrite (publish_dead_wrote c s q Hd Hw). cbn [fst snd].
  set (h := Handed (conn s) (PPublish (mid_next (last_mid s)) q false (ntag s))) in *.
  change [h; SockLost; Ret (ntag s) (mid_next (last_mid s)) q 4] with ([h] ++ [SockLost; Ret (ntag s) (mid_next (last_mid s)) q 4]).
  rewrite fold_left_app, (k12_fold_plain sel Hsel _ [SockLost; Ret (ntag s) (mid_next (last_mid s)) q 4]) by (repeat constructor).
  apply (R12_prefix s sb _ k [h] [Ret (ntag s) (mid_next (last_mid s)) q 0] HR HL).
  cbn [sock with_q]. apply legacy_publish_sock || (rewrite legacy_publish_sock; reflexivity).
Qed.

Lemma win3_connack s r k : Inv c s -> dead s -> cack s = false -> R12 s k ->
  R12 (fst (do_rx c s (IConnack 0) r)) (fold_left kev (snd (do_rx c s (IConnack 0) r)) k).
Proof.
  intros I Hd Hck HR. pose proof Hd as (Hs & _ & _).
  assert (Hconf : Legacy.conf_op c s (Legacy.ORx (IConnack 0) r) = true) by (cbn [Legacy.conf_op]; rewrite Hs, Hck; reflexivity).
  pose proof (win_step c Hcfg sel Hsel s (Legacy.ORx (IConnack 0) r) k I Hconf HR) as HL. cbn [Legacy.step] in HL.
  destruct (connack_dead_cases c s r Hd) as [E|[(sd & E & Hsd & _)|(sd & l1 & m & l2 & x & rest & E & Hsd & _ & _ & _ & _ & _ & EL & _)]].
  - rewrite E. exact HL.
  - rewrite E. cbn [fst snd]. rewrite (k12_fold_plain sel Hsel) by (repeat constructor).
    destruct HR as (Hok & Hnd & _). apply R12_closed; assumption.
  - rewrite E. cbn [fst snd]. rewrite EL in HL.
    change [Inp (IConnack 0); Handed (conn s) (q_pkt x); SockLost] with ([Inp (IConnack 0); Handed (conn s) (q_pkt x)] ++ [SockLost]).
    rewrite fold_left_app, (k12_fold_plain sel Hsel _ [SockLost]) by (repeat constructor).
    change (Inp (IConnack 0) :: Handed (conn s) (q_pkt x) :: rest) with ([Inp (IConnack 0); Handed (conn s) (q_pkt x)] ++ rest) in HL.
    exact (R12_prefix s _ sd k _ rest HR HL Hsd).
Qed.

End Window3.

Lemma c12_gen_full c sel : cfg_ok c = true -> view_ok sel -> forall ops,
  conforming c ops = true -> c12_gen_ok sel c (optrace c ops) = true.
Proof.
  intros Hcfg Hsel ops Hc. unfold c12_gen_ok, optrace.
  destruct (lift_flat c Hcfg k12 (k12_ev sel (c_max c)) R12 (win_step c Hcfg sel Hsel) R12_sf
              (win3_pub0 c sel Hsel) (win3_pubw c Hcfg sel Hsel) (win3_connack c Hcfg sel Hsel)
              ops (init c) k12_init (inv3_init c) Hc) as (s' & H & _).
  - split; [reflexivity|]. split; [constructor|]. intros _. apply incl_nil_l.
  - exact H.
Qed.

(* EVERY conforming history, hard write failures included *)
Theorem c12_window_proved : C12_window_stmt.
Proof. intros c ops Hcfg Hc. apply c12_gen_full; [assumption | exact view_tx | assumption]. Qed.

Theorem c12_handed_proved : C12_handed_stmt.
Proof. intros c ops Hcfg Hc. apply c12_gen_full; [assumption | exact view_handed | assumption]. Qed.

(* ================================================================ hard write failures: the queue bound *)
Section Queue3.
Variable c : cfg.
Hypothesis Hcfg : cfg_ok c = true.
Notation qv := (qev c).

Lemma Rq_tags s s' k : tags (out s') = tags (out s) -> ntag s' = ntag s ->
  (forall t, In t (q0tags (outq s')) -> In t (q0tags (outq s))) -> Rq s k -> Rq s' k.
Proof.
  intros E1 E2 E3 (Hok & Hl & Hq). split; [exact Hok|]. split; [rewrite E1; exact Hl|].
  intros t Ht. rewrite E1, E2. apply Hq. apply E3. exact Ht.
Qed.

Lemma Rq_sf s b k : Rq s k -> Rq (set_failing s b) k.
Proof. destruct s. exact (fun H => H). Qed.

Lemma Rq_lost s k : Rq s k -> Rq (lost s) k.
Proof. apply Rq_tags; try reflexivity. intros t Ht. exact Ht. Qed.

Lemma q3_pub0 s k : Inv c s -> dead s -> Rq s k ->
  Rq (fst (do_publish c s 0)) (fold_left qv (snd (do_publish c s 0)) k).
Proof.
  intros I Hd HR. pose proof Hd as (Hs & _ & _).
  pose proof (q_step c Hcfg s (Legacy.OPublish 0) k I eq_refl HR) as HL. cbn [Legacy.step] in HL.
  rewrite (publish0_dead c s Hd). cbn [fst snd]. apply Rq_lost.
  assert (E : snd (Legacy.do_publish c s 0) =
              [Handed (conn s) (PPublish (mid_next (last_mid s)) 0 false (ntag s)); Ret (ntag s) (mid_next (last_mid s)) 0 0]).
  { unfold Legacy.do_publish. cbv zeta. cbn [Z.eqb]. rewrite Hs.
    set (s1 := mkS _ _ _ _ _ _ _ _ _ _ _ _).
    assert (Hc1 : Legacy.can_write s1 = false) by (destruct Hd as (_ & _ & Hb); unfold Legacy.can_write; cbn; rewrite Hb; reflexivity).
    rewrite (legacy_send_blocked s1 _ Hc1). reflexivity. }
  rewrite E in HL. exact HL.
Qed.

Lemma q3_pubw s q k : Inv c s -> dead s -> pub_wrote c s q = true -> conf_op c s (OPublish q) = true -> Rq s k ->
  Rq (fst (do_publish c s q)) (fold_left qv (snd (do_publish c s q)) k).
Proof.
  intros I Hd Hw Hconf HR.
  assert (Hq0 : (q =? 0) = false).
  { unfold pub_wrote in Hw. destruct (q =? 0); [discriminate|reflexivity]. }
  pose proof (q_step c Hcfg (lost s) (Legacy.OPublish q) k (inv_lost c s I) Hconf (Rq_lost s k HR)) as HL. cbn [Legacy.step] in HL.
  destruct (legacy_publish_offline_wrote c (lost s) q eq_refl Hw) as (so & E & Eo & En & Eq & _). rewrite E in HL. cbn [fst snd] in HL.
  rewrite (publish_dead_wrote c s q Hd Hw), E. cbn [fst snd].
  assert (Ef : fold_left qv [Handed (conn s) (PPublish (mid_next (last_mid s)) q false (ntag s)); SockLost;
                             Ret (ntag s) (mid_next (last_mid s)) q 4] k =
               fold_left qv [Ret (ntag (lost s)) (mid_next (last_mid (lost s))) q 4] k) by reflexivity.
  rewrite Ef. revert HL. apply Rq_tags; try reflexivity.
  intros t Ht. cbn [outq with_q] in Ht. rewrite Eq. cbn [outq lost with_sock].
  rewrite q0tags_app in Ht. apply in_app_or in Ht as [Ht|Ht]; [exact Ht|].
  exfalso. cbn in Ht. rewrite Hq0 in Ht. exact Ht.
Qed.

Lemma q3_connack s r k : Inv c s -> dead s -> cack s = false -> Rq s k ->
  Rq (fst (do_rx c s (IConnack 0) r)) (fold_left qv (snd (do_rx c s (IConnack 0) r)) k).
Proof.
  intros I Hd Hck HR. pose proof Hd as (Hs & _ & _).
  assert (Hconf : Legacy.conf_op c s (Legacy.ORx (IConnack 0) r) = true) by (cbn [Legacy.conf_op]; rewrite Hs, Hck; reflexivity).
  pose proof (q_step c Hcfg s (Legacy.ORx (IConnack 0) r) k I Hconf HR) as HL. cbn [Legacy.step] in HL.
  destruct (connack_dead_cases c s r Hd) as [E|[(sd & E & Hsd & Eo & Eq & En & _)|(sd & l1 & m & l2 & x & rest & E & Hsd & So & Eo & Eq & En & Ex & _)]].
  - rewrite E. exact HL.
  - rewrite E. cbn [fst snd fold_left]. revert HR. apply Rq_tags; [rewrite Eo; reflexivity | exact En|].
    intros t Ht. rewrite Eq in Ht. exact Ht.
  - rewrite E. cbn [fst snd fold_left]. revert HR. apply Rq_tags; [| exact En|].
    + rewrite Eo, So, !tags_app. cbn [tags map]. rewrite cl1_tag. reflexivity.
    + intros t Ht. rewrite Eq, q0tags_app in Ht. apply in_app_or in Ht as [Ht|Ht]; [exact Ht|]. exfalso.
      assert (Hm : In m (out s)) by (rewrite So; apply in_or_app; right; left; reflexivity).
      pose proof (proj1 (Forall_forall _ _) (inv_qos _ _ I) m Hm) as Hqo.
      pose proof (noq0_cl_pk m Hqo) as Hn. rewrite Ex in Hn. apply Forall_inv in Hn.
      cbn [q0tags flat_map] in Ht. rewrite (noq0_q0tag x Hn) in Ht. exact Ht.
Qed.

End Queue3.

Theorem c12_queue_proved : C12_queue_stmt.
Proof.
  intros c ops Hcfg Hc. unfold c12_queue_ok, optrace.
  destruct (lift_flat c Hcfg k12q (qev c) Rq (q_step c Hcfg) Rq_sf (q3_pub0 c Hcfg) (q3_pubw c Hcfg) (q3_connack c Hcfg)
              ops (init c) (mkK12q [] true) (inv3_init c) Hc) as (s' & H & _).
  - split; [reflexivity|]. split; [reflexivity|]. intros t [].
  - exact H.
Qed.

(* On an established connection no accepted message waits while a window slot is free:
   every stored message has been handed over and awaits its acknowledgement, or it is
   queued and the window is exactly full.  EVERY conforming history, hard write failures included. *)
Theorem c12_no_idle_slot c s : Inv c s -> cack s = true ->
  Forall (fun m => is_wait m = true \/
                   (is_queued m = true /\ inflight s = c_max c /\ 0 < c_max c)) (out s).
Proof.
  intros I Hck. destruct (inv_shape _ _ I) as (C & U & Q & [So Si SC SU SQ Sm Sf Ss Se]).
  pose proof (inv_cack _ _ I Hck) as Hs. rewrite (Ss Hs) in So. cbn [app] in So.
  rewrite So. apply Forall_app. split.
  - eapply Forall_impl; [|exact (Se Hck)]. cbn beta. intros a Ha. left. exact Ha.
  - destruct Q as [|x Q]; [constructor|]. destruct (Sf ltac:(discriminate)) as [Hpos Hfull].
    eapply Forall_impl; [|exact SQ]. cbn beta. intros a Ha. right.
    split; [exact Ha|]. split; [lia | exact Hpos].
Qed.

Theorem c12_no_idle_slot_reachable c ops : cfg_ok c = true -> conforming c ops = true ->
  let s := fst (run c ops) in
  cack s = true ->
  Forall (fun m => is_wait m = true \/
                   (is_queued m = true /\ inflight s = c_max c /\ 0 < c_max c)) (out s).
Proof.
  intros Hcfg Hc s Hck. apply c12_no_idle_slot; [|assumption].
  apply inv_reachable; assumption.
Qed.

(* the counter never exceeds the window, and counts exactly the messages in the window part of the store *)
Theorem c12_counter_bounded c ops : cfg_ok c = true -> conforming c ops = true ->
  let s := fst (run c ops) in 0 < c_max c -> 0 <= inflight s <= c_max c.
Proof.
  intros Hcfg Hc s Hpos. pose proof (inv_reachable c Hcfg ops Hc) as I.
  destruct (inv_shape _ _ I) as (C & U & Q & [So Si SC SU SQ Sm Sf Ss Se]). fold s in Si, Sm.
  specialize (Sm Hpos). lia.
Qed.

Print Assumptions c12_queue_proved.
Print Assumptions c12_window_proved.
Print Assumptions c12_handed_proved.
Print Assumptions c12_no_idle_slot_reachable.
Print Assumptions c12_counter_bounded.
