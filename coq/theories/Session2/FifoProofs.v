(* The output queue is a FIFO, for ARBITRARY histories of the second-generation Session model:
   between two reconnect() calls the packets written are, in order, the first packets handed over;
   packets are written only on an open socket that accepts writes, with the number of the current
   connection; nothing is left in the queue at the end of an operation on such a socket.
   Proof of [FIFO_stmt]: the checker's queue is the model's [outq] at every step. *)
From PahoV Require Import Base.Prelude Codec.Mid Session2.Model Session2.Check Session2.Lemmas Session2.Statements.

Lemma pkt_eqb_refl p : pkt_eqb p p = true.
Proof. destruct p as [|m q d t|m t|m|m|m]; cbn; rewrite ?Z.eqb_refl, ?Bool.eqb_reflx; reflexivity. Qed.

(* the relation between the checker state and (connection number, may-write flag, socket, blocked flag, queue) *)
Definition QR (cn : Z) (can o b : bool) (k : kf) (q : list qpkt) : Prop :=
  kf_ok k = true /\ kf_q k = pkts q /\ kf_cn k = cn /\ kf_open k = o /\ kf_blk k = b /\
  (can = true -> o = true /\ b = false /\ q = []).

Definition RF (s : sess) (k : kf) : Prop :=
  QR (conn s) (can_write s) (sock s) (blocked s) k (outq s).

Lemma RF_ext s s' k : conn s' = conn s -> sock s' = sock s -> blocked s' = blocked s -> outq s' = outq s ->
  RF s k -> RF s' k.
Proof. unfold RF, can_write. intros -> -> -> ->. exact (fun H => H). Qed.
Ltac rf_ext H := refine (RF_ext _ _ _ _ _ _ _ H); cbn; congruence.

(* events the queue checker ignores *)
Definition qneutral (e : event) : bool :=
  match e with
  | Ret _ _ _ _ | CbPublish _ _ | Published _ | CbMessage _ _ _ | Raised | Inp _ | InfoLost _ => true
  | _ => false
  end.
Lemma qneutral_fold : forall evs k, forallb qneutral evs = true -> fold_left kf_ev evs k = k.
Proof.
  induction evs as [|e evs IH]; intros k H; [reflexivity|].
  cbn [forallb] in H. apply andb_true_iff in H as [He H]. cbn [fold_left].
  destruct e; try discriminate; apply IH; exact H.
Qed.

Lemma written_neutral x : forallb qneutral (written_evs x) = true.
Proof. unfold written_evs. destruct (q_pkt x) as [|m q d t| | | |]; try reflexivity. destruct (q =? 0); reflexivity. Qed.

(* writing the whole queue *)
Lemma flush_fold cn : forall q k,
  kf_ok k = true -> kf_q k = pkts q -> kf_cn k = cn -> kf_open k = true -> kf_blk k = false ->
  fold_left kf_ev (flush_evs cn q) k = mkKf [] true false cn true.
Proof.
  induction q as [|x q IH]; intros k Hok Hq Hcn Ho Hb.
  - cbn. destruct k; cbn in *; subst; reflexivity.
  - cbn [flush_evs fold_left]. rewrite fold_left_app.
    assert (E : kf_ev k (Tx cn (q_pkt x)) = mkKf (pkts q) true false cn true).
    { cbn [kf_ev]. rewrite Hq. cbn [pkts map]. rewrite Hok, Ho, Hb, Hcn, Z.eqb_refl, pkt_eqb_refl. reflexivity. }
    rewrite E, (qneutral_fold _ _ (written_neutral x)). apply IH; reflexivity.
Qed.

Lemma qr_lw cn can o b k q : QR cn can o b k q ->
  QR cn can o b (fold_left kf_ev (snd (lw cn can q)) k) (fst (lw cn can q)).
Proof.
  intros (Hok & Hq & Hcn & Ho & Hb & Hc). unfold lw. destruct can; cbn [fst snd fold_left].
  - destruct (Hc eq_refl) as (-> & -> & ->). cbn [flush_evs fold_left].
    repeat split; assumption.
  - repeat split; try assumption; discriminate.
Qed.

Lemma qr_pq cn can o b k q x : QR cn can o b k q ->
  QR cn can o b (fold_left kf_ev (snd (pq cn can q x)) k) (fst (pq cn can q x)).
Proof.
  intros (Hok & Hq & Hcn & Ho & Hb & Hc). unfold pq, lw. destruct can; cbn [fst snd fold_left].
  - destruct (Hc eq_refl) as (-> & -> & ->).
    rewrite (flush_fold cn ([] ++ [x]) (kf_ev k (Handed cn (q_pkt x)))); cbn [kf_ev kf_ok kf_q kf_cn kf_open kf_blk];
      try assumption.
    + repeat split; reflexivity.
    + rewrite Hok, Hcn, Z.eqb_refl. reflexivity.
    + rewrite Hq. reflexivity.
  - cbn [kf_ev]. repeat split; cbn [kf_ok kf_q kf_cn kf_open kf_blk]; try assumption; try discriminate.
    + rewrite Hok, Hcn, Z.eqb_refl. reflexivity.
    + rewrite Hq. unfold pkts. rewrite map_app. reflexivity.
Qed.

(* the two loops, without any assumption on the message store *)
Lemma qr_connack_loop cn can o b : forall l k q, QR cn can o b k q ->
  QR cn can o b (fold_left kf_ev (snd (connack_loop cn can q l)) k) (snd (fst (connack_loop cn can q l))).
Proof.
  induction l as [|m l IH]; intros k q H; cbn [connack_loop]; [exact H|].
  assert (Hskip : QR cn can o b
            (fold_left kf_ev (snd (let (q1, ev1) := lw cn can q in
                                   let '(r, q2, ev2) := connack_loop cn can q1 l in (m :: r, q2, ev1 ++ ev2))) k)
            (snd (fst (let (q1, ev1) := lw cn can q in
                       let '(r, q2, ev2) := connack_loop cn can q1 l in (m :: r, q2, ev1 ++ ev2))))).
  { pose proof (qr_lw _ _ _ _ _ _ H) as H1. destruct (lw cn can q) as [q1 ev1]. cbn [fst snd] in H1.
    specialize (IH _ _ H1). destruct (connack_loop cn can q1 l) as [[r q2] ev2]. cbn [fst snd] in *.
    rewrite fold_left_app. exact IH. }
  assert (Hsend : forall x m', QR cn can o b
            (fold_left kf_ev (snd (let (q1, ev1) := pq cn can q x in
                                   let '(r, q2, ev2) := connack_loop cn can q1 l in (m' :: r, q2, ev1 ++ ev2))) k)
            (snd (fst (let (q1, ev1) := pq cn can q x in
                       let '(r, q2, ev2) := connack_loop cn can q1 l in (m' :: r, q2, ev1 ++ ev2))))).
  { intros x m'. pose proof (qr_pq _ _ _ _ _ _ x H) as H1. destruct (pq cn can q x) as [q1 ev1]. cbn [fst snd] in H1.
    specialize (IH _ _ H1). destruct (connack_loop cn can q1 l) as [[r q2] ev2]. cbn [fst snd] in *.
    rewrite fold_left_app. exact IH. }
  destruct (o_st m); try exact Hskip.
  - apply Hsend.
  - destruct (o_qos m =? 2); [apply Hsend | exact Hskip].
  - pose proof (qr_lw _ _ _ _ _ _ H) as H1. destruct (lw cn can q) as [q1 ev1]. exact H1.
Qed.

Lemma qr_update_inflight c cn can o b : forall l infl k q, QR cn can o b k q ->
  QR cn can o b (fold_left kf_ev (snd (update_inflight c cn can infl q l)) k)
     (snd (fst (update_inflight c cn can infl q l))).
Proof.
  induction l as [|m l IH]; intros infl k q H; cbn [update_inflight]; [exact H|].
  destruct (infl <? c_max c); [|exact H].
  destruct (is_queued m).
  - pose proof (qr_pq _ _ _ _ _ _ (mkQ (pub_pkt m) false) H) as H1.
    destruct (pq cn can q (mkQ (pub_pkt m) false)) as [q1 ev1]. cbn [fst snd] in H1.
    specialize (IH (infl + 1) _ _ H1). destruct (update_inflight c cn can (infl + 1) q1 l) as [[[r n] q2] ev2].
    cbn [fst snd] in *. rewrite fold_left_app. exact IH.
  - specialize (IH infl _ _ H). destruct (update_inflight c cn can infl q l) as [[[r n] q2] ev2]. exact IH.
Qed.

(* one hand-over from outside a callback *)
Lemma rf_send s x k : RF s k -> RF (fst (send s x)) (fold_left kf_ev (snd (send s x)) k).
Proof.
  intros H. unfold send. pose proof (qr_pq _ _ _ _ _ _ x H) as H1.
  destruct (pq (conn s) (can_write s) (outq s) x) as [q' ev]. exact H1.
Qed.

Lemma rf_neutral s k evs : forallb qneutral evs = true -> RF s k -> RF s (fold_left kf_ev evs k).
Proof. intros Hn H. rewrite (qneutral_fold _ _ Hn). exact H. Qed.

Lemma fold_cons e evs k : fold_left kf_ev (e :: evs) k = fold_left kf_ev evs (kf_ev k e).
Proof. reflexivity. Qed.

Section Fifo.
Variable c : cfg.

Lemma rf_publish s q k : RF s k -> RF (fst (do_publish c s q)) (fold_left kf_ev (snd (do_publish c s q)) k).
Proof.
  intros H. unfold do_publish. cbv zeta.
  assert (Hret : forall s' tag mid rc, RF s' k -> RF s' (fold_left kf_ev [Ret tag mid q rc] k)) by (intros; assumption).
  assert (Hsend : forall s1 x tag mid rc, RF s1 k ->
            RF (fst (let (s2, ev) := send s1 x in (s2, ev ++ [Ret tag mid q rc])))
               (fold_left kf_ev (snd (let (s2, ev) := send s1 x in (s2, ev ++ [Ret tag mid q rc]))) k)).
  { intros s1 x tag mid rc H1. pose proof (rf_send s1 x k H1) as H2. destruct (send s1 x) as [s2 ev].
    cbn [fst snd] in *. rewrite fold_left_app. exact H2. }
  destruct (q =? 0).
  { destruct (sock s) eqn:Hs; [apply Hsend | apply Hret]; rf_ext H. }
  destruct ((c_maxq c >? 0) && (Z.of_nat (length (out s)) >=? c_maxq c)); [apply Hret; rf_ext H|].
  destruct (has_mid (mid_next (last_mid s)) (out s)); [apply Hret; rf_ext H|].
  destruct (window_free c (inflight s)); [destruct (sock s) eqn:Hs|];
    [apply Hsend | apply Hret | apply Hret]; (rf_ext H).
Qed.

Lemma lost_neutral q : forallb qneutral (flat_map lost_evs q) = true.
Proof.
  induction q as [|x q IH]; [reflexivity|]. cbn [flat_map]. rewrite forallb_app, IH, andb_true_r.
  unfold lost_evs. destruct (q_pkt x) as [|m qs d t| | | |]; try reflexivity.
  destruct ((qs =? 0) && q_info x); reflexivity.
Qed.

Lemma rf_reconnect s ok k : RF s k -> RF (fst (do_reconnect c s ok)) (fold_left kf_ev (snd (do_reconnect c s ok)) k).
Proof.
  intros (Hok & Hq & Hcn & Ho & Hb & Hc). unfold do_reconnect.
  destruct (reset_out_list c (clean_now c s) 0 (out s)) as [o n].
  destruct ok; cbn [fst snd]; rewrite fold_cons, fold_left_app, (qneutral_fold _ _ (lost_neutral _)).
  - cbn [fold_left kf_ev kf_q kf_ok kf_open kf_blk kf_cn app]. rewrite Hok, !Z.eqb_refl. cbn.
    unfold RF, QR, can_write. cbn. repeat split; reflexivity.
  - cbn [fold_left kf_ev]. unfold RF, QR, can_write. cbn. repeat split; try assumption; discriminate.
Qed.

Lemma rf_sock_false s k : RF s k -> RF (with_sock s false) (kf_ev k SockLost).
Proof.
  intros (Hok & Hq & Hcn & Ho & Hb & Hc). unfold RF, QR, can_write. cbn.
  repeat split; try assumption; discriminate.
Qed.

Lemma rf_on_publish s m k : RF s k ->
  RF (fst (do_on_publish c s m)) (fold_left kf_ev (snd (do_on_publish c s m)) k).
Proof.
  intros H. unfold do_on_publish. destruct (c_max c >? 0).
  - pose proof (qr_update_inflight c _ _ _ _ (remove_mid (o_mid m) (out s)) (inflight s - 1) _ _ H) as H1.
    destruct (update_inflight c (conn s) (can_write s) (inflight s - 1) (outq s) (remove_mid (o_mid m) (out s)))
      as [[[o' n] q'] ev]. cbn [fst snd] in *. exact H1.
  - cbn [fst snd fold_left kf_ev]. rf_ext H.
Qed.

Lemma rf_rx s p r k : RF s k -> RF (fst (do_rx c s p r)) (fold_left kf_ev (snd (do_rx c s p r)) k).
Proof.
  intros H. unfold do_rx. destruct (sock s) eqn:Hs; cbn [negb]; [|exact H].
  assert (Hsend : forall s1 x pre, forallb qneutral pre = true -> RF s1 k ->
            RF (fst (let (s2, ev2) := send s1 x in (s2, pre ++ ev2)))
               (fold_left kf_ev (snd (let (s2, ev2) := send s1 x in (s2, pre ++ ev2))) k)).
  { intros s1 x pre Hpre H1. pose proof (rf_send s1 x k H1) as H2. destruct (send s1 x) as [s2 ev].
    cbn [fst snd] in *. rewrite fold_left_app, (qneutral_fold _ _ Hpre). exact H2. }
  destruct p as [rc|mid|mid|mid|mid|q mid tag].
  - destruct (rc =? 0).
    + assert (H0 : QR (conn s) (can_write s) (sock s) (blocked s) k (outq s)) by exact H.
      pose proof (qr_connack_loop _ _ _ _ (out s) _ _ H0) as H1.
      destruct (connack_loop (conn s) (can_write s) (outq s) (out s)) as [[o q'] ev]. cbn [fst snd] in *.
      unfold RF, can_write in *. cbn [conn sock blocked outq with_q with_out fold_left kf_ev] in *.
      rewrite ?Hs in *. exact H1.
    + cbn [fst snd fold_left]. change (kf_ev k (Inp (IConnack rc))) with k.
      apply (rf_sock_false (mkS (out s) (inm s) (inflight s) (last_mid s) (sock s) false true (conn s) (ntag s) (outq s) (blocked s))).
      rf_ext H.
  - destruct (find_mid mid (out s)) as [m|]; [|exact H].
    pose proof (rf_on_publish s m k H) as H1. destruct (do_on_publish c s m) as [s' ev]. exact H1.
  - destruct (find_mid mid (out s)) as [m|]; [|exact H].
    apply (Hsend _ _ [Inp (IPubrec mid)] eq_refl). rf_ext H.
  - destruct (find_mid mid (out s)) as [m|]; [|exact H].
    pose proof (rf_on_publish s m k H) as H1. destruct (do_on_publish c s m) as [s' ev]. exact H1.
  - destruct (in_find mid (inm s)) as [tag|]; unfold deliver.
    + destruct (r && negb (c_suppress c)); [|destruct (c_manual c)]; cbn [fst snd];
        try (apply rf_neutral; [reflexivity|]; rf_ext H).
      apply (Hsend _ _ [Inp (IPubrel mid); CbMessage mid 2 tag] eq_refl). rf_ext H.
    + destruct (c_manual c); [exact H|]. apply (Hsend _ _ [Inp (IPubrel mid)] eq_refl). exact H.
  - unfold deliver. destruct (q =? 0).
    + destruct (r && negb (c_suppress c)); cbn [fst snd]; apply rf_neutral; try reflexivity; exact H.
    + destruct (q =? 1).
      * destruct (r && negb (c_suppress c)); [|destruct (c_manual c)]; cbn [fst snd];
          try (apply rf_neutral; [reflexivity | exact H]).
        apply (Hsend _ _ [Inp (IPublish q mid tag); CbMessage mid 1 tag] eq_refl). exact H.
      * pose proof (rf_send s (mkQ (PPubrec mid) false) k H) as H1.
        destruct (send s (mkQ (PPubrec mid) false)) as [s2 ev2]. cbn [fst snd] in *.
        rf_ext H1.
Qed.

Lemma rf_step s o k : RF s k -> RF (fst (step c s o)) (fold_left kf_ev (snd (step c s o)) k).
Proof.
  intros H. destruct o as [q|ok| |p r|mid q|b]; cbn [step].
  - apply rf_publish; exact H.
  - apply rf_reconnect; exact H.
  - destruct (sock s); [|exact H]. apply rf_sock_false. exact H.
  - apply rf_rx; exact H.
  - unfold do_ack. destruct (c_manual c); [|exact H].
    destruct (q =? 1); [apply rf_send; exact H|]. destruct (q =? 2); [apply rf_send; exact H | exact H].
  - unfold do_block. destruct (sock s) eqn:Hs; [|exact H].
    destruct H as (Hok & Hq & Hcn & Ho & Hb & Hc). destruct b; cbn [fst snd lw].
    + cbn [fold_left kf_ev]. unfold RF, QR, can_write. cbn. rewrite andb_false_r.
      repeat split; try assumption; discriminate.
    + rewrite fold_cons. rewrite (flush_fold (conn s) (outq s)); cbn [kf_ev kf_ok kf_q kf_cn kf_open kf_blk]; try assumption.
      * unfold RF, QR, can_write. cbn. rewrite Hs. repeat split; reflexivity.
      * rewrite Ho. exact Hs.
      * reflexivity.
Qed.

(* the end-of-operation clause *)
Lemma rf_op s o k : RF s k -> RF (fst (step c s o)) (kf_op k (snd (step c s o))).
Proof.
  intros H. pose proof (rf_step s o k H) as H1. unfold kf_op. cbv zeta.
  set (k' := fold_left kf_ev (snd (step c s o)) k) in *. set (s' := fst (step c s o)) in *.
  destruct H1 as (Hok & Hq & Hcn & Ho & Hb & Hc). unfold RF, QR. cbn [kf_ok kf_q kf_cn kf_open kf_blk].
  split; [|split; [exact Hq|split; [exact Hcn|split; [exact Ho|split; [exact Hb|exact Hc]]]]].
  rewrite Hok, Ho, Hb, Hq. cbn [andb]. unfold can_write in Hc.
  destruct (sock s'); [|reflexivity]. destruct (blocked s'); [reflexivity|].
  destruct (Hc eq_refl) as (_ & _ & ->). reflexivity.
Qed.

Lemma fifo_from : forall ops s k, RF s k ->
  kf_ok (fold_left kf_op (map snd (run_steps c s ops)) k) = true.
Proof.
  induction ops as [|o ops IH]; intros s k H; cbn [run_steps].
  - cbn. exact (proj1 H).
  - pose proof (rf_op s o k H) as H1. destruct (step c s o) as [s' ev]. cbn [fst snd map fold_left] in *.
    apply IH. exact H1.
Qed.

End Fifo.

Theorem fifo_proved : FIFO_stmt.
Proof.
  intros c ops. unfold fifo_ok, optrace. apply fifo_from.
  unfold RF, QR, can_write. cbn. repeat split; discriminate.
Qed.

Print Assumptions fifo_proved.
