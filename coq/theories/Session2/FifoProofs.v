(* The output queue is a FIFO, for ARBITRARY histories of the second-generation Session model:
   between two reconnect() calls the packets written are, in order, the first packets handed over;
   packets are written only on an open socket that accepts writes, with the number of the current
   connection; nothing is left in the queue at the end of an operation on such a socket.
   Proof of [FIFO_stmt]: the checker's queue is the model's [outq] at every step. *)
From PahoV Require Import Base.Prelude Codec.Mid Session2.Model Session2.Check Session2.LLemmas Session2.Statements.

Lemma pkt_eqb_refl p : pkt_eqb p p = true.
Proof. destruct p as [|m q d t|m t|m|m|m]; cbn; rewrite ?Z.eqb_refl, ?Bool.eqb_reflx; reflexivity. Qed.

(* the relation between the checker state and (connection number, transport mode, is there a socket, queue) *)
Definition QR (cn : Z) (t : tmode) (alive : bool) (k : kf) (q : list qpkt) : Prop :=
  kf_ok k = true /\ kf_q k = pkts q /\ kf_cn k = cn /\ kf_open k = alive /\ kf_blk k = refuses t /\
  (alive = true -> t <> TBlock -> q = []).

Definition RF (s : sess) (k : kf) : Prop :=
  QR (conn s) (tm s) (sock s) k (outq s).

Lemma RF_ext s s' k : conn s' = conn s -> sock s' = sock s -> blocked s' = blocked s -> failing s' = failing s ->
  outq s' = outq s -> RF s k -> RF s' k.
Proof. unfold RF, tm. intros -> -> -> -> ->. exact (fun H => H). Qed.
Ltac rf_ext H := refine (RF_ext _ _ _ _ _ _ _ _ H); cbn; congruence.

(* events the queue checker ignores *)
Definition qneutral (e : event) : bool :=
  match e with
  | Ret _ _ _ _ | CbPublish _ _ | Published _ | CbMessage _ _ _ | Raised | Inp _ | InfoLost _ => true
  | _ => false
  end.
Lemma qneutral_fold : forall evs k, forallb qneutral evs = true -> fold_left kf_ev evs k = k.
Proof.
  induction evs as [|e evs IH]; intros k H; [reflexivity|].
  cbn [forallb] in H. apply andb_true_iff in H as [He H]. cbn [fold_left].
  destruct e; try discriminate; apply IH; exact H.
Qed.

Lemma written_neutral x : forallb qneutral (written_evs x) = true.
Proof. unfold written_evs. destruct (q_pkt x) as [|m q d t| | | |]; try reflexivity. destruct (q =? 0); reflexivity. Qed.

(* writing the whole queue *)
Lemma flush_fold cn : forall q k,
  kf_ok k = true -> kf_q k = pkts q -> kf_cn k = cn -> kf_open k = true -> kf_blk k = false ->
  fold_left kf_ev (flush_evs cn q) k = mkKf [] true false cn true.
Proof.
  induction q as [|x q IH]; intros k Hok Hq Hcn Ho Hb.
  - cbn. destruct k; cbn in *; subst; reflexivity.
  - cbn [flush_evs fold_left]. rewrite fold_left_app.
    assert (E : kf_ev k (Tx cn (q_pkt x)) = mkKf (pkts q) true false cn true).
    { cbn [kf_ev]. rewrite Hq. cbn [pkts map]. rewrite Hok, Ho, Hb, Hcn, Z.eqb_refl, pkt_eqb_refl. reflexivity. }
    rewrite E, (qneutral_fold _ _ (written_neutral x)). apply IH; reflexivity.
Qed.


Lemma qr_lw cn t alive k q : QR cn t alive k q ->
  QR cn t (snd (lw cn t alive q)) (fold_left kf_ev (snd (fst (lw cn t alive q))) k) (fst (fst (lw cn t alive q))).
Proof.
  intros (Hok & Hq & Hcn & Ho & Hb & Hc). unfold lw. destruct alive; cbn [fst snd fold_left].
  2:{ repeat split; assumption. }
  destruct t; cbn [fst snd fold_left].
  - rewrite (Hc eq_refl ltac:(discriminate)). cbn [flush_evs fold_left].
    split; [exact Hok|]. split; [rewrite Hq, (Hc eq_refl ltac:(discriminate)); reflexivity|].
    repeat split; try assumption.
  - repeat split; assumption.
  - rewrite (Hc eq_refl ltac:(discriminate)). cbn [fst snd fold_left].
    split; [exact Hok|]. split; [rewrite Hq, (Hc eq_refl ltac:(discriminate)); reflexivity|].
    repeat split; try assumption.
Qed.

Lemma qr_pq cn t alive k q x : QR cn t alive k q ->
  QR cn t (snd (pq cn t alive q x)) (fold_left kf_ev (snd (fst (pq cn t alive q x))) k) (fst (fst (pq cn t alive q x))).
Proof.
  intros (Hok & Hq & Hcn & Ho & Hb & Hc). unfold pq, lw. destruct alive.
  2:{ cbn [fst snd fold_left kf_ev]. repeat split; cbn [kf_ok kf_q kf_cn kf_open kf_blk]; try assumption; try discriminate.
      - rewrite Hok, Hcn, Z.eqb_refl. reflexivity.
      - rewrite Hq. unfold pkts. rewrite map_app. reflexivity. }
  destruct t.
  - rewrite (Hc eq_refl ltac:(discriminate)). cbn [app fst snd fold_left].
    rewrite (flush_fold cn [x] (kf_ev k (Handed cn (q_pkt x)))); cbn [kf_ev kf_ok kf_q kf_cn kf_open kf_blk]; try assumption.
    + unfold QR. cbn. repeat split; reflexivity.
    + rewrite Hok, Hcn, Z.eqb_refl. reflexivity.
    + rewrite Hq, (Hc eq_refl ltac:(discriminate)). reflexivity.
  - cbn [fst snd fold_left kf_ev]. repeat split; cbn [kf_ok kf_q kf_cn kf_open kf_blk]; try assumption.
    + rewrite Hok, Hcn, Z.eqb_refl. reflexivity.
    + rewrite Hq. unfold pkts. rewrite map_app. reflexivity.
    + intros _ H. exfalso. apply H. reflexivity.
  - rewrite (Hc eq_refl ltac:(discriminate)). cbn [app fst snd fold_left kf_ev].
    repeat split; cbn [kf_ok kf_q kf_cn kf_open kf_blk]; try assumption; try discriminate.
    + rewrite Hok, Hcn, Z.eqb_refl. reflexivity.
    + rewrite Hq, (Hc eq_refl ltac:(discriminate)). reflexivity.
Qed.

(* the two loops, without any assumption on the message store *)
Lemma qr_connack_loop cn t : forall l k q, QR cn t true k q ->
  QR cn t (snd (connack_loop cn t q l)) (fold_left kf_ev (snd (fst (connack_loop cn t q l))) k)
     (snd (fst (fst (connack_loop cn t q l)))).
Proof.
  induction l as [|m l IH]; intros k q H; cbn [connack_loop]; [exact H|].
  assert (Hskip : QR cn t
            (snd (let '(q1, ev1, a1) := lw cn t true q in
                  if a1 then let '(r, q2, ev2, a2) := connack_loop cn t q1 l in (m :: r, q2, ev1 ++ ev2, a2)
                  else (m :: l, q1, ev1, false)))
            (fold_left kf_ev (snd (fst (let '(q1, ev1, a1) := lw cn t true q in
                                   if a1 then let '(r, q2, ev2, a2) := connack_loop cn t q1 l in (m :: r, q2, ev1 ++ ev2, a2)
                                   else (m :: l, q1, ev1, false)))) k)
            (snd (fst (fst (let '(q1, ev1, a1) := lw cn t true q in
                       if a1 then let '(r, q2, ev2, a2) := connack_loop cn t q1 l in (m :: r, q2, ev1 ++ ev2, a2)
                       else (m :: l, q1, ev1, false)))))).
  { pose proof (qr_lw _ _ _ _ _ H) as H1. destruct (lw cn t true q) as [[q1 ev1] a1]. cbn [fst snd] in H1.
    destruct a1; [|exact H1].
    specialize (IH _ _ H1). destruct (connack_loop cn t q1 l) as [[[r q2] ev2] a2]. cbn [fst snd] in *.
    rewrite fold_left_app. exact IH. }
  assert (Hsend : forall x m', QR cn t
            (snd (let '(q1, ev1, a1) := pq cn t true q x in
                  if a1 then let '(r, q2, ev2, a2) := connack_loop cn t q1 l in (m' :: r, q2, ev1 ++ ev2, a2)
                  else (m' :: l, q1, ev1, false)))
            (fold_left kf_ev (snd (fst (let '(q1, ev1, a1) := pq cn t true q x in
                                   if a1 then let '(r, q2, ev2, a2) := connack_loop cn t q1 l in (m' :: r, q2, ev1 ++ ev2, a2)
                                   else (m' :: l, q1, ev1, false)))) k)
            (snd (fst (fst (let '(q1, ev1, a1) := pq cn t true q x in
                       if a1 then let '(r, q2, ev2, a2) := connack_loop cn t q1 l in (m' :: r, q2, ev1 ++ ev2, a2)
                       else (m' :: l, q1, ev1, false)))))).
  { intros x m'. pose proof (qr_pq _ _ _ _ _ x H) as H1. destruct (pq cn t true q x) as [[q1 ev1] a1]. cbn [fst snd] in H1.
    destruct a1; [|exact H1].
    specialize (IH _ _ H1). destruct (connack_loop cn t q1 l) as [[[r q2] ev2] a2]. cbn [fst snd] in *.
    rewrite fold_left_app. exact IH. }
  destruct (o_st m); try exact Hskip.
  - apply Hsend.
  - destruct (o_qos m =? 2); [apply Hsend | exact Hskip].
  - pose proof (qr_lw _ _ _ _ _ H) as H1. destruct (lw cn t true q) as [[q1 ev1] a1]. exact H1.
Qed.

Lemma qr_update_inflight c cn t : forall l infl k q, QR cn t true k q ->
  QR cn t (snd (update_inflight c cn t infl q l)) (fold_left kf_ev (snd (fst (update_inflight c cn t infl q l))) k)
     (snd (fst (fst (update_inflight c cn t infl q l)))).
Proof.
  induction l as [|m l IH]; intros infl k q H; cbn [update_inflight]; [exact H|].
  destruct (infl <? c_max c); [|exact H].
  destruct (is_queued m).
  - pose proof (qr_pq _ _ _ _ _ (mkQ (pub_pkt m) false) H) as H1.
    destruct (pq cn t true q (mkQ (pub_pkt m) false)) as [[q1 ev1] a1]. cbn [fst snd] in H1.
    destruct a1; [|exact H1].
    specialize (IH (infl + 1) _ _ H1). destruct (update_inflight c cn t (infl + 1) q1 l) as [[[[r n] q2] ev2] a2].
    cbn [fst snd] in *. rewrite fold_left_app. exact IH.
  - specialize (IH infl _ _ H). destruct (update_inflight c cn t infl q l) as [[[[r n] q2] ev2] a2]. exact IH.
Qed.

(* the state after write attempts *)
Lemma rf_settle s k' q' a : sock s = true -> QR (conn s) (tm s) a k' q' -> RF (settle s q' a) k'.
Proof.
  intros Hs H. unfold settle, RF. destruct a.
  - cbn [conn sock outq with_q]. change (tm (with_q s q')) with (tm s). rewrite Hs. exact H.
  - cbn [conn sock outq with_q with_sock]. change (tm (with_q (with_sock s false) q')) with (tm s). exact H.
Qed.

(* one hand-over from outside a callback *)
Lemma rf_send s x k : RF s k -> RF (fst (send s x)) (fold_left kf_ev (snd (send s x)) k).
Proof.
  intros H. unfold send. destruct (sock s) eqn:Hs.
  - assert (H0 : QR (conn s) (tm s) true k (outq s)) by (unfold RF in H; rewrite Hs in H; exact H).
    pose proof (qr_pq _ _ _ _ _ x H0) as H1.
    destruct (pq (conn s) (tm s) true (outq s) x) as [[q' ev] a]. cbn [fst snd] in *. apply rf_settle; assumption.
  - unfold RF in *. rewrite Hs in H. pose proof (qr_pq _ _ _ _ _ x H) as H1. cbn [pq lw fst snd] in H1.
    cbn [fst snd conn sock outq with_q]. change (tm (with_q s (outq s ++ [x]))) with (tm s). rewrite Hs. exact H1.
Qed.

Lemma rf_neutral s k evs : forallb qneutral evs = true -> RF s k -> RF s (fold_left kf_ev evs k).
Proof. intros Hn H. rewrite (qneutral_fold _ _ Hn). exact H. Qed.

Lemma fold_cons e evs k : fold_left kf_ev (e :: evs) k = fold_left kf_ev evs (kf_ev k e).
Proof. reflexivity. Qed.

Section Fifo.
Variable c : cfg.

Lemma rf_publish s q k : RF s k -> RF (fst (do_publish c s q)) (fold_left kf_ev (snd (do_publish c s q)) k).
Proof.
  intros H. unfold do_publish. cbv zeta.
  assert (Hret : forall s' tag mid rc, RF s' k -> RF s' (fold_left kf_ev [Ret tag mid q rc] k)) by (intros; assumption).
  assert (Hsend : forall s1 x tag mid (rcf : sess -> Z), RF s1 k ->
            RF (fst (let (s2, ev) := send s1 x in (s2, ev ++ [Ret tag mid q (rcf s2)])))
               (fold_left kf_ev (snd (let (s2, ev) := send s1 x in (s2, ev ++ [Ret tag mid q (rcf s2)]))) k)).
  { intros s1 x tag mid rcf H1. pose proof (rf_send s1 x k H1) as H2. destruct (send s1 x) as [s2 ev].
    cbn [fst snd] in *. rewrite fold_left_app. exact H2. }
  destruct (q =? 0).
  { destruct (sock s) eqn:Hs; [apply (Hsend _ _ _ _ (fun s2 => if sock s2 then 0 else 7)) | apply Hret]; rf_ext H. }
  destruct ((c_maxq c >? 0) && (Z.of_nat (length (out s)) >=? c_maxq c)); [apply Hret; rf_ext H|].
  destruct (has_mid (mid_next (last_mid s)) (out s)); [apply Hret; rf_ext H|].
  destruct (window_free c (inflight s)); [destruct (sock s) eqn:Hs|]; [| apply Hret; rf_ext H | apply Hret; rf_ext H].
  match goal with |- context [send ?s0 ?x0] =>
    assert (H1 : RF s0 k) by (rf_ext H); pose proof (rf_send s0 x0 k H1) as H2; destruct (send s0 x0) as [s2 ev] end.
  cbn [fst snd] in *. destruct (sock s2); cbn [fst snd]; rewrite fold_left_app; [exact H2 | rf_ext H2].
Qed.

Lemma lost_neutral q : forallb qneutral (flat_map lost_evs q) = true.
Proof.
  induction q as [|x q IH]; [reflexivity|]. cbn [flat_map]. rewrite forallb_app, IH, andb_true_r.
  unfold lost_evs. destruct (q_pkt x) as [|m qs d t| | | |]; try reflexivity.
  destruct ((qs =? 0) && q_info x); reflexivity.
Qed.

Lemma rf_reconnect s ok k : RF s k -> RF (fst (do_reconnect c s ok)) (fold_left kf_ev (snd (do_reconnect c s ok)) k).
Proof.
  intros (Hok & Hq & Hcn & Ho & Hb & Hc). unfold do_reconnect.
  destruct (reset_out_list c (clean_now c s) 0 (out s)) as [o n].
  destruct ok; cbn [fst snd]; rewrite fold_cons, fold_left_app, (qneutral_fold _ _ (lost_neutral _)).
  - cbn [fold_left kf_ev kf_q kf_ok kf_open kf_blk kf_cn app]. rewrite Hok, !Z.eqb_refl. cbn.
    unfold RF, QR, tm. cbn. repeat split; reflexivity.
  - cbn [fold_left kf_ev]. unfold RF, QR, tm. cbn. repeat split; try assumption; discriminate.
Qed.

Lemma rf_sock_false s k : RF s k -> RF (with_sock s false) (kf_ev k SockLost).
Proof.
  intros (Hok & Hq & Hcn & Ho & Hb & Hc). unfold RF, QR. cbn [conn sock outq with_sock kf_ev kf_ok kf_q kf_cn kf_open kf_blk].
  change (tm (with_sock s false)) with (tm s). repeat split; try assumption; discriminate.
Qed.

Lemma rf_on_publish s m k : sock s = true -> RF s k ->
  RF (fst (do_on_publish c s m)) (fold_left kf_ev (snd (do_on_publish c s m)) k).
Proof.
  intros Hs H. unfold do_on_publish. destruct (c_max c >? 0).
  - assert (H0 : QR (conn s) (tm s) true k (outq s)) by (unfold RF in H; rewrite Hs in H; exact H).
    pose proof (qr_update_inflight c _ _ (remove_mid (o_mid m) (out s)) (inflight s - 1) _ _ H0) as H1.
    destruct (update_inflight c (conn s) (tm s) (inflight s - 1) (outq s) (remove_mid (o_mid m) (out s)))
      as [[[[o' n] q'] ev] a]. cbn [fst snd fold_left kf_ev] in *.
    apply (rf_settle (with_out s o' n)); [exact Hs | exact H1].
  - cbn [fst snd fold_left kf_ev]. rf_ext H.
Qed.

Lemma rf_rx s p r k : RF s k -> RF (fst (do_rx c s p r)) (fold_left kf_ev (snd (do_rx c s p r)) k).
Proof.
  intros H. unfold do_rx. destruct (sock s) eqn:Hs; cbn [negb]; [|exact H].
  assert (Hsend : forall s1 x pre, forallb qneutral pre = true -> RF s1 k ->
            RF (fst (let (s2, ev2) := send s1 x in (s2, pre ++ ev2)))
               (fold_left kf_ev (snd (let (s2, ev2) := send s1 x in (s2, pre ++ ev2))) k)).
  { intros s1 x pre Hpre H1. pose proof (rf_send s1 x k H1) as H2. destruct (send s1 x) as [s2 ev].
    cbn [fst snd] in *. rewrite fold_left_app, (qneutral_fold _ _ Hpre). exact H2. }
  destruct p as [rc|mid|mid|mid|mid|q mid tag].
  - destruct (rc =? 0).
    + assert (H0 : QR (conn s) (tm s) true k (outq s)) by (unfold RF in H; rewrite Hs in H; exact H).
      pose proof (qr_connack_loop _ _ (out s) _ _ H0) as H1.
      destruct (connack_loop (conn s) (tm s) (outq s) (out s)) as [[[o q'] ev] a]. cbn [fst snd fold_left kf_ev] in *.
      set (s1 := with_out _ o (inflight s)).
      apply (rf_settle s1); [reflexivity | exact H1].
    + cbn [fst snd fold_left]. change (kf_ev k (Inp (IConnack rc))) with k.
      apply (rf_sock_false (mkS (out s) (inm s) (inflight s) (last_mid s) (sock s) false true (conn s) (ntag s) (outq s) (blocked s) (failing s))).
      rf_ext H.
  - destruct (find_mid mid (out s)) as [m|]; [|exact H].
    pose proof (rf_on_publish s m k Hs H) as H1. destruct (do_on_publish c s m) as [s' ev]. exact H1.
  - destruct (find_mid mid (out s)) as [m|]; [|exact H].
    apply (Hsend _ _ [Inp (IPubrec mid)] eq_refl). rf_ext H.
  - destruct (find_mid mid (out s)) as [m|]; [|exact H].
    pose proof (rf_on_publish s m k Hs H) as H1. destruct (do_on_publish c s m) as [s' ev]. exact H1.
  - destruct (in_find mid (inm s)) as [tag|]; unfold deliver.
    + destruct (r && negb (c_suppress c)); [|destruct (c_manual c)]; cbn [fst snd];
        try (apply rf_neutral; [reflexivity|]; rf_ext H).
      apply (Hsend _ _ [Inp (IPubrel mid); CbMessage mid 2 tag] eq_refl). rf_ext H.
    + destruct (c_manual c); [exact H|]. apply (Hsend _ _ [Inp (IPubrel mid)] eq_refl). exact H.
  - unfold deliver. destruct (q =? 0).
    + destruct (r && negb (c_suppress c)); cbn [fst snd]; apply rf_neutral; try reflexivity; exact H.
    + destruct (q =? 1).
      * destruct (r && negb (c_suppress c)); [|destruct (c_manual c)]; cbn [fst snd];
          try (apply rf_neutral; [reflexivity | exact H]).
        apply (Hsend _ _ [Inp (IPublish q mid tag); CbMessage mid 1 tag] eq_refl). exact H.
      * pose proof (rf_send s (mkQ (PPubrec mid) false) k H) as H1.
        destruct (send s (mkQ (PPubrec mid) false)) as [s2 ev2]. cbn [fst snd] in *.
        rf_ext H1.
Qed.

Lemma rf_step s o k : RF s k -> RF (fst (step c s o)) (fold_left kf_ev (snd (step c s o)) k).
Proof.
  intros H. destruct o as [q|ok| |p r|mid q|m]; cbn [step].
  - apply rf_publish; exact H.
  - apply rf_reconnect; exact H.
  - destruct (sock s); [|exact H]. apply rf_sock_false. exact H.
  - apply rf_rx; exact H.
  - unfold do_ack. destruct (c_manual c); [|exact H].
    destruct (q =? 1); [apply rf_send; exact H|]. destruct (q =? 2); [apply rf_send; exact H | exact H].
  - unfold do_transport. destruct (sock s) eqn:Hs; [|exact H].
    destruct H as (Hok & Hq & Hcn & Ho & Hb & Hc). rewrite Hs in Ho.
    assert (Hgo : forall m', m' <> TBlock ->
              RF (fst (let '(q', ev, a) := lw (conn s) m' true (outq s) in (settle (with_tm s m') q' a, Blk (refuses m') :: ev)))
                 (fold_left kf_ev (snd (let '(q', ev, a) := lw (conn s) m' true (outq s) in (settle (with_tm s m') q' a, Blk (refuses m') :: ev))) k)).
    { intros m' Hm'. unfold lw. destruct m'; [| exfalso; apply Hm'; reflexivity |].
      - cbn [fst snd settle]. rewrite fold_cons.
        rewrite (flush_fold (conn s) (outq s)); cbn [kf_ev kf_ok kf_q kf_cn kf_open kf_blk refuses]; try assumption; try reflexivity.
        unfold RF, QR, tm. cbn. rewrite Hs. repeat split; reflexivity.
      - destruct (outq s) as [|x q0] eqn:Eq; cbn [fst snd settle fold_left kf_ev refuses].
        + unfold RF, QR, tm. cbn. rewrite Hs. repeat split; try assumption; try reflexivity.
        + unfold RF, QR, tm. cbn. repeat split; try assumption; try reflexivity; try discriminate. }
    destruct m.
    + apply Hgo. discriminate.
    + cbn [fst snd fold_left kf_ev]. unfold RF, QR, tm. cbn. rewrite Hs.
      repeat split; try assumption. intros _ Hx. exfalso. apply Hx. reflexivity.
    + apply Hgo. discriminate.
Qed.

(* the end-of-operation clause *)
Lemma rf_op s o k : RF s k -> RF (fst (step c s o)) (kf_op k (snd (step c s o))).
Proof.
  intros H. pose proof (rf_step s o k H) as H1. unfold kf_op. cbv zeta.
  set (k' := fold_left kf_ev (snd (step c s o)) k) in *. set (s' := fst (step c s o)) in *.
  destruct H1 as (Hok & Hq & Hcn & Ho & Hb & Hc). unfold RF, QR. cbn [kf_ok kf_q kf_cn kf_open kf_blk].
  split; [|split; [exact Hq|split; [exact Hcn|split; [exact Ho|split; [exact Hb|exact Hc]]]]].
  rewrite Hok, Ho, Hb, Hq. cbn [andb].
  destruct (sock s'); [|reflexivity]. destruct (tm s') eqn:Et; cbn [is_block negb orb]; try reflexivity.
  rewrite (Hc eq_refl ltac:(discriminate)). reflexivity.
Qed.

Lemma fifo_from : forall ops s k, RF s k ->
  kf_ok (fold_left kf_op (map snd (run_steps c s ops)) k) = true.
Proof.
  induction ops as [|o ops IH]; intros s k H; cbn [run_steps].
  - cbn. exact (proj1 H).
  - pose proof (rf_op s o k H) as H1. destruct (step c s o) as [s' ev]. cbn [fst snd map fold_left] in *.
    apply IH. exact H1.
Qed.

End Fifo.

Theorem fifo_proved : FIFO_stmt.
Proof.
  intros c ops. unfold fifo_ok, optrace. apply fifo_from.
  unfold RF, QR, tm. cbn. repeat split; discriminate.
Qed.

Print Assumptions fifo_proved.
