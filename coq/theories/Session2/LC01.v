(* C01 on the second-generation Session model: a QoS>0 message is owned until its final
   acknowledgement and completes exactly once - in particular NOT when reconnect() drops its queued,
   unwritten PUBLISH, and its MQTTMessageInfo never turns into "connection lost"; on an established
   connection every owned message has been handed to the connection (and written, unless the
   transport refuses writes) or the window is full.
   Proof of [C01_stmt] by a relational invariant between the model state and the checker state. *)
From PahoV Require Import Base.Prelude Codec.Mid Codec.MidProofs Session2.Model Session2.Legacy Session2.Check
  Session2.LLemmas Session2.LInv Session2.Statements Session2.LC12.
From Coq Require Import Sorting.Sorted.

(* ---------------------------------------------------------------- list helpers of the checker *)
Lemma zin_In x l : zin x l = true <-> In x l.
Proof.
  induction l as [|y l IH]; cbn [zin In]; [split; [discriminate|tauto]|].
  rewrite orb_true_iff, IH. split; intros [H|H]; auto; left; lia.
Qed.

Lemma zin_of_notIn x l : ~ In x l -> zin x l = false.
Proof. intros H. destruct (zin x l) eqn:E; [|reflexivity]. apply zin_In in E. contradiction. Qed.

Lemma zadd_In x y l : In x (zadd y l) <-> x = y \/ In x l.
Proof.
  unfold zadd. destruct (zin y l) eqn:E.
  - apply zin_In in E. split; [auto|]. intros [->|H]; assumption.
  - rewrite in_app_iff. cbn [In]. split; intros [H|H]; auto.
    + destruct H as [H|[]]; auto.
Qed.

Definition zadds (ts l : list Z) : list Z := fold_left (fun l t => zadd t l) ts l.

Lemma zadds_In x ts : forall l, In x (zadds ts l) <-> In x l \/ In x ts.
Proof.
  unfold zadds. induction ts as [|t ts IH]; intros l; cbn [fold_left In]; [tauto|].
  rewrite IH, zadd_In. split; intros H; intuition auto.
Qed.

Lemma zadds_app a b l : zadds (a ++ b) l = zadds b (zadds a l).
Proof. unfold zadds. apply fold_left_app. Qed.

Lemma NoDup_app_l {A} (l1 l2 : list A) : NoDup (l1 ++ l2) -> NoDup l1.
Proof.
  induction l1 as [|x l1 IH]; cbn [app]; intros H; [constructor|].
  inversion H as [|? ? Hx Hn]; subst. constructor; [|apply IH; assumption].
  intros Hin. apply Hx. apply in_or_app. left. assumption.
Qed.

Definition lof (m : omsg) : lmsg := mkL (o_tag m) (o_mid m) (o_qos m).

Lemma tags_lof l : tags l = map l_tag (map lof l).
Proof. unfold tags. rewrite map_map. reflexivity. Qed.

Lemma lhas_tag_In t l : lhas_tag t l = true <-> In t (map l_tag l).
Proof.
  unfold lhas_tag. rewrite existsb_exists, in_map_iff. split.
  - intros (x & H1 & H2). exists x. split; [lia|assumption].
  - intros (x & H1 & H2). exists x. split; [assumption|lia].
Qed.

Lemma lrem_tag_notin t l : ~ In t (map l_tag l) -> lrem_tag t l = l.
Proof.
  induction l as [|x l IH]; cbn [lrem_tag map In]; [reflexivity|]. intros H.
  destruct (l_tag x =? t) eqn:E; [exfalso; apply H; left; lia|]. f_equal. apply IH. tauto.
Qed.

Lemma lrem_tag_split t l1 x l2 : ~ In t (map l_tag l1) -> ~ In t (map l_tag l2) -> l_tag x = t ->
  lrem_tag t (l1 ++ x :: l2) = l1 ++ l2.
Proof.
  intros H1 H2 Hx. induction l1 as [|y l1 IH]; cbn [lrem_tag app].
  - replace (l_tag x =? t) with true by lia. apply lrem_tag_notin. assumption.
  - cbn [map In] in H1. destruct (l_tag y =? t) eqn:E; [exfalso; apply H1; left; lia|].
    f_equal. apply IH. tauto.
Qed.

(* ---------------------------------------------------------------- the checker state, field by field *)
Definition set_q0 (k : k01) (v : list Z) : k01 :=
  mkK01 (k1_live k) v (k1_done k) (k1_onconn k) (k1_wr k) (k1_est k) (k1_blk k) (k1_ok k).
Definition set_on (k : k01) (v : list Z) : k01 :=
  mkK01 (k1_live k) (k1_q0 k) (k1_done k) v (k1_wr k) (k1_est k) (k1_blk k) (k1_ok k).
Definition set_wr (k : k01) (v : list Z) : k01 :=
  mkK01 (k1_live k) (k1_q0 k) (k1_done k) (k1_onconn k) v (k1_est k) (k1_blk k) (k1_ok k).

Lemma set_wr_same k : set_wr k (k1_wr k) = k.
Proof. destruct k; reflexivity. Qed.
Lemma set_on_same k : set_on k (k1_onconn k) = k.
Proof. destruct k; reflexivity. Qed.

(* window-relevant tags / QoS 0 tags of a list of queue entries *)
Definition qtag (x : qpkt) : list Z := match ptag (q_pkt x) with Some t => [t] | None => [] end.
Definition qtags (q : list qpkt) : list Z := flat_map qtag q.

Lemma qtags_app a b : qtags (a ++ b) = qtags a ++ qtags b.
Proof. unfold qtags. apply flat_map_app. Qed.

Definition q0known (k : k01) (q : list qpkt) : Prop := forall t, In t (q0tags q) -> zin t (k1_q0 k) = true.

Lemma q0known_app k a b : q0known k (a ++ b) <-> q0known k a /\ q0known k b.
Proof.
  unfold q0known. rewrite q0tags_app. split.
  - intros H. split; intros t Ht; apply H; apply in_or_app; [left|right]; exact Ht.
  - intros [H1 H2] t Ht. apply in_app_or in Ht as [Ht|Ht]; [apply H1 | apply H2]; exact Ht.
Qed.

(* one written packet *)
Lemma tx_written_fold cn x k : q0known k [x] ->
  fold_left k01_ev (Tx cn (q_pkt x) :: written_evs x) k = set_wr k (zadds (qtag x) (k1_wr k)).
Proof.
  intros Hq. unfold written_evs, qtag, ptag. destruct (q_pkt x) as [|m qs d t|m t|m|m|m] eqn:Ex;
    cbn [fold_left k01_ev zadds]; try (symmetry; apply set_wr_same).
  - destruct (qs =? 0) eqn:E0; cbn [fold_left k01_ev zadds].
    + assert (Hin : zin t (k1_q0 k) = true).
      { apply Hq. unfold q0tags. cbn [flat_map]. unfold q0tag. rewrite Ex, E0. left. reflexivity. }
      rewrite Hin. cbv iota. rewrite Hin. symmetry. apply set_wr_same.
    + reflexivity.
  - reflexivity.
Qed.

Lemma set_wr_wr k v w : set_wr (set_wr k v) w = set_wr k w.
Proof. reflexivity. Qed.

(* writing the queue: the written tags are recorded, QoS 0 completions are not C01's business *)
Lemma flush_fold cn : forall q k, q0known k q ->
  fold_left k01_ev (flush_evs cn q) k = set_wr k (zadds (qtags q) (k1_wr k)).
Proof.
  induction q as [|x q IH]; intros k Hq; [symmetry; apply set_wr_same|].
  change (x :: q) with ([x] ++ q) in Hq. apply q0known_app in Hq as [Hq1 Hq2].
  cbn [flush_evs]. change (Tx cn (q_pkt x) :: written_evs x ++ flush_evs cn q)
    with ((Tx cn (q_pkt x) :: written_evs x) ++ flush_evs cn q).
  rewrite fold_left_app, (tx_written_fold cn x k Hq1), IH by exact Hq2.
  cbn [k1_wr set_wr]. unfold qtags. cbn [flat_map]. fold (qtags q). rewrite zadds_app. reflexivity.
Qed.

Lemma flush_completed cn : forall q t, In t (completed_tags (flush_evs cn q)) -> In t (q0tags q).
Proof.
  induction q as [|x q IH]; intros t Ht; [destruct Ht|]. cbn [flush_evs completed_tags flat_map] in Ht.
  fold (completed_tags (written_evs x ++ flush_evs cn q)) in Ht.
  unfold completed_tags in Ht. rewrite flat_map_app in Ht. fold (completed_tags (written_evs x)) in Ht.
  fold (completed_tags (flush_evs cn q)) in Ht. cbn [app] in Ht.
  unfold q0tags. cbn [flat_map]. apply in_or_app. apply in_app_or in Ht as [Ht|Ht]; [left | right; apply IH; exact Ht].
  unfold written_evs, q0tag in *. destruct (q_pkt x) as [|m qs d t'| | | |]; try destruct Ht.
  destruct (qs =? 0); [|destruct Ht]. cbn in Ht. destruct Ht as [<-|[<-|[]]]; left; reflexivity.
Qed.

(* handing over packets that occupy a window slot (no QoS 0 PUBLISH among them) *)
Lemma handed_fold cn x k : noq0 x ->
  k01_ev k (Handed cn (q_pkt x)) = set_on k (zadds (qtag x) (k1_onconn k)).
Proof.
  unfold noq0, qtag, ptag. destruct (q_pkt x) as [|m qs d t|m t|m|m|m]; cbn [k01_ev zadds fold_left];
    try (intros _; symmetry; apply set_on_same).
  - intros ->. reflexivity.
  - intros _. reflexivity.
Qed.

Lemma noq0_known k x : noq0 x -> q0known k [x].
Proof. intros H t Ht. unfold q0tags in Ht. cbn [flat_map] in Ht. rewrite (noq0_q0tag x H) in Ht. destruct Ht. Qed.

Lemma hand_all_fold cn can q : (can = true -> q = []) -> forall H k, Forall noq0 H ->
  fold_left k01_ev (snd (hand_all cn can q H)) k =
  set_on (set_wr k (if can then zadds (qtags H) (k1_wr k) else k1_wr k)) (zadds (qtags H) (k1_onconn k)).
Proof.
  intros Hq. destruct can.
  - rewrite (Hq eq_refl). induction H as [|x H IH]; intros k HH.
    + cbn. destruct k; reflexivity.
    + inversion HH as [|? ? Hx HH']; subst. rewrite hand_all_can in *. cbn [snd flat_map] in *.
      change (Handed cn (q_pkt x) :: flush_evs cn [x]) with ([Handed cn (q_pkt x)] ++ flush_evs cn [x]).
      rewrite <- app_assoc, fold_left_app. cbn [fold_left]. rewrite (handed_fold cn x k Hx).
      rewrite fold_left_app, flush_fold by (apply noq0_known; exact Hx).
      rewrite IH by exact HH'. cbn [k1_wr k1_onconn set_wr set_on].
      unfold qtags. cbn [flat_map]. fold (qtags H). rewrite app_nil_r, !zadds_app. reflexivity.
  - intros H k HH. rewrite hand_all_blocked. cbn [snd]. revert k. induction HH as [|x H Hx _ IH]; intros k.
    + cbn. destruct k; reflexivity.
    + cbn [map fold_left]. rewrite (handed_fold cn x k Hx), IH. cbn [k1_wr k1_onconn set_wr set_on].
      unfold qtags. cbn [flat_map]. fold (qtags H). rewrite zadds_app. reflexivity.
Qed.

Lemma hand_all_completed cn can q H : (can = true -> q = []) -> Forall noq0 H ->
  completed_tags (snd (hand_all cn can q H)) = [].
Proof.
  intros Hq HH. destruct can.
  - rewrite (Hq eq_refl), hand_all_can. cbn [snd]. induction HH as [|x H Hx _ IH]; [reflexivity|].
    cbn [flat_map flush_evs]. rewrite (noq0_written x Hx). cbn [app completed_tags flat_map]. exact IH.
  - rewrite hand_all_blocked. cbn [snd]. clear. induction H as [|x H IH]; [reflexivity|]. exact IH.
Qed.

(* ---------------------------------------------------------------- the relational invariant *)
(* [E]: tags of messages that have just entered a wait state and whose packet is about to be handed
   over; [L]: the stored messages the checker knows as live (they differ from [out s] only inside
   publish(), between the hand-over and the return) *)
Record Rx (E : list Z) (L : list omsg) (s : sess) (k : k01) : Prop := mkRx {
  x_ok : k1_ok k = true;
  x_live : k1_live k = map lof L;
  x_done : forall t, In t (k1_done k) -> t < ntag s /\ ~ In t (tags (out s));
  x_q0 : forall t, In t (k1_q0 k) -> t < ntag s /\ ~ In t (tags (out s));
  x_q0q : q0known k (outq s);
  x_est : k1_est k = true -> cack s = true;
  x_blk : sock s = true -> k1_blk k = blocked s;
  x_conn : sock s = true -> forall m, In m (out s) -> is_wait m = true ->
           In (o_tag m) (k1_onconn k) \/ In (o_tag m) E;
  x_wr : sock s = true -> forall m, In m (out s) -> is_wait m = true ->
         In (o_tag m) (k1_wr k) \/ In (o_tag m) (qtags (outq s)) \/ In (o_tag m) E
}.

Definition R (s : sess) (k : k01) : Prop := Rx [] (out s) s k.

Lemma r_conn s k : R s k -> sock s = true -> forall m, In m (out s) -> is_wait m = true -> In (o_tag m) (k1_onconn k).
Proof. intros H Hs m Hm Hw. destruct (x_conn _ _ _ _ H Hs m Hm Hw) as [H1|[]]. exact H1. Qed.
Lemma r_wr s k : R s k -> sock s = true -> forall m, In m (out s) -> is_wait m = true ->
  In (o_tag m) (k1_wr k) \/ In (o_tag m) (qtags (outq s)).
Proof. intros H Hs m Hm Hw. destruct (x_wr _ _ _ _ H Hs m Hm Hw) as [H1|[H1|[]]]; [left|right]; exact H1. Qed.

(* handing over the packets of the messages in [E] completes the relation *)
Lemma Rx_hand_all E L s k H :
  Rx E L s k -> (can_write s = true -> outq s = []) -> Forall noq0 H -> incl E (qtags H) ->
  Rx [] L (with_q s (fst (hand_all (conn s) (can_write s) (outq s) H)))
     (fold_left k01_ev (snd (hand_all (conn s) (can_write s) (outq s) H)) k).
Proof.
  intros [Xok Xl Xd Xq0 Xq0q Xe Xb Xc Xw] Hi HH HE.
  rewrite (hand_all_fold _ _ _ Hi H k HH), (hand_all_fst _ _ _ _ Hi).
  constructor; cbn [k1_ok k1_live k1_done k1_q0 k1_est k1_blk k1_onconn k1_wr set_on set_wr
                    out ntag cack sock blocked outq with_q]; try assumption.
  - destruct (can_write s); [intros t []|]. apply q0known_app. split; [exact Xq0q|].
    intros t Ht. rewrite (noq0_q0tags H HH) in Ht. destruct Ht.
  - intros Hs m Hm Hw. left. apply zadds_In. destruct (Xc Hs m Hm Hw) as [H1|H1]; [left; exact H1 | right; apply HE; exact H1].
  - intros Hs m Hm Hw. destruct (can_write s) eqn:Ec.
    + left. apply zadds_In. rewrite (Hi eq_refl) in Xw. destruct (Xw Hs m Hm Hw) as [H1|[[]|H1]]; [left; exact H1 | right; apply HE; exact H1].
    + destruct (Xw Hs m Hm Hw) as [H1|[H1|H1]]; [left; exact H1 | |]; right; left; rewrite qtags_app; apply in_or_app;
        [left; exact H1 | right; apply HE; exact H1].
Qed.

Definition ok1_of (k : k01) (evs : list event) : bool :=
  forallb (fun t =>
     zin t (k1_q0 (fold_left k01_ev evs k))
     || existsb (fun m => (l_tag m =? t) && existsb (final_ack_of m) evs) (k1_live k))
   (completed_tags evs).

Definition ok2_of (n : Z) (k : k01) : bool :=
  negb (k1_est k) ||
  forallb (fun m => (zin (l_tag m) (k1_onconn k) && (k1_blk k || zin (l_tag m) (k1_wr k))) ||
                    ((n >? 0) && (zlen (filter (fun t => lhas_tag t (k1_live k)) (k1_onconn k)) >=? n)))
          (k1_live k).

Lemma k01_op_eq n k evs :
  k01_op n k evs =
  let k' := fold_left k01_ev evs k in
  mkK01 (k1_live k') (k1_q0 k') (k1_done k') (k1_onconn k') (k1_wr k') (k1_est k') (k1_blk k')
        (k1_ok k' && ok1_of k evs && ok2_of n k').
Proof. reflexivity. Qed.

(* (ok2): on an established connection everything owned has been handed over (and written unless blocked)
   or the window is full *)
Lemma R_ok2 c s k : Inv c s -> R s k -> ok2_of (c_max c) k = true.
Proof.
  intros I HR. pose proof HR as [Rok Rl Rd Rq0 Rq0q Re Rb _ _]. unfold ok2_of.
  destruct (k1_est k) eqn:Eest; [|reflexivity]. cbn [negb orb].
  pose proof (Re eq_refl) as Hck. pose proof (inv_cack _ _ I Hck) as Hs.
  destruct (inv_shape _ _ I) as (C & U & Q & Sh).
  pose proof (sh_sockU _ _ _ _ _ Sh Hs) as HU. subst U.
  pose proof (sh_out _ _ _ _ _ Sh) as So. cbn [app] in So.
  pose proof (sh_est _ _ _ _ _ Sh Hck) as HCw.
  assert (HC : forall m, In m C -> In (o_tag m) (k1_onconn k)).
  { intros m Hm. apply (r_conn _ _ HR Hs); [rewrite So; apply in_or_app; left; assumption|].
    exact (proj1 (Forall_forall _ _) HCw m Hm). }
  assert (HW : forall m, In m C -> k1_blk k = false -> In (o_tag m) (k1_wr k)).
  { intros m Hm Hb. rewrite (Rb Hs) in Hb.
    assert (Hq : outq s = []) by (apply (inv_qidle _ _ I); unfold can_write; rewrite Hs, Hb; reflexivity).
    destruct (r_wr _ _ HR Hs m) as [H|H]; [rewrite So; apply in_or_app; left; assumption | exact (proj1 (Forall_forall _ _) HCw m Hm) | exact H |].
    rewrite Hq in H. destruct H. }
  rewrite Rl. apply forallb_forall. intros x Hx. apply in_map_iff in Hx as (m & <- & Hm).
  rewrite So in Hm. apply in_app_or in Hm as [Hm|Hm].
  - cbn [lof l_tag]. replace (zin (o_tag m) (k1_onconn k)) with true by (symmetry; apply zin_In; apply HC; assumption).
    destruct (k1_blk k) eqn:Eb; [reflexivity|].
    replace (zin (o_tag m) (k1_wr k)) with true by (symmetry; apply zin_In; apply HW; [assumption|reflexivity]).
    reflexivity.
  - apply orb_true_iff. right.
    destruct (sh_full _ _ _ _ _ Sh) as [Hpos Hlen]; [intros ->; destruct Hm|].
    assert (Hnd : NoDup (tags C)).
    { pose proof (SSorted_NoDup _ (inv_sorted _ _ I)) as H. rewrite So, tags_app in H.
      eapply NoDup_app_l. exact H. }
    assert (Hincl : incl (tags C) (filter (fun t => lhas_tag t (map lof (out s))) (k1_onconn k))).
    { intros t Ht. unfold tags in Ht. apply in_map_iff in Ht as (y & <- & Hy).
      apply filter_In. split; [apply HC; assumption|].
      apply lhas_tag_In. rewrite <- tags_lof. unfold tags. apply in_map. rewrite So. apply in_or_app. left. assumption. }
    pose proof (NoDup_incl_length Hnd Hincl) as Hle.
    unfold tags in Hle. rewrite map_length in Hle. unfold zlen. lia.
Qed.

(* what every operation has to establish *)
Definition Good (s' : sess) (k : k01) (evs : list event) : Prop :=
  R s' (fold_left k01_ev evs k) /\ ok1_of k evs = true.

(* the QoS 0 set only grows *)
Lemma q0_mono_ev k e t : zin t (k1_q0 k) = true -> zin t (k1_q0 (k01_ev k e)) = true.
Proof.
  intros H. destruct e as [cn p| | | | | |p| | | |cn p| |]; cbn [k01_ev]; try exact H.
  - destruct p as [|m q d t0|m t0|m|m|m]; try exact H. destruct (q =? 0); exact H.
  - destruct ((q >? 0) && ((rc =? 0) || (rc =? 4))); exact H.
  - destruct (zin tag (k1_q0 k)); exact H.
  - destruct (zin tag (k1_q0 k)); exact H.
  - destruct p; exact H.
  - destruct p as [|m q d t0|m t0|m|m|m]; try exact H. destruct (q =? 0); [|exact H].
    cbn [k1_q0]. apply zin_In, zadd_In. right. apply zin_In. exact H.
  - destruct (zin tag (k1_q0 k)); exact H.
Qed.
Lemma q0_mono : forall evs k t, zin t (k1_q0 k) = true -> zin t (k1_q0 (fold_left k01_ev evs k)) = true.
Proof. induction evs as [|e evs IH]; intros k t H; [exact H|]. cbn [fold_left]. apply IH, q0_mono_ev, H. Qed.

(* completions that belong to QoS 0 publishes only *)
Lemma ok1_q0 k evs : (forall t, In t (completed_tags evs) -> zin t (k1_q0 (fold_left k01_ev evs k)) = true) ->
  ok1_of k evs = true.
Proof. intros H. unfold ok1_of. apply forallb_forall. intros t Ht. rewrite (H t Ht). reflexivity. Qed.

Lemma zin_zadd_same t l : zin t (zadd t l) = true.
Proof. apply zin_In, zadd_In. left. reflexivity. Qed.

Lemma Rx_ext E L s s' k : out s' = out s -> ntag s' = ntag s -> sock s' = sock s -> cack s' = cack s ->
  blocked s' = blocked s -> outq s' = outq s -> Rx E L s k -> Rx E L s' k.
Proof.
  intros E1 E2 E3 E4 E5 E6 [Xok Xl Xd Xq0 Xq0q Xe Xb Xc Xw].
  constructor; rewrite ?E1, ?E2, ?E3, ?E4, ?E5, ?E6; assumption.
Qed.

Lemma Rx_weaken E L s k : Rx [] L s k -> Rx E L s k.
Proof.
  intros [Xok Xl Xd Xq0 Xq0q Xe Xb Xc Xw]. constructor; try assumption.
  - intros Hs m Hm Hw. destruct (Xc Hs m Hm Hw) as [H|[]]. left. exact H.
  - intros Hs m Hm Hw. destruct (Xw Hs m Hm Hw) as [H|[H|[]]]; [left | right; left]; exact H.
Qed.

(* ---------------------------------------------------------------- operations the checker does not see *)
Definition neutral (e : event) : bool :=
  match e with
  | Tx _ p | Handed _ p => match p with PPublish _ _ _ _ | PPubrel _ _ => false | _ => true end
  | CbMessage _ _ _ | Raised => true
  | Inp (IConnack _) => false
  | Inp _ => true
  | _ => false
  end.

Lemma neutral_fold : forall evs k, forallb neutral evs = true -> fold_left k01_ev evs k = k.
Proof.
  induction evs as [|e evs IH]; intros k H; [reflexivity|].
  cbn [forallb] in H. apply andb_true_iff in H as [He H]. cbn [fold_left].
  destruct e as [cn p| | | | | |p| | | |cn p| |]; try discriminate; try (apply IH; exact H).
  - destruct p; try discriminate; apply IH; exact H.
  - destruct p; try discriminate; apply IH; exact H.
  - destruct p; try discriminate; apply IH; exact H.
Qed.

Lemma neutral_completed evs : forallb neutral evs = true -> completed_tags evs = [].
Proof.
  induction evs as [|e evs IH]; intros H; [reflexivity|].
  cbn [forallb] in H. apply andb_true_iff in H as [He H].
  cbn [completed_tags flat_map]. fold (completed_tags evs). rewrite (IH H).
  destruct e; try reflexivity; discriminate.
Qed.

Lemma good_neutral s s' k evs :
  forallb neutral evs = true ->
  out s' = out s -> ntag s' = ntag s -> sock s' = sock s -> cack s' = cack s ->
  blocked s' = blocked s -> outq s' = outq s ->
  R s k -> Good s' k evs.
Proof.
  intros Hn E1 E2 E3 E4 E5 E6 HR. split.
  - rewrite (neutral_fold _ _ Hn). unfold R. rewrite E1. apply (Rx_ext [] (out s) s); assumption.
  - apply ok1_q0. rewrite (neutral_completed _ Hn). intros t [].
Qed.

Lemma good_nil s k : R s k -> Good s k [].
Proof. intros H. apply (good_neutral s s k []); auto. Qed.

(* a reply: handed over (and perhaps written), nothing C01 looks at *)
Lemma plain_noq0 x : match q_pkt x with PConnect | PPuback _ | PPubrec _ | PPubcomp _ => True | _ => False end ->
  noq0 x /\ qtags [x] = [].
Proof. unfold noq0, qtags, qtag, ptag. cbn [flat_map]. destruct (q_pkt x); try contradiction; intros _; split; reflexivity. Qed.

Lemma good_send_plain s k x pre :
  match q_pkt x with PConnect | PPuback _ | PPubrec _ | PPubcomp _ => True | _ => False end ->
  forallb neutral pre = true ->
  (can_write s = true -> outq s = []) -> R s k ->
  Good (fst (send s x)) k (pre ++ snd (send s x)).
Proof.
  intros Hx Hpre Hi HR. destruct (plain_noq0 x Hx) as [Hn Hq].
  rewrite send_hand_all. cbn [fst snd].
  assert (HH : Forall noq0 [x]) by (constructor; [exact Hn | constructor]).
  split.
  - rewrite fold_left_app, (neutral_fold _ _ Hpre).
    apply (Rx_hand_all [] (out s) s k [x] HR Hi HH). intros t [].
  - apply ok1_q0. unfold completed_tags. rewrite flat_map_app. fold (completed_tags pre).
    fold (completed_tags (snd (hand_all (conn s) (can_write s) (outq s) [x]))).
    rewrite (neutral_completed _ Hpre), (hand_all_completed _ _ _ _ Hi HH). intros t [].
Qed.

(* ---------------------------------------------------------------- publish() *)
Lemma good_publish c s q k : Inv c s -> (0 <=? q) && (q <=? 2) = true -> R s k ->
  Good (fst (do_publish c s q)) k (snd (do_publish c s q)).
Proof.
  intros I Hq HR. pose proof (inv_qidle _ _ I) as Hi. pose proof (inv_tags _ _ I) as Htg.
  pose proof HR as [Rok Rl Rd Rq0 Rq0q Re Rb Rc Rw].
  assert (Hlt : forall t, In t (tags (out s)) -> t < ntag s).
  { intros t Hin. unfold tags in Hin. apply in_map_iff in Hin as (m & <- & Hin).
    pose proof (proj1 (Forall_forall _ _) Htg m Hin) as H. cbn beta in H. lia. }
  (* the tag counter advances, nothing else *)
  assert (Hnext : forall s', out s' = out s -> ntag s' = ntag s + 1 -> sock s' = sock s -> cack s' = cack s ->
            blocked s' = blocked s -> outq s' = outq s -> R s' k).
  { intros s' E1 E2 E3 E4 E5 E6. unfold R. rewrite E1.
    constructor; rewrite ?E1, ?E2, ?E3, ?E4, ?E5, ?E6; try assumption.
    - intros t Ht. destruct (Rd t Ht). split; [lia|assumption].
    - intros t Ht. destruct (Rq0 t Ht). split; [lia|assumption]. }
  unfold do_publish. cbv zeta. destruct (q =? 0) eqn:Eq0.
  { assert (q = 0) by lia. subst q. destruct (sock s) eqn:Hs.
    - (* QoS 0 on a socket: handed over, completed when written *)
      set (s1 := mkS _ _ _ _ _ _ _ _ _ _ _ _). set (x := mkQ _ _).
      assert (Hi1 : can_write s1 = true -> outq s1 = []) by (apply (idle_ext s); [cbn; congruence | reflexivity | reflexivity | exact Hi]).
      rewrite (send_hand_all s1 x). cbn [fst snd].
      assert (Hk : fold_left k01_ev (snd (hand_all (conn s1) (can_write s1) (outq s1) [x]) ++ [Ret (ntag s) (mid_next (last_mid s)) 0 0]) k
                   = set_q0 k (zadd (ntag s) (k1_q0 k))).
      { rewrite fold_left_app. destruct (can_write s1) eqn:Ec.
        - rewrite (Hi1 eq_refl), hand_all_can. cbn [snd flat_map flush_evs written_evs x q_pkt app].
          change (0 =? 0) with true. cbv iota. cbn [app fold_left k01_ev]. change (0 =? 0) with true. cbv iota.
          cbn [k1_q0]. rewrite zin_zadd_same. cbv iota. cbn [k1_q0]. rewrite zin_zadd_same. reflexivity.
        - rewrite hand_all_blocked. cbn [snd map fold_left k01_ev x q_pkt]. change (0 =? 0) with true. reflexivity. }
      split.
      + rewrite Hk. rewrite (hand_all_fst _ _ _ _ Hi1).
        constructor; cbn [k1_ok k1_live k1_done k1_q0 k1_est k1_blk k1_onconn k1_wr set_q0 out ntag cack sock blocked outq with_q s1];
          try assumption.
        * intros t Ht. destruct (Rd t Ht). split; [lia|assumption].
        * intros t Ht. apply zadd_In in Ht as [->|Ht]; [split; [lia | intros H; apply Hlt in H; lia]|].
          destruct (Rq0 t Ht). split; [lia|assumption].
        * intros t Ht. apply zin_In, zadd_In. destruct (can_write s1); [destruct Ht|].
          rewrite q0tags_app in Ht. apply in_app_or in Ht as [Ht|Ht].
          -- right. apply zin_In. apply Rq0q. exact Ht.
          -- cbn in Ht. destruct Ht as [<-|[]]. left. reflexivity.
        * intros _ m Hm Hw. destruct (Rw eq_refl m Hm Hw) as [H|[H|[]]]; [left; exact H|].
          destruct (can_write s1) eqn:Ec.
          -- unfold can_write in Ec. cbn [sock blocked s1] in Ec. rewrite (Hi ltac:(unfold can_write; rewrite Hs; exact Ec)) in H. destruct H.
          -- right. left. rewrite qtags_app. apply in_or_app. left. exact H.
      + apply ok1_q0. intros t Ht. rewrite Hk. cbn [k1_q0 set_q0].
        unfold completed_tags in Ht. rewrite flat_map_app in Ht. cbn [flat_map app] in Ht. rewrite app_nil_r in Ht.
        destruct (can_write s1).
        * rewrite (Hi1 eq_refl), hand_all_can in Ht. cbn in Ht. destruct Ht as [<-|[<-|[]]]; apply zin_zadd_same.
        * rewrite hand_all_blocked in Ht. destruct Ht.
    - cbn [fst snd]. split; [|reflexivity]. cbn [fold_left k01_ev]. apply Hnext; reflexivity. }
  assert (Hgt : (q >? 0) = true) by lia.
  assert (Hr15 : forall s', out s' = out s -> ntag s' = ntag s + 1 -> sock s' = sock s -> cack s' = cack s ->
            blocked s' = blocked s -> outq s' = outq s -> Good s' k [Ret (ntag s) (mid_next (last_mid s)) q 15]).
  { intros s' E1 E2 E3 E4 E5 E6. split; [|reflexivity]. cbn [fold_left k01_ev]. rewrite Hgt. cbn [andb orb Z.eqb].
    change ((15 =? 0) || (15 =? 4)) with false. cbv iota. apply Hnext; assumption. }
  destruct ((c_maxq c >? 0) && (Z.of_nat (length (out s)) >=? c_maxq c)); [apply Hr15; reflexivity|].
  destruct (has_mid (mid_next (last_mid s)) (out s)); [apply Hr15; reflexivity|]. clear Hr15.
  (* the message is stored: out grows by the fresh tag *)
  assert (Hstore : forall st rc s', ((rc =? 0) || (rc =? 4)) = true ->
            out s' = out s ++ [mkO (mid_next (last_mid s)) q st false (ntag s)] -> ntag s' = ntag s + 1 ->
            sock s' = sock s -> cack s' = cack s -> blocked s' = blocked s ->
            forall k1, Rx [] (out s) s' k1 ->
            R s' (k01_ev k1 (Ret (ntag s) (mid_next (last_mid s)) q rc))).
  { intros st rc s' Hrc E1 E2 E3 E4 E5 k1 [Xok Xl Xd Xq0 Xq0q Xe Xb Xc Xw].
    cbn [k01_ev]. rewrite Hgt, Hrc. cbn [andb]. unfold R.
    constructor; cbn [k1_ok k1_live k1_done k1_q0 k1_est k1_blk k1_onconn k1_wr]; try assumption.
    rewrite Xl, E1, map_app. reflexivity. }
  assert (Hx0 : forall st s', out s' = out s ++ [mkO (mid_next (last_mid s)) q st false (ntag s)] -> ntag s' = ntag s + 1 ->
            sock s' = sock s -> cack s' = cack s -> blocked s' = blocked s -> outq s' = outq s ->
            (is_wait (mkO (mid_next (last_mid s)) q st false (ntag s)) = true -> sock s = true -> False) ->
            Rx [] (out s) s' k).
  { intros st s' E1 E2 E3 E4 E5 E6 Hnw.
    constructor; rewrite ?E1, ?E2, ?E3, ?E4, ?E5, ?E6; try assumption.
    - intros t Ht. destruct (Rd t Ht). split; [lia|]. rewrite tags_app. intros H'. apply in_app_or in H' as [H'|[H'|[]]]; [tauto | cbn in H'; lia].
    - intros t Ht. destruct (Rq0 t Ht). split; [lia|]. rewrite tags_app. intros H'. apply in_app_or in H' as [H'|[H'|[]]]; [tauto | cbn in H'; lia].
    - intros Hs m Hm Hw. apply in_app_or in Hm as [Hm|[<-|[]]]; [apply Rc; assumption | exfalso; exact (Hnw Hw Hs)].
    - intros Hs m Hm Hw. apply in_app_or in Hm as [Hm|[<-|[]]]; [apply Rw; assumption | exfalso; exact (Hnw Hw Hs)]. }
  destruct (window_free c (inflight s)).
  - destruct (sock s) eqn:Hs.
    + (* stored in a wait state and handed over *)
      set (S1 := with_out _ _ _). set (x := mkQ _ _).
      assert (Hi1 : can_write S1 = true -> outq S1 = []) by (apply (idle_ext s); [cbn; congruence | reflexivity | reflexivity | exact Hi]).
      assert (Hn : noq0 x) by exact Eq0.
      assert (Hqt : qtags [x] = [ntag s]).
      { unfold qtags, qtag, ptag. cbn [flat_map x q_pkt]. rewrite Eq0. reflexivity. }
      assert (HX : Rx [ntag s] (out s) S1 k).
      { constructor; cbn [out ntag sock cack blocked outq with_out S1]; try assumption.
        - intros t Ht. destruct (Rd t Ht). split; [lia|]. rewrite tags_app. intros H'. apply in_app_or in H' as [H'|[H'|[]]]; [tauto | cbn in H'; lia].
        - intros t Ht. destruct (Rq0 t Ht). split; [lia|]. rewrite tags_app. intros H'. apply in_app_or in H' as [H'|[H'|[]]]; [tauto | cbn in H'; lia].
        - intros _ m Hm Hw. apply in_app_or in Hm as [Hm|[<-|[]]]; [left; apply (r_conn _ _ HR Hs); assumption | right; left; reflexivity].
        - intros _ m Hm Hw. apply in_app_or in Hm as [Hm|[<-|[]]]; [|right; right; left; reflexivity].
          destruct (r_wr _ _ HR Hs m Hm Hw) as [H|H]; [left; exact H | right; left; exact H]. }
      pose proof (Rx_hand_all [ntag s] (out s) S1 k [x] HX Hi1 ltac:(constructor; [exact Hn|constructor])
                    ltac:(rewrite Hqt; apply incl_refl)) as HX'.
      rewrite (send_hand_all S1 x). cbn [fst snd]. split.
      * rewrite fold_left_app. cbn [fold_left].
        eapply (Hstore (wait_of q) 0); try reflexivity. exact HX'.
      * apply ok1_q0. unfold completed_tags. rewrite flat_map_app. cbn [flat_map app]. rewrite app_nil_r.
        fold (completed_tags (snd (hand_all (conn S1) (can_write S1) (outq S1) [x]))).
        rewrite (hand_all_completed _ _ _ _ Hi1 ltac:(constructor; [exact Hn|constructor])). intros t [].
    + cbn [fst snd]. split; [|reflexivity]. cbn [fold_left].
      eapply (Hstore MsPublish 4); try reflexivity.
      apply (Hx0 MsPublish); try reflexivity. intros _ H. discriminate.
  - cbn [fst snd]. split; [|reflexivity]. cbn [fold_left].
    eapply (Hstore MsQueued 0); try reflexivity.
    apply (Hx0 MsQueued); try reflexivity. intros H _. discriminate.
Qed.

(* ---------------------------------------------------------------- reconnect(), connection loss, ack(), block *)
Lemma reset1_lof cl m : lof (reset1 cl m) = lof m.
Proof. unfold lof. rewrite reset1_tag, reset1_mid, reset1_qos. reflexivity. Qed.

Lemma reset_out_facts c cl : forall l infl,
  map lof (fst (reset_out_list c cl infl l)) = map lof l /\
  Forall (fun m => is_wait m = false) (fst (reset_out_list c cl infl l)).
Proof.
  induction l as [|m l IH]; intros infl; cbn [reset_out_list].
  - split; [reflexivity|constructor].
  - destruct (window_free c infl).
    + destruct (IH (infl + 1)) as [H1 H2]. destruct (reset_out_list c cl (infl + 1) l) as [r n].
      cbn [fst map] in *. split; [rewrite reset1_lof, H1; reflexivity|].
      constructor; [apply reset1_notwait|assumption].
    + destruct (IH infl) as [H1 H2]. destruct (reset_out_list c cl infl l) as [r n].
      cbn [fst map] in *. split; [rewrite H1; reflexivity|].
      constructor; [reflexivity|assumption].
Qed.

(* reconnect() reports queued QoS 0 publishes as lost: known QoS 0 tags, not C01's business *)
Lemma lost_fold : forall q k, q0known k q -> fold_left k01_ev (flat_map lost_evs q) k = k.
Proof.
  induction q as [|x q IH]; intros k Hq; [reflexivity|].
  change (x :: q) with ([x] ++ q) in Hq. apply q0known_app in Hq as [Hq1 Hq2].
  cbn [flat_map]. rewrite fold_left_app.
  assert (E : fold_left k01_ev (lost_evs x) k = k).
  { unfold lost_evs. destruct (q_pkt x) as [|m qs d t| | | |] eqn:Ex; try reflexivity.
    destruct (qs =? 0) eqn:E0; [|reflexivity]. destruct (q_info x); [|reflexivity].
    cbn [andb fold_left k01_ev].
    assert (Hin : zin t (k1_q0 k) = true).
    { apply Hq1. unfold q0tags. cbn [flat_map]. unfold q0tag. rewrite Ex, E0. left. reflexivity. }
    rewrite Hin. cbv iota. rewrite Hin. reflexivity. }
  rewrite E. apply IH. exact Hq2.
Qed.

Lemma lost_completed : forall q t, In t (completed_tags (flat_map lost_evs q)) -> In t (q0tags q).
Proof.
  induction q as [|x q IH]; intros t Ht; [destruct Ht|]. cbn [flat_map] in Ht.
  unfold completed_tags in Ht. rewrite flat_map_app in Ht. fold (completed_tags (lost_evs x)) in Ht.
  fold (completed_tags (flat_map lost_evs q)) in Ht.
  unfold q0tags. cbn [flat_map]. apply in_or_app. apply in_app_or in Ht as [Ht|Ht]; [left | right; apply IH; exact Ht].
  unfold lost_evs, q0tag in *. destruct (q_pkt x) as [|m qs d t'| | | |]; try destruct Ht.
  destruct (qs =? 0); [|destruct Ht]. destruct (q_info x); [|destruct Ht]. cbn in Ht. destruct Ht as [<-|[]]. left. reflexivity.
Qed.

Lemma completed_app a b : completed_tags (a ++ b) = completed_tags a ++ completed_tags b.
Proof. unfold completed_tags. apply flat_map_app. Qed.

Lemma good_reconnect c s ok k : R s k ->
  Good (fst (do_reconnect c s ok)) k (snd (do_reconnect c s ok)).
Proof.
  intros [Rok Rl Rd Rq0 Rq0q Re Rb Rc Rw].
  unfold do_reconnect.
  destruct (reset_out_facts c (clean_now c s) (out s) 0) as [H1 H2].
  destruct (reset_out_list c (clean_now c s) 0 (out s)) as [o n]. cbn [fst] in *.
  assert (Ht : tags o = tags (out s)) by (rewrite !tags_lof, H1; reflexivity).
  assert (Hq' : q0known (mkK01 (k1_live k) (k1_q0 k) (k1_done k) (k1_onconn k) (k1_wr k) false (k1_blk k) (k1_ok k)) (outq s))
    by exact Rq0q.
  destruct ok; cbn [fst snd].
  - assert (Hk : fold_left k01_ev (Reconn :: flat_map lost_evs (outq s) ++
                    [SockOpened (conn s + 1); Handed (conn s + 1) PConnect; Tx (conn s + 1) PConnect]) k
                 = mkK01 (k1_live k) (k1_q0 k) (k1_done k) [] [] false false (k1_ok k)).
    { cbn [fold_left k01_ev]. rewrite fold_left_app, (lost_fold _ _ Hq'). reflexivity. }
    split.
    + rewrite Hk. unfold R. constructor; cbn -[tags]; rewrite ?Ht; try assumption; try reflexivity; try discriminate;
        try (symmetry; assumption).
      * rewrite H1. exact Rl.
      * intros t [].
      * intros _ m Hm Hw. pose proof (proj1 (Forall_forall _ _) H2 m Hm). congruence.
      * intros _ m Hm Hw. pose proof (proj1 (Forall_forall _ _) H2 m Hm). congruence.
    + apply ok1_q0. intros t Ht'. rewrite Hk. cbn [k1_q0]. apply Rq0q. apply lost_completed.
      cbn [completed_tags flat_map app] in Ht'. fold (completed_tags (flat_map lost_evs (outq s) ++
                    [SockOpened (conn s + 1); Handed (conn s + 1) PConnect; Tx (conn s + 1) PConnect])) in Ht'.
      rewrite completed_app in Ht'. cbn in Ht'. rewrite app_nil_r in Ht'. exact Ht'.
  - assert (Hk : fold_left k01_ev (Reconn :: flat_map lost_evs (outq s) ++ [Raised]) k
                 = mkK01 (k1_live k) (k1_q0 k) (k1_done k) (k1_onconn k) (k1_wr k) false (k1_blk k) (k1_ok k)).
    { cbn [fold_left k01_ev]. rewrite fold_left_app, (lost_fold _ _ Hq'). reflexivity. }
    split.
    + rewrite Hk. unfold R. constructor; cbn -[tags]; rewrite ?Ht; try assumption; try reflexivity; try discriminate;
        try (symmetry; assumption).
      * rewrite H1. exact Rl.
      * intros t [].
    + apply ok1_q0. intros t Ht'. rewrite Hk. cbn [k1_q0]. apply Rq0q. apply lost_completed.
      cbn [completed_tags flat_map app] in Ht'. fold (completed_tags (flat_map lost_evs (outq s) ++ [Raised])) in Ht'.
      rewrite completed_app in Ht'. cbn in Ht'. rewrite app_nil_r in Ht'. exact Ht'.
Qed.

Lemma good_connlost c s k : R s k ->
  Good (fst (step c s OConnLost)) k (snd (step c s OConnLost)).
Proof.
  intros HR. cbn [step]. destruct (sock s) eqn:Hs; cbn [fst snd]; [|apply good_nil; assumption].
  destruct HR as [Rok Rl Rd Rq0 Rq0q Re Rb Rc Rw].
  split; [|reflexivity]. cbn [fold_left k01_ev]. unfold R.
  constructor; cbn; try assumption; try discriminate.
Qed.

Lemma good_ack c s mid q k : Inv c s -> R s k ->
  Good (fst (do_ack c s mid q)) k (snd (do_ack c s mid q)).
Proof.
  intros I HR. unfold do_ack. destruct (c_manual c); [|apply good_nil; assumption].
  destruct (q =? 1); [apply (good_send_plain s k _ []); [exact Logic.I | reflexivity | exact (inv_qidle _ _ I) | exact HR]|].
  destruct (q =? 2); [apply (good_send_plain s k _ []); [exact Logic.I | reflexivity | exact (inv_qidle _ _ I) | exact HR]|].
  apply good_nil; assumption.
Qed.

Lemma good_block s b k : R s k -> Good (fst (do_block s b)) k (snd (do_block s b)).
Proof.
  intros HR. unfold do_block. destruct (sock s) eqn:Hs; [|apply good_nil; assumption].
  destruct HR as [Rok Rl Rd Rq0 Rq0q Re Rb Rc Rw].
  destruct b; cbn [fst snd lw].
  - split; [|reflexivity]. cbn [fold_left k01_ev]. unfold R. constructor; cbn; try assumption. reflexivity.
  - assert (Hq' : q0known (k01_ev k (Blk false)) (outq s)) by exact Rq0q.
    split.
    + cbn [fold_left]. rewrite (flush_fold _ _ _ Hq'). unfold R.
      constructor; cbn [k1_ok k1_live k1_done k1_q0 k1_est k1_blk k1_onconn k1_wr set_wr k01_ev
                        out ntag cack sock blocked outq with_q with_blocked]; try assumption.
      * intros t [].
      * reflexivity.
      * intros Hs' m Hm Hw. left. apply zadds_In. destruct (Rw Hs' m Hm Hw) as [H|[H|[]]]; [left|right]; exact H.
    + apply ok1_q0. intros t Ht. apply q0_mono. cbn [completed_tags flat_map app] in Ht.
      fold (completed_tags (flush_evs (conn s) (outq s))) in Ht. apply Rq0q. apply (flush_completed _ _ _ Ht).
Qed.

(* ---------------------------------------------------------------- CONNACK *)
Lemma cl1_lof m : lof (cl1 m) = lof m.
Proof. unfold lof. rewrite cl1_tag, cl1_mid. unfold cl1. destruct (o_st m); try reflexivity. destruct (o_qos m =? 2); reflexivity. Qed.

Lemma cl_pk_qtags m : qos_okb m = true -> is_queued m = false -> is_wait m = false -> qtags (cl_pk m) = [o_tag m].
Proof.
  intros Hq Hn Hw. pose proof (qos_ok_nz m Hq) as H0. unfold cl_pk, qtags, qtag, ptag, is_queued, is_wait, qos_okb in *.
  destruct (o_st m); try discriminate; cbn [flat_map q_pkt pub_pkt rel_pkt app].
  - rewrite H0. reflexivity.
  - destruct (o_qos m =? 1) eqn:E1; [discriminate|]. apply andb_true_iff in Hq as [Hq _]. rewrite Hq. reflexivity.
Qed.

Lemma qtags_flat_map_in {A} (f : A -> list qpkt) : forall l a t, In a l -> In t (qtags (f a)) -> In t (qtags (flat_map f l)).
Proof.
  induction l as [|b l IH]; intros a t Ha Ht; [destruct Ha|]. cbn [flat_map]. rewrite qtags_app. apply in_or_app.
  destruct Ha as [->|Ha]; [left; exact Ht | right; eapply IH; eassumption].
Qed.

Lemma good_connack c s rc r k : cfg_ok c = true -> Inv c s -> sock s = true -> R s k ->
  Good (fst (do_rx c s (IConnack rc) r)) k (snd (do_rx c s (IConnack rc) r)).
Proof.
  intros Hcfg I Hs HR. pose proof (inv_qidle _ _ I) as Hi.
  pose proof HR as [Rok Rl Rd Rq0 Rq0q Re Rb Rc Rw].
  destruct (rc =? 0) eqn:Erc.
  2:{ unfold do_rx. rewrite Hs. cbn [negb]. rewrite Erc. cbn [fst snd]. split; [|reflexivity].
      cbn [fold_left k01_ev]. rewrite Erc. unfold R.
      constructor; cbn; try assumption; try reflexivity; try discriminate. }
  assert (rc = 0) by lia. subst rc.
  destruct (connack_char c s r I Hs) as (C & Q & So & Sh & E). rewrite E. cbn [fst snd]. clear E.
  set (H := flat_map cl_pk C).
  assert (HH : Forall noq0 H).
  { apply Forall_flat_map. apply Forall_forall. intros x Hx. apply noq0_cl_pk.
    apply (proj1 (Forall_forall _ _) (inv_qos _ _ I)). rewrite So. apply in_or_app. left. exact Hx. }
  set (s1 := with_out (connack_s1 s) (map cl1 C ++ Q) (inflight s)).
  set (k1 := k01_ev k (Inp (IConnack 0))).
  assert (Hlof : map lof (map cl1 C ++ Q) = map lof (out s)).
  { rewrite So, !map_app, map_map. f_equal. apply map_ext. apply cl1_lof. }
  assert (Htags : tags (map cl1 C ++ Q) = tags (out s)) by (rewrite !tags_lof, Hlof; reflexivity).
  assert (HX : Rx (qtags H) (map cl1 C ++ Q) s1 k1).
  { constructor; cbn [k1 k01_ev k1_ok k1_live k1_done k1_q0 k1_est k1_blk k1_onconn k1_wr
                      out ntag cack sock blocked outq with_out connack_s1 s1]; rewrite ?Htags; try assumption.
    - rewrite Hlof. exact Rl.
    - reflexivity.
    - intros _ m' Hm' Hw'. apply in_app_or in Hm' as [Hm'|Hm'].
      + apply in_map_iff in Hm' as (m & <- & Hm). destruct (is_wait m) eqn:Hw.
        * left. rewrite cl1_tag. apply (r_conn _ _ HR Hs); [rewrite So; apply in_or_app; left; exact Hm | exact Hw].
        * right. rewrite cl1_tag. apply (qtags_flat_map_in cl_pk C m _ Hm).
          rewrite cl_pk_qtags; [left; reflexivity | | | exact Hw].
          -- apply (proj1 (Forall_forall _ _) (inv_qos _ _ I)). rewrite So. apply in_or_app. left. exact Hm.
          -- exact (proj1 (Forall_forall _ _) (sh_C _ _ _ _ _ Sh) m Hm).
      + exfalso. pose proof (proj1 (Forall_forall _ _) (sh_Q _ _ _ _ _ Sh) m' Hm') as Hq. cbn beta in Hq.
        apply wait_nq in Hw'. congruence.
    - intros _ m' Hm' Hw'. apply in_app_or in Hm' as [Hm'|Hm'].
      + apply in_map_iff in Hm' as (m & <- & Hm). destruct (is_wait m) eqn:Hw.
        * rewrite cl1_tag. destruct (r_wr _ _ HR Hs m) as [H'|H']; [rewrite So; apply in_or_app; left; exact Hm | exact Hw | left; exact H' | right; left; exact H'].
        * right. right. rewrite cl1_tag. apply (qtags_flat_map_in cl_pk C m _ Hm).
          rewrite cl_pk_qtags; [left; reflexivity | | | exact Hw].
          -- apply (proj1 (Forall_forall _ _) (inv_qos _ _ I)). rewrite So. apply in_or_app. left. exact Hm.
          -- exact (proj1 (Forall_forall _ _) (sh_C _ _ _ _ _ Sh) m Hm).
      + exfalso. pose proof (proj1 (Forall_forall _ _) (sh_Q _ _ _ _ _ Sh) m' Hm') as Hq. cbn beta in Hq.
        apply wait_nq in Hw'. congruence. }
  assert (Hi1 : can_write s1 = true -> outq s1 = []) by exact Hi.
  pose proof (Rx_hand_all _ _ s1 k1 H HX Hi1 HH (incl_refl _)) as HX'.
  split.
  - cbn [fold_left]. exact HX'.
  - apply ok1_q0. intros t Ht. cbn [completed_tags flat_map app] in Ht.
    fold (completed_tags (snd (hand_all (conn s) (can_write s) (outq s) H))) in Ht.
    rewrite (hand_all_completed _ _ _ _ Hi HH) in Ht. destruct Ht.
Qed.

(* ---------------------------------------------------------------- the final acknowledgement *)
Definition final_pkt (m : omsg) (p : inpkt) : Prop :=
  (p = IPuback (o_mid m) /\ o_qos m = 1) \/ (p = IPubcomp (o_mid m) /\ o_qos m = 2).

Lemma rel1_lof m : lof (rel1 m) = lof m.
Proof. reflexivity. Qed.

Lemma rel_pk_qtags : forall L, Forall (fun m => qos_okb m = true) L -> qtags (map rel_pk L) = tags L.
Proof.
  induction L as [|m L IH]; intros H; [reflexivity|]. inversion H; subst.
  unfold qtags, tags in *. cbn [map flat_map]. rewrite IH by assumption.
  unfold qtag, rel_pk, pub_pkt, ptag. cbn [q_pkt]. rewrite (qos_ok_nz m) by assumption. reflexivity.
Qed.

Lemma good_on_publish c s m p k : cfg_ok c = true -> Inv c s -> sock s = true -> cack s = true ->
  In m (out s) -> is_wait m = true -> final_pkt m p -> R s k ->
  Good (fst (do_on_publish c s m)) k (Inp p :: snd (do_on_publish c s m)).
Proof.
  intros Hcfg I Hs Hck Hin Hw Hp HR. pose proof (inv_qidle _ _ I) as Hi.
  pose proof HR as [Rok Rl Rd Rq0 Rq0q Re Rb Rc Rw].
  destruct (on_publish_char c Hcfg s m (inv_m _ _ I) Hs Hck Hin Hw)
    as (C1 & C2 & Q & j & n & So & Se' & SQ & Hj & Hn & Hle & Hfull & E).
  rewrite E. cbn [fst snd]. clear E.
  set (L := firstn j Q). set (o' := (C1 ++ C2) ++ map rel1 L ++ skipn j Q).
  assert (HLq : Forall (fun x => qos_okb x = true) L).
  { apply Forall_forall. intros x Hx. apply (proj1 (Forall_forall _ _) (inv_qos _ _ I)). rewrite So.
    apply in_or_app. right. rewrite <- (firstn_skipn j Q). apply in_or_app. left. exact Hx. }
  assert (HH : Forall noq0 (map rel_pk L)).
  { apply Forall_map. eapply Forall_impl; [|exact HLq]. intros a. apply noq0_rel_pk. }
  (* tags: the removed message is nowhere else *)
  pose proof (SSorted_NoDup _ (inv_sorted _ _ I)) as Hnd. rewrite So in Hnd.
  assert (Hlof' : map lof o' = map lof ((C1 ++ C2) ++ Q)).
  { unfold o'. rewrite !map_app, map_map. change (map (fun x => lof (rel1 x)) L) with (map lof L).
    rewrite <- (map_app lof L). unfold L. rewrite (firstn_skipn j Q). reflexivity. }
  assert (Htags' : tags o' = tags (C1 ++ C2) ++ tags Q).
  { rewrite tags_lof, Hlof', <- tags_lof, tags_app. reflexivity. }
  assert (Hnotin : ~ In (o_tag m) (tags o')).
  { rewrite Htags'. rewrite !tags_app in Hnd. cbn [tags map] in Hnd. rewrite <- app_assoc in Hnd. cbn [app] in Hnd.
    pose proof (NoDup_remove_2 _ _ _ Hnd) as H. rewrite tags_app, <- app_assoc. exact H. }
  assert (Hsubt : forall t, In t (tags o') -> In t (tags (out s))).
  { intros t Ht. rewrite Htags' in Ht. rewrite So, !tags_app. cbn [tags map]. rewrite tags_app in Ht.
    apply in_app_or in Ht as [Ht|Ht]; [|apply in_or_app; right; exact Ht].
    apply in_or_app. left. apply in_app_or in Ht as [Ht|Ht]; apply in_or_app; [left | right; right]; exact Ht. }
  assert (Htm : 0 <= o_tag m < ntag s) by exact (proj1 (Forall_forall _ _) (inv_tags _ _ I) m Hin).
  assert (Hintag : In (o_tag m) (tags (out s))) by (unfold tags; apply in_map; exact Hin).
  assert (Hq0f : zin (o_tag m) (k1_q0 k) = false).
  { apply zin_of_notIn. intros H. destruct (Rq0 _ H) as [_ H']. exact (H' Hintag). }
  assert (Hhas : lhas_tag (o_tag m) (k1_live k) = true).
  { rewrite Rl. apply lhas_tag_In. rewrite <- tags_lof. exact Hintag. }
  assert (Hnd' : zin (o_tag m) (k1_done k) = false).
  { apply zin_of_notIn. intros H. destruct (Rd _ H) as [_ H']. exact (H' Hintag). }
  assert (Hrem : lrem_tag (o_tag m) (k1_live k) = map lof o').
  { rewrite Rl, Hlof', So, <- !app_assoc, !map_app. cbn [map app].
    rewrite !tags_app in Hnd. cbn [tags map] in Hnd. rewrite <- app_assoc in Hnd. cbn [app] in Hnd.
    pose proof (NoDup_remove_2 _ _ _ Hnd) as H.
    apply lrem_tag_split; [| |reflexivity]; rewrite <- ?map_app, <- tags_lof; intros H'; apply H; apply in_or_app;
      [left; exact H' | right; rewrite tags_app in H'; exact H']. }
  set (k1 := mkK01 (map lof o') (k1_q0 k) (k1_done k ++ [o_tag m]) (k1_onconn k) (k1_wr k) (k1_est k) (k1_blk k) true).
  assert (Hk : fold_left k01_ev [Inp p; CbPublish (o_mid m) (o_tag m); Published (o_tag m)] k = k1).
  { destruct Hp as [[-> _]|[-> _]]; cbn [fold_left k01_ev]; rewrite Hq0f; cbn [k1_q0 k1_live k1_done k1_ok];
      rewrite Hq0f, Hhas, Hnd', Hrem, Rok; reflexivity. }
  set (s1 := with_out s o' n).
  assert (HX : Rx (tags L) o' s1 k1).
  { constructor; cbn [k1 k1_ok k1_live k1_done k1_q0 k1_est k1_blk k1_onconn k1_wr
                      out ntag cack sock blocked outq with_out s1]; try assumption; try reflexivity.
    - intros t Ht. apply in_app_or in Ht as [Ht|[<-|[]]].
      + destruct (Rd _ Ht) as [Ha Hb]. split; [assumption|]. intros H. apply Hb. apply Hsubt. exact H.
      + split; [lia | exact Hnotin].
    - intros t Ht. destruct (Rq0 _ Ht) as [Ha Hb]. split; [assumption|]. intros H. apply Hb. apply Hsubt. exact H.
    - intros _ x Hx Hwx. unfold o' in Hx. apply in_app_or in Hx as [Hx|Hx].
      + left. apply (r_conn _ _ HR Hs); [|exact Hwx]. rewrite So. apply in_or_app. left.
        apply in_app_or in Hx as [Hx|Hx]; apply in_or_app; [left | right; right]; exact Hx.
      + apply in_app_or in Hx as [Hx|Hx].
        * right. apply in_map_iff in Hx as (y & <- & Hy). change (o_tag (rel1 y)) with (o_tag y). unfold tags. apply in_map. exact Hy.
        * exfalso. pose proof (proj1 (Forall_forall _ _) (Forall_skipn _ j _ SQ) x Hx) as Hqx. cbn beta in Hqx.
          apply wait_nq in Hwx. congruence.
    - intros _ x Hx Hwx. unfold o' in Hx. apply in_app_or in Hx as [Hx|Hx].
      + destruct (r_wr _ _ HR Hs x) as [H|H]; [|exact Hwx | left; exact H | right; left; exact H].
        rewrite So. apply in_or_app. left.
        apply in_app_or in Hx as [Hx|Hx]; apply in_or_app; [left | right; right]; exact Hx.
      + apply in_app_or in Hx as [Hx|Hx].
        * right. right. apply in_map_iff in Hx as (y & <- & Hy). change (o_tag (rel1 y)) with (o_tag y). unfold tags. apply in_map. exact Hy.
        * exfalso. pose proof (proj1 (Forall_forall _ _) (Forall_skipn _ j _ SQ) x Hx) as Hqx. cbn beta in Hqx.
          apply wait_nq in Hwx. congruence. }
  assert (Hi1 : can_write s1 = true -> outq s1 = []) by exact Hi.
  pose proof (Rx_hand_all _ _ s1 k1 (map rel_pk L) HX Hi1 HH ltac:(rewrite (rel_pk_qtags L HLq); apply incl_refl)) as HX'.
  change (Inp p :: CbPublish (o_mid m) (o_tag m) :: Published (o_tag m) :: snd (hand_all (conn s) (can_write s) (outq s) (map rel_pk L)))
    with ([Inp p; CbPublish (o_mid m) (o_tag m); Published (o_tag m)] ++ snd (hand_all (conn s) (can_write s) (outq s) (map rel_pk L))).
  split.
  - rewrite fold_left_app, Hk. exact HX'.
  - unfold ok1_of. rewrite completed_app, (hand_all_completed _ _ _ _ Hi HH), app_nil_r.
    assert (Hfin : existsb (fun m0 => (l_tag m0 =? o_tag m) &&
                     existsb (final_ack_of m0) ([Inp p; CbPublish (o_mid m) (o_tag m); Published (o_tag m)] ++
                                                snd (hand_all (conn s) (can_write s) (outq s) (map rel_pk L)))) (k1_live k) = true).
    { apply existsb_exists. exists (lof m). split; [rewrite Rl; apply in_map; assumption|].
      cbn [lof l_tag]. rewrite Z.eqb_refl. cbn [andb app existsb].
      destruct Hp as [[-> Hq]|[-> Hq]]; cbn [final_ack_of lof l_qos l_mid]; apply orb_true_iff; left; lia. }
    cbn [app] in Hfin.
    destruct Hp as [[-> _]|[-> _]]; cbn [completed_tags flat_map app forallb]; rewrite Hfin, !orb_true_r; reflexivity.
Qed.

(* ---------------------------------------------------------------- PUBREC *)
Lemma update_mid_facts mid f : (forall m, lof (f m) = lof m) -> forall l,
  map lof (update_mid mid f l) = map lof l /\
  (forall x, In x (update_mid mid f l) -> In x l \/ exists m, find_mid mid l = Some m /\ x = f m).
Proof.
  intros Hf. induction l as [|m l [IH1 IH2]]; cbn [update_mid find_mid].
  - split; [reflexivity|]. intros x [].
  - destruct (o_mid m =? mid).
    + cbn [map]. split; [rewrite Hf; reflexivity|].
      intros x [<-|Hx]; [right; exists m; split; reflexivity|left; right; assumption].
    + cbn [map]. split; [rewrite IH1; reflexivity|].
      intros x [<-|Hx]; [left; left; reflexivity|].
      destruct (IH2 x Hx) as [H|H]; [left; right; assumption|right; assumption].
Qed.

Lemma good_pubrec c s mid m k : Inv c s -> sock s = true -> find_mid mid (out s) = Some m -> R s k ->
  Good (fst (send (with_out s (update_mid mid (fun m0 => set_st m0 MsWaitPubcomp) (out s)) (inflight s))
                  (mkQ (PPubrel mid (o_tag m)) false))) k
       (Inp (IPubrec mid) :: snd (send (with_out s (update_mid mid (fun m0 => set_st m0 MsWaitPubcomp) (out s)) (inflight s))
                                       (mkQ (PPubrel mid (o_tag m)) false))).
Proof.
  intros I Hs Ef HR. pose proof (inv_qidle _ _ I) as Hi.
  pose proof HR as [Rok Rl Rd Rq0 Rq0q Re Rb Rc Rw].
  destruct (update_mid_facts mid (fun m0 => set_st m0 MsWaitPubcomp) (fun _ => eq_refl) (out s)) as [H1 H2].
  set (o' := update_mid mid (fun m0 => set_st m0 MsWaitPubcomp) (out s)) in *.
  assert (Ht : tags o' = tags (out s)) by (rewrite !tags_lof, H1; reflexivity).
  set (s1 := with_out s o' (inflight s)). set (x := mkQ (PPubrel mid (o_tag m)) false).
  assert (HX : Rx [o_tag m] o' s1 k).
  { constructor; cbn [out ntag cack sock blocked outq with_out s1]; rewrite ?Ht; try assumption.
    - rewrite H1. exact Rl.
    - intros _ y Hy Hwy. destruct (H2 y Hy) as [H|(m' & Hm' & ->)].
      + left. apply (r_conn _ _ HR Hs); assumption.
      + right. rewrite Ef in Hm'. inversion Hm'. left. reflexivity.
    - intros _ y Hy Hwy. destruct (H2 y Hy) as [H|(m' & Hm' & ->)].
      + destruct (r_wr _ _ HR Hs y H Hwy) as [H'|H']; [left; exact H' | right; left; exact H'].
      + right. right. rewrite Ef in Hm'. inversion Hm'. left. reflexivity. }
  assert (Hi1 : can_write s1 = true -> outq s1 = []) by exact Hi.
  assert (HH : Forall noq0 [x]) by (repeat constructor).
  pose proof (Rx_hand_all _ _ s1 k [x] HX Hi1 HH ltac:(apply incl_refl)) as HX'.
  rewrite (send_hand_all s1 x). cbn [fst snd]. split.
  - cbn [fold_left k01_ev]. exact HX'.
  - apply ok1_q0. intros t Ht'. cbn [completed_tags flat_map app] in Ht'.
    fold (completed_tags (snd (hand_all (conn s1) (can_write s1) (outq s1) [x]))) in Ht'.
    rewrite (hand_all_completed _ _ _ _ Hi1 HH) in Ht'. destruct Ht'.
Qed.

(* ---------------------------------------------------------------- one inbound packet *)
Lemma good_rx c s p r k : cfg_ok c = true -> Inv c s -> conf_op c s (ORx p r) = true -> R s k ->
  Good (fst (do_rx c s p r)) k (snd (do_rx c s p r)).
Proof.
  intros Hcfg I Hconf HR. pose proof (inv_qidle _ _ I) as Hi. destruct (sock s) eqn:Hs.
  2: { unfold do_rx. rewrite Hs. cbn [negb fst snd]. apply good_nil; assumption. }
  assert (Hreply : forall s1 x pre, out s1 = out s -> ntag s1 = ntag s -> sock s1 = sock s -> cack s1 = cack s ->
            blocked s1 = blocked s -> outq s1 = outq s ->
            match q_pkt x with PConnect | PPuback _ | PPubrec _ | PPubcomp _ => True | _ => False end ->
            forallb neutral pre = true ->
            Good (fst (let (s2, ev2) := send s1 x in (s2, pre ++ ev2))) k
                 (snd (let (s2, ev2) := send s1 x in (s2, pre ++ ev2)))).
  { intros s1 x pre E1 E2 E3 E4 E5 E6 Hx Hpre.
    assert (HR1 : R s1 k) by (unfold R; rewrite E1; apply (Rx_ext [] (out s) s); assumption).
    assert (Hi1 : can_write s1 = true -> outq s1 = []) by (apply (idle_ext s); assumption).
    pose proof (good_send_plain s1 k x pre Hx Hpre Hi1 HR1) as H.
    destruct (send s1 x) as [s2 ev]. exact H. }
  destruct p as [rc|mid|mid|mid|mid|q mid tag].
  - apply good_connack; assumption.
  - unfold do_rx. rewrite Hs. cbn [negb]. cbn [conf_op] in Hconf. rewrite Hs in Hconf. cbn [negb] in Hconf.
    destruct (find_mid mid (out s)) as [m|] eqn:Ef.
    + pose proof (find_mid_In _ _ _ Ef) as [Hin Hmid]. subst mid.
      apply andb_true_iff in Hconf as [Hck Hconf]. apply andb_true_iff in Hconf as [Hconf _].
      apply andb_true_iff in Hconf as [Hq Hst].
      assert (Hw : is_wait m = true) by (unfold is_wait; destruct (o_st m); try discriminate; reflexivity).
      pose proof (good_on_publish c s m (IPuback (o_mid m)) k Hcfg I Hs Hck Hin Hw) as H.
      destruct (do_on_publish c s m) as [s' ev]. cbn [fst snd] in *.
      apply H; [left; split; [reflexivity|lia]|assumption].
    + cbn [fst snd]. apply (good_neutral s s); auto.
  - unfold do_rx. rewrite Hs. cbn [negb].
    destruct (find_mid mid (out s)) as [m|] eqn:Ef; cbn [fst snd].
    + pose proof (good_pubrec c s mid m k I Hs Ef HR) as H. destruct (send _ _) as [s2 ev]. exact H.
    + apply (good_neutral s s); auto.
  - unfold do_rx. rewrite Hs. cbn [negb]. cbn [conf_op] in Hconf. rewrite Hs in Hconf. cbn [negb] in Hconf.
    destruct (find_mid mid (out s)) as [m|] eqn:Ef.
    + pose proof (find_mid_In _ _ _ Ef) as [Hin Hmid]. subst mid.
      apply andb_true_iff in Hconf as [Hck Hconf]. apply andb_true_iff in Hconf as [Hconf _].
      apply andb_true_iff in Hconf as [Hq Hst].
      assert (Hw : is_wait m = true) by (unfold is_wait; destruct (o_st m); try discriminate; reflexivity).
      pose proof (good_on_publish c s m (IPubcomp (o_mid m)) k Hcfg I Hs Hck Hin Hw) as H.
      destruct (do_on_publish c s m) as [s' ev]. cbn [fst snd] in *.
      apply H; [right; split; [reflexivity|lia]|assumption].
    + cbn [fst snd]. apply (good_neutral s s); auto.
  - unfold do_rx, deliver. rewrite Hs. cbn [negb].
    destruct (in_find mid (inm s)) as [tag|].
    + destruct (r && negb (c_suppress c)); [|destruct (c_manual c)];
        try solve [cbn [fst snd]; apply (good_neutral s); auto].
      apply (Hreply _ _ [Inp (IPubrel mid); CbMessage mid 2 tag]); reflexivity || exact Logic.I.
    + destruct (c_manual c); [cbn [fst snd]; apply (good_neutral s); auto|].
      apply (Hreply _ _ [Inp (IPubrel mid)]); reflexivity || exact Logic.I.
  - unfold do_rx, deliver. rewrite Hs. cbn [negb].
    destruct (q =? 0).
    + destruct (r && negb (c_suppress c)); cbn [fst snd]; apply (good_neutral s); auto.
    + destruct (q =? 1).
      * destruct (r && negb (c_suppress c)); [|destruct (c_manual c)];
          try solve [cbn [fst snd]; apply (good_neutral s); auto].
        apply (Hreply _ _ [Inp (IPublish q mid tag); CbMessage mid 1 tag]); reflexivity || exact Logic.I.
      * pose proof (Hreply s (mkQ (PPubrec mid) false) [Inp (IPublish q mid tag)]
                      eq_refl eq_refl eq_refl eq_refl eq_refl eq_refl Logic.I eq_refl) as H.
        destruct (send s (mkQ (PPubrec mid) false)) as [s2 ev2]. cbn [fst snd] in *.
        destruct H as [H1 H2]. split; [|exact H2]. unfold R in *. cbn [out with_inm].
        apply (Rx_ext [] (out s2) s2); try reflexivity. exact H1.
Qed.

(* ---------------------------------------------------------------- every operation *)
Lemma good_step c s o k : cfg_ok c = true -> Inv c s -> conf_op c s o = true -> R s k ->
  Good (fst (step c s o)) k (snd (step c s o)).
Proof.
  intros Hcfg I Hc HR. destruct o as [q|ok| |p r|mid q|b].
  - cbn [step]. apply good_publish; assumption.
  - cbn [step]. apply good_reconnect; assumption.
  - apply good_connlost; assumption.
  - cbn [step]. apply good_rx; assumption.
  - cbn [step]. apply good_ack; assumption.
  - cbn [step]. apply good_block; assumption.
Qed.

Lemma R_step c s o k : cfg_ok c = true -> Inv c s -> conf_op c s o = true -> R s k ->
  R (fst (step c s o)) (k01_op (c_max c) k (snd (step c s o))).
Proof.
  intros Hcfg I Hc HR. destruct (good_step c s o k Hcfg I Hc HR) as [HR' Hok1].
  pose proof (inv_step c Hcfg s o I Hc) as I'.
  pose proof (R_ok2 c _ _ I' HR') as Hok2.
  rewrite k01_op_eq. cbv zeta. rewrite Hok1, Hok2, !andb_true_r.
  destruct HR' as [Rok Rl Rd Rq0 Rq0q Re Rb Rc Rw]. unfold R. constructor; cbn; assumption.
Qed.

