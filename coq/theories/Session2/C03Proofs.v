(* C03: the inbound half of the second-generation Session model refines the abstract receiver
   [spec_recv], for arbitrary histories (no conformance hypothesis): the callbacks and the replies
   HANDED to the connection in every operation are exactly what the receiver dictates.  (That the
   replies are written in that order, in the same operation unless the transport refuses writes,
   and dropped by reconnect() otherwise, is [fifo_proved].) *)
From PahoV Require Import Base.Prelude Codec.Mid Session2.Model Session2.Check Session2.Statements.

Definition R03 (s : sess) (k : k03) : Prop :=
  k03_ok k = true /\ k03_pend k = inm s /\ k03_first k = first s.

Definition is_reconn (e : event) : bool := match e with Reconn => true | _ => false end.

(* events that the receiver checker does not see at all *)
Definition silent (evs : list event) : Prop :=
  filter inbound_ev evs = [] /\ existsb is_reconn evs = false /\ first_in evs = None /\ raised_in evs = false.

Lemma first_in_app a b : first_in (a ++ b) = match first_in a with Some p => Some p | None => first_in b end.
Proof.
  induction a as [|e a IH]; cbn [app first_in]; [reflexivity|]. destruct e; try exact IH. reflexivity.
Qed.

Lemma raised_in_app a b : raised_in (a ++ b) = raised_in a || raised_in b.
Proof. unfold raised_in. apply existsb_app. Qed.

Lemma silent_nil : silent [].
Proof. repeat split. Qed.

Lemma silent_app a b : silent a -> silent b -> silent (a ++ b).
Proof.
  intros (A1 & A2 & A3 & A4) (B1 & B2 & B3 & B4). unfold silent.
  rewrite filter_app, existsb_app, first_in_app, raised_in_app, A1, A2, A3, A4, B1, B2, B3, B4. repeat split.
Qed.

Lemma silent_written x : silent (written_evs x).
Proof.
  unfold written_evs. destruct (q_pkt x) as [|m q d t| | | |]; try apply silent_nil.
  destruct (q =? 0); [repeat split | apply silent_nil].
Qed.

Lemma silent_flush cn : forall q, silent (flush_evs cn q).
Proof.
  induction q as [|x q IH]; [apply silent_nil|]. cbn [flush_evs].
  change (Tx cn (q_pkt x) :: written_evs x ++ flush_evs cn q) with ([Tx cn (q_pkt x)] ++ written_evs x ++ flush_evs cn q).
  apply silent_app; [repeat split|]. apply silent_app; [apply silent_written | exact IH].
Qed.

Lemma silent_lw cn t alive q : silent (snd (fst (lw cn t alive q))).
Proof.
  unfold lw. destruct alive; [|apply silent_nil]. destruct t; cbn [fst snd]; [apply silent_flush | apply silent_nil|].
  destruct q; cbn [fst snd]; [apply silent_nil | repeat split].
Qed.

(* a hand-over: the [Handed] event, then nothing the checker sees *)
Lemma pq_events cn t alive q x : exists tl, snd (fst (pq cn t alive q x)) = Handed cn (q_pkt x) :: tl /\ silent tl.
Proof.
  unfold pq. pose proof (silent_lw cn t alive (q ++ [x])) as H. destruct (lw cn t alive (q ++ [x])) as [[q' ev] a].
  exists ev. split; [reflexivity | exact H].
Qed.

Lemma send_events s x : exists tl, snd (send s x) = Handed (conn s) (q_pkt x) :: tl /\ silent tl.
Proof.
  unfold send. destruct (sock s); [|exists []; split; [reflexivity | apply silent_nil]].
  destruct (pq_events (conn s) (tm s) true (outq s) x) as (tl & E & H).
  destruct (pq (conn s) (tm s) true (outq s) x) as [[q' ev] a]. cbn [fst snd] in *. exists tl. split; assumption.
Qed.

Lemma send_state s x : inm (fst (send s x)) = inm s /\ first (fst (send s x)) = first s.
Proof.
  unfold send. destruct (sock s); [|split; reflexivity].
  destruct (pq (conn s) (tm s) true (outq s) x) as [[q' ev] a]. destruct a; split; reflexivity.
Qed.

(* hand-overs of packets that are not replies are silent altogether *)
Definition not_reply (p : pkt) : Prop := match p with PPuback _ | PPubrec _ | PPubcomp _ => False | _ => True end.

Lemma silent_handed cn p tl : not_reply p -> silent tl -> silent (Handed cn p :: tl).
Proof.
  intros Hp (A1 & A2 & A3 & A4). unfold silent. cbn [filter inbound_ev existsb is_reconn first_in raised_in orb].
  destruct p; try contradiction; cbn [inbound_ev]; rewrite A1; repeat split; assumption.
Qed.

Lemma silent_pq cn t alive q x : not_reply (q_pkt x) -> silent (snd (fst (pq cn t alive q x))).
Proof. intros Hp. destruct (pq_events cn t alive q x) as (tl & -> & H). apply silent_handed; assumption. Qed.

Lemma silent_connack_loop cn t : forall l q, silent (snd (fst (connack_loop cn t q l))).
Proof.
  induction l as [|m l IH]; intros q; cbn [connack_loop]; [apply silent_nil|].
  assert (Hskip : silent (snd (fst (let '(q1, ev1, a1) := lw cn t true q in
                               if a1 then let '(r, q2, ev2, a2) := connack_loop cn t q1 l in (m :: r, q2, ev1 ++ ev2, a2)
                               else (m :: l, q1, ev1, false))))).
  { pose proof (silent_lw cn t true q) as H1. destruct (lw cn t true q) as [[q1 ev1] a1]. destruct a1; [|exact H1].
    specialize (IH q1). destruct (connack_loop cn t q1 l) as [[[r q2] ev2] a2]. cbn [fst snd] in *.
    apply silent_app; assumption. }
  assert (Hsend : forall x m', not_reply (q_pkt x) ->
            silent (snd (fst (let '(q1, ev1, a1) := pq cn t true q x in
                         if a1 then let '(r, q2, ev2, a2) := connack_loop cn t q1 l in (m' :: r, q2, ev1 ++ ev2, a2)
                         else (m' :: l, q1, ev1, false))))).
  { intros x m' Hx. pose proof (silent_pq cn t true q x Hx) as H1. destruct (pq cn t true q x) as [[q1 ev1] a1].
    destruct a1; [|exact H1].
    specialize (IH q1). destruct (connack_loop cn t q1 l) as [[[r q2] ev2] a2]. cbn [fst snd] in *.
    apply silent_app; assumption. }
  destruct (o_st m); try exact Hskip.
  - apply Hsend; exact I.
  - destruct (o_qos m =? 2); [apply Hsend; exact I | exact Hskip].
  - pose proof (silent_lw cn t true q) as H1. destruct (lw cn t true q) as [[q1 ev1] a1]. exact H1.
Qed.

Lemma silent_update_inflight c cn t : forall l infl q, silent (snd (fst (update_inflight c cn t infl q l))).
Proof.
  induction l as [|m l IH]; intros infl q; cbn [update_inflight]; [apply silent_nil|].
  destruct (infl <? c_max c); [|apply silent_nil].
  destruct (is_queued m).
  - pose proof (silent_pq cn t true q (mkQ (pub_pkt m) false) I) as H1.
    destruct (pq cn t true q (mkQ (pub_pkt m) false)) as [[q1 ev1] a1]. destruct a1; [|exact H1].
    specialize (IH (infl + 1) q1). destruct (update_inflight c cn t (infl + 1) q1 l) as [[[[r n] q2] ev2] a2].
    cbn [fst snd] in *. apply silent_app; assumption.
  - specialize (IH infl q). destruct (update_inflight c cn t infl q l) as [[[[r n] q2] ev2] a2]. exact IH.
Qed.

Lemma on_publish_events c s m : exists tl,
  snd (do_on_publish c s m) = CbPublish (o_mid m) (o_tag m) :: Published (o_tag m) :: tl /\ silent tl.
Proof.
  unfold do_on_publish. destruct (c_max c >? 0).
  - pose proof (silent_update_inflight c (conn s) (tm s) (remove_mid (o_mid m) (out s)) (inflight s - 1) (outq s)) as H.
    destruct (update_inflight c (conn s) (tm s) (inflight s - 1) (outq s) (remove_mid (o_mid m) (out s)))
      as [[[[o' n] q'] ev] a]. cbn [fst snd] in *. exists ev. split; [reflexivity | exact H].
  - exists []. split; [reflexivity | apply silent_nil].
Qed.

Lemma on_publish_inm c s m : inm (fst (do_on_publish c s m)) = inm s /\ first (fst (do_on_publish c s m)) = first s.
Proof.
  unfold do_on_publish. destruct (c_max c >? 0).
  - destruct (update_inflight c (conn s) (tm s) (inflight s - 1) (outq s) (remove_mid (o_mid m) (out s)))
      as [[[[o' n] q'] ev] a]. destruct a; split; reflexivity.
  - split; reflexivity.
Qed.

Lemma silent_cons e tl : silent [e] -> silent tl -> silent (e :: tl).
Proof. intros H1 H2. change (e :: tl) with ([e] ++ tl). apply silent_app; assumption. Qed.

(* ---------------------------------------------------------------- the checker on the three shapes of an operation *)
Lemma clean_agree c s k : k03_first k = first s ->
  (if c_clean c =? 0 then false else if c_clean c =? 1 then true else k03_first k) = clean_now c s.
Proof. intros ->. reflexivity. Qed.

(* an operation that shows nothing to the checker *)
Lemma op_silent c k evs : silent evs ->
  k03_op c k evs = mkK03 (k03_pend k) (k03_first k) (k03_ok k && true).
Proof.
  intros (A1 & A2 & A3 & A4). unfold k03_op. fold is_reconn. rewrite A1, A2, A3. reflexivity.
Qed.

(* an operation that processes the broker packet p (not a CONNACK) *)
Lemma op_inp c k p body : existsb is_reconn body = false ->
  match p with IConnack _ => False | _ => True end ->
  k03_op c k (Inp p :: body) =
    let (pend', expect) := spec_recv c (k03_pend k) p (raised_in body) in
    mkK03 pend' (k03_first k) (k03_ok k && evlist_eqb (filter inbound_ev body) expect).
Proof.
  intros A2 Hp. unfold k03_op. fold is_reconn.
  cbn [existsb is_reconn orb filter inbound_ev first_in]. rewrite A2.
  change (raised_in (Inp p :: body)) with (raised_in body).
  destruct p; try contradiction; reflexivity.
Qed.

Lemma op_connack c k rc body : silent body ->
  k03_op c k (Inp (IConnack rc) :: body) = mkK03 (k03_pend k) false (k03_ok k && true).
Proof.
  intros (A1 & A2 & A3 & A4). unfold k03_op. fold is_reconn.
  cbn [existsb is_reconn orb filter inbound_ev first_in]. rewrite A1, A2. reflexivity.
Qed.

Lemma R03_mk s k pend fst' : k03_ok k = true -> pend = inm s -> fst' = first s ->
  R03 s (mkK03 pend fst' (k03_ok k && true)).
Proof. intros H1 H2 H3. unfold R03. cbn. rewrite H1. repeat split; assumption. Qed.

Ltac zrefl := rewrite ?Z.eqb_refl; cbn [andb].

Lemma step_R03 c s k o : R03 s k ->
  R03 (fst (step c s o)) (k03_op c k (snd (step c s o))).
Proof.
  intros (Hok & Hp & Hf).
  destruct o as [q|ok| |p r|mid q|b]; cbn [step].
  - (* publish *)
    assert (Hret : forall s' tag mid rc, inm s' = inm s -> first s' = first s ->
              R03 s' (k03_op c k [Ret tag mid q rc])).
    { intros s' tag mid rc E1 E2. rewrite op_silent by (repeat split). apply R03_mk; congruence. }
    assert (Hsend : forall s1 x tag mid (rc : sess -> Z), inm s1 = inm s -> first s1 = first s -> not_reply (q_pkt x) ->
              R03 (fst (let (s2, ev) := send s1 x in (s2, ev ++ [Ret tag mid q (rc s2)])))
                  (k03_op c k (snd (let (s2, ev) := send s1 x in (s2, ev ++ [Ret tag mid q (rc s2)]))))).
    { intros s1 x tag mid rc E1 E2 Hx. destruct (send_events s1 x) as (tl & E & Hs).
      destruct (send_state s1 x) as [E3 E4]. destruct (send s1 x) as [s2 ev]. cbn [fst snd] in *. subst ev.
      rewrite op_silent.
      - apply R03_mk; congruence.
      - apply silent_app; [apply silent_handed; assumption | repeat split]. }
    unfold do_publish. cbv zeta.
    destruct (q =? 0).
    { destruct (sock s); [apply (Hsend _ _ _ _ (fun s2 => if sock s2 then 0 else 7)) | apply Hret]; try reflexivity; try exact I. }
    destruct ((c_maxq c >? 0) && (Z.of_nat (length (out s)) >=? c_maxq c)); [apply Hret; reflexivity|].
    destruct (has_mid (mid_next (last_mid s)) (out s)); [apply Hret; reflexivity|].
    destruct (window_free c (inflight s)); [destruct (sock s)|]; [| apply Hret; reflexivity | apply Hret; reflexivity].
    (* the PUBLISH is handed over; if the write fails hard the message leaves the window again *)
    match goal with |- context [send ?s0 ?x0] =>
      destruct (send_events s0 x0) as (tl & E & Hs); destruct (send_state s0 x0) as [E3 E4];
      destruct (send s0 x0) as [s2 ev] end.
    cbn [fst snd] in *. subst ev. cbn [inm first with_out] in E3, E4.
    destruct (sock s2); cbn [fst snd]; (rewrite op_silent;
      [apply R03_mk; cbn [inm first with_out]; congruence
      | apply silent_app; [apply silent_handed; [exact I | assumption] | repeat split]]).
  - (* reconnect *)
    unfold do_reconnect.
    destruct (reset_out_list c (clean_now c s) 0 (out s)) as [o n].
    assert (Hlost : filter inbound_ev (flat_map lost_evs (outq s)) = []).
    { induction (outq s) as [|x l IH]; [reflexivity|]. cbn [flat_map]. rewrite filter_app, IH, app_nil_r.
      unfold lost_evs. destruct (q_pkt x) as [|m qs d t| | | |]; try reflexivity.
      destruct ((qs =? 0) && q_info x); reflexivity. }
    destruct ok; cbn [fst snd]; unfold k03_op; cbn [existsb orb filter inbound_ev];
      rewrite filter_app, Hlost; cbn [app filter inbound_ev];
      rewrite (clean_agree c s k Hf); unfold R03; cbn; rewrite Hok;
      destruct (clean_now c s); repeat split; assumption.
  - (* connection lost *)
    destruct (sock s); cbn [fst snd]; rewrite op_silent by (repeat split); apply R03_mk; try assumption; reflexivity.
  - (* inbound packet *)
    unfold do_rx. destruct (sock s); cbn [negb];
      [|cbn [fst snd]; rewrite op_silent by apply silent_nil; apply R03_mk; assumption].
    destruct p as [rc|mid|mid|mid|mid|q mid tag].
    + (* CONNACK *)
      destruct (rc =? 0).
      * pose proof (silent_connack_loop (conn s) (tm s) (out s) (outq s)) as Hn.
        destruct (connack_loop (conn s) (tm s) (outq s) (out s)) as [[[o q'] ev] a]. cbn [fst snd] in *.
        rewrite (op_connack c k rc ev Hn). destruct a; apply R03_mk; [assumption | exact Hp | reflexivity | assumption | exact Hp | reflexivity].
      * cbn [fst snd]. rewrite (op_connack c k rc [SockLost]) by (repeat split).
        apply R03_mk; [assumption | exact Hp | reflexivity].
    + (* PUBACK *)
      destruct (find_mid mid (out s)) as [m|].
      * destruct (on_publish_events c s m) as (tl & E & Hs). pose proof (on_publish_inm c s m) as [Hi Hfi].
        destruct (do_on_publish c s m) as [s' ev]. cbn [fst snd] in *. subst ev.
        assert (Hb : silent (CbPublish (o_mid m) (o_tag m) :: Published (o_tag m) :: tl)).
        { apply silent_cons; [repeat split|]. apply silent_cons; [repeat split | exact Hs]. }
        destruct Hb as (B1 & B2 & B3 & B4). rewrite op_inp by (assumption || exact I).
        rewrite B1, B4. cbn [spec_recv evlist_eqb]. apply R03_mk; congruence.
      * cbn [fst snd]. rewrite op_inp by (reflexivity || exact I). cbn [spec_recv filter evlist_eqb].
        apply R03_mk; assumption.
    + (* PUBREC *)
      destruct (find_mid mid (out s)) as [m|].
      * destruct (send_events (with_out s (update_mid mid (fun m0 => set_st m0 MsWaitPubcomp) (out s)) (inflight s))
                              (mkQ (PPubrel mid (o_tag m)) false)) as (tl & E & Hs).
        destruct (send_state (with_out s (update_mid mid (fun m0 => set_st m0 MsWaitPubcomp) (out s)) (inflight s))
                              (mkQ (PPubrel mid (o_tag m)) false)) as [E3 E4].
        destruct (send _ _) as [s2 ev]. cbn [fst snd] in *. subst ev. cbn [inm first with_out with_inm] in E3, E4.
        assert (Hb : silent (Handed (conn s) (PPubrel mid (o_tag m)) :: tl)) by (apply silent_handed; [exact I | exact Hs]).
        destruct Hb as (B1 & B2 & B3 & B4). rewrite op_inp by (assumption || exact I).
        cbn [q_pkt conn with_out] in *. rewrite B1, B4. cbn [spec_recv evlist_eqb]. apply R03_mk; congruence.
      * cbn [fst snd]. rewrite op_inp by (reflexivity || exact I). cbn [spec_recv filter evlist_eqb].
        apply R03_mk; assumption.
    + (* PUBCOMP *)
      destruct (find_mid mid (out s)) as [m|].
      * destruct (on_publish_events c s m) as (tl & E & Hs). pose proof (on_publish_inm c s m) as [Hi Hfi].
        destruct (do_on_publish c s m) as [s' ev]. cbn [fst snd] in *. subst ev.
        assert (Hb : silent (CbPublish (o_mid m) (o_tag m) :: Published (o_tag m) :: tl)).
        { apply silent_cons; [repeat split|]. apply silent_cons; [repeat split | exact Hs]. }
        destruct Hb as (B1 & B2 & B3 & B4). rewrite op_inp by (assumption || exact I).
        rewrite B1, B4. cbn [spec_recv evlist_eqb]. apply R03_mk; congruence.
      * cbn [fst snd]. rewrite op_inp by (reflexivity || exact I). cbn [spec_recv filter evlist_eqb].
        apply R03_mk; assumption.
    + (* PUBREL *)
      unfold deliver.
      destruct (in_find mid (inm s)) as [tag|] eqn:Ef.
      * destruct (r && negb (c_suppress c)) eqn:Er; [|destruct (c_manual c) eqn:Em].
        -- cbn [fst snd]. rewrite op_inp by (reflexivity || exact I).
           cbn [spec_recv filter inbound_ev raised_in existsb orb]. rewrite Hp, Ef. cbn [evlist_eqb orb]. zrefl.
           unfold R03. cbn. rewrite Hok. repeat split; assumption.
        -- cbn [fst snd]. rewrite op_inp by (reflexivity || exact I).
           cbn [spec_recv filter inbound_ev raised_in existsb orb]. rewrite Hp, Ef, Em. cbn [evlist_eqb orb]. zrefl.
           unfold R03. cbn. rewrite Hok. repeat split; assumption.
        -- destruct (send_events (with_inm s (in_remove mid (inm s))) (mkQ (PPubcomp mid) false)) as (tl & E & Hs).
           destruct (send_state (with_inm s (in_remove mid (inm s))) (mkQ (PPubcomp mid) false)) as [E3 E4].
           destruct (send _ _) as [s2 ev]. cbn [fst snd] in *. subst ev. cbn [inm first with_out with_inm] in E3, E4.
           destruct Hs as (B1 & B2 & B3 & B4).
           rewrite op_inp; [|cbn [app existsb is_reconn orb]; exact B2 | exact I].
           cbn [app filter inbound_ev q_pkt]. rewrite B1.
           change (raised_in (CbMessage mid 2 tag :: Handed (conn (with_inm s (in_remove mid (inm s)))) (PPubcomp mid) :: tl))
             with (raised_in tl). rewrite B4.
           cbn [spec_recv]. rewrite Hp, Ef, Em. cbn [evlist_eqb orb]. zrefl.
           unfold R03. cbn. rewrite Hok. repeat split; congruence.
      * destruct (c_manual c) eqn:Em.
        -- cbn [fst snd]. rewrite op_inp by (reflexivity || exact I).
           cbn [spec_recv filter inbound_ev raised_in existsb]. rewrite Hp, Ef, Em. cbn [evlist_eqb].
           apply R03_mk; (assumption || reflexivity).
        -- destruct (send_events s (mkQ (PPubcomp mid) false)) as (tl & E & Hs).
           destruct (send_state s (mkQ (PPubcomp mid) false)) as [E3 E4].
           destruct (send _ _) as [s2 ev]. cbn [fst snd] in *. subst ev. cbn [inm first with_out with_inm] in E3, E4.
           destruct Hs as (B1 & B2 & B3 & B4).
           rewrite op_inp; [|cbn [existsb is_reconn orb]; exact B2 | exact I].
           cbn [filter inbound_ev q_pkt]. rewrite B1.
           cbn [spec_recv]. rewrite Hp, Ef, Em. cbn [evlist_eqb]. zrefl.
           unfold R03. cbn. rewrite Hok. repeat split; congruence.
    + (* PUBLISH *)
      unfold deliver.
      destruct (q =? 0) eqn:E0.
      * destruct (r && negb (c_suppress c)); cbn [fst snd]; rewrite op_inp by (reflexivity || exact I);
          cbn [spec_recv filter inbound_ev]; rewrite E0; cbn [evlist_eqb]; zrefl;
          unfold R03; cbn; rewrite Hok; repeat split; assumption.
      * destruct (q =? 1) eqn:E1.
        -- destruct (r && negb (c_suppress c)) eqn:Er; [|destruct (c_manual c) eqn:Em].
           ++ cbn [fst snd]. rewrite op_inp by (reflexivity || exact I).
              cbn [spec_recv filter inbound_ev raised_in existsb orb]. rewrite E0, E1. cbn [evlist_eqb orb]. zrefl.
              unfold R03. cbn. rewrite Hok. repeat split; assumption.
           ++ cbn [fst snd]. rewrite op_inp by (reflexivity || exact I).
              cbn [spec_recv filter inbound_ev raised_in existsb orb]. rewrite E0, E1, Em. cbn [evlist_eqb orb]. zrefl.
              unfold R03. cbn. rewrite Hok. repeat split; assumption.
           ++ destruct (send_events s (mkQ (PPuback mid) false)) as (tl & E & Hs).
              destruct (send_state s (mkQ (PPuback mid) false)) as [E3 E4].
              destruct (send _ _) as [s2 ev]. cbn [fst snd] in *. subst ev. cbn [inm first with_out with_inm] in E3, E4.
              destruct Hs as (B1 & B2 & B3 & B4).
              rewrite op_inp; [|cbn [app existsb is_reconn orb]; exact B2 | exact I].
              cbn [app filter inbound_ev q_pkt]. rewrite B1.
              change (raised_in (CbMessage mid 1 tag :: Handed (conn s) (PPuback mid) :: tl)) with (raised_in tl). rewrite B4.
              cbn [spec_recv]. rewrite E0, E1, Em. cbn [evlist_eqb orb]. zrefl.
              unfold R03. cbn. rewrite Hok. repeat split; congruence.
        -- destruct (send_events s (mkQ (PPubrec mid) false)) as (tl & E & Hs).
           destruct (send_state s (mkQ (PPubrec mid) false)) as [E3 E4].
           destruct (send _ _) as [s2 ev]. cbn [fst snd] in *. subst ev. cbn [inm first with_out with_inm] in E3, E4.
           destruct Hs as (B1 & B2 & B3 & B4).
           rewrite op_inp; [|cbn [existsb is_reconn orb]; exact B2 | exact I].
           cbn [filter inbound_ev q_pkt]. rewrite B1.
           cbn [spec_recv]. rewrite E0, E1. cbn [evlist_eqb]. zrefl.
           unfold R03. cbn. rewrite Hok, Hp. repeat split; congruence.
  - (* ack() *)
    assert (Hsend : forall x, c_manual c = true ->
              match q_pkt x with PPuback _ | PPubcomp _ => True | _ => False end ->
              R03 (fst (send s x)) (k03_op c k (snd (send s x)))).
    { intros x Em Hx. destruct (send_events s x) as (tl & E & Hs). destruct (send_state s x) as [E3 E4].
      destruct (send s x) as [s2 ev]. cbn [fst snd] in *. subst ev. destruct Hs as (B1 & B2 & B3 & B4).
      unfold k03_op. fold is_reconn. cbn [existsb is_reconn orb first_in filter]. rewrite B2, B3.
      destruct (q_pkt x) as [| | |m|m|m]; try contradiction; cbn [inbound_ev]; rewrite B1, Em; cbn [is_ack_only forallb andb];
        unfold R03; cbn; rewrite Hok; repeat split; congruence. }
    unfold do_ack. destruct (c_manual c) eqn:Em.
    + destruct (q =? 1); [apply Hsend; [reflexivity | exact I]|].
      destruct (q =? 2); [apply Hsend; [reflexivity | exact I]|].
      cbn [fst snd]. rewrite op_silent by apply silent_nil. apply R03_mk; assumption.
    + cbn [fst snd]. rewrite op_silent by apply silent_nil. apply R03_mk; assumption.
  - (* the transport blocks / accepts again *)
    unfold do_transport. destruct (sock s); [|cbn [fst snd]; rewrite op_silent by apply silent_nil; apply R03_mk; assumption].
    assert (Hgo : forall m', R03 (fst (let '(q', ev, a) := lw (conn s) m' true (outq s) in (settle (with_tm s m') q' a, Blk (refuses m') :: ev)))
                     (k03_op c k (snd (let '(q', ev, a) := lw (conn s) m' true (outq s) in (settle (with_tm s m') q' a, Blk (refuses m') :: ev))))).
    { intros m'. pose proof (silent_lw (conn s) m' true (outq s)) as Hl.
      destruct (lw (conn s) m' true (outq s)) as [[q' ev] a]. cbn [fst snd] in *.
      rewrite op_silent by (apply silent_cons; [repeat split | exact Hl]).
      destruct a; apply R03_mk; try assumption; reflexivity. }
    destruct b; [apply Hgo | | apply Hgo].
    cbn [fst snd]. rewrite op_silent by (repeat split). apply R03_mk; try assumption; reflexivity.
Qed.

Lemma run_R03 c : forall ops s k, R03 s k ->
  k03_ok (fold_left (k03_op c) (map snd (run_steps c s ops)) k) = true.
Proof.
  induction ops as [|o ops IH]; intros s k HR; cbn [run_steps map fold_left].
  - destruct HR as [H _]. exact H.
  - pose proof (step_R03 c s k o HR) as HR'.
    destruct (step c s o) as [s' ev]. cbn [fst snd map fold_left] in *.
    apply IH with (s := s'). exact HR'.
Qed.

Theorem c03_proved : C03_stmt.
Proof.
  intros c ops. unfold c03_ok, optrace. apply run_R03.
  unfold R03, k03_init, init. cbn. repeat split.
Qed.

Print Assumptions c03_proved.
