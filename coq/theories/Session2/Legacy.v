(* The operations of the Session2 model as they are when no write fails hard: the transport either accepts every
   write or refuses every write ([can] = there is a socket and it is not blocked).  These are the definitions
   the model had before the failing transport was added; Session2/Bridge.v shows that the model's [step]
   coincides with them whenever no write can fail (no socket, or a socket that is not in failing mode), so the
   preservation proofs written for them carry over; the failing cases are proved separately.
   Same names as in Model.v on purpose: a proof file that imports this file after Model.v talks about these. *)
From PahoV Require Import Base.Prelude Codec.Mid Session2.Model.

Inductive op :=
| OPublish (q : Z)
| OReconnect (ok : bool)
| OConnLost
| ORx (p : inpkt) (raises : bool)
| OAck (mid q : Z)
| OBlock (b : bool).

(* loop_write(): [can] = there is a socket and it accepts writes; a blocked socket takes nothing
   (the first send() raises BlockingIOError and the packet is put back), without a socket
   loop_write returns MQTT_ERR_NO_CONN at once *)
Definition lw (cn : Z) (can : bool) (q : list qpkt) : list qpkt * list event :=
  if can then ([], flush_evs cn q) else (q, []).
(* _packet_queue followed by loop_write() *)
Definition pq (cn : Z) (can : bool) (q : list qpkt) (x : qpkt) : list qpkt * list event :=
  let (q', ev) := lw cn can (q ++ [x]) in (q', Handed cn (q_pkt x) :: ev).

Definition can_write (s : sess) : bool := sock s && negb (blocked s).


(* ---- _update_inflight: every released message goes through _send_publish -> _packet_queue ->
        loop_write() (we are not inside a callback); retransmissions carry no info ---- *)
Fixpoint update_inflight (c : cfg) (cn : Z) (can : bool) (infl : Z) (q : list qpkt) (l : list omsg)
  : list omsg * Z * list qpkt * list event :=
  match l with
  | [] => ([], infl, q, [])
  | m :: l' =>
      if infl <? c_max c then
        if is_queued m then
          let (q1, ev1) := pq cn can q (mkQ (pub_pkt m) false) in
          let '(r, n, q2, ev2) := update_inflight c cn can (infl + 1) q1 l' in
          (set_st m (wait_of (o_qos m)) :: r, n, q2, ev1 ++ ev2)
        else
          let '(r, n, q2, ev2) := update_inflight c cn can infl q l' in (m :: r, n, q2, ev2)
      else (m :: l', infl, q, [])
  end.

(* ---- the retransmission loop of _handle_connack (result == 0): _send_publish/_send_pubrel run with
        _in_callback_mutex held (so _packet_queue only appends), then loop_write() is called once per
        message, also for messages that needed nothing; a queued message ends the loop after one more
        loop_write() ---- *)
Fixpoint connack_loop (cn : Z) (can : bool) (q : list qpkt) (l : list omsg)
  : list omsg * list qpkt * list event :=
  match l with
  | [] => ([], q, [])
  | m :: l' =>
      match o_st m with
      | MsQueued => let (q1, ev1) := lw cn can q in (m :: l', q1, ev1)
      | MsPublish =>
          let (q1, ev1) := pq cn can q (mkQ (pub_pkt m) false) in
          let '(r, q2, ev2) := connack_loop cn can q1 l' in
          (set_st m (wait_of (o_qos m)) :: r, q2, ev1 ++ ev2)
      | MsResendPubrel =>
          if o_qos m =? 2 then
            let (q1, ev1) := pq cn can q (mkQ (rel_pkt m) false) in
            let '(r, q2, ev2) := connack_loop cn can q1 l' in
            (set_st m MsWaitPubcomp :: r, q2, ev1 ++ ev2)
          else
            let (q1, ev1) := lw cn can q in
            let '(r, q2, ev2) := connack_loop cn can q1 l' in (m :: r, q2, ev1 ++ ev2)
      | _ =>
          let (q1, ev1) := lw cn can q in
          let '(r, q2, ev2) := connack_loop cn can q1 l' in (m :: r, q2, ev1 ++ ev2)
      end
  end.

Definition with_blocked (s : sess) (b : bool) : sess :=
  mkS (out s) (inm s) (inflight s) (last_mid s) (sock s) (first s) (cack s) (conn s) (ntag s) (outq s) b (failing s).

(* hand one packet over from a place that is not inside a callback *)
Definition send (s : sess) (x : qpkt) : sess * list event :=
  let (q', ev) := pq (conn s) (can_write s) (outq s) x in (with_q s q', ev).

(* ---- publish() ---- *)
Definition do_publish (c : cfg) (s : sess) (q : Z) : sess * list event :=
  let mid := mid_next (last_mid s) in
  let tag := ntag s in
  let s1 := mkS (out s) (inm s) (inflight s) mid (sock s) (first s) (cack s) (conn s) (tag + 1) (outq s) (blocked s) (failing s) in
  if q =? 0 then
    if sock s then
      let (s2, ev) := send s1 (mkQ (PPublish mid 0 false tag) true) in (s2, ev ++ [Ret tag mid q 0])
    else (s1, [Ret tag mid q 4])
  else if (c_maxq c >? 0) && (Z.of_nat (length (out s)) >=? c_maxq c) then (s1, [Ret tag mid q 15])
  else if has_mid mid (out s) then (s1, [Ret tag mid q 15])
  else if window_free c (inflight s) then
    if sock s then
      let (s2, ev) := send (with_out s1 (out s ++ [mkO mid q (wait_of q) false tag]) (inflight s + 1))
                           (mkQ (PPublish mid q false tag) true) in
      (s2, ev ++ [Ret tag mid q 0])
    else
      (with_out s1 (out s ++ [mkO mid q MsPublish false tag]) (inflight s), [Ret tag mid q 4])
  else
    (with_out s1 (out s ++ [mkO mid q MsQueued false tag]) (inflight s), [Ret tag mid q 0]).

(* ---- _do_on_publish (final acknowledgement of a stored message) ---- *)
Definition do_on_publish (c : cfg) (s : sess) (m : omsg) : sess * list event :=
  let o := remove_mid (o_mid m) (out s) in
  let infl := inflight s - 1 in
  if c_max c >? 0 then
    let '(o', n, q', ev) := update_inflight c (conn s) (can_write s) infl (outq s) o in
    (with_q (with_out s o' n) q', CbPublish (o_mid m) (o_tag m) :: Published (o_tag m) :: ev)
  else
    (with_out s o infl, [CbPublish (o_mid m) (o_tag m); Published (o_tag m)]).

(* ---- one inbound packet (loop_read -> _packet_handle) ---- *)
Definition do_rx (c : cfg) (s : sess) (p : inpkt) (raises : bool) : sess * list event :=
  if negb (sock s) then (s, [])
  else
  match p with
  | IConnack rc =>
      let s1 := mkS (out s) (inm s) (inflight s) (last_mid s) (sock s) false true (conn s) (ntag s) (outq s) (blocked s) (failing s) in
      if rc =? 0 then
        let '(o, q', ev) := connack_loop (conn s) (can_write s) (outq s) (out s) in
        (with_q (with_out s1 o (inflight s)) q', Inp p :: ev)
      else (with_sock s1 false, [Inp p; SockLost])
  | IPuback mid | IPubcomp mid =>
      match find_mid mid (out s) with
      | Some m => let (s', ev) := do_on_publish c s m in (s', Inp p :: ev)
      | None => (s, [Inp p])
      end
  | IPubrec mid =>
      match find_mid mid (out s) with
      | Some m =>
          let (s', ev) := send (with_out s (update_mid mid (fun m => set_st m MsWaitPubcomp) (out s)) (inflight s))
                               (mkQ (PPubrel mid (o_tag m)) false) in
          (s', Inp p :: ev)
      | None => (s, [Inp p])
      end
  | IPubrel mid =>
      match in_find mid (inm s) with
      | Some tag =>
          let s1 := with_inm s (in_remove mid (inm s)) in
          let (ev, propagated) := deliver c mid 2 tag raises in
          if propagated then (s1, Inp p :: ev)
          else if c_manual c then (s1, Inp p :: ev)
          else let (s2, ev2) := send s1 (mkQ (PPubcomp mid) false) in (s2, Inp p :: ev ++ ev2)
      | None =>
          if c_manual c then (s, [Inp p])
          else let (s2, ev2) := send s (mkQ (PPubcomp mid) false) in (s2, Inp p :: ev2)
      end
  | IPublish q mid tag =>
      if q =? 0 then
        (* a QoS 0 PUBLISH carries no packet id: message.mid stays 0 *)
        let (ev, _) := deliver c 0 0 tag raises in (s, Inp p :: ev)
      else if q =? 1 then
        let (ev, propagated) := deliver c mid 1 tag raises in
        if propagated then (s, Inp p :: ev)
        else if c_manual c then (s, Inp p :: ev)
        else let (s2, ev2) := send s (mkQ (PPuback mid) false) in (s2, Inp p :: ev ++ ev2)
      else
        let (s2, ev2) := send s (mkQ (PPubrec mid) false) in
        (with_inm s2 (in_set mid tag (inm s)), Inp p :: ev2)
  end.

(* ack(): no test for a socket - without one the reply stays in the queue until reconnect() drops it *)
Definition do_ack (c : cfg) (s : sess) (mid q : Z) : sess * list event :=
  if c_manual c then
    if q =? 1 then send s (mkQ (PPuback mid) false)
    else if q =? 2 then send s (mkQ (PPubcomp mid) false)
    else (s, [])
  else (s, []).

(* the transport starts / stops refusing writes; when it accepts again the event loop calls loop_write() *)
Definition do_block (s : sess) (b : bool) : sess * list event :=
  if sock s then
    if b then (with_blocked s true, [Blk true])
    else
      let (q', ev) := lw (conn s) true (outq s) in
      (with_q (with_blocked s false) q', Blk false :: ev)
  else (s, []).

Definition step (c : cfg) (s : sess) (o : op) : sess * list event :=
  match o with
  | OPublish q => do_publish c s q
  | OReconnect ok => do_reconnect c s ok
  | OConnLost => if sock s then (with_sock s false, [SockLost]) else (s, [])
  | ORx p raises => do_rx c s p raises
  | OAck mid q => do_ack c s mid q
  | OBlock b => do_block s b
  end.

Definition conf_op (c : cfg) (s : sess) (o : op) : bool :=
  match o with
  | ORx p _ =>
      if negb (sock s) then true else
      match p with
      | IConnack _ => negb (cack s)
      | IPuback mid =>
          cack s &&
          match find_mid mid (out s) with
          | Some m => (o_qos m =? 1) && match o_st m with MsWaitPuback => true | _ => false end
                      && negb (q_has_pub mid (outq s))
          | None => true
          end
      | IPubrec mid =>
          cack s &&
          match find_mid mid (out s) with
          | Some m => (o_qos m =? 2) &&
                      match o_st m with
                      | MsWaitPubrec => negb (q_has_pub mid (outq s))
                      | MsWaitPubcomp => true
                      | _ => false
                      end
          | None => true
          end
      | IPubcomp mid =>
          cack s &&
          match find_mid mid (out s) with
          | Some m => (o_qos m =? 2) && match o_st m with MsWaitPubcomp => true | _ => false end
                      && negb (q_has_rel mid (outq s))
          | None => true
          end
      | IPubrel _ => cack s
      | IPublish q mid _ => cack s && (0 <=? q) && (q <=? 2)
      end
  | OPublish q => (0 <=? q) && (q <=? 2)
  | _ => true
  end.

