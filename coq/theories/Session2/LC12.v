(* C12 on the second-generation Session model: the in-flight window holds both for the packets
   WRITTEN on the current connection and for the packets HANDED to it, and the queue bound holds,
   on every conforming history. *)
From PahoV Require Import Base.Prelude Codec.Mid Codec.MidProofs Session2.Model Session2.Legacy Session2.Check
  Session2.LLemmas Session2.LInv Session2.Statements.
From Coq Require Import Sorting.Sorted.

(* ---------------------------------------------------------------- zin / zadd / zrem *)
Lemma zin_notIn x l : zin x l = false -> ~ In x l.
Proof.
  induction l as [|y l IH]; cbn [zin In]; intros H; [intros []|].
  apply orb_false_iff in H as [H1 H2]. intros [H3|H3]; [lia | exact (IH H2 H3)].
Qed.

Lemma zrem_In y x l : In y (zrem x l) -> In y l /\ y <> x.
Proof.
  induction l as [|a l IH]; cbn [zrem]; [intros []|].
  destruct (x =? a) eqn:E; cbn [In]; intros H.
  - apply IH in H. destruct H. split; [right; assumption | assumption].
  - destruct H as [H|H].
    + subst y. split; [left; reflexivity | lia].
    + apply IH in H. destruct H. split; [right; assumption | assumption].
Qed.

Lemma zrem_NoDup x l : NoDup l -> NoDup (zrem x l).
Proof.
  induction l as [|a l IH]; cbn [zrem]; intros H; [constructor|].
  inversion H as [|? ? Hn Hd]; subst. destruct (x =? a); [apply IH; assumption|].
  constructor; [|apply IH; assumption]. intros Hin. apply zrem_In in Hin. tauto.
Qed.

Lemma zrem_notin x l : ~ In x l -> zrem x l = l.
Proof.
  induction l as [|a l IH]; cbn [zrem In]; intros H; [reflexivity|].
  destruct (x =? a) eqn:E; [exfalso; apply H; left; lia|].
  f_equal. apply IH. intros H1. apply H. right. assumption.
Qed.

Lemma zrem_mid x l1 l2 : ~ In x l1 -> ~ In x l2 -> zrem x (l1 ++ x :: l2) = l1 ++ l2.
Proof.
  induction l1 as [|a l1 IH]; cbn [app zrem In]; intros H1 H2.
  - rewrite Z.eqb_refl. apply zrem_notin. assumption.
  - destruct (x =? a) eqn:E; [exfalso; apply H1; left; lia|].
    f_equal. apply IH; [|assumption]. intros H. apply H1. right. assumption.
Qed.

Lemma zadd_NoDup x l : NoDup l -> NoDup (zadd x l).
Proof.
  intros H. unfold zadd. destruct (zin x l) eqn:E; [assumption|].
  apply NoDup_app_snoc; [assumption | apply zin_notIn; assumption].
Qed.

Lemma zadd_incl x l T : incl l T -> In x T -> incl (zadd x l) T.
Proof.
  intros H Hx. unfold zadd. destruct (zin x l); [assumption|].
  apply incl_app; [assumption|]. intros y [Hy|[]]. subst y. assumption.
Qed.

(* ---------------------------------------------------------------- generic list facts *)
Lemma SSorted_NoDup l : StronglySorted Z.lt l -> NoDup l.
Proof.
  induction l as [|a l IH]; intros H; [constructor|].
  inversion H as [|? ? Hs Hf]; subst. constructor; [|apply IH; assumption].
  intros Hin. pose proof (proj1 (Forall_forall _ _) Hf a Hin). lia.
Qed.

Lemma filter_len {A} (f : A -> bool) l : (length (filter f l) <= length l)%nat.
Proof. induction l as [|x l IH]; cbn [filter length]; [lia|]. destruct (f x); cbn [length]; lia. Qed.

Lemma filter_none {A} (f : A -> bool) l : Forall (fun x => f x = false) l -> filter f l = [].
Proof.
  induction l as [|x l IH]; intros H; cbn [filter]; [reflexivity|].
  inversion H as [|? ? Hx Hl]; subst. rewrite Hx. apply IH. assumption.
Qed.

(* tags of the messages in a wait state *)
Definition wt (l : list omsg) : list Z := map o_tag (filter is_wait l).

Lemma wt_app l1 l2 : wt (l1 ++ l2) = wt l1 ++ wt l2.
Proof. unfold wt. rewrite filter_app, map_app. reflexivity. Qed.

Lemma wt_cons x l : wt (x :: l) = if is_wait x then o_tag x :: wt l else wt l.
Proof. unfold wt. cbn [filter]. destruct (is_wait x); reflexivity. Qed.

Lemma wt_In_tags t l : In t (wt l) -> In t (tags l).
Proof.
  unfold wt, tags. rewrite !in_map_iff. intros (m & E & Hin). apply filter_In in Hin.
  exists m. tauto.
Qed.

Lemma wt_NoDup_of l : NoDup (tags l) -> NoDup (wt l).
Proof.
  induction l as [|a l IH]; intros H; [constructor|].
  unfold tags in H. cbn [map] in H. inversion H as [|? ? Hn Hd]; subst.
  rewrite wt_cons. destruct (is_wait a); [|apply IH; assumption].
  constructor; [|apply IH; assumption]. intros Hin. apply Hn. apply wt_In_tags. assumption.
Qed.

Lemma queued_notwait m : is_queued m = true -> is_wait m = false.
Proof. unfold is_queued, is_wait. destruct (o_st m); try discriminate; reflexivity. Qed.

Lemma publish_notwait m : o_st m = MsPublish -> is_wait m = false.
Proof. unfold is_wait. intros ->. reflexivity. Qed.

(* ---------------------------------------------------------------- the window checker, for any view *)
(* the tags of the window-relevant packets an event hands over or writes *)
Definition evtag (e : event) : list Z :=
  match e with
  | Tx _ p | Handed _ p => match ptag p with Some t => [t] | None => [] end
  | _ => []
  end.

Definition view_ok (sel : event -> option pkt) : Prop :=
  forall e p t, sel e = Some p -> ptag p = Some t -> In t (evtag e).

Lemma view_tx : view_ok tx_sel.
Proof. intros e p t H1 H2. destruct e; try discriminate. inversion H1; subst. cbn [evtag]. rewrite H2. left. reflexivity. Qed.
Lemma view_handed : view_ok handed_sel.
Proof. intros e p t H1 H2. destruct e; try discriminate. inversion H1; subst. cbn [evtag]. rewrite H2. left. reflexivity. Qed.

Definition P12 (T : list Z) (k : k12) : Prop :=
  k12_ok k = true /\ NoDup (k12_un k) /\ incl (k12_un k) T.

Lemma P12_zadd n T k tag : (n = 0 \/ Z.of_nat (length T) <= n) -> In tag T -> P12 T k ->
  P12 T (mkK12 (zadd tag (k12_un k)) (k12_ok k && ((n =? 0) || (zlen (zadd tag (k12_un k)) <=? n)))).
Proof.
  intros Hn Hin (Hok & Hnd & Hincl). unfold P12. cbn [k12_un k12_ok].
  pose proof (zadd_NoDup tag _ Hnd) as Hnd'. pose proof (zadd_incl tag _ T Hincl Hin) as Hincl'.
  split; [|split; assumption].
  rewrite Hok. cbn [andb]. pose proof (NoDup_incl_length Hnd' Hincl') as Hlen. unfold zlen. lia.
Qed.

Lemma fold_cons {A B} (f : A -> B -> A) e l k : fold_left f (e :: l) k = fold_left f l (f k e).
Proof. reflexivity. Qed.

Section View.
Variable sel : event -> option pkt.
Hypothesis Hsel : view_ok sel.

Lemma k12_ev_P n T k e : (n = 0 \/ Z.of_nat (length T) <= n) ->
  (forall t, In t (evtag e) -> In t T) -> P12 T k -> P12 T (k12_ev sel n k e).
Proof.
  intros Hn Htx HP.
  assert (Hsel' : P12 T (match sel e with
                         | Some p => match ptag p with
                                     | Some tag => let u := zadd tag (k12_un k) in
                                                   mkK12 u (k12_ok k && ((n =? 0) || (zlen u <=? n)))
                                     | None => k end
                         | None => k end)).
  { destruct (sel e) as [p|] eqn:Es; [|exact HP]. destruct (ptag p) as [tag|] eqn:Ep; [|exact HP].
    cbv zeta. apply P12_zadd; [assumption | apply Htx; eapply Hsel; eassumption | assumption]. }
  destruct e; try exact Hsel'.
  - destruct HP as (Hok & Hnd & Hincl). unfold P12. cbn [k12_ev k12_un k12_ok].
    split; [assumption|]. split; [apply zrem_NoDup; assumption|].
    intros y Hy. apply zrem_In in Hy. apply Hincl. tauto.
  - destruct HP as (Hok & Hnd & Hincl). unfold P12. cbn [k12_ev k12_un k12_ok].
    split; [assumption|]. split; [constructor | apply incl_nil_l].
Qed.

Lemma k12_fold_P n T : (n = 0 \/ Z.of_nat (length T) <= n) -> forall evs k,
  (forall e t, In e evs -> In t (evtag e) -> In t T) -> P12 T k ->
  P12 T (fold_left (k12_ev sel n) evs k).
Proof.
  intros Hn. induction evs as [|e evs IH]; intros k Htx HP; cbn [fold_left]; [exact HP|].
  apply IH.
  - intros e' t He Ht. apply (Htx e' t); [right; assumption | assumption].
  - apply k12_ev_P; [assumption | | assumption]. intros t Ht. apply (Htx e t); [left; reflexivity | assumption].
Qed.

(* events without window-relevant packets and without completion / new socket *)
Lemma k12_fold_plain n : forall evs k,
  Forall (fun e => evtag e = [] /\ match e with SockOpened _ | CbPublish _ _ => False | _ => True end) evs ->
  fold_left (k12_ev sel n) evs k = k.
Proof.
  induction evs as [|e evs IH]; intros k H; [reflexivity|]. inversion H as [|? ? [He1 He2] H']; subst.
  cbn [fold_left]. rewrite <- (IH k H') at 2. f_equal.
  assert (Hs : match sel e with
               | Some p => match ptag p with
                           | Some tag => let u := zadd tag (k12_un k) in
                                         mkK12 u (k12_ok k && ((n =? 0) || (zlen u <=? n)))
                           | None => k end
               | None => k end = k).
  { destruct (sel e) as [p|] eqn:Es; [|reflexivity]. destruct (ptag p) as [tag|] eqn:Ep; [|reflexivity].
    pose proof (Hsel e p tag Es Ep) as Hin. rewrite He1 in Hin. destruct Hin. }
  destruct e; try contradiction; exact Hs.
Qed.

End View.

(* ---------------------------------------------------------------- which tags an operation hands over / writes *)
Lemma written_notag x e : In e (written_evs x) -> evtag e = [].
Proof.
  unfold written_evs. destruct (q_pkt x) as [|m q d t| | | |]; try (intros []).
  destruct (q =? 0); [|intros []]. intros [<-|[<-|[]]]; reflexivity.
Qed.

Lemma flush_evs_tags cn : forall q e t, In e (flush_evs cn q) -> In t (evtag e) ->
  exists x, In x q /\ ptag (q_pkt x) = Some t.
Proof.
  induction q as [|x q IH]; intros e t He Ht; [destruct He|]. cbn [flush_evs] in He.
  destruct He as [<-|He].
  - cbn [evtag] in Ht. destruct (ptag (q_pkt x)) as [t'|] eqn:E; [|destruct Ht].
    destruct Ht as [<-|[]]. exists x. split; [left; reflexivity | exact E].
  - apply in_app_or in He as [He|He].
    + rewrite (written_notag x e He) in Ht. destruct Ht.
    + destruct (IH e t He Ht) as (y & Hy & E). exists y. split; [right; exact Hy | exact E].
Qed.

Lemma hand_all_tags cn can q H : (can = true -> q = []) ->
  forall e t, In e (snd (hand_all cn can q H)) -> In t (evtag e) ->
  exists x, In x H /\ ptag (q_pkt x) = Some t.
Proof.
  intros Hq e t He Ht. destruct can.
  - rewrite (Hq eq_refl), hand_all_can in He. cbn [snd] in He. apply in_flat_map in He as (x & Hx & He).
    destruct He as [<-|He].
    + cbn [evtag] in Ht. destruct (ptag (q_pkt x)) as [t'|] eqn:E; [|destruct Ht].
      destruct Ht as [<-|[]]. exists x. split; assumption.
    + destruct (flush_evs_tags cn [x] e t He Ht) as (y & [<-|[]] & E). exists x. split; assumption.
  - rewrite hand_all_blocked in He. cbn [snd] in He. apply in_map_iff in He as (x & <- & Hx).
    cbn [evtag] in Ht. destruct (ptag (q_pkt x)) as [t'|] eqn:E; [|destruct Ht].
    destruct Ht as [<-|[]]. exists x. split; assumption.
Qed.

Lemma send_hand_all s x : send s x = (with_q s (fst (hand_all (conn s) (can_write s) (outq s) [x])),
                                       snd (hand_all (conn s) (can_write s) (outq s) [x])).
Proof.
  unfold send. cbn [hand_all]. destruct (pq (conn s) (can_write s) (outq s) x) as [q' ev].
  rewrite app_nil_r. reflexivity.
Qed.

Lemma send_tags s x : (can_write s = true -> outq s = []) ->
  forall e t, In e (snd (send s x)) -> In t (evtag e) -> ptag (q_pkt x) = Some t.
Proof.
  intros Hq e t He Ht. rewrite send_hand_all in He. cbn [snd] in He.
  destruct (hand_all_tags _ _ _ _ Hq e t He Ht) as (y & [<-|[]] & E). exact E.
Qed.

Lemma ptag_pub m t : ptag (pub_pkt m) = Some t -> t = o_tag m.
Proof. unfold pub_pkt, ptag. destruct (o_qos m =? 0); [discriminate|]. intros H; inversion H; reflexivity. Qed.

Lemma qpkt_ok_wt l x t : qpkt_ok l x -> ptag (q_pkt x) = Some t -> In t (wt l).
Proof.
  unfold qpkt_ok, ptag. destruct (q_pkt x) as [|mid q dup tag|mid tag| | |]; try discriminate.
  - destruct (q =? 0) eqn:E; [discriminate|]. intros H Ht. injection Ht as <-.
    destruct (H ltac:(lia)) as (m & Hin & H1 & H2 & H3 & H4 & H5).
    unfold wt. rewrite <- H2. apply in_map. apply filter_In. split; [exact Hin | eapply wait_of_wait; exact H5].
  - intros (m & Hin & H1 & H2 & H3) Ht. injection Ht as <-.
    unfold wt. rewrite <- H2. apply in_map. apply filter_In. split; [exact Hin | unfold is_wait; rewrite H3; reflexivity].
Qed.

Lemma wt_In l m : In m l -> is_wait m = true -> In (o_tag m) (wt l).
Proof. intros H1 H2. unfold wt. apply in_map. apply filter_In. split; assumption. Qed.

Lemma wt_In_inv l t : In t (wt l) -> exists m, In m l /\ is_wait m = true /\ o_tag m = t.
Proof. unfold wt. intros H. apply in_map_iff in H as (m & E & Hm). apply filter_In in Hm as [H1 H2]. exists m. tauto. Qed.

Lemma upd_wt mid : forall l m, find_mid mid l = Some m ->
  incl (wt l) (wt (update_mid mid (fun m0 => set_st m0 MsWaitPubcomp) l)) /\
  In (o_tag m) (wt (update_mid mid (fun m0 => set_st m0 MsWaitPubcomp) l)).
Proof.
  induction l as [|x l IH]; intros m; cbn [find_mid update_mid]; [discriminate|].
  destruct (o_mid x =? mid); intros H.
  - inversion H; subst x. rewrite !wt_cons. cbn [is_wait set_st o_st o_tag].
    split; [|left; reflexivity]. destruct (is_wait m); [apply incl_refl | apply incl_tl, incl_refl].
  - destruct (IH m H) as [H1 H2]. rewrite !wt_cons. destruct (is_wait x).
    + split; [apply incl_cons; [left; reflexivity | apply incl_tl; assumption] | right; assumption].
    + split; assumption.
Qed.

Lemma cl_pk_wt m x t : In x (cl_pk m) -> ptag (q_pkt x) = Some t -> t = o_tag m /\ is_wait (cl1 m) = true.
Proof.
  unfold cl_pk, cl1. destruct (o_st m); try (intros H; exact (match H with end)).
  - intros [<-|[]] Ht. cbn [q_pkt] in Ht. split; [apply ptag_pub; exact Ht|].
    unfold is_wait, wait_of. cbn. destruct (o_qos m =? 1); reflexivity.
  - destruct (o_qos m =? 2); [|intros []]. intros [<-|[]] Ht. cbn in Ht. inversion Ht. split; reflexivity.
Qed.

(* ================================================================ per-configuration part *)
Section C12.
Variable c : cfg.
Hypothesis Hcfg : cfg_ok c = true.
Variable sel : event -> option pkt.
Hypothesis Hsel : view_ok sel.

Lemma wt_NoDup s : Inv c s -> NoDup (wt (out s)).
Proof. intros I. apply wt_NoDup_of. apply SSorted_NoDup. exact (inv_sorted _ _ I). Qed.

Lemma wt_bound s : Inv c s -> c_max c = 0 \/ Z.of_nat (length (wt (out s))) <= c_max c.
Proof.
  intros I. destruct (inv_shape _ _ I) as (C & U & Q & [So Si SC SU SQ Sm Sf Ss Se]).
  pose proof (max_nonneg c Hcfg) as Hmax.
  destruct (Z.eq_dec (c_max c) 0) as [E|E]; [left; assumption|right].
  specialize (Sm ltac:(lia)).
  unfold wt. rewrite map_length, So, !filter_app.
  rewrite (filter_none is_wait U), (filter_none is_wait Q).
  - rewrite app_nil_r. pose proof (filter_len is_wait C). lia.
  - eapply Forall_impl; [|exact SQ]. cbn. intros a. apply queued_notwait.
  - eapply Forall_impl; [|exact SU]. cbn. intros a. apply publish_notwait.
Qed.

Definition R12 (s : sess) (k : k12) : Prop :=
  k12_ok k = true /\ NoDup (k12_un k) /\ (sock s = true -> incl (k12_un k) (wt (out s))).

Lemma R12_mono s s' k : R12 s k ->
  (sock s' = true -> sock s = true /\ incl (wt (out s)) (wt (out s'))) -> R12 s' k.
Proof.
  intros (Hok & Hnd & Hun) H. split; [assumption|]. split; [assumption|].
  intros Hs'. destruct (H Hs') as [Hs Hi]. eapply incl_tran; [apply Hun; assumption | assumption].
Qed.

Lemma P12_R12 s k : P12 (wt (out s)) k -> R12 s k.
Proof. intros (H1 & H2 & H3). split; [assumption|]. split; [assumption|]. intros _. assumption. Qed.

Lemma win_on s s' evs k : Inv c s' -> sock s = true -> incl (wt (out s)) (wt (out s')) ->
  (forall e t, In e evs -> In t (evtag e) -> In t (wt (out s'))) ->
  R12 s k -> R12 s' (fold_left (k12_ev sel (c_max c)) evs k).
Proof.
  intros I' Hs Hincl Htx (Hok & Hnd & Hun). apply P12_R12.
  apply (k12_fold_P sel Hsel); [apply wt_bound; assumption | assumption |].
  split; [assumption|]. split; [assumption|].
  eapply incl_tran; [apply Hun; assumption | assumption].
Qed.

(* an operation without a socket, or one that hands over / writes nothing window-relevant and completes nothing *)
Lemma win_plain s s' evs k :
  Forall (fun e => evtag e = [] /\ match e with SockOpened _ | CbPublish _ _ => False | _ => True end) evs ->
  (sock s' = true -> sock s = true /\ incl (wt (out s)) (wt (out s'))) ->
  R12 s k -> R12 s' (fold_left (k12_ev sel (c_max c)) evs k).
Proof. intros He Hm HR. rewrite (k12_fold_plain sel Hsel). - eapply R12_mono; eassumption. - exact He. Qed.

Lemma idle_ext (s s1 : sess) : sock s1 = sock s -> blocked s1 = blocked s -> outq s1 = outq s ->
  (can_write s = true -> outq s = []) -> (can_write s1 = true -> outq s1 = []).
Proof. unfold can_write. intros -> -> ->. exact (fun H => H). Qed.

Lemma send_events_notag s x e : (can_write s = true -> outq s = []) -> ptag (q_pkt x) = None ->
  In e (snd (send s x)) -> evtag e = [].
Proof.
  intros Hq Hx He. destruct (evtag e) as [|t l] eqn:E; [reflexivity|]. exfalso.
  pose proof (send_tags s x Hq e t He) as H. rewrite E in H. specialize (H (or_introl eq_refl)). congruence.
Qed.

Lemma win_publish s q k : Inv c s -> R12 s k ->
  Inv c (fst (do_publish c s q)) ->
  R12 (fst (do_publish c s q)) (fold_left (k12_ev sel (c_max c)) (snd (do_publish c s q)) k).
Proof.
  intros I HR. pose proof (inv_qidle _ _ I) as Hi. unfold do_publish. cbv zeta.
  assert (Hret : forall s' tag mid rc, (sock s' = true -> sock s = true /\ incl (wt (out s)) (wt (out s'))) ->
            R12 s' (fold_left (k12_ev sel (c_max c)) [Ret tag mid q rc] k)).
  { intros s' tag mid rc Hm. apply (win_plain s); [|exact Hm|exact HR]. constructor; [split; [reflexivity|exact Logic.I]|constructor]. }
  destruct (q =? 0) eqn:Eq0.
  { destruct (sock s) eqn:Hs; [|intros _; apply Hret; cbn [sock]; discriminate].
    set (s1 := mkS _ _ _ _ _ _ _ _ _ _ _ _). set (x := mkQ _ _).
    pose proof (send_events_notag s1 x) as Hn. pose proof (send_out s1 x) as Ho. pose proof (send_fst s1 x) as Hf.
    destruct (send s1 x) as [s2 ev]. cbn [fst snd] in *. intros I'.
    eapply win_on; [exact I' | exact Hs | rewrite Ho; apply incl_refl | | exact HR].
    intros e t He Ht. exfalso. apply in_app_or in He as [He|[<-|[]]]; [|destruct Ht].
    assert (Hi1 : can_write s1 = true -> outq s1 = []) by (apply (idle_ext s); [cbn; congruence | reflexivity | reflexivity | exact Hi]).
    rewrite (Hn e Hi1 eq_refl He) in Ht. destruct Ht. }
  destruct ((c_maxq c >? 0) && (Z.of_nat (length (out s)) >=? c_maxq c)).
  { intros _. apply Hret. cbn [sock out]. intros H; split; [exact H | apply incl_refl]. }
  destruct (has_mid (mid_next (last_mid s)) (out s)).
  { intros _. apply Hret. cbn [sock out]. intros H; split; [exact H | apply incl_refl]. }
  destruct (window_free c (inflight s)).
  - destruct (sock s) eqn:Hs.
    + set (s1 := with_out _ _ _). set (x := mkQ _ _).
      assert (Hi1 : can_write s1 = true -> outq s1 = []) by (apply (idle_ext s); [cbn; congruence | reflexivity | reflexivity | exact Hi]).
      pose proof (send_tags s1 x Hi1) as Hn. pose proof (send_out s1 x) as Ho.
      destruct (send s1 x) as [s2 ev]. cbn [fst snd] in *. intros I'.
      eapply win_on; [exact I' | exact Hs | rewrite Ho; cbn [out with_out s1]; rewrite wt_app; apply incl_appl, incl_refl | | exact HR].
      intros e t He Ht. apply in_app_or in He as [He|[<-|[]]]; [|destruct Ht].
      specialize (Hn e t He Ht). cbn [q_pkt x ptag] in Hn. rewrite Eq0 in Hn. inversion Hn; subst t.
      rewrite Ho. cbn [out with_out s1]. rewrite wt_app. apply in_or_app. right.
      unfold wt, is_wait, wait_of. cbn. destruct (q =? 1); left; reflexivity.
    + intros _. apply Hret. cbn [sock with_out]. discriminate.
  - intros _. apply Hret. cbn [fst sock out with_out]. intros H; split; [exact H|]. rewrite wt_app. apply incl_appl, incl_refl.
Qed.

Lemma lost_notag q : Forall (fun e => evtag e = [] /\ match e with SockOpened _ | CbPublish _ _ => False | _ => True end)
                            (flat_map lost_evs q).
Proof.
  induction q as [|x q IH]; [constructor|]. cbn [flat_map]. apply Forall_app. split; [|exact IH].
  unfold lost_evs. destruct (q_pkt x) as [|m qs d t| | | |]; try constructor.
  destruct ((qs =? 0) && q_info x); repeat constructor.
Qed.

Lemma win_reconnect s ok k : R12 s k ->
  R12 (fst (do_reconnect c s ok)) (fold_left (k12_ev sel (c_max c)) (snd (do_reconnect c s ok)) k).
Proof.
  intros HR. unfold do_reconnect. destruct (reset_out_list c (clean_now c s) 0 (out s)) as [o n].
  destruct ok; cbn [fst snd].
  - change (Reconn :: flat_map lost_evs (outq s) ++ [SockOpened (conn s + 1); Handed (conn s + 1) PConnect; Tx (conn s + 1) PConnect])
      with ((Reconn :: flat_map lost_evs (outq s)) ++ [SockOpened (conn s + 1); Handed (conn s + 1) PConnect; Tx (conn s + 1) PConnect]).
    rewrite fold_left_app. rewrite (k12_fold_plain sel Hsel _ (Reconn :: flat_map lost_evs (outq s)))
      by (constructor; [split; [reflexivity|exact I] | apply lost_notag]).
    cbn [fold_left]. change (k12_ev sel (c_max c) k (SockOpened (conn s + 1))) with (mkK12 [] (k12_ok k)).
    change (k12_ev sel (c_max c) (k12_ev sel (c_max c) (mkK12 [] (k12_ok k)) (Handed (conn s + 1) PConnect)) (Tx (conn s + 1) PConnect))
      with (fold_left (k12_ev sel (c_max c)) [Handed (conn s + 1) PConnect; Tx (conn s + 1) PConnect] (mkK12 [] (k12_ok k))).
    rewrite (k12_fold_plain sel Hsel) by (repeat constructor).
    destruct HR as (Hok & _ & _). split; [assumption|]. cbn [k12_un]. split; [constructor|].
    intros _. apply incl_nil_l.
  - change (Reconn :: flat_map lost_evs (outq s) ++ [Raised]) with ((Reconn :: flat_map lost_evs (outq s)) ++ [Raised]).
    apply (win_plain s); [|cbn [sock]; discriminate | exact HR].
    apply Forall_app. split; [constructor; [split; [reflexivity|exact I] | apply lost_notag] | repeat constructor].
Qed.

(* the final acknowledgement of a stored message *)
Lemma win_on_publish s m p k : Inv c s -> sock s = true -> cack s = true -> In m (out s) -> is_wait m = true ->
  R12 s k -> Inv c (fst (do_on_publish c s m)) ->
  R12 (fst (do_on_publish c s m)) (fold_left (k12_ev sel (c_max c)) (Inp p :: snd (do_on_publish c s m)) k).
Proof.
  intros I Hs Hck Hin Hw (Hok & Hnd & Hun).
  destruct (on_publish_char c Hcfg s m (inv_m _ _ I) Hs Hck Hin Hw)
    as (C1 & C2 & Q & j & n & So & Se' & SQ & Hj & Hn & Hle & Hfull & E).
  rewrite E. cbn [fst snd]. clear E. intros I'.
  change (Inp p :: CbPublish (o_mid m) (o_tag m) :: Published (o_tag m) ::
          snd (hand_all (conn s) (can_write s) (outq s) (map rel_pk (firstn j Q))))
    with ([Inp p] ++ CbPublish (o_mid m) (o_tag m) :: Published (o_tag m) ::
          snd (hand_all (conn s) (can_write s) (outq s) (map rel_pk (firstn j Q)))).
  rewrite fold_left_app, (k12_fold_plain sel Hsel _ [Inp p]) by (repeat constructor).
  rewrite fold_cons.
  change (k12_ev sel (c_max c) k (CbPublish (o_mid m) (o_tag m))) with (mkK12 (zrem (o_tag m) (k12_un k)) (k12_ok k)).
  set (o' := (C1 ++ C2) ++ map rel1 (firstn j Q) ++ skipn j Q) in *.
  apply P12_R12. cbn [out with_q with_out].
  apply (k12_fold_P sel Hsel); [apply (wt_bound _ I') | |].
  - intros e t [<-|He] Ht; [destruct Ht|].
    destruct (hand_all_tags _ _ _ _ (inv_qidle _ _ I) e t He Ht) as (x & Hx & Ex).
    apply in_map_iff in Hx as (y & <- & Hy). cbn [rel_pk q_pkt] in Ex. apply ptag_pub in Ex. subst t.
    unfold o'. rewrite !wt_app. apply in_or_app. right. apply in_or_app. left.
    rewrite <- (rel1_tag y). apply wt_In; [apply in_map; exact Hy | apply rel1_wait].
  - split; [assumption|]. cbn [k12_un]. split; [apply zrem_NoDup; assumption|].
    intros y Hy. apply zrem_In in Hy as [Hy1 Hy2]. apply (Hun Hs) in Hy1. rewrite So in Hy1.
    rewrite !wt_app in Hy1. rewrite wt_cons, Hw in Hy1. unfold o'. rewrite !wt_app.
    apply in_app_or in Hy1 as [Hy1|Hy1].
    + apply in_or_app. left. apply in_app_or in Hy1 as [Hy1|[Hy1|Hy1]].
      * apply in_or_app. left. exact Hy1.
      * congruence.
      * apply in_or_app. right. exact Hy1.
    + exfalso. unfold wt in Hy1. rewrite (filter_none is_wait Q) in Hy1; [destruct Hy1|].
      eapply Forall_impl; [|exact SQ]. cbn. intros a. apply queued_notwait.
Qed.

Lemma win_rx s p r k : Inv c s -> R12 s k -> conf_op c s (ORx p r) = true ->
  Inv c (fst (do_rx c s p r)) ->
  R12 (fst (do_rx c s p r)) (fold_left (k12_ev sel (c_max c)) (snd (do_rx c s p r)) k).
Proof.
  intros I HR Hconf. cbn [conf_op] in Hconf. pose proof (inv_qidle _ _ I) as Hi.
  destruct (sock s) eqn:Hs; cbn [negb] in *; [|unfold do_rx; rewrite Hs; cbn [negb fst snd fold_left]; intros _; exact HR].
  (* replies: nothing window-relevant *)
  assert (Hreply : forall s1 x pre, sock s1 = sock s -> out s1 = out s -> outq s1 = outq s -> can_write s1 = can_write s ->
            ptag (q_pkt x) = None ->
            Forall (fun e => evtag e = [] /\ match e with SockOpened _ | CbPublish _ _ => False | _ => True end) pre ->
            R12 (fst (let (s2, ev2) := send s1 x in (s2, pre ++ ev2)))
                (fold_left (k12_ev sel (c_max c)) (snd (let (s2, ev2) := send s1 x in (s2, pre ++ ev2))) k)).
  { intros s1 x pre E1 E2 E3 E4 Hx Hpre.
    assert (Hi1 : can_write s1 = true -> outq s1 = []) by (rewrite E3, E4; exact Hi).
    pose proof (send_events_notag s1 x) as Hn. pose proof (send_out s1 x) as Ho. pose proof (send_fst s1 x) as Hf.
    destruct (send s1 x) as [s2 ev]. cbn [fst snd] in *.
    rewrite fold_left_app, (k12_fold_plain sel Hsel _ pre k Hpre).
    apply P12_R12. destruct HR as (Hok & Hnd & Hun).
    assert (Hb : c_max c = 0 \/ Z.of_nat (length (wt (out s2))) <= c_max c).
    { rewrite Ho, E2. apply (wt_bound _ I). }
    apply (k12_fold_P sel Hsel _ _ Hb).
    - intros e t He Ht. rewrite (Hn e Hi1 Hx He) in Ht. destruct Ht.
    - split; [assumption|]. split; [assumption|]. rewrite Ho, E2. apply Hun. exact Hs. }
  assert (Hsame : forall s' evs, sock s' = sock s -> out s' = out s ->
            Forall (fun e => evtag e = [] /\ match e with SockOpened _ | CbPublish _ _ => False | _ => True end) evs ->
            R12 s' (fold_left (k12_ev sel (c_max c)) evs k)).
  { intros s' evs E1 E2 He. apply (win_plain s); [exact He| |exact HR]. rewrite E1, E2. intros H; split; [congruence | apply incl_refl]. }
  destruct p as [rc|mid|mid|mid|mid|q mid tag].
  - (* CONNACK *)
    destruct (rc =? 0) eqn:Erc.
    + assert (rc = 0) by lia. subst rc.
      destruct (connack_char c s r I Hs) as (C & Q & So & Sh & E). rewrite E. cbn [fst snd]. clear E. intros I'.
      assert (Hincl : incl (wt (out s)) (wt (map cl1 C ++ Q))).
      { rewrite So. intros t Ht. apply wt_In_inv in Ht as (m & Hm & Hw & <-).
        apply in_app_or in Hm as [Hm|Hm].
        - rewrite <- (cl1_wait_id m Hw). apply wt_In; [apply in_or_app; left; apply in_map; exact Hm|].
          rewrite (cl1_wait_id m Hw). exact Hw.
        - apply wt_In; [apply in_or_app; right; exact Hm | exact Hw]. }
      eapply win_on; [exact I' | exact Hs | exact Hincl | | exact HR].
      cbn [out with_q with_out]. intros e t [<-|He] Ht; [destruct Ht|].
      destruct (hand_all_tags _ _ _ _ Hi e t He Ht) as (x & Hx & Ex).
      apply in_flat_map in Hx as (m & Hm & Hx). destruct (cl_pk_wt m x t Hx Ex) as [-> Hw].
      rewrite <- (cl1_tag m). apply wt_In; [apply in_or_app; left; apply in_map; exact Hm | exact Hw].
    + unfold do_rx. rewrite Hs. cbn [negb]. rewrite Erc. cbn [fst snd]. intros _.
      apply (win_plain s); [repeat constructor | cbn [sock with_sock]; discriminate | exact HR].
  - (* PUBACK *)
    unfold do_rx. rewrite Hs. cbn [negb].
    destruct (find_mid mid (out s)) as [m|] eqn:Ef; [|intros _; apply Hsame; try reflexivity; repeat constructor].
    pose proof (find_mid_In _ _ _ Ef) as [Hin Hmid]. subst mid.
    apply andb_true_iff in Hconf as [Hck Hconf]. apply andb_true_iff in Hconf as [Hconf _].
    apply andb_true_iff in Hconf as [_ Hst].
    assert (Hw : is_wait m = true) by (unfold is_wait; destruct (o_st m); try discriminate; reflexivity).
    pose proof (win_on_publish s m (IPuback (o_mid m)) k I Hs Hck Hin Hw HR) as H.
    destruct (do_on_publish c s m) as [s' ev]. cbn [fst snd] in *. exact H.
  - (* PUBREC *)
    unfold do_rx. rewrite Hs. cbn [negb].
    destruct (find_mid mid (out s)) as [m|] eqn:Ef; [|intros _; apply Hsame; try reflexivity; repeat constructor].
    destruct (upd_wt mid (out s) m Ef) as [H1 H2].
    set (s1 := with_out s _ _). set (x := mkQ _ _).
    pose proof (send_tags s1 x Hi) as Hn. pose proof (send_out s1 x) as Ho.
    destruct (send s1 x) as [s2 ev]. cbn [fst snd] in *. intros I'.
    eapply win_on; [exact I' | exact Hs | rewrite Ho; exact H1 | | exact HR].
    intros e t [<-|He] Ht; [destruct Ht|]. specialize (Hn e t He Ht). cbn in Hn. inversion Hn; subst t.
    rewrite Ho. exact H2.
  - (* PUBCOMP *)
    unfold do_rx. rewrite Hs. cbn [negb].
    destruct (find_mid mid (out s)) as [m|] eqn:Ef; [|intros _; apply Hsame; try reflexivity; repeat constructor].
    pose proof (find_mid_In _ _ _ Ef) as [Hin Hmid]. subst mid.
    apply andb_true_iff in Hconf as [Hck Hconf]. apply andb_true_iff in Hconf as [Hconf _].
    apply andb_true_iff in Hconf as [_ Hst].
    assert (Hw : is_wait m = true) by (unfold is_wait; destruct (o_st m); try discriminate; reflexivity).
    pose proof (win_on_publish s m (IPubcomp (o_mid m)) k I Hs Hck Hin Hw HR) as H.
    destruct (do_on_publish c s m) as [s' ev]. cbn [fst snd] in *. exact H.
  - (* PUBREL *)
    unfold do_rx. rewrite Hs. cbn [negb]. unfold deliver.
    destruct (in_find mid (inm s)) as [tag|].
    + destruct (r && negb (c_suppress c)); [|destruct (c_manual c)]; intros _.
      * apply Hsame; try reflexivity; repeat constructor.
      * apply Hsame; try reflexivity; repeat constructor.
      * apply (Hreply _ _ [Inp (IPubrel mid); CbMessage mid 2 tag]); try reflexivity; repeat constructor.
    + destruct (c_manual c); intros _; [apply Hsame; try reflexivity; repeat constructor|].
      apply (Hreply _ _ [Inp (IPubrel mid)]); try reflexivity; repeat constructor.
  - (* PUBLISH *)
    unfold do_rx. rewrite Hs. cbn [negb]. unfold deliver. destruct (q =? 0).
    + destruct (r && negb (c_suppress c)); intros _; apply Hsame; try reflexivity; repeat constructor.
    + destruct (q =? 1).
      * destruct (r && negb (c_suppress c)); [|destruct (c_manual c)]; intros _.
        -- apply Hsame; try reflexivity; repeat constructor.
        -- apply Hsame; try reflexivity; repeat constructor.
        -- apply (Hreply _ _ [Inp (IPublish q mid tag); CbMessage mid 1 tag]); try reflexivity; repeat constructor.
      * intros _. pose proof (Hreply s (mkQ (PPubrec mid) false) [Inp (IPublish q mid tag)]
                               eq_refl eq_refl eq_refl eq_refl eq_refl) as H.
        destruct (send s (mkQ (PPubrec mid) false)) as [s2 ev2]. cbn [fst snd] in *.
        eapply R12_mono; [apply H; repeat constructor|]. cbn [sock out with_inm]. intros Hx; split; [exact Hx | apply incl_refl].
Qed.

Lemma win_step s o k : Inv c s -> conf_op c s o = true -> R12 s k ->
  R12 (fst (step c s o)) (fold_left (k12_ev sel (c_max c)) (snd (step c s o)) k).
Proof.
  intros I Hc HR. pose proof (inv_step c Hcfg s o I Hc) as I'.
  pose proof (inv_qidle _ _ I) as Hi.
  destruct o as [q|ok| |p r|mid q|b]; cbn [step] in *.
  - apply win_publish; assumption.
  - apply win_reconnect; assumption.
  - destruct (sock s) eqn:Hs; cbn [fst snd]; [|exact HR].
    apply (win_plain s); [repeat constructor | cbn [sock with_sock]; discriminate | exact HR].
  - apply win_rx; assumption.
  - (* ack(): a reply, nothing window-relevant *)
    assert (Hsend : forall x, ptag (q_pkt x) = None -> written_evs x = [] ->
              R12 (fst (send s x)) (fold_left (k12_ev sel (c_max c)) (snd (send s x)) k)).
    { intros x Hx Hwx. apply (win_plain s); [| |exact HR].
      - apply Forall_forall. intros e He. split; [exact (send_events_notag s x e Hi Hx He)|].
        rewrite send_hand_all in He. cbn [snd] in He. destruct (can_write s).
        + rewrite (Hi eq_refl), hand_all_can in He. cbn [flat_map flush_evs app] in He. rewrite Hwx in He.
          cbn [app] in He. destruct He as [<-|[<-|[]]]; exact Logic.I.
        + rewrite hand_all_blocked in He. cbn in He. destruct He as [<-|[]]. exact Logic.I.
      - rewrite send_fst. cbn [sock out with_q]. intros H; split; [exact H | apply incl_refl]. }
    unfold do_ack. destruct (c_manual c); [|exact HR].
    destruct (q =? 1); [apply Hsend; reflexivity|]. destruct (q =? 2); [apply Hsend; reflexivity | exact HR].
  - (* the transport blocks / accepts again *)
    unfold do_block in *. destruct (sock s) eqn:Hs; [|exact HR]. destruct b; cbn [fst snd lw] in *.
    + apply (win_plain s); [repeat constructor | cbn [sock out with_blocked]; intros H; split; [congruence | apply incl_refl] | exact HR].
    + eapply win_on; [exact I' | exact Hs | apply incl_refl | | exact HR].
      cbn [out with_q with_blocked]. intros e t [<-|He] Ht; [destruct Ht|].
      destruct (flush_evs_tags _ _ e t He Ht) as (x & Hx & Ex).
      exact (qpkt_ok_wt _ _ _ (proj1 (Forall_forall _ _) (inv_q _ _ I Hs) x Hx) Ex).
Qed.

End C12.

(* ================================================================ the queue bound *)
(* tags of the QoS 0 PUBLISH packets waiting in the output queue: their on_publish comes when they are
   written; they never coincide with the tag of a stored message *)
Definition q0tag (x : qpkt) : list Z :=
  match q_pkt x with PPublish _ qs _ t => if qs =? 0 then [t] else [] | _ => [] end.
Definition q0tags (q : list qpkt) : list Z := flat_map q0tag q.
Definition noq0 (x : qpkt) : Prop :=
  match q_pkt x with PPublish _ qs _ _ => (qs =? 0) = false | _ => True end.

Lemma noq0_written x : noq0 x -> written_evs x = [].
Proof. unfold noq0, written_evs. destruct (q_pkt x); try reflexivity. intros ->. reflexivity. Qed.
Lemma noq0_q0tag x : noq0 x -> q0tag x = [].
Proof. unfold noq0, q0tag. destruct (q_pkt x); try reflexivity. intros ->. reflexivity. Qed.
Lemma q0tags_app a b : q0tags (a ++ b) = q0tags a ++ q0tags b.
Proof. unfold q0tags. apply flat_map_app. Qed.
Lemma noq0_q0tags H : Forall noq0 H -> q0tags H = [].
Proof. induction 1 as [|x H Hx _ IH]; [reflexivity|]. unfold q0tags in *. cbn [flat_map]. rewrite (noq0_q0tag x Hx), IH. reflexivity. Qed.

Lemma qos_ok_nz m : qos_okb m = true -> (o_qos m =? 0) = false.
Proof. unfold qos_okb. destruct (o_qos m =? 1) eqn:E1; [lia|]. intros H. lia. Qed.

Lemma noq0_rel_pk m : qos_okb m = true -> noq0 (rel_pk m).
Proof. intros H. unfold noq0, rel_pk, pub_pkt. cbn [q_pkt]. apply qos_ok_nz. exact H. Qed.
Lemma noq0_cl_pk m : qos_okb m = true -> Forall noq0 (cl_pk m).
Proof.
  intros H. unfold cl_pk. destruct (o_st m); try constructor.
  - unfold noq0, pub_pkt. cbn [q_pkt]. apply qos_ok_nz. exact H.
  - constructor.
  - destruct (o_qos m =? 2); repeat constructor.
Qed.

Section Queue.
Variable c : cfg.
Hypothesis Hcfg : cfg_ok c = true.

Definition qev := k12q_ev (c_maxq c).

Lemma flush_q cn : forall q k, (forall t, In t (q0tags q) -> ~ In t (kq_live k)) ->
  fold_left qev (flush_evs cn q) k = k.
Proof.
  induction q as [|x q IH]; intros k H; [reflexivity|]. cbn [flush_evs fold_left].
  change (qev k (Tx cn (q_pkt x))) with k. rewrite fold_left_app.
  assert (E : fold_left qev (written_evs x) k = k).
  { unfold written_evs. destruct (q_pkt x) as [|m qs d t| | | |] eqn:Ex; try reflexivity.
    destruct (qs =? 0) eqn:E0; [|reflexivity]. cbn [fold_left qev k12q_ev].
    rewrite zrem_notin; [destruct k; reflexivity|]. apply H. unfold q0tags. cbn [flat_map]. unfold q0tag at 1.
    rewrite Ex, E0. left. reflexivity. }
  rewrite E. apply IH. intros t Ht. apply H. unfold q0tags in *. cbn [flat_map]. apply in_or_app. right. exact Ht.
Qed.

Lemma hand_all_q cn can q H k : (can = true -> q = []) -> Forall noq0 H ->
  fold_left qev (snd (hand_all cn can q H)) k = k.
Proof.
  intros Hq HH. destruct can.
  - rewrite (Hq eq_refl), hand_all_can. cbn [snd]. induction HH as [|x H Hx _ IH]; [reflexivity|].
    cbn [flat_map flush_evs]. rewrite (noq0_written x Hx). cbn [app fold_left]. exact IH.
  - rewrite hand_all_blocked. cbn [snd]. clear Hq HH. induction H as [|x H IH]; [reflexivity|]. cbn [map fold_left]. exact IH.
Qed.

Lemma hand_all_q0 cn can q H : (can = true -> q = []) -> Forall noq0 H ->
  forall t, In t (q0tags (fst (hand_all cn can q H))) -> In t (q0tags q).
Proof.
  intros Hq HH t. rewrite (hand_all_fst _ _ _ _ Hq). destruct can; [intros []|].
  rewrite q0tags_app, (noq0_q0tags H HH), app_nil_r. exact (fun x => x).
Qed.

Lemma send_q s x k : (can_write s = true -> outq s = []) -> noq0 x -> fold_left qev (snd (send s x)) k = k.
Proof. intros Hi Hx. rewrite send_hand_all. cbn [snd]. apply hand_all_q; [exact Hi | repeat constructor; exact Hx]. Qed.

Lemma send_q0 s x : (can_write s = true -> outq s = []) -> noq0 x ->
  forall t, In t (q0tags (outq (fst (send s x)))) -> In t (q0tags (outq s)).
Proof.
  intros Hi Hx t. rewrite send_hand_all. cbn [fst outq with_q]. apply hand_all_q0; [exact Hi | repeat constructor; exact Hx].
Qed.

Lemma tags_reset cl : forall l infl, tags (fst (reset_out_list c cl infl l)) = tags l.
Proof.
  induction l as [|m l IH]; intros infl; cbn [reset_out_list]; [reflexivity|].
  destruct (window_free c infl).
  - specialize (IH (infl + 1)). destruct (reset_out_list c cl (infl + 1) l) as [r n].
    cbn [fst] in *. unfold tags in *. cbn [map]. rewrite reset1_tag, IH. reflexivity.
  - specialize (IH infl). destruct (reset_out_list c cl infl l) as [r n].
    cbn [fst] in *. unfold tags in *. cbn [map set_st o_tag]. rewrite IH. reflexivity.
Qed.

Lemma tags_update_mid mid st : forall l, tags (update_mid mid (fun m => set_st m st) l) = tags l.
Proof.
  induction l as [|x l IH]; cbn [update_mid]; [reflexivity|].
  destruct (o_mid x =? mid); unfold tags in *; cbn [map set_st o_tag]; [reflexivity | rewrite IH; reflexivity].
Qed.

Definition Q0 (s : sess) : Prop := forall t, In t (q0tags (outq s)) -> t < ntag s /\ ~ In t (tags (out s)).
Definition Rq (s : sess) (k : k12q) : Prop := kq_ok k = true /\ kq_live k = tags (out s) /\ Q0 s.

Lemma Rq_ext s s' k : out s' = out s -> ntag s' = ntag s -> (forall t, In t (q0tags (outq s')) -> In t (q0tags (outq s))) ->
  Rq s k -> Rq s' k.
Proof.
  intros E1 E2 E3 (Hok & Hl & Hq). split; [exact Hok|]. split; [rewrite E1; exact Hl|].
  intros t Ht. rewrite E1, E2. apply Hq. apply E3. exact Ht.
Qed.

Lemma q_publish s q k : Inv c s -> Rq s k ->
  Rq (fst (do_publish c s q)) (fold_left qev (snd (do_publish c s q)) k).
Proof.
  intros I (Hok & Hlive & Hq0). pose proof (inv_qidle _ _ I) as Hi.
  assert (Hfull : (c_maxq c >? 0) && (zlen (kq_live k) >=? c_maxq c) =
                  (c_maxq c >? 0) && (Z.of_nat (length (out s)) >=? c_maxq c)).
  { unfold zlen. rewrite Hlive. unfold tags. rewrite map_length. reflexivity. }
  assert (Hlt : forall t, In t (tags (out s)) -> t < ntag s).
  { intros t Hin. unfold tags in Hin. apply in_map_iff in Hin as (m & <- & Hin).
    pose proof (proj1 (Forall_forall _ _) (inv_tags _ _ I) m Hin) as H. cbn beta in H. lia. }
  assert (Hfresh : ~ In (ntag s) (tags (out s))) by (intros H; apply Hlt in H; lia).
  (* the Q0 part when the stored messages grow by the fresh tag and the queue does not grow by a QoS 0 packet *)
  assert (HQ0 : forall s', ntag s' = ntag s + 1 -> (forall t, In t (tags (out s')) -> In t (tags (out s)) \/ t = ntag s) ->
            (forall t, In t (q0tags (outq s')) -> In t (q0tags (outq s))) -> Q0 s').
  { intros s' E1 E2 E3 t Ht. destruct (Hq0 t (E3 t Ht)) as [H1 H2]. split; [lia|].
    intros H. destruct (E2 t H) as [H3|H3]; [exact (H2 H3) | lia]. }
  unfold do_publish. cbv zeta. destruct (q =? 0) eqn:Eq0.
  { destruct (sock s) eqn:Hs.
    - set (s1 := mkS _ _ _ _ _ _ _ _ _ _ _ _). set (x := mkQ _ _).
      assert (Hi1 : can_write s1 = true -> outq s1 = []) by (apply (idle_ext s); [cbn; congruence | reflexivity | reflexivity | exact Hi]).
      rewrite (send_hand_all s1 x). cbn [fst snd]. rewrite fold_left_app. cbn [fold_left qev k12q_ev]. rewrite Eq0.
      assert (E : fold_left qev (snd (hand_all (conn s1) (can_write s1) (outq s1) [x])) k = k).
      { destruct (can_write s1) eqn:Ec.
        - rewrite (Hi1 eq_refl), hand_all_can. cbn [snd flat_map flush_evs app written_evs x q_pkt fold_left qev k12q_ev].
          change (0 =? 0) with true. cbv iota. cbn [app fold_left qev k12q_ev].
          rewrite Hlive, zrem_notin by exact Hfresh. rewrite <- Hlive. destruct k; reflexivity.
        - rewrite hand_all_blocked. reflexivity. }
      rewrite E. split; [exact Hok|]. split; [exact Hlive|].
      intros t Ht. cbn [outq with_q out ntag s1] in *. rewrite (hand_all_fst _ _ _ _ Hi1) in Ht.
      destruct (can_write s1); [destruct Ht|]. rewrite q0tags_app in Ht. apply in_app_or in Ht as [Ht|Ht].
      + destruct (Hq0 t Ht). split; [lia | assumption].
      + cbn in Ht. destruct Ht as [<-|[]]. split; [lia | exact Hfresh].
    - cbn [fst snd fold_left qev k12q_ev]. rewrite Eq0. split; [exact Hok|]. split; [exact Hlive|].
      intros t Ht. destruct (Hq0 t Ht). cbn [ntag out]. split; [lia | assumption]. }
  destruct ((c_maxq c >? 0) && (Z.of_nat (length (out s)) >=? c_maxq c)) eqn:Efull.
  { cbn [fst snd fold_left qev k12q_ev]. rewrite Eq0, Hfull.
    split; cbn [kq_ok kq_live out]; [rewrite Hok; reflexivity|]. split; [assumption|].
    intros t Ht. destruct (Hq0 t Ht). cbn [ntag out]. split; [lia | assumption]. }
  destruct (has_mid (mid_next (last_mid s)) (out s)).
  { cbn [fst snd fold_left qev k12q_ev]. rewrite Eq0, Hfull.
    change (15 =? 15) with true. split; cbn [kq_ok kq_live out]; [assumption|]. split; [assumption|].
    intros t Ht. destruct (Hq0 t Ht). cbn [ntag out]. split; [lia | assumption]. }
  assert (Htags : forall st t, In t (tags (out s ++ [mkO (mid_next (last_mid s)) q st false (ntag s)])) -> In t (tags (out s)) \/ t = ntag s).
  { intros st t. rewrite tags_app. intros H. apply in_app_or in H as [H|[H|[]]]; [left; exact H | right; symmetry; exact H]. }
  destruct (window_free c (inflight s)); [destruct (sock s) eqn:Hs|].
  - set (s1 := with_out _ _ _). set (x := mkQ _ _).
    assert (Hi1 : can_write s1 = true -> outq s1 = []) by (apply (idle_ext s); [cbn; congruence | reflexivity | reflexivity | exact Hi]).
    assert (Hx : noq0 x) by exact Eq0.
    pose proof (send_q s1 x k Hi1 Hx) as E. pose proof (send_q0 s1 x Hi1 Hx) as E0. pose proof (send_fst s1 x) as Ef.
    destruct (send s1 x) as [s2 ev]. cbn [fst snd] in *. rewrite fold_left_app, E. cbn [fold_left qev k12q_ev].
    rewrite Eq0, Hfull. change (0 =? 15) with false. cbv iota.
    split; [exact Hok|]. rewrite Ef. cbn [out with_q with_out s1 kq_live]. split; [rewrite tags_app, Hlive; reflexivity|].
    rewrite <- Ef. apply HQ0; [rewrite Ef; reflexivity | rewrite Ef; apply Htags | exact E0].
  - cbn [fst snd fold_left qev k12q_ev]. rewrite Eq0, Hfull. change (4 =? 15) with false. cbv iota.
    split; [exact Hok|]. cbn [out with_out kq_live]. split; [rewrite tags_app, Hlive; reflexivity|].
    apply HQ0; [reflexivity | apply Htags | exact (fun t H => H)].
  - cbn [fst snd fold_left qev k12q_ev]. rewrite Eq0, Hfull. change (0 =? 15) with false. cbv iota.
    split; [exact Hok|]. cbn [out with_out kq_live]. split; [rewrite tags_app, Hlive; reflexivity|].
    apply HQ0; [reflexivity | apply Htags | exact (fun t H => H)].
Qed.

Lemma lost_q : forall q k, fold_left qev (flat_map lost_evs q) k = k.
Proof.
  induction q as [|x q IH]; intros k; [reflexivity|]. cbn [flat_map]. rewrite fold_left_app, IH.
  unfold lost_evs. destruct (q_pkt x) as [|m qs d t| | | |]; try reflexivity.
  destruct ((qs =? 0) && q_info x); reflexivity.
Qed.

Lemma q_reconnect s ok k : Rq s k ->
  Rq (fst (do_reconnect c s ok)) (fold_left qev (snd (do_reconnect c s ok)) k).
Proof.
  intros (Hok & Hlive & Hq0). unfold do_reconnect.
  pose proof (tags_reset (clean_now c s) (out s) 0) as Ht.
  destruct (reset_out_list c (clean_now c s) 0 (out s)) as [o n]. cbn [fst] in Ht.
  destruct ok; cbn [fst snd]; rewrite fold_cons, fold_left_app, lost_q; cbn [fold_left qev k12q_ev];
    (split; [assumption|]; split; [cbn [out]; rewrite Ht; assumption | intros t []]).
Qed.

Lemma q_on_publish s m p k : Inv c s -> sock s = true -> cack s = true -> In m (out s) -> is_wait m = true ->
  Rq s k ->
  Rq (fst (do_on_publish c s m)) (fold_left qev (Inp p :: snd (do_on_publish c s m)) k).
Proof.
  intros I Hs Hck Hin Hw (Hok & Hlive & Hq0).
  destruct (on_publish_char c Hcfg s m (inv_m _ _ I) Hs Hck Hin Hw)
    as (C1 & C2 & Q & j & n & So & Se' & SQ & Hj & Hn & Hle & Hfull & E).
  rewrite E. cbn [fst snd]. clear E.
  assert (HH : Forall noq0 (map rel_pk (firstn j Q))).
  { apply Forall_map. apply Forall_forall. intros x Hx. apply noq0_rel_pk.
    apply (proj1 (Forall_forall _ _) (inv_qos _ _ I)). rewrite So. apply in_or_app. right.
    rewrite <- (firstn_skipn j Q). apply in_or_app. left. exact Hx. }
  rewrite !fold_cons. cbn [qev k12q_ev]. fold qev. rewrite (hand_all_q _ _ _ _ _ (inv_qidle _ _ I) HH).
  pose proof (SSorted_NoDup _ (inv_sorted _ _ I)) as Hnd. rewrite So in Hnd.
  assert (Htags : tags ((C1 ++ C2) ++ map rel1 (firstn j Q) ++ skipn j Q) = zrem (o_tag m) (tags (out s))).
  { rewrite So. rewrite !tags_app. rewrite (map_ext_tag rel1) by (intros; apply rel1_tag).
    rewrite <- (tags_app (firstn j Q)), firstn_skipn. cbn [tags map].
    rewrite !tags_app in Hnd. cbn [tags map] in Hnd. fold (tags C2) in *. fold (tags C1) in *.
    rewrite <- !app_assoc in *. cbn [app] in *. fold (tags Q) in *.
    pose proof (NoDup_remove_2 _ _ _ Hnd) as H. symmetry. apply zrem_mid.
    - intros H1. apply H. apply in_or_app. left. assumption.
    - intros H1. apply H. apply in_or_app. right. assumption. }
  split; [exact Hok|]. cbn [out with_q with_out kq_live outq ntag]. split; [rewrite Htags, Hlive; reflexivity|].
  unfold Q0. cbn [out with_q with_out outq ntag].
  intros t Ht. apply (hand_all_q0 _ _ _ _ (inv_qidle _ _ I) HH) in Ht. destruct (Hq0 t Ht) as [H1 H2].
  split; [exact H1|]. rewrite Htags. intros H. apply zrem_In in H. tauto.
Qed.

Lemma q_rx s p r k : Inv c s -> conf_op c s (ORx p r) = true -> Rq s k ->
  Rq (fst (do_rx c s p r)) (fold_left qev (snd (do_rx c s p r)) k).
Proof.
  intros I Hconf HR. cbn [conf_op] in Hconf. pose proof (inv_qidle _ _ I) as Hi.
  destruct (sock s) eqn:Hs; cbn [negb] in *; [|unfold do_rx; rewrite Hs; cbn [negb fst snd fold_left]; exact HR].
  assert (Hreply : forall s1 x pre, out s1 = out s -> ntag s1 = ntag s -> outq s1 = outq s -> can_write s1 = can_write s ->
            noq0 x -> fold_left qev pre k = k ->
            Rq (fst (let (s2, ev2) := send s1 x in (s2, pre ++ ev2)))
               (fold_left qev (snd (let (s2, ev2) := send s1 x in (s2, pre ++ ev2))) k)).
  { intros s1 x pre E1 E2 E3 E4 Hx Hpre.
    assert (Hi1 : can_write s1 = true -> outq s1 = []) by (rewrite E3, E4; exact Hi).
    pose proof (send_q s1 x k Hi1 Hx) as E. pose proof (send_q0 s1 x Hi1 Hx) as E0. pose proof (send_fst s1 x) as Ef.
    destruct (send s1 x) as [s2 ev]. cbn [fst snd] in *. rewrite fold_left_app, Hpre, E.
    apply (Rq_ext s); [rewrite Ef; exact E1 | rewrite Ef; exact E2 | rewrite <- E3; exact E0 | exact HR]. }
  destruct p as [rc|mid|mid|mid|mid|q mid tag].
  - (* CONNACK *)
    destruct (rc =? 0) eqn:Erc.
    + assert (rc = 0) by lia. subst rc.
      destruct (connack_char c s r I Hs) as (C & Q & So & Sh & E). rewrite E. cbn [fst snd]. clear E.
      assert (HH : Forall noq0 (flat_map cl_pk C)).
      { apply Forall_flat_map. apply Forall_forall. intros x Hx. apply noq0_cl_pk.
        apply (proj1 (Forall_forall _ _) (inv_qos _ _ I)). rewrite So. apply in_or_app. left. exact Hx. }
      rewrite fold_cons. change (qev k (Inp (IConnack 0))) with k. rewrite (hand_all_q _ _ _ _ _ Hi HH).
      destruct HR as (Hok & Hlive & Hq0).
      assert (Ht : tags (map cl1 C ++ Q) = tags (out s)).
      { rewrite So, !tags_app. rewrite map_ext_tag by apply cl1_tag. reflexivity. }
      split; [exact Hok|]. cbn [out with_q with_out outq ntag]. split; [rewrite Ht; exact Hlive|].
      unfold Q0. cbn [out with_q with_out outq ntag connack_s1].
      intros t Hin. apply (hand_all_q0 _ _ _ _ Hi HH) in Hin. rewrite Ht. exact (Hq0 t Hin).
    + unfold do_rx. rewrite Hs. cbn [negb]. rewrite Erc. cbn [fst snd fold_left qev k12q_ev].
      apply (Rq_ext s); [reflexivity | reflexivity | exact (fun t H => H) | exact HR].
  - (* PUBACK *)
    unfold do_rx. rewrite Hs. cbn [negb].
    destruct (find_mid mid (out s)) as [m|] eqn:Ef; [|exact HR].
    pose proof (find_mid_In _ _ _ Ef) as [Hin Hmid]. subst mid.
    apply andb_true_iff in Hconf as [Hck Hconf]. apply andb_true_iff in Hconf as [Hconf _].
    apply andb_true_iff in Hconf as [_ Hst].
    assert (Hw : is_wait m = true) by (unfold is_wait; destruct (o_st m); try discriminate; reflexivity).
    pose proof (q_on_publish s m (IPuback (o_mid m)) k I Hs Hck Hin Hw HR) as H.
    destruct (do_on_publish c s m) as [s' ev]. cbn [fst snd] in *. exact H.
  - (* PUBREC *)
    unfold do_rx. rewrite Hs. cbn [negb].
    destruct (find_mid mid (out s)) as [m|] eqn:Ef; [|exact HR].
    set (s1 := with_out s _ _). set (x := mkQ _ _).
    assert (Hx : noq0 x) by exact Logic.I.
    pose proof (send_q s1 x k Hi Hx) as E. pose proof (send_q0 s1 x Hi Hx) as E0. pose proof (send_fst s1 x) as Efs.
    destruct (send s1 x) as [s2 ev]. cbn [fst snd] in *. rewrite fold_cons. change (qev k (Inp (IPubrec mid))) with k. rewrite E.
    destruct HR as (Hok & Hlive & Hq0). split; [exact Hok|]. rewrite Efs. cbn [out with_q with_out s1 ntag].
    split; [rewrite tags_update_mid; exact Hlive|].
    unfold Q0. cbn [out with_q with_out outq ntag].
    intros t Ht. assert (Ht' : In t (q0tags (outq s))) by (apply E0; rewrite Efs; exact Ht).
    destruct (Hq0 t Ht') as [H1 H2]. split; [exact H1|]. unfold s1. cbn [out with_out]. rewrite tags_update_mid. exact H2.
  - (* PUBCOMP *)
    unfold do_rx. rewrite Hs. cbn [negb].
    destruct (find_mid mid (out s)) as [m|] eqn:Ef; [|exact HR].
    pose proof (find_mid_In _ _ _ Ef) as [Hin Hmid]. subst mid.
    apply andb_true_iff in Hconf as [Hck Hconf]. apply andb_true_iff in Hconf as [Hconf _].
    apply andb_true_iff in Hconf as [_ Hst].
    assert (Hw : is_wait m = true) by (unfold is_wait; destruct (o_st m); try discriminate; reflexivity).
    pose proof (q_on_publish s m (IPubcomp (o_mid m)) k I Hs Hck Hin Hw HR) as H.
    destruct (do_on_publish c s m) as [s' ev]. cbn [fst snd] in *. exact H.
  - (* PUBREL *)
    unfold do_rx. rewrite Hs. cbn [negb]. unfold deliver.
    destruct (in_find mid (inm s)) as [tag|].
    + destruct (r && negb (c_suppress c)); [|destruct (c_manual c)]; cbn [fst snd].
      * apply (Rq_ext s); [reflexivity | reflexivity | exact (fun t H => H) | exact HR].
      * apply (Rq_ext s); [reflexivity | reflexivity | exact (fun t H => H) | exact HR].
      * apply (Hreply _ _ [Inp (IPubrel mid); CbMessage mid 2 tag]); try reflexivity; try exact Logic.I.
    + destruct (c_manual c); [exact HR|].
      apply (Hreply _ _ [Inp (IPubrel mid)]); try reflexivity; try exact Logic.I.
  - (* PUBLISH *)
    unfold do_rx. rewrite Hs. cbn [negb]. unfold deliver. destruct (q =? 0).
    + destruct (r && negb (c_suppress c)); exact HR.
    + destruct (q =? 1).
      * destruct (r && negb (c_suppress c)); [|destruct (c_manual c)]; try exact HR.
        apply (Hreply _ _ [Inp (IPublish q mid tag); CbMessage mid 1 tag]); try reflexivity; try exact Logic.I.
      * pose proof (Hreply s (mkQ (PPubrec mid) false) [Inp (IPublish q mid tag)]
                      eq_refl eq_refl eq_refl eq_refl Logic.I eq_refl) as H.
        destruct (send s (mkQ (PPubrec mid) false)) as [s2 ev2]. cbn [fst snd] in *.
        eapply Rq_ext; [| | |exact H]; try reflexivity. exact (fun t H => H).
Qed.

Lemma q_step s o k : Inv c s -> conf_op c s o = true -> Rq s k ->
  Rq (fst (step c s o)) (fold_left qev (snd (step c s o)) k).
Proof.
  intros I Hc HR. pose proof (inv_qidle _ _ I) as Hi. destruct o as [q|ok| |p r|mid q|b]; cbn [step].
  - apply q_publish; assumption.
  - apply q_reconnect; assumption.
  - destruct (sock s); cbn [fst snd fold_left qev k12q_ev]; [|exact HR].
    apply (Rq_ext s); [reflexivity | reflexivity | exact (fun t H => H) | exact HR].
  - apply q_rx; assumption.
  - assert (Hsend : forall x, noq0 x -> Rq (fst (send s x)) (fold_left qev (snd (send s x)) k)).
    { intros x Hx. rewrite (send_q s x k Hi Hx).
      apply (Rq_ext s); [rewrite send_fst; reflexivity | rewrite send_fst; reflexivity | apply send_q0; assumption | exact HR]. }
    unfold do_ack. destruct (c_manual c); [|exact HR].
    destruct (q =? 1); [apply Hsend; exact Logic.I|]. destruct (q =? 2); [apply Hsend; exact Logic.I | exact HR].
  - unfold do_block. destruct (sock s); [|exact HR]. destruct b; cbn [fst snd lw].
    + apply (Rq_ext s); [reflexivity | reflexivity | exact (fun t H => H) | exact HR].
    + rewrite fold_cons. change (qev k (Blk false)) with k. destruct HR as (Hok & Hlive & Hq0).
      rewrite flush_q by (intros t Ht; rewrite Hlive; exact (proj2 (Hq0 t Ht))).
      split; [exact Hok|]. split; [exact Hlive|]. intros t [].
Qed.

End Queue.

