(* The structural invariant of the second-generation Session model (output queue; transport that accepts, refuses,
   or FAILS HARD) is preserved by every operation of every broker-conforming history.
   [Inv] itself is defined in Session2/LInv.v (message stores: out = C ++ U ++ Q, counter = |C| <= window, ids
   distinct, publish() order, state/QoS compatibility; queue: empty on a socket that accepts writes, and on an open
   socket every queued QoS>0 PUBLISH / PUBREL belongs to a stored message awaiting exactly that packet's
   acknowledgement).  An operation in which no write can fail hard is one of the two-mode operations (Bridge.v) and
   LInv.v applies; an operation on a dead socket is the two-mode operation followed by the loss of the connection,
   or one of the two special cases (publish() taking its message out of the window again, the CONNACK
   retransmission loop stopping) - Fail.v. *)
From PahoV Require Import Base.Prelude Codec.Mid Codec.MidProofs Session2.Model Session2.Bridge Session2.Fail
  Session2.LLemmas Session2.LInv.
From PahoV Require Session2.Legacy.
From Coq Require Import Sorting.Sorted.

(* [Inv] plus the meaning of the two transport flags: a socket whose writes fail also refuses them *)
Record Inv3 (c : cfg) (s : sess) : Prop := mkInv3 {
  i3_inv : Inv c s;
  i3_fb : failing s = true -> blocked s = true
}.

(* ---------------------------------------------------------------- the flags *)
Definition flags (s : sess) : bool * bool := (blocked s, failing s).

Lemma flags_settle s q a : flags (settle s q a) = flags s.
Proof. destruct a; reflexivity. Qed.

Lemma flags_send s x : flags (fst (send s x)) = flags s.
Proof.
  unfold send. destruct (sock s); [|reflexivity].
  destruct (pq (conn s) (tm s) true (outq s) x) as [[q' ev] a]. cbn [fst]. apply flags_settle.
Qed.

Lemma flags_on_publish c s m : flags (fst (do_on_publish c s m)) = flags s.
Proof.
  unfold do_on_publish. destruct (c_max c >? 0); [|reflexivity].
  destruct (update_inflight c (conn s) (tm s) (inflight s - 1) (outq s) (remove_mid (o_mid m) (out s))) as [[[[o' n] q'] ev] a].
  cbn [fst]. rewrite flags_settle. reflexivity.
Qed.

Lemma flags_rx c s p r : flags (fst (do_rx c s p r)) = flags s.
Proof.
  unfold do_rx. destruct (sock s); cbn [negb]; [|reflexivity].
  destruct p as [rc|mid|mid|mid|mid|q mid tag].
  - destruct (rc =? 0); [|reflexivity].
    destruct (connack_loop (conn s) (tm s) (outq s) (out s)) as [[[o q'] ev] a]. cbn [fst]. rewrite flags_settle. reflexivity.
  - destruct (find_mid mid (out s)) as [m|]; [|reflexivity].
    pose proof (flags_on_publish c s m) as H. destruct (do_on_publish c s m). exact H.
  - destruct (find_mid mid (out s)) as [m|]; [|reflexivity].
    match goal with |- context [send ?s0 ?x0] => pose proof (flags_send s0 x0) as H; destruct (send s0 x0) end. exact H.
  - destruct (find_mid mid (out s)) as [m|]; [|reflexivity].
    pose proof (flags_on_publish c s m) as H. destruct (do_on_publish c s m). exact H.
  - destruct (in_find mid (inm s)) as [tag|].
    + destruct (deliver c mid 2 tag r) as [ev pr]. destruct pr; [reflexivity|]. destruct (c_manual c); [reflexivity|].
      match goal with |- context [send ?s0 ?x0] => pose proof (flags_send s0 x0) as H; destruct (send s0 x0) end. exact H.
    + destruct (c_manual c); [reflexivity|].
      match goal with |- context [send ?s0 ?x0] => pose proof (flags_send s0 x0) as H; destruct (send s0 x0) end. exact H.
  - destruct (q =? 0); [destruct (deliver c 0 0 tag r); reflexivity|].
    destruct (q =? 1).
    + destruct (deliver c mid 1 tag r) as [ev pr]. destruct pr; [reflexivity|]. destruct (c_manual c); [reflexivity|].
      match goal with |- context [send ?s0 ?x0] => pose proof (flags_send s0 x0) as H; destruct (send s0 x0) end. exact H.
    + match goal with |- context [send ?s0 ?x0] => pose proof (flags_send s0 x0) as H; destruct (send s0 x0) end. exact H.
Qed.

Lemma flags_publish c s q : flags (fst (do_publish c s q)) = flags s.
Proof.
  unfold do_publish. cbv zeta. destruct (q =? 0).
  - destruct (sock s); [|reflexivity].
    match goal with |- context [send ?s0 ?x0] => pose proof (flags_send s0 x0) as H; destruct (send s0 x0) end. exact H.
  - destruct ((c_maxq c >? 0) && (Z.of_nat (length (out s)) >=? c_maxq c)); [reflexivity|].
    destruct (has_mid (mid_next (last_mid s)) (out s)); [reflexivity|].
    destruct (window_free c (inflight s)); [|reflexivity]. destruct (sock s); [|reflexivity].
    match goal with |- context [send ?s0 ?x0] => pose proof (flags_send s0 x0) as H; destruct (send s0 x0) as [s2 ev] end.
    cbn [fst] in *. destruct (sock s2); exact H.
Qed.

Lemma fb_step c s o : (failing s = true -> blocked s = true) ->
  failing (fst (step c s o)) = true -> blocked (fst (step c s o)) = true.
Proof.
  intros Hfb. destruct o as [q|ok| |p r|mid q|m]; cbn [step].
  - pose proof (flags_publish c s q) as H. unfold flags in H. inversion H as [[H1 H2]]. rewrite H1, H2. exact Hfb.
  - unfold do_reconnect. destruct (reset_out_list c (clean_now c s) 0 (out s)). destruct ok; cbn; discriminate.
  - destruct (sock s); exact Hfb.
  - pose proof (flags_rx c s p r) as H. unfold flags in H. inversion H as [[H1 H2]]. rewrite H1, H2. exact Hfb.
  - unfold do_ack. destruct (c_manual c); [|exact Hfb].
    destruct (q =? 1); [pose proof (flags_send s (mkQ (PPuback mid) false)) as H; unfold flags in H; inversion H as [[H1 H2]]; rewrite H1, H2; exact Hfb|].
    destruct (q =? 2); [pose proof (flags_send s (mkQ (PPubcomp mid) false)) as H; unfold flags in H; inversion H as [[H1 H2]]; rewrite H1, H2; exact Hfb | exact Hfb].
  - unfold do_transport. destruct (sock s); [|exact Hfb]. destruct m.
    + destruct (lw (conn s) TAccept true (outq s)) as [[q' ev] a]. cbn [fst]. destruct a; cbn; discriminate.
    + cbn. discriminate.
    + destruct (lw (conn s) TFail true (outq s)) as [[q' ev] a]. cbn [fst]. destruct a; cbn; reflexivity.
Qed.

(* ---------------------------------------------------------------- [Inv] does not look at [failing]; losing the socket *)
Lemma inv_set_failing c s b : Inv c s -> Inv c (set_failing s b).
Proof.
  intros [[[C [U [Q [So Si SC SU SQ Sm Sf Ss Se]]]] Hnd Hso Htg Hqo Hca Hlm Hnt] Hi Hq].
  destruct s as [o i n lm sk f ck cn nt q bl fl]. unfold set_failing. cbn in *.
  constructor; [|exact Hi | exact Hq].
  constructor; cbn; try assumption. exists C, U, Q. constructor; cbn; assumption.
Qed.

Lemma inv_lost c s : Inv c s -> Inv c (lost s).
Proof.
  intros [[[C [U [Q Sh]]] Hnd Hso Htg Hqo Hca Hlm Hnt] Hi Hq].
  unfold lost, with_sock. rewrite andb_false_r.
  constructor; [|cbn; discriminate | cbn; discriminate].
  constructor; cbn; try assumption; try discriminate.
  exists C, U, Q. destruct Sh as [So Si SC SU SQ Sm Sf Ss Se]. constructor; cbn; try assumption; discriminate.
Qed.

Lemma inv_fail_after c r : Inv c (fst r) -> Inv c (fst (fail_after r)).
Proof. intros I. unfold fail_after. destruct (wrote (snd r)); cbn [fst]; [apply inv_lost|]; exact I. Qed.

(* the queue of a state without a socket is not constrained *)
Lemma inv_offline_q c s q : Inv c s -> sock s = false -> Inv c (with_q s q).
Proof.
  intros [Im Hi Hq] Hs. constructor; [apply invm_with_q; exact Im | |].
  - unfold Legacy.can_write. cbn [sock with_q blocked]. rewrite Hs. discriminate.
  - cbn [sock with_q]. rewrite Hs. discriminate.
Qed.

(* ---------------------------------------------------------------- _update_inflight releases at most one message *)
Lemma split_unique (P : omsg -> bool) : forall A B A' B',
  Forall (fun m => P m = false) A -> Forall (fun m => P m = true) B ->
  Forall (fun m => P m = false) A' -> Forall (fun m => P m = true) B' ->
  A ++ B = A' ++ B' -> A = A' /\ B = B'.
Proof.
  induction A as [|a A IH]; intros B A' B' HA HB HA' HB' E.
  - destruct A' as [|a' A']; [split; [reflexivity | exact E]|].
    cbn [app] in E. subst B. inversion HB; subst. inversion HA'; subst. congruence.
  - destruct A' as [|a' A'].
    + cbn [app] in E. subst B'. inversion HB'; subst. inversion HA; subst. congruence.
    + cbn [app] in E. inversion E; subst. inversion HA; subst. inversion HA'; subst.
      destruct (IH B A' B' ltac:(assumption) HB ltac:(assumption) HB' ltac:(assumption)) as [-> ->]. split; reflexivity.
Qed.

Section Preserve.
Variable c : cfg.
Hypothesis Hcfg : cfg_ok c = true.

Lemma ui_le1_inv s mid : Inv c s -> sock s = true -> cack s = true -> Legacy.can_write s = false ->
  (forall m, find_mid mid (out s) = Some m -> is_wait m = true) -> ui_le1 c s mid.
Proof.
  intros I Hs Hck Hcw Hw m Ef. pose proof (find_mid_In _ _ _ Ef) as [Hin _].
  destruct (on_publish_char c Hcfg s m (inv_m _ _ I) Hs Hck Hin (Hw m Ef))
    as (C1 & C2 & Q & j & n & So & Se' & SQ & Hj & Hn & Hle & Hfull & E).
  rewrite E. cbn [snd]. rewrite Hcw, hand_all_blocked. cbn [snd length]. rewrite !map_length.
  (* the window was full if anything is queued behind it *)
  destruct (inv_shape _ _ I) as (C & U & Q0 & Sh). pose proof (sh_sockU _ _ _ _ _ Sh Hs) as HU. subst U.
  pose proof (sh_out _ _ _ _ _ Sh) as So0. cbn [app] in So0. rewrite So in So0.
  assert (Hnq : Forall (fun x => is_queued x = false) (C1 ++ m :: C2)).
  { apply Forall_app. apply Forall_app in Se' as [H1 H2]. split.
    - eapply Forall_impl; [|exact H1]. cbn. intros a. apply wait_nq.
    - constructor; [apply wait_nq; exact (Hw m Ef)|]. eapply Forall_impl; [|exact H2]. cbn. intros a. apply wait_nq. }
  destruct (split_unique is_queued _ _ _ _ Hnq SQ (sh_C _ _ _ _ _ Sh) (sh_Q _ _ _ _ _ Sh) So0) as [EC EQ]. subst C Q0.
  rewrite firstn_length.
  destruct Q as [|x Q]; [cbn [length]; lia|].
  destruct (sh_full _ _ _ _ _ Sh ltac:(discriminate)) as [Hpos Hfullw].
  rewrite app_length in Hfullw. cbn [length] in Hfullw. rewrite app_length in Hn.
  specialize (Hle Hpos). lia.
Qed.

(* ---------------------------------------------------------------- the stopped CONNACK loop *)
Definition adv (m m' : omsg) : Prop := m' = m \/ m' = cl1 m.

Lemma adv_mid m m' : adv m m' -> o_mid m' = o_mid m.
Proof. intros [->| ->]; [reflexivity | apply cl1_mid]. Qed.
Lemma adv_tag m m' : adv m m' -> o_tag m' = o_tag m.
Proof. intros [->| ->]; [reflexivity | apply cl1_tag]. Qed.
Lemma adv_queued m m' : adv m m' -> is_queued m' = is_queued m.
Proof.
  intros [->| ->]; [reflexivity|]. destruct (is_queued m) eqn:E; [|apply cl1_nq; exact E].
  unfold cl1. unfold is_queued in E. destruct (o_st m) eqn:Est; try discriminate. unfold is_queued. rewrite Est. reflexivity.
Qed.
Lemma adv_qos m m' : adv m m' -> qos_okb m = true -> qos_okb m' = true.
Proof. intros [->| ->]; [exact (fun H => H) | apply qos_ok_cl1]. Qed.

Lemma adv_tagb n m m' : adv m m' -> 0 <= o_tag m < n -> 0 <= o_tag m' < n.
Proof. intros H. rewrite (adv_tag m m' H). exact (fun x => x). Qed.

Lemma adv_map {B} (f : omsg -> B) : (forall m m', adv m m' -> f m' = f m) ->
  forall l r, Forall2 adv l r -> map f r = map f l.
Proof. intros Hf l r H. induction H as [|m m' l r Hm _ IH]; cbn [map]; [reflexivity|]. rewrite (Hf m m' Hm), IH. reflexivity. Qed.

Lemma adv_Forall (P : omsg -> Prop) : (forall m m', adv m m' -> P m -> P m') ->
  forall l r, Forall2 adv l r -> Forall P l -> Forall P r.
Proof.
  intros Hp l r H. induction H as [|m m' l r Hm _ IH]; intros HF; [constructor|].
  inversion HF; subst. constructor; [eapply Hp; eassumption | apply IH; assumption].
Qed.

Lemma adv_length l r : Forall2 adv l r -> length r = length l.
Proof. intros H. induction H; cbn [length]; [reflexivity | f_equal; assumption]. Qed.

Lemma adv_refl : forall l, Forall2 adv l l.
Proof. induction l; constructor; [left; reflexivity | assumption]. Qed.

Lemma invm_adv s r q' : InvM c s -> sock s = true -> Forall2 adv (out s) r ->
  InvM c (with_q (with_sock (with_out (connack_s1 s) r (inflight s)) false) q').
Proof.
  intros [[C [U [Q Sh]]] Hnd Hso Htg Hqo Hca Hlm Hnt] Hs HF.
  pose proof (sh_sockU _ _ _ _ _ Sh Hs) as HU. subst U.
  destruct Sh as [So Si SC SU SQ Sm Sf Ss Se]. cbn [app] in So.
  rewrite So in HF. apply Forall2_app_inv_l in HF as (C' & Q' & HC & HQ & ->).
  assert (Hm : mids (C' ++ Q') = mids (out s)).
  { rewrite So. unfold mids. rewrite !map_app.
    rewrite (adv_map o_mid adv_mid _ _ HC), (adv_map o_mid adv_mid _ _ HQ). reflexivity. }
  assert (Ht : tags (C' ++ Q') = tags (out s)).
  { rewrite So. unfold tags. rewrite !map_app.
    rewrite (adv_map o_tag adv_tag _ _ HC), (adv_map o_tag adv_tag _ _ HQ). reflexivity. }
  assert (HlC : length C' = length C) by (apply adv_length; exact HC).
  assert (HlQ : length Q' = length Q) by (apply adv_length; exact HQ).
  rewrite So in Htg, Hqo. apply Forall_app in Htg as [Htg1 Htg2]. apply Forall_app in Hqo as [Hqo1 Hqo2].
  unfold with_sock, with_q, with_out, connack_s1. cbn [out inm inflight last_mid sock first cack conn ntag outq blocked failing].
  constructor; cbn -[mids tags]; rewrite ?Hm, ?Ht; try assumption; try discriminate.
  - exists C', [], Q'. constructor; cbn; try discriminate.
    + reflexivity.
    + rewrite HlC. exact Si.
    + apply (adv_Forall (fun m => is_queued m = false) (fun m m' H Hq => eq_trans (adv_queued m m' H) Hq) _ _ HC SC).
    + constructor.
    + apply (adv_Forall (fun m => is_queued m = true) (fun m m' H Hq => eq_trans (adv_queued m m' H) Hq) _ _ HQ SQ).
    + rewrite HlC. exact Sm.
    + intros Hne. rewrite HlC. apply Sf. intros ->. apply Hne. destruct Q'; [reflexivity | discriminate].
  - apply Forall_app. split.
    + apply (adv_Forall (fun m => 0 <= o_tag m < ntag s) (adv_tagb (ntag s)) _ _ HC Htg1).
    + apply (adv_Forall (fun m => 0 <= o_tag m < ntag s) (adv_tagb (ntag s)) _ _ HQ Htg2).
  - apply Forall_app. split.
    + apply (adv_Forall (fun m => qos_okb m = true) adv_qos _ _ HC Hqo1).
    + apply (adv_Forall (fun m => qos_okb m = true) adv_qos _ _ HQ Hqo2).
Qed.

Lemma inv_connack_dead s r : Inv c s -> dead s -> cack s = false -> Inv c (fst (do_rx c s (IConnack 0) r)).
Proof.
  intros I Hd Hck. pose proof Hd as (Hs & Hf & Hb).
  assert (Hstop : forall o q' ev, Forall2 adv (out s) o ->
            Inv c (fst (settle (with_out (connack_s1 s) o (inflight s)) q' false, Inp (IConnack 0) :: ev))).
  { intros o q' ev HF. cbn [fst settle]. constructor.
    - apply invm_adv; [exact (inv_m _ _ I) | exact Hs | exact HF].
    - unfold Legacy.can_write. cbn. discriminate.
    - cbn. discriminate. }
  destruct (connack_dead (conn s) (out s) (outq s)) as [[H1 H2]|[(Hne & H1 & _)|(l1 & m & l2 & x & El & Ex & Hq1 & Hq & H1)]].
  - (* no write attempted: the two-mode operation *)
    assert (E : do_rx c s (IConnack 0) r = Legacy.do_rx c s (IConnack 0) r).
    { unfold do_rx, Legacy.do_rx. rewrite Hs. cbn [negb Z.eqb]. rewrite (tm_dead s Hd), (canw_dead s Hd), H1, H2. reflexivity. }
    rewrite E. apply (LInv.inv_rx c Hcfg s (IConnack 0) r I). cbn [Legacy.conf_op]. rewrite Hs, Hck. reflexivity.
  - unfold do_rx. rewrite Hs. cbn [negb Z.eqb]. rewrite (tm_dead s Hd), H1. apply Hstop. apply adv_refl.
  - unfold do_rx. rewrite Hs. cbn [negb Z.eqb]. rewrite (tm_dead s Hd), H1. apply Hstop.
    rewrite El. apply Forall2_app; [apply adv_refl|]. constructor; [right; reflexivity | apply adv_refl].
Qed.

(* ---------------------------------------------------------------- every operation *)
Lemma conf_wait_puback s mid : Legacy.conf_op c s (Legacy.ORx (IPuback mid) false) = true -> sock s = true ->
  cack s = true /\ forall m, find_mid mid (out s) = Some m -> is_wait m = true.
Proof.
  cbn [Legacy.conf_op]. intros H Hs. rewrite Hs in H. cbn [negb] in H. apply andb_true_iff in H as [Hck H]. split; [exact Hck|].
  intros m Ef. rewrite Ef in H. apply andb_true_iff in H as [H _]. apply andb_true_iff in H as [_ H].
  unfold is_wait. destruct (o_st m); try discriminate; reflexivity.
Qed.
Lemma conf_wait_pubcomp s mid : Legacy.conf_op c s (Legacy.ORx (IPubcomp mid) false) = true -> sock s = true ->
  cack s = true /\ forall m, find_mid mid (out s) = Some m -> is_wait m = true.
Proof.
  cbn [Legacy.conf_op]. intros H Hs. rewrite Hs in H. cbn [negb] in H. apply andb_true_iff in H as [Hck H]. split; [exact Hck|].
  intros m Ef. rewrite Ef in H. apply andb_true_iff in H as [H _]. apply andb_true_iff in H as [_ H].
  unfold is_wait. destruct (o_st m); try discriminate; reflexivity.
Qed.

(* the bound that rx_dead needs, from the invariant and conformance *)
Lemma ui_le1_conf s p r : Inv c s -> dead s -> Legacy.conf_op c s (Legacy.ORx p r) = true -> forall mid,
  (p = IPuback mid \/ p = IPubcomp mid) -> ui_le1 c s mid.
Proof.
  intros I Hd Hconf mid Hp. pose proof Hd as (Hs & _ & _).
  destruct Hp as [-> | ->].
  - destruct (conf_wait_puback s mid Hconf Hs) as [Hck Hw].
    apply ui_le1_inv; [exact I | exact Hs | exact Hck | exact (canw_dead s Hd) | exact Hw].
  - destruct (conf_wait_pubcomp s mid Hconf Hs) as [Hck Hw].
    apply ui_le1_inv; [exact I | exact Hs | exact Hck | exact (canw_dead s Hd) | exact Hw].
Qed.

End Preserve.

Section Step.
Variable c : cfg.
Hypothesis Hcfg : cfg_ok c = true.

Lemma inv_rx_dead s p r : Inv c s -> dead s -> conf_op c s (ORx p r) = true -> Inv c (fst (do_rx c s p r)).
Proof.
  intros I Hd Hconf. pose proof Hd as (Hs & _ & _).
  assert (Hconf' : Legacy.conf_op c s (Legacy.ORx p r) = true) by exact Hconf.
  destruct (match p with IConnack rc => rc =? 0 | _ => false end) eqn:Ek.
  - destruct p as [rc| | | | |]; try discriminate. assert (rc = 0) by lia. subst rc.
    apply inv_connack_dead; [exact Hcfg | exact I | exact Hd|].
    cbn [conf_op] in Hconf. rewrite Hs in Hconf. cbn [negb] in Hconf. destruct (cack s); [discriminate|reflexivity].
  - rewrite (rx_dead c s p r Hd).
    + apply inv_fail_after. exact (LInv.inv_rx c Hcfg s p r I Hconf').
    + intros mid Hp. exact (ui_le1_conf c Hcfg s p r I Hd Hconf' mid Hp).
    + intros rc ->. intros ->. discriminate.
Qed.

Lemma legacy_publish_offline s q : sock s = false ->
  sock (fst (Legacy.do_publish c s q)) = false.
Proof.
  intros Hs. unfold Legacy.do_publish. cbv zeta. rewrite Hs. destruct (q =? 0); [reflexivity|].
  destruct ((c_maxq c >? 0) && (Z.of_nat (length (out s)) >=? c_maxq c)); [reflexivity|].
  destruct (has_mid (mid_next (last_mid s)) (out s)); [reflexivity|].
  destruct (window_free c (inflight s)); reflexivity.
Qed.

Theorem inv_step s o : Inv3 c s -> conf_op c s o = true -> Inv3 c (fst (step c s o)).
Proof.
  intros [I Hfb] Hconf. split; [|exact (fb_step c s o Hfb)].
  destruct (calm_dec s o) as [Hcalm|Hn].
  - rewrite (step_bridge c s o Hcalm). apply (LInv.inv_step c Hcfg); [exact I|]. rewrite <- conf_bridge. exact Hconf.
  - apply not_calm in Hn.
    destruct (sock s) eqn:Hs.
    2:{ (* no socket: only the transport operation is not calm, and it does nothing *)
        destruct Hn as [[Hx _]|Ho]; [discriminate|]. subst o. cbn [step]. unfold do_transport. rewrite Hs. exact I. }
    destruct (failing s) eqn:Hf.
    + (* a dead socket *)
      assert (Hd : dead s) by (split; [exact Hs|]; split; [exact Hf | exact (Hfb eq_refl)]).
      destruct o as [q|ok| |p r|mid q|m]; cbn [step].
      * (* publish() *)
        assert (Hq : Legacy.conf_op c s (Legacy.OPublish q) = true) by exact Hconf.
        destruct (q =? 0) eqn:Eq0.
        { assert (q = 0) by lia. subst q. rewrite (publish0_dead c s Hd). cbn [fst]. apply inv_lost.
          exact (LInv.inv_step c Hcfg s (Legacy.OPublish 0) I Hq). }
        destruct (pub_wrote c s q) eqn:Ew.
        { rewrite (publish_dead_wrote c s q Hd Ew). cbn [fst]. apply inv_offline_q.
          - exact (LInv.inv_step c Hcfg (lost s) (Legacy.OPublish q) (inv_lost c s I) Hq).
          - apply legacy_publish_offline. reflexivity. }
        rewrite (publish_dead_nowrite c s q Hd Eq0 Ew). exact (LInv.inv_step c Hcfg s (Legacy.OPublish q) I Hq).
      * exact (LInv.inv_step c Hcfg s (Legacy.OReconnect ok) I eq_refl).
      * exact (LInv.inv_step c Hcfg s Legacy.OConnLost I eq_refl).
      * apply inv_rx_dead; assumption.
      * rewrite (ack_dead c s mid q Hd). apply inv_fail_after.
        exact (LInv.inv_step c Hcfg s (Legacy.OAck mid q) I eq_refl).
      * destruct m.
        -- rewrite (transport_accept s Hs). cbn [fst]. apply inv_set_failing.
           exact (LInv.inv_step c Hcfg s (Legacy.OBlock false) I eq_refl).
        -- rewrite (transport_block s Hs). cbn [fst]. apply inv_set_failing.
           exact (LInv.inv_step c Hcfg s (Legacy.OBlock true) I eq_refl).
        -- rewrite (transport_fail s Hs). destruct (outq s); cbn [fst]; [|apply inv_lost]; apply inv_set_failing;
             exact (LInv.inv_step c Hcfg s (Legacy.OBlock true) I eq_refl).
    + (* the peer vanishes now *)
      destruct Hn as [[_ Hx]|Ho]; [discriminate|]. subst o. cbn [step].
      rewrite (transport_fail s Hs). destruct (outq s); cbn [fst]; [|apply inv_lost]; apply inv_set_failing;
        exact (LInv.inv_step c Hcfg s (Legacy.OBlock true) I eq_refl).
Qed.

Lemma inv3_init : Inv3 c (init c).
Proof. split; [apply inv_init | discriminate]. Qed.

Lemma inv_run_from : forall ops s tr, Inv3 c s -> conforming_from c s ops = true -> Inv3 c (fst (run_from c s tr ops)).
Proof.
  induction ops as [|o ops IH]; intros s tr I Hc; cbn [run_from conforming_from] in *; [exact I|].
  apply andb_true_iff in Hc as [Hc1 Hc2]. pose proof (inv_step s o I Hc1) as I'.
  destruct (step c s o) as [s' ev]. cbn [fst] in *. apply IH; assumption.
Qed.

Theorem inv_reachable ops : conforming c ops = true -> Inv c (fst (run c ops)).
Proof. intros Hc. apply i3_inv. apply inv_run_from; [apply inv3_init | exact Hc]. Qed.

End Step.

Print Assumptions inv_reachable.
