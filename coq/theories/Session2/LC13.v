(* C13 on the second-generation Session model: on every connection the first HAND-OVERS of the
   messages accepted before the connection was opened, and of those accepted while it is open, follow
   publish() order ([c13_handed_proved], by a relational invariant between the model state and the
   checker state); the same for the first WRITES follows from the queue discipline
   ([c13_tx_proved] = [fifo_proved] + [c13_transfer_proved]). *)
From PahoV Require Import Base.Prelude Codec.Mid Codec.MidProofs Session2.Model Session2.Legacy Session2.Check
  Session2.LLemmas Session2.LInv Session2.Statements.
From Coq Require Import Sorting.Sorted.

(* ---------------------------------------------------------------- zin *)
Lemma zin_In x l : zin x l = true <-> In x l.
Proof.
  induction l as [|y l IH]; cbn [zin In]; [split; [discriminate|tauto]|].
  rewrite orb_true_iff, IH. split; intros [H|H]; auto; left; lia.
Qed.
Lemma zin_app x l1 l2 : zin x (l1 ++ l2) = zin x l1 || zin x l2.
Proof. induction l1 as [|y l1 IH]; cbn [zin app]; [reflexivity|]. rewrite IH, orb_assoc. reflexivity. Qed.
Lemma zin_false x l : zin x l = false <-> ~ In x l.
Proof. rewrite <- zin_In. destruct (zin x l); split; intros H; congruence. Qed.

(* ---------------------------------------------------------------- sorted lists *)
Lemma ss_app (l1 l2 : list Z) : StronglySorted Z.lt (l1 ++ l2) ->
  StronglySorted Z.lt l1 /\ StronglySorted Z.lt l2 /\ (forall x y, In x l1 -> In y l2 -> x < y).
Proof.
  induction l1 as [|a l1 IH]; cbn [app]; intros H.
  - split; [constructor|]. split; [assumption|]. intros x y [].
  - inversion H as [|? ? Hs Hf]; subst. destruct (IH Hs) as (H1 & H2 & H3). apply Forall_app in Hf as [Hf1 Hf2].
    split; [constructor; assumption|]. split; [assumption|].
    intros x y [->|Hx] Hy; [exact (proj1 (Forall_forall _ _) Hf2 y Hy) | apply H3; assumption].
Qed.

Lemma ss_filter_tags (f : omsg -> bool) : forall l,
  StronglySorted Z.lt (tags l) -> StronglySorted Z.lt (tags (filter f l)).
Proof.
  unfold tags. induction l as [|m l IH]; cbn [map filter]; intros H; [constructor|].
  inversion H as [|? ? Hs Hf]; subst. destruct (f m); cbn [map]; [|apply IH; assumption].
  constructor; [apply IH; assumption|]. apply Forall_forall. intros x Hx.
  apply in_map_iff in Hx as (y & <- & Hy). apply filter_In in Hy as [Hy _].
  apply (proj1 (Forall_forall _ _) Hf). apply in_map. assumption.
Qed.

(* ---------------------------------------------------------------- the checker on first hand-overs *)
(* an unseen tag is beyond what was transmitted on this connection in its class *)
Definition above (k : k13) (t : Z) : Prop :=
  if t <? k3_bound k then k3_old k < t else k3_new k < t.

Lemma tx_step k t : k3_ok k = true -> zin t (k3_seen k) = false -> above k t ->
  k3_ok (k13_tx k t) = true /\ k3_next (k13_tx k t) = k3_next k /\ k3_bound (k13_tx k t) = k3_bound k /\
  k3_seen (k13_tx k t) = k3_seen k ++ [t] /\
  (forall u, above k u -> (t < u \/ (u < k3_bound k /\ k3_bound k <= t)) -> above (k13_tx k t) u) /\
  (forall N, k3_new k < N -> t < N -> k3_new (k13_tx k t) < N).
Proof.
  intros Hok Hun Hab. unfold k13_tx, above in *. rewrite Hun.
  destruct (t <? k3_bound k) eqn:E; cbn [k3_ok k3_next k3_bound k3_seen k3_old k3_new].
  - split; [rewrite Hok; apply Z.ltb_lt; exact Hab|]. split; [reflexivity|]. split; [reflexivity|]. split; [reflexivity|]. split.
    + intros u Hu Hlt. destruct (u <? k3_bound k) eqn:E2; lia.
    + intros; lia.
  - split; [rewrite Hok; apply Z.ltb_lt; exact Hab|]. split; [reflexivity|]. split; [reflexivity|]. split; [reflexivity|]. split.
    + intros u Hu Hlt. destruct (u <? k3_bound k) eqn:E2; lia.
    + intros; lia.
Qed.

Lemma tx_seen k t : zin t (k3_seen k) = true -> k13_tx k t = k.
Proof. intros H. unfold k13_tx. rewrite H. reflexivity. Qed.

Lemma tx_fold : forall ts k, StronglySorted Z.lt ts -> k3_ok k = true ->
  Forall (fun t => zin t (k3_seen k) = false) ts -> Forall (above k) ts ->
  k3_ok (fold_left k13_tx ts k) = true /\ k3_next (fold_left k13_tx ts k) = k3_next k /\
  k3_bound (fold_left k13_tx ts k) = k3_bound k /\
  k3_seen (fold_left k13_tx ts k) = k3_seen k ++ ts /\
  (forall u, above k u -> Forall (fun t => t < u) ts -> above (fold_left k13_tx ts k) u) /\
  (forall N, k3_new k < N -> Forall (fun t => t < N) ts -> k3_new (fold_left k13_tx ts k) < N).
Proof.
  induction ts as [|t ts IH]; intros k Hs Hok Hun Hab; cbn [fold_left].
  - rewrite app_nil_r. split; [assumption|]. split; [reflexivity|]. split; [reflexivity|]. split; [reflexivity|].
    split; intros; assumption.
  - inversion Hs as [|? ? Hs' Hlt]; subst. inversion Hun as [|? ? Hun1 Hun']; subst.
    inversion Hab as [|? ? Hab1 Hab']; subst.
    destruct (tx_step k t Hok Hun1 Hab1) as (Ok1 & Nx1 & Bd1 & Sn1 & Ab1 & Nw1).
    assert (Hun2 : Forall (fun x => zin x (k3_seen (k13_tx k t)) = false) ts).
    { rewrite Sn1. apply Forall_forall. intros x Hx. rewrite zin_app.
      rewrite (proj1 (Forall_forall _ _) Hun' x Hx). cbn [zin].
      pose proof (proj1 (Forall_forall _ _) Hlt x Hx). lia. }
    assert (Hab2 : Forall (above (k13_tx k t)) ts).
    { apply Forall_forall. intros x Hx. apply Ab1; [exact (proj1 (Forall_forall _ _) Hab' x Hx)|].
      left. exact (proj1 (Forall_forall _ _) Hlt x Hx). }
    destruct (IH (k13_tx k t) Hs' Ok1 Hun2 Hab2) as (Ok2 & Nx2 & Bd2 & Sn2 & Ab2 & Nw2).
    split; [exact Ok2|]. split; [congruence|]. split; [congruence|].
    split; [rewrite Sn2, Sn1, <- app_assoc; reflexivity|]. split.
    + intros u Hu Hf. inversion Hf; subst. apply Ab2; [apply Ab1; [assumption|left; assumption]|assumption].
    + intros N HN Hf. inversion Hf; subst. apply Nw2; [apply Nw1; assumption|assumption].
Qed.

(* ---------------------------------------------------------------- the events of the loops, seen by the checker *)
Definition hev := k13_ev handed_sel.

Lemma qos_ok_q0 m : qos_okb m = true -> (o_qos m =? 0) = false.
Proof.
  unfold qos_okb. destruct (o_qos m =? 1) eqn:E; [intros _; lia|].
  intros H. apply andb_true_iff in H as [H _]. lia.
Qed.

(* writes, and the completions of QoS 0 messages that come with them, are not hand-overs *)
Lemma flush_hev cn : forall q k, fold_left hev (flush_evs cn q) k = k.
Proof.
  induction q as [|x q IH]; intros k; [reflexivity|]. cbn [flush_evs fold_left]. change (hev k (Tx cn (q_pkt x))) with k.
  rewrite fold_left_app, IH. unfold written_evs. destruct (q_pkt x) as [|m qs d t| | | |]; try reflexivity.
  destruct (qs =? 0); reflexivity.
Qed.

Lemma hand_all_hev cn can q H k : (can = true -> q = []) ->
  fold_left hev (snd (hand_all cn can q H)) k = fold_left k13_pkt (pkts H) k.
Proof.
  intros Hq. destruct can.
  - rewrite (Hq eq_refl), hand_all_can. cbn [snd]. revert k. induction H as [|x H IH]; intros k; [reflexivity|].
    cbn [flat_map pkts map]. rewrite fold_left_app. cbn [fold_left].
    change (hev k (Handed cn (q_pkt x))) with (k13_pkt k (q_pkt x)). rewrite flush_hev. apply IH.
  - rewrite hand_all_blocked. cbn [snd]. revert k. induction H as [|x H IH]; intros k; [reflexivity|].
    cbn [pkts map fold_left]. change (hev k (Handed cn (q_pkt x))) with (k13_pkt k (q_pkt x)). apply IH.
Qed.

Lemma send_hev s x k : (can_write s = true -> outq s = []) ->
  fold_left hev (snd (send s x)) k = k13_pkt k (q_pkt x).
Proof.
  intros Hi. unfold send. pose proof (hand_all_hev (conn s) (can_write s) (outq s) [x] k Hi) as H.
  cbn [hand_all] in H. destruct (pq (conn s) (can_write s) (outq s) x) as [q' ev]. cbn [snd] in *.
  rewrite app_nil_r in H. exact H.
Qed.

Lemma pkt_pub m k : qos_okb m = true -> k13_pkt k (pub_pkt m) = k13_tx k (o_tag m).
Proof. intros H. unfold k13_pkt, pub_pkt, ptag. rewrite (qos_ok_q0 m H). reflexivity. Qed.

Lemma fold_rel_pk : forall L k, Forall (fun m => qos_okb m = true) L ->
  fold_left k13_pkt (pkts (map rel_pk L)) k = fold_left k13_tx (tags L) k.
Proof.
  unfold tags. induction L as [|m L IH]; intros k H; cbn [map pkts fold_left]; [reflexivity|].
  inversion H; subst. cbn [rel_pk q_pkt]. rewrite pkt_pub by assumption. apply IH. assumption.
Qed.

Definition pend (m : omsg) : bool := negb (is_wait m).

Lemma fold_cl_pk1 m k : qos_okb m = true -> is_queued m = false ->
  fold_left k13_pkt (pkts (cl_pk m)) k = if is_wait m then k else k13_tx k (o_tag m).
Proof.
  intros Hq Hnq. pose proof (qos_ok_q0 m Hq) as H0.
  unfold cl_pk, is_wait, is_queued, qos_okb in *.
  destruct (o_st m); try discriminate; cbn [pkts map fold_left q_pkt]; try reflexivity.
  - unfold k13_pkt, pub_pkt, ptag. rewrite H0. reflexivity.
  - destruct (o_qos m =? 1) eqn:E1; [discriminate|]. apply andb_true_iff in Hq as [Hq _].
    rewrite Hq. reflexivity.
Qed.

Lemma fold_cl_pk : forall C k,
  Forall (fun m => qos_okb m = true) C -> Forall (fun m => is_queued m = false) C ->
  fold_left k13_pkt (pkts (flat_map cl_pk C)) k = fold_left k13_tx (tags (filter pend C)) k.
Proof.
  unfold tags. induction C as [|m C IH]; intros k Hq Hn; cbn [flat_map filter]; [reflexivity|].
  inversion Hq; subst; inversion Hn; subst. unfold pkts. rewrite map_app, fold_left_app. fold (pkts (cl_pk m)). fold (pkts (flat_map cl_pk C)).
  rewrite fold_cl_pk1 by assumption.
  unfold pend at 1. destruct (is_wait m); cbn [negb map fold_left]; apply IH; assumption.
Qed.

(* events the order checker ignores altogether *)
Definition hneutral (e : event) : bool :=
  match e with
  | Ret _ _ _ _ | SockOpened _ | Handed _ _ => false
  | _ => true
  end.
Lemma hneutral_fold : forall evs k, forallb hneutral evs = true -> fold_left hev evs k = k.
Proof.
  induction evs as [|e evs IH]; intros k H; [reflexivity|].
  cbn [forallb] in H. apply andb_true_iff in H as [He H]. cbn [fold_left].
  destruct e; try discriminate; apply IH; exact H.
Qed.

(* ---------------------------------------------------------------- the relation model state / checker state *)
(* per stored message: in a wait state = first transmission on this connection already done;
   otherwise not yet transmitted here, beyond everything transmitted in its class, and - unless
   it is queued behind the window - accepted before this connection was opened *)
Definition good (k : k13) (m : omsg) : Prop :=
  if is_wait m then zin (o_tag m) (k3_seen k) = true
  else zin (o_tag m) (k3_seen k) = false /\ above k (o_tag m) /\
       (is_queued m = false -> o_tag m < k3_bound k).

Record RS (s : sess) (k : k13) : Prop := mkRS {
  rs_bound : k3_bound k <= ntag s;
  rs_seen : forall t, zin t (k3_seen k) = true -> t < ntag s;
  rs_new : k3_new k < ntag s;
  rs_good : Forall (good k) (out s)
}.

Definition R (s : sess) (k : k13) : Prop :=
  k3_ok k = true /\ k3_next k = ntag s /\ (sock s = true -> RS s k).

Lemma good_ext k k' m :
  k3_bound k' = k3_bound k -> k3_old k' = k3_old k -> k3_new k' = k3_new k -> k3_seen k' = k3_seen k ->
  good k m -> good k' m.
Proof. unfold good, above. intros -> -> -> ->. tauto. Qed.

Lemma good_keep k k' ts (P : Z -> Prop) m :
  k3_bound k' = k3_bound k -> k3_seen k' = k3_seen k ++ ts ->
  (forall u, above k u -> P u -> above k' u) ->
  good k m -> (is_wait m = false -> ~ In (o_tag m) ts /\ P (o_tag m)) -> good k' m.
Proof.
  unfold good. intros Hb Hs Ha Hg Hc. rewrite Hs, zin_app. destruct (is_wait m).
  - rewrite Hg. reflexivity.
  - destruct Hg as (H1 & H2 & H3). destruct (Hc eq_refl) as [H4 H5]. split; [|split].
    + rewrite H1. apply zin_false in H4. rewrite H4. reflexivity.
    + apply Ha; assumption.
    + rewrite Hb. assumption.
Qed.

Lemma good_sent k m : is_wait m = true -> zin (o_tag m) (k3_seen k) = true -> good k m.
Proof. unfold good. intros -> H. exact H. Qed.

Lemma not_wait_of_queued m : is_queued m = true -> is_wait m = false.
Proof. destruct (is_wait m) eqn:E; [|reflexivity]. apply wait_nq in E. congruence. Qed.

Lemma is_wait_wait_of mid q d t : is_wait (mkO mid q (wait_of q) d t) = true.
Proof. unfold is_wait, wait_of. cbn [o_st]. destruct (q =? 1); reflexivity. Qed.

Lemma reset_out_notwait c cl : forall l infl,
  Forall (fun m => is_wait m = false) (fst (reset_out_list c cl infl l)).
Proof.
  induction l as [|m l IH]; intros infl; cbn [reset_out_list]; [constructor|].
  destruct (window_free c infl).
  - specialize (IH (infl + 1)). destruct (reset_out_list c cl (infl + 1) l) as [r n]. cbn [fst] in *.
    constructor; [apply reset1_notwait | exact IH].
  - specialize (IH infl). destruct (reset_out_list c cl infl l) as [r n]. cbn [fst] in *.
    constructor; [reflexivity | exact IH].
Qed.

Lemma update_mid_Forall (P : omsg -> Prop) mid f : forall l m,
  find_mid mid l = Some m -> Forall P l -> P (f m) -> Forall P (update_mid mid f l).
Proof.
  induction l as [|x l IH]; intros m Hf Hl Hp; cbn [find_mid update_mid] in *; [discriminate|].
  inversion Hl; subst. destruct (o_mid x =? mid).
  - inversion Hf; subst. constructor; assumption.
  - constructor; [assumption|]. eapply IH; eassumption.
Qed.

(* ---------------------------------------------------------------- preservation, op by op *)
Section Preserve13.
Variable c : cfg.
Hypothesis Hcfg : cfg_ok c = true.

Lemma R_ext s s' k : out s' = out s -> ntag s' = ntag s -> sock s' = sock s -> R s k -> R s' k.
Proof.
  intros E1 E2 E3 (Hok & Hnx & Hrs). split; [exact Hok|]. split; [rewrite E2; exact Hnx|]. rewrite E3. intros Hs.
  destruct (Hrs Hs) as [Hb Hse Hn Hg]. constructor; rewrite ?E1, ?E2; assumption.
Qed.

(* operations that leave the socket closed, or close it: only [ok] and [next] matter *)
Lemma R_closed s' k' : k3_ok k' = true -> k3_next k' = ntag s' -> sock s' = false -> R s' k'.
Proof. intros H1 H2 H3. split; [assumption|]. split; [assumption|]. intros H. congruence. Qed.

(* only the tag counter moves *)
Lemma R_ret s s' k mid q rc : R s k -> out s' = out s -> sock s' = sock s -> ntag s' = ntag s + 1 ->
  R s' (fold_left hev [Ret (ntag s) mid q rc] k).
Proof.
  intros (Hok & Hnx & Hrs) E1 E2 E3. cbn [fold_left hev k13_ev]. split; [exact Hok|]. split; [cbn; lia|].
  rewrite E2. intros Hs. destruct (Hrs Hs) as [Hb Hse Hn Hg].
  constructor; rewrite ?E1, ?E3; cbn [k3_bound k3_seen k3_new];
    [lia | intros t Ht; specialize (Hse t Ht); lia | lia |].
  eapply Forall_impl; [|exact Hg]. intros a Ha.
  eapply good_ext; [| | | |exact Ha]; reflexivity.
Qed.

Lemma R_publish s k q : Inv c s -> conf_op c s (OPublish q) = true -> R s k ->
  R (fst (do_publish c s q)) (fold_left hev (snd (do_publish c s q)) k).
Proof.
  intros I Hq HR. cbn [conf_op] in Hq. pose proof (max_nonneg c Hcfg) as Hmax. pose proof (inv_qidle _ _ I) as Hi.
  unfold do_publish. cbv zeta. destruct (q =? 0) eqn:Eq0.
  { destruct (sock s) eqn:Hs; [|cbn [fst snd]; apply (R_ret s); [exact HR | reflexivity | cbn; congruence | reflexivity]].
    set (s1 := mkS _ _ _ _ _ _ _ _ _ _ _ _). set (x := mkQ _ _).
    assert (Hi1 : can_write s1 = true -> outq s1 = []).
    { unfold can_write in *. cbn [sock blocked outq s1]. rewrite Hs in Hi. exact Hi. }
    pose proof (send_hev s1 x k Hi1) as E. pose proof (send_fst s1 x) as Ef.
    destruct (send s1 x) as [s2 ev]. cbn [fst snd] in *. rewrite fold_left_app, E.
    change (k13_pkt k (q_pkt x)) with k.
    apply (R_ret s); [exact HR | rewrite Ef; reflexivity | rewrite Ef; cbn; congruence | rewrite Ef; reflexivity]. }
  destruct ((c_maxq c >? 0) && (Z.of_nat (length (out s)) >=? c_maxq c));
    [cbn [fst snd]; apply (R_ret s); [exact HR | reflexivity | reflexivity | reflexivity]|].
  destruct (has_mid (mid_next (last_mid s)) (out s)) eqn:Hhas;
    [cbn [fst snd]; apply (R_ret s); [exact HR | reflexivity | reflexivity | reflexivity]|].
  destruct HR as (Hok & Hnx & Hrs).
  destruct (inv_shape _ _ I) as (C & U & Q & Sh). pose proof (inv_tags _ _ I) as Htg.
  destruct (window_free c (inflight s)) eqn:W.
  - destruct (sock s) eqn:Hs.
    + (* handed over at once: the largest tag so far, a new message *)
      assert (Q = []) by (eapply window_free_Q_nil; eassumption). subst Q.
      assert (U = []) by (apply (sh_sockU _ _ _ _ _ Sh); assumption). subst U.
      destruct (Hrs eq_refl) as [Hb Hse Hn Hg].
      set (s1 := with_out _ _ _). set (x := mkQ _ _).
      assert (Hi1 : can_write s1 = true -> outq s1 = []).
      { unfold can_write in *. cbn [sock blocked outq s1 with_out]. rewrite Hs in Hi. exact Hi. }
      pose proof (send_hev s1 x k Hi1) as E. pose proof (send_fst s1 x) as Ef.
      destruct (send s1 x) as [s2 ev]. cbn [fst snd] in *. rewrite fold_left_app, E.
      assert (Ex : k13_pkt k (q_pkt x) = k13_tx k (ntag s)).
      { unfold k13_pkt, x, ptag. cbn [q_pkt]. rewrite Eq0. reflexivity. }
      rewrite Ex. cbn [fold_left hev k13_ev].
      assert (Hun : zin (ntag s) (k3_seen k) = false).
      { destruct (zin (ntag s) (k3_seen k)) eqn:E1; [|reflexivity]. apply Hse in E1. lia. }
      assert (Hab : above k (ntag s)).
      { unfold above. replace (ntag s <? k3_bound k) with false by lia. exact Hn. }
      destruct (tx_step k (ntag s) Hok Hun Hab) as (Ok1 & Nx1 & Bd1 & Sn1 & Ab1 & Nw1).
      split; [exact Ok1|]. split; [rewrite Ef; reflexivity|]. intros _. rewrite Ef.
      constructor; cbn [k3_bound k3_seen k3_new k3_old out ntag with_out with_q s1].
      * rewrite Bd1. lia.
      * intros t Ht. rewrite Sn1, zin_app in Ht. cbn [zin] in Ht.
        destruct (zin t (k3_seen k)) eqn:E1; [apply Hse in E1; lia | lia].
      * apply Nw1; lia.
      * apply Forall_app. split.
        -- apply Forall_forall. intros m Hm.
           apply (good_ext (k13_tx k (ntag s))); try reflexivity.
           pose proof (proj1 (Forall_forall _ _) Hg m Hm) as Gm.
           pose proof (proj1 (Forall_forall _ _) Htg m Hm) as Tm. cbn beta in Tm.
           eapply (good_keep k _ [ntag s] (fun u => u < k3_bound k /\ k3_bound k <= ntag s));
             [exact Bd1 | exact Sn1 | | exact Gm | ].
           ++ intros u Hu Hp. apply Ab1; [exact Hu | right; exact Hp].
           ++ intros Hw. split; [cbn [In]; lia|]. split; [|lia].
              unfold good in Gm. rewrite Hw in Gm. destruct Gm as (_ & _ & G3). apply G3.
              rewrite (sh_out _ _ _ _ _ Sh), app_nil_r in Hm. cbn [app] in Hm.
              exact (proj1 (Forall_forall _ _) (sh_C _ _ _ _ _ Sh) m Hm).
        -- constructor; [|constructor]. apply good_sent; [apply is_wait_wait_of|].
           cbn [o_tag k3_seen]. rewrite Sn1, zin_app. cbn [zin]. lia.
    + (* offline *)
      cbn [fst snd fold_left hev k13_ev]. apply R_closed; [exact Hok | reflexivity | reflexivity].
  - (* queued behind the window *)
    cbn [fst snd fold_left hev k13_ev]. split; [exact Hok|]. split; [reflexivity|].
    cbn [sock with_out]. intros Hs. destruct (Hrs Hs) as [Hb Hse Hn Hg].
    constructor; cbn [k3_bound k3_seen k3_new out ntag with_out];
      [lia | intros t Ht; specialize (Hse t Ht); lia | lia |].
    { apply Forall_app. split.
      * eapply Forall_impl; [|exact Hg]. intros a Ha. eapply good_ext; [| | | |exact Ha]; reflexivity.
      * constructor; [|constructor]. unfold good, above.
        cbn [is_wait is_queued o_st o_tag k3_seen k3_bound k3_new k3_old].
        split; [|split].
        -- destruct (zin (ntag s) (k3_seen k)) eqn:E; [|reflexivity]. apply Hse in E. lia.
        -- replace (ntag s <? k3_bound k) with false by lia. exact Hn.
        -- discriminate. }
Qed.

Lemma lost_hneutral q : forallb hneutral (flat_map lost_evs q) = true.
Proof.
  induction q as [|x q IH]; [reflexivity|]. cbn [flat_map]. rewrite forallb_app, IH, andb_true_r.
  unfold lost_evs. destruct (q_pkt x) as [|m qs d t| | | |]; try reflexivity.
  destruct ((qs =? 0) && q_info x); reflexivity.
Qed.

Lemma R_reconnect s k ok : Inv c s -> R s k ->
  R (fst (do_reconnect c s ok)) (fold_left hev (snd (do_reconnect c s ok)) k).
Proof.
  intros I (Hok & Hnx & _).
  pose proof (inv_reconnect c Hcfg s ok I) as I'.
  pose proof (reset_out_notwait c (clean_now c s) (out s) 0) as Hnw.
  unfold do_reconnect in *. destruct (reset_out_list c (clean_now c s) 0 (out s)) as [o n]. cbn [fst] in Hnw.
  destruct ok; cbn [fst snd] in *.
  - change (Reconn :: flat_map lost_evs (outq s) ++ [SockOpened (conn s + 1); Handed (conn s + 1) PConnect; Tx (conn s + 1) PConnect])
      with ((Reconn :: flat_map lost_evs (outq s)) ++ [SockOpened (conn s + 1); Handed (conn s + 1) PConnect; Tx (conn s + 1) PConnect]).
    rewrite fold_left_app, (hneutral_fold (Reconn :: _)) by (cbn [forallb hneutral andb]; apply lost_hneutral).
    cbn [fold_left hev k13_ev handed_sel k13_pkt ptag].
    split; [exact Hok|]. split; [exact Hnx|]. intros _.
    pose proof (inv_tags _ _ I') as Htg. pose proof (inv_ntag _ _ I') as Hnt. cbn [out ntag] in Htg, Hnt.
    constructor; cbn [k3_bound k3_seen k3_new out ntag].
    + lia.
    + intros t Ht. cbn [zin] in Ht. discriminate.
    + lia.
    + apply Forall_forall. intros m Hm.
      pose proof (proj1 (Forall_forall _ _) Hnw m Hm) as Hw. cbn beta in Hw.
      pose proof (proj1 (Forall_forall _ _) Htg m Hm) as Tm. cbn beta in Tm.
      unfold good, above. rewrite Hw. cbn [k3_bound k3_seen k3_new k3_old zin].
      split; [reflexivity|]. split; [|intros _; lia].
      replace (o_tag m <? k3_next k) with true by lia. lia.
  - change (Reconn :: flat_map lost_evs (outq s) ++ [Raised]) with ((Reconn :: flat_map lost_evs (outq s)) ++ [Raised]).
    rewrite hneutral_fold by (rewrite forallb_app; cbn [forallb hneutral andb]; rewrite lost_hneutral; reflexivity).
    apply R_closed; [exact Hok | exact Hnx | reflexivity].
Qed.

Lemma R_connlost s k : R s k ->
  R (fst (step c s OConnLost)) (fold_left hev (snd (step c s OConnLost)) k).
Proof.
  intros HR. cbn [step]. destruct (sock s) eqn:Hs; cbn [fst snd fold_left hev k13_ev handed_sel]; [|exact HR].
  destruct HR as (Hok & Hnx & _). apply R_closed; [exact Hok | exact Hnx | reflexivity].
Qed.

(* a reply (or CONNECT): not a packet the order checker looks at *)
Lemma R_send_plain s k x : (can_write s = true -> outq s = []) -> ptag (q_pkt x) = None -> R s k ->
  R (fst (send s x)) (fold_left hev (snd (send s x)) k).
Proof.
  intros Hi Hx HR. rewrite (send_hev s x k Hi). unfold k13_pkt. rewrite Hx.
  apply (R_ext s); [rewrite send_fst; reflexivity | rewrite send_fst; reflexivity | rewrite send_fst; reflexivity | exact HR].
Qed.

Lemma R_ack s k mid q : Inv c s -> R s k ->
  R (fst (do_ack c s mid q)) (fold_left hev (snd (do_ack c s mid q)) k).
Proof.
  intros I HR. unfold do_ack. destruct (c_manual c); [|exact HR].
  destruct (q =? 1); [apply R_send_plain; [exact (inv_qidle _ _ I) | reflexivity | exact HR]|].
  destruct (q =? 2); [apply R_send_plain; [exact (inv_qidle _ _ I) | reflexivity | exact HR] | exact HR].
Qed.

Lemma R_on_publish s k m : Inv c s -> sock s = true -> cack s = true ->
  In m (out s) -> is_wait m = true -> R s k ->
  R (fst (do_on_publish c s m)) (fold_left hev (snd (do_on_publish c s m)) k).
Proof.
  intros I Hs Hck Hin Hw (Hok & Hnx & Hrs).
  destruct (on_publish_char c Hcfg s m (inv_m _ _ I) Hs Hck Hin Hw)
    as (C1 & C2 & Q & j & n & So & Se & SQ & _ & _ & _ & _ & E).
  rewrite E. cbn [fst snd fold_left]. clear E.
  change (hev k (CbPublish (o_mid m) (o_tag m))) with k. change (hev k (Published (o_tag m))) with k.
  rewrite (hand_all_hev _ _ _ _ _ (inv_qidle _ _ I)).
  destruct (Hrs Hs) as [Hb Hse Hn Hg].
  pose proof (inv_sorted _ _ I) as Hso. pose proof (inv_tags _ _ I) as Htg. pose proof (inv_qos _ _ I) as Hqo.
  rewrite So in Hso, Htg, Hqo, Hg.
  apply Forall_app in Htg as [_ TQ]. apply Forall_app in Hqo as [_ QQ]. apply Forall_app in Hg as [GC GQ].
  apply Forall_remove in GC.
  rewrite tags_app in Hso. apply ss_app in Hso as (_ & SsQ & _).
  rewrite <- (firstn_skipn j Q), tags_app in SsQ. apply ss_app in SsQ as (Ss1 & _ & Hlt).
  set (L := firstn j Q) in *. set (T := skipn j Q) in *.
  assert (HL : forall x, In x L -> In x Q) by (intros x Hx; rewrite <- (firstn_skipn j Q); apply in_or_app; left; exact Hx).
  assert (HT : forall x, In x T -> In x Q) by (intros x Hx; rewrite <- (firstn_skipn j Q); apply in_or_app; right; exact Hx).
  rewrite fold_rel_pk by (apply Forall_forall; intros x Hx; exact (proj1 (Forall_forall _ _) QQ x (HL x Hx))).
  assert (Hnwq : forall x, In x Q -> zin (o_tag x) (k3_seen k) = false /\ above k (o_tag x)).
  { intros x Hx. pose proof (proj1 (Forall_forall _ _) GQ x Hx) as G. unfold good in G.
    rewrite (not_wait_of_queued x (proj1 (Forall_forall _ _) SQ x Hx)) in G. tauto. }
  assert (Hun : Forall (fun t => zin t (k3_seen k) = false) (tags L)).
  { unfold tags. apply Forall_map. apply Forall_forall. intros x Hx. apply (Hnwq x (HL x Hx)). }
  assert (Hab : Forall (above k) (tags L)).
  { unfold tags. apply Forall_map. apply Forall_forall. intros x Hx. apply (Hnwq x (HL x Hx)). }
  destruct (tx_fold (tags L) k Ss1 Hok Hun Hab) as (Ok1 & Nx1 & Bd1 & Sn1 & Ab1 & Nw1).
  assert (HtL : Forall (fun t => t < ntag s) (tags L)).
  { unfold tags. apply Forall_map. apply Forall_forall. intros x Hx.
    pose proof (proj1 (Forall_forall _ _) TQ x (HL x Hx)) as H. cbn beta in H. lia. }
  split; [exact Ok1|]. split; [rewrite Nx1; exact Hnx|]. intros _.
  constructor; cbn [out ntag with_out with_q].
  - rewrite Bd1. exact Hb.
  - intros t Ht. rewrite Sn1, zin_app in Ht. destruct (zin t (k3_seen k)) eqn:E1; [apply Hse; exact E1|].
    cbn [orb] in Ht. apply zin_In in Ht. exact (proj1 (Forall_forall _ _) HtL t Ht).
  - apply Nw1; assumption.
  - apply Forall_app. split; [|apply Forall_app; split].
    + apply Forall_forall. intros x Hx.
      pose proof (proj1 (Forall_forall _ _) Se x Hx) as Wx. cbn beta in Wx.
      pose proof (proj1 (Forall_forall _ _) GC x Hx) as G. unfold good in G. rewrite Wx in G.
      apply good_sent; [exact Wx|]. rewrite Sn1, zin_app, G. reflexivity.
    + apply Forall_map. apply Forall_forall. intros x Hx. apply good_sent; [apply rel1_wait|].
      rewrite rel1_tag, Sn1, zin_app. replace (zin (o_tag x) (tags L)) with true; [apply orb_true_r|].
      symmetry. apply zin_In. apply in_map. exact Hx.
    + apply Forall_forall. intros x Hx.
      assert (Hlx : Forall (fun t => t < o_tag x) (tags L)).
      { apply Forall_forall. intros t Ht. apply Hlt; [exact Ht|]. apply in_map. exact Hx. }
      eapply (good_keep k _ (tags L) (fun u => Forall (fun t => t < u) (tags L)));
        [exact Bd1 | exact Sn1 | exact Ab1 | exact (proj1 (Forall_forall _ _) GQ x (HT x Hx)) |].
      intros _. split; [|exact Hlx]. intros Hi.
      pose proof (proj1 (Forall_forall _ _) Hlx _ Hi) as Hc. cbn beta in Hc. lia.
Qed.

(* the accepting CONNACK: the stored messages not yet handed to this connection go out in list order *)
Lemma R_connack s k rc r : Inv c s -> sock s = true -> R s k ->
  R (fst (do_rx c s (IConnack rc) r)) (fold_left hev (snd (do_rx c s (IConnack rc) r)) k).
Proof.
  intros I Hs (Hok & Hnx & Hrs).
  destruct (rc =? 0) eqn:Erc.
  2:{ unfold do_rx. rewrite Hs. cbn [negb]. rewrite Erc. cbn [fst snd fold_left hev k13_ev handed_sel].
      apply R_closed; [exact Hok | exact Hnx | reflexivity]. }
  assert (rc = 0) by lia. subst rc.
  destruct (connack_char c s r I Hs) as (C & Q & So & Sh & E). rewrite E. cbn [fst snd fold_left]. clear E.
  change (hev k (Inp (IConnack 0))) with k. rewrite (hand_all_hev _ _ _ _ _ (inv_qidle _ _ I)).
  destruct (Hrs Hs) as [Hb Hse Hn Hg].
  pose proof (inv_sorted _ _ I) as Hso. pose proof (inv_tags _ _ I) as Htg. pose proof (inv_qos _ _ I) as Hqo.
  destruct Sh as [_ Si SC SU SQ Sm Sf Ss Se].
  rewrite So in Hso, Htg, Hqo, Hg.
  apply Forall_app in Htg as [TC TQ]. apply Forall_app in Hqo as [QC QQ]. apply Forall_app in Hg as [GC GQ].
  rewrite tags_app in Hso. apply ss_app in Hso as (SsC & _ & Hlt).
  rewrite (fold_cl_pk C k QC SC).
  set (P := filter pend C) in *.
  assert (HP : forall x, In x P -> In x C /\ is_wait x = false).
  { intros x Hx. apply filter_In in Hx as [H1 H2]. split; [exact H1|]. unfold pend in H2.
    destruct (is_wait x); [discriminate|reflexivity]. }
  assert (Hnw : forall x, In x P -> zin (o_tag x) (k3_seen k) = false /\ above k (o_tag x)).
  { intros x Hx. destruct (HP x Hx) as [H1 H2].
    pose proof (proj1 (Forall_forall _ _) GC x H1) as G. unfold good in G. rewrite H2 in G. tauto. }
  assert (Hun : Forall (fun t => zin t (k3_seen k) = false) (tags P)).
  { unfold tags. apply Forall_map. apply Forall_forall. intros x Hx. apply (Hnw x Hx). }
  assert (Hab : Forall (above k) (tags P)).
  { unfold tags. apply Forall_map. apply Forall_forall. intros x Hx. apply (Hnw x Hx). }
  pose proof (ss_filter_tags pend C SsC) as SsP. fold P in SsP.
  destruct (tx_fold (tags P) k SsP Hok Hun Hab) as (Ok1 & Nx1 & Bd1 & Sn1 & Ab1 & Nw1).
  assert (HtP : Forall (fun t => t < ntag s) (tags P)).
  { unfold tags. apply Forall_map. apply Forall_forall. intros x Hx.
    pose proof (proj1 (Forall_forall _ _) TC x (proj1 (HP x Hx))) as H. cbn beta in H. lia. }
  split; [exact Ok1|]. split; [rewrite Nx1; exact Hnx|]. intros _.
  constructor; cbn [out ntag with_out with_q connack_s1].
  - rewrite Bd1. exact Hb.
  - intros t Ht. rewrite Sn1, zin_app in Ht. destruct (zin t (k3_seen k)) eqn:E1; [apply Hse; exact E1|].
    cbn [orb] in Ht. apply zin_In in Ht. exact (proj1 (Forall_forall _ _) HtP t Ht).
  - apply Nw1; assumption.
  - apply Forall_app. split.
    + apply Forall_map. apply Forall_forall. intros x Hx.
      apply good_sent.
      * apply cl1_wait; [exact (proj1 (Forall_forall _ _) QC x Hx) | exact (proj1 (Forall_forall _ _) SC x Hx)].
      * rewrite cl1_tag, Sn1, zin_app. destruct (is_wait x) eqn:Wx.
        -- pose proof (proj1 (Forall_forall _ _) GC x Hx) as G. unfold good in G. rewrite Wx in G.
           rewrite G. reflexivity.
        -- replace (zin (o_tag x) (tags P)) with true; [apply orb_true_r|].
           symmetry. apply zin_In. apply in_map. apply filter_In. split; [exact Hx|].
           unfold pend. rewrite Wx. reflexivity.
    + apply Forall_forall. intros x Hx.
      assert (Hlx : Forall (fun t => t < o_tag x) (tags P)).
      { apply Forall_forall. intros t Ht. apply Hlt; [|apply in_map; exact Hx].
        unfold tags in Ht. apply in_map_iff in Ht as (y & <- & Hy). apply in_map. exact (proj1 (HP y Hy)). }
      eapply (good_keep k _ (tags P) (fun u => Forall (fun t => t < u) (tags P)));
        [exact Bd1 | exact Sn1 | exact Ab1 | exact (proj1 (Forall_forall _ _) GQ x Hx) |].
      intros _. split; [|exact Hlx]. intros Hi.
      pose proof (proj1 (Forall_forall _ _) Hlx _ Hi) as Hc. cbn beta in Hc. lia.
Qed.

Lemma R_with_inm s i k : R s k -> R (with_inm s i) k.
Proof. apply R_ext; reflexivity. Qed.

Lemma R_rx s k p r : Inv c s -> conf_op c s (ORx p r) = true -> R s k ->
  R (fst (do_rx c s p r)) (fold_left hev (snd (do_rx c s p r)) k).
Proof.
  intros I Hconf HR. cbn [conf_op] in Hconf. pose proof (inv_qidle _ _ I) as Hi.
  destruct (sock s) eqn:Hs.
  2:{ unfold do_rx. rewrite Hs. cbn [negb fst snd fold_left]. exact HR. }
  cbn [negb] in Hconf.
  assert (Hreply : forall s1 x pre, out s1 = out s -> ntag s1 = ntag s -> sock s1 = sock s ->
            outq s1 = outq s -> can_write s1 = can_write s -> ptag (q_pkt x) = None -> forallb hneutral pre = true ->
            R (fst (let (s2, ev2) := send s1 x in (s2, pre ++ ev2)))
              (fold_left hev (snd (let (s2, ev2) := send s1 x in (s2, pre ++ ev2))) k)).
  { intros s1 x pre E1 E2 E3 E4 E5 Hx Hpre.
    assert (Hi1 : can_write s1 = true -> outq s1 = []) by (rewrite E4, E5; exact Hi).
    assert (HR1 : R s1 k) by (apply (R_ext s); assumption).
    pose proof (R_send_plain s1 k x Hi1 Hx HR1) as H.
    destruct (send s1 x) as [s2 ev]. cbn [fst snd] in *. rewrite fold_left_app, (hneutral_fold pre k Hpre). exact H. }
  destruct p as [rc|mid|mid|mid|mid|q mid tag].
  - apply R_connack; assumption.
  - (* PUBACK *)
    unfold do_rx. rewrite Hs. cbn [negb].
    destruct (find_mid mid (out s)) as [m|] eqn:Ef; [|cbn [fst snd fold_left hev k13_ev handed_sel]; exact HR].
    pose proof (find_mid_In _ _ _ Ef) as [Hin Hmid].
    apply andb_true_iff in Hconf as [Hck Hconf]. apply andb_true_iff in Hconf as [Hconf _].
    apply andb_true_iff in Hconf as [Hq Hst].
    assert (Hw : is_wait m = true) by (unfold is_wait; destruct (o_st m); try reflexivity; discriminate).
    pose proof (R_on_publish s k m I Hs Hck Hin Hw HR) as H.
    destruct (do_on_publish c s m) as [s' ev]. cbn [fst snd fold_left hev k13_ev handed_sel] in *. exact H.
  - (* PUBREC *)
    unfold do_rx. rewrite Hs. cbn [negb].
    destruct (find_mid mid (out s)) as [m|] eqn:Ef; [|cbn [fst snd fold_left hev k13_ev handed_sel]; exact HR].
    pose proof (find_mid_In _ _ _ Ef) as [Hin Hmid].
    apply andb_true_iff in Hconf as [Hck Hconf]. apply andb_true_iff in Hconf as [Hq Hst].
    assert (Hw : is_wait m = true) by (unfold is_wait; destruct (o_st m); try reflexivity; discriminate).
    destruct HR as (Hok & Hnx & Hrs). destruct (Hrs Hs) as [Hb Hse Hn Hg].
    pose proof (proj1 (Forall_forall _ _) Hg m Hin) as Gm. unfold good in Gm. rewrite Hw in Gm.
    set (s1 := with_out s _ _). set (x := mkQ _ _).
    pose proof (send_hev s1 x k Hi) as E. pose proof (send_fst s1 x) as Efs.
    destruct (send s1 x) as [s2 ev]. cbn [fst snd fold_left] in *. change (hev k (Inp (IPubrec mid))) with k. rewrite E.
    change (k13_pkt k (q_pkt x)) with (k13_tx k (o_tag m)). rewrite (tx_seen k (o_tag m) Gm).
    split; [exact Hok|]. split; [rewrite Efs; exact Hnx|]. intros _. rewrite Efs.
    constructor; cbn [out ntag with_out with_q s1]; try assumption.
    eapply update_mid_Forall; [exact Ef | exact Hg |].
    apply good_sent; [reflexivity | exact Gm].
  - (* PUBCOMP *)
    unfold do_rx. rewrite Hs. cbn [negb].
    destruct (find_mid mid (out s)) as [m|] eqn:Ef; [|cbn [fst snd fold_left hev k13_ev handed_sel]; exact HR].
    pose proof (find_mid_In _ _ _ Ef) as [Hin Hmid].
    apply andb_true_iff in Hconf as [Hck Hconf]. apply andb_true_iff in Hconf as [Hconf _].
    apply andb_true_iff in Hconf as [Hq Hst].
    assert (Hw : is_wait m = true) by (unfold is_wait; destruct (o_st m); try reflexivity; discriminate).
    pose proof (R_on_publish s k m I Hs Hck Hin Hw HR) as H.
    destruct (do_on_publish c s m) as [s' ev]. cbn [fst snd fold_left hev k13_ev handed_sel] in *. exact H.
  - (* PUBREL: inbound flow, nothing the checker looks at *)
    unfold do_rx, deliver. rewrite Hs. cbn [negb].
    destruct (in_find mid (inm s)) as [tag|].
    + destruct (r && negb (c_suppress c)); [|destruct (c_manual c)];
        try (cbn [fst snd fold_left hev k13_ev handed_sel app]; apply R_with_inm; exact HR).
      apply (Hreply _ _ [Inp (IPubrel mid); CbMessage mid 2 tag]); reflexivity.
    + destruct (c_manual c); [cbn [fst snd fold_left hev k13_ev handed_sel]; exact HR|].
      apply (Hreply _ _ [Inp (IPubrel mid)]); reflexivity.
  - (* PUBLISH *)
    unfold do_rx, deliver. rewrite Hs. cbn [negb].
    destruct (q =? 0).
    + destruct (r && negb (c_suppress c)); cbn [fst snd fold_left hev k13_ev handed_sel]; exact HR.
    + destruct (q =? 1).
      * destruct (r && negb (c_suppress c)); [|destruct (c_manual c)];
          try (cbn [fst snd fold_left hev k13_ev handed_sel app]; exact HR).
        apply (Hreply _ _ [Inp (IPublish q mid tag); CbMessage mid 1 tag]); reflexivity.
      * pose proof (Hreply s (mkQ (PPubrec mid) false) [Inp (IPublish q mid tag)]
                      eq_refl eq_refl eq_refl eq_refl eq_refl eq_refl eq_refl) as H.
        destruct (send s (mkQ (PPubrec mid) false)) as [s2 ev2]. cbn [fst snd] in *.
        apply R_with_inm. exact H.
Qed.

Lemma R_block s k b : Inv c s -> R s k -> R (fst (do_block s b)) (fold_left hev (snd (do_block s b)) k).
Proof.
  intros I HR. unfold do_block. destruct (sock s); [|exact HR]. destruct b; cbn [fst snd lw].
  - cbn [fold_left hev k13_ev handed_sel]. apply (R_ext s); try reflexivity. exact HR.
  - cbn [fold_left]. change (hev k (Blk false)) with k. rewrite flush_hev. apply (R_ext s); try reflexivity. exact HR.
Qed.

Theorem R_step s k o : Inv c s -> conf_op c s o = true -> R s k ->
  R (fst (step c s o)) (fold_left hev (snd (step c s o)) k).
Proof.
  intros I Hc HR. destruct o as [q|ok| |p r|mid q|b]; cbn [step].
  - apply R_publish; assumption.
  - apply R_reconnect; assumption.
  - apply (R_connlost s k HR).
  - apply R_rx; assumption.
  - apply R_ack; assumption.
  - apply R_block; assumption.
Qed.

Lemma R_init : R (init c) k13_init.
Proof. apply R_closed; reflexivity. Qed.

End Preserve13.
