(* C13 on the second-generation Session model: publish() order of the hand-overs and of the writes, per connection.
   Operation-by-operation preservation for the two-mode operations is in LC13.v; lifted here to the model's runs for
   histories without hard write failures (Calm.v).  The transfer from hand-overs to writes (C13Transfer.v) and the
   FIFO discipline of the queue (FifoProofs.v) hold for arbitrary histories. *)
From PahoV Require Import Base.Prelude Codec.Mid Codec.MidProofs Session2.Model Session2.Check Session2.Statements
  Session2.Bridge Session2.Calm Session2.LLemmas Session2.LInv Session2.LC13 Session2.FifoProofs Session2.C13Transfer.
From PahoV Require Session2.Legacy.

Theorem c13_handed_calm_proved : C13_handed_calm_stmt.
Proof.
  intros c ops Hcfg Hc Hn. unfold c13_handed_ok, c13_gen_ok, optrace.
  destruct (lift_calm c (LInv.Inv c) (LInv.inv_step c Hcfg) k13 (fun k evs => fold_left hev evs k) (LC13.R)
              (fun s o k => LC13.R_step c Hcfg s k o) ops (init c) k13_init (LInv.inv_init c) eq_refl Hn Hc) as (s' & H & _).
  - apply R_closed; reflexivity.
  - exact H.
Qed.

(* the writes: the queue is a FIFO, so they inherit the order of the hand-overs *)
Theorem c13_tx_calm_proved : C13_tx_calm_stmt.
Proof.
  intros c ops Hcfg Hc Hn. apply c13_transfer_proved; [apply fifo_proved | apply c13_handed_calm_proved; assumption].
Qed.

Print Assumptions c13_handed_calm_proved.
Print Assumptions c13_tx_calm_proved.
