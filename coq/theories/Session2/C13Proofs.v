(* C13 on the second-generation Session model: publish() order of the hand-overs and of the writes, per connection.
   Operation-by-operation preservation for the two-mode operations is in LC13.v; lifted here to the model's runs for
   histories without hard write failures (Calm.v).  The transfer from hand-overs to writes (C13Transfer.v) and the
   FIFO discipline of the queue (FifoProofs.v) hold for arbitrary histories. *)
From PahoV Require Import Base.Prelude Codec.Mid Codec.MidProofs Session2.Model Session2.Check Session2.Statements
  Session2.Bridge Session2.Fail Session2.LLemmas Session2.LInv Session2.Inv Session2.Full Session2.LC13 Session2.FifoProofs Session2.C13Transfer.
From PahoV Require Session2.Legacy.

(* ================================================================ hard write failures *)
Section Order3.
Variable c : cfg.
Hypothesis Hcfg : cfg_ok c = true.

Lemma k13_tx_ok k t : k3_ok (k13_tx k t) = true -> k3_ok k = true.
Proof.
  unfold k13_tx. destruct (zin t (k3_seen k)); [exact (fun x => x)|].
  destruct (t <? k3_bound k); cbn [k3_ok]; intros H; apply andb_true_iff in H as [H _]; exact H.
Qed.
Lemma k13_tx_next k t : k3_next (k13_tx k t) = k3_next k.
Proof. unfold k13_tx. destruct (zin t (k3_seen k)); [reflexivity|]. destruct (t <? k3_bound k); reflexivity. Qed.

Lemma hev_ok k e : k3_ok (hev k e) = true -> k3_ok k = true.
Proof.
  destruct e; cbn [hev k13_ev handed_sel k3_ok]; try exact (fun x => x).
  unfold k13_pkt. destruct (ptag p); [apply k13_tx_ok | exact (fun x => x)].
Qed.
Lemma hev_fold_ok : forall evs k, k3_ok (fold_left hev evs k) = true -> k3_ok k = true.
Proof. induction evs as [|e evs IH]; intros k H; [exact H|]. cbn [fold_left] in H. apply (hev_ok k e). exact (IH _ H). Qed.

(* only publish() moves the tag counter of the checker *)
Definition noret (e : event) : bool := match e with Ret _ _ _ _ => false | _ => true end.
Lemma hev_next k e : noret e = true -> k3_next (hev k e) = k3_next k.
Proof.
  destruct e; cbn [noret hev k13_ev handed_sel k3_next]; try discriminate; try reflexivity.
  intros _. unfold k13_pkt. destruct (ptag p); [apply k13_tx_next | reflexivity].
Qed.
Lemma hev_fold_next : forall evs k, forallb noret evs = true -> k3_next (fold_left hev evs k) = k3_next k.
Proof.
  induction evs as [|e evs IH]; intros k H; [reflexivity|]. cbn [forallb] in H. apply andb_true_iff in H as [He H].
  cbn [fold_left]. rewrite (IH _ H). apply hev_next. exact He.
Qed.

Lemma R13_sf s b k : LC13.R s k -> LC13.R (set_failing s b) k.
Proof. intros H. exact (LC13.R_ext s (set_failing s b) k eq_refl eq_refl eq_refl H). Qed.

Lemma o3_pub0 s k : Inv c s -> dead s -> LC13.R s k ->
  LC13.R (fst (do_publish c s 0)) (fold_left hev (snd (do_publish c s 0)) k).
Proof.
  intros I Hd (Hok & Hnx & _). rewrite (publish0_dead c s Hd). cbn [fst snd].
  apply R_closed.
  - cbn [fold_left hev k13_ev handed_sel k13_pkt ptag Z.eqb k3_ok]. exact Hok.
  - cbn [fold_left hev k13_ev handed_sel k13_pkt ptag Z.eqb k3_next]. rewrite legacy_publish_ntag0. reflexivity.
  - reflexivity.
Qed.

Lemma o3_pubw s q k : Inv c s -> dead s -> pub_wrote c s q = true -> conf_op c s (OPublish q) = true -> LC13.R s k ->
  LC13.R (fst (do_publish c s q)) (fold_left hev (snd (do_publish c s q)) k).
Proof.
  intros I Hd Hw Hconf HR.
  pose proof (LC13.R_step c Hcfg s k (Legacy.OPublish q) I Hconf HR) as HL. cbn [Legacy.step] in HL.
  destruct (legacy_publish_dead_wrote c s q Hd Hw) as (sb & E & _ & En & _). rewrite E in HL. cbn [fst snd] in HL.
  destruct (legacy_publish_offline_wrote c (lost s) q eq_refl Hw) as (so & Eo & _ & Eno & _ & Hso).
  rewrite (publish_dead_wrote c s q Hd Hw), Eo. cbn [fst snd].
  destruct HL as (Hok & Hnx & _).
  apply R_closed.
  - exact Hok.
  - cbn [ntag with_q]. rewrite Eno. cbn [ntag lost with_sock]. rewrite <- En. exact Hnx.
  - cbn [sock with_q]. exact Hso.
Qed.

Lemma o3_connack s r k : Inv c s -> dead s -> cack s = false -> LC13.R s k ->
  LC13.R (fst (do_rx c s (IConnack 0) r)) (fold_left hev (snd (do_rx c s (IConnack 0) r)) k).
Proof.
  intros I Hd Hck HR. pose proof Hd as (Hs & _ & _).
  assert (Hconf : Legacy.conf_op c s (Legacy.ORx (IConnack 0) r) = true) by (cbn [Legacy.conf_op]; rewrite Hs, Hck; reflexivity).
  pose proof (LC13.R_step c Hcfg s k (Legacy.ORx (IConnack 0) r) I Hconf HR) as HL. cbn [Legacy.step] in HL.
  destruct (connack_dead_cases c s r Hd) as [E|[(sd & E & Hsd & _ & _ & En & _)|(sd & l1 & m & l2 & x & rest & E & Hsd & _ & _ & _ & En & _ & EL & _)]].
  - rewrite E. exact HL.
  - rewrite E. cbn [fst snd]. destruct HR as (Hok & Hnx & _). apply R_closed; [exact Hok | rewrite En; exact Hnx | exact Hsd].
  - rewrite E. cbn [fst snd]. rewrite EL in HL. destruct HL as (HokL & _ & _). destruct HR as (_ & Hnx & _).
    change (Inp (IConnack 0) :: Handed (conn s) (q_pkt x) :: rest) with ([Inp (IConnack 0); Handed (conn s) (q_pkt x)] ++ rest) in HokL.
    rewrite fold_left_app in HokL. apply hev_fold_ok in HokL.
    apply R_closed; [| | exact Hsd].
    + exact HokL.
    + rewrite En, <- Hnx. apply (hev_fold_next [Inp (IConnack 0); Handed (conn s) (q_pkt x); SockLost]). reflexivity.
Qed.

End Order3.

(* EVERY conforming history, hard write failures included *)
Theorem c13_handed_proved : C13_handed_stmt.
Proof.
  intros c ops Hcfg Hc. unfold c13_handed_ok, c13_gen_ok, optrace.
  destruct (lift_flat c Hcfg k13 hev LC13.R (fun s o k => LC13.R_step c Hcfg s k o) R13_sf
              (o3_pub0 c) (o3_pubw c Hcfg) (o3_connack c Hcfg) ops (init c) k13_init (inv3_init c) Hc) as (s' & H & _).
  - apply R_closed; reflexivity.
  - exact H.
Qed.

Theorem c13_tx_proved : C13_tx_stmt.
Proof.
  intros c ops Hcfg Hc. apply c13_transfer_proved; [apply fifo_proved | apply c13_handed_proved; assumption].
Qed.

Print Assumptions c13_handed_proved.
Print Assumptions c13_tx_proved.
