(* From the two-mode operations to the model's own operations, hard write failures included, for a relation [R]
   between model state and the state of a trace checker that folds over the events ([ev]): if [R] is preserved by
   every two-mode operation ([L]), does not look at the [failing] flag ([Rsf]), and is preserved by the three
   operations on a dead socket that are not "the two-mode operation, then the loss" - publish(qos=0) (the result
   code differs), publish(qos>0) that hands its PUBLISH over (the message leaves the window again) and the CONNACK
   retransmission loop (it stops) -, then it is preserved by every operation of the model, and holds along every
   conforming history. *)
From PahoV Require Import Base.Prelude Codec.Mid Codec.MidProofs Session2.Model Session2.Bridge Session2.Fail
  Session2.LLemmas Session2.LInv Session2.Inv.
From PahoV Require Session2.Legacy.

Section FullStep.
Variable c : cfg.
Hypothesis Hcfg : cfg_ok c = true.
(* [opf k evs]: the checker's state after the events of one operation *)
Variables (K : Type) (opf : K -> list event -> K) (R : sess -> K -> Prop).
Notation F := (fun evs k => opf k evs).
(* the loss of the connection at the end of an operation can be judged as an operation of its own *)
Hypothesis Hsplit : forall s1 k ev1, R s1 (opf k ev1) -> opf k (ev1 ++ [SockLost]) = opf (opf k ev1) [SockLost].

Hypothesis L : forall s o k, Inv c s -> Legacy.conf_op c s o = true -> R s k ->
  R (fst (Legacy.step c s o)) (F (snd (Legacy.step c s o)) k).
Hypothesis Rsf : forall s b k, R s k -> R (set_failing s b) k.
Hypothesis Hpub0 : forall s k, Inv c s -> dead s -> R s k ->
  R (fst (do_publish c s 0)) (F (snd (do_publish c s 0)) k).
Hypothesis Hpubw : forall s q k, Inv c s -> dead s -> pub_wrote c s q = true -> conf_op c s (OPublish q) = true -> R s k ->
  R (fst (do_publish c s q)) (F (snd (do_publish c s q)) k).
Hypothesis Hconn : forall s r k, Inv c s -> dead s -> cack s = false -> R s k ->
  R (fst (do_rx c s (IConnack 0) r)) (F (snd (do_rx c s (IConnack 0) r)) k).

(* the loss of the connection after a two-mode operation that kept the socket *)
Lemma R_lost s k : Inv c s -> sock s = true -> R s k -> R (lost s) (F [SockLost] k).
Proof.
  intros I Hs HR. pose proof (L s Legacy.OConnLost k I eq_refl HR) as H. cbn [Legacy.step] in H. rewrite Hs in H. exact H.
Qed.

Lemma R_fail_after s o k : Inv c s -> Legacy.conf_op c s o = true -> R s k ->
  sock (fst (Legacy.step c s o)) = true ->
  R (fst (fail_after (Legacy.step c s o))) (F (snd (fail_after (Legacy.step c s o))) k).
Proof.
  intros I Hc HR Hs. pose proof (L s o k I Hc HR) as H. pose proof (LInv.inv_step c Hcfg s o I Hc) as I'.
  unfold fail_after. destruct (wrote (snd (Legacy.step c s o))); [|exact H].
  cbn [fst snd]. rewrite (Hsplit _ _ _ H). apply R_lost; assumption.
Qed.

Lemma transport_fail_R s k : Inv c s -> sock s = true -> R s k ->
  R (fst (do_transport s TFail)) (F (snd (do_transport s TFail)) k).
Proof.
  intros I Hs HR. rewrite (transport_fail s Hs).
  pose proof (L s (Legacy.OBlock true) k I eq_refl HR) as H. pose proof (LInv.inv_step c Hcfg s (Legacy.OBlock true) I eq_refl) as I'.
  cbn [Legacy.step] in H, I'.
  assert (Hs' : sock (fst (Legacy.do_block s true)) = true) by (unfold Legacy.do_block; rewrite Hs; exact Hs).
  destruct (outq s); cbn [fst snd].
  - apply Rsf. exact H.
  - rewrite (Hsplit _ _ _ H). apply (R_lost (set_failing (fst (Legacy.do_block s true)) true)).
    + apply inv_set_failing. exact I'.
    + exact Hs'.
    + apply Rsf. exact H.
Qed.

Lemma rx_dead_R s p r k : Inv c s -> dead s -> (forall rc, p <> IConnack rc) -> conf_op c s (ORx p r) = true -> R s k ->
  R (fst (do_rx c s p r)) (F (snd (do_rx c s p r)) k).
Proof.
  intros I Hd Hp Hconf HR. pose proof Hd as (Hs & _ & _).
  assert (Hconf' : Legacy.conf_op c s (Legacy.ORx p r) = true) by exact Hconf.
  rewrite (rx_dead c s p r Hd (fun mid Hm => ui_le1_conf c Hcfg s p r I Hd Hconf' mid Hm)).
  - apply (R_fail_after s (Legacy.ORx p r) k I Hconf' HR). cbn [Legacy.step]. rewrite (legacy_rx_sock c s p r Hp). exact Hs.
  - intros rc E. exfalso. exact (Hp rc E).
Qed.

Theorem full_step s o k : Inv3 c s -> conf_op c s o = true -> R s k ->
  R (fst (step c s o)) (F (snd (step c s o)) k).
Proof.
  intros [I Hfb] Hconf HR.
  destruct (calm_dec s o) as [Hcalm|Hn].
  - rewrite (step_bridge c s o Hcalm). apply L; [exact I | rewrite <- conf_bridge; exact Hconf | exact HR].
  - apply not_calm in Hn. destruct (sock s) eqn:Hs.
    2:{ destruct Hn as [[Hx _]|Ho]; [discriminate|]. subst o. cbn [step]. unfold do_transport. rewrite Hs.
        pose proof (L s (Legacy.OBlock true) k I eq_refl HR) as H. cbn [Legacy.step] in H. unfold Legacy.do_block in H.
        rewrite Hs in H. exact H. }
    destruct (failing s) eqn:Hf.
    + assert (Hd : dead s) by (split; [exact Hs|]; split; [exact Hf | exact (Hfb eq_refl)]).
      destruct o as [q|ok| |p r|mid q|m]; cbn [step].
      * assert (Hq : Legacy.conf_op c s (Legacy.OPublish q) = true) by exact Hconf.
        destruct (q =? 0) eqn:Eq0.
        { assert (q = 0) by lia. subst q. apply Hpub0; assumption. }
        destruct (pub_wrote c s q) eqn:Ew; [apply Hpubw; assumption|].
        rewrite (publish_dead_nowrite c s q Hd Eq0 Ew). exact (L s (Legacy.OPublish q) k I Hq HR).
      * exact (L s (Legacy.OReconnect ok) k I eq_refl HR).
      * exact (L s Legacy.OConnLost k I eq_refl HR).
      * assert (Hconf' : Legacy.conf_op c s (Legacy.ORx p r) = true) by exact Hconf.
        destruct p as [rc|mid|mid|mid|mid|q mid tag].
        { destruct (Z.eq_dec rc 0) as [->|Hrc].
          - apply Hconn; try assumption. cbn [conf_op] in Hconf. rewrite Hs in Hconf. cbn [negb] in Hconf.
            destruct (cack s); [discriminate|reflexivity].
          - (* a refusing CONNACK: no write *)
            assert (E : do_rx c s (IConnack rc) r = Legacy.do_rx c s (IConnack rc) r).
            { unfold do_rx, Legacy.do_rx. rewrite Hs. cbn [negb]. replace (rc =? 0) with false by lia. reflexivity. }
            rewrite E. exact (L s (Legacy.ORx (IConnack rc) r) k I Hconf' HR). }
        all: apply rx_dead_R; try assumption; intros; discriminate.
      * rewrite (ack_dead c s mid q Hd). apply (R_fail_after s (Legacy.OAck mid q) k I eq_refl HR).
        cbn [Legacy.step]. rewrite legacy_ack_sock. exact Hs.
      * destruct m.
        -- rewrite (transport_accept s Hs). cbn [fst snd]. apply Rsf. exact (L s (Legacy.OBlock false) k I eq_refl HR).
        -- rewrite (transport_block s Hs). cbn [fst snd]. apply Rsf. exact (L s (Legacy.OBlock true) k I eq_refl HR).
        -- apply transport_fail_R; assumption.
    + destruct Hn as [[_ Hx]|Ho]; [discriminate|]. subst o. cbn [step]. apply transport_fail_R; assumption.
Qed.

(* along every conforming history *)
Lemma lift_full : forall ops s k, Inv3 c s -> conforming_from c s ops = true -> R s k ->
  exists s', R s' (fold_left opf (map snd (run_steps c s ops)) k).
Proof.
  induction ops as [|o ops IH]; intros s k I Hc HR; cbn [run_steps conforming_from] in *.
  - exists s. exact HR.
  - apply andb_true_iff in Hc as [Hc1 Hc2].
    pose proof (inv_step c Hcfg s o I Hc1) as I'. pose proof (full_step s o k I Hc1 HR) as HR'.
    destruct (step c s o) as [s1 e1]. cbn [fst snd map fold_left] in *.
    exact (IH s1 _ I' Hc2 HR').
Qed.

End FullStep.

(* checkers that fold over the events of the whole trace: the split is immediate *)
Section Flat.
Variable c : cfg.
Hypothesis Hcfg : cfg_ok c = true.
Variables (K : Type) (ev : K -> event -> K) (R : sess -> K -> Prop).
Notation F := (fold_left ev).
Hypothesis L : forall s o k, Inv c s -> Legacy.conf_op c s o = true -> R s k ->
  R (fst (Legacy.step c s o)) (F (snd (Legacy.step c s o)) k).
Hypothesis Rsf : forall s b k, R s k -> R (set_failing s b) k.
Hypothesis Hpub0 : forall s k, Inv c s -> dead s -> R s k ->
  R (fst (do_publish c s 0)) (F (snd (do_publish c s 0)) k).
Hypothesis Hpubw : forall s q k, Inv c s -> dead s -> pub_wrote c s q = true -> conf_op c s (OPublish q) = true -> R s k ->
  R (fst (do_publish c s q)) (F (snd (do_publish c s q)) k).
Hypothesis Hconn : forall s r k, Inv c s -> dead s -> cack s = false -> R s k ->
  R (fst (do_rx c s (IConnack 0) r)) (F (snd (do_rx c s (IConnack 0) r)) k).

Lemma lift_flat : forall ops s k, Inv3 c s -> conforming_from c s ops = true -> R s k ->
  exists s', R s' (fold_left (fun k0 evs => F evs k0) (map snd (run_steps c s ops)) k).
Proof.
  apply (lift_full c Hcfg K (fun k evs => F evs k) R); try assumption.
  intros s1 k ev1 _. apply fold_left_app.
Qed.
End Flat.
