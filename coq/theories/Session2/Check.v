(* Property statements of C01, C02, C03, C12, C13 and of the output-queue discipline (C06 flavour)
   as computable checkers over the op-structured trace (one list of events per operation) of the
   second-generation Session model, where a packet is first HANDED to the connection ([Handed])
   and written ([Tx]) only when the transport accepts it.  The same functions are (i) what the
   theorems in Props/ are about and (ii) extracted and applied to traces recorded from the
   implementation.  No proofs here. *)
From PahoV Require Import Base.Prelude Session2.Model.

Fixpoint zin (x : Z) (l : list Z) : bool :=
  match l with [] => false | y :: l' => (x =? y) || zin x l' end.
Definition zadd (x : Z) (l : list Z) : list Z := if zin x l then l else l ++ [x].
Fixpoint zrem (x : Z) (l : list Z) : list Z :=
  match l with [] => [] | y :: l' => if x =? y then zrem x l' else y :: zrem x l' end.
Definition zlen (l : list Z) : Z := Z.of_nat (length l).

(* live outgoing QoS>0 messages known from the trace: (tag, mid, qos) *)
Record lmsg := mkL { l_tag : Z; l_mid : Z; l_qos : Z }.
Fixpoint lfind_mid (mid : Z) (l : list lmsg) : option lmsg :=
  match l with [] => None | m :: l' => if l_mid m =? mid then Some m else lfind_mid mid l' end.
Fixpoint lrem_tag (tag : Z) (l : list lmsg) : list lmsg :=
  match l with [] => [] | m :: l' => if l_tag m =? tag then lrem_tag tag l' else m :: lrem_tag tag l' end.
Definition lhas_tag (tag : Z) (l : list lmsg) : bool := existsb (fun m => l_tag m =? tag) l.

(* the tag of a packet that occupies a slot of the in-flight window: PUBLISH with QoS>0, PUBREL *)
Definition ptag (p : pkt) : option Z :=
  match p with
  | PPublish _ q _ tag => if q =? 0 then None else Some tag
  | PPubrel _ tag => Some tag
  | _ => None
  end.
(* the two views of a trace: what was written, what was handed to the connection *)
Definition tx_sel (e : event) : option pkt := match e with Tx _ p => Some p | _ => None end.
Definition handed_sel (e : event) : option pkt := match e with Handed _ p => Some p | _ => None end.

Definition pkt_eqb (a b : pkt) : bool :=
  match a, b with
  | PConnect, PConnect => true
  | PPublish m q d t, PPublish m' q' d' t' => (m =? m') && (q =? q') && Bool.eqb d d' && (t =? t')
  | PPubrel m t, PPubrel m' t' => (m =? m') && (t =? t')
  | PPuback m, PPuback m' => m =? m'
  | PPubrec m, PPubrec m' => m =? m'
  | PPubcomp m, PPubcomp m' => m =? m'
  | _, _ => false
  end.

(* ------------------------------------------------------------------ C12: in-flight window *)
(* [sel] chooses the view: with [tx_sel] the checker counts the messages whose PUBLISH/PUBREL was
   WRITTEN on the current connection and not finally acknowledged; with [handed_sel] those HANDED
   to it (every written packet was handed first, so the second bound is the stronger one) *)
Record k12 := mkK12 { k12_un : list Z; k12_ok : bool }.
Definition k12_init := mkK12 [] true.
Definition k12_ev (sel : event -> option pkt) (n : Z) (k : k12) (e : event) : k12 :=
  match e with
  | SockOpened _ => mkK12 [] (k12_ok k)
  | CbPublish _ tag => mkK12 (zrem tag (k12_un k)) (k12_ok k)
  | _ =>
      match sel e with
      | Some p =>
          match ptag p with
          | Some tag => let u := zadd tag (k12_un k) in mkK12 u (k12_ok k && ((n =? 0) || (zlen u <=? n)))
          | None => k
          end
      | None => k
      end
  end.
Definition c12_gen_ok (sel : event -> option pkt) (c : cfg) (tr : list (list event)) : bool :=
  k12_ok (fold_left (fun k evs => fold_left (k12_ev sel (c_max c)) evs k) tr k12_init).
Definition c12_window_ok := c12_gen_ok tx_sel.
Definition c12_handed_ok := c12_gen_ok handed_sel.

(* queue bound: decided per publish from the number of live messages before the call *)
Record k12q := mkK12q { kq_live : list Z; kq_ok : bool }.
Definition k12q_ev (mq : Z) (k : k12q) (e : event) : k12q :=
  match e with
  | Ret tag _ q rc =>
      if q =? 0 then k else
      let full := (mq >? 0) && (zlen (kq_live k) >=? mq) in
      if full then mkK12q (kq_live k) (kq_ok k && (rc =? 15))
      else if rc =? 15 then k     (* refused because the fresh id is still in use (C14) *)
      else mkK12q (kq_live k ++ [tag]) (kq_ok k)
  | CbPublish _ tag => mkK12q (zrem tag (kq_live k)) (kq_ok k)
  | _ => k
  end.
Definition c12_queue_ok (c : cfg) (tr : list (list event)) : bool :=
  kq_ok (fold_left (fun k evs => fold_left (k12q_ev (c_maxq c)) evs k) tr (mkK12q [] true)).

(* ------------------------------------------------------------------ C02: no re-PUBLISH after PUBREC; DUP *)
Record k02 := mkK02 {
  k2_live : list lmsg;
  k2_h1 : list Z;        (* tags whose PUBLISH was handed to a connection at least once *)
  k2_h2 : list Z;        (* ... at least twice *)
  k2_sent : list Z;      (* tags whose PUBLISH was written at least once *)
  k2_rec : list Z;       (* tags of live messages past PUBREC *)
  k2_blk : bool;         (* the transport refuses writes *)
  k2_ok : bool }.
Definition k02_init := mkK02 [] [] [] [] [] false true.
Definition k02_ev (persistent : bool) (k : k02) (e : event) : k02 :=
  match e with
  | Ret tag mid q rc =>
      if (q >? 0) && ((rc =? 0) || (rc =? 4)) then
        mkK02 (k2_live k ++ [mkL tag mid q]) (k2_h1 k) (k2_h2 k) (k2_sent k) (k2_rec k) (k2_blk k) (k2_ok k)
      else k
  | Inp (IPubrec mid) =>
      match lfind_mid mid (k2_live k) with
      | Some m => mkK02 (k2_live k) (k2_h1 k) (k2_h2 k) (k2_sent k) (zadd (l_tag m) (k2_rec k)) (k2_blk k) (k2_ok k)
      | None => k
      end
  | Handed _ (PPublish _ q dup tag) =>
      (* the packet is formed here: a message never handed to a connection before carries DUP = 0,
         a QoS 0 PUBLISH never carries DUP *)
      let ok := (zin tag (k2_h1 k) || negb dup) && ((q >? 0) || negb dup) in
      mkK02 (k2_live k) (zadd tag (k2_h1 k)) (if zin tag (k2_h1 k) then zadd tag (k2_h2 k) else k2_h2 k)
            (k2_sent k) (k2_rec k) (k2_blk k) (k2_ok k && ok)
  | Tx _ (PPublish _ q dup tag) =>
      let ok := (negb persistent || negb (zin tag (k2_rec k)))   (* never again after PUBREC *)
                && (negb (zin tag (k2_sent k)) || dup)           (* an earlier connection carried it in full: DUP = 1 *)
                && (zin tag (k2_h2 k) || negb dup)               (* never handed before this hand-over: DUP = 0 *)
                && ((q >? 0) || negb dup) in                     (* QoS 0: never DUP *)
      mkK02 (k2_live k) (k2_h1 k) (k2_h2 k) (zadd tag (k2_sent k)) (k2_rec k) (k2_blk k) (k2_ok k && ok)
  | CbPublish _ tag =>
      mkK02 (lrem_tag tag (k2_live k)) (k2_h1 k) (k2_h2 k) (k2_sent k) (zrem tag (k2_rec k)) (k2_blk k) (k2_ok k)
  | SockOpened _ => mkK02 (k2_live k) (k2_h1 k) (k2_h2 k) (k2_sent k) (k2_rec k) false (k2_ok k)
  | Blk b => mkK02 (k2_live k) (k2_h1 k) (k2_h2 k) (k2_sent k) (k2_rec k) b (k2_ok k)
  | _ => k
  end.
(* in the operation that processes an accepting CONNACK every message that is past PUBREC has its
   PUBREL handed to the new connection - and written in that same operation unless the transport
   refuses writes *)
Definition is_connack0 (e : event) : bool := match e with Inp (IConnack rc) => rc =? 0 | _ => false end.
Definition pubrel_tags (sel : event -> option pkt) (evs : list event) : list Z :=
  flat_map (fun e => match sel e with Some (PPubrel _ tag) => [tag] | _ => [] end) evs.
Definition is_socklost (e : event) : bool := match e with SockLost => true | _ => false end.
(* ... provided the connection survives that operation: when a write fails hard inside it the connection is gone,
   and the PUBREL is handed to the next one *)
Definition k02_op (persistent : bool) (k : k02) (evs : list event) : k02 :=
  let k' := fold_left (k02_ev persistent) evs k in
  if persistent && existsb is_connack0 evs && negb (existsb is_socklost evs) then
    mkK02 (k2_live k') (k2_h1 k') (k2_h2 k') (k2_sent k') (k2_rec k') (k2_blk k')
          (k2_ok k' && forallb (fun t => zin t (pubrel_tags handed_sel evs)
                                         && (k2_blk k' || zin t (pubrel_tags tx_sel evs))) (k2_rec k))
  else k'.
(* the no-re-PUBLISH clauses apply to persistent sessions (clean_session=False, or MQTT 5 without
   clean start: with FIRST_ONLY every PUBREC follows a CONNACK, after which the session persists) *)
Definition c02_ok (c : cfg) (tr : list (list event)) : bool :=
  k2_ok (fold_left (k02_op (negb (c_clean c =? 1))) tr k02_init).

(* ------------------------------------------------------------------ C01: owned until final ack, completes once *)
Record k01 := mkK01 {
  k1_live : list lmsg;      (* accepted with QoS>0, not yet completed *)
  k1_q0 : list Z;           (* tags of QoS 0 publishes (learnt when their PUBLISH is handed over): not C01's business *)
  k1_done : list Z;         (* completed tags *)
  k1_onconn : list Z;       (* tags handed (PUBLISH or PUBREL) to the current connection *)
  k1_wr : list Z;           (* tags written (PUBLISH or PUBREL) on the current connection *)
  k1_est : bool;            (* an accepting CONNACK was processed on the current connection *)
  k1_blk : bool;            (* the transport refuses writes *)
  k1_ok : bool }.
Definition k01_init := mkK01 [] [] [] [] [] false false true.
Definition k01_ev (k : k01) (e : event) : k01 :=
  match e with
  | Ret tag mid q rc =>
      if (q >? 0) && ((rc =? 0) || (rc =? 4)) then
        mkK01 (k1_live k ++ [mkL tag mid q]) (k1_q0 k) (k1_done k) (k1_onconn k) (k1_wr k) (k1_est k) (k1_blk k) (k1_ok k)
      else k
  | Handed _ (PPublish _ q _ tag) =>
      if q =? 0 then mkK01 (k1_live k) (zadd tag (k1_q0 k)) (k1_done k) (k1_onconn k) (k1_wr k) (k1_est k) (k1_blk k) (k1_ok k)
      else mkK01 (k1_live k) (k1_q0 k) (k1_done k) (zadd tag (k1_onconn k)) (k1_wr k) (k1_est k) (k1_blk k) (k1_ok k)
  | Handed _ (PPubrel _ tag) =>
      mkK01 (k1_live k) (k1_q0 k) (k1_done k) (zadd tag (k1_onconn k)) (k1_wr k) (k1_est k) (k1_blk k) (k1_ok k)
  | Tx _ (PPublish _ q _ tag) =>
      if q =? 0 then k
      else mkK01 (k1_live k) (k1_q0 k) (k1_done k) (k1_onconn k) (zadd tag (k1_wr k)) (k1_est k) (k1_blk k) (k1_ok k)
  | Tx _ (PPubrel _ tag) =>
      mkK01 (k1_live k) (k1_q0 k) (k1_done k) (k1_onconn k) (zadd tag (k1_wr k)) (k1_est k) (k1_blk k) (k1_ok k)
  | CbPublish _ tag =>
      if zin tag (k1_q0 k) then k
      else mkK01 (k1_live k) (k1_q0 k) (k1_done k) (k1_onconn k) (k1_wr k) (k1_est k) (k1_blk k)
                 (k1_ok k && lhas_tag tag (k1_live k) && negb (zin tag (k1_done k)))
  | Published tag =>
      if zin tag (k1_q0 k) then k
      else mkK01 (lrem_tag tag (k1_live k)) (k1_q0 k) (k1_done k ++ [tag]) (k1_onconn k) (k1_wr k) (k1_est k) (k1_blk k)
                 (k1_ok k && lhas_tag tag (k1_live k) && negb (zin tag (k1_done k)))
  | InfoLost tag =>
      (* the result code of an accepted QoS>0 publish never turns into "connection lost": the client
         still owns the message *)
      if zin tag (k1_q0 k) then k
      else mkK01 (k1_live k) (k1_q0 k) (k1_done k) (k1_onconn k) (k1_wr k) (k1_est k) (k1_blk k) false
  | SockOpened _ => mkK01 (k1_live k) (k1_q0 k) (k1_done k) [] [] false false (k1_ok k)
  | SockLost => mkK01 (k1_live k) (k1_q0 k) (k1_done k) (k1_onconn k) (k1_wr k) false (k1_blk k) (k1_ok k)
  | Reconn => mkK01 (k1_live k) (k1_q0 k) (k1_done k) (k1_onconn k) (k1_wr k) false (k1_blk k) (k1_ok k)
  | Inp (IConnack rc) => mkK01 (k1_live k) (k1_q0 k) (k1_done k) (k1_onconn k) (k1_wr k) (rc =? 0) (k1_blk k) (k1_ok k)
  | Blk b => mkK01 (k1_live k) (k1_q0 k) (k1_done k) (k1_onconn k) (k1_wr k) (k1_est k) b (k1_ok k)
  | _ => k
  end.
(* completion happens only in the operation that processes the final acknowledgement of that id *)
Definition final_ack_of (m : lmsg) (e : event) : bool :=
  match e with
  | Inp (IPuback mid) => (l_qos m =? 1) && (mid =? l_mid m)
  | Inp (IPubcomp mid) => (l_qos m =? 2) && (mid =? l_mid m)
  | _ => false
  end.
Definition completed_tags (evs : list event) : list Z :=
  flat_map (fun e => match e with CbPublish _ tag => [tag] | Published tag => [tag] | _ => [] end) evs.
Definition k01_op (n : Z) (k : k01) (evs : list event) : k01 :=
  let k' := fold_left k01_ev evs k in
  (* every QoS>0 completion (on_publish, published flag) of this op belongs to a message that was
     live when the op began and whose final acknowledgement this op processes *)
  let ok1 := forallb (fun t =>
                 zin t (k1_q0 k')
                 || existsb (fun m => (l_tag m =? t) && existsb (final_ack_of m) evs) (k1_live k))
               (completed_tags evs) in
  (* on an established connection: every owned message has been handed to it - and written unless the
     transport refuses writes - or the window is full *)
  let unacked := filter (fun t => lhas_tag t (k1_live k')) (k1_onconn k') in
  let ok2 := negb (k1_est k') ||
             forallb (fun m => (zin (l_tag m) (k1_onconn k') && (k1_blk k' || zin (l_tag m) (k1_wr k')))
                               || ((n >? 0) && (zlen unacked >=? n))) (k1_live k') in
  mkK01 (k1_live k') (k1_q0 k') (k1_done k') (k1_onconn k') (k1_wr k') (k1_est k') (k1_blk k') (k1_ok k' && ok1 && ok2).
Definition c01_ok (c : cfg) (tr : list (list event)) : bool :=
  k1_ok (fold_left (k01_op (c_max c)) tr k01_init).

(* ------------------------------------------------------------------ C13: publish() order on the connection *)
(* per connection, the first hand-overs (resp. writes) of the messages accepted before the connection
   was opened, and of those accepted while it is open, follow publish() order *)
Record k13 := mkK13 { k3_next : Z; k3_bound : Z; k3_old : Z; k3_new : Z; k3_seen : list Z; k3_ok : bool }.
Definition k13_init := mkK13 0 0 (-1) (-1) [] true.
Definition k13_tx (k : k13) (tag : Z) : k13 :=
  if zin tag (k3_seen k) then k
  else if tag <? k3_bound k then
    mkK13 (k3_next k) (k3_bound k) tag (k3_new k) (k3_seen k ++ [tag]) (k3_ok k && (k3_old k <? tag))
  else
    mkK13 (k3_next k) (k3_bound k) (k3_old k) tag (k3_seen k ++ [tag]) (k3_ok k && (k3_new k <? tag)).
Definition k13_pkt (k : k13) (p : pkt) : k13 :=
  match ptag p with Some tag => k13_tx k tag | None => k end.
Definition k13_ev (sel : event -> option pkt) (k : k13) (e : event) : k13 :=
  match e with
  | Ret tag _ _ _ => mkK13 (tag + 1) (k3_bound k) (k3_old k) (k3_new k) (k3_seen k) (k3_ok k)
  | SockOpened _ => mkK13 (k3_next k) (k3_next k) (-1) (-1) [] (k3_ok k)
  | _ => match sel e with Some p => k13_pkt k p | None => k end
  end.
Definition c13_gen_ok (sel : event -> option pkt) (tr : list (list event)) : bool :=
  k3_ok (fold_left (fun k evs => fold_left (k13_ev sel) evs k) tr k13_init).
Definition c13_tx_ok (c : cfg) := c13_gen_ok tx_sel.
Definition c13_handed_ok (c : cfg) := c13_gen_ok handed_sel.

(* ------------------------------------------------------------------ the output queue (C06 flavour, C13 FIFO) *)
(* Between two reconnect() calls the written packets are, in order, exactly the first handed packets:
   nothing is reordered, duplicated or invented; what is missing at the end was dropped by reconnect()
   or is still queued.  Packets are written only on an open, accepting socket and carry the number of
   the current connection; at the end of every operation on an open socket that accepts writes nothing
   is left in the queue. *)
Record kf := mkKf { kf_q : list pkt; kf_open : bool; kf_blk : bool; kf_cn : Z; kf_ok : bool }.
Definition kf_init := mkKf [] false false 0 true.
Definition kf_ev (k : kf) (e : event) : kf :=
  match e with
  | Handed c p => mkKf (kf_q k ++ [p]) (kf_open k) (kf_blk k) (kf_cn k) (kf_ok k && (c =? kf_cn k))
  | Tx c p =>
      match kf_q k with
      | p' :: q' => mkKf q' (kf_open k) (kf_blk k) (kf_cn k)
                         (kf_ok k && kf_open k && negb (kf_blk k) && (c =? kf_cn k) && pkt_eqb p p')
      | [] => mkKf [] (kf_open k) (kf_blk k) (kf_cn k) false
      end
  | Reconn => mkKf [] false false (kf_cn k) (kf_ok k)          (* whatever was queued is dropped *)
  | SockOpened c => mkKf [] true false c (kf_ok k)
  | SockLost => mkKf (kf_q k) false (kf_blk k) (kf_cn k) (kf_ok k)
  | Blk b => mkKf (kf_q k) (kf_open k) b (kf_cn k) (kf_ok k)
  | _ => k
  end.
Definition kf_op (k : kf) (evs : list event) : kf :=
  let k' := fold_left kf_ev evs k in
  mkKf (kf_q k') (kf_open k') (kf_blk k') (kf_cn k')
       (kf_ok k' && (negb (kf_open k') || kf_blk k' || match kf_q k' with [] => true | _ => false end)).
Definition fifo_ok (tr : list (list event)) : bool :=
  kf_ok (fold_left kf_op tr kf_init).

(* ------------------------------------------------------------------ C03: the abstract receiver *)
(* The inbound-visible events of one operation, predicted from the pending map alone: the callbacks
   and the replies HANDED to the connection in that operation (when they are written is the queue's
   business, see [fifo_ok]: in order, in the same operation unless the transport refuses writes;
   replies still queued when reconnect() runs are dropped - the broker redelivers). *)
Definition inbound_ev (e : event) : bool :=
  match e with
  | CbMessage _ _ _ => true
  | Handed _ (PPuback _) | Handed _ (PPubrec _) | Handed _ (PPubcomp _) => true
  | _ => false
  end.
Definition raised_in (evs : list event) : bool :=
  existsb (fun e => match e with Raised => true | _ => false end) evs.
Fixpoint first_in (evs : list event) : option inpkt :=
  match evs with [] => None | Inp p :: _ => Some p | _ :: l => first_in l end.

Record k03 := mkK03 { k03_pend : list (Z * Z); k03_first : bool; k03_ok : bool }.
Definition k03_init := mkK03 [] true true.

Definition spec_recv (c : cfg) (pend : list (Z * Z)) (p : inpkt) (raised : bool) : list (Z * Z) * list event :=
  match p with
  | IPublish q mid tag =>
      if q =? 0 then (pend, [CbMessage 0 0 tag])
      else if q =? 1 then
        (pend, CbMessage mid 1 tag :: (if raised || c_manual c then [] else [Handed 0 (PPuback mid)]))
      else (in_set mid tag pend, [Handed 0 (PPubrec mid)])
  | IPubrel mid =>
      match in_find mid pend with
      | Some tag => (in_remove mid pend,
                     CbMessage mid 2 tag :: (if raised || c_manual c then [] else [Handed 0 (PPubcomp mid)]))
      | None => (pend, if c_manual c then [] else [Handed 0 (PPubcomp mid)])
      end
  | _ => (pend, [])
  end.

Fixpoint evlist_eqb (a b : list event) : bool :=
  match a, b with
  | [], [] => true
  | CbMessage m q t :: a', CbMessage m' q' t' :: b' => (m =? m') && (q =? q') && (t =? t') && evlist_eqb a' b'
  | Handed _ (PPuback m) :: a', Handed _ (PPuback m') :: b' => (m =? m') && evlist_eqb a' b'
  | Handed _ (PPubrec m) :: a', Handed _ (PPubrec m') :: b' => (m =? m') && evlist_eqb a' b'
  | Handed _ (PPubcomp m) :: a', Handed _ (PPubcomp m') :: b' => (m =? m') && evlist_eqb a' b'
  | _, _ => false
  end.

Definition is_ack_only (evs : list event) : bool :=
  forallb (fun e => match e with Handed _ (PPuback _) | Handed _ (PPubcomp _) => true | _ => false end) evs.

Definition k03_op (c : cfg) (k : k03) (evs : list event) : k03 :=
  let clean := if c_clean c =? 0 then false else if c_clean c =? 1 then true else k03_first k in
  let inb := filter inbound_ev evs in
  if existsb (fun e => match e with Reconn => true | _ => false end) evs then
    mkK03 (if clean then [] else k03_pend k) (k03_first k) (k03_ok k && match inb with [] => true | _ => false end)
  else
  match first_in evs with
  | Some (IConnack _) => mkK03 (k03_pend k) false (k03_ok k && match inb with [] => true | _ => false end)
  | Some p =>
      let (pend', expect) := spec_recv c (k03_pend k) p (raised_in evs) in
      mkK03 pend' (k03_first k) (k03_ok k && evlist_eqb inb expect)
  | None =>
      (* no broker packet processed: only ack() may hand over acknowledgements, and only with manual_ack *)
      mkK03 (k03_pend k) (k03_first k)
            (k03_ok k && (match inb with [] => true | _ => c_manual c && is_ack_only inb end))
  end.
Definition c03_ok (c : cfg) (tr : list (list event)) : bool :=
  k03_ok (fold_left (k03_op c) tr k03_init).

(* the trace of a run, one event list per operation *)
Definition optrace (c : cfg) (ops : list op) : list (list event) :=
  map snd (run_steps c (init c) ops).
