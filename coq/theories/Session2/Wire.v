(* Flat integer encoding of ops, events and state projections for the correspondence driver
   (second-generation Session model: output queue, blocked transport). *)
From PahoV Require Import Base.Prelude Session2.Model.

Definition b2z (b : bool) : Z := if b then 1 else 0.
Definition z2b (z : Z) : bool := negb (z =? 0).

Definition dec_inpkt (pk a b c : Z) : inpkt :=
  if pk =? 0 then IConnack a
  else if pk =? 1 then IPuback a
  else if pk =? 2 then IPubrec a
  else if pk =? 3 then IPubcomp a
  else if pk =? 4 then IPubrel a
  else IPublish a b c.

Definition dec_op (k a b c d e : Z) : op :=
  if k =? 0 then OPublish a
  else if k =? 1 then OReconnect (z2b a)
  else if k =? 2 then OConnLost
  else if k =? 3 then ORx (dec_inpkt a b c d) (z2b e)
  else if k =? 4 then OAck a b
  else OTransport (if a =? 1 then TBlock else if a =? 2 then TFail else TAccept).

Fixpoint dec_ops (fuel : nat) (l : list Z) : list op :=
  match fuel with
  | O => []
  | S f =>
      match l with
      | k :: a :: b :: c :: d :: e :: l' => dec_op k a b c d e :: dec_ops f l'
      | _ => []
      end
  end.

Definition st_code (s : mstate) : Z :=
  match s with
  | MsPublish => 1 | MsWaitPuback => 2 | MsWaitPubrec => 3
  | MsResendPubrel => 4 | MsWaitPubcomp => 5 | MsQueued => 6
  end.

Definition enc_pkt (p : pkt) : list Z :=
  match p with
  | PConnect => [0; 0; 0; 0]
  | PPublish mid q dup tag => [1; mid; q * 2 + b2z dup; tag]
  | PPubrel mid tag => [2; mid; 0; tag]
  | PPuback mid => [3; mid; 0; 0]
  | PPubrec mid => [4; mid; 0; 0]
  | PPubcomp mid => [5; mid; 0; 0]
  end.

Definition enc_inpkt (p : inpkt) : list Z :=
  match p with
  | IConnack rc => [0; rc; 0; 0]
  | IPuback m => [1; m; 0; 0]
  | IPubrec m => [2; m; 0; 0]
  | IPubcomp m => [3; m; 0; 0]
  | IPubrel m => [4; m; 0; 0]
  | IPublish q m t => [5; q; m; t]
  end.

Definition enc_event (e : event) : list Z :=
  match e with
  | Tx c p => 0 :: c :: enc_pkt p
  | Ret tag mid q rc => [1; tag; mid; q; rc; 0]
  | CbPublish mid tag => [2; mid; tag; 0; 0; 0]
  | Published tag => [3; tag; 0; 0; 0; 0]
  | CbMessage mid q tag => [4; mid; q; tag; 0; 0]
  | Raised => [5; 0; 0; 0; 0; 0]
  | Inp p => 6 :: enc_inpkt p ++ [0]
  | SockOpened c => [7; c; 0; 0; 0; 0]
  | SockLost => [8; 0; 0; 0; 0; 0]
  | Reconn => [9; 0; 0; 0; 0; 0]
  | Handed c p => 10 :: c :: enc_pkt p
  | InfoLost tag => [11; tag; 0; 0; 0; 0]
  | Blk b => [12; b2z b; 0; 0; 0; 0]
  end.

Definition dec_pkt (k a b c : Z) : pkt :=
  if k =? 0 then PConnect
  else if k =? 1 then PPublish a (b / 2) (z2b (b mod 2)) c
  else if k =? 2 then PPubrel a c
  else if k =? 3 then PPuback a
  else if k =? 4 then PPubrec a
  else PPubcomp a.

Definition dec_event (k a b c d e : Z) : event :=
  if k =? 0 then Tx a (dec_pkt b c d e)
  else if k =? 1 then Ret a b c d
  else if k =? 2 then CbPublish a b
  else if k =? 3 then Published a
  else if k =? 4 then CbMessage a b c
  else if k =? 5 then Raised
  else if k =? 6 then Inp (dec_inpkt a b c d)
  else if k =? 7 then SockOpened a
  else if k =? 8 then SockLost
  else if k =? 9 then Reconn
  else if k =? 10 then Handed a (dec_pkt b c d e)
  else if k =? 11 then InfoLost a
  else Blk (z2b a).

Fixpoint dec_events (fuel : nat) (l : list Z) : list event :=
  match fuel with
  | O => []
  | S f =>
      match l with
      | k :: a :: b :: c :: d :: e :: l' => dec_event k a b c d e :: dec_events f l'
      | _ => []
      end
  end.

Definition enc_omsg (m : omsg) : list Z :=
  [o_mid m; o_qos m; st_code (o_st m); b2z (o_dup m); o_tag m].

Definition enc_state (s : sess) : list Z :=
  [inflight s; b2z (sock s); b2z (first s); Z.of_nat (length (out s))]
  ++ flat_map enc_omsg (out s)
  ++ [Z.of_nat (length (inm s))]
  ++ flat_map (fun p => [fst p; snd p]) (inm s)
  ++ [(if sock s then match tm s with TAccept => 0 | TBlock => 1 | TFail => 2 end else 0); Z.of_nat (length (outq s))]
  ++ flat_map (fun x => enc_pkt (q_pkt x) ++ [b2z (q_info x)]) (outq s).

Definition enc_step (r : sess * list event) : list Z :=
  Z.of_nat (length (snd r)) :: flat_map enc_event (snd r) ++ enc_state (fst r).

Definition dec_cfg (a b c d e : Z) : cfg := mkCfg a b c (z2b d) (z2b e).

(* [clean; max; maxq; manual; suppress; op...] -> per op: [nev; events...; state...] concatenated,
   followed by [conforming] *)
Definition entry_session (args : list Z) : list Z :=
  match args with
  | a :: b :: c :: d :: e :: rest =>
      let cf := dec_cfg a b c d e in
      let ops := dec_ops (length rest) rest in
      flat_map enc_step (run_steps cf (init cf) ops) ++ [b2z (conforming cf ops)]
  | _ => []
  end.

(* [clean; max; maxq; manual; suppress; (nev; events...)*] ->
   [c01; c02; c03; c12 window (written); c12 window (handed); c12 queue; c13 (written); c13 (handed); fifo] *)
From PahoV Require Import Session2.Check.
Fixpoint dec_optrace (fuel : nat) (l : list Z) : list (list event) :=
  match fuel with
  | O => []
  | S f =>
      match l with
      | n :: l' =>
          let k := Z.to_nat (6 * n) in
          dec_events (Z.to_nat n) (firstn k l') :: dec_optrace f (skipn k l')
      | [] => []
      end
  end.
Definition entry_check (args : list Z) : list Z :=
  match args with
  | a :: b :: c :: d :: e :: rest =>
      let cf := dec_cfg a b c d e in
      let tr := dec_optrace (length rest) rest in
      [b2z (c01_ok cf tr); b2z (c02_ok cf tr); b2z (c03_ok cf tr);
       b2z (c12_window_ok cf tr); b2z (c12_handed_ok cf tr); b2z (c12_queue_ok cf tr);
       b2z (c13_tx_ok cf tr); b2z (c13_handed_ok cf tr); b2z (fifo_ok tr)]
  | _ => []
  end.
