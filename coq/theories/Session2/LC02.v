(* C02 on the second-generation Session model: no PUBLISH is written again after PUBREC in a persistent
   session; PUBREL is handed to the connection in the operation of every accepting CONNACK (and written
   there unless the transport refuses writes); DUP: a PUBLISH that was written before carries DUP = 1,
   a message never handed to a connection before carries DUP = 0, QoS 0 never carries DUP - for every
   protocol-conforming history. *)
From PahoV Require Import Base.Prelude Codec.Mid Codec.MidProofs Session2.Model Session2.Legacy Session2.Check
  Session2.LLemmas Session2.LInv Session2.Statements.
From Coq Require Import Sorting.Sorted.

(* ---------------------------------------------------------------- sets of tags *)
Lemma zin_app x l l' : zin x (l ++ l') = zin x l || zin x l'.
Proof.
  induction l as [|y l IH]; cbn [zin app]; [reflexivity|]. rewrite IH, orb_assoc. reflexivity.
Qed.

Lemma zin_zadd x y l : zin x (zadd y l) = (x =? y) || zin x l.
Proof.
  unfold zadd. destruct (zin y l) eqn:E.
  - destruct (x =? y) eqn:E2; [|reflexivity]. assert (x = y) by lia. subst. rewrite E. reflexivity.
  - rewrite zin_app. cbn [zin]. rewrite orb_false_r. apply orb_comm.
Qed.

Lemma zin_zrem x y l : zin x (zrem y l) = negb (x =? y) && zin x l.
Proof.
  induction l as [|z l IH]; cbn [zrem zin]; [rewrite andb_false_r; reflexivity|].
  destruct (y =? z) eqn:E.
  - rewrite IH. destruct (x =? y) eqn:E1; destruct (x =? z) eqn:E2; cbn [negb andb orb]; try reflexivity.
    exfalso; lia.
  - cbn [zin]. rewrite IH. destruct (x =? y) eqn:E1; destruct (x =? z) eqn:E2; cbn [negb andb orb]; try reflexivity.
    exfalso; lia.
Qed.

Lemma zin_In x l : zin x l = true <-> In x l.
Proof.
  induction l as [|y l IH]; cbn [zin In]; [split; [discriminate|intros []]|].
  rewrite orb_true_iff, IH. split; (intros [H|H]; [left; lia | right; exact H]).
Qed.

Lemma zin_notin x l : ~ In x l -> zin x l = false.
Proof. intros H. destruct (zin x l) eqn:E; [|reflexivity]. exfalso. apply H. apply zin_In. exact E. Qed.

(* ---------------------------------------------------------------- the live list mirrors out *)
Definition lm (m : omsg) : lmsg := mkL (o_tag m) (o_mid m) (o_qos m).

Lemma lfind_mid_map mid l : lfind_mid mid (map lm l) = option_map lm (find_mid mid l).
Proof.
  induction l as [|x l IH]; cbn [map lfind_mid find_mid]; [reflexivity|].
  change (l_mid (lm x)) with (o_mid x). destruct (o_mid x =? mid); [reflexivity | exact IH].
Qed.

Lemma lrem_tag_app tag a b : lrem_tag tag (a ++ b) = lrem_tag tag a ++ lrem_tag tag b.
Proof.
  induction a as [|x a IH]; cbn [app lrem_tag]; [reflexivity|].
  destruct (l_tag x =? tag); [exact IH | cbn [app]; f_equal; exact IH].
Qed.

Lemma lrem_tag_notin tag l : ~ In tag (tags l) -> lrem_tag tag (map lm l) = map lm l.
Proof.
  induction l as [|x l IH]; cbn [map lrem_tag tags]; [reflexivity|]. intros H.
  change (l_tag (lm x)) with (o_tag x). destruct (o_tag x =? tag) eqn:E.
  - exfalso. apply H. left. lia.
  - f_equal. apply IH. intros H1. apply H. right. exact H1.
Qed.

Lemma lrem_tag_split l1 m l2 : NoDup (tags (l1 ++ m :: l2)) ->
  lrem_tag (o_tag m) (map lm (l1 ++ m :: l2)) = map lm (l1 ++ l2).
Proof.
  rewrite tags_app. cbn [tags map]. intros H. apply NoDup_remove_2 in H.
  rewrite !map_app, lrem_tag_app. cbn [map lrem_tag]. change (l_tag (lm m)) with (o_tag m).
  rewrite Z.eqb_refl. rewrite !lrem_tag_notin; [reflexivity| |].
  - intros H1. apply H. apply in_or_app. right. exact H1.
  - intros H1. apply H. apply in_or_app. left. exact H1.
Qed.

Lemma tag_inj l a b : NoDup (tags l) -> In a l -> In b l -> o_tag a = o_tag b -> a = b.
Proof.
  induction l as [|x l IH]; cbn [tags map]; intros Hn Ha Hb E; [destruct Ha|].
  inversion Hn as [|? ? Hx Hn']; subst.
  destruct Ha as [->|Ha]; destruct Hb as [->|Hb]; [reflexivity| | |apply IH; assumption].
  - exfalso. apply Hx. rewrite E. apply (in_map o_tag). exact Hb.
  - exfalso. apply Hx. rewrite <- E. apply (in_map o_tag). exact Ha.
Qed.

Lemma SSorted_NoDup (l : list Z) : StronglySorted Z.lt l -> NoDup l.
Proof.
  induction 1 as [|a l Hs IH Hf]; constructor; [|assumption].
  intros Hin. rewrite Forall_forall in Hf. specialize (Hf a Hin). lia.
Qed.

Lemma NoDup_map_filter {A B} (g : A -> B) (f : A -> bool) l : NoDup (map g l) -> NoDup (map g (filter f l)).
Proof.
  induction l as [|x l IH]; cbn [map filter]; intros H; [constructor|].
  inversion H as [|? ? Hx Hn]; subst. destruct (f x); [|apply IH; exact Hn].
  cbn [map]. constructor; [|apply IH; exact Hn].
  intros Hin. apply Hx. apply in_map_iff in Hin as (y & Hy & Hin). apply filter_In in Hin as [Hin _].
  rewrite <- Hy. apply in_map. exact Hin.
Qed.

Lemma NoDup_app_l {A} (a b : list A) : NoDup (a ++ b) -> NoDup a.
Proof.
  induction a as [|x a IH]; cbn [app]; intros H; [constructor|].
  inversion H as [|? ? Hx Hn]; subst. constructor; [|apply IH; exact Hn].
  intros Hin. apply Hx. apply in_or_app. left. exact Hin.
Qed.
Lemma NoDup_app_r {A} (a b : list A) : NoDup (a ++ b) -> NoDup b.
Proof.
  induction a as [|x a IH]; cbn [app]; intros H; [exact H|].
  inversion H; subst. apply IH. assumption.
Qed.
Lemma NoDup_app_disj {A} (a b : list A) x : NoDup (a ++ b) -> In x a -> In x b -> False.
Proof.
  induction a as [|y a IH]; cbn [app]; intros H Ha Hb; [destruct Ha|].
  inversion H as [|? ? Hy Hn]; subst. destruct Ha as [->|Ha].
  - apply Hy. apply in_or_app. right. exact Hb.
  - exact (IH Hn Ha Hb).
Qed.

Lemma zin_tags t l : zin t (tags l) = true <-> exists m, In m l /\ o_tag m = t.
Proof.
  rewrite zin_In. unfold tags. rewrite in_map_iff. split; intros (m & H1 & H2); exists m; tauto.
Qed.

(* ---------------------------------------------------------------- per-message facts *)
Definition snt (m : omsg) : bool :=
  is_wait m || match o_st m with MsResendPubrel => true | _ => false end || o_dup m.
Definition isrec (m : omsg) : bool :=
  match o_st m with MsWaitPubcomp | MsResendPubrel => true | _ => false end.
Definition isresend (m : omsg) : bool :=
  match o_st m with MsResendPubrel => true | _ => false end.
Definition isPub (m : omsg) : bool :=
  match o_st m with MsPublish => true | _ => false end.

Ltac mcrush :=
  let mid := fresh "mid" in let q := fresh "q" in let st := fresh "st" in
  let d := fresh "d" in let t := fresh "t" in
  match goal with m : omsg |- _ => destruct m as [mid q st d t] end;
  unfold snt, isrec, isresend, isPub, lm, qos_okb, reset1, toQ, cl1, rel1, wait_of, is_queued, is_wait,
    set_st, set_st_dup in *; cbn in *;
  destruct (q =? 1) eqn:?; destruct (q =? 2) eqn:?; destruct st; cbn in *;
  repeat match goal with H : (_ =? _) = _ |- _ => rewrite H in * end; cbn in *;
  intros; try reflexivity; try discriminate; try lia; try tauto.

Lemma lm_reset1 cl m : lm (reset1 cl m) = lm m.
Proof. destruct cl; mcrush. Qed.
Lemma lm_toQ m : lm (toQ m) = lm m.
Proof. reflexivity. Qed.
Lemma lm_cl1 m : lm (cl1 m) = lm m.
Proof. mcrush. Qed.
Lemma lm_rel1 m : lm (rel1 m) = lm m.
Proof. reflexivity. Qed.

Lemma snt_reset1 cl m : qos_okb m = true -> snt (reset1 cl m) = snt m.
Proof. destruct cl; mcrush. Qed.
Lemma snt_toQ m : o_st m = MsPublish \/ o_st m = MsQueued -> snt (toQ m) = snt m.
Proof. intros [H|H]; mcrush. Qed.
Lemma snt_rel1 m : snt (rel1 m) = true.
Proof. mcrush. Qed.
Lemma snt_cl1_pub m : isPub m = true -> snt (cl1 m) = true.
Proof. mcrush. Qed.
Lemma snt_cl1_other m : isPub m = false -> snt (cl1 m) = snt m.
Proof. mcrush. Qed.
Lemma snt_queued m : is_queued m = true -> snt m = o_dup m.
Proof. mcrush. Qed.
Lemma snt_pub m : isPub m = true -> snt m = o_dup m.
Proof. mcrush. Qed.
Lemma snt_wait m : is_wait m = true -> snt m = true.
Proof. mcrush. Qed.
Lemma qos_pos m : qos_okb m = true -> 0 < o_qos m.
Proof. mcrush. Qed.
Lemma rec_reset1 m : o_qos m = 2 -> isrec m = true ->
  isrec (reset1 false m) = true /\ isresend (reset1 false m) = true.
Proof. mcrush. Qed.
Lemma rec_cl1 m : isrec m = true -> isrec (cl1 m) = true.
Proof. mcrush. Qed.
Lemma cl1_qos m : o_qos (cl1 m) = o_qos m.
Proof. mcrush. Qed.
Lemma rec_nq m : isrec m = true -> is_queued m = false.
Proof. mcrush. Qed.
Lemma rec_npub m : isrec m = true -> isPub m = false.
Proof. mcrush. Qed.
Lemma rec_nPQ m : isrec m = true -> ~ (o_st m = MsPublish \/ o_st m = MsQueued).
Proof. intros H [E|E]; mcrush. Qed.
Lemma queued_npub m : is_queued m = true -> isPub m = false.
Proof. mcrush. Qed.

Lemma zin_zrem_notin x l : zin x l = false -> zrem x l = l.
Proof.
  induction l as [|y l IH]; cbn [zin zrem]; [reflexivity|]. intros H. apply orb_false_iff in H as [H1 H2].
  rewrite H1. f_equal. apply IH. exact H2.
Qed.

(* ---------------------------------------------------------------- packets, as the checker sees them *)
Definition pubtag (x : qpkt) : list Z := match q_pkt x with PPublish _ _ _ t => [t] | _ => [] end.
Definition pubtags (q : list qpkt) : list Z := flat_map pubtag q.
Lemma pubtags_app a b : pubtags (a ++ b) = pubtags a ++ pubtags b.
Proof. unfold pubtags. apply flat_map_app. Qed.

Definition noq0 (x : qpkt) : Prop :=
  match q_pkt x with PPublish _ qs _ _ => (qs =? 0) = false | _ => True end.
Lemma noq0_written x : noq0 x -> written_evs x = [].
Proof. unfold noq0, written_evs. destruct (q_pkt x); try reflexivity. intros ->. reflexivity. Qed.

(* the events of one hand-over on a queue that is empty whenever the transport accepts writes *)
Definition ev1 (can : bool) (cn : Z) (x : qpkt) : list event :=
  Handed cn (q_pkt x) :: if can then [Tx cn (q_pkt x)] else [].

Lemma hand_all_evs cn can q H : (can = true -> q = []) -> Forall noq0 H ->
  snd (hand_all cn can q H) = flat_map (ev1 can cn) H.
Proof.
  intros Hq HH. destruct can.
  - rewrite (Hq eq_refl), hand_all_can. cbn [snd]. induction HH as [|x H Hx _ IH]; [reflexivity|].
    cbn [flat_map]. rewrite IH. cbn [flush_evs ev1]. rewrite (noq0_written x Hx). reflexivity.
  - rewrite hand_all_blocked. cbn [snd]. clear. induction H as [|x H IH]; [reflexivity|].
    cbn [map flat_map ev1 app]. rewrite IH. reflexivity.
Qed.

(* ---------------------------------------------------------------- checker folds *)
Section Folds.
Variable p : bool.      (* persistent session *)

Definition same_but (k k' : k02) : Prop :=
  k2_ok k' = true /\ k2_live k' = k2_live k /\ k2_rec k' = k2_rec k /\ k2_blk k' = k2_blk k.

(* what a packet about to be handed over has to satisfy *)
Definition hc (k : k02) (x : qpkt) : Prop :=
  match q_pkt x with
  | PPublish _ qs d t =>
      (p = true -> zin t (k2_rec k) = false) /\ (d = true -> zin t (k2_h1 k) = true) /\
      (zin t (k2_sent k) = true -> d = true) /\ 0 < qs
  | _ => True
  end.

Lemma hand1 can cn k x : k2_ok k = true -> hc k x ->
  let k' := fold_left (k02_ev p) (ev1 can cn x) k in
  same_but k k' /\
  (forall t, zin t (k2_h1 k') = zin t (k2_h1 k) || zin t (pubtag x)) /\
  (forall t, zin t (k2_h2 k') = zin t (k2_h2 k) || (zin t (pubtag x) && zin t (k2_h1 k))) /\
  (forall t, zin t (k2_sent k') = zin t (k2_sent k) || (can && zin t (pubtag x))).
Proof.
  intros Hok Hx. unfold hc, pubtag, ev1 in *.
  destruct (q_pkt x) as [|m qs d t0|m t0|m|m|m].
  1,3,4,5,6: destruct can; cbn [fold_left k02_ev zin]; (split; [repeat split; assumption|]);
    (split; [intros; rewrite orb_false_r; reflexivity|]); (split; intros; rewrite ?andb_false_r, ?orb_false_r; reflexivity).
  destruct Hx as (Hr & Hd & Hs & Hq).
  assert (Hqs : (qs >? 0) = true) by lia.
  set (k1 := k02_ev p k (Handed cn (PPublish m qs d t0))).
  assert (Hok1 : k2_ok k1 = true).
  { unfold k1. cbn [k02_ev k2_ok]. rewrite Hok, Hqs. cbn [andb orb]. destruct d; [rewrite (Hd eq_refl)|rewrite orb_true_r]; reflexivity. }
  assert (H1 : forall t, zin t (k2_h1 k1) = zin t (k2_h1 k) || zin t [t0]).
  { intros t. unfold k1. cbn [k02_ev k2_h1]. rewrite zin_zadd. cbn [zin]. rewrite orb_false_r. apply orb_comm. }
  assert (H2 : forall t, zin t (k2_h2 k1) = zin t (k2_h2 k) || (zin t [t0] && zin t (k2_h1 k))).
  { intros t. unfold k1. cbn [k02_ev k2_h2 zin]. rewrite orb_false_r. destruct (zin t0 (k2_h1 k)) eqn:E.
    - rewrite zin_zadd. destruct (t =? t0) eqn:Et; cbn [andb orb].
      + assert (t = t0) by lia. subst. rewrite E. rewrite orb_true_r. reflexivity.
      + rewrite orb_false_r. reflexivity.
    - destruct (t =? t0) eqn:Et; cbn [andb]; [|rewrite orb_false_r; reflexivity].
      assert (t = t0) by lia. subst. rewrite E, orb_false_r. reflexivity. }
  assert (Hd2 : d = true -> zin t0 (k2_h2 k1) = true).
  { intros Ed. rewrite H2. cbn [zin]. rewrite Z.eqb_refl, (Hd Ed). cbn. apply orb_true_r. }
  destruct can; cbn [fold_left]; fold k1.
  - set (k2 := k02_ev p k1 (Tx cn (PPublish m qs d t0))).
    assert (Hok2 : k2_ok k2 = true).
    { unfold k2. cbn [k02_ev k2_ok]. rewrite Hok1, Hqs. cbn [andb orb].
      change (k2_rec k1) with (k2_rec k). change (k2_sent k1) with (k2_sent k).
      assert (E1 : negb p || negb (zin t0 (k2_rec k)) = true) by (destruct p; [rewrite (Hr eq_refl)|]; reflexivity).
      assert (E2 : negb (zin t0 (k2_sent k)) || d = true) by (destruct (zin t0 (k2_sent k)); [rewrite (Hs eq_refl)|]; reflexivity).
      assert (E3 : zin t0 (k2_h2 k1) || negb d = true) by (destruct d; [rewrite (Hd2 eq_refl)|rewrite orb_true_r]; reflexivity).
      rewrite E1, E2, E3. reflexivity. }
    split; [repeat split; [exact Hok2 | reflexivity..]|]. split; [exact H1|]. split; [exact H2|].
    intros t. unfold k2. cbn [k02_ev k2_sent]. change (k2_sent k1) with (k2_sent k).
    rewrite zin_zadd. cbn [zin andb]. rewrite orb_false_r. apply orb_comm.
  - split; [repeat split; [exact Hok1 | reflexivity..]|]. split; [exact H1|]. split; [exact H2|].
    intros t. cbn [andb]. rewrite orb_false_r. reflexivity.
Qed.

Lemma hand_fold can cn : forall H k, k2_ok k = true -> NoDup (pubtags H) -> Forall (hc k) H ->
  let k' := fold_left (k02_ev p) (flat_map (ev1 can cn) H) k in
  same_but k k' /\
  (forall t, zin t (k2_h1 k') = zin t (k2_h1 k) || zin t (pubtags H)) /\
  (forall t, zin t (k2_h2 k') = zin t (k2_h2 k) || (zin t (pubtags H) && zin t (k2_h1 k))) /\
  (forall t, zin t (k2_sent k') = zin t (k2_sent k) || (can && zin t (pubtags H))).
Proof.
  induction H as [|x H IH]; intros k Hok Hnd HH; cbv zeta.
  - cbn [flat_map fold_left pubtags zin]. split; [repeat split; assumption|].
    split; [intros; rewrite orb_false_r; reflexivity|]. split; intros; rewrite ?andb_false_r, ?orb_false_r; reflexivity.
  - inversion HH as [|? ? Hx HH']; subst. cbn [flat_map]. rewrite fold_left_app.
    unfold pubtags in Hnd. cbn [flat_map] in Hnd. fold (pubtags H) in Hnd.
    destruct (hand1 can cn k x Hok Hx) as ((Ok1 & L1 & R1 & B1) & A1 & A2 & A3).
    set (k1 := fold_left (k02_ev p) (ev1 can cn x) k) in *.
    assert (Hnd' : NoDup (pubtags H)) by (apply NoDup_app_r in Hnd; exact Hnd).
    assert (Hdisj : forall t, zin t (pubtag x) = true -> zin t (pubtags H) = false).
    { intros t Ht. apply zin_notin. intros Hin. apply zin_In in Ht. exact (NoDup_app_disj _ _ t Hnd Ht Hin). }
    assert (HH1 : Forall (hc k1) H).
    { apply Forall_forall. intros y Hy. pose proof (proj1 (Forall_forall _ _) HH' y Hy) as Hcy.
      unfold hc in *. destruct (q_pkt y) as [|m qs d t0| | | |] eqn:Ey; try exact I.
      destruct Hcy as (C1 & C2 & C3 & C4).
      assert (Hny : zin t0 (pubtag x) = false).
      { destruct (zin t0 (pubtag x)) eqn:E; [|reflexivity]. pose proof (Hdisj t0 E) as Hf.
        exfalso. assert (Ht : zin t0 (pubtags H) = true); [|congruence].
        apply zin_In. unfold pubtags. apply in_flat_map. exists y. split; [exact Hy|].
        unfold pubtag. rewrite Ey. left. reflexivity. }
      rewrite R1, A1, A3, Hny, andb_false_r, !orb_false_r. repeat split; assumption. }
    destruct (IH k1 Ok1 Hnd' HH1) as ((Ok2 & L2 & R2 & B2) & E1 & E2 & E3).
    split; [repeat split; [exact Ok2 | congruence..]|].
    unfold pubtags. cbn [flat_map]. fold (pubtags H).
    split; [|split]; intros t; rewrite ?E1, ?E2, ?E3, ?A1, ?A2, ?A3, zin_app.
    + rewrite orb_assoc. reflexivity.
    + pose proof (Hdisj t) as Hd. destruct (zin t (pubtag x)); [rewrite (Hd eq_refl)|];
        destruct (zin t (k2_h2 k)), (zin t (pubtags H)), (zin t (k2_h1 k)); reflexivity.
    + destruct can, (zin t (k2_sent k)), (zin t (pubtag x)), (zin t (pubtags H)); reflexivity.
Qed.

(* what a queued packet has to satisfy when it is written *)
Definition wc (k : k02) (x : qpkt) : Prop :=
  match q_pkt x with
  | PPublish _ qs d t =>
      (p = true -> zin t (k2_rec k) = false) /\ (zin t (k2_sent k) = true -> d = true) /\
      (d = true -> zin t (k2_h2 k) = true) /\
      (qs = 0 -> d = false /\ ~ In t (map l_tag (k2_live k)) /\ zin t (k2_rec k) = false) /\ 0 <= qs
  | _ => True
  end.

Lemma lrem_tag_id t l : ~ In t (map l_tag l) -> lrem_tag t l = l.
Proof.
  induction l as [|x l IH]; cbn [lrem_tag map In]; [reflexivity|]. intros H.
  destruct (l_tag x =? t) eqn:E; [exfalso; apply H; left; lia|]. f_equal. apply IH. tauto.
Qed.

Lemma flush_fold02 cn : forall q k, k2_ok k = true -> NoDup (pubtags q) -> Forall (wc k) q ->
  let k' := fold_left (k02_ev p) (flush_evs cn q) k in
  same_but k k' /\ k2_h1 k' = k2_h1 k /\ k2_h2 k' = k2_h2 k /\
  (forall t, zin t (k2_sent k') = zin t (k2_sent k) || zin t (pubtags q)).
Proof.
  induction q as [|x q IH]; intros k Hok Hnd HH; cbv zeta.
  - cbn [flush_evs fold_left pubtags flat_map zin]. split; [repeat split; assumption|]. split; [reflexivity|].
    split; [reflexivity|]. intros; rewrite orb_false_r; reflexivity.
  - inversion HH as [|? ? Hx HH']; subst. cbn [flush_evs]. 
    change (Tx cn (q_pkt x) :: written_evs x ++ flush_evs cn q) with ((Tx cn (q_pkt x) :: written_evs x) ++ flush_evs cn q).
    rewrite fold_left_app.
    unfold pubtags in Hnd. cbn [flat_map] in Hnd. fold (pubtags q) in Hnd.
    set (k1 := fold_left (k02_ev p) (Tx cn (q_pkt x) :: written_evs x) k).
    assert (S1 : same_but k k1 /\ k2_h1 k1 = k2_h1 k /\ k2_h2 k1 = k2_h2 k /\
                 (forall t, zin t (k2_sent k1) = zin t (k2_sent k) || zin t (pubtag x))).
    { unfold k1, wc, pubtag, written_evs in *. destruct (q_pkt x) as [|m qs d t0|m t0|m|m|m];
        try (cbn [fold_left k02_ev zin]; split; [repeat split; assumption|]; split; [reflexivity|]; split; [reflexivity|];
             intros; rewrite orb_false_r; reflexivity).
      destruct Hx as (C1 & C2 & C3 & C4 & C5).
      assert (E1 : negb p || negb (zin t0 (k2_rec k)) = true) by (destruct p; [rewrite (C1 eq_refl)|]; reflexivity).
      assert (E2 : negb (zin t0 (k2_sent k)) || d = true) by (destruct (zin t0 (k2_sent k)); [rewrite (C2 eq_refl)|]; reflexivity).
      assert (E3 : zin t0 (k2_h2 k) || negb d = true) by (destruct d; [rewrite (C3 eq_refl)|rewrite orb_true_r]; reflexivity).
      destruct (qs =? 0) eqn:E0.
      - assert (qs = 0) by lia. destruct (C4 H) as (-> & Hl & Hr). cbn [fold_left k02_ev].
        cbn [k2_ok k2_live k2_rec k2_sent k2_h1 k2_h2 k2_blk].
        rewrite (lrem_tag_id _ _ Hl), (zin_zrem_notin _ _ Hr).
        rewrite Hok, E1, E2, E3. cbn [andb negb orb]. rewrite orb_true_r.
        split; [repeat split; reflexivity|]. split; [reflexivity|]. split; [reflexivity|].
        intros t. rewrite zin_zadd. cbn [zin]. rewrite orb_false_r. apply orb_comm.
      - cbn [fold_left k02_ev k2_ok k2_live k2_rec k2_sent k2_h1 k2_h2 k2_blk].
        rewrite Hok, E1, E2, E3. replace (qs >? 0) with true by lia.
        split; [repeat split; reflexivity|]. split; [reflexivity|]. split; [reflexivity|].
        intros t. rewrite zin_zadd. cbn [zin]. rewrite orb_false_r. apply orb_comm. }
    destruct S1 as ((Ok1 & L1 & R1 & B1) & G1 & G2 & A3).
    assert (Hnd' : NoDup (pubtags q)) by (apply NoDup_app_r in Hnd; exact Hnd).
    assert (HH1 : Forall (wc k1) q).
    { apply Forall_forall. intros y Hy. pose proof (proj1 (Forall_forall _ _) HH' y Hy) as Hcy.
      unfold wc in *. destruct (q_pkt y) as [|m qs d t0| | | |] eqn:Ey; try exact I.
      destruct Hcy as (C1 & C2 & C3 & C4 & C5).
      assert (Hny : zin t0 (pubtag x) = false).
      { apply zin_notin. intros Hin. apply (NoDup_app_disj _ _ t0 Hnd Hin). unfold pubtags. apply in_flat_map.
        exists y. split; [exact Hy|]. unfold pubtag. rewrite Ey. left. reflexivity. }
      rewrite R1, L1, G2, A3, Hny, orb_false_r. split; [exact C1|]. split; [exact C2|]. split; [exact C3|]. split; [exact C4 | exact C5]. }
    destruct (IH k1 Ok1 Hnd' HH1) as ((Ok2 & L2 & R2 & B2) & F1 & F2 & E3).
    split; [repeat split; [exact Ok2 | congruence..]|]. split; [congruence|]. split; [congruence|].
    intros t. rewrite E3, A3. unfold pubtags. cbn [flat_map]. fold (pubtags q). rewrite zin_app, orb_assoc. reflexivity.
Qed.

End Folds.

(* ---------------------------------------------------------------- the relational invariant *)
(* [snt m]: the PUBLISH of m has been handed to some connection (it is, or was, in a wait state) *)
Definition pk_inv (s : sess) (k : k02) (x : qpkt) : Prop :=
  match q_pkt x with
  | PPublish _ qs d t =>
      (zin t (k2_sent k) = true -> d = true) /\ (d = true -> zin t (k2_h2 k) = true) /\
      (qs = 0 -> d = false /\ ~ In t (tags (out s)) /\ t < ntag s)
  | _ => True
  end.

Record R (c : cfg) (s : sess) (k : k02) : Prop := mkR {
  r_ok : k2_ok k = true;
  r_live : k2_live k = map lm (out s);
  r_h1 : forall m, In m (out s) -> snt m = true -> zin (o_tag m) (k2_h1 k) = true;
  r_h1b : forall t, zin t (k2_h1 k) = true -> t < ntag s;
  r_sh : forall t, zin t (k2_sent k) = true -> t < ntag s;
  r_pend : forall m, In m (out s) -> isPub m = true \/ is_queued m = true ->
           zin (o_tag m) (k2_sent k) = true -> o_dup m = true;
  r_rec : c_clean c <> 1 -> forall t, zin t (k2_rec k) = true ->
       exists m, In m (out s) /\ o_tag m = t /\ o_qos m = 2 /\ isrec m = true /\
          (sock s = true -> cack s = false -> isresend m = true);
  r_recl : forall t, zin t (k2_rec k) = true -> In t (tags (out s));
  r_first : cack s = true -> first s = false;
  r_clean : c_clean c = 2 -> first s = true -> k2_rec k = [];
  r_pk : Forall (pk_inv s k) (outq s);
  r_nd : NoDup (pubtags (outq s));
  r_blk : sock s = true -> k2_blk k = blocked s;
  r_qlt : forall t, In t (pubtags (outq s)) -> t < ntag s
}.

Lemma inv_nodup_tags c s : Inv c s -> NoDup (tags (out s)).
Proof. intros I. apply SSorted_NoDup. apply (inv_sorted _ _ I). Qed.

Lemma inv_tag_lt c s m : Inv c s -> In m (out s) -> 0 <= o_tag m < ntag s.
Proof. intros I H. exact (proj1 (Forall_forall _ _) (inv_tags _ _ I) m H). Qed.

Lemma inv_qos_ok c s m : Inv c s -> In m (out s) -> qos_okb m = true.
Proof. intros I H. exact (proj1 (Forall_forall _ _) (inv_qos _ _ I) m H). Qed.

Lemma rec_msg c s k m : Inv c s -> R c s k -> c_clean c <> 1 -> In m (out s) ->
  zin (o_tag m) (k2_rec k) = true ->
  o_qos m = 2 /\ isrec m = true /\ (sock s = true -> cack s = false -> isresend m = true).
Proof.
  intros I HR Hc Hin Hz. destruct (r_rec _ _ _ HR Hc _ Hz) as (m' & Hin' & Ht & H).
  assert (m' = m) by (eapply tag_inj; [apply (inv_nodup_tags _ _ I)| | |]; eassumption).
  subst. exact H.
Qed.

Lemma notrec_msg c s k m : Inv c s -> R c s k -> c_clean c <> 1 -> In m (out s) ->
  isrec m = false -> zin (o_tag m) (k2_rec k) = false.
Proof.
  intros I HR Hc Hin Hn. destruct (zin (o_tag m) (k2_rec k)) eqn:E; [|reflexivity].
  destruct (rec_msg _ _ _ _ I HR Hc Hin E) as (_ & H & _). congruence.
Qed.

Lemma fresh_notin c s : Inv c s -> ~ In (ntag s) (tags (out s)).
Proof.
  intros I H. unfold tags in H. apply in_map_iff in H as (m & E & Hin).
  pose proof (inv_tag_lt _ _ _ I Hin). lia.
Qed.
Lemma fresh_h1 c s k : R c s k -> zin (ntag s) (k2_h1 k) = false.
Proof.
  intros HR. destruct (zin (ntag s) (k2_h1 k)) eqn:E; [|reflexivity].
  pose proof (r_h1b _ _ _ HR _ E). lia.
Qed.
Lemma fresh_sent c s k : R c s k -> zin (ntag s) (k2_sent k) = false.
Proof.
  intros HR. destruct (zin (ntag s) (k2_sent k)) eqn:E; [|reflexivity].
  pose proof (r_sh _ _ _ HR _ E) as H. lia.
Qed.
Lemma fresh_rec c s k : Inv c s -> R c s k -> zin (ntag s) (k2_rec k) = false.
Proof.
  intros I HR. destruct (zin (ntag s) (k2_rec k)) eqn:E; [|reflexivity].
  exfalso. exact (fresh_notin _ _ I (r_recl _ _ _ HR _ E)).
Qed.

Definition pers (c : cfg) : bool := negb (c_clean c =? 1).
Lemma cfg_clean c : cfg_ok c = true -> c_clean c = 0 \/ c_clean c = 1 \/ c_clean c = 2.
Proof. unfold cfg_ok. lia. Qed.
Lemma pers_true c : pers c = true -> c_clean c <> 1.
Proof. unfold pers. lia. Qed.
Lemma pers_false c : pers c = false -> c_clean c = 1.
Proof. unfold pers. lia. Qed.

Lemma tags_lm l : map l_tag (map lm l) = tags l.
Proof. unfold tags. rewrite map_map. reflexivity. Qed.

Lemma wait_of_notrec m q : o_st m = wait_of q -> isrec m = false.
Proof. unfold wait_of, isrec. intros ->. destruct (q =? 1); reflexivity. Qed.

(* every tag of a queued PUBLISH is below the counter; a QoS>0 one belongs to a stored message in its wait state *)
Lemma outq_pub c s k x mi qs d t : Inv c s -> R c s k -> sock s = true -> In x (outq s) -> q_pkt x = PPublish mi qs d t ->
  t < ntag s /\ 0 <= qs /\
  (qs <> 0 -> exists w, In w (out s) /\ o_tag w = t /\ o_dup w = d /\ o_st w = wait_of qs /\ 0 < qs).
Proof.
  intros I HR Hs Hx Ex.
  pose proof (proj1 (Forall_forall _ _) (inv_q _ _ I Hs) x Hx) as Hok. unfold qpkt_ok in Hok. rewrite Ex in Hok.
  pose proof (proj1 (Forall_forall _ _) (r_pk _ _ _ HR) x Hx) as Hpk. unfold pk_inv in Hpk. rewrite Ex in Hpk.
  destruct (Z.eq_dec qs 0) as [E0|E0].
  - destruct Hpk as (_ & _ & H0). destruct (H0 E0) as (_ & _ & Hlt). split; [exact Hlt|]. split; [lia|]. intros H; contradiction.
  - destruct (Hok E0) as (w & Hw & H1 & H2 & H3 & H4 & H5).
    pose proof (qos_pos w (inv_qos_ok _ _ _ I Hw)) as Hq. pose proof (inv_tag_lt _ _ _ I Hw) as Ht.
    split; [lia|]. split; [lia|]. intros _. exists w. repeat split; try assumption. lia.
Qed.

(* the queue can be written at any time *)
Lemma outq_wc c s k : Inv c s -> R c s k -> sock s = true -> Forall (wc (pers c) k) (outq s).
Proof.
  intros I HR Hs. apply Forall_forall. intros x Hx.
  pose proof (proj1 (Forall_forall _ _) (r_pk _ _ _ HR) x Hx) as Hpk. unfold pk_inv, wc in *.
  destruct (q_pkt x) as [|mi qs d t| | | |] eqn:Ex; try exact Logic.I.
  destruct Hpk as (P1 & P2 & P3). destruct (outq_pub c s k x mi qs d t I HR Hs Hx Ex) as (Hlt & Hq0 & Hw).
  split; [|split; [exact P1|split; [exact P2|split; [|exact Hq0]]]].
  - intros Ep. destruct (Z.eq_dec qs 0) as [E0|E0].
    + destruct (P3 E0) as (_ & Hn & _). destruct (zin t (k2_rec k)) eqn:E; [|reflexivity].
      exfalso. exact (Hn (r_recl _ _ _ HR _ E)).
    + destruct (Hw E0) as (w & Hwi & <- & _ & Hst & _).
      apply (notrec_msg c s k w I HR (pers_true _ Ep) Hwi). eapply wait_of_notrec; exact Hst.
  - intros E0. destruct (P3 E0) as (Hd & Hn & _). split; [exact Hd|]. split.
    + rewrite (r_live _ _ _ HR), tags_lm. exact Hn.
    + destruct (zin t (k2_rec k)) eqn:E; [|reflexivity]. exfalso. exact (Hn (r_recl _ _ _ HR _ E)).
Qed.

Lemma pub_nrec m : isPub m = true -> isrec m = false.
Proof. mcrush. Qed.
Lemma queued_nrec m : is_queued m = true -> isrec m = false.
Proof. mcrush. Qed.

(* the PUBLISH of a stored message that was not yet handed to this connection can be handed over *)
Lemma msg_hc c s k m : Inv c s -> R c s k -> In m (out s) -> isPub m = true \/ is_queued m = true ->
  hc (pers c) k (rel_pk m).
Proof.
  intros I HR Hin Hst. unfold hc, rel_pk, pub_pkt. cbn [q_pkt].
  split; [|split; [|split]].
  - intros Ep. apply (notrec_msg c s k m I HR (pers_true _ Ep) Hin).
    destruct Hst as [H|H]; [apply pub_nrec | apply queued_nrec]; exact H.
  - intros Hd. apply (r_h1 _ _ _ HR m Hin). destruct Hst as [H|H]; [rewrite (snt_pub m H) | rewrite (snt_queued m H)]; exact Hd.
  - apply (r_pend _ _ _ HR m Hin Hst).
  - apply qos_pos. exact (inv_qos_ok _ _ _ I Hin).
Qed.

(* ---------------------------------------------------------------- checker: operations without an accepting CONNACK *)
Lemma k02_op_plain p k evs : existsb is_connack0 evs = false ->
  k02_op p k evs = fold_left (k02_ev p) evs k.
Proof. intros H. unfold k02_op. rewrite H, andb_false_r. reflexivity. Qed.

Definition quiet (e : event) : bool :=
  match e with
  | Ret _ _ q rc => negb ((q >? 0) && ((rc =? 0) || (rc =? 4)))
  | Inp (IPubrec _) | Inp (IConnack _) => false
  | Tx _ (PPublish _ _ _ _) | Handed _ (PPublish _ _ _ _) => false
  | CbPublish _ _ | SockOpened _ | Blk _ => false
  | _ => true
  end.

Lemma quiet_ev p k e : quiet e = true -> k02_ev p k e = k.
Proof.
  destruct e as [cn pk|tag mid q rc|mid tag|tag|mid q tag| |ip| |cn| |cn pk|tag|b]; cbn [quiet k02_ev]; try reflexivity; try discriminate.
  - destruct pk; try reflexivity; discriminate.
  - intros H. destruct ((q >? 0) && ((rc =? 0) || (rc =? 4))); [discriminate|reflexivity].
  - destruct ip; try reflexivity; discriminate.
  - destruct pk; try reflexivity; discriminate.
Qed.

Lemma quiet_fold p evs : forall k, forallb quiet evs = true ->
  fold_left (k02_ev p) evs k = k /\ existsb is_connack0 evs = false.
Proof.
  induction evs as [|e evs IH]; intros k H; cbn [fold_left existsb forallb] in *; [split; reflexivity|].
  apply andb_true_iff in H as [H1 H2]. rewrite (quiet_ev p k e H1). destruct (IH k H2) as [E1 E2].
  split; [exact E1|]. rewrite E2, orb_false_r. destruct e as [? ?|? ? ? ?|? ?|?|? ? ?| |ip| |?| |? ?|?|?]; try reflexivity.
  destruct ip; try reflexivity; discriminate.
Qed.

Lemma quiet_op p k evs : forallb quiet evs = true -> k02_op p k evs = k.
Proof.
  intros H. destruct (quiet_fold p evs k H) as [E1 E2]. rewrite k02_op_plain by exact E2. exact E1.
Qed.

Lemma noconn_ev1 can cn H : existsb is_connack0 (flat_map (ev1 can cn) H) = false.
Proof. induction H as [|x H IH]; [reflexivity|]. cbn [flat_map ev1 app existsb is_connack0]. destruct can; cbn [app existsb is_connack0]; exact IH. Qed.

Lemma nolost_ev1 can cn H : existsb is_socklost (flat_map (ev1 can cn) H) = false.
Proof. induction H as [|x H IH]; [reflexivity|]. cbn [flat_map ev1 app existsb is_socklost]. destruct can; cbn [app existsb is_socklost]; exact IH. Qed.

Lemma noconn_flush cn q : existsb is_connack0 (flush_evs cn q) = false.
Proof.
  induction q as [|x q IH]; [reflexivity|]. cbn [flush_evs existsb is_connack0]. rewrite existsb_app, IH, orb_false_r.
  unfold written_evs. destruct (q_pkt x) as [|m qs d t| | | |]; try reflexivity. destruct (qs =? 0); reflexivity.
Qed.

Lemma send_hand_all s x : send s x = (with_q s (fst (hand_all (conn s) (can_write s) (outq s) [x])),
                                       snd (hand_all (conn s) (can_write s) (outq s) [x])).
Proof.
  unfold send. cbn [hand_all]. destruct (pq (conn s) (can_write s) (outq s) x) as [q' ev].
  rewrite app_nil_r. reflexivity.
Qed.

(* ---------------------------------------------------------------- preservation: generic moves *)
Lemma pk_inv_ext s s' k x : out s' = out s -> ntag s <= ntag s' -> pk_inv s k x -> pk_inv s' k x.
Proof.
  intros E1 E2. unfold pk_inv. destruct (q_pkt x); try exact (fun H => H). rewrite E1.
  intros (H1 & H2 & H3). split; [exact H1|]. split; [exact H2|]. intros E0. destruct (H3 E0) as (A & B & C0). repeat split; try assumption. lia.
Qed.

Lemma R_ext c s s' k : out s' = out s -> ntag s <= ntag s' -> sock s' = sock s -> cack s' = cack s ->
  first s' = first s -> outq s' = outq s -> blocked s' = blocked s -> R c s k -> R c s' k.
Proof.
  intros E1 E2 E3 E4 E5 E6 E7 [H1 H2 H3 H4 H5 H6 H7 H8 H9 H10 H11 H12 H13 H14].
  constructor; rewrite ?E1, ?E3, ?E4, ?E5, ?E6, ?E7; try assumption.
  - intros t Ht. specialize (H4 t Ht). lia.
  - intros t Ht. specialize (H5 t Ht). lia.
  - eapply Forall_impl; [|exact H11]. intros x. apply pk_inv_ext; assumption.
  - intros t Ht. specialize (H14 t Ht). lia.
Qed.

Lemma R_down c s s' k : out s' = out s -> ntag s' = ntag s -> sock s' = false -> cack s' = false ->
  (first s' = true -> first s = true) -> outq s' = outq s -> R c s k -> R c s' k.
Proof.
  intros E1 E2 E3 E4 E5 E6 [H1 H2 H3 H4 H5 H6 H7 H8 H9 H10 H11 H12 H13 H14].
  constructor; rewrite ?E1, ?E2, ?E6; try assumption.
  - intros Hc t Ht. destruct (H7 Hc t Ht) as (m & Hin & Et & Hq & Hr & _).
    exists m. repeat split; try assumption. rewrite E3. discriminate.
  - rewrite E4. discriminate.
  - intros Hc Hf. apply H10; [exact Hc | apply E5; exact Hf].
  - eapply Forall_impl; [|exact H11]. intros x. apply pk_inv_ext; [assumption | lia].
  - rewrite E3. discriminate.
Qed.

(* a reply handed over (and perhaps written): nothing the checker looks at *)
Definition is_reply (x : qpkt) : Prop :=
  match q_pkt x with PPuback _ | PPubrec _ | PPubcomp _ => True | _ => False end.

Lemma reply_noq0 x : is_reply x -> noq0 x /\ pubtag x = [].
Proof. unfold is_reply, noq0, pubtag. destruct (q_pkt x); try contradiction; intros _; split; reflexivity. Qed.

Lemma reply_quiet can cn x : is_reply x -> forallb quiet (ev1 can cn x) = true.
Proof. unfold is_reply, ev1. destruct (q_pkt x); try contradiction; intros _; destruct can; reflexivity. Qed.

Lemma R_send_reply c s k x pre : Inv c s -> is_reply x -> forallb quiet pre = true -> R c s k ->
  R c (fst (send s x)) (k02_op (pers c) k (pre ++ snd (send s x))).
Proof.
  intros I Hx Hpre HR. destruct (reply_noq0 x Hx) as [Hn Hp].
  rewrite send_hand_all. cbn [fst snd].
  rewrite (hand_all_evs _ _ _ _ (inv_qidle _ _ I) ltac:(constructor; [exact Hn|constructor])).
  cbn [flat_map]. rewrite app_nil_r.
  rewrite quiet_op by (rewrite forallb_app, Hpre; apply reply_quiet; exact Hx).
  rewrite (hand_all_fst _ _ _ _ (inv_qidle _ _ I)).
  destruct HR as [H1 H2 H3 H4 H5 H6 H7 H8 H9 H10 H11 H12 H13 H14].
  constructor; cbn [out ntag sock cack first outq blocked with_q]; try assumption.
  - destruct (can_write s); [constructor|]. apply Forall_app. split; [exact H11|].
    constructor; [|constructor]. unfold pk_inv. unfold is_reply in Hx. destruct (q_pkt x); try contradiction; exact Logic.I.
  - destruct (can_write s); [constructor|]. rewrite pubtags_app. unfold pubtags at 2. cbn [flat_map]. rewrite Hp, app_nil_r. exact H12.
  - destruct (can_write s); [intros t []|]. rewrite pubtags_app. unfold pubtags at 2. cbn [flat_map]. rewrite Hp, app_nil_r. exact H14.
Qed.

(* ---------------------------------------------------------------- publish() *)
(* all tags in the queue are below the counter *)
Lemma outq_tags_lt c s k t : Inv c s -> R c s k -> In t (pubtags (outq s)) -> t < ntag s.
Proof. intros _ HR. exact (r_qlt _ _ _ HR t). Qed.

Lemma idle_ext (s s1 : sess) : sock s1 = sock s -> blocked s1 = blocked s -> outq s1 = outq s ->
  (can_write s = true -> outq s = []) -> (can_write s1 = true -> outq s1 = []).
Proof. unfold can_write. intros -> -> ->. exact (fun H => H). Qed.

Lemma pk_inv_mono s s' k k' x :
  (forall t, zin t (k2_sent k') = true -> zin t (k2_sent k) = true \/ ~ In t (pubtag x)) ->
  (forall t, zin t (k2_h2 k) = true -> zin t (k2_h2 k') = true) ->
  (forall t, In t (tags (out s')) -> In t (tags (out s)) \/ ~ In t (pubtag x)) -> ntag s <= ntag s' ->
  pk_inv s k x -> pk_inv s' k' x.
Proof.
  unfold pk_inv, pubtag. destruct (q_pkt x) as [|mi qs d t| | | |]; try (intros; exact Logic.I).
  intros Hs Hh Ht Hn (P1 & P2 & P3). split; [|split].
  - intros H. destruct (Hs t H) as [H'|H']; [exact (P1 H') | exfalso; apply H'; left; reflexivity].
  - intros H. apply Hh. exact (P2 H).
  - intros E0. destruct (P3 E0) as (A & B & C0). split; [exact A|]. split; [|lia].
    intros H. destruct (Ht t H) as [H'|H']; [exact (B H') | apply H'; left; reflexivity].
Qed.

(* the queued packets stay sound when a message with the fresh tag is stored *)
Lemma pk_grow c s k s' k' : Inv c s -> R c s k ->
  (forall t, In t (tags (out s')) -> In t (tags (out s)) \/ t = ntag s) -> ntag s <= ntag s' ->
  (forall t, zin t (k2_sent k') = true -> zin t (k2_sent k) = true \/ t = ntag s) ->
  (forall t, zin t (k2_h2 k) = true -> zin t (k2_h2 k') = true) ->
  Forall (pk_inv s' k') (outq s).
Proof.
  intros I HR Ht Hn Hs Hh. apply Forall_forall. intros y Hy.
  pose proof (proj1 (Forall_forall _ _) (r_pk _ _ _ HR) y Hy) as Hpk. unfold pk_inv in *.
  destruct (q_pkt y) as [|mi qs d t| | | |] eqn:Ey; try exact Logic.I.
  assert (Hlt : t < ntag s).
  { apply (r_qlt _ _ _ HR). unfold pubtags. apply in_flat_map. exists y. split; [exact Hy|]. unfold pubtag. rewrite Ey. left. reflexivity. }
  destruct Hpk as (P1 & P2 & P3). split; [|split].
  - intros H. destruct (Hs t H) as [H'|H']; [exact (P1 H') | lia].
  - intros H. apply Hh. exact (P2 H).
  - intros E0. destruct (P3 E0) as (A & B & C0). split; [exact A|]. split; [|lia].
    intros H. destruct (Ht t H) as [H'|H']; [exact (B H') | lia].
Qed.

Lemma step_publish c s k q : cfg_ok c = true -> Inv c s -> conf_op c s (OPublish q) = true -> R c s k ->
  R c (fst (do_publish c s q)) (k02_op (pers c) k (snd (do_publish c s q))).
Proof.
  intros Hcfg I Hq HR. cbn [conf_op] in Hq. pose proof (inv_qidle _ _ I) as Hi. unfold do_publish. cbv zeta.
  set (mid := mid_next (last_mid s)).
  set (s1 := mkS (out s) (inm s) (inflight s) mid (sock s) (first s) (cack s) (conn s) (ntag s + 1) (outq s) (blocked s) (failing s)).
  assert (HR1 : R c s1 k) by (apply (R_ext c s); try reflexivity; [cbn; lia | exact HR]).
  pose proof (fresh_h1 _ _ _ HR) as Fh. pose proof (fresh_sent _ _ _ HR) as Fs. pose proof (fresh_rec _ _ _ I HR) as Fr.
  pose proof (fresh_notin _ _ I) as Fn.
  assert (Fq : ~ In (ntag s) (pubtags (outq s))) by (intros H; pose proof (outq_tags_lt c s k _ I HR H); lia).
  destruct (q =? 0) eqn:E0.
  - assert (q = 0) by lia. subst q. destruct (sock s) eqn:Hs; cbn [fst snd].
    2:{ rewrite quiet_op by reflexivity. exact HR1. }
    set (x := mkQ (PPublish mid 0 false (ntag s)) true).
    assert (Hi1 : can_write s1 = true -> outq s1 = []) by (apply (idle_ext s); [cbn; congruence | reflexivity | reflexivity | exact Hi]).
    rewrite (send_hand_all s1 x). cbn [fst snd]. rewrite (hand_all_fst _ _ _ _ Hi1).
    destruct HR as [H1 H2 H3 H4 H5 H6 H7 H8 H9 H10 H11 H12 H13 H14].
    destruct (can_write s1) eqn:Ec.
    + (* written at once *)
      rewrite (Hi1 eq_refl), hand_all_can. cbn [snd flat_map flush_evs written_evs x q_pkt app].
      change (0 =? 0) with true. cbv iota. cbn [app].
      rewrite k02_op_plain by reflexivity. cbn [fold_left k02_ev].
      cbn [k2_ok k2_live k2_h1 k2_h2 k2_sent k2_rec k2_blk]. rewrite Fh, Fs, Fr.
      change (0 >? 0) with false. cbn [negb andb orb]. rewrite !orb_true_r, !andb_true_r.
      constructor; cbn [k2_ok k2_live k2_h1 k2_h2 k2_sent k2_rec k2_blk out ntag sock cack first outq blocked with_q s1].
      * exact H1.
      * rewrite H2. apply lrem_tag_notin. exact Fn.
      * intros m Hin Hsn. rewrite zin_zadd. rewrite (H3 m Hin Hsn). apply orb_true_r.
      * intros t Ht. rewrite zin_zadd in Ht. apply orb_true_iff in Ht as [Ht|Ht]; [lia|]. specialize (H4 t Ht). lia.
      * intros t Ht. rewrite zin_zadd in Ht. apply orb_true_iff in Ht as [Ht|Ht]; [lia|]. specialize (H5 t Ht). lia.
      * intros m Hin Hst Hz. rewrite zin_zadd in Hz. pose proof (inv_tag_lt _ _ _ I Hin).
        replace (o_tag m =? ntag s) with false in Hz by lia. exact (H6 m Hin Hst Hz).
      * intros Hc t Ht. rewrite zin_zrem in Ht. apply andb_true_iff in Ht as [_ Ht].
        destruct (H7 Hc t Ht) as (m & A & B & C1 & D & E). exists m. repeat split; try assumption. intros _. apply E. exact Hs.
      * intros t Ht. rewrite zin_zrem in Ht. apply andb_true_iff in Ht as [_ Ht]. exact (H8 t Ht).
      * exact H9.
      * intros Hc Hf. rewrite (H10 Hc Hf). reflexivity.
      * constructor.
      * constructor.
      * intros _. exact (H13 Hs).
      * intros t [].
    + (* the transport refuses writes: the packet waits in the queue *)
      rewrite hand_all_blocked. cbn [snd map app x q_pkt].
      rewrite k02_op_plain by reflexivity. cbn [fold_left k02_ev].
      cbn [k2_ok k2_live k2_h1 k2_h2 k2_sent k2_rec k2_blk]. rewrite Fh.
      change (0 >? 0) with false. cbn [negb andb orb]. rewrite !andb_true_r.
      constructor; cbn [k2_ok k2_live k2_h1 k2_h2 k2_sent k2_rec k2_blk out ntag sock cack first outq blocked with_q s1];
        try assumption.
      * intros m Hin Hsn. rewrite zin_zadd. rewrite (H3 m Hin Hsn). apply orb_true_r.
      * intros t Ht. rewrite zin_zadd in Ht. apply orb_true_iff in Ht as [Ht|Ht]; [lia|]. specialize (H4 t Ht). lia.
      * intros t Ht. specialize (H5 t Ht). lia.
      * intros Hc t Ht. destruct (H7 Hc t Ht) as (m & A & B & C1 & D & E). exists m. repeat split; try assumption. intros _. apply E. exact Hs.
      * apply Forall_app. split.
        -- apply (pk_grow c s k _ _ I (mkR c s k H1 H2 H3 H4 H5 H6 H7 H8 H9 H10 H11 H12 H13 H14));
             [intros t Ht; left; exact Ht | cbn; lia | intros t Ht; left; exact Ht | intros t Ht; exact Ht].
        -- constructor; [|constructor]. unfold pk_inv. cbn [q_pkt x k2_sent k2_h2 out ntag with_q s1].
           split; [intros Hz; congruence|]. split; [discriminate|]. intros _. split; [reflexivity|]. split; [exact Fn | lia].
      * rewrite pubtags_app. cbn. apply NoDup_app_snoc; assumption.
      * intros _. exact (H13 Hs).
      * intros t Ht. rewrite pubtags_app in Ht. apply in_app_or in Ht as [Ht|Ht]; [specialize (H14 t Ht); lia|].
        cbn in Ht. destruct Ht as [<-|[]]. lia.
  - assert (Hq0 : (q >? 0) = true) by lia.
    destruct ((c_maxq c >? 0) && (Z.of_nat (length (out s)) >=? c_maxq c)); cbn [fst snd].
    { rewrite quiet_op; [exact HR1|]. cbn [forallb quiet]. rewrite Hq0. reflexivity. }
    destruct (has_mid mid (out s)); cbn [fst snd].
    { rewrite quiet_op; [exact HR1|]. cbn [forallb quiet]. rewrite Hq0. reflexivity. }
    (* common part: the stored messages grow by one with the fresh tag *)
    assert (Hgrow : forall st s' k', out s' = out s ++ [mkO mid q st false (ntag s)] -> ntag s' = ntag s + 1 ->
              sock s' = sock s -> cack s' = cack s -> first s' = first s -> blocked s' = blocked s ->
              k2_ok k' = true -> k2_live k' = k2_live k ++ [lm (mkO mid q st false (ntag s))] ->
              k2_rec k' = k2_rec k -> k2_blk k' = k2_blk k ->
              (forall t, zin t (k2_h1 k') = zin t (k2_h1 k) || (snt (mkO mid q st false (ntag s)) && (t =? ntag s))) ->
              (forall t, zin t (k2_sent k') = true -> zin t (k2_sent k) = true \/ (t = ntag s /\ snt (mkO mid q st false (ntag s)) = true)) ->
              Forall (pk_inv s' k') (outq s') -> NoDup (pubtags (outq s')) ->
              (forall t, In t (pubtags (outq s')) -> t < ntag s + 1) ->
              R c s' k').
    { intros st s' k' E1 E2 E3 E4 E5 E6 Kok Kl Kr Kb Kh Ks Kpk Knd Kq.
      destruct HR as [H1 H2 H3 H4 H5 H6 H7 H8 H9 H10 H11 H12 H13 H14].
      constructor; rewrite ?E1, ?E2, ?E3, ?E4, ?E5, ?E6, ?Kr, ?Kb; try assumption.
      - rewrite Kl, map_app, H2. reflexivity.
      - intros m Hin Hsn. rewrite Kh. apply in_app_or in Hin as [Hin|[<-|[]]].
        + rewrite (H3 m Hin Hsn). reflexivity.
        + cbn [o_tag]. rewrite Hsn, Z.eqb_refl. apply orb_true_r.
      - intros t Ht. rewrite Kh in Ht. apply orb_true_iff in Ht as [Ht|Ht]; [specialize (H4 t Ht); lia | lia].
      - intros t Ht. destruct (Ks t Ht) as [Hs'|[-> Hsn]]; [specialize (H5 t Hs'); lia | lia].
      - intros m Hin Hst Hz. apply in_app_or in Hin as [Hin|[<-|[]]].
        + destruct (Ks _ Hz) as [Hs'|[Et _]]; [exact (H6 m Hin Hst Hs')|]. pose proof (inv_tag_lt _ _ _ I Hin). lia.
        + reflexivity || (destruct (Ks _ Hz) as [Hs'|[_ Hsn]]; [cbn [o_tag] in Hs'; congruence|]).
          exfalso. destruct Hst as [Hst|Hst]; revert Hsn Hst; unfold snt, isPub, is_queued, is_wait; cbn [o_st o_dup];
            destruct st; cbn; congruence.
      - intros Hc t Ht. destruct (H7 Hc t Ht) as (m & Hin & H). exists m. split; [apply in_or_app; left; exact Hin | exact H].
      - intros t Ht. rewrite tags_app. apply in_or_app. left. exact (H8 t Ht). }
    destruct (window_free c (inflight s)); [destruct (sock s) eqn:Hs|]; cbn [fst snd].
    + (* stored in a wait state, handed over (and written unless blocked) *)
      set (S1 := with_out s1 (out s ++ [mkO mid q (wait_of q) false (ntag s)]) (inflight s + 1)).
      set (x := mkQ (PPublish mid q false (ntag s)) true).
      assert (Hi1 : can_write S1 = true -> outq S1 = []) by (apply (idle_ext s); [cbn; congruence | reflexivity | reflexivity | exact Hi]).
      assert (Hn : noq0 x) by exact E0.
      rewrite (send_hand_all S1 x). cbn [fst snd].
      rewrite (hand_all_evs _ _ _ _ Hi1 ltac:(constructor; [exact Hn|constructor])), (hand_all_fst _ _ _ _ Hi1).
      rewrite k02_op_plain by (rewrite existsb_app, noconn_ev1; reflexivity). rewrite fold_left_app.
      assert (Hhc : Forall (hc (pers c) k) [x]).
      { constructor; [|constructor]. unfold hc. cbn [x q_pkt]. split; [intros _; exact Fr|]. split; [discriminate|].
        split; [intros Hz; congruence | lia]. }
      destruct (hand_fold (pers c) (can_write S1) (conn S1) [x] k (r_ok _ _ _ HR) ltac:(cbn; repeat constructor; intros [])
                  Hhc) as ((Ok1 & L1 & R1 & B1) & A1 & A2 & A3).
      set (k1 := fold_left (k02_ev (pers c)) (flat_map (ev1 (can_write S1) (conn S1)) [x]) k) in *.
      cbn [fold_left k02_ev]. rewrite Hq0. cbn [Z.eqb andb orb].
      assert (Hsn : snt (mkO mid q (wait_of q) false (ntag s)) = true).
      { unfold snt, is_wait, wait_of. cbn [o_st]. destruct (q =? 1); reflexivity. }
      eapply (Hgrow (wait_of q)); try reflexivity; cbn [k2_ok k2_live k2_h1 k2_h2 k2_sent k2_rec k2_blk outq with_q]; try assumption.
      * rewrite L1. reflexivity.
      * intros t. rewrite A1, Hsn. cbn [pubtags flat_map pubtag x q_pkt app zin andb]. rewrite orb_false_r. reflexivity.
      * intros t Ht. rewrite A3 in Ht. apply orb_true_iff in Ht as [Ht|Ht]; [left; exact Ht|]. right.
        apply andb_true_iff in Ht as [_ Ht]. cbn in Ht. split; [lia | exact Hsn].
      * destruct (can_write S1) eqn:Ec; [constructor|]. apply Forall_app. split.
        -- apply (pk_grow c s k _ _ I HR).
           ++ intros t Ht. cbn [out with_out with_q S1] in Ht. rewrite tags_app in Ht.
              apply in_app_or in Ht as [Ht|[<-|[]]]; [left; exact Ht | right; reflexivity].
           ++ cbn. lia.
           ++ intros t Ht. rewrite A3 in Ht. cbn [andb] in Ht. rewrite orb_false_r in Ht. left. exact Ht.
           ++ intros t Ht. rewrite A2, Ht. reflexivity.
        -- constructor; [|constructor]. unfold pk_inv. cbn [x q_pkt].
           split; [intros Hz; rewrite A3 in Hz; cbn [andb] in Hz; rewrite orb_false_r in Hz; congruence|].
           split; [discriminate|]. intros; lia.
      * destruct (can_write S1); [constructor|]. rewrite pubtags_app. cbn. apply NoDup_app_snoc; [exact (r_nd _ _ _ HR) | exact Fq].
      * destruct (can_write S1); [intros t []|]. intros t Ht. rewrite pubtags_app in Ht. apply in_app_or in Ht as [Ht|Ht].
        -- pose proof (r_qlt _ _ _ HR t Ht). lia.
        -- cbn in Ht. destruct Ht as [<-|[]]. lia.
    + (* offline: stored, nothing handed over *)
      rewrite k02_op_plain by reflexivity. cbn [fold_left k02_ev]. rewrite Hq0. cbn [Z.eqb andb orb].
      eapply (Hgrow MsPublish); try reflexivity; cbn [k2_ok k2_live k2_h1 k2_h2 k2_sent k2_rec k2_blk outq with_out s1]; try (cbn; congruence).
      * exact (r_ok _ _ _ HR).
      * intros t. cbn. rewrite orb_false_r. reflexivity.
      * intros t Ht. left. exact Ht.
      * apply (pk_grow c s k _ _ I HR).
        -- intros t Ht. cbn [out with_out s1] in Ht. rewrite tags_app in Ht.
           apply in_app_or in Ht as [Ht|[<-|[]]]; [left; exact Ht | right; reflexivity].
        -- cbn. lia.
        -- intros t Ht. left. exact Ht.
        -- intros t Ht. exact Ht.
      * exact (r_nd _ _ _ HR).
      * intros t Ht. pose proof (r_qlt _ _ _ HR t Ht). lia.
    + (* queued behind the window *)
      rewrite k02_op_plain by reflexivity. cbn [fold_left k02_ev]. rewrite Hq0. cbn [Z.eqb andb orb].
      eapply (Hgrow MsQueued); try reflexivity; cbn [k2_ok k2_live k2_h1 k2_h2 k2_sent k2_rec k2_blk outq with_out s1].
      * exact (r_ok _ _ _ HR).
      * intros t. cbn. rewrite orb_false_r. reflexivity.
      * intros t Ht. left. exact Ht.
      * apply (pk_grow c s k _ _ I HR).
        -- intros t Ht. cbn [out with_out s1] in Ht. rewrite tags_app in Ht.
           apply in_app_or in Ht as [Ht|[<-|[]]]; [left; exact Ht | right; reflexivity].
        -- cbn. lia.
        -- intros t Ht. left. exact Ht.
        -- intros t Ht. exact Ht.
      * exact (r_nd _ _ _ HR).
      * intros t Ht. pose proof (r_qlt _ _ _ HR t Ht). lia.
Qed.

(* ---------------------------------------------------------------- reconnect() *)
Lemma reset_char c s cl : cfg_ok c = true -> Inv c s ->
  exists A B n, out s = A ++ B /\ Forall (fun m => o_st m = MsPublish \/ o_st m = MsQueued) B /\
    reset_out_list c cl 0 (out s) = (map (reset1 cl) A ++ map toQ B, n).
Proof.
  intros Hcfg I. pose proof (max_nonneg c Hcfg) as Hmax. destruct (inv_shape _ _ I) as (C & U & Q & Sh).
  destruct (reset_out_char c cl Hmax (out s) 0 ltac:(lia)) as (j & Hj & E & Hfull & Hle).
  exists (firstn j (out s)), (skipn j (out s)), (0 + Z.of_nat j).
  split; [symmetry; apply firstn_skipn|]. split; [|exact E].
  destruct (Nat.eq_dec j (length (out s))) as [->|Hne]. { rewrite skipn_all. constructor. }
  assert (Hlt : (j < length (out s))%nat) by lia. destruct (Hfull Hlt) as [Hpos Hge].
  pose proof (sh_max _ _ _ _ _ Sh Hpos) as HC.
  rewrite (sh_out _ _ _ _ _ Sh). rewrite skipn_app. rewrite (skipn_all2 C) by lia. cbn [app].
  apply Forall_skipn. apply Forall_app; split.
  - eapply Forall_impl; [|exact (sh_U _ _ _ _ _ Sh)]. cbn; intros; left; assumption.
  - eapply Forall_impl; [|exact (sh_Q _ _ _ _ _ Sh)]. intros a Ha. right.
    unfold is_queued in Ha. destruct (o_st a); try discriminate; reflexivity.
Qed.

Lemma pend_reset1 cl m : qos_okb m = true -> isPub (reset1 cl m) = true \/ is_queued (reset1 cl m) = true ->
  o_dup (reset1 cl m) = true \/ ((isPub m = true \/ is_queued m = true) /\ o_dup (reset1 cl m) = o_dup m).
Proof. destruct cl; mcrush. Qed.

Lemma lost_quiet q : forallb quiet (flat_map lost_evs q) = true.
Proof.
  induction q as [|x q IH]; [reflexivity|]. cbn [flat_map]. rewrite forallb_app, IH, andb_true_r.
  unfold lost_evs. destruct (q_pkt x) as [|m qs d t| | | |]; try reflexivity.
  destruct ((qs =? 0) && q_info x); reflexivity.
Qed.

Lemma R_reset c s k k' A B i n sk cn :
  cfg_ok c = true -> Inv c s -> R c s k -> out s = A ++ B ->
  Forall (fun m => o_st m = MsPublish \/ o_st m = MsQueued) B ->
  k2_ok k' = k2_ok k -> k2_live k' = k2_live k -> k2_h1 k' = k2_h1 k -> k2_h2 k' = k2_h2 k ->
  k2_sent k' = k2_sent k -> k2_rec k' = k2_rec k -> k2_blk k' = false ->
  R c (mkS (map (reset1 (clean_now c s)) A ++ map toQ B) i n (last_mid s) sk (first s) false cn (ntag s) [] false false) k'.
Proof.
  intros Hcfg I HR Eo HB K1 K2 K3 K4 K5 K6 K7.
  constructor; cbn [out ntag sock cack first outq blocked]; rewrite ?K1, ?K2, ?K3, ?K4, ?K5, ?K6, ?K7.
  - exact (r_ok _ _ _ HR).
  - rewrite (r_live _ _ _ HR), Eo, !map_app, !map_map. f_equal. apply map_ext; intros a. symmetry. apply lm_reset1.
  - intros m' Hin. apply in_app_or in Hin as [Hin|Hin]; apply in_map_iff in Hin as (x & <- & Hx).
    + assert (Hox : In x (out s)) by (rewrite Eo; apply in_or_app; left; exact Hx).
      rewrite reset1_tag, (snt_reset1 _ _ (inv_qos_ok _ _ _ I Hox)). apply (r_h1 _ _ _ HR). exact Hox.
    + assert (Hox : In x (out s)) by (rewrite Eo; apply in_or_app; right; exact Hx).
      change (o_tag (toQ x)) with (o_tag x).
      rewrite (snt_toQ _ (proj1 (Forall_forall _ _) HB x Hx)). apply (r_h1 _ _ _ HR). exact Hox.
  - exact (r_h1b _ _ _ HR).
  - exact (r_sh _ _ _ HR).
  - intros m' Hin Hst Hz. apply in_app_or in Hin as [Hin|Hin]; apply in_map_iff in Hin as (x & <- & Hx).
    + assert (Hox : In x (out s)) by (rewrite Eo; apply in_or_app; left; exact Hx).
      rewrite reset1_tag in Hz.
      destruct (pend_reset1 (clean_now c s) x (inv_qos_ok _ _ _ I Hox) Hst) as [H|[Hold Hd]]; [exact H|].
      rewrite Hd. exact (r_pend _ _ _ HR x Hox Hold Hz).
    + assert (Hox : In x (out s)) by (rewrite Eo; apply in_or_app; right; exact Hx).
      change (o_tag (toQ x)) with (o_tag x) in Hz. change (o_dup (toQ x)) with (o_dup x).
      apply (r_pend _ _ _ HR x Hox); [|exact Hz].
      destruct (proj1 (Forall_forall _ _) HB x Hx) as [E|E]; [left; unfold isPub | right; unfold is_queued]; rewrite E; reflexivity.
  - intros Hc t Ht. destruct (clean_now c s) eqn:Ecl.
    + unfold clean_now in Ecl. destruct (c_clean c =? 0) eqn:E0; [discriminate|].
      destruct (c_clean c =? 1) eqn:E1; [lia|].
      assert (H2 : c_clean c = 2) by (destruct (cfg_clean c Hcfg) as [?|[?|?]]; lia).
      rewrite (r_clean _ _ _ HR H2 Ecl) in Ht. discriminate.
    + destruct (r_rec _ _ _ HR Hc t Ht) as (m & Hin & Et & Hq & Hr & _).
      rewrite Eo in Hin. apply in_app_or in Hin as [Hin|Hin].
      * destruct (rec_reset1 m Hq Hr) as [H1 H2].
        exists (reset1 false m). split; [apply in_or_app; left; apply in_map; exact Hin|].
        rewrite reset1_tag, reset1_qos. repeat split; intros; assumption.
      * exfalso. apply (rec_nPQ m Hr). exact (proj1 (Forall_forall _ _) HB m Hin).
  - intros t Ht. pose proof (r_recl _ _ _ HR t Ht) as H. rewrite Eo in H.
    rewrite tags_app in *. unfold tags in *. rewrite !map_map. 
    rewrite (map_ext (fun x => o_tag (reset1 (clean_now c s) x)) o_tag) by (intros; apply reset1_tag). exact H.
  - discriminate.
  - exact (r_clean _ _ _ HR).
  - constructor.
  - constructor.
  - intros _. reflexivity.
  - intros t [].
Qed.

Lemma step_reconnect c s k ok : cfg_ok c = true -> Inv c s -> R c s k ->
  R c (fst (do_reconnect c s ok)) (k02_op (pers c) k (snd (do_reconnect c s ok))).
Proof.
  intros Hcfg I HR. destruct (reset_char c s (clean_now c s) Hcfg I) as (A & B & n & Eo & HB & E).
  unfold do_reconnect. rewrite E. destruct ok; cbn [fst snd].
  - rewrite k02_op_plain.
    2:{ cbn [existsb is_connack0 orb]. rewrite existsb_app. destruct (quiet_fold (pers c) _ k (lost_quiet (outq s))) as [_ ->]. reflexivity. }
    cbn [fold_left]. rewrite (quiet_ev _ _ Reconn eq_refl), fold_left_app.
    rewrite (proj1 (quiet_fold (pers c) _ k (lost_quiet (outq s)))). cbn [fold_left k02_ev].
    apply (R_reset c s k); try assumption; reflexivity.
  - rewrite k02_op_plain.
    2:{ cbn [existsb is_connack0 orb]. rewrite existsb_app. destruct (quiet_fold (pers c) _ k (lost_quiet (outq s))) as [_ ->]. reflexivity. }
    cbn [fold_left]. rewrite (quiet_ev _ _ Reconn eq_refl), fold_left_app.
    rewrite (proj1 (quiet_fold (pers c) _ k (lost_quiet (outq s)))). cbn [fold_left k02_ev].
    (* no socket: the blocked flag of the checker is irrelevant *)
    pose proof (R_reset c s k (mkK02 (k2_live k) (k2_h1 k) (k2_h2 k) (k2_sent k) (k2_rec k) false (k2_ok k)) A B
                  (if clean_now c s then [] else inm s) n false (conn s) Hcfg I HR Eo HB
                  eq_refl eq_refl eq_refl eq_refl eq_refl eq_refl eq_refl) as H.
    destruct H as [H1 H2 H3 H4 H5 H6 H7 H8 H9 H10 H11 H12 H13 H14].
    constructor; try assumption. cbn [sock]. discriminate.
Qed.

(* ---------------------------------------------------------------- connection lost *)
Lemma step_connlost c s k : R c s k ->
  R c (fst (step c s OConnLost)) (k02_op (pers c) k (snd (step c s OConnLost))).
Proof.
  intros HR. cbn [step]. destruct (sock s) eqn:Hs; cbn [fst snd]; rewrite quiet_op by reflexivity; [|exact HR].
  apply (R_down c s); try reflexivity; [cbn; apply andb_false_r | cbn; tauto | exact HR].
Qed.

(* ---------------------------------------------------------------- the accepting CONNACK *)
Lemma pubtags_cl : forall C, pubtags (flat_map cl_pk C) = tags (filter isPub C).
Proof.
  induction C as [|m C IH]; [reflexivity|]. cbn [flat_map filter]. rewrite pubtags_app, IH.
  unfold cl_pk, isPub. destruct (o_st m); try reflexivity. destruct (o_qos m =? 2); reflexivity.
Qed.

Lemma pubtags_rel : forall L, pubtags (map rel_pk L) = tags L.
Proof. induction L as [|m L IH]; [reflexivity|]. unfold pubtags in *. cbn [map flat_map]. rewrite IH. reflexivity. Qed.

Lemma noq0_cl_pk m : qos_okb m = true -> Forall noq0 (cl_pk m).
Proof.
  intros H. pose proof (qos_pos m H). unfold cl_pk. destruct (o_st m); try constructor.
  - unfold noq0, pub_pkt. cbn [q_pkt]. lia.
  - constructor.
  - destruct (o_qos m =? 2); repeat constructor.
Qed.

Lemma pubrel_tags_app sel a b : pubrel_tags sel (a ++ b) = pubrel_tags sel a ++ pubrel_tags sel b.
Proof. unfold pubrel_tags. apply flat_map_app. Qed.

Lemma pubrel_in (can : bool) cn sel :
  (sel = handed_sel \/ (sel = tx_sel /\ can = true)) ->
  forall C m, In m C -> isresend m = true -> o_qos m = 2 ->
  zin (o_tag m) (pubrel_tags sel (flat_map (ev1 can cn) (flat_map cl_pk C))) = true.
Proof.
  intros Hsel. induction C as [|x C IH]; intros m Hin Hr Hq; [destruct Hin|].
  cbn [flat_map]. rewrite flat_map_app, pubrel_tags_app, zin_app. destruct Hin as [->|Hin].
  - unfold cl_pk, isresend in *. destruct (o_st m); try discriminate.
    replace (o_qos m =? 2) with true by lia. cbn [flat_map ev1 rel_pkt q_pkt app].
    destruct Hsel as [->|[-> ->]]; cbn; rewrite Z.eqb_refl; reflexivity.
  - rewrite (IH m Hin Hr Hq). apply orb_true_r.
Qed.

Lemma NoDup_app_intro {A} (a b : list A) : NoDup a -> NoDup b -> (forall x, In x a -> In x b -> False) -> NoDup (a ++ b).
Proof.
  induction a as [|x a IH]; cbn [app]; intros Ha Hb Hd; [exact Hb|].
  inversion Ha as [|? ? Hx Ha']; subst. constructor.
  - intros Hin. apply in_app_or in Hin as [Hin|Hin]; [exact (Hx Hin) | exact (Hd x (or_introl eq_refl) Hin)].
  - apply IH; [exact Ha' | exact Hb|]. intros y Hy1 Hy2. exact (Hd y (or_intror Hy1) Hy2).
Qed.

Lemma tags_cl1 C Q : tags (map cl1 C ++ Q) = tags (C ++ Q).
Proof. rewrite !tags_app. f_equal. unfold tags. rewrite map_map. apply map_ext. apply cl1_tag. Qed.

Lemma step_connack0 c s k r : cfg_ok c = true -> Inv c s -> sock s = true -> cack s = false -> R c s k ->
  R c (fst (do_rx c s (IConnack 0) r)) (k02_op (pers c) k (snd (do_rx c s (IConnack 0) r))).
Proof.
  intros Hcfg I Hs Hck HR. pose proof (inv_qidle _ _ I) as Hi.
  destruct (connack_char c s r I Hs) as (C & Q & Eo & Sh & E). rewrite E. cbn [fst snd]. clear E.
  pose proof (sh_C _ _ _ _ _ Sh) as HC. pose proof (sh_Q _ _ _ _ _ Sh) as HQ.
  set (H := flat_map cl_pk C).
  assert (HinC : forall x, In x C -> In x (out s)) by (intros; rewrite Eo; apply in_or_app; left; assumption).
  assert (HinQ : forall x, In x Q -> In x (out s)) by (intros; rewrite Eo; apply in_or_app; right; assumption).
  assert (HH : Forall noq0 H).
  { apply Forall_flat_map. apply Forall_forall. intros x Hx. apply noq0_cl_pk. exact (inv_qos_ok _ _ _ I (HinC x Hx)). }
  pose proof (inv_nodup_tags _ _ I) as Hnd.
  assert (HndC : NoDup (pubtags H)).
  { unfold H. rewrite pubtags_cl. unfold tags. apply NoDup_map_filter.
    rewrite Eo, tags_app in Hnd. apply NoDup_app_l in Hnd. exact Hnd. }
  assert (Hhc : Forall (hc (pers c) k) H).
  { apply Forall_flat_map. apply Forall_forall. intros m Hm. unfold cl_pk.
    destruct (o_st m) eqn:Est; try constructor.
    - apply (msg_hc c s k m I HR (HinC m Hm)). left. unfold isPub. rewrite Est. reflexivity.
    - constructor.
    - destruct (o_qos m =? 2); repeat constructor. }
  rewrite (hand_all_evs _ _ _ _ Hi HH), (hand_all_fst _ _ _ _ Hi).
  destruct (hand_fold (pers c) (can_write s) (conn s) H k (r_ok _ _ _ HR) HndC Hhc) as ((Ok1 & L1 & R1 & B1) & A1 & A2 & A3).
  set (k' := fold_left (k02_ev (pers c)) (flat_map (ev1 (can_write s) (conn s)) H) k) in *.
  unfold H in A1, A2, A3. rewrite pubtags_cl in A1, A2, A3. fold H in A1, A2, A3.
  (* the tags of the messages whose PUBLISH is handed over are theirs alone *)
  assert (Hf1 : forall x, In x (out s) -> zin (o_tag x) (tags (filter isPub C)) = true -> In x C /\ isPub x = true).
  { intros x Hx Hz. apply zin_tags in Hz as (y & Hy & Et). apply filter_In in Hy as [Hy Hp].
    assert (y = x) by (eapply tag_inj; [exact Hnd|apply HinC; exact Hy|exact Hx|exact Et]). subst. tauto. }
  assert (Hf2 : forall x, In x C -> isPub x = true -> zin (o_tag x) (tags (filter isPub C)) = true).
  { intros x Hx Hp. apply zin_tags. exists x. split; [apply filter_In; tauto | reflexivity]. }
  (* the relation for the new state, whatever the final [ok] *)
  assert (Hrel : forall okk, okk = true ->
            R c (with_q (with_out (connack_s1 s) (map cl1 C ++ Q) (inflight s)) (if can_write s then [] else outq s ++ H))
              (mkK02 (k2_live k') (k2_h1 k') (k2_h2 k') (k2_sent k') (k2_rec k') (k2_blk k') okk)).
  { intros okk ->. constructor; cbn [k2_ok k2_live k2_h1 k2_h2 k2_sent k2_rec k2_blk out ntag sock cack first outq blocked
                                          with_q with_out connack_s1].
    - reflexivity.
    - rewrite L1, (r_live _ _ _ HR), Eo, !map_app, map_map. f_equal. apply map_ext. intros a. symmetry. apply lm_cl1.
    - intros m' Hin Hsn. rewrite A1. apply in_app_or in Hin as [Hin|Hin].
      + apply in_map_iff in Hin as (x & <- & Hx). rewrite cl1_tag. destruct (isPub x) eqn:Ep.
        * rewrite (Hf2 x Hx Ep). apply orb_true_r.
        * rewrite (snt_cl1_other _ Ep) in Hsn. rewrite (r_h1 _ _ _ HR x (HinC x Hx) Hsn). reflexivity.
      + rewrite (r_h1 _ _ _ HR m' (HinQ m' Hin) Hsn). reflexivity.
    - intros t Ht. rewrite A1 in Ht. apply orb_true_iff in Ht as [Ht|Ht].
      + exact (r_h1b _ _ _ HR _ Ht).
      + apply zin_tags in Ht as (y & Hy & <-). apply filter_In in Hy as [Hy _].
        apply (inv_tag_lt _ _ _ I (HinC y Hy)).
    - intros t Ht. rewrite A3 in Ht. apply orb_true_iff in Ht as [Ht|Ht].
      + exact (r_sh _ _ _ HR t Ht).
      + apply andb_true_iff in Ht as [_ Ht]. apply zin_tags in Ht as (y & Hy & <-). apply filter_In in Hy as [Hy _].
        apply (inv_tag_lt _ _ _ I (HinC y Hy)).
    - intros m' Hin Hst Hz. apply in_app_or in Hin as [Hin|Hin].
      + exfalso. apply in_map_iff in Hin as (x & <- & Hx).
        pose proof (cl1_wait x (inv_qos_ok _ _ _ I (HinC x Hx)) (proj1 (Forall_forall _ _) HC x Hx)) as Hw.
        destruct Hst as [Hst|Hst]; revert Hw Hst; unfold is_wait, isPub, is_queued; destruct (o_st (cl1 x)); discriminate.
      + rewrite A3 in Hz. apply orb_true_iff in Hz as [Hz|Hz].
        * apply (r_pend _ _ _ HR m' (HinQ m' Hin)); [|exact Hz]. right. exact (proj1 (Forall_forall _ _) HQ m' Hin).
        * apply andb_true_iff in Hz as [_ Hz]. destruct (Hf1 m' (HinQ m' Hin) Hz) as [_ Hp].
          pose proof (queued_npub m' (proj1 (Forall_forall _ _) HQ m' Hin)). congruence.
    - intros Hc t Ht. rewrite R1 in Ht. destruct (r_rec _ _ _ HR Hc t Ht) as (m & Hin & Et & Hq & Hrc & _).
      rewrite Eo in Hin. apply in_app_or in Hin as [Hin|Hin].
      + exists (cl1 m). rewrite cl1_tag, cl1_qos.
        split; [apply in_or_app; left; apply in_map; exact Hin|].
        repeat split; try assumption; [apply rec_cl1; exact Hrc | discriminate].
      + exfalso. pose proof (rec_nq m Hrc). pose proof (proj1 (Forall_forall _ _) HQ m Hin). congruence.
    - intros t Ht. rewrite R1 in Ht. pose proof (r_recl _ _ _ HR t Ht) as H0. rewrite Eo in H0.
      rewrite tags_cl1. exact H0.
    - reflexivity.
    - discriminate.
    - destruct (can_write s) eqn:Ec; [constructor|]. apply Forall_app. split.
      + apply Forall_forall. intros y Hy.
        pose proof (proj1 (Forall_forall _ _) (r_pk _ _ _ HR) y Hy) as Hpk. unfold pk_inv in *.
        destruct (q_pkt y) as [|mi qs d t| | | |] eqn:Ey; try exact Logic.I.
        destruct Hpk as (P1 & P2 & P3). split; [|split].
        * intros Hz. rewrite A3 in Hz. cbn [andb] in Hz. rewrite orb_false_r in Hz. exact (P1 Hz).
        * intros Hd. rewrite A2, (P2 Hd). reflexivity.
        * intros E0. destruct (P3 E0) as (A & B & C0). split; [exact A|]. split; [|exact C0].
          cbn [out with_out with_q]. intros Hin. apply B. rewrite tags_cl1, <- Eo in Hin. exact Hin.
      + apply Forall_flat_map. apply Forall_forall. intros m Hm. unfold cl_pk.
        destruct (o_st m) eqn:Est; try constructor.
        * unfold pk_inv, pub_pkt. cbn [q_pkt].
          assert (Hp : isPub m = true) by (unfold isPub; rewrite Est; reflexivity).
          split; [|split].
          -- intros Hz. rewrite A3 in Hz. cbn [andb] in Hz. rewrite orb_false_r in Hz.
             apply (r_pend _ _ _ HR m (HinC m Hm)); [left; exact Hp | exact Hz].
          -- intros Hd. rewrite A2, (Hf2 m Hm Hp), (r_h1 _ _ _ HR m (HinC m Hm) ltac:(rewrite (snt_pub m Hp); exact Hd)). apply orb_true_r.
          -- intros E0. pose proof (qos_pos m (inv_qos_ok _ _ _ I (HinC m Hm))). lia.
        * constructor.
        * destruct (o_qos m =? 2); repeat constructor.
    - destruct (can_write s) eqn:Ec; [constructor|]. rewrite pubtags_app.
      apply NoDup_app_intro; [exact (r_nd _ _ _ HR) | exact HndC|].
      intros t Ht1 Ht2. unfold H in Ht2. rewrite pubtags_cl in Ht2.
      unfold tags in Ht2. apply in_map_iff in Ht2 as (m & <- & Hm). apply filter_In in Hm as [Hm Hp].
      unfold pubtags in Ht1. apply in_flat_map in Ht1 as (y & Hy & Ht1). unfold pubtag in Ht1.
      destruct (q_pkt y) as [|mi qs d t| | | |] eqn:Ey; try (destruct Ht1; fail). destruct Ht1 as [Et|[]]. subst t.
      destruct (outq_pub c s k y mi qs d (o_tag m) I HR Hs Hy Ey) as (_ & _ & Hw).
      destruct (Z.eq_dec qs 0) as [E0|E0].
      + pose proof (proj1 (Forall_forall _ _) (r_pk _ _ _ HR) y Hy) as Hpk. unfold pk_inv in Hpk. rewrite Ey in Hpk.
        destruct Hpk as (_ & _ & P3). destruct (P3 E0) as (_ & B & _). apply B. unfold tags. apply in_map. exact (HinC m Hm).
      + destruct (Hw E0) as (w & Hwi & Et & _ & Hst & _).
        assert (w = m) by (eapply tag_inj; [exact Hnd | exact Hwi | exact (HinC m Hm) | exact Et]). subst w.
        revert Hp Hst. unfold isPub, wait_of. destruct (o_st m); try discriminate. destruct (qs =? 1); discriminate.
    - intros _. rewrite B1. exact (r_blk _ _ _ HR Hs).
    - destruct (can_write s); [intros t []|]. intros t Ht. rewrite pubtags_app in Ht. apply in_app_or in Ht as [Ht|Ht].
      + exact (r_qlt _ _ _ HR t Ht).
      + unfold H in Ht. rewrite pubtags_cl in Ht. unfold tags in Ht. apply in_map_iff in Ht as (m & <- & Hm).
        apply filter_In in Hm as [Hm _]. apply (inv_tag_lt _ _ _ I (HinC m Hm)). }
  unfold k02_op. cbn [existsb is_connack0 is_socklost fold_left k02_ev]. change (0 =? 0) with true. cbn [orb].
  rewrite nolost_ev1. cbn [negb]. rewrite !andb_true_r.
  fold k'. destruct (pers c) eqn:Ep.
  - apply Hrel. rewrite Ok1. cbn [andb]. apply forallb_forall. intros t Ht. apply zin_In in Ht.
    destruct (r_rec _ _ _ HR (pers_true _ Ep) t Ht) as (m & Hin & Et & Hq & Hrc & Hrs).
    assert (HmC : In m C).
    { rewrite Eo in Hin. apply in_app_or in Hin as [Hin|Hin]; [exact Hin|].
      exfalso. pose proof (rec_nq m Hrc). pose proof (proj1 (Forall_forall _ _) HQ m Hin). congruence. }
    cbn [pubrel_tags flat_map handed_sel tx_sel app].
    fold (pubrel_tags handed_sel (flat_map (ev1 (can_write s) (conn s)) H)).
    fold (pubrel_tags tx_sel (flat_map (ev1 (can_write s) (conn s)) H)).
    rewrite <- Et. unfold H.
    rewrite (pubrel_in (can_write s) (conn s) handed_sel (or_introl eq_refl) C m HmC (Hrs Hs Hck) Hq). cbn [andb].
    destruct (can_write s) eqn:Ec.
    + rewrite (pubrel_in true (conn s) tx_sel (or_intror (conj eq_refl eq_refl)) C m HmC (Hrs Hs Hck) Hq). apply orb_true_r.
    + rewrite B1, (r_blk _ _ _ HR Hs). unfold can_write in Ec. rewrite Hs in Ec. cbn in Ec. destruct (blocked s); [reflexivity | discriminate].
  - destruct k' as [a1 a2 a3 a4 a5 a6 a7] eqn:Ek. cbn [k2_ok] in Ok1. subst a7.
    apply (Hrel true eq_refl).
Qed.

(* ---------------------------------------------------------------- final acknowledgement (PUBACK / PUBCOMP) *)
Lemma noq0_rel_pk m : qos_okb m = true -> noq0 (rel_pk m).
Proof. intros H. pose proof (qos_pos m H). unfold noq0, rel_pk, pub_pkt. cbn [q_pkt]. lia. Qed.

Lemma step_final c s k m ip : cfg_ok c = true -> Inv c s -> sock s = true -> cack s = true ->
  In m (out s) -> is_wait m = true -> quiet (Inp ip) = true -> R c s k ->
  R c (fst (do_on_publish c s m)) (k02_op (pers c) k (Inp ip :: snd (do_on_publish c s m))).
Proof.
  intros Hcfg I Hs Hck Hin Hw Hip HR. pose proof (inv_qidle _ _ I) as Hi.
  destruct (on_publish_char c Hcfg s m (inv_m _ _ I) Hs Hck Hin Hw)
    as (l1 & l2 & Q & j & n & So & Se & SQ & _ & _ & _ & _ & E).
  rewrite E. cbn [fst snd]. clear E.
  set (L := firstn j Q). set (B := skipn j Q). set (H := map rel_pk L).
  assert (Eo : out s = l1 ++ m :: l2 ++ L ++ B).
  { rewrite So, <- app_assoc. cbn [app]. unfold L, B. rewrite firstn_skipn. reflexivity. }
  assert (HL : Forall (fun x => is_queued x = true) L) by (apply Forall_firstn; exact SQ).
  assert (HB : Forall (fun x => is_queued x = true) B) by (apply Forall_skipn; exact SQ).
  pose proof (inv_nodup_tags _ _ I) as Hnd.
  (* positions *)
  assert (Hi1 : forall x, In x l1 -> In x (out s)) by (intros; rewrite Eo; apply in_or_app; left; assumption).
  assert (Hi2 : forall x, In x l2 -> In x (out s)).
  { intros; rewrite Eo; apply in_or_app; right; right; apply in_or_app; left; assumption. }
  assert (HiL : forall x, In x L -> In x (out s)).
  { intros; rewrite Eo; apply in_or_app; right; right; apply in_or_app; right; apply in_or_app; left; assumption. }
  assert (HiB : forall x, In x B -> In x (out s)).
  { intros; rewrite Eo; apply in_or_app; right; right; apply in_or_app; right; apply in_or_app; right; assumption. }
  pose proof Hnd as Hnd0. rewrite Eo, tags_app in Hnd0.
  pose proof (NoDup_app_r _ _ Hnd0) as Hnd1. cbn [tags map] in Hnd1. fold (tags (l2 ++ L ++ B)) in Hnd1.
  inversion Hnd1 as [|? ? Hm2 Hnd2]; subst. rewrite tags_app in Hnd2.
  pose proof (NoDup_app_r _ _ Hnd2) as Hnd3. rewrite tags_app in Hnd3.
  pose proof (NoDup_app_l _ _ Hnd3) as HndL.
  assert (HLtag : forall x y, In x (out s) -> In y L -> o_tag x = o_tag y -> In x L).
  { intros x y Hx Hy Et. assert (x = y) by (eapply tag_inj; [exact Hnd|exact Hx|apply HiL; exact Hy|exact Et]).
    subst. exact Hy. }
  assert (D1 : forall x, In x l1 -> In x L -> False).
  { intros x H1 H2. apply (NoDup_app_disj _ _ (o_tag x) Hnd0); [apply (in_map o_tag); exact H1|].
    cbn [tags map]. right. unfold tags. rewrite !map_app. apply in_or_app. right. apply in_or_app. left.
    apply (in_map o_tag). exact H2. }
  assert (D2 : forall x, In x l2 -> In x L -> False).
  { intros x H1 H2. apply (NoDup_app_disj _ _ (o_tag x) Hnd2); [apply (in_map o_tag); exact H1|].
    rewrite tags_app. apply in_or_app. left. apply (in_map o_tag). exact H2. }
  assert (D3 : forall x, In x B -> In x L -> False).
  { intros x H1 H2. apply (NoDup_app_disj _ _ (o_tag x) Hnd3); apply (in_map o_tag); assumption. }
  assert (HnL : forall x, In x (out s) -> ~ In x L -> zin (o_tag x) (tags L) = false).
  { intros x Hx Hn. destruct (zin (o_tag x) (tags L)) eqn:Ez; [|reflexivity]. exfalso.
    apply zin_tags in Ez as (y & Hy & Et). apply Hn. apply (HLtag x y Hx Hy). symmetry. exact Et. }
  assert (HH : Forall noq0 H).
  { apply Forall_map. apply Forall_forall. intros x Hx. apply noq0_rel_pk. exact (inv_qos_ok _ _ _ I (HiL x Hx)). }
  rewrite (hand_all_evs _ _ _ _ Hi HH), (hand_all_fst _ _ _ _ Hi).
  assert (Hnc : existsb is_connack0 (Inp ip :: CbPublish (o_mid m) (o_tag m) :: Published (o_tag m)
                                       :: flat_map (ev1 (can_write s) (conn s)) H) = false).
  { cbn [existsb]. rewrite noconn_ev1. destruct ip; try reflexivity; discriminate. }
  rewrite k02_op_plain by exact Hnc. cbn [fold_left]. rewrite (quiet_ev _ _ _ Hip). cbn [k02_ev].
  set (k1 := mkK02 (lrem_tag (o_tag m) (k2_live k)) (k2_h1 k) (k2_h2 k) (k2_sent k) (zrem (o_tag m) (k2_rec k)) (k2_blk k) (k2_ok k)).
  assert (Hhc : Forall (hc (pers c) k1) H).
  { apply Forall_map. apply Forall_forall. intros y Hy.
    pose proof (msg_hc c s k y I HR (HiL y Hy) (or_intror (proj1 (Forall_forall _ _) HL y Hy))) as Hc.
    unfold hc, rel_pk, pub_pkt in *. cbn [q_pkt] in *. destruct Hc as (C1 & C2 & C3 & C4).
    unfold k1. cbn [k2_rec k2_h1 k2_sent]. split; [|split; [exact C2|split; [exact C3|exact C4]]].
    intros Ep. rewrite zin_zrem, (C1 Ep). apply andb_false_r. }
  assert (HndH : NoDup (pubtags H)) by (unfold H; rewrite pubtags_rel; exact HndL).
  destruct (hand_fold (pers c) (can_write s) (conn s) H k1 (r_ok _ _ _ HR) HndH Hhc) as ((Ok1 & L1 & R1 & B1) & A1 & A2 & A3).
  set (k' := fold_left (k02_ev (pers c)) (flat_map (ev1 (can_write s) (conn s)) H) k1) in *.
  unfold H in A1, A2, A3. rewrite pubtags_rel in A1, A2, A3. fold H in A1, A2, A3.
  unfold k1 in L1, R1, B1, A1, A2, A3. cbn [k2_live k2_rec k2_blk k2_h1 k2_h2 k2_sent] in L1, R1, B1, A1, A2, A3.
  set (o' := (l1 ++ l2) ++ map rel1 L ++ B).
  assert (Ho' : forall x, In x o' -> In x l1 \/ In x l2 \/ (exists y, In y L /\ x = rel1 y) \/ In x B).
  { intros x Hx. unfold o' in Hx. apply in_app_or in Hx as [Hx|Hx].
    - apply in_app_or in Hx as [Hx|Hx]; [left | right; left]; exact Hx.
    - apply in_app_or in Hx as [Hx|Hx]; [|right; right; right; exact Hx].
      apply in_map_iff in Hx as (y & <- & Hy). right. right. left. exists y. split; [exact Hy | reflexivity]. }
  assert (Htags' : forall t, In t (tags o') -> In t (tags (out s)) /\ t <> o_tag m).
  { intros t Ht. unfold tags in Ht. apply in_map_iff in Ht as (x & <- & Hx).
    destruct (Ho' x Hx) as [Hx'|[Hx'|[(y & Hy & ->)|Hx']]].
    - split; [apply in_map; exact (Hi1 x Hx')|]. intros Et. apply (NoDup_app_disj _ _ (o_tag x) Hnd0); [apply (in_map o_tag); exact Hx'|].
      cbn [tags map]. left. symmetry. exact Et.
    - split; [apply in_map; exact (Hi2 x Hx')|]. intros Et. apply Hm2. rewrite <- Et. unfold tags. rewrite map_app. apply in_or_app. left. apply in_map. exact Hx'.
    - change (o_tag (rel1 y)) with (o_tag y). split; [apply in_map; exact (HiL y Hy)|]. intros Et. apply Hm2. rewrite <- Et.
      unfold tags. rewrite !map_app. apply in_or_app. right. apply in_or_app. left. apply in_map. exact Hy.
    - split; [apply in_map; exact (HiB x Hx')|]. intros Et. apply Hm2. rewrite <- Et.
      unfold tags. rewrite !map_app. apply in_or_app. right. apply in_or_app. right. apply in_map. exact Hx'. }
  constructor; cbn [with_out with_q out ntag sock cack first outq blocked].
  - exact Ok1.
  - rewrite L1, (r_live _ _ _ HR), Eo, (lrem_tag_split l1 m (l2 ++ L ++ B)) by (rewrite <- Eo; exact Hnd).
    fold o'. unfold o'. rewrite !map_app, map_map. rewrite <- !app_assoc. reflexivity.
  - fold o'. intros x Hx Hsn. rewrite A1. destruct (Ho' x Hx) as [Hx'|[Hx'|[(y & Hy & ->)|Hx']]].
    + rewrite (r_h1 _ _ _ HR x (Hi1 x Hx') Hsn). reflexivity.
    + rewrite (r_h1 _ _ _ HR x (Hi2 x Hx') Hsn). reflexivity.
    + change (o_tag (rel1 y)) with (o_tag y).
      replace (zin (o_tag y) (tags L)) with true; [apply orb_true_r|].
      symmetry. apply zin_tags. exists y. split; [exact Hy|reflexivity].
    + rewrite (r_h1 _ _ _ HR x (HiB x Hx') Hsn). reflexivity.
  - intros t Ht. rewrite A1 in Ht. apply orb_true_iff in Ht as [Ht|Ht].
    + exact (r_h1b _ _ _ HR _ Ht).
    + apply zin_tags in Ht as (y & Hy & <-). apply (inv_tag_lt _ _ _ I (HiL y Hy)).
  - intros t Ht. rewrite A3 in Ht. apply orb_true_iff in Ht as [Ht|Ht].
    + exact (r_sh _ _ _ HR t Ht).
    + apply andb_true_iff in Ht as [_ Ht]. apply zin_tags in Ht as (y & Hy & <-). apply (inv_tag_lt _ _ _ I (HiL y Hy)).
  - fold o'. intros x Hx Hst Hz. destruct (Ho' x Hx) as [Hx'|[Hx'|[(y & Hy & ->)|Hx']]].
    + exfalso. pose proof (proj1 (Forall_forall _ _) Se x ltac:(apply in_or_app; left; exact Hx')) as Hwx. cbn beta in Hwx.
      destruct Hst as [Hst|Hst]; revert Hwx Hst; unfold is_wait, isPub, is_queued; destruct (o_st x); discriminate.
    + exfalso. pose proof (proj1 (Forall_forall _ _) Se x ltac:(apply in_or_app; right; exact Hx')) as Hwx. cbn beta in Hwx.
      destruct Hst as [Hst|Hst]; revert Hwx Hst; unfold is_wait, isPub, is_queued; destruct (o_st x); discriminate.
    + exfalso. pose proof (rel1_wait y) as Hwx.
      destruct Hst as [Hst|Hst]; revert Hwx Hst; unfold is_wait, isPub, is_queued; destruct (o_st (rel1 y)); discriminate.
    + rewrite A3 in Hz. apply orb_true_iff in Hz as [Hz|Hz].
      * apply (r_pend _ _ _ HR x (HiB x Hx')); [|exact Hz]. right. exact (proj1 (Forall_forall _ _) HB x Hx').
      * apply andb_true_iff in Hz as [_ Hz]. rewrite (HnL x (HiB x Hx') (D3 x Hx')) in Hz. discriminate.
  - fold o'. intros Hc t Ht. rewrite R1, zin_zrem in Ht. apply andb_true_iff in Ht as [Hne Ht].
    destruct (r_rec _ _ _ HR Hc t Ht) as (x & Hx & Et & Hq & Hrc & Hrs).
    exists x. split; [|repeat split; assumption].
    rewrite Eo in Hx. unfold o'. apply in_app_or in Hx as [Hx|[Hx|Hx]].
    * apply in_or_app. left. apply in_or_app. left. exact Hx.
    * exfalso. subst x. lia.
    * apply in_app_or in Hx as [Hx|Hx]; [apply in_or_app; left; apply in_or_app; right; exact Hx|].
      apply in_or_app. right. apply in_app_or in Hx as [Hx|Hx]; [|apply in_or_app; right; exact Hx].
      exfalso. pose proof (queued_nrec x (proj1 (Forall_forall _ _) HL x Hx)). congruence.
  - fold o'. intros t Ht. rewrite R1, zin_zrem in Ht. apply andb_true_iff in Ht as [Hne Ht].
    pose proof (r_recl _ _ _ HR t Ht) as Hin'. rewrite Eo in Hin'. unfold o'.
    rewrite !tags_app in *. cbn [tags map] in Hin'. apply in_app_or in Hin' as [Hx|[Hx|Hx]].
    * apply in_or_app. left. apply in_or_app. left. exact Hx.
    * exfalso. lia.
    * fold (tags (l2 ++ L ++ B)) in Hx. rewrite !tags_app in Hx. apply in_app_or in Hx as [Hx|Hx]; [apply in_or_app; left; apply in_or_app; right; exact Hx|].
      apply in_or_app. right. apply in_app_or in Hx as [Hx|Hx]; apply in_or_app; [left | right; exact Hx].
      unfold tags. rewrite map_map. exact Hx.
  - exact (r_first _ _ _ HR).
  - intros Hc Hf. rewrite R1, (r_clean _ _ _ HR Hc Hf). reflexivity.
  - fold o'. destruct (can_write s) eqn:Ec; [constructor|]. apply Forall_app. split.
    + apply Forall_forall. intros y Hy.
      pose proof (proj1 (Forall_forall _ _) (r_pk _ _ _ HR) y Hy) as Hpk. unfold pk_inv in *.
      destruct (q_pkt y) as [|mi qs d t| | | |] eqn:Ey; try exact Logic.I.
      destruct Hpk as (P1 & P2 & P3). split; [|split].
      * intros Hz. rewrite A3 in Hz. cbn [andb] in Hz. rewrite orb_false_r in Hz. exact (P1 Hz).
      * intros Hd. rewrite A2, (P2 Hd). reflexivity.
      * intros E0. destruct (P3 E0) as (A & B0 & C0). split; [exact A|]. split; [|exact C0].
        cbn [out with_out with_q]. intros Hin'. apply B0. exact (proj1 (Htags' t Hin')).
    + apply Forall_map. apply Forall_forall. intros y Hy. unfold pk_inv, rel_pk, pub_pkt. cbn [q_pkt].
      pose proof (proj1 (Forall_forall _ _) HL y Hy) as Hqy. cbn beta in Hqy.
      split; [|split].
      * intros Hz. rewrite A3 in Hz. cbn [andb] in Hz. rewrite orb_false_r in Hz.
        apply (r_pend _ _ _ HR y (HiL y Hy)); [right; exact Hqy | exact Hz].
      * intros Hd. rewrite A2. replace (zin (o_tag y) (tags L)) with true by (symmetry; apply zin_tags; exists y; split; [exact Hy|reflexivity]).
        rewrite (r_h1 _ _ _ HR y (HiL y Hy) ltac:(rewrite (snt_queued y Hqy); exact Hd)). apply orb_true_r.
      * intros E0. pose proof (qos_pos y (inv_qos_ok _ _ _ I (HiL y Hy))). lia.
  - destruct (can_write s) eqn:Ec; [constructor|]. rewrite pubtags_app.
    apply NoDup_app_intro; [exact (r_nd _ _ _ HR) | exact HndH|].
    intros t Ht1 Ht2. unfold H in Ht2. rewrite pubtags_rel in Ht2.
    unfold tags in Ht2. apply in_map_iff in Ht2 as (y & <- & Hy).
    pose proof (proj1 (Forall_forall _ _) HL y Hy) as Hqy. cbn beta in Hqy.
    unfold pubtags in Ht1. apply in_flat_map in Ht1 as (z & Hz & Ht1). unfold pubtag in Ht1.
    destruct (q_pkt z) as [|mi qs d t| | | |] eqn:Ez; try (destruct Ht1; fail). destruct Ht1 as [Et|[]]. subst t.
    destruct (outq_pub c s k z mi qs d (o_tag y) I HR Hs Hz Ez) as (_ & _ & Hwz).
    destruct (Z.eq_dec qs 0) as [E0|E0].
    + pose proof (proj1 (Forall_forall _ _) (r_pk _ _ _ HR) z Hz) as Hpk. unfold pk_inv in Hpk. rewrite Ez in Hpk.
      destruct Hpk as (_ & _ & P3). destruct (P3 E0) as (_ & B0 & _). apply B0. unfold tags. apply in_map. exact (HiL y Hy).
    + destruct (Hwz E0) as (w & Hwi & Et & _ & Hst & _).
      assert (w = y) by (eapply tag_inj; [exact Hnd | exact Hwi | exact (HiL y Hy) | exact Et]). subst w.
      revert Hqy Hst. unfold is_queued, wait_of. destruct (o_st y); try discriminate. destruct (qs =? 1); discriminate.
  - intros _. rewrite B1. exact (r_blk _ _ _ HR Hs).
  - destruct (can_write s); [intros t []|]. intros t Ht. rewrite pubtags_app in Ht. apply in_app_or in Ht as [Ht|Ht].
    + exact (r_qlt _ _ _ HR t Ht).
    + unfold H in Ht. rewrite pubtags_rel in Ht. unfold tags in Ht. apply in_map_iff in Ht as (y & <- & Hy).
      apply (inv_tag_lt _ _ _ I (HiL y Hy)).
Qed.

(* ---------------------------------------------------------------- PUBREC *)
Lemma step_pubrec c s k mid r : Inv c s -> sock s = true ->
  conf_op c s (ORx (IPubrec mid) r) = true -> R c s k ->
  R c (fst (do_rx c s (IPubrec mid) r)) (k02_op (pers c) k (snd (do_rx c s (IPubrec mid) r))).
Proof.
  intros I Hs Hconf HR. cbn [conf_op] in Hconf. rewrite Hs in Hconf. cbn [negb] in Hconf. pose proof (inv_qidle _ _ I) as Hi.
  unfold do_rx. rewrite Hs. cbn [negb].
  destruct (find_mid mid (out s)) as [m|] eqn:Ef; cbn [fst snd].
  - apply andb_true_iff in Hconf as [Hck Hconf]. apply andb_true_iff in Hconf as [Hq Hst].
    assert (Hw : is_wait m = true) by (unfold is_wait; destruct (o_st m); try reflexivity; discriminate).
    assert (Hq2 : o_qos m = 2) by lia.
    destruct (find_mid_split _ _ _ Ef) as (l1 & l2 & Eo & Hn1 & Hmid).
    set (s1 := with_out s (update_mid mid (fun m0 => set_st m0 MsWaitPubcomp) (out s)) (inflight s)).
    set (x := mkQ (PPubrel mid (o_tag m)) false).
    assert (HH : Forall noq0 [x]) by (repeat constructor).
    rewrite (send_hand_all s1 x). cbn [fst snd].
    rewrite (hand_all_evs _ _ _ _ Hi HH), (hand_all_fst _ _ _ _ Hi).
    rewrite k02_op_plain by (cbn [existsb is_connack0 orb]; apply noconn_ev1).
    cbn [fold_left k02_ev].
    rewrite (r_live _ _ _ HR), lfind_mid_map, Ef. cbn [option_map]. change (l_tag (lm m)) with (o_tag m).
    rewrite <- (r_live _ _ _ HR).
    assert (Eq : forall k0, fold_left (k02_ev (pers c)) (flat_map (ev1 (can_write s1) (conn s1)) [x]) k0 = k0).
    { intros k0. cbn [flat_map ev1 x q_pkt app]. destruct (can_write s1); reflexivity. }
    rewrite Eq. clear Eq.
    unfold s1. cbn [out with_out with_q ntag sock cack first outq blocked].
    rewrite Eo, (update_mid_split _ _ l1 m l2 Hn1 Hmid).
    set (m' := set_st m MsWaitPubcomp).
    assert (Hin : In m (out s)) by (rewrite Eo; apply in_or_app; right; left; reflexivity).
    assert (Hsub : forall y, In y (l1 ++ m' :: l2) -> y = m' \/ In y (out s)).
    { intros y Hy. rewrite Eo. apply in_app_or in Hy as [Hy|[Hy|Hy]].
      - right. apply in_or_app. left. exact Hy.
      - left. symmetry. exact Hy.
      - right. apply in_or_app. right. right. exact Hy. }
    assert (Hsup : forall y, In y (out s) -> y = m \/ In y (l1 ++ m' :: l2)).
    { intros y Hy. rewrite Eo in Hy. apply in_app_or in Hy as [Hy|[Hy|Hy]].
      - right. apply in_or_app. left. exact Hy.
      - left. symmetry. exact Hy.
      - right. apply in_or_app. right. right. exact Hy. }
    assert (Htg : tags (l1 ++ m' :: l2) = tags (out s)) by (rewrite Eo; unfold tags; rewrite !map_app; reflexivity).
    constructor; cbn [with_out with_q out ntag sock cack first outq blocked k2_ok k2_live k2_h1 k2_h2 k2_sent k2_rec k2_blk].
    + exact (r_ok _ _ _ HR).
    + rewrite (r_live _ _ _ HR), Eo, !map_app. reflexivity.
    + intros y Hy Hsn. destruct (Hsub y Hy) as [->|Hy'].
      * change (o_tag m') with (o_tag m). apply (r_h1 _ _ _ HR m Hin). apply (snt_wait m Hw).
      * apply (r_h1 _ _ _ HR); assumption.
    + exact (r_h1b _ _ _ HR).
    + exact (r_sh _ _ _ HR).
    + intros y Hy Hsty Hz. destruct (Hsub y Hy) as [->|Hy'].
      * exfalso. destruct Hsty as [Hsty|Hsty]; discriminate.
      * exact (r_pend _ _ _ HR y Hy' Hsty Hz).
    + intros Hc t Ht. rewrite zin_zadd in Ht.
      assert (Hm' : In m' (l1 ++ m' :: l2)) by (apply in_or_app; right; left; reflexivity).
      destruct (t =? o_tag m) eqn:Et.
      * exists m'. split; [exact Hm'|]. repeat split; try assumption; [cbn; lia | congruence].
      * cbn [orb] in Ht. destruct (r_rec _ _ _ HR Hc t Ht) as (y & Hy & Ety & Hqy & Hrc & Hrs).
        destruct (Hsup y Hy) as [->|Hy']; [lia|]. exists y. repeat split; assumption.
    + intros t Ht. rewrite Htg. rewrite zin_zadd in Ht. apply orb_true_iff in Ht as [Ht|Ht].
      * assert (t = o_tag m) by lia. subst t. unfold tags. apply in_map. exact Hin.
      * exact (r_recl _ _ _ HR t Ht).
    + exact (r_first _ _ _ HR).
    + intros Hc Hf. rewrite (r_first _ _ _ HR Hck) in Hf. discriminate.
    + assert (Hold : Forall (pk_inv (with_q (with_out s (l1 ++ m' :: l2) (inflight s)) (if can_write s then [] else outq s ++ [x]))
                         (mkK02 (k2_live k) (k2_h1 k) (k2_h2 k) (k2_sent k) (zadd (o_tag m) (k2_rec k)) (k2_blk k) (k2_ok k))) (outq s)).
      { eapply Forall_impl; [|exact (r_pk _ _ _ HR)]. intros y. unfold pk_inv. destruct (q_pkt y); try exact (fun a => a).
        cbn [out with_out with_q ntag k2_sent k2_h2]. rewrite Htg. exact (fun a => a). }
      change (can_write (with_out s (update_mid mid (fun m0 => set_st m0 MsWaitPubcomp) (out s)) (inflight s))) with (can_write s).
      destruct (can_write s); [constructor|]. apply Forall_app. split; [exact Hold|]. repeat constructor.
    + change (can_write (with_out s (update_mid mid (fun m0 => set_st m0 MsWaitPubcomp) (out s)) (inflight s))) with (can_write s).
      destruct (can_write s); [constructor|]. rewrite pubtags_app. cbn. rewrite app_nil_r. exact (r_nd _ _ _ HR).
    + exact (r_blk _ _ _ HR).
    + change (can_write (with_out s (update_mid mid (fun m0 => set_st m0 MsWaitPubcomp) (out s)) (inflight s))) with (can_write s).
      destruct (can_write s); [intros t []|]. rewrite pubtags_app. cbn. rewrite app_nil_r. exact (r_qlt _ _ _ HR).
  - rewrite k02_op_plain by reflexivity. cbn [fold_left k02_ev].
    rewrite (r_live _ _ _ HR), lfind_mid_map, Ef. cbn [option_map]. exact HR.
Qed.

(* ---------------------------------------------------------------- the transport blocks / accepts again *)
Lemma step_block c s k b : Inv c s -> R c s k ->
  R c (fst (do_block s b)) (k02_op (pers c) k (snd (do_block s b))).
Proof.
  intros I HR. unfold do_block. destruct (sock s) eqn:Hs; [|cbn [fst snd]; rewrite quiet_op by reflexivity; exact HR].
  destruct b; cbn [fst snd lw].
  - rewrite k02_op_plain by reflexivity. cbn [fold_left k02_ev].
    destruct HR as [H1 H2 H3 H4 H5 H6 H7 H8 H9 H10 H11 H12 H13 H14].
    constructor; cbn [k2_ok k2_live k2_h1 k2_h2 k2_sent k2_rec k2_blk out ntag sock cack first outq blocked with_blocked];
      try assumption. intros _. reflexivity.
  - rewrite k02_op_plain by (cbn [existsb is_connack0 orb]; apply noconn_flush). cbn [fold_left].
    set (k0 := k02_ev (pers c) k (Blk false)).
    assert (Hwc : Forall (wc (pers c) k0) (outq s)) by exact (outq_wc c s k I HR Hs).
    destruct (flush_fold02 (pers c) (conn s) (outq s) k0 (r_ok _ _ _ HR) (r_nd _ _ _ HR) Hwc)
      as ((Ok1 & L1 & R1 & B1) & G1 & G2 & A3).
    set (k' := fold_left (k02_ev (pers c)) (flush_evs (conn s) (outq s)) k0) in *.
    unfold k0 in L1, R1, B1, G1, G2, A3. cbn [k02_ev k2_live k2_rec k2_blk k2_h1 k2_h2 k2_sent] in L1, R1, B1, G1, G2, A3.
    pose proof (inv_nodup_tags _ _ I) as Hnd.
    constructor; cbn [out ntag sock cack first outq blocked with_q with_blocked]; rewrite ?L1, ?R1, ?G1, ?G2.
    + exact Ok1.
    + exact (r_live _ _ _ HR).
    + exact (r_h1 _ _ _ HR).
    + exact (r_h1b _ _ _ HR).
    + intros t Ht. rewrite A3 in Ht. apply orb_true_iff in Ht as [Ht|Ht]; [exact (r_sh _ _ _ HR t Ht)|].
      apply zin_In in Ht. exact (outq_tags_lt c s k t I HR Ht).
    + intros m Hin Hst Hz. rewrite A3 in Hz. apply orb_true_iff in Hz as [Hz|Hz]; [exact (r_pend _ _ _ HR m Hin Hst Hz)|].
      exfalso. apply zin_In in Hz. unfold pubtags in Hz. apply in_flat_map in Hz as (y & Hy & Ht). unfold pubtag in Ht.
      destruct (q_pkt y) as [|mi qs d t| | | |] eqn:Ey; try (destruct Ht; fail). destruct Ht as [Et|[]]. subst t.
      destruct (outq_pub c s k y mi qs d (o_tag m) I HR Hs Hy Ey) as (_ & _ & Hwy).
      destruct (Z.eq_dec qs 0) as [E0|E0].
      * pose proof (proj1 (Forall_forall _ _) (r_pk _ _ _ HR) y Hy) as Hpk. unfold pk_inv in Hpk. rewrite Ey in Hpk.
        destruct Hpk as (_ & _ & P3). destruct (P3 E0) as (_ & B0 & _). apply B0. unfold tags. apply in_map. exact Hin.
      * destruct (Hwy E0) as (w & Hwi & Et & _ & Hstw & _).
        assert (w = m) by (eapply tag_inj; [exact Hnd | exact Hwi | exact Hin | exact Et]). subst w.
        destruct Hst as [Hst|Hst]; revert Hst Hstw; unfold isPub, is_queued, wait_of; destruct (o_st m); try discriminate;
          destruct (qs =? 1); discriminate.
    + exact (r_rec _ _ _ HR).
    + exact (r_recl _ _ _ HR).
    + exact (r_first _ _ _ HR).
    + exact (r_clean _ _ _ HR).
    + constructor.
    + constructor.
    + intros _. exact B1.
    + intros t [].
Qed.

(* ---------------------------------------------------------------- one operation *)
Lemma with_inm_R c s k i : R c s k -> R c (with_inm s i) k.
Proof. intros HR. apply (R_ext c s); try reflexivity; try (cbn; lia). exact HR. Qed.

Lemma step_R c s k o : cfg_ok c = true -> Inv c s -> conf_op c s o = true -> R c s k ->
  R c (fst (step c s o)) (k02_op (pers c) k (snd (step c s o))).
Proof.
  intros Hcfg I Hconf HR. destruct o as [q|ok| |p r|mid q|b]; cbn [step].
  - apply step_publish; assumption.
  - apply step_reconnect; assumption.
  - apply step_connlost. exact HR.
  - destruct (sock s) eqn:Hs.
    2:{ unfold do_rx. rewrite Hs. cbn [negb fst snd]. rewrite quiet_op by reflexivity. exact HR. }
    assert (Hreply : forall s1 x pre, Inv c s1 -> R c s1 k -> is_reply x -> forallb quiet pre = true ->
              R c (fst (let (s2, ev2) := send s1 x in (s2, pre ++ ev2)))
                  (k02_op (pers c) k (snd (let (s2, ev2) := send s1 x in (s2, pre ++ ev2))))).
    { intros s1 x pre I1 HR1 Hx Hpre. pose proof (R_send_reply c s1 k x pre I1 Hx Hpre HR1) as H.
      destruct (send s1 x) as [s2 ev]. exact H. }
    destruct p as [rc|mid|mid|mid|mid|q mid tag].
    + (* CONNACK *)
      cbn [conf_op] in Hconf. rewrite Hs in Hconf. cbn [negb] in Hconf.
      destruct (rc =? 0) eqn:Erc.
      * assert (rc = 0) by lia. subst rc. apply step_connack0; try assumption. destruct (cack s); [discriminate|reflexivity].
      * unfold do_rx. rewrite Hs, Erc. cbn [negb fst snd].
        rewrite k02_op_plain by (cbn [existsb is_connack0]; rewrite Erc; reflexivity).
        cbn [fold_left k02_ev].
        apply (R_down c s); try reflexivity; [cbn; discriminate | exact HR].
    + (* PUBACK *)
      unfold do_rx. rewrite Hs. cbn [negb]. cbn [conf_op] in Hconf. rewrite Hs in Hconf. cbn [negb] in Hconf.
      destruct (find_mid mid (out s)) as [m|] eqn:Ef.
      * apply andb_true_iff in Hconf as [Hck Hconf]. apply andb_true_iff in Hconf as [Hconf _].
        apply andb_true_iff in Hconf as [Hq Hst].
        pose proof (find_mid_In _ _ _ Ef) as [Hin Hmid].
        assert (Hw : is_wait m = true) by (unfold is_wait; destruct (o_st m); try reflexivity; discriminate).
        pose proof (step_final c s k m (IPuback mid) Hcfg I Hs Hck Hin Hw eq_refl HR) as H.
        destruct (do_on_publish c s m) as [s' ev]. exact H.
      * cbn [fst snd]. rewrite quiet_op by reflexivity. exact HR.
    + apply step_pubrec; assumption.
    + (* PUBCOMP *)
      unfold do_rx. rewrite Hs. cbn [negb]. cbn [conf_op] in Hconf. rewrite Hs in Hconf. cbn [negb] in Hconf.
      destruct (find_mid mid (out s)) as [m|] eqn:Ef.
      * apply andb_true_iff in Hconf as [Hck Hconf]. apply andb_true_iff in Hconf as [Hconf _].
        apply andb_true_iff in Hconf as [Hq Hst].
        pose proof (find_mid_In _ _ _ Ef) as [Hin Hmid].
        assert (Hw : is_wait m = true) by (unfold is_wait; destruct (o_st m); try reflexivity; discriminate).
        pose proof (step_final c s k m (IPubcomp mid) Hcfg I Hs Hck Hin Hw eq_refl HR) as H.
        destruct (do_on_publish c s m) as [s' ev]. exact H.
      * cbn [fst snd]. rewrite quiet_op by reflexivity. exact HR.
    + (* PUBREL *)
      unfold do_rx, deliver. rewrite Hs. cbn [negb].
      destruct (in_find mid (inm s)) as [tag|].
      * destruct (r && negb (c_suppress c)); [|destruct (c_manual c)];
          try solve [cbn [fst snd app]; rewrite quiet_op by reflexivity; apply with_inm_R; exact HR].
        apply (Hreply _ _ [Inp (IPubrel mid); CbMessage mid 2 tag]);
          [apply inv_with_inm; exact I | apply with_inm_R; exact HR | exact Logic.I | reflexivity].
      * destruct (c_manual c); [cbn [fst snd]; rewrite quiet_op by reflexivity; exact HR|].
        apply (Hreply _ _ [Inp (IPubrel mid)]); [exact I | exact HR | exact Logic.I | reflexivity].
    + (* PUBLISH *)
      unfold do_rx, deliver. rewrite Hs. cbn [negb].
      destruct (q =? 0); [|destruct (q =? 1)].
      * destruct (r && negb (c_suppress c)); cbn [fst snd]; rewrite quiet_op by reflexivity; exact HR.
      * destruct (r && negb (c_suppress c)); [|destruct (c_manual c)];
          try solve [cbn [fst snd app]; rewrite quiet_op by reflexivity; exact HR].
        apply (Hreply _ _ [Inp (IPublish q mid tag); CbMessage mid 1 tag]); [exact I | exact HR | exact Logic.I | reflexivity].
      * pose proof (Hreply s (mkQ (PPubrec mid) false) [Inp (IPublish q mid tag)] I HR Logic.I eq_refl) as H.
        destruct (send s (mkQ (PPubrec mid) false)) as [s2 ev2]. cbn [fst snd] in *. apply with_inm_R. exact H.
  - (* ack() *)
    unfold do_ack. destruct (c_manual c); [|cbn [fst snd]; rewrite quiet_op by reflexivity; exact HR].
    destruct (q =? 1); [exact (R_send_reply c s k (mkQ (PPuback mid) false) [] I Logic.I eq_refl HR)|].
    destruct (q =? 2); [exact (R_send_reply c s k (mkQ (PPubcomp mid) false) [] I Logic.I eq_refl HR)|].
    cbn [fst snd]. rewrite quiet_op by reflexivity. exact HR.
  - apply step_block; assumption.
Qed.

