(* M2' - second-generation Session model: the QoS 1/2 sender and receiver state machines of
   client.py (publish, reconnect/_messages_reconnect_reset_*, _handle_connack retransmission loop,
   _handle_pubrec, _handle_pubackcomp/_do_on_publish, _update_inflight, _handle_publish,
   _handle_pubrel, ack) TOGETHER WITH the output queue [_out_packet] and a transport that may
   refuse writes (send() raises BlockingIOError).

   Differences from Session/Model.v (which assumes whole-packet, never-blocking I/O):
   * state: [outq] (the deque _out_packet: packets handed to the connection, not yet written) and
     [blocked], [failing] (how the current socket treats writes: accept / refuse (block) / fail hard);
   * every packet goes through [_packet_queue]: the event [Handed c p] records the append, [Tx c p]
     the moment the packet is written by [_packet_write]; [loop_write()] is modelled by [lw] and is
     called exactly where the code calls it (from _packet_queue when not inside a callback, after
     every message of the CONNACK retransmission loop, from the harness when the transport is
     unblocked);
   * on_publish / _set_as_published of a QoS 0 message happen when its PUBLISH is WRITTEN;
   * reconnect() drains the queue packet by packet: a queued QoS 0 PUBLISH that carries an info is
     reported lost ([InfoLost], [Published]), every other packet is dropped silently, whatever it is;
     CONNECT is then queued (at the FRONT of the queue, which is empty at that point in the modelled
     single-threaded mode) and written at once, the new socket accepting writes;
   * publish(qos=0) leaves info.rc at MQTT_ERR_SUCCESS when the hand-over succeeded (it is only
     assigned on failure), so a later reconnect() can still turn it into MQTT_ERR_CONN_LOST;
   * a lost connection leaves the queue alone; ack() appends its reply even without a socket;
   * the transport has three modes ([tm s], from the two flags): it accepts every write, it refuses every write (BlockingIOError:
     the packet is put back, loop_write() reports success), or the next write FAILS HARD (OSError such as
     EPIPE: the packet is put back, _packet_write returns MQTT_ERR_CONN_LOST, loop_write() ->
     _loop_rc_handle closes the socket and calls on_disconnect ([SockLost]) and the error code travels back
     through _packet_queue and _send_* to the caller, whose [if rc != MQTT_ERR_SUCCESS: return rc] exits are
     modelled: _update_inflight and _do_on_publish stop, _handle_pubrec has already advanced the state,
     publish() takes the message out of the window again (state publish, MQTT_ERR_NO_CONN: repaired by e5489c0),
     and the CONNACK retransmission loop stops at the message whose loop_write() failed (repaired by da8b0f1).
   Mode modelled: no network thread, no on_socket_register_write callback, API calls are not made
   from inside callbacks (in particular not from on_pre_connect / on_socket_open, so the gate
   [_connect_queued] - nothing is written on a new socket before its CONNECT is queued - is never
   closed when loop_write() runs: reconnect() queues CONNECT before it returns).  A blocked transport accepts nothing (no partial writes: that is C06's).
   Model only: no proofs in this file.  Ghost data: [o_tag] (publish() order, carried in the
   payload by the harness), [conn] (connection counter), [ntag]. *)
From PahoV Require Import Base.Prelude Codec.Mid.

Inductive mstate := MsPublish | MsWaitPuback | MsWaitPubrec | MsResendPubrel | MsWaitPubcomp | MsQueued.

Record omsg := mkO { o_mid : Z; o_qos : Z; o_st : mstate; o_dup : bool; o_tag : Z }.

Record cfg := mkCfg {
  c_clean : Z;        (* 0 persistent session; 1 clean session / clean_start=True; 2 MQTT 5 clean_start FIRST_ONLY *)
  c_max : Z;          (* max_inflight_messages (0 = unlimited) *)
  c_maxq : Z;         (* max_queued_messages (0 = unlimited) *)
  c_manual : bool;    (* manual_ack *)
  c_suppress : bool   (* suppress_exceptions *)
}.

Inductive pkt :=
| PConnect
| PPublish (mid q : Z) (dup : bool) (tag : Z)
| PPubrel (mid tag : Z)
| PPuback (mid : Z)
| PPubrec (mid : Z)
| PPubcomp (mid : Z).

(* what send() does on the current socket *)
Inductive tmode :=
| TAccept                  (* takes everything *)
| TBlock                   (* raises BlockingIOError *)
| TFail.                   (* raises OSError (EPIPE): the connection is dead, the client finds out when it writes *)

(* an entry of _out_packet: the packet and whether it carries an MQTTMessageInfo (pkt["info"] is not None;
   the info of a PUBLISH is the one of the publish() call with the packet's tag) *)
Record qpkt := mkQ { q_pkt : pkt; q_info : bool }.

Record sess := mkS {
  out : list omsg;          (* _out_messages, insertion order *)
  inm : list (Z * Z);       (* _in_messages: (mid, tag of the stored inbound QoS 2 message) *)
  inflight : Z;             (* _inflight_messages *)
  last_mid : Z;             (* _last_mid *)
  sock : bool;              (* _sock is not None *)
  first : bool;             (* _mqttv5_first_connect *)
  cack : bool;              (* ghost: a CONNACK was processed on the current socket *)
  conn : Z;                 (* ghost: number of sockets opened so far *)
  ntag : Z;                 (* ghost: number of publish() calls so far *)
  outq : list qpkt;         (* _out_packet, oldest first *)
  blocked : bool;           (* the current socket refuses writes (send() raises BlockingIOError, or OSError if [failing]) *)
  failing : bool            (* ... and it does so for good: the write fails hard (send() raises OSError) *)
}.

Inductive inpkt :=
| IConnack (rc : Z)
| IPuback (mid : Z)
| IPubrec (mid : Z)
| IPubcomp (mid : Z)
| IPubrel (mid : Z)
| IPublish (q mid tag : Z).

Inductive event :=
| Tx (c : Z) (p : pkt)               (* packet written on connection number c *)
| Ret (tag mid q rc : Z)             (* publish(qos=q) returned: rc 0 success, 4 NO_CONN, 15 QUEUE_SIZE *)
| CbPublish (mid tag : Z)            (* on_publish(mid) *)
| Published (tag : Z)                (* MQTTMessageInfo._set_as_published *)
| CbMessage (mid q tag : Z)          (* on_message *)
| Raised                             (* an exception left the API / loop call *)
| Inp (p : inpkt)                    (* the broker packet this operation processed *)
| Reconn                             (* reconnect() was called (message stores are reset, the queue is dropped) *)
| SockOpened (c : Z)                 (* reconnect() obtained a socket *)
| SockLost                           (* the connection ended *)
| Handed (c : Z) (p : pkt)           (* packet appended to _out_packet; c = number of the latest connection *)
| InfoLost (tag : Z)                 (* info.rc := MQTT_ERR_CONN_LOST for the publish() call with this tag *)
| Blk (b : bool).                    (* the transport starts (true) / stops (false) refusing writes (whether it blocks or is dead) *)

Inductive op :=
| OPublish (q : Z)
| OReconnect (ok : bool)             (* reconnect(); ok = false: _create_socket raises OSError *)
| OConnLost                          (* end of stream / error noticed by loop_read *)
| ORx (p : inpkt) (raises : bool)    (* one broker packet processed by loop_read; does the user callback raise *)
| OAck (mid q : Z)                   (* ack(mid, qos) *)
| OTransport (m : tmode).            (* the current socket changes its behaviour.  TBlock: send() raises BlockingIOError
                                        from now on.  TAccept / TFail: select() reports the socket writable and
                                        loop_write() is called - everything queued is written, resp. the write fails hard *)

Definition init (c : cfg) : sess :=
  mkS [] [] 0 0 false true false 0 0 [] false false.

(* ---- small helpers ---- *)
Definition is_queued (m : omsg) : bool := match o_st m with MsQueued => true | _ => false end.
Definition is_wait (m : omsg) : bool :=
  match o_st m with MsWaitPuback | MsWaitPubrec | MsWaitPubcomp => true | _ => false end.
Definition set_st (m : omsg) (st : mstate) : omsg := mkO (o_mid m) (o_qos m) st (o_dup m) (o_tag m).
Definition set_st_dup (m : omsg) (st : mstate) (d : bool) : omsg := mkO (o_mid m) (o_qos m) st d (o_tag m).
Definition wait_of (q : Z) : mstate := if q =? 1 then MsWaitPuback else MsWaitPubrec.

Fixpoint find_mid (mid : Z) (l : list omsg) : option omsg :=
  match l with
  | [] => None
  | m :: l' => if o_mid m =? mid then Some m else find_mid mid l'
  end.
Definition has_mid (mid : Z) (l : list omsg) : bool :=
  match find_mid mid l with Some _ => true | None => false end.
Fixpoint remove_mid (mid : Z) (l : list omsg) : list omsg :=
  match l with
  | [] => []
  | m :: l' => if o_mid m =? mid then l' else m :: remove_mid mid l'
  end.
Fixpoint update_mid (mid : Z) (f : omsg -> omsg) (l : list omsg) : list omsg :=
  match l with
  | [] => []
  | m :: l' => if o_mid m =? mid then f m :: l' else m :: update_mid mid f l'
  end.

Fixpoint in_find (mid : Z) (l : list (Z * Z)) : option Z :=
  match l with
  | [] => None
  | (k, v) :: l' => if k =? mid then Some v else in_find mid l'
  end.
Fixpoint in_remove (mid : Z) (l : list (Z * Z)) : list (Z * Z) :=
  match l with
  | [] => []
  | (k, v) :: l' => if k =? mid then l' else (k, v) :: in_remove mid l'
  end.
(* self._in_messages[mid] = message : overwrite in place, else append *)
Fixpoint in_set (mid tag : Z) (l : list (Z * Z)) : list (Z * Z) :=
  match l with
  | [] => [(mid, tag)]
  | (k, v) :: l' => if k =? mid then (k, tag) :: l' else (k, v) :: in_set mid tag l'
  end.

Definition clean_now (c : cfg) (s : sess) : bool :=
  if c_clean c =? 0 then false else if c_clean c =? 1 then true else first s.

Definition window_free (c : cfg) (infl : Z) : bool := (c_max c =? 0) || (infl <? c_max c).

(* ---- the output queue ---- *)
(* what _packet_write does when a packet has been written completely: for a QoS 0 PUBLISH
   on_publish(mid) and info._set_as_published() *)
Definition written_evs (x : qpkt) : list event :=
  match q_pkt x with
  | PPublish mid q _ tag => if q =? 0 then [CbPublish mid tag; Published tag] else []
  | _ => []
  end.
(* _packet_write on a transport that accepts everything: pop from the left until the queue is empty *)
Fixpoint flush_evs (cn : Z) (q : list qpkt) : list event :=
  match q with
  | [] => []
  | x :: q' => Tx cn (q_pkt x) :: written_evs x ++ flush_evs cn q'
  end.
(* loop_write(): [alive] = there is a socket.  Without a socket it returns MQTT_ERR_NO_CONN at once.  A socket
   that accepts writes takes the whole queue; a blocked one takes nothing (the first send() raises
   BlockingIOError, the packet is put back, the result is MQTT_ERR_SUCCESS); on a failing one the first send()
   raises OSError: the packet is put back, the socket is closed, on_disconnect runs, the result is
   MQTT_ERR_CONN_LOST - unless the queue is empty: then nothing is attempted.
   Result: the queue, the events, and whether there still is a socket (then, and only then, the call
   returned MQTT_ERR_SUCCESS). *)
Definition lw (cn : Z) (m : tmode) (alive : bool) (q : list qpkt) : list qpkt * list event * bool :=
  if alive then
    match m with
    | TAccept => ([], flush_evs cn q, true)
    | TBlock => (q, [], true)
    | TFail => match q with [] => ([], [], true) | _ :: _ => (q, [SockLost], false) end
    end
  else (q, [], false).
(* _packet_queue (append) followed by loop_write() *)
Definition pq (cn : Z) (m : tmode) (alive : bool) (q : list qpkt) (x : qpkt) : list qpkt * list event * bool :=
  let '(q', ev, a) := lw cn m alive (q ++ [x]) in (q', Handed cn (q_pkt x) :: ev, a).

Definition pub_pkt (m : omsg) : pkt := PPublish (o_mid m) (o_qos m) (o_dup m) (o_tag m).
Definition rel_pkt (m : omsg) : pkt := PPubrel (o_mid m) (o_tag m).

(* ---- _messages_reconnect_reset_out: one pass with the running counter ---- *)
Definition reset1 (clean : bool) (m : omsg) : omsg :=
  if o_qos m =? 1 then
    match o_st m with
    | MsWaitPuback => set_st_dup m MsPublish true
    | _ => set_st m MsPublish
    end
  else if clean then
    match o_st m with
    | MsPublish | MsQueued => set_st m MsPublish
    | _ => set_st_dup m MsPublish true
    end
  else
    match o_st m with
    | MsWaitPubcomp | MsResendPubrel => set_st m MsResendPubrel
    | MsWaitPubrec => set_st_dup m MsPublish true
    | _ => set_st m MsPublish
    end.

Fixpoint reset_out_list (c : cfg) (clean : bool) (infl : Z) (l : list omsg) : list omsg * Z :=
  match l with
  | [] => ([], infl)
  | m :: l' =>
      if window_free c infl then
        let (r, n) := reset_out_list c clean (infl + 1) l' in (reset1 clean m :: r, n)
      else
        let (r, n) := reset_out_list c clean infl l' in (set_st m MsQueued :: r, n)
  end.

(* ---- _update_inflight: every released message goes through _send_publish -> _packet_queue ->
        loop_write() (we are not inside a callback); retransmissions carry no info.  It is entered with a
        socket; [if rc != MQTT_ERR_SUCCESS: return rc] - the loop ends at the first send whose write fails
        hard (that message is already in its wait state and counted).
        Result: the stored messages, the counter, the queue, the events, is there still a socket ---- *)
Fixpoint update_inflight (c : cfg) (cn : Z) (t : tmode) (infl : Z) (q : list qpkt) (l : list omsg)
  : list omsg * Z * list qpkt * list event * bool :=
  match l with
  | [] => ([], infl, q, [], true)
  | m :: l' =>
      if infl <? c_max c then
        if is_queued m then
          let '(q1, ev1, a1) := pq cn t true q (mkQ (pub_pkt m) false) in
          if a1 then
            let '(r, n, q2, ev2, a2) := update_inflight c cn t (infl + 1) q1 l' in
            (set_st m (wait_of (o_qos m)) :: r, n, q2, ev1 ++ ev2, a2)
          else (set_st m (wait_of (o_qos m)) :: l', infl + 1, q1, ev1, false)
        else
          let '(r, n, q2, ev2, a2) := update_inflight c cn t infl q l' in (m :: r, n, q2, ev2, a2)
      else (m :: l', infl, q, [], true)
  end.

(* ---- the retransmission loop of _handle_connack (result == 0): _send_publish/_send_pubrel run with
        _in_callback_mutex held (so _packet_queue only appends and reports success), then loop_write() is
        called once per message, also for messages that needed nothing; a queued message ends the loop after
        one more loop_write().  [rc = self.loop_write(); if rc != MQTT_ERR_SUCCESS: return rc] - when that write
        fails hard the loop ENDS: the message whose packet was just appended is in its wait state (and was
        counted by _messages_reconnect_reset_out), the remaining messages are left as they are for the next
        connection.  Result: the stored messages, the queue, the events, is there still a socket ---- *)
Fixpoint connack_loop (cn : Z) (t : tmode) (q : list qpkt) (l : list omsg)
  : list omsg * list qpkt * list event * bool :=
  match l with
  | [] => ([], q, [], true)
  | m :: l' =>
      match o_st m with
      | MsQueued => let '(q1, ev1, a1) := lw cn t true q in (m :: l', q1, ev1, a1)
      | MsPublish =>
          let '(q1, ev1, a1) := pq cn t true q (mkQ (pub_pkt m) false) in
          if a1 then
            let '(r, q2, ev2, a2) := connack_loop cn t q1 l' in
            (set_st m (wait_of (o_qos m)) :: r, q2, ev1 ++ ev2, a2)
          else (set_st m (wait_of (o_qos m)) :: l', q1, ev1, false)
      | MsResendPubrel =>
          if o_qos m =? 2 then
            let '(q1, ev1, a1) := pq cn t true q (mkQ (rel_pkt m) false) in
            if a1 then
              let '(r, q2, ev2, a2) := connack_loop cn t q1 l' in
              (set_st m MsWaitPubcomp :: r, q2, ev1 ++ ev2, a2)
            else (set_st m MsWaitPubcomp :: l', q1, ev1, false)
          else
            let '(q1, ev1, a1) := lw cn t true q in
            if a1 then
              let '(r, q2, ev2, a2) := connack_loop cn t q1 l' in (m :: r, q2, ev1 ++ ev2, a2)
            else (m :: l', q1, ev1, false)
      | _ =>
          let '(q1, ev1, a1) := lw cn t true q in
          if a1 then
            let '(r, q2, ev2, a2) := connack_loop cn t q1 l' in (m :: r, q2, ev1 ++ ev2, a2)
          else (m :: l', q1, ev1, false)
      end
  end.

(* ---- setters ---- *)
Definition with_out (s : sess) (o : list omsg) (infl : Z) : sess :=
  mkS o (inm s) infl (last_mid s) (sock s) (first s) (cack s) (conn s) (ntag s) (outq s) (blocked s) (failing s).
Definition with_inm (s : sess) (i : list (Z * Z)) : sess :=
  mkS (out s) i (inflight s) (last_mid s) (sock s) (first s) (cack s) (conn s) (ntag s) (outq s) (blocked s) (failing s).
Definition with_sock (s : sess) (b : bool) : sess :=
  mkS (out s) (inm s) (inflight s) (last_mid s) b (first s) (cack s && b) (conn s) (ntag s) (outq s) (blocked s) (failing s).
Definition with_q (s : sess) (q : list qpkt) : sess :=
  mkS (out s) (inm s) (inflight s) (last_mid s) (sock s) (first s) (cack s) (conn s) (ntag s) q (blocked s) (failing s).
Definition is_block (m : tmode) : bool := match m with TBlock => true | _ => false end.
Definition is_fail (m : tmode) : bool := match m with TFail => true | _ => false end.
(* a failing socket refuses writes as well: both flags are set *)
Definition refuses (m : tmode) : bool := match m with TAccept => false | _ => true end.
Definition with_tm (s : sess) (m : tmode) : sess :=
  mkS (out s) (inm s) (inflight s) (last_mid s) (sock s) (first s) (cack s) (conn s) (ntag s) (outq s) (refuses m) (is_fail m).
(* the mode of the current socket *)
Definition tm (s : sess) : tmode := if failing s then TFail else if blocked s then TBlock else TAccept.
(* the state after write attempts on an open socket: the queue as they left it, the socket closed if one of
   them failed hard *)
Definition settle (s : sess) (q : list qpkt) (alive : bool) : sess :=
  if alive then with_q s q else with_q (with_sock s false) q.

(* hand one packet over from a place that is not inside a callback (the result of the call is
   MQTT_ERR_SUCCESS iff there is a socket afterwards); without a socket the packet is appended and
   loop_write() returns MQTT_ERR_NO_CONN *)
Definition send (s : sess) (x : qpkt) : sess * list event :=
  if sock s then
    let '(q', ev, a) := pq (conn s) (tm s) true (outq s) x in (settle s q' a, ev)
  else (with_q s (outq s ++ [x]), [Handed (conn s) (q_pkt x)]).

(* ---- publish() ---- *)
Definition do_publish (c : cfg) (s : sess) (q : Z) : sess * list event :=
  let mid := mid_next (last_mid s) in
  let tag := ntag s in
  let s1 := mkS (out s) (inm s) (inflight s) mid (sock s) (first s) (cack s) (conn s) (tag + 1) (outq s) (blocked s) (failing s) in
  if q =? 0 then
    if sock s then
      let (s2, ev) := send s1 (mkQ (PPublish mid 0 false tag) true) in
      (s2, ev ++ [Ret tag mid q (if sock s2 then 0 else 7)])
    else (s1, [Ret tag mid q 4])
  else if (c_maxq c >? 0) && (Z.of_nat (length (out s)) >=? c_maxq c) then (s1, [Ret tag mid q 15])
  else if has_mid mid (out s) then (s1, [Ret tag mid q 15])
  else if window_free c (inflight s) then
    if sock s then
      (* [if rc != MQTT_ERR_SUCCESS]: whenever the PUBLISH could not be sent - also when the write of this very
         packet failed hard - the message leaves the window again, goes back to state publish and publish()
         returns MQTT_ERR_NO_CONN (4); the packet it appended stays in the queue until reconnect() drops it *)
      let (s2, ev) := send (with_out s1 (out s ++ [mkO mid q (wait_of q) false tag]) (inflight s + 1))
                           (mkQ (PPublish mid q false tag) true) in
      if sock s2 then (s2, ev ++ [Ret tag mid q 0])
      else (with_out s2 (out s ++ [mkO mid q MsPublish false tag]) (inflight s), ev ++ [Ret tag mid q 4])
    else
      (with_out s1 (out s ++ [mkO mid q MsPublish false tag]) (inflight s), [Ret tag mid q 4])
  else
    (with_out s1 (out s ++ [mkO mid q MsQueued false tag]) (inflight s), [Ret tag mid q 0]).

(* ---- reconnect() ---- *)
(* the drain loop over _out_packet (popleft until empty): a queued QoS 0 PUBLISH that carries an info is
   reported lost, in queue order; nothing else happens to the packets, and none survives *)
Definition lost_evs (x : qpkt) : list event :=
  match q_pkt x with
  | PPublish _ q _ tag => if (q =? 0) && q_info x then [InfoLost tag; Published tag] else []
  | _ => []
  end.

Definition do_reconnect (c : cfg) (s : sess) (ok : bool) : sess * list event :=
  let clean := clean_now c s in
  let (o, n) := reset_out_list c clean 0 (out s) in
  let i := if clean then [] else inm s in
  let lost := flat_map lost_evs (outq s) in
  if ok then
    (* the new socket accepts writes: CONNECT is queued and written at once *)
    (mkS o i n (last_mid s) true (first s) false (conn s + 1) (ntag s) [] false false,
     Reconn :: lost ++ [SockOpened (conn s + 1); Handed (conn s + 1) PConnect; Tx (conn s + 1) PConnect])
  else
    (mkS o i n (last_mid s) false (first s) false (conn s) (ntag s) [] false false, Reconn :: lost ++ [Raised]).

(* ---- _do_on_publish (final acknowledgement of a stored message) ---- *)
Definition do_on_publish (c : cfg) (s : sess) (m : omsg) : sess * list event :=
  let o := remove_mid (o_mid m) (out s) in
  let infl := inflight s - 1 in
  if c_max c >? 0 then
    let '(o', n, q', ev, a) := update_inflight c (conn s) (tm s) infl (outq s) o in
    (settle (with_out s o' n) q' a, CbPublish (o_mid m) (o_tag m) :: Published (o_tag m) :: ev)
  else
    (with_out s o infl, [CbPublish (o_mid m) (o_tag m); Published (o_tag m)]).

(* ---- _handle_on_message with a callback that may raise ---- *)
Definition deliver (c : cfg) (mid q tag : Z) (raises : bool) : list event * bool :=
  (* returns the events and whether the exception propagates *)
  if raises && negb (c_suppress c) then ([CbMessage mid q tag; Raised], true)
  else ([CbMessage mid q tag], false).

(* ---- one inbound packet (loop_read -> _packet_handle) ---- *)
Definition do_rx (c : cfg) (s : sess) (p : inpkt) (raises : bool) : sess * list event :=
  if negb (sock s) then (s, [])
  else
  match p with
  | IConnack rc =>
      let s1 := mkS (out s) (inm s) (inflight s) (last_mid s) (sock s) false true (conn s) (ntag s) (outq s) (blocked s) (failing s) in
      if rc =? 0 then
        let '(o, q', ev, a) := connack_loop (conn s) (tm s) (outq s) (out s) in
        (settle (with_out s1 o (inflight s)) q' a, Inp p :: ev)
      else (with_sock s1 false, [Inp p; SockLost])
  | IPuback mid | IPubcomp mid =>
      match find_mid mid (out s) with
      | Some m => let (s', ev) := do_on_publish c s m in (s', Inp p :: ev)
      | None => (s, [Inp p])
      end
  | IPubrec mid =>
      match find_mid mid (out s) with
      | Some m =>
          (* the state is advanced before PUBREL is handed over, whatever happens to the write *)
          let (s', ev) := send (with_out s (update_mid mid (fun m => set_st m MsWaitPubcomp) (out s)) (inflight s))
                               (mkQ (PPubrel mid (o_tag m)) false) in
          (s', Inp p :: ev)
      | None => (s, [Inp p])
      end
  | IPubrel mid =>
      match in_find mid (inm s) with
      | Some tag =>
          let s1 := with_inm s (in_remove mid (inm s)) in
          let (ev, propagated) := deliver c mid 2 tag raises in
          if propagated then (s1, Inp p :: ev)
          else if c_manual c then (s1, Inp p :: ev)
          else let (s2, ev2) := send s1 (mkQ (PPubcomp mid) false) in (s2, Inp p :: ev ++ ev2)
      | None =>
          if c_manual c then (s, [Inp p])
          else let (s2, ev2) := send s (mkQ (PPubcomp mid) false) in (s2, Inp p :: ev2)
      end
  | IPublish q mid tag =>
      if q =? 0 then
        (* a QoS 0 PUBLISH carries no packet id: message.mid stays 0 *)
        let (ev, _) := deliver c 0 0 tag raises in (s, Inp p :: ev)
      else if q =? 1 then
        let (ev, propagated) := deliver c mid 1 tag raises in
        if propagated then (s, Inp p :: ev)
        else if c_manual c then (s, Inp p :: ev)
        else let (s2, ev2) := send s (mkQ (PPuback mid) false) in (s2, Inp p :: ev ++ ev2)
      else
        (* the message is stored whatever the hand-over of PUBREC returned *)
        let (s2, ev2) := send s (mkQ (PPubrec mid) false) in
        (with_inm s2 (in_set mid tag (inm s)), Inp p :: ev2)
  end.

(* ack(): no test for a socket - without one the reply stays in the queue until reconnect() drops it *)
Definition do_ack (c : cfg) (s : sess) (mid q : Z) : sess * list event :=
  if c_manual c then
    if q =? 1 then send s (mkQ (PPuback mid) false)
    else if q =? 2 then send s (mkQ (PPubcomp mid) false)
    else (s, [])
  else (s, []).

(* the current socket changes its behaviour; unless it starts refusing writes the event loop sees it writable
   and calls loop_write() *)
Definition do_transport (s : sess) (m : tmode) : sess * list event :=
  if sock s then
    match m with
    | TBlock => (with_tm s TBlock, [Blk true])
    | _ =>
        let '(q', ev, a) := lw (conn s) m true (outq s) in
        (settle (with_tm s m) q' a, Blk (refuses m) :: ev)
    end
  else (s, []).

Definition step (c : cfg) (s : sess) (o : op) : sess * list event :=
  match o with
  | OPublish q => do_publish c s q
  | OReconnect ok => do_reconnect c s ok
  | OConnLost => if sock s then (with_sock s false, [SockLost]) else (s, [])
  | ORx p raises => do_rx c s p raises
  | OAck mid q => do_ack c s mid q
  | OTransport m => do_transport s m
  end.

(* run: final state and the whole trace (oldest event first) *)
Fixpoint run_from (c : cfg) (s : sess) (tr : list event) (ops : list op) : sess * list event :=
  match ops with
  | [] => (s, tr)
  | o :: ops' => let (s', ev) := step c s o in run_from c s' (tr ++ ev) ops'
  end.
Definition run (c : cfg) (ops : list op) : sess * list event := run_from c (init c) [] ops.

(* per-operation outputs, for the correspondence *)
Fixpoint run_steps (c : cfg) (s : sess) (ops : list op) : list (sess * list event) :=
  match ops with
  | [] => []
  | o :: ops' => let (s', ev) := step c s o in (s', ev) :: run_steps c s' ops'
  end.

(* ---- protocol conformance of the broker, decided on the state in which a packet arrives.
        An acknowledgement can only answer a packet that was WRITTEN: the PUBLISH (resp. PUBREL)
        it answers must not be sitting in the output queue any more. ---- *)
Definition q_has_pub (mid : Z) (q : list qpkt) : bool :=
  existsb (fun x => match q_pkt x with PPublish m qs _ _ => negb (qs =? 0) && (m =? mid) | _ => false end) q.
Definition q_has_rel (mid : Z) (q : list qpkt) : bool :=
  existsb (fun x => match q_pkt x with PPubrel m _ => m =? mid | _ => false end) q.

Definition conf_op (c : cfg) (s : sess) (o : op) : bool :=
  match o with
  | ORx p _ =>
      if negb (sock s) then true else
      match p with
      | IConnack _ => negb (cack s)
      | IPuback mid =>
          cack s &&
          match find_mid mid (out s) with
          | Some m => (o_qos m =? 1) && match o_st m with MsWaitPuback => true | _ => false end
                      && negb (q_has_pub mid (outq s))
          | None => true
          end
      | IPubrec mid =>
          cack s &&
          match find_mid mid (out s) with
          | Some m => (o_qos m =? 2) &&
                      match o_st m with
                      | MsWaitPubrec => negb (q_has_pub mid (outq s))
                      | MsWaitPubcomp => true
                      | _ => false
                      end
          | None => true
          end
      | IPubcomp mid =>
          cack s &&
          match find_mid mid (out s) with
          | Some m => (o_qos m =? 2) && match o_st m with MsWaitPubcomp => true | _ => false end
                      && negb (q_has_rel mid (outq s))
          | None => true
          end
      | IPubrel _ => cack s
      | IPublish q mid _ => cack s && (0 <=? q) && (q <=? 2)
      end
  | OPublish q => (0 <=? q) && (q <=? 2)
  | _ => true
  end.

Fixpoint conforming_from (c : cfg) (s : sess) (ops : list op) : bool :=
  match ops with
  | [] => true
  | o :: ops' => conf_op c s o && conforming_from c (fst (step c s o)) ops'
  end.
Definition conforming (c : cfg) (ops : list op) : bool := conforming_from c (init c) ops.

Definition cfg_ok (c : cfg) : bool :=
  (0 <=? c_clean c) && (c_clean c <=? 2) && (0 <=? c_max c) && (0 <=? c_maxq c).
