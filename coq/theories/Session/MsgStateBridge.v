(* Bridge: the definitions generated on every run from the message-state methods of client.py
   (Gen/GenMsgState.v, by tools/py2v/msgstate.py) equal the functions of the hand-written Session model
   (Session/Model.v), about which all the session theorems (C01 C02 C03 C12 C13) are stated.

   Hypotheses that appear below and where they come from:
   * [Forall (fun m => qos_okb m = true) l] - every stored outgoing message has QoS 1 or 2 (and a state that fits):
     the source has dead branches for `m.qos == 0` / other values which the model omits.  [Inv.inv_qos] gives it
     for every state of every conforming history.
   * [sock = true] for the packet handlers: the model ([do_rx]) processes packets only while there is a socket.
   * [q = 1 \/ q = 2] for the QoS>0 branch of publish(): [conf_op] of [OPublish q] and [q <> 0].
   * stored incoming messages have QoS 2 ([Forall iq2]): [gen_handle_publish_tail] stores only under
     `message.qos == 2`; the bridges of the two incoming handlers prove that they preserve it.
   Proof style: unfold the generated definition, induction over the message list, case analysis on the tests;
   no generated name other than the definitions themselves is mentioned. *)
From PahoV Require Import Base.Prelude Codec.Mid Session.Model Session.Lemmas Session.Inv
  Session.MsgStateLib Gen.GenMsgState.

(* ------------------------------------------------------------------ constants *)
Example summaries_hold : gen_summaries_ok = true := eq_refl.

Lemma st_code_inj a b : st_code a = st_code b -> a = b.
Proof. destruct a, b; intros H; try reflexivity; vm_compute in H; discriminate H. Qed.

Example err_codes : (MQTT_ERR_SUCCESS, MQTT_ERR_NO_CONN, MQTT_ERR_QUEUE_SIZE) = (0, 4, 15) := eq_refl.

(* ------------------------------------------------------------------ calls as model events *)
Definition ev_of (cn : Z) (tagof : Z -> Z) (g : gcall) : list event :=
  match g with
  | GSendPublish mid q dup tag _ => [Tx cn (PPublish mid q dup tag)]
  | GSendPubrel mid tag => [Tx cn (PPubrel mid tag)]
  | GSendPuback mid => [Tx cn (PPuback mid)]
  | GSendPubrec mid => [Tx cn (PPubrec mid)]
  | GSendPubcomp mid => [Tx cn (PPubcomp mid)]
  | GLoopWrite => []
  | GCbPublish mid => [CbPublish mid (tagof mid)]
  | GSetPublished tag => [Published tag]
  | GOnMessage mid q tag => [CbMessage mid q tag]
  end.
Definition evs (cn : Z) (tagof : Z -> Z) (cs : list gcall) : list event := flat_map (ev_of cn tagof) cs.

(* a PUBLISH is handed to the transport only after the message was put into its wait state *)
Definition sent_waitb (g : gcall) : bool :=
  match g with
  | GSendPublish _ q _ _ st => match st, wait_of q with
                               | MsWaitPuback, MsWaitPuback | MsWaitPubrec, MsWaitPubrec => true
                               | _, _ => false
                               end
  | _ => true
  end.

(* the ghost tag of a packet id: the tag of the stored message with that id *)
Definition tag_in (l : list omsg) (mid : Z) : Z :=
  match find_mid mid l with Some m => o_tag m | None => 0 end.

(* [calls'] extends [calls] by calls whose events are [ev] *)
Definition ext (cn : Z) (tagof : Z -> Z) (calls calls' : list gcall) (ev : list event) : Prop :=
  exists cs, calls' = calls ++ cs /\ evs cn tagof cs = ev /\ forallb sent_waitb cs = true.

Lemma ext_refl cn tagof calls : ext cn tagof calls calls [].
Proof. exists []. rewrite app_nil_r. repeat split. Qed.

Lemma ext_step cn tagof calls g calls' ev :
  ext cn tagof (calls ++ [g]) calls' ev -> sent_waitb g = true ->
  ext cn tagof calls calls' (ev_of cn tagof g ++ ev).
Proof.
  intros (cs & -> & <- & Hw) Hg. exists (g :: cs). rewrite <- app_assoc. repeat split.
  cbn [forallb]. rewrite Hg, Hw. reflexivity.
Qed.

Lemma ext_one cn tagof calls g : sent_waitb g = true -> ext cn tagof calls (calls ++ [g]) (ev_of cn tagof g).
Proof.
  intros Hg. exists [g]. split; [reflexivity|]. split; [unfold evs; cbn; apply app_nil_r|]. cbn. rewrite Hg. reflexivity.
Qed.

Lemma ext_trans cn tagof a b c e1 e2 : ext cn tagof a b e1 -> ext cn tagof b c e2 -> ext cn tagof a c (e1 ++ e2).
Proof.
  intros (c1 & -> & <- & H1) (c2 & -> & <- & H2). exists (c1 ++ c2). rewrite app_assoc. split; [reflexivity|].
  split; [unfold evs; apply flat_map_app | rewrite forallb_app, H1, H2; reflexivity].
Qed.

(* QoS 1 or 2, from the invariant *)
Ltac qos_cases m H :=
  destruct m as [?mid ?q ?st ?dup ?tag]; unfold qos_okb in H; cbn [o_qos o_st] in H;
  match type of H with
  | context [?q =? 1] =>
      destruct (q =? 1) eqn:?Q1;
      [ assert (q = 1) by lia; subst q
      | destruct (q =? 2) eqn:?Q2; [ assert (q = 2) by lia; subst q | cbn in H; discriminate H ] ]
  end.

(* ------------------------------------------------------------------ _check_clean_session *)
(* how the three source attributes represent the model's [c_clean] (True = 1, False = 0, FIRST_ONLY = 3) *)
Definition cfg_repr (c : cfg) (protocol clean_start : Z) (clean_session : bool) : Prop :=
  (c_clean c = 2 /\ protocol = MQTTv5 /\ clean_start = MQTT_CLEAN_START_FIRST_ONLY) \/
  ((c_clean c = 0 \/ c_clean c = 1) /\ protocol = MQTTv5 /\ clean_start = c_clean c) \/
  ((c_clean c = 0 \/ c_clean c = 1) /\ protocol <> MQTTv5 /\ clean_session = (c_clean c =? 1)).

Lemma gen_check_clean_session_bridge c s protocol clean_start clean_session :
  cfg_repr c protocol clean_start clean_session ->
  gen_check_clean_session protocol clean_start (first s) clean_session = Ok (clean_now c s).
Proof.
  unfold cfg_repr, gen_check_clean_session, clean_now.
  intros [(H1 & -> & ->) | [(H1 & -> & ->) | (H1 & H2 & ->)]].
  - rewrite H1. reflexivity.
  - destruct H1 as [-> | ->]; reflexivity.
  - replace (protocol =? MQTTv5) with false by lia. destruct H1 as [-> | ->]; reflexivity.
Qed.

(* ------------------------------------------------------------------ _messages_reconnect_reset_out *)
Lemma gen_reset_out_loop_bridge c clean : forall l infl,
  Forall (fun m => qos_okb m = true) l ->
  gen_reset_out_loop1 (c_max c) clean infl l =
    (let (r, n) := reset_out_list c clean infl l in (r, n, None)).
Proof.
  induction l as [|m l IH]; intros infl H; [reflexivity|].
  inversion H as [|? ? Hm Hl]; subst.
  cbn [gen_reset_out_loop1 reset_out_list]. unfold window_free.
  destruct ((c_max c =? 0) || (infl <? c_max c)) eqn:W.
  - qos_cases m Hm; destruct st, clean; try discriminate Hm; cbn;
      rewrite (IH _ Hl); destruct (reset_out_list c _ _ l); reflexivity.
  - cbn. rewrite (IH _ Hl). destruct (reset_out_list c _ _ l). reflexivity.
Qed.

Theorem gen_reset_out_bridge c clean infl0 l :
  Forall (fun m => qos_okb m = true) l ->
  gen_reset_out (c_max c) clean l infl0 =
    (let (r, n) := reset_out_list c clean 0 l in (r, n, Ok tt)).
Proof.
  intros H. unfold gen_reset_out. cbv zeta. rewrite (gen_reset_out_loop_bridge c clean l 0 H).
  destruct (reset_out_list c clean 0 l). reflexivity.
Qed.

(* ------------------------------------------------------------------ _update_inflight *)
Lemma gen_update_inflight_loop_bridge c cn tagof : forall l infl calls,
  Forall (fun m => qos_okb m = true) l ->
  exists calls' ret,
    gen_update_inflight_loop1 (c_max c) true infl calls l =
      (fst (fst (update_inflight c cn infl l)), (snd (fst (update_inflight c cn infl l)), calls'), ret) /\
    ext cn tagof calls calls' (snd (update_inflight c cn infl l)) /\
    (ret = None \/ ret = Some (Ok MQTT_ERR_SUCCESS)).
Proof.
  induction l as [|m l IH]; intros infl calls H.
  - exists calls, None. split; [reflexivity|]. split; [apply ext_refl | left; reflexivity].
  - inversion H as [|? ? Hm Hl]; subst.
    cbn [gen_update_inflight_loop1 update_inflight].
    destruct (infl <? c_max c) eqn:W.
    + qos_cases m Hm; destruct st; try discriminate Hm; cbn;
        match goal with
        | |- context [gen_update_inflight_loop1 _ _ ?i ?cs l] =>
            destruct (IH i cs Hl) as (calls' & ret & E & X & R); rewrite E
        end;
        destruct (update_inflight c cn _ l) as [[r n] ev]; cbn in *;
        exists calls', ret; (split; [reflexivity|]); (split; [|exact R]);
        first [ exact X | exact (ext_step _ _ _ _ _ _ X eq_refl) ].
    + exists calls, (Some (Ok MQTT_ERR_SUCCESS)). cbn.
      split; [reflexivity|]. split; [apply ext_refl | right; reflexivity].
Qed.

Theorem gen_update_inflight_bridge c cn tagof l infl calls :
  Forall (fun m => qos_okb m = true) l ->
  exists calls',
    gen_update_inflight (c_max c) true l infl calls =
      (fst (fst (update_inflight c cn infl l)), snd (fst (update_inflight c cn infl l)), calls', Ok MQTT_ERR_SUCCESS) /\
    ext cn tagof calls calls' (snd (update_inflight c cn infl l)).
Proof.
  intros H. unfold gen_update_inflight.
  destruct (gen_update_inflight_loop_bridge c cn tagof l infl calls H) as (calls' & ret & E & X & R).
  rewrite E. exists calls'. split; [|exact X]. destruct R as [-> | ->]; reflexivity.
Qed.

(* ------------------------------------------------------------------ the retransmission loop of _handle_connack *)
Ltac solve_ext X :=
  first [ exact X
        | exact (ext_step _ _ _ _ _ _ X eq_refl)
        | exact (ext_step _ _ _ _ _ _ (ext_step _ _ _ _ _ _ X eq_refl) eq_refl) ].

Lemma gen_connack_loop_loop_bridge cn tagof : forall l calls rc,
  Forall (fun m => qos_okb m = true) l ->
  exists calls' rc' ret,
    gen_connack_loop_loop1 true calls rc l = (fst (connack_loop cn l), (calls', rc'), ret) /\
    ext cn tagof calls calls' (snd (connack_loop cn l)) /\
    (rc = MQTT_ERR_SUCCESS -> rc' = MQTT_ERR_SUCCESS) /\
    (ret = None \/ ret = Some (Ok MQTT_ERR_SUCCESS)).
Proof.
  induction l as [|m l IH]; intros calls rc H.
  - exists calls, rc, None. split; [reflexivity|]. split; [apply ext_refl|]. split; [tauto | left; reflexivity].
  - inversion H as [|? ? Hm Hl]; subst.
    cbn [gen_connack_loop_loop1 connack_loop].
    qos_cases m Hm; destruct st; try discriminate Hm; cbn;
      try match goal with
        | |- context [gen_connack_loop_loop1 _ ?cs ?r l] =>
            destruct (IH cs r Hl) as (calls' & rc' & ret & E & X & RC & R); rewrite E;
            destruct (connack_loop cn l) as [o ev]; cbn in *;
            exists calls', rc', ret; (split; [reflexivity|]); (split; [solve_ext X|]); (split; [|exact R]);
            first [ exact RC | intros _; apply RC; reflexivity ]
        end;
      (* the early return at the first queued message *)
      eexists; exists rc; eexists; (split; [reflexivity|]);
        (split; [apply ext_one; reflexivity|]); (split; [tauto | right; reflexivity]).
Qed.

Theorem gen_connack_loop_bridge cn tagof l calls :
  Forall (fun m => qos_okb m = true) l ->
  exists calls',
    gen_connack_loop true l calls = (fst (connack_loop cn l), calls', Ok MQTT_ERR_SUCCESS) /\
    ext cn tagof calls calls' (snd (connack_loop cn l)).
Proof.
  intros H. unfold gen_connack_loop. cbv zeta.
  destruct (gen_connack_loop_loop_bridge cn tagof l calls MQTT_ERR_SUCCESS H) as (calls' & rc' & ret & E & X & RC & R).
  rewrite E. exists calls'. split; [|exact X]. rewrite (RC eq_refl). destruct R as [-> | ->]; reflexivity.
Qed.

(* ------------------------------------------------------------------ dictionary facts *)
Lemma out_set_update mid f : forall l m, find_mid mid l = Some m -> out_set mid (f m) l = update_mid mid f l.
Proof.
  induction l as [|x l IH]; intros m; cbn [find_mid out_set update_mid]; [discriminate|].
  destruct (o_mid x =? mid); intros H; [inversion H; subst; reflexivity | rewrite (IH m H); reflexivity].
Qed.

Lemma out_set_absent mid v : forall l, has_mid mid l = false -> out_set mid v l = l ++ [v].
Proof.
  unfold has_mid. induction l as [|x l IH]; cbn [find_mid out_set app]; [reflexivity|].
  destruct (o_mid x =? mid); [discriminate|]. intros H. rewrite (IH H). reflexivity.
Qed.

Lemma out_set_last mid v v' : forall l, has_mid mid l = false -> o_mid v = mid ->
  out_set mid v' (l ++ [v]) = l ++ [v'].
Proof.
  unfold has_mid. induction l as [|x l IH]; cbn [find_mid out_set app]; intros H Hv.
  - replace (o_mid v =? mid) with true by lia. reflexivity.
  - destruct (o_mid x =? mid); [discriminate|]. rewrite (IH H Hv). reflexivity.
Qed.

Lemma qos_ok_remove mid : forall l, Forall (fun m => qos_okb m = true) l ->
  Forall (fun m => qos_okb m = true) (remove_mid mid l).
Proof.
  induction l as [|x l IH]; cbn [remove_mid]; intros H; [constructor|].
  inversion H; subst. destruct (o_mid x =? mid); [assumption | constructor; auto].
Qed.

Lemma find_mid_qos mid l m : Forall (fun m => qos_okb m = true) l -> find_mid mid l = Some m -> qos_okb m = true.
Proof.
  intros H E. apply find_mid_In in E as [E _]. rewrite Forall_forall in H. exact (H _ E).
Qed.

Lemma has_mid_find mid l : has_mid mid l = true -> exists m, find_mid mid l = Some m.
Proof. unfold has_mid. destruct (find_mid mid l) as [m|]; [exists m; reflexivity | discriminate]. Qed.

Lemma with_out_id s : with_out s (out s) (inflight s) = s.
Proof. destruct s; reflexivity. Qed.
Lemma with_inm_id s : with_inm s (inm s) = s.
Proof. destruct s; reflexivity. Qed.

Lemma evs_app cn tagof a b : evs cn tagof (a ++ b) = evs cn tagof a ++ evs cn tagof b.
Proof. unfold evs. apply flat_map_app. Qed.

Lemma ext_nil cn tagof calls' ev : ext cn tagof [] calls' ev -> evs cn tagof calls' = ev /\ forallb sent_waitb calls' = true.
Proof. intros (cs & -> & <- & H). split; [reflexivity | exact H]. Qed.

(* ------------------------------------------------------------------ _handle_pubrec *)
Theorem gen_handle_pubrec_bridge c s mid raises tagof :
  sock s = true ->
  let '(o, calls, r) := gen_handle_pubrec mid (out s) [] in
  r = Ok MQTT_ERR_SUCCESS /\
  do_rx c s (IPubrec mid) raises = (with_out s o (inflight s), Inp (IPubrec mid) :: evs (conn s) tagof calls).
Proof.
  intros Hs. unfold gen_handle_pubrec, do_rx. rewrite Hs. cbn [negb].
  destruct (has_mid mid (out s)) eqn:Hh.
  - destruct (has_mid_find _ _ Hh) as [m Hm]. rewrite Hm. cbv zeta.
    rewrite (out_set_update mid (fun m => set_st m MsWaitPubcomp) _ _ Hm). split; reflexivity.
  - rewrite with_out_id. split; reflexivity.
Qed.

(* ------------------------------------------------------------------ _do_on_publish / _handle_pubackcomp *)
Lemma qos_ok_pos m : qos_okb m = true -> (o_qos m >? 0) = true.
Proof. intros H. qos_cases m H; reflexivity. Qed.

Theorem gen_do_on_publish_bridge c s mid m calls :
  Forall (fun m => qos_okb m = true) (out s) -> find_mid mid (out s) = Some m ->
  exists calls',
    gen_do_on_publish (c_max c) true mid (out s) (inflight s) calls =
      (out (fst (do_on_publish c s m)), inflight (fst (do_on_publish c s m)), calls', Ok MQTT_ERR_SUCCESS) /\
    ext (conn s) (tag_in (out s)) calls calls' (snd (do_on_publish c s m)).
Proof.
  intros Hq Hm. unfold gen_do_on_publish, do_on_publish. rewrite Hm. cbv zeta.
  destruct (find_mid_In _ _ _ Hm) as [_ Hmid]. rewrite Hmid.
  rewrite (qos_ok_pos m (find_mid_qos _ _ _ Hq Hm)).
  assert (Htag : tag_in (out s) mid = o_tag m) by (unfold tag_in; rewrite Hm; reflexivity).
  destruct (c_max c >? 0) eqn:Hmax.
  - destruct (gen_update_inflight_bridge c (conn s) (tag_in (out s)) (remove_mid mid (out s)) (inflight s - 1)
                ((calls ++ [GCbPublish mid]) ++ [GSetPublished (o_tag m)]) (qos_ok_remove mid _ Hq))
      as (calls' & E & X).
    rewrite E. destruct (update_inflight c (conn s) (inflight s - 1) (remove_mid mid (out s))) as [[r n] ev].
    cbn in *. exists calls'. split; [reflexivity|].
    pose proof (ext_step _ _ _ _ _ _ (ext_step _ _ _ _ _ _ X eq_refl) eq_refl) as Y.
    cbn in Y. rewrite Htag in Y. exact Y.
  - cbn. eexists. split; [reflexivity|].
    pose proof (ext_trans _ (tag_in (out s)) _ _ _ _ _
                  (ext_one (conn s) (tag_in (out s)) calls (GCbPublish mid) eq_refl)
                  (ext_one (conn s) (tag_in (out s)) _ (GSetPublished (o_tag m)) eq_refl)) as Y.
    cbn in Y. rewrite Htag in Y. exact Y.
Qed.

Theorem gen_handle_pubackcomp_bridge c s mid raises :
  sock s = true -> Forall (fun m => qos_okb m = true) (out s) ->
  let '(o, n, calls, r) := gen_handle_pubackcomp (c_max c) true mid (out s) (inflight s) [] in
  r = Ok MQTT_ERR_SUCCESS /\
  do_rx c s (IPuback mid) raises = (with_out s o n, Inp (IPuback mid) :: evs (conn s) (tag_in (out s)) calls) /\
  do_rx c s (IPubcomp mid) raises = (with_out s o n, Inp (IPubcomp mid) :: evs (conn s) (tag_in (out s)) calls).
Proof.
  intros Hs Hq. unfold gen_handle_pubackcomp, do_rx. rewrite Hs. cbn [negb].
  destruct (has_mid mid (out s)) eqn:Hh.
  - destruct (has_mid_find _ _ Hh) as [m Hm]. rewrite Hm.
    destruct (gen_do_on_publish_bridge c s mid m [] Hq Hm) as (calls' & E & X). rewrite E.
    apply ext_nil in X as [X _]. rewrite X.
    assert (Hst : fst (do_on_publish c s m) =
                  with_out s (out (fst (do_on_publish c s m))) (inflight (fst (do_on_publish c s m)))).
    { unfold do_on_publish. destruct (c_max c >? 0);
        [destruct (update_inflight c (conn s) (inflight s - 1) (remove_mid (o_mid m) (out s))) as [[? ?] ?]|];
        reflexivity. }
    destruct (do_on_publish c s m) as [s' ev]. cbn [fst snd] in *. rewrite <- Hst. repeat split.
  - unfold has_mid in Hh. destruct (find_mid mid (out s)); [discriminate|].
    rewrite with_out_id. repeat split.
Qed.

(* ------------------------------------------------------------------ publish(), QoS 1 and 2 *)
(* [blank] = the fields of a fresh MQTTMessage other than mid: whatever they are, the outcome is the model's *)
Theorem gen_publish_qos12_bridge c s q blank tagof :
  q = 1 \/ q = 2 ->
  let mid := mid_next (last_mid s) in
  let tag := ntag s in
  let s1 := mkS (out s) (inm s) (inflight s) mid (sock s) (first s) (cack s) (conn s) (tag + 1) in
  let '(o, n, calls, r) :=
    gen_publish_qos12 (c_max c) (c_maxq c) (sock s) mid q tag blank (out s) (inflight s) [] in
  exists rc, r = Ok rc /\
    do_publish c s q = (with_out s1 o n, evs (conn s) tagof calls ++ [Ret tag mid q rc]) /\
    forallb sent_waitb calls = true.
Proof.
  intros Hq. cbv zeta. unfold gen_publish_qos12, do_publish, window_free. cbv zeta.
  replace (q =? 0) with false by lia.
  destruct ((c_maxq c >? 0) && (Z.of_nat (length (out s)) >=? c_maxq c)) eqn:Hfull.
  { eexists. repeat split. }
  destruct (has_mid (mid_next (last_mid s)) (out s)) eqn:Hh.
  { eexists. repeat split. }
  cbn [g_set_mid g_set_tag g_set_qos g_set_dup set_st o_mid o_qos o_st o_dup o_tag].
  rewrite (out_set_absent _ _ _ Hh).
  destruct ((c_max c =? 0) || (inflight s <? c_max c)) eqn:W.
  - destruct Hq as [-> | ->]; cbn [Z.eqb Pos.eqb];
      rewrite out_set_last by first [exact Hh | reflexivity];
      destruct (sock s); cbn; rewrite ?out_set_last by first [exact Hh | reflexivity];
      eexists; (split; [reflexivity|]); (split; [|reflexivity]); unfold with_out; cbn;
      repeat f_equal; lia.
  - rewrite out_set_last by first [exact Hh | reflexivity]. eexists. repeat split.
Qed.

(* ------------------------------------------------------------------ ack() *)
(* With a socket.  Without one the source still queues the acknowledgement (the _send_* functions for PUBACK /
   PUBCOMP do not look at the socket) while the model records no transmission: a packet queued without a
   connection is not written on any connection (transport: C06 / Session2). *)
Theorem gen_ack_bridge c s mid q tagof :
  sock s = true ->
  let '(calls, r) := gen_ack (c_manual c) mid q [] in
  r = Ok MQTT_ERR_SUCCESS /\ do_ack c s mid q = (s, evs (conn s) tagof calls).
Proof.
  intros Hs. unfold gen_ack, do_ack. rewrite Hs, andb_true_r.
  destruct (c_manual c); [|split; reflexivity].
  destruct (q =? 1); [split; reflexivity|]. destruct (q =? 2); split; reflexivity.
Qed.

(* ------------------------------------------------------------------ the incoming store *)
Definition iq2 (m : imsg) : Prop := i_qos m = 2.

Lemma in_find_of mid : forall l, in_find mid (inm_of l) = option_map i_tag (i_find mid l).
Proof.
  induction l as [|x l IH]; cbn [inm_of map in_find i_find option_map]; [reflexivity|].
  destruct (i_mid x =? mid); [reflexivity | exact IH].
Qed.

Lemma in_remove_of mid : forall l, in_remove mid (inm_of l) = inm_of (i_remove mid l).
Proof.
  induction l as [|x l IH]; cbn [inm_of map in_remove i_remove]; [reflexivity|].
  destruct (i_mid x =? mid); [reflexivity|]. cbn [map]. f_equal. exact IH.
Qed.

Lemma in_set_of v : forall l, in_set (i_mid v) (i_tag v) (inm_of l) = inm_of (i_set (i_mid v) v l).
Proof.
  induction l as [|x l IH]; cbn [inm_of map in_set i_set]; [reflexivity|].
  destruct (i_mid x =? i_mid v) eqn:E; cbn [map]; [f_equal; f_equal; lia | f_equal; exact IH].
Qed.

Lemma i_find_In mid : forall l m, i_find mid l = Some m -> In m l /\ i_mid m = mid.
Proof.
  induction l as [|x l IH]; intros m; cbn [i_find]; [discriminate|].
  destruct (i_mid x =? mid) eqn:E; intros H.
  - inversion H; subst. split; [left; reflexivity | lia].
  - destruct (IH m H). split; [right; assumption | assumption].
Qed.

Lemma iq2_remove mid : forall l, Forall iq2 l -> Forall iq2 (i_remove mid l).
Proof.
  induction l as [|x l IH]; cbn [i_remove]; intros H; [constructor|].
  inversion H; subst. destruct (i_mid x =? mid); [assumption | constructor; auto].
Qed.

Lemma iq2_set k v : iq2 v -> forall l, Forall iq2 l -> Forall iq2 (i_set k v l).
Proof.
  intros Hv. induction l as [|x l IH]; cbn [i_set]; intros H; [repeat constructor; exact Hv|].
  inversion H; subst. destruct (i_mid x =? k); constructor; auto.
Qed.

(* what leaves the method as an exception is the model's [Raised] event *)
Definition raised_ev (r : res Z) : list event := match r with Ok _ => [] | _ => [Raised] end.

(* ------------------------------------------------------------------ _handle_pubrel *)
Theorem gen_handle_pubrel_bridge c s mid raises il tagof :
  sock s = true -> inm s = inm_of il -> Forall iq2 il ->
  let '(i, calls, r) := gen_handle_pubrel (c_manual c) (c_suppress c) raises mid il [] in
  (r = Ok MQTT_ERR_SUCCESS \/ r = Raise 0) /\ Forall iq2 i /\
  do_rx c s (IPubrel mid) raises =
    (with_inm s (inm_of i), Inp (IPubrel mid) :: evs (conn s) tagof calls ++ raised_ev r).
Proof.
  intros Hs Hi Hq. unfold gen_handle_pubrel, do_rx, deliver. rewrite Hs, Hi, in_find_of. cbn [negb].
  unfold i_has. destruct (i_find mid il) as [m|] eqn:Hm; cbn [option_map].
  - destruct (i_find_In _ _ _ Hm) as [Hin Hmid]. rewrite Forall_forall in Hq. pose proof (Hq _ Hin) as Hq2.
    unfold iq2 in Hq2. rewrite Hmid, Hq2, in_remove_of. cbv zeta.
    assert (Hr : Forall iq2 (i_remove mid il)) by (apply iq2_remove, Forall_forall, Hq).
    destruct (raises && negb (c_suppress c)); [repeat split; auto|].
    destruct (c_manual c); repeat split; auto.
  - destruct (c_manual c); cbn; rewrite <- Hi, with_inm_id; repeat split; auto.
Qed.

(* ------------------------------------------------------------------ the QoS dispatch at the end of _handle_publish *)
(* a QoS 0 PUBLISH carries no packet id: message.mid keeps the 0 of MQTTMessage.__init__ *)
Theorem gen_handle_publish_tail_bridge c s q mid tag raises il tagof :
  sock s = true -> inm s = inm_of il -> Forall iq2 il -> 0 <= q <= 2 ->
  let '(i, calls, r) := gen_handle_publish_tail (c_manual c) (c_suppress c) raises
                          (mkI (if q =? 0 then 0 else mid) q tag) il [] in
  (r = Ok MQTT_ERR_SUCCESS \/ r = Raise 0) /\ Forall iq2 i /\
  do_rx c s (IPublish q mid tag) raises =
    (with_inm s (inm_of i), Inp (IPublish q mid tag) :: evs (conn s) tagof calls ++ raised_ev r).
Proof.
  intros Hs Hi Hq Hr. unfold gen_handle_publish_tail, do_rx, deliver. rewrite Hs. cbn [negb i_qos i_mid i_tag].
  assert (Hc : q = 0 \/ q = 1 \/ q = 2) by lia. destruct Hc as [-> | [-> | ->]]; cbn [Z.eqb Pos.eqb].
  - destruct (raises && negb (c_suppress c)); cbn; rewrite <- Hi, with_inm_id; repeat split; auto.
  - destruct (raises && negb (c_suppress c)); [cbn; rewrite <- Hi, with_inm_id; repeat split; auto|].
    destruct (c_manual c); cbn; rewrite <- Hi, with_inm_id; repeat split; auto.
  - cbv zeta. rewrite Hi.
    pose proof (in_set_of (mkI mid 2 tag) il) as E. cbn [i_mid i_tag] in E. rewrite E.
    repeat split; auto. apply iq2_set; [reflexivity | exact Hq].
Qed.

(* ------------------------------------------------------------------ _messages_reconnect_reset_in *)
Lemma gen_reset_in_loop_bridge clean : forall l, Forall iq2 l -> gen_reset_in_loop1 clean l = (l, tt, None).
Proof.
  induction l as [|m l IH]; intros H; [reflexivity|]. inversion H as [|? ? Hm Hl]; subst.
  cbn [gen_reset_in_loop1]. unfold iq2 in Hm. rewrite Hm. cbn. rewrite (IH Hl). reflexivity.
Qed.

Theorem gen_reset_in_bridge clean il :
  Forall iq2 il ->
  gen_reset_in clean il = ((if clean then [] else il), Ok tt).
Proof.
  intros H. unfold gen_reset_in. destruct clean; [reflexivity|].
  rewrite (gen_reset_in_loop_bridge false il H). reflexivity.
Qed.

(* ------------------------------------------------------------------ reconnect(): the three generated pieces together *)
Theorem gen_reconnect_reset_bridge c s protocol clean_start clean_session il ok :
  cfg_repr c protocol clean_start clean_session ->
  Forall (fun m => qos_okb m = true) (out s) -> inm s = inm_of il -> Forall iq2 il ->
  exists clean,
    gen_check_clean_session protocol clean_start (first s) clean_session = Ok clean /\
    let '(o, n, r1) := gen_reset_out (c_max c) clean (out s) (inflight s) in
    let '(i, r2) := gen_reset_in clean il in
    r1 = Ok tt /\ r2 = Ok tt /\
    out (fst (do_reconnect c s ok)) = o /\ inflight (fst (do_reconnect c s ok)) = n /\
    inm (fst (do_reconnect c s ok)) = inm_of i.
Proof.
  intros Hc Hq Hi Hq2. exists (clean_now c s). split; [exact (gen_check_clean_session_bridge c s _ _ _ Hc)|].
  rewrite (gen_reset_out_bridge c (clean_now c s) (inflight s) (out s) Hq), (gen_reset_in_bridge _ il Hq2).
  unfold do_reconnect. destruct (reset_out_list c (clean_now c s) 0 (out s)) as [o n].
  rewrite Hi. destruct ok, (clean_now c s); repeat split.
Qed.

(* ------------------------------------------------------------------ the hypotheses are satisfiable: concrete runs *)
Definition ex_cfg : cfg := mkCfg 0 2 0 false false.
Definition ex_out : list omsg :=
  [mkO 1 1 MsWaitPuback false 10; mkO 2 2 MsWaitPubcomp false 11; mkO 3 2 MsWaitPubrec false 12; mkO 4 1 MsQueued false 13].
Example ex_out_qos : forallb qos_okb ex_out = true := eq_refl.
Example ex_reset_out :
  gen_reset_out 2 false ex_out 7 =
    ([mkO 1 1 MsPublish true 10; mkO 2 2 MsResendPubrel false 11; mkO 3 2 MsQueued false 12; mkO 4 1 MsQueued false 13],
     2, Ok tt) := eq_refl.
Example ex_connack :
  gen_connack_loop true [mkO 1 1 MsPublish true 10; mkO 2 2 MsResendPubrel false 11; mkO 3 2 MsQueued false 12] [] =
    ([mkO 1 1 MsWaitPuback true 10; mkO 2 2 MsWaitPubcomp false 11; mkO 3 2 MsQueued false 12],
     [GSendPublish 1 1 true 10 MsWaitPuback; GLoopWrite; GSendPubrel 2 11; GLoopWrite; GLoopWrite], Ok 0) := eq_refl.
Example ex_pubackcomp :
  gen_handle_pubackcomp 2 true 1 [mkO 1 1 MsWaitPuback false 10; mkO 2 2 MsWaitPubcomp false 11; mkO 3 2 MsQueued false 12] 2 [] =
    ([mkO 2 2 MsWaitPubcomp false 11; mkO 3 2 MsWaitPubrec false 12], 2,
     [GCbPublish 1; GSetPublished 10; GSendPublish 3 2 false 12 MsWaitPubrec], Ok 0) := eq_refl.
Example ex_cfg_repr : cfg_repr ex_cfg 4 0 false.
Proof. right; right. repeat split; [left; reflexivity | discriminate]. Qed.
Example ex_iq2 : Forall iq2 [mkI 5 2 20; mkI 6 2 21].
Proof. repeat constructor. Qed.

(* ------------------------------------------------------------------ who writes the stores *)
(* Every method of Client that assigns or mutates _out_messages / _in_messages / _inflight_messages or the
   .state / .dup attribute of an object is one of the translated methods (or __init__, or the local incoming
   message of _handle_publish); the translator additionally checks that inside a translated method nothing
   outside the translated statements touches the stores.  A new writer changes this list. *)
From Coq Require Import String.
Definition store_writers_expected : list string :=
  ["__init__:_in_messages"; "__init__:_inflight_messages"; "__init__:_out_messages";
   "publish:.dup"; "publish:.state"; "publish:_inflight_messages"; "publish:_out_messages";
   "_messages_reconnect_reset_out:.dup"; "_messages_reconnect_reset_out:.state";
   "_messages_reconnect_reset_out:_inflight_messages";
   "_messages_reconnect_reset_in:_in_messages";
   "_handle_connack:.state";
   "_handle_publish:.dup"; "_handle_publish:.state"; "_handle_publish:_in_messages";
   "_handle_pubrel:_in_messages";
   "_update_inflight:.state"; "_update_inflight:_inflight_messages";
   "_handle_pubrec:.state";
   "_do_on_publish:_inflight_messages"; "_do_on_publish:_out_messages"]%string.
Example store_writers_known : gen_store_writers = store_writers_expected := eq_refl.
