(* C03: the inbound half of the Session model refines the abstract receiver [spec_recv],
   for arbitrary histories (no conformance hypothesis). *)
From PahoV Require Import Base.Prelude Codec.Mid Session.Model Session.Check Session.Statements.

Definition R03 (s : sess) (k : k03) : Prop :=
  k03_ok k = true /\ k03_pend k = inm s /\ k03_first k = first s.

Lemma connack_loop_noninbound cn : forall l,
  filter inbound_ev (snd (connack_loop cn l)) = [].
Proof.
  induction l as [|m l IH]; cbn [connack_loop snd]; [reflexivity|].
  destruct (connack_loop cn l) as [r ev]. cbn [snd] in IH.
  destruct (o_st m); try destruct (o_qos m =? 2); cbn [snd filter inbound_ev]; try exact IH; reflexivity.
Qed.

Lemma update_inflight_noninbound c cn : forall l k,
  filter inbound_ev (snd (update_inflight c cn k l)) = [].
Proof.
  induction l as [|m l IH]; intros k; cbn [update_inflight snd]; [reflexivity|].
  destruct (k <? c_max c); [|reflexivity].
  destruct (is_queued m).
  - specialize (IH (k + 1)). destruct (update_inflight c cn (k + 1) l) as [[r n] ev].
    cbn [snd filter inbound_ev] in *. exact IH.
  - specialize (IH k). destruct (update_inflight c cn k l) as [[r n] ev]. cbn [snd] in *. exact IH.
Qed.

Lemma on_publish_noninbound c s m : filter inbound_ev (snd (do_on_publish c s m)) = [].
Proof.
  unfold do_on_publish. destruct (c_max c >? 0).
  - pose proof (update_inflight_noninbound c (conn s) (remove_mid (o_mid m) (out s)) (inflight s - 1)) as H.
    destruct (update_inflight c (conn s) (inflight s - 1) (remove_mid (o_mid m) (out s))) as [[r n] ev].
    cbn [snd filter inbound_ev] in *. exact H.
  - reflexivity.
Qed.

Lemma on_publish_inm c s m : inm (fst (do_on_publish c s m)) = inm s /\ first (fst (do_on_publish c s m)) = first s.
Proof.
  unfold do_on_publish. destruct (c_max c >? 0).
  - destruct (update_inflight c (conn s) (inflight s - 1) (remove_mid (o_mid m) (out s))) as [[r n] ev].
    cbn. split; reflexivity.
  - cbn. split; reflexivity.
Qed.

Lemma on_publish_no_reconn c s m :
  existsb (fun e => match e with Reconn => true | _ => false end) (snd (do_on_publish c s m)) = false
  /\ first_in (snd (do_on_publish c s m)) = None
  /\ raised_in (snd (do_on_publish c s m)) = false.
Proof.
  unfold do_on_publish. destruct (c_max c >? 0).
  - assert (G : forall l k, existsb (fun e => match e with Reconn => true | _ => false end) (snd (update_inflight c (conn s) k l)) = false
                    /\ first_in (snd (update_inflight c (conn s) k l)) = None
                    /\ raised_in (snd (update_inflight c (conn s) k l)) = false).
    { induction l as [|x l IH]; intros k; cbn [update_inflight snd]; [repeat split|].
      destruct (k <? c_max c); [|repeat split]. destruct (is_queued x).
      - specialize (IH (k + 1)). destruct (update_inflight c (conn s) (k + 1) l) as [[r n] ev]. cbn in *. exact IH.
      - specialize (IH k). destruct (update_inflight c (conn s) k l) as [[r n] ev]. cbn in *. exact IH. }
    specialize (G (remove_mid (o_mid m) (out s)) (inflight s - 1)).
    destruct (update_inflight c (conn s) (inflight s - 1) (remove_mid (o_mid m) (out s))) as [[r n] ev].
    cbn in *. exact G.
  - cbn. repeat split.
Qed.

Lemma connack_loop_plain cn : forall l,
  existsb (fun e => match e with Reconn => true | _ => false end) (snd (connack_loop cn l)) = false.
Proof.
  induction l as [|m l IH]; cbn [connack_loop snd]; [reflexivity|].
  destruct (connack_loop cn l) as [r ev]. cbn [snd] in IH.
  destruct (o_st m); try destruct (o_qos m =? 2); cbn [snd existsb orb]; try exact IH; reflexivity.
Qed.

Lemma clean_agree c s k : k03_first k = first s ->
  (if c_clean c =? 0 then false else if c_clean c =? 1 then true else k03_first k) = clean_now c s.
Proof. intros ->. reflexivity. Qed.

Ltac zrefl := rewrite ?Z.eqb_refl; cbn [andb].

Lemma step_R03 c s k o : R03 s k ->
  R03 (fst (step c s o)) (k03_op c k (snd (step c s o))).
Proof.
  intros (Hok & Hp & Hf).
  destruct o as [q|ok| |p r|mid q]; cbn [step].
  - (* publish *)
    unfold do_publish.
    destruct (q =? 0); [destruct (sock s)|];
      [ | | destruct ((c_maxq c >? 0) && (Z.of_nat (length (out s)) >=? c_maxq c));
            [|destruct (has_mid (mid_next (last_mid s)) (out s));
              [|destruct (window_free c (inflight s)); [destruct (sock s)|]]]];
      cbn; unfold R03; cbn; rewrite Hok; repeat split; assumption.
  - (* reconnect *)
    unfold do_reconnect.
    destruct (reset_out_list c (clean_now c s) 0 (out s)) as [o n].
    destruct ok; cbn [fst snd]; unfold k03_op; cbn [existsb orb filter inbound_ev];
      rewrite (clean_agree c s k Hf); unfold R03; cbn; rewrite Hok;
      destruct (clean_now c s); repeat split; assumption.
  - (* connection lost *)
    destruct (sock s); cbn; unfold R03; cbn; rewrite Hok; repeat split; assumption.
  - (* inbound packet *)
    unfold do_rx. destruct (sock s); cbn [negb];
      [|cbn; unfold R03; cbn; rewrite Hok; repeat split; assumption].
    destruct p as [rc|mid|mid|mid|mid|q mid tag].
    + (* CONNACK *)
      destruct (rc =? 0).
      * pose proof (connack_loop_noninbound (conn s) (out s)) as Hn.
        pose proof (connack_loop_plain (conn s) (out s)) as Hr.
        destruct (connack_loop (conn s) (out s)) as [o ev]. cbn [fst snd] in *.
        unfold k03_op. cbn [existsb orb first_in filter inbound_ev]. rewrite Hr, Hn.
        unfold R03. cbn. rewrite Hok. repeat split. assumption.
      * cbn. unfold R03. cbn. rewrite Hok. repeat split. assumption.
    + (* PUBACK *)
      destruct (find_mid mid (out s)) as [m|].
      * pose proof (on_publish_noninbound c s m) as Hn. pose proof (on_publish_inm c s m) as [Hi Hfi].
        pose proof (on_publish_no_reconn c s m) as (Hr & Hfi2 & Hra).
        destruct (do_on_publish c s m) as [s' ev]. cbn [fst snd] in *.
        unfold k03_op. cbn [existsb orb first_in filter inbound_ev]. rewrite Hr, Hn.
        cbn [spec_recv evlist_eqb]. unfold R03. cbn. rewrite Hok, Hi, Hfi. repeat split; assumption.
      * cbn. unfold R03. cbn. rewrite Hok. repeat split; assumption.
    + (* PUBREC *)
      destruct (has_mid mid (out s)).
      * destruct (find_mid mid (out s)) as [m|]; cbn; unfold R03; cbn; rewrite Hok; repeat split; assumption.
      * cbn. unfold R03. cbn. rewrite Hok. repeat split; assumption.
    + (* PUBCOMP *)
      destruct (find_mid mid (out s)) as [m|].
      * pose proof (on_publish_noninbound c s m) as Hn. pose proof (on_publish_inm c s m) as [Hi Hfi].
        pose proof (on_publish_no_reconn c s m) as (Hr & Hfi2 & Hra).
        destruct (do_on_publish c s m) as [s' ev]. cbn [fst snd] in *.
        unfold k03_op. cbn [existsb orb first_in filter inbound_ev]. rewrite Hr, Hn.
        cbn [spec_recv evlist_eqb]. unfold R03. cbn. rewrite Hok, Hi, Hfi. repeat split; assumption.
      * cbn. unfold R03. cbn. rewrite Hok. repeat split; assumption.
    + (* PUBREL *)
      unfold k03_op, deliver.
      destruct (in_find mid (inm s)) as [tag|] eqn:Ef.
      * destruct (r && negb (c_suppress c)) eqn:Er; [|destruct (c_manual c) eqn:Em];
          cbn; rewrite Hp, Ef; cbn; rewrite ?Em; cbn; zrefl; unfold R03; cbn; rewrite Hok; zrefl; repeat split; assumption.
      * destruct (c_manual c) eqn:Em; cbn; rewrite Hp, Ef; cbn; rewrite ?Em; cbn; zrefl;
          unfold R03; cbn; rewrite Hok; repeat split; assumption.
    + (* PUBLISH *)
      unfold k03_op, deliver.
      destruct (q =? 0) eqn:E0.
      * destruct (r && negb (c_suppress c)); cbn; rewrite E0; cbn; zrefl; unfold R03; cbn; rewrite Hok; repeat split; assumption.
      * destruct (q =? 1) eqn:E1.
        -- destruct (r && negb (c_suppress c)) eqn:Er; [|destruct (c_manual c) eqn:Em];
             cbn; rewrite E0, E1; cbn; rewrite ?Em; cbn; zrefl; unfold R03; cbn; rewrite Hok; repeat split; assumption.
        -- cbn. rewrite E0, E1. cbn. zrefl. unfold R03. cbn. rewrite Hok, Hp. repeat split; assumption.
  - (* ack() *)
    unfold do_ack. destruct (c_manual c) eqn:Em; cbn [andb].
    + destruct (sock s); [destruct (q =? 1); [|destruct (q =? 2)]|];
        cbn; rewrite ?Em; cbn; unfold R03; cbn; rewrite Hok; repeat split; assumption.
    + cbn. unfold R03. cbn. rewrite Hok. repeat split; assumption.
Qed.

Lemma run_R03 c : forall ops s k, R03 s k ->
  k03_ok (fold_left (k03_op c) (map snd (run_steps c s ops)) k) = true.
Proof.
  induction ops as [|o ops IH]; intros s k HR; cbn [run_steps map fold_left].
  - destruct HR as [H _]. exact H.
  - pose proof (step_R03 c s k o HR) as HR'.
    destruct (step c s o) as [s' ev]. cbn [fst snd map fold_left] in *.
    apply IH with (s := s'). exact HR'.
Qed.

Theorem c03_proved : C03_stmt.
Proof.
  intros c ops. unfold c03_ok, optrace. apply run_R03.
  unfold R03, k03_init, init. cbn. repeat split.
Qed.
