(* C01: a QoS>0 message is owned until its final acknowledgement and completes exactly once;
   on an established connection every owned message has been (re)transmitted or the window is full.
   Proof of [C01_stmt] by a relational invariant between the model state and the checker state. *)
From PahoV Require Import Base.Prelude Codec.Mid Codec.MidProofs Session.Model Session.Check
  Session.Lemmas Session.Inv Session.Statements.
From Coq Require Import Sorting.Sorted.

(* ---------------------------------------------------------------- list helpers of the checker *)
Lemma zin_In x l : zin x l = true <-> In x l.
Proof.
  induction l as [|y l IH]; cbn [zin In]; [split; [discriminate|tauto]|].
  rewrite orb_true_iff, IH. split; intros [H|H]; auto; left; lia.
Qed.

Lemma zin_notIn x l : ~ In x l -> zin x l = false.
Proof. intros H. destruct (zin x l) eqn:E; [|reflexivity]. apply zin_In in E. contradiction. Qed.

Lemma zadd_In x y l : In x (zadd y l) <-> x = y \/ In x l.
Proof.
  unfold zadd. destruct (zin y l) eqn:E.
  - apply zin_In in E. split; [auto|]. intros [->|H]; assumption.
  - rewrite in_app_iff. cbn [In]. split; intros [H|H]; auto.
    + destruct H as [H|[]]; auto.
Qed.

Lemma fold_zadd_In x ts : forall l, In x (fold_left (fun l t => zadd t l) ts l) <-> In x l \/ In x ts.
Proof.
  induction ts as [|t ts IH]; intros l; cbn [fold_left In]; [tauto|].
  rewrite IH, zadd_In. split; intros H; intuition auto.
Qed.

Lemma SSorted_NoDup l : StronglySorted Z.lt l -> NoDup l.
Proof.
  induction 1 as [|x l Hs IH Hf]; constructor; [|assumption].
  intros Hin. pose proof (proj1 (Forall_forall _ _) Hf x Hin). lia.
Qed.

Lemma NoDup_app_l {A} (l1 l2 : list A) : NoDup (l1 ++ l2) -> NoDup l1.
Proof.
  induction l1 as [|x l1 IH]; cbn [app]; intros H; [constructor|].
  inversion H as [|? ? Hx Hn]; subst. constructor; [|apply IH; assumption].
  intros Hin. apply Hx. apply in_or_app. left. assumption.
Qed.

Definition lof (m : omsg) : lmsg := mkL (o_tag m) (o_mid m) (o_qos m).

Lemma tags_lof l : tags l = map l_tag (map lof l).
Proof. unfold tags. rewrite map_map. reflexivity. Qed.

Lemma lhas_tag_In t l : lhas_tag t l = true <-> In t (map l_tag l).
Proof.
  unfold lhas_tag. rewrite existsb_exists, in_map_iff. split.
  - intros (x & H1 & H2). exists x. split; [lia|assumption].
  - intros (x & H1 & H2). exists x. split; [assumption|lia].
Qed.

Lemma lrem_tag_notin t l : ~ In t (map l_tag l) -> lrem_tag t l = l.
Proof.
  induction l as [|x l IH]; cbn [lrem_tag map In]; [reflexivity|]. intros H.
  destruct (l_tag x =? t) eqn:E; [exfalso; apply H; left; lia|]. f_equal. apply IH. tauto.
Qed.

Lemma lrem_tag_split t l1 x l2 : ~ In t (map l_tag l1) -> ~ In t (map l_tag l2) -> l_tag x = t ->
  lrem_tag t (l1 ++ x :: l2) = l1 ++ l2.
Proof.
  intros H1 H2 Hx. induction l1 as [|y l1 IH]; cbn [lrem_tag app].
  - replace (l_tag x =? t) with true by lia. apply lrem_tag_notin. assumption.
  - cbn [map In] in H1. destruct (l_tag y =? t) eqn:E; [exfalso; apply H1; left; lia|].
    f_equal. apply IH. tauto.
Qed.

Lemma qos_ok_nz m : qos_okb m = true -> (o_qos m =? 0) = false.
Proof. unfold qos_okb. destruct (o_qos m =? 1) eqn:E1; [lia|]. intros H. lia. Qed.

(* ---------------------------------------------------------------- classes of events *)
(* the tag of a QoS>0 PUBLISH or of a PUBREL written to the socket *)
Definition txtag (e : event) : option Z :=
  match e with
  | Tx _ (PPublish _ q _ tag) => if q =? 0 then None else Some tag
  | Tx _ (PPubrel _ tag) => Some tag
  | _ => None
  end.
Definition txtags (evs : list event) : list Z :=
  flat_map (fun e => match txtag e with Some t => [t] | None => [] end) evs.
Definition all_tx (evs : list event) : Prop := Forall (fun e => txtag e <> None) evs.

Lemma fold_tx : forall evs k, all_tx evs ->
  fold_left k01_ev evs k =
  mkK01 (k1_live k) (k1_q0 k) (k1_done k) (fold_left (fun l t => zadd t l) (txtags evs) (k1_onconn k))
        (k1_est k) (k1_ok k).
Proof.
  induction evs as [|e evs IH]; intros k H.
  - destruct k; reflexivity.
  - inversion H as [|? ? He H']; subst. cbn [fold_left]. rewrite (IH _ H'). clear IH H H'.
    destruct e as [cn p| | | | | | | | |]; try (exfalso; apply He; reflexivity).
    destruct p as [|mid q dup tag|mid tag| | |]; try (exfalso; apply He; reflexivity).
    + cbn [txtag] in He. unfold txtags. cbn [flat_map txtag k01_ev].
      destruct (q =? 0); [exfalso; apply He; reflexivity|]. reflexivity.
    + reflexivity.
Qed.

Lemma tx_completed evs : all_tx evs -> completed_tags evs = [].
Proof.
  induction 1 as [|e evs He H IH]; [reflexivity|]. cbn [completed_tags flat_map].
  fold (completed_tags evs). rewrite IH.
  destruct e; try reflexivity. exfalso; apply He; reflexivity.
Qed.

(* events the C01 checker ignores *)
Definition neutral (e : event) : bool :=
  match e with
  | Tx _ (PPublish _ _ _ _) | Tx _ (PPubrel _ _) => false
  | Tx _ _ => true
  | CbMessage _ _ _ | Raised => true
  | Inp (IConnack _) => false
  | Inp _ => true
  | _ => false
  end.

Lemma neutral_fold : forall evs k, forallb neutral evs = true -> fold_left k01_ev evs k = k.
Proof.
  induction evs as [|e evs IH]; intros k H; [reflexivity|].
  cbn [forallb] in H. apply andb_true_iff in H as [He H]. cbn [fold_left].
  destruct e as [cn p| | | | | |p| | |]; try discriminate; try (apply IH; exact H).
  - destruct p; try discriminate; apply IH; exact H.
  - destruct p; try discriminate; apply IH; exact H.
Qed.

Lemma neutral_completed evs : forallb neutral evs = true -> completed_tags evs = [].
Proof.
  induction evs as [|e evs IH]; intros H; [reflexivity|].
  cbn [forallb] in H. apply andb_true_iff in H as [He H].
  cbn [completed_tags flat_map]. fold (completed_tags evs). rewrite (IH H).
  destruct e; try reflexivity; discriminate.
Qed.

(* ---------------------------------------------------------------- the three loops, as seen by the checker *)
Lemma reset1_lof cl m : lof (reset1 cl m) = lof m.
Proof. unfold lof. rewrite reset1_tag, reset1_mid, reset1_qos. reflexivity. Qed.

Lemma reset_out_facts c cl : forall l infl,
  map lof (fst (reset_out_list c cl infl l)) = map lof l /\
  Forall (fun m => is_wait m = false) (fst (reset_out_list c cl infl l)).
Proof.
  induction l as [|m l IH]; intros infl; cbn [reset_out_list].
  - split; [reflexivity|constructor].
  - destruct (window_free c infl).
    + destruct (IH (infl + 1)) as [H1 H2]. destruct (reset_out_list c cl (infl + 1) l) as [r n].
      cbn [fst map] in *. split; [rewrite reset1_lof, H1; reflexivity|].
      constructor; [apply reset1_notwait|assumption].
    + destruct (IH infl) as [H1 H2]. destruct (reset_out_list c cl infl l) as [r n].
      cbn [fst map] in *. split; [rewrite H1; reflexivity|].
      constructor; [reflexivity|assumption].
Qed.

Lemma connack_loop_facts cn : forall l,
  Forall (fun m => qos_okb m = true) l ->
  map lof (fst (connack_loop cn l)) = map lof l /\
  all_tx (snd (connack_loop cn l)) /\
  (forall x, In x (fst (connack_loop cn l)) -> is_wait x = true ->
     In x l \/ In (o_tag x) (txtags (snd (connack_loop cn l)))).
Proof.
  induction l as [|m l IH]; intros Hq; cbn [connack_loop].
  - split; [reflexivity|]. split; [constructor|]. intros x [].
  - inversion Hq as [|? ? Hm Hq']; subst. destruct (IH Hq') as (H1 & H2 & H3). clear IH.
    pose proof (qos_ok_nz _ Hm) as Hnz.
    destruct (connack_loop cn l) as [r ev]. cbn [fst snd] in *.
    assert (Hkeep : map lof (m :: r) = map lof (m :: l) /\ all_tx ev /\
              (forall x, In x (m :: r) -> is_wait x = true -> In x (m :: l) \/ In (o_tag x) (txtags ev))).
    { split; [cbn [map]; rewrite H1; reflexivity|]. split; [assumption|].
      intros x [<-|Hx] Hw; [left; left; reflexivity|]. destruct (H3 x Hx Hw); [left; right; assumption|right; assumption]. }
    destruct (o_st m) eqn:Est; try exact Hkeep.
    + cbn [fst snd map]. split; [rewrite H1; reflexivity|]. split.
      * constructor; [cbn [txtag]; rewrite Hnz; discriminate|assumption].
      * intros x [<-|Hx] Hw.
        -- right. unfold txtags. cbn [flat_map txtag]. rewrite Hnz. left. reflexivity.
        -- destruct (H3 x Hx Hw) as [H|H]; [left; right; assumption|].
           right. unfold txtags. cbn [flat_map]. apply in_or_app. right. exact H.
    + destruct (o_qos m =? 2); cbn [fst snd]; [|exact Hkeep].
      cbn [map]. split; [rewrite H1; reflexivity|]. split.
      * constructor; [cbn [txtag]; discriminate|assumption].
      * intros x [<-|Hx] Hw.
        -- right. unfold txtags. cbn [flat_map txtag]. left. reflexivity.
        -- destruct (H3 x Hx Hw) as [H|H]; [left; right; assumption|].
           right. unfold txtags. cbn [flat_map]. apply in_or_app. right. exact H.
    + cbn [fst snd]. split; [reflexivity|]. split; [constructor|]. intros x Hx _. left. exact Hx.
Qed.

Lemma update_inflight_facts c cn : forall l k,
  Forall (fun m => qos_okb m = true) l ->
  map lof (fst (fst (update_inflight c cn k l))) = map lof l /\
  all_tx (snd (update_inflight c cn k l)) /\
  (forall x, In x (fst (fst (update_inflight c cn k l))) -> is_wait x = true ->
     In x l \/ In (o_tag x) (txtags (snd (update_inflight c cn k l)))).
Proof.
  induction l as [|m l IH]; intros k Hq; cbn [update_inflight].
  - split; [reflexivity|]. split; [constructor|]. intros x [].
  - inversion Hq as [|? ? Hm Hq']; subst.
    pose proof (qos_ok_nz _ Hm) as Hnz.
    destruct (k <? c_max c).
    + destruct (is_queued m).
      * destruct (IH (k + 1) Hq') as (H1 & H2 & H3). clear IH.
        destruct (update_inflight c cn (k + 1) l) as [[r n] ev]. cbn [fst snd map] in *.
        split; [rewrite H1; reflexivity|]. split.
        -- constructor; [cbn [txtag]; rewrite Hnz; discriminate|assumption].
        -- intros x [<-|Hx] Hw.
           ++ right. unfold txtags. cbn [flat_map txtag]. rewrite Hnz. left. reflexivity.
           ++ destruct (H3 x Hx Hw) as [H|H]; [left; right; assumption|].
              right. unfold txtags. cbn [flat_map]. apply in_or_app. right. exact H.
      * destruct (IH k Hq') as (H1 & H2 & H3). clear IH.
        destruct (update_inflight c cn k l) as [[r n] ev]. cbn [fst snd map] in *.
        split; [rewrite H1; reflexivity|]. split; [assumption|].
        intros x [<-|Hx] Hw; [left; left; reflexivity|].
        destruct (H3 x Hx Hw); [left; right; assumption|right; assumption].
    + cbn [fst snd]. split; [reflexivity|]. split; [constructor|]. intros x Hx _. left. exact Hx.
Qed.

Lemma update_mid_facts mid f : (forall m, lof (f m) = lof m) -> forall l,
  map lof (update_mid mid f l) = map lof l /\
  (forall x, In x (update_mid mid f l) -> In x l \/ exists m, find_mid mid l = Some m /\ x = f m).
Proof.
  intros Hf. induction l as [|m l [IH1 IH2]]; cbn [update_mid find_mid].
  - split; [reflexivity|]. intros x [].
  - destruct (o_mid m =? mid).
    + cbn [map]. split; [rewrite Hf; reflexivity|].
      intros x [<-|Hx]; [right; exists m; split; reflexivity|left; right; assumption].
    + cbn [map]. split; [rewrite IH1; reflexivity|].
      intros x [<-|Hx]; [left; left; reflexivity|].
      destruct (IH2 x Hx) as [H|H]; [left; right; assumption|right; assumption].
Qed.

(* ---------------------------------------------------------------- the relational invariant *)
Record R (s : sess) (k : k01) : Prop := mkR {
  r_ok : k1_ok k = true;
  r_q0 : k1_q0 k = [];
  r_live : k1_live k = map lof (out s);
  r_done : forall t, In t (k1_done k) -> t < ntag s /\ ~ In t (tags (out s));
  r_est : k1_est k = true -> cack s = true;
  r_conn : sock s = true -> forall m, In m (out s) -> is_wait m = true -> In (o_tag m) (k1_onconn k)
}.

Definition ok1_of (k : k01) (evs : list event) : bool :=
  forallb (fun t =>
     existsb (fun m => (l_tag m =? t) && existsb (final_ack_of m) evs) (k1_live k)
     || existsb (fun e => match e with Tx _ (PPublish _ q _ t') => (q =? 0) && (t' =? t) | _ => false end) evs)
   (completed_tags evs).

Definition ok2_of (n : Z) (k : k01) : bool :=
  negb (k1_est k) ||
  forallb (fun m => zin (l_tag m) (k1_onconn k) ||
                    ((n >? 0) && (zlen (filter (fun t => lhas_tag t (k1_live k)) (k1_onconn k)) >=? n)))
          (k1_live k).

Lemma k01_op_eq n k evs :
  k01_op n k evs =
  let k' := fold_left k01_ev evs k in
  mkK01 (k1_live k') (k1_q0 k') (k1_done k') (k1_onconn k') (k1_est k') (k1_ok k' && ok1_of k evs && ok2_of n k').
Proof. reflexivity. Qed.

(* (ok2): on an established connection everything owned is on the wire or the window is full *)
Lemma R_ok2 c s k : Inv c s -> R s k -> ok2_of (c_max c) k = true.
Proof.
  intros I [Rok Rq0 Rl Rd Re Rc]. unfold ok2_of.
  destruct (k1_est k) eqn:Eest; [|reflexivity]. cbn [negb orb].
  pose proof (Re eq_refl) as Hck. pose proof (inv_cack _ _ I Hck) as Hs.
  destruct (inv_shape _ _ I) as (C & U & Q & Sh).
  pose proof (sh_sockU _ _ _ _ _ Sh Hs) as HU. subst U.
  pose proof (sh_out _ _ _ _ _ Sh) as So. cbn [app] in So.
  pose proof (sh_est _ _ _ _ _ Sh Hck) as HCw.
  assert (HC : forall m, In m C -> In (o_tag m) (k1_onconn k)).
  { intros m Hm. apply (Rc Hs); [rewrite So; apply in_or_app; left; assumption|].
    exact (proj1 (Forall_forall _ _) HCw m Hm). }
  rewrite Rl. apply forallb_forall. intros x Hx. apply in_map_iff in Hx as (m & <- & Hm).
  rewrite So in Hm. apply in_app_or in Hm as [Hm|Hm].
  - cbn [lof l_tag]. replace (zin (o_tag m) (k1_onconn k)) with true; [reflexivity|].
    symmetry. apply zin_In. apply HC. assumption.
  - apply orb_true_iff. right.
    destruct (sh_full _ _ _ _ _ Sh) as [Hpos Hlen]; [intros ->; destruct Hm|].
    assert (Hnd : NoDup (tags C)).
    { pose proof (SSorted_NoDup _ (inv_sorted _ _ I)) as H. rewrite So, tags_app in H.
      eapply NoDup_app_l. exact H. }
    assert (Hincl : incl (tags C) (filter (fun t => lhas_tag t (map lof (out s))) (k1_onconn k))).
    { intros t Ht. unfold tags in Ht. apply in_map_iff in Ht as (y & <- & Hy).
      apply filter_In. split; [apply HC; assumption|].
      apply lhas_tag_In. rewrite <- tags_lof. unfold tags. apply in_map. rewrite So. apply in_or_app. left. assumption. }
    pose proof (NoDup_incl_length Hnd Hincl) as Hle.
    unfold tags in Hle. rewrite map_length in Hle. unfold zlen. lia.
Qed.

Lemma R_set_ok s k b : R s k -> b = true ->
  R s (mkK01 (k1_live k) (k1_q0 k) (k1_done k) (k1_onconn k) (k1_est k) (k1_ok k && b)).
Proof.
  intros [Rok Rq0 Rl Rd Re Rc] ->. constructor; cbn; try assumption. rewrite Rok. reflexivity.
Qed.

(* what every operation has to establish *)
Definition Good (s' : sess) (k : k01) (evs : list event) : Prop :=
  R s' (fold_left k01_ev evs k) /\ ok1_of k evs = true.

(* ---------------------------------------------------------------- operations the checker does not see *)
Lemma good_neutral s s' k evs :
  forallb neutral evs = true ->
  out s' = out s -> ntag s' = ntag s -> sock s' = sock s -> cack s' = cack s ->
  R s k -> Good s' k evs.
Proof.
  intros Hn Ho Ht Hs Hc [Rok Rq0 Rl Rd Re Rc]. split.
  - rewrite (neutral_fold _ _ Hn). constructor; rewrite ?Ho, ?Ht, ?Hs, ?Hc; assumption.
  - unfold ok1_of. rewrite (neutral_completed _ Hn). reflexivity.
Qed.

Lemma good_nil s k : R s k -> Good s k [].
Proof. intros H. apply (good_neutral s s k []); auto. Qed.

(* ---------------------------------------------------------------- publish() *)
Lemma good_publish c s q k : Inv c s -> (0 <=? q) && (q <=? 2) = true -> R s k ->
  Good (fst (do_publish c s q)) k (snd (do_publish c s q)).
Proof.
  intros I Hq [Rok Rq0 Rl Rd Re Rc].
  destruct k as [live q0 done onc est ok]. cbn [k1_ok k1_q0 k1_live k1_done k1_est k1_onconn] in *. subst.
  pose proof (inv_tags _ _ I) as Htg.
  assert (Hd1 : forall t, In t done -> t < ntag s + 1 /\ ~ In t (tags (out s))).
  { intros t Ht. destruct (Rd t Ht). split; [lia|assumption]. }
  assert (Hd2 : forall t x, In t done -> o_tag x = ntag s -> t < ntag s + 1 /\ ~ In t (tags (out s ++ [x]))).
  { intros t x Ht Hx. destruct (Rd t Ht) as [H1 H2]. split; [lia|]. rewrite tags_app. intros H.
    apply in_app_or in H as [H|H]; [contradiction|]. cbn in H. lia. }
  unfold do_publish.
  destruct (q =? 0) eqn:Eq0.
  - destruct (sock s) eqn:Hs; cbn [fst snd].
    + assert (q = 0) by lia. subst q. split.
      * cbn [fold_left k01_ev]. cbn [Z.eqb zadd zin k1_q0 app]. rewrite Z.eqb_refl. cbn [orb].
        cbn [k1_q0 zin zrem]. rewrite Z.eqb_refl. cbn [orb Z.gtb Z.compare andb].
        constructor; cbn; try assumption; try reflexivity.
      * unfold ok1_of. cbn. rewrite Z.eqb_refl. rewrite orb_true_r. reflexivity.
    + assert (q = 0) by lia. subst q. split; [|reflexivity].
      cbn. constructor; cbn; try assumption; try reflexivity.
  - assert (Hgt : (q >? 0) = true) by lia.
    assert (Hr15 : Good (mkS (out s) (inm s) (inflight s) (mid_next (last_mid s)) (sock s) (first s) (cack s) (conn s) (ntag s + 1))
                     (mkK01 (map lof (out s)) [] done onc est true) [Ret (ntag s) (mid_next (last_mid s)) q 15]).
    { split; [|reflexivity]. cbn [fold_left k01_ev]. rewrite Hgt. cbn.
      constructor; cbn; try assumption; try reflexivity. }
    destruct ((c_maxq c >? 0) && (Z.of_nat (length (out s)) >=? c_maxq c)); [exact Hr15|].
    destruct (has_mid (mid_next (last_mid s)) (out s)); [exact Hr15|]. clear Hr15.
    destruct (window_free c (inflight s)).
    + destruct (sock s) eqn:Hs; cbn [fst snd].
      * split; [|reflexivity]. cbn [fold_left k01_ev]. rewrite Eq0, Hgt. cbn.
        constructor; cbn; try reflexivity; try assumption.
        -- rewrite map_app. reflexivity.
        -- intros t Ht. apply Hd2; [assumption|reflexivity].
        -- intros _ m Hm Hw. apply zadd_In. apply in_app_or in Hm as [Hm|[<-|[]]]; [|left; reflexivity].
           right. apply Rc; auto.
      * split; [|reflexivity]. cbn [fold_left k01_ev]. rewrite Hgt. cbn.
        constructor; cbn; try reflexivity; try assumption.
        -- rewrite map_app. reflexivity.
        -- intros t Ht. apply Hd2; [assumption|reflexivity].
        -- discriminate.
    + cbn [fst snd]. split; [|reflexivity]. cbn [fold_left k01_ev]. rewrite Hgt. cbn.
      constructor; cbn; try reflexivity; try assumption.
      * rewrite map_app. reflexivity.
      * intros t Ht. apply Hd2; [assumption|reflexivity].
      * intros Hs m Hm Hw. apply in_app_or in Hm as [Hm|[<-|[]]]; [|discriminate]. apply Rc; auto.
Qed.

(* ---------------------------------------------------------------- reconnect(), connection loss, ack() *)
Lemma good_reconnect c s ok k : R s k ->
  Good (fst (do_reconnect c s ok)) k (snd (do_reconnect c s ok)).
Proof.
  intros [Rok Rq0 Rl Rd Re Rc].
  destruct k as [live q0 done onc est okk]. cbn [k1_ok k1_q0 k1_live k1_done k1_est k1_onconn] in *. subst.
  unfold do_reconnect.
  destruct (reset_out_facts c (clean_now c s) (out s) 0) as [H1 H2].
  destruct (reset_out_list c (clean_now c s) 0 (out s)) as [o n]. cbn [fst] in *.
  assert (Ht : tags o = tags (out s)) by (rewrite !tags_lof, H1; reflexivity).
  destruct ok; cbn [fst snd]; (split; [|reflexivity]); cbn [fold_left k01_ev];
    constructor; cbn -[tags]; rewrite ?Ht; try assumption; try reflexivity; try discriminate; try (symmetry; assumption).
  intros _ m Hm Hw. pose proof (proj1 (Forall_forall _ _) H2 m Hm). congruence.
Qed.

Lemma good_connlost c s k : R s k ->
  Good (fst (step c s OConnLost)) k (snd (step c s OConnLost)).
Proof.
  intros HR. cbn [step]. destruct (sock s) eqn:Hs; cbn [fst snd]; [|apply good_nil; assumption].
  destruct HR as [Rok Rq0 Rl Rd Re Rc].
  split; [|reflexivity]. cbn [fold_left k01_ev].
  constructor; cbn; try assumption; try discriminate.
Qed.

Lemma good_ack c s mid q k : R s k ->
  Good (fst (do_ack c s mid q)) k (snd (do_ack c s mid q)).
Proof.
  intros HR. unfold do_ack.
  destruct (c_manual c && sock s); [destruct (q =? 1); [|destruct (q =? 2)]|]; cbn [fst snd];
    apply (good_neutral s s); auto.
Qed.

(* ---------------------------------------------------------------- CONNACK *)
Lemma good_connack c s rc r k : Inv c s -> sock s = true -> R s k ->
  Good (fst (do_rx c s (IConnack rc) r)) k (snd (do_rx c s (IConnack rc) r)).
Proof.
  intros I Hs [Rok Rq0 Rl Rd Re Rc].
  destruct k as [live q0 done onc est okk]. cbn [k1_ok k1_q0 k1_live k1_done k1_est k1_onconn] in *. subst.
  unfold do_rx. rewrite Hs. cbn [negb].
  destruct (rc =? 0) eqn:Erc.
  - destruct (connack_loop_facts (conn s) (out s) (inv_qos _ _ I)) as (H1 & H2 & H3).
    destruct (connack_loop (conn s) (out s)) as [o ev]. cbn [fst snd] in *.
    assert (Ht : tags o = tags (out s)) by (rewrite !tags_lof, H1; reflexivity).
    split.
    + cbn [fold_left k01_ev]. rewrite (fold_tx _ _ H2). cbn [k1_ok k1_q0 k1_live k1_done k1_est k1_onconn].
      constructor; cbn -[tags]; rewrite ?Ht; try assumption; try reflexivity; try (symmetry; assumption).
      intros _ m Hm Hw. apply fold_zadd_In. destruct (H3 m Hm Hw) as [H|H]; [left|right; assumption].
      apply Rc; auto.
    + unfold ok1_of. cbn [completed_tags flat_map app]. fold (completed_tags ev).
      rewrite (tx_completed _ H2). reflexivity.
  - cbn [fst snd]. split; [|reflexivity]. cbn [fold_left k01_ev].
    constructor; cbn; try assumption; try reflexivity; try discriminate.
Qed.

(* ---------------------------------------------------------------- the final acknowledgement *)
Definition final_pkt (m : omsg) (p : inpkt) : Prop :=
  (p = IPuback (o_mid m) /\ o_qos m = 1) \/ (p = IPubcomp (o_mid m) /\ o_qos m = 2).

Lemma good_ack_core c s m p k l1 l2 o' n ev :
  Inv c s -> out s = l1 ++ m :: l2 -> final_pkt m p ->
  map lof o' = map lof (l1 ++ l2) ->
  all_tx ev ->
  (forall x, In x o' -> is_wait x = true -> In x (l1 ++ l2) \/ In (o_tag x) (txtags ev)) ->
  R s k ->
  Good (with_out s o' n) k (Inp p :: CbPublish (o_mid m) (o_tag m) :: Published (o_tag m) :: ev).
Proof.
  intros I So Hp H1 H2 H3 [Rok Rq0 Rl Rd Re Rc].
  destruct k as [live q0 done onc est okk]. cbn [k1_ok k1_q0 k1_live k1_done k1_est k1_onconn] in *. subst.
  pose proof (SSorted_NoDup _ (inv_sorted _ _ I)) as Hnd. rewrite So in Hnd.
  unfold tags in Hnd. rewrite map_app in Hnd. cbn [map] in Hnd.
  pose proof (NoDup_remove_2 _ _ _ Hnd) as Hnotin. fold (tags l1) (tags l2) in Hnotin.
  assert (Hin : In m (out s)) by (rewrite So; apply in_or_app; right; left; reflexivity).
  pose proof (proj1 (Forall_forall _ _) (inv_tags _ _ I) m Hin) as Htm. cbn beta in Htm.
  assert (Hhas : lhas_tag (o_tag m) (map lof (out s)) = true).
  { apply lhas_tag_In. rewrite <- tags_lof. unfold tags. apply in_map. assumption. }
  assert (Hnd' : zin (o_tag m) done = false).
  { apply zin_notIn. intros H. destruct (Rd _ H) as [_ H']. apply H'. unfold tags. apply in_map. assumption. }
  assert (Hrem : lrem_tag (o_tag m) (map lof (out s)) = map lof o').
  { rewrite H1, So, !map_app. cbn [map]. apply lrem_tag_split; [| |reflexivity]; rewrite <- tags_lof;
      intros H; apply Hnotin; apply in_or_app; [left|right]; assumption. }
  assert (Ht : tags o' = tags l1 ++ tags l2) by (rewrite tags_lof, H1, <- tags_lof, tags_app; reflexivity).
  assert (Hsub : forall x, In x (l1 ++ l2) -> In x (out s)).
  { intros x Hx. rewrite So. apply in_app_or in Hx as [Hx|Hx]; apply in_or_app; [left|right; right]; assumption. }
  split.
  - assert (Hk : fold_left k01_ev [Inp p; CbPublish (o_mid m) (o_tag m); Published (o_tag m)]
                   (mkK01 (map lof (out s)) [] done onc est true)
                 = mkK01 (map lof o') [] (done ++ [o_tag m]) onc est true).
    { destruct Hp as [[-> _]|[-> _]]; cbn [fold_left k01_ev zin k1_q0 k1_live k1_done k1_est k1_onconn k1_ok];
        rewrite Hhas, Hnd', Hrem; reflexivity. }
    change (Inp p :: CbPublish (o_mid m) (o_tag m) :: Published (o_tag m) :: ev)
      with ([Inp p; CbPublish (o_mid m) (o_tag m); Published (o_tag m)] ++ ev).
    rewrite fold_left_app, Hk, (fold_tx _ _ H2). cbn [k1_ok k1_q0 k1_live k1_done k1_est k1_onconn].
    constructor; cbn -[tags]; try assumption; try reflexivity.
    + intros t Ht'. rewrite Ht. apply in_app_or in Ht' as [Ht'|[<-|[]]].
      * destruct (Rd _ Ht') as [Ha Hb]. split; [assumption|]. intros H. apply Hb.
        rewrite So, tags_app. cbn. apply in_app_or in H as [H|H]; apply in_or_app; [left|right; right]; assumption.
      * split; [lia|]. exact Hnotin.
    + intros Hs x Hx Hw. apply fold_zadd_In. destruct (H3 x Hx Hw) as [H|H]; [left|right; assumption].
      apply Rc; auto.
  - unfold ok1_of. cbn [completed_tags flat_map app]. fold (completed_tags ev).
    rewrite (tx_completed _ H2). cbn [forallb]. rewrite andb_true_r. apply orb_true_iff. left.
    apply existsb_exists. exists (lof m). split; [apply in_map; assumption|].
    cbn [lof l_tag]. rewrite Z.eqb_refl. cbn [andb existsb].
    destruct Hp as [[-> Hq]|[-> Hq]]; cbn [final_ack_of lof l_qos l_mid]; apply orb_true_iff; left; lia.
Qed.

Lemma good_on_publish c s m p k : Inv c s -> find_mid (o_mid m) (out s) = Some m -> final_pkt m p -> R s k ->
  Good (fst (do_on_publish c s m)) k (Inp p :: snd (do_on_publish c s m)).
Proof.
  intros I Hf Hp HR.
  destruct (find_mid_split _ _ _ Hf) as (l1 & l2 & So & Hn & _).
  assert (Hrm : remove_mid (o_mid m) (out s) = l1 ++ l2) by (rewrite So; apply remove_mid_split; [assumption|reflexivity]).
  assert (Hq : Forall (fun x => qos_okb x = true) (l1 ++ l2)).
  { pose proof (inv_qos _ _ I) as H. rewrite So in H. eapply Forall_remove. exact H. }
  unfold do_on_publish. rewrite Hrm. destruct (c_max c >? 0).
  - destruct (update_inflight_facts c (conn s) (l1 ++ l2) (inflight s - 1) Hq) as (H1 & H2 & H3).
    destruct (update_inflight c (conn s) (inflight s - 1) (l1 ++ l2)) as [[o' n] ev]. cbn [fst snd] in *.
    eapply good_ack_core; eassumption.
  - cbn [fst snd]. eapply (good_ack_core c s m p k l1 l2 (l1 ++ l2) _ []); try eassumption; try reflexivity.
    + constructor.
    + intros x Hx _. left. exact Hx.
Qed.

(* ---------------------------------------------------------------- PUBREC *)
Lemma good_pubrec s mid m k : find_mid mid (out s) = Some m -> R s k ->
  Good (with_out s (update_mid mid (fun m0 => set_st m0 MsWaitPubcomp) (out s)) (inflight s)) k
       [Inp (IPubrec mid); Tx (conn s) (PPubrel mid (o_tag m))].
Proof.
  intros Ef [Rok Rq0 Rl Rd Re Rc].
  destruct k as [live q0 done onc est okk]. cbn [k1_ok k1_q0 k1_live k1_done k1_est k1_onconn] in *. subst.
  destruct (update_mid_facts mid (fun m0 => set_st m0 MsWaitPubcomp) (fun _ => eq_refl) (out s)) as [H1 H2].
  assert (Ht : tags (update_mid mid (fun m0 => set_st m0 MsWaitPubcomp) (out s)) = tags (out s))
    by (rewrite !tags_lof, H1; reflexivity).
  split; [|reflexivity]. cbn [fold_left k01_ev k1_ok k1_q0 k1_live k1_done k1_est k1_onconn].
  constructor; cbn -[tags update_mid]; rewrite ?Ht; try assumption; try reflexivity; try (symmetry; assumption).
  intros Hs x Hx Hw. apply zadd_In. destruct (H2 x Hx) as [H|(m' & Hm' & ->)].
  - right. apply Rc; auto.
  - left. rewrite Ef in Hm'. inversion Hm'. reflexivity.
Qed.

(* ---------------------------------------------------------------- one inbound packet *)
Lemma good_rx c s p r k : Inv c s -> conf_op c s (ORx p r) = true -> R s k ->
  Good (fst (do_rx c s p r)) k (snd (do_rx c s p r)).
Proof.
  intros I Hconf HR. destruct (sock s) eqn:Hs.
  2: { unfold do_rx. rewrite Hs. cbn [negb fst snd]. apply good_nil; assumption. }
  destruct p as [rc|mid|mid|mid|mid|q mid tag].
  - apply good_connack; assumption.
  - unfold do_rx. rewrite Hs. cbn [negb]. cbn [conf_op] in Hconf. rewrite Hs in Hconf. cbn [negb] in Hconf.
    destruct (find_mid mid (out s)) as [m|] eqn:Ef.
    + pose proof (find_mid_In _ _ _ Ef) as [_ Hmid]. subst mid.
      apply andb_true_iff in Hconf as [Hck Hconf]. apply andb_true_iff in Hconf as [Hq _].
      pose proof (good_on_publish c s m (IPuback (o_mid m)) k I Ef) as H.
      destruct (do_on_publish c s m) as [s' ev]. cbn [fst snd] in *.
      apply H; [left; split; [reflexivity|lia]|assumption].
    + cbn [fst snd]. apply (good_neutral s s); auto.
  - unfold do_rx. rewrite Hs. cbn [negb]. unfold has_mid.
    destruct (find_mid mid (out s)) as [m|] eqn:Ef; cbn [fst snd].
    + apply good_pubrec; assumption.
    + apply (good_neutral s s); auto.
  - unfold do_rx. rewrite Hs. cbn [negb]. cbn [conf_op] in Hconf. rewrite Hs in Hconf. cbn [negb] in Hconf.
    destruct (find_mid mid (out s)) as [m|] eqn:Ef.
    + pose proof (find_mid_In _ _ _ Ef) as [_ Hmid]. subst mid.
      apply andb_true_iff in Hconf as [Hck Hconf]. apply andb_true_iff in Hconf as [Hq _].
      pose proof (good_on_publish c s m (IPubcomp (o_mid m)) k I Ef) as H.
      destruct (do_on_publish c s m) as [s' ev]. cbn [fst snd] in *.
      apply H; [right; split; [reflexivity|lia]|assumption].
    + cbn [fst snd]. apply (good_neutral s s); auto.
  - unfold do_rx, deliver. rewrite Hs. cbn [negb].
    destruct (in_find mid (inm s)) as [tag|].
    + destruct (r && negb (c_suppress c)); [|destruct (c_manual c)]; cbn [fst snd];
        apply (good_neutral s); auto.
    + destruct (c_manual c); cbn [fst snd]; apply (good_neutral s); auto.
  - unfold do_rx, deliver. rewrite Hs. cbn [negb].
    destruct (q =? 0).
    + destruct (r && negb (c_suppress c)); cbn [fst snd]; apply (good_neutral s); auto.
    + destruct (q =? 1).
      * destruct (r && negb (c_suppress c)); [|destruct (c_manual c)]; cbn [fst snd];
          apply (good_neutral s); auto.
      * cbn [fst snd]. apply (good_neutral s); auto.
Qed.

(* ---------------------------------------------------------------- every operation *)
Lemma good_step c s o k : Inv c s -> conf_op c s o = true -> R s k ->
  Good (fst (step c s o)) k (snd (step c s o)).
Proof.
  intros I Hc HR. destruct o as [q|ok| |p r|mid q].
  - cbn [step]. apply good_publish; assumption.
  - cbn [step]. apply good_reconnect; assumption.
  - apply good_connlost; assumption.
  - cbn [step]. apply good_rx; assumption.
  - cbn [step]. apply good_ack; assumption.
Qed.

Lemma R_step c s o k : cfg_ok c = true -> Inv c s -> conf_op c s o = true -> R s k ->
  R (fst (step c s o)) (k01_op (c_max c) k (snd (step c s o))).
Proof.
  intros Hcfg I Hc HR. destruct (good_step c s o k I Hc HR) as [HR' Hok1].
  pose proof (inv_step c Hcfg s o I Hc) as I'.
  pose proof (R_ok2 c _ _ I' HR') as Hok2.
  rewrite k01_op_eq. cbv zeta. rewrite Hok1, Hok2, !andb_true_r.
  destruct HR' as [Rok Rq0 Rl Rd Re Rc]. constructor; cbn; assumption.
Qed.

Lemma c01_from c : cfg_ok c = true -> forall ops s k,
  Inv c s -> conforming_from c s ops = true -> R s k ->
  k1_ok (fold_left (k01_op (c_max c)) (map snd (run_steps c s ops)) k) = true.
Proof.
  intros Hcfg. induction ops as [|o ops IH]; intros s k I Hc HR; cbn [run_steps conforming_from] in *.
  - cbn. apply (r_ok _ _ HR).
  - apply andb_true_iff in Hc as [Hc1 Hc2].
    pose proof (inv_step c Hcfg s o I Hc1) as I'.
    pose proof (R_step c s o k Hcfg I Hc1 HR) as HR'.
    destruct (step c s o) as [s' ev]. cbn [fst snd map fold_left] in *.
    apply IH; assumption.
Qed.

Lemma R_init c : R (init c) k01_init.
Proof. constructor; cbn; try reflexivity; try discriminate; intros; contradiction. Qed.

Theorem c01_proved : C01_stmt.
Proof.
  intros c ops Hcfg Hconf. unfold c01_ok, optrace.
  apply c01_from; [assumption|apply inv_init; assumption|exact Hconf|apply R_init].
Qed.

Print Assumptions c01_proved.
