(* Characterisation lemmas for the list-walking loops of the Session model. *)
From PahoV Require Import Base.Prelude Codec.Mid Session.Model.

Definition mids (l : list omsg) : list Z := map o_mid l.
Definition tags (l : list omsg) : list Z := map o_tag l.
Definition toQ (m : omsg) : omsg := set_st m MsQueued.

Lemma find_mid_In mid l m : find_mid mid l = Some m -> In m l /\ o_mid m = mid.
Proof.
  induction l as [|x l IH]; cbn [find_mid]; [discriminate|].
  destruct (o_mid x =? mid) eqn:E; intros H.
  - inversion H; subst. split; [left; reflexivity | lia].
  - destruct (IH H) as [H1 H2]. split; [right; assumption | assumption].
Qed.

Lemma find_mid_None mid l : find_mid mid l = None -> ~ In mid (mids l).
Proof.
  induction l as [|x l IH]; cbn [find_mid mids map]; [intros _ []|].
  destruct (o_mid x =? mid) eqn:E; [discriminate|]. intros H [H1|H1]; [lia | exact (IH H H1)].
Qed.

Lemma find_mid_notin mid l : ~ In mid (mids l) -> find_mid mid l = None.
Proof.
  induction l as [|x l IH]; cbn [find_mid mids map]; [reflexivity|].
  intros H. destruct (o_mid x =? mid) eqn:E.
  - exfalso. apply H. left. lia.
  - apply IH. intros H1. apply H. right. exact H1.
Qed.

Lemma find_mid_split mid l m : find_mid mid l = Some m ->
  exists l1 l2, l = l1 ++ m :: l2 /\ ~ In mid (mids l1) /\ o_mid m = mid.
Proof.
  induction l as [|x l IH]; cbn [find_mid]; [discriminate|].
  destruct (o_mid x =? mid) eqn:E; intros H.
  - inversion H; subst. exists [], l. split; [reflexivity|]. split; [intros []|lia].
  - destruct (IH H) as (l1 & l2 & -> & Hn & Hm). exists (x :: l1), l2.
    split; [reflexivity|]. split; [|assumption].
    cbn [mids map]. intros [H1|H1]; [lia | exact (Hn H1)].
Qed.

Lemma has_mid_true mid l : has_mid mid l = true <-> In mid (mids l).
Proof.
  unfold has_mid. destruct (find_mid mid l) eqn:E; split; intros H; try reflexivity; try discriminate.
  - apply find_mid_In in E as [H1 H2]. subst. apply in_map. assumption.
  - exfalso. exact (find_mid_None _ _ E H).
Qed.

Lemma remove_mid_split mid l1 m l2 : ~ In mid (mids l1) -> o_mid m = mid ->
  remove_mid mid (l1 ++ m :: l2) = l1 ++ l2.
Proof.
  intros Hn Hm. induction l1 as [|x l1 IH]; cbn [remove_mid app].
  - replace (o_mid m =? mid) with true by lia. reflexivity.
  - cbn [mids map] in Hn. destruct (o_mid x =? mid) eqn:E.
    + exfalso. apply Hn. left. lia.
    + f_equal. apply IH. intros H. apply Hn. right. exact H.
Qed.

Lemma update_mid_split mid f l1 m l2 : ~ In mid (mids l1) -> o_mid m = mid ->
  update_mid mid f (l1 ++ m :: l2) = l1 ++ f m :: l2.
Proof.
  intros Hn Hm. induction l1 as [|x l1 IH]; cbn [update_mid app].
  - replace (o_mid m =? mid) with true by lia. reflexivity.
  - cbn [mids map] in Hn. destruct (o_mid x =? mid) eqn:E.
    + exfalso. apply Hn. left. lia.
    + f_equal. apply IH. intros H. apply Hn. right. exact H.
Qed.

(* ---- reset ---- *)
Lemma reset1_mid cl m : o_mid (reset1 cl m) = o_mid m.
Proof. unfold reset1. destruct (o_qos m =? 1), cl, (o_st m); reflexivity. Qed.
Lemma reset1_tag cl m : o_tag (reset1 cl m) = o_tag m.
Proof. unfold reset1. destruct (o_qos m =? 1), cl, (o_st m); reflexivity. Qed.
Lemma reset1_qos cl m : o_qos (reset1 cl m) = o_qos m.
Proof. unfold reset1. destruct (o_qos m =? 1), cl, (o_st m); reflexivity. Qed.
Lemma reset1_nq cl m : is_queued (reset1 cl m) = false.
Proof. unfold reset1, is_queued. destruct (o_qos m =? 1), cl, (o_st m); reflexivity. Qed.
Lemma reset1_notwait cl m : is_wait (reset1 cl m) = false.
Proof. unfold reset1, is_wait. destruct (o_qos m =? 1), cl, (o_st m); reflexivity. Qed.

Lemma reset_out_char c cl : 0 <= c_max c -> forall l k, 0 <= k ->
  exists j, (j <= length l)%nat /\
    reset_out_list c cl k l =
      (map (reset1 cl) (firstn j l) ++ map toQ (skipn j l), k + Z.of_nat j) /\
    ((j < length l)%nat -> 0 < c_max c /\ c_max c <= k + Z.of_nat j) /\
    (0 < c_max c -> k <= c_max c -> k + Z.of_nat j <= c_max c).
Proof.
  intros Hmax. induction l as [|m l IH]; intros k Hk.
  - exists O. cbn. split; [lia|]. split; [f_equal; lia|]. split; [lia|lia].
  - cbn [reset_out_list]. unfold window_free at 1.
    destruct ((c_max c =? 0) || (k <? c_max c)) eqn:W.
    + destruct (IH (k + 1) ltac:(lia)) as (j & Hj & E & Hfull & Hle).
      exists (S j). rewrite E. cbn [firstn skipn map app length]. split; [lia|].
      split; [f_equal; lia|]. split; [intros H; destruct (Hfull ltac:(lia)); lia | intros; lia].
    + exists O. cbn [firstn skipn map app length].
      assert (Hstay : forall l' , reset_out_list c cl k l' = (map toQ l', k)).
      { induction l' as [|x l' IH']; cbn [reset_out_list map]; [reflexivity|].
        unfold window_free. rewrite W. rewrite IH'. reflexivity. }
      rewrite Hstay. split; [lia|]. split; [f_equal; lia|]. split; intros; lia.
Qed.

(* ---- connack loop ---- *)
Definition cl1 (m : omsg) : omsg :=
  match o_st m with
  | MsPublish => set_st m (wait_of (o_qos m))
  | MsResendPubrel => if o_qos m =? 2 then set_st m MsWaitPubcomp else m
  | _ => m
  end.
Definition cl_ev (cn : Z) (m : omsg) : list event :=
  match o_st m with
  | MsPublish => [Tx cn (PPublish (o_mid m) (o_qos m) (o_dup m) (o_tag m))]
  | MsResendPubrel => if o_qos m =? 2 then [Tx cn (PPubrel (o_mid m) (o_tag m))] else []
  | _ => []
  end.

Lemma connack_loop_char cn : forall C Q,
  Forall (fun m => is_queued m = false) C ->
  Forall (fun m => is_queued m = true) Q ->
  connack_loop cn (C ++ Q) = (map cl1 C ++ Q, flat_map (cl_ev cn) C).
Proof.
  induction C as [|m C IH]; intros Q HC HQ.
  - cbn [app map flat_map]. destruct Q as [|q Q]; [reflexivity|].
    cbn [connack_loop]. inversion HQ as [|? ? Hq _]; subst. unfold is_queued in Hq.
    destruct (o_st q); try discriminate. reflexivity.
  - inversion HC as [|? ? Hm HC']; subst. cbn [app connack_loop map flat_map].
    rewrite (IH Q HC' HQ). unfold cl1, cl_ev, is_queued in *.
    destruct (o_st m); try discriminate; try reflexivity.
    destruct (o_qos m =? 2); reflexivity.
Qed.

(* ---- update_inflight ---- *)
Definition rel1 (m : omsg) : omsg := set_st m (wait_of (o_qos m)).
Definition rel_ev (cn : Z) (m : omsg) : event := Tx cn (PPublish (o_mid m) (o_qos m) (o_dup m) (o_tag m)).

Lemma update_inflight_Q c cn : forall Q k,
  Forall (fun m => is_queued m = true) Q -> k <= c_max c ->
  exists j, (j <= length Q)%nat /\
    update_inflight c cn k Q =
      (map rel1 (firstn j Q) ++ skipn j Q, k + Z.of_nat j, map (rel_ev cn) (firstn j Q)) /\
    k + Z.of_nat j <= c_max c /\
    ((j < length Q)%nat -> k + Z.of_nat j = c_max c).
Proof.
  induction Q as [|m Q IH]; intros k HQ Hk.
  - exists O. cbn. split; [lia|]. split; [replace (k + Z.of_nat 0) with k by lia; reflexivity|]. split; lia.
  - inversion HQ as [|? ? Hm HQ']; subst. cbn [update_inflight].
    destruct (k <? c_max c) eqn:W.
    + rewrite Hm. destruct (IH (k + 1) HQ' ltac:(lia)) as (j & Hj & E & Hle & Hfull).
      exists (S j). rewrite E. cbn [firstn skipn map app length]. split; [lia|].
      split; [replace (k + Z.of_nat (S j)) with (k + 1 + Z.of_nat j) by lia; reflexivity|].
      split; [lia|]. intros H. rewrite <- Hfull by lia. lia.
    + exists O. cbn [firstn skipn map app length]. split; [lia|].
      split; [replace (k + Z.of_nat 0) with k by lia; reflexivity|]. split; lia.
Qed.

Lemma update_inflight_C c cn : forall C R k,
  Forall (fun m => is_queued m = false) C ->
  update_inflight c cn k (C ++ R) =
    let '(r, n, ev) := update_inflight c cn k R in (C ++ r, n, ev).
Proof.
  induction C as [|m C IH]; intros R k HC.
  - cbn [app]. destruct (update_inflight c cn k R) as [[r n] ev]. reflexivity.
  - inversion HC as [|? ? Hm HC']; subst. cbn [app update_inflight].
    destruct (k <? c_max c) eqn:W.
    + rewrite Hm. rewrite (IH R k HC').
      destruct (update_inflight c cn k R) as [[r n] ev]. reflexivity.
    + (* window already full: nothing changes anywhere *)
      assert (Hstay : forall l, update_inflight c cn k l = (l, k, [])).
      { intros [|x l]; cbn [update_inflight]; [reflexivity|]. rewrite W. reflexivity. }
      rewrite Hstay. reflexivity.
Qed.
