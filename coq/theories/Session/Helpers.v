(* M2 extension - the one-shot helpers of publish.py and subscribe.py as callback programs.
   Model only: no proofs in this file (proofs: Session/HelpersProofs.v, statements: Props/C20.v).

   publish.py   _do_publish / _on_connect / _on_publish / multiple / single
       the client's `userdata` is a deque of messages; every callback is transliterated statement
       by statement; the API calls a callback makes (client.publish, client.disconnect) and the
       exceptions it raises are the OUTPUT of the program; the callbacks the client delivers
       (on_connect(rc), on_publish) are its INPUT ([cbev]).
   subscribe.py _on_connect / _on_message_callback / _on_message_simple / callback / simple
       `userdata` is the dict {msg_count, messages, retained}; inputs are on_connect(rc) and
       on_message(m) ([sev]); outputs are client.subscribe / client.disconnect / the user callback.

   Interface assumption (the client underneath, not re-proved here): against a conforming broker the
   client calls on_connect once with rc = 0, completes every accepted publish() by exactly one
   on_publish (C01 for QoS 1/2, C06/_packet_write for QoS 0), calls on_message once per delivered
   message in arrival order (C03, C15 with no per-topic callbacks) and loop_forever() returns once the
   DISCONNECT requested by disconnect() is written (C09/C10).  These are expressed as the cooperative
   environments [coop] and [coop_sub]; the safety theorems do not need them.

   Ghost data: a message is identified by its [tag] (index in the caller's list / in the broker's
   delivery script); topic and payload bytes are carried by the harness under that tag. *)
From PahoV Require Import Base.Prelude.

Definition hlen {A : Type} (l : list A) : Z := Z.of_nat (length l).

(* ================================================================== publish.py *)

Record pmsg := mkP {
  p_tag : Z;          (* identity: position in the list given to multiple() *)
  p_qos : Z;
  p_retain : bool;
  p_form : Z;         (* 0 dict, 1 tuple, 2 list, anything else: some other object *)
  p_bad : bool        (* client.publish() raises for these arguments (invalid topic / payload type,
                         unexpected dict key, wrong tuple arity - decided by C19's predicates) *)
}.

Inductive api :=
| APublish (m : pmsg)      (* client.publish(topic, payload, qos, retain) accepted *)
| ADisconnect              (* client.disconnect() *)
| ARaise (kind : Z).       (* an exception leaves the callback: 1 ValueError, 2 TypeError,
                              3 MQTTException, 6 IndexError *)

Inductive cbev :=
| EConnack (rc : Z)        (* the client calls on_connect(reason_code = rc) *)
| EPublished.              (* the client calls on_publish (a message completed) *)

(* client.publish(): ValueError for a QoS outside 0..2 or otherwise invalid arguments *)
Definition publish_ok (m : pmsg) : bool := negb (p_bad m) && (0 <=? p_qos m) && (p_qos m <=? 2).
Definition call_publish (m : pmsg) : list api := if publish_ok m then [APublish m] else [ARaise 1].

(* def _do_publish(client):
       message = client._userdata.popleft()
       if isinstance(message, dict): client.publish( **message )
       elif isinstance(message, (tuple, list)): client.publish( *message )
       else: raise TypeError(...)                                                    *)
Definition h_do_publish (ud : list pmsg) : list pmsg * list api :=
  match ud with
  | [] => ([], [ARaise 6])                       (* popleft() on an empty deque: IndexError *)
  | m :: ud' =>
      if p_form m =? 0 then (ud', call_publish m)
      else if (p_form m =? 1) || (p_form m =? 2) then (ud', call_publish m)
      else (ud', [ARaise 2])
  end.

(* def _on_connect(client, userdata, flags, reason_code, properties):
       if reason_code == 0:
           if len(userdata) > 0: _do_publish(client)
       else: raise mqtt.MQTTException(...)                                           *)
Definition h_on_connect (rc : Z) (ud : list pmsg) : list pmsg * list api :=
  if rc =? 0 then
    if hlen ud >? 0 then h_do_publish ud else (ud, [])
  else (ud, [ARaise 3]).

(* def _on_publish(client, userdata, mid, reason_codes, properties):
       if len(userdata) == 0: client.disconnect()
       else: _do_publish(client)                                                     *)
Definition h_on_publish (ud : list pmsg) : list pmsg * list api :=
  if hlen ud =? 0 then (ud, [ADisconnect]) else h_do_publish ud.

Definition is_araise (a : api) : bool := match a with ARaise _ => true | _ => false end.

(* the helper as a machine: an exception leaves loop_forever() and ends the helper *)
Record pst := mkPst { p_ud : list pmsg; p_halt : bool }.

Definition pstep (s : pst) (e : cbev) : pst * list api :=
  if p_halt s then (s, [])
  else
    let r := match e with
             | EConnack rc => h_on_connect rc (p_ud s)
             | EPublished => h_on_publish (p_ud s)
             end in
    (mkPst (fst r) (existsb is_araise (snd r)), snd r).

Fixpoint prun (s : pst) (evs : list cbev) : pst * list api :=
  match evs with
  | [] => (s, [])
  | e :: evs' =>
      let r := pstep s e in
      let r' := prun (fst r) evs' in
      (fst r', snd r ++ snd r')
  end.

(* def multiple(msgs, ...):
       if len(msgs) == 0: raise ValueError('msgs is empty')
       client = Client(userdata=collections.deque(msgs), ...); on_publish/on_connect set
       client.connect(...); client.loop_forever()                                     *)
Definition h_multiple (msgs : list pmsg) (evs : list cbev) : pst * list api :=
  if hlen msgs =? 0 then (mkPst msgs true, [ARaise 1])
  else prun (mkPst msgs false) evs.

(* def single(topic, payload, qos, retain, ...):
       msg = {'topic':topic, 'payload':payload, 'qos':qos, 'retain':retain}
       multiple([msg], ...)                                                           *)
Definition h_single (tag qos : Z) (retain bad : bool) (evs : list cbev) : pst * list api :=
  h_multiple [mkP tag qos retain 0 bad] evs.

(* hypothesis of the main theorem: every message is a dict/tuple/list that client.publish() accepts *)
Definition form_ok (m : pmsg) : bool := (p_form m =? 0) || (p_form m =? 1) || (p_form m =? 2).
Definition msg_valid (m : pmsg) : bool := publish_ok m && form_ok m.
Definition msgs_valid (msgs : list pmsg) : bool := forallb msg_valid msgs.

(* the cooperative client: CONNACK accepted, then one on_publish per message *)
Definition coop (msgs : list pmsg) : list cbev := EConnack 0 :: map (fun _ => EPublished) msgs.

(* ---- the statement of the safety part, as a checker over an output trace:
   every publish is the next message of the list (so the published messages are a prefix of the list,
   in order, none twice), disconnect only when nothing is left, nothing after an exception *)
Definition pmsg_eqb (a b : pmsg) : bool :=
  (p_tag a =? p_tag b) && (p_qos a =? p_qos b) && Bool.eqb (p_retain a) (p_retain b)
  && (p_form a =? p_form b) && Bool.eqb (p_bad a) (p_bad b).

Definition is_nil {A : Type} (l : list A) : bool := match l with [] => true | _ => false end.

Fixpoint c20_pub_ok (rest : list pmsg) (out : list api) : bool :=
  match out with
  | [] => true
  | APublish m :: out' =>
      match rest with
      | r :: rest' => pmsg_eqb m r && c20_pub_ok rest' out'
      | [] => false
      end
  | ADisconnect :: out' => is_nil rest && c20_pub_ok rest out'
  | ARaise _ :: out' => is_nil out'
  end.

(* the complete run: exactly the list, then exactly one disconnect *)
Fixpoint c20_pub_complete (msgs : list pmsg) (out : list api) : bool :=
  match msgs, out with
  | [], [ADisconnect] => true
  | m :: msgs', APublish x :: out' => pmsg_eqb x m && c20_pub_complete msgs' out'
  | _, _ => false
  end.

Definition pubs (out : list api) : list pmsg :=
  flat_map (fun a => match a with APublish m => [m] | _ => [] end) out.

(* ================================================================== subscribe.py *)

Record imsg := mkI { i_tag : Z; i_qos : Z; i_retain : bool }.

Inductive topics :=
| TSingle (t : Z)              (* a string *)
| TList (l : list Z).          (* a list of strings *)

Inductive sapi :=
| SSubscribe (t qos : Z)       (* client.subscribe(topic, qos) *)
| SDisconnect                  (* client.disconnect() *)
| SUser (m : imsg)             (* the user's callback(client, userdata, message) *)
| SRaise (kind : Z).           (* 1 ValueError, 3 MQTTException, 7 AttributeError *)

Inductive sev :=
| SEConnack (rc : Z)           (* on_connect(reason_code = rc) *)
| SEMessage (m : imsg).        (* on_message(message) *)

(* userdata['messages']: None | one message object | a list *)
Inductive msgs_t := MNone | MSingle (m : imsg) | MList (l : list imsg).

Record sstate := mkSS { s_count : Z; s_msgs : msgs_t; s_retained : bool }.

(* def _on_connect(client, userdata, flags, reason_code, properties):
       if reason_code != 0: raise mqtt.MQTTException(...)
       if isinstance(userdata['topics'], list):
           for topic in userdata['topics']: client.subscribe(topic, userdata['qos'])
       else: client.subscribe(userdata['topics'], userdata['qos'])                   *)
Definition h_on_connect_sub (rc : Z) (tp : topics) (qos : Z) : list sapi :=
  if negb (rc =? 0) then [SRaise 3]
  else match tp with
       | TList l => map (fun t => SSubscribe t qos) l
       | TSingle t => [SSubscribe t qos]
       end.

(* def _on_message_callback(client, userdata, message):
       userdata['callback'](client, userdata['userdata'], message)                  *)
Definition h_on_message_callback (m : imsg) : list sapi := [SUser m].

(* def _on_message_simple(client, userdata, message):
       if userdata['msg_count'] == 0: return
       if message.retain and not userdata['retained']: return
       userdata['msg_count'] = userdata['msg_count'] - 1
       if userdata['messages'] is None and userdata['msg_count'] == 0:
           userdata['messages'] = message; client.disconnect(); return
       userdata['messages'].append(message)
       if userdata['msg_count'] == 0: client.disconnect()                            *)
Definition h_on_message_simple (s : sstate) (m : imsg) : sstate * list sapi :=
  if s_count s =? 0 then (s, [])
  else if i_retain m && negb (s_retained s) then (s, [])
  else
    let c := s_count s - 1 in
    match s_msgs s with
    | MNone =>
        if c =? 0 then (mkSS c (MSingle m) (s_retained s), [SDisconnect])
        else (mkSS c MNone (s_retained s), [SRaise 7])          (* None.append *)
    | MSingle x => (mkSS c (MSingle x) (s_retained s), [SRaise 7])   (* MQTTMessage.append *)
    | MList l =>
        (mkSS c (MList (l ++ [m])) (s_retained s), if c =? 0 then [SDisconnect] else [])
    end.

Definition is_sraise (a : sapi) : bool := match a with SRaise _ => true | _ => false end.

Inductive smode := ModeSimple | ModeCallback.

Record subst := mkSub { u_st : sstate; u_halt : bool }.

Definition sstep (mode : smode) (tp : topics) (qos : Z) (s : subst) (e : sev) : subst * list sapi :=
  if u_halt s then (s, [])
  else
    match e with
    | SEConnack rc =>
        let o := h_on_connect_sub rc tp qos in (mkSub (u_st s) (existsb is_sraise o), o)
    | SEMessage m =>
        match mode with
        | ModeCallback => (s, h_on_message_callback m)
        | ModeSimple =>
            (* callback = _on_message_simple, userdata['userdata'] = simple()'s dict *)
            let r := h_on_message_simple (u_st s) m in
            (mkSub (fst r) (existsb is_sraise (snd r)), snd r)
        end
    end.

Fixpoint srun (mode : smode) (tp : topics) (qos : Z) (s : subst) (evs : list sev) : subst * list sapi :=
  match evs with
  | [] => (s, [])
  | e :: evs' =>
      let r := sstep mode tp qos s e in
      let r' := srun mode tp qos (fst r) evs' in
      (fst r', snd r ++ snd r')
  end.

(* def callback(callback, topics, qos=0, userdata=None, ...):
       if qos < 0 or qos > 2: raise ValueError(...)
       ... client.on_message = _on_message_callback; client.on_connect = _on_connect
       client.connect(...); client.loop_forever()                                     *)
Definition qos_bad (qos : Z) : bool := (qos <? 0) || (qos >? 2).
Definition idle_state : sstate := mkSS 0 MNone true.

Definition h_callback (tp : topics) (qos : Z) (evs : list sev) : list sapi :=
  if qos_bad qos then [SRaise 1]
  else snd (srun ModeCallback tp qos (mkSub idle_state false) evs).

(* def simple(topics, qos=0, msg_count=1, retained=True, ...):
       if msg_count < 1: raise ValueError(...)
       messages = None if msg_count == 1 else []
       userdata = {'retained':retained, 'msg_count':msg_count, 'messages':messages}
       callback(_on_message_simple, topics, qos, userdata, ...)
       return userdata['messages']                                                    *)
Definition simple_init (n : Z) (retained : bool) : sstate :=
  mkSS n (if n =? 1 then MNone else MList []) retained.

Definition h_simple (tp : topics) (qos n : Z) (retained : bool) (evs : list sev) : msgs_t * list sapi :=
  if n <? 1 then (MNone, [SRaise 1])
  else if qos_bad qos then (MNone, [SRaise 1])
  else
    let r := srun ModeSimple tp qos (mkSub (simple_init n retained) false) evs in
    (s_msgs (u_st (fst r)), snd r).

Definition coop_sub (ins : list imsg) : list sev := SEConnack 0 :: map SEMessage ins.

(* ---- specification side *)
Definition pass (retained : bool) (m : imsg) : bool := retained || negb (i_retain m).
Definition simple_collect (n : Z) (retained : bool) (ins : list imsg) : list imsg :=
  firstn (Z.to_nat n) (filter (pass retained) ins).
Definition enough (n : Z) (retained : bool) (ins : list imsg) : bool :=
  n <=? hlen (filter (pass retained) ins).
Definition subs (tp : topics) (qos : Z) : list sapi :=
  match tp with
  | TSingle t => [SSubscribe t qos]
  | TList l => map (fun t => SSubscribe t qos) l
  end.
(* the value simple() returns: one message object when msg_count = 1, else a list *)
Definition simple_result (n : Z) (retained : bool) (ins : list imsg) : msgs_t :=
  if n =? 1 then match filter (pass retained) ins with [] => MNone | m :: _ => MSingle m end
  else MList (simple_collect n retained ins).
Definition users (out : list sapi) : list imsg :=
  flat_map (fun a => match a with SUser m => [m] | _ => [] end) out.
Definition is_ssub (a : sapi) : bool := match a with SSubscribe _ _ => true | _ => false end.
Definition nonsub (out : list sapi) : list sapi := filter (fun a => negb (is_ssub a)) out.
Definition ret_list (r : msgs_t) : list imsg :=
  match r with MNone => [] | MSingle m => [m] | MList l => l end.
Definition ret_is_single (r : msgs_t) : bool := match r with MSingle _ => true | _ => false end.
Definition messages_of (evs : list sev) : list imsg :=
  flat_map (fun e => match e with SEMessage m => [m] | _ => [] end) evs.
Definition connacks_ok (evs : list sev) : bool :=
  forallb (fun e => match e with SEConnack rc => rc =? 0 | _ => true end) evs.
Definition disconnects (out : list sapi) : Z :=
  hlen (filter (fun a => match a with SDisconnect => true | _ => false end) out).

(* ================================================================== flat encodings (correspondence) *)
Definition hb2z (b : bool) : Z := if b then 1 else 0.
Definition hz2b (z : Z) : bool := negb (z =? 0).

(* message: [tag; qos; retain; form; bad] *)
Fixpoint dec_pmsgs (n : nat) (l : list Z) : list pmsg * list Z :=
  match n with
  | O => ([], l)
  | S n' =>
      match l with
      | t :: q :: r :: f :: b :: l' =>
          let (ms, rest) := dec_pmsgs n' l' in (mkP t q (hz2b r) f (hz2b b) :: ms, rest)
      | _ => ([], [])
      end
  end.

(* event: [kind; rc]  kind 0 = on_connect(rc), 1 = on_publish *)
Fixpoint dec_cbevs (n : nat) (l : list Z) : list cbev * list Z :=
  match n with
  | O => ([], l)
  | S n' =>
      match l with
      | k :: rc :: l' =>
          let (es, rest) := dec_cbevs n' l' in ((if k =? 0 then EConnack rc else EPublished) :: es, rest)
      | _ => ([], [])
      end
  end.

(* api call: [kind; tag; qos; retain]  kind 0 publish, 1 disconnect, 2 raise (tag = exception kind) *)
Definition enc_api (a : api) : list Z :=
  match a with
  | APublish m => [0; p_tag m; p_qos m; hb2z (p_retain m)]
  | ADisconnect => [1; 0; 0; 0]
  | ARaise k => [2; k; 0; 0]
  end.

(* [n; msgs...; mode; nev; evs...]   mode 0: the given events, 1: coop msgs (events ignored)
   -> [halted; remaining; ncalls; calls...] *)
Definition entry_multiple (args : list Z) : list Z :=
  match args with
  | n :: rest =>
      let (msgs, rest1) := dec_pmsgs (Z.to_nat n) rest in
      match rest1 with
      | mode :: ne :: rest2 =>
          let evs := if mode =? 1 then coop msgs else fst (dec_cbevs (Z.to_nat ne) rest2) in
          let r := h_multiple msgs evs in
          hb2z (p_halt (fst r)) :: hlen (p_ud (fst r)) :: hlen (snd r) :: flat_map enc_api (snd r)
      | _ => []
      end
  | [] => []
  end.

(* an output trace recorded from the implementation, judged by the checkers of the theorems:
   [n; msgs...; ncalls; calls(kind tag qos retain)...] -> [c20_pub_ok; c20_pub_complete] *)
Fixpoint find_tag (t : Z) (l : list pmsg) : option pmsg :=
  match l with
  | [] => None
  | m :: l' => if p_tag m =? t then Some m else find_tag t l'
  end.
Fixpoint dec_apis (msgs : list pmsg) (n : nat) (l : list Z) : list api :=
  match n with
  | O => []
  | S n' =>
      match l with
      | k :: t :: q :: r :: l' =>
          (if k =? 0 then
             (* form and bad are not observable on the wire: taken from the message with that tag *)
             match find_tag t msgs with
             | Some m => APublish (mkP t q (hz2b r) (p_form m) (p_bad m))
             | None => APublish (mkP t q (hz2b r) (-1) true)
             end
           else if k =? 1 then ADisconnect else ARaise t) :: dec_apis msgs n' l'
      | _ => []
      end
  end.
Definition entry_pub_check (args : list Z) : list Z :=
  match args with
  | n :: rest =>
      let (msgs, rest1) := dec_pmsgs (Z.to_nat n) rest in
      match rest1 with
      | nc :: rest2 =>
          let out := dec_apis msgs (Z.to_nat nc) rest2 in
          [hb2z (c20_pub_ok msgs out); hb2z (c20_pub_complete msgs out)]
      | _ => []
      end
  | [] => []
  end.

(* inbound message: [tag; qos; retain];  event: [kind; a; b; c]  kind 0 = on_connect(a), 1 = on_message(a b c) *)
Fixpoint dec_imsgs (n : nat) (l : list Z) : list imsg * list Z :=
  match n with
  | O => ([], l)
  | S n' =>
      match l with
      | t :: q :: r :: l' => let (ms, rest) := dec_imsgs n' l' in (mkI t q (hz2b r) :: ms, rest)
      | _ => ([], [])
      end
  end.
Fixpoint dec_sevs (n : nat) (l : list Z) : list sev * list Z :=
  match n with
  | O => ([], l)
  | S n' =>
      match l with
      | k :: a :: b :: c :: l' =>
          let (es, rest) := dec_sevs n' l' in
          ((if k =? 0 then SEConnack a else SEMessage (mkI a b (hz2b c))) :: es, rest)
      | _ => ([], [])
      end
  end.
Fixpoint take_z (n : nat) (l : list Z) : list Z * list Z :=
  match n with
  | O => ([], l)
  | S n' => match l with x :: l' => let (a, b) := take_z n' l' in (x :: a, b) | [] => ([], []) end
  end.
(* [kind; a; b; c]  0 subscribe(topic a, qos b), 1 disconnect, 2 user callback(tag a, qos b, retain c), 3 raise a *)
Definition enc_sapi (a : sapi) : list Z :=
  match a with
  | SSubscribe t q => [0; t; q; 0]
  | SDisconnect => [1; 0; 0; 0]
  | SUser m => [2; i_tag m; i_qos m; hb2z (i_retain m)]
  | SRaise k => [3; k; 0; 0]
  end.
Definition enc_ret (r : msgs_t) : list Z :=
  (* [shape; n; tags...]  shape 0 None, 1 single object, 2 list *)
  match r with
  | MNone => [0; 0]
  | MSingle m => [1; 1; i_tag m]
  | MList l => 2 :: hlen l :: map i_tag l
  end.
Definition dec_topics (islist : Z) (ts : list Z) : topics :=
  if islist =? 0 then TSingle (hd 0 ts) else TList ts.

(* [helper; islist; ntopics; topics...; qos; n; retained; mode; nev; evs...]
     helper 0 = simple, 1 = callback;  mode 0: the given events, 1: coop_sub of the messages among them
   -> [nout; out...; ret...] *)
Definition entry_subscribe (args : list Z) : list Z :=
  match args with
  | helper :: islist :: nt :: rest =>
      let (ts, rest1) := take_z (Z.to_nat nt) rest in
      match rest1 with
      | qos :: n :: retained :: mode :: ne :: rest2 =>
          let evs0 := fst (dec_sevs (Z.to_nat ne) rest2) in
          let evs := if mode =? 1 then coop_sub (messages_of evs0) else evs0 in
          let tp := dec_topics islist ts in
          if helper =? 0 then
            let r := h_simple tp qos n (hz2b retained) evs in
            hlen (snd r) :: flat_map enc_sapi (snd r) ++ enc_ret (fst r)
          else
            let o := h_callback tp qos evs in
            hlen o :: flat_map enc_sapi o ++ enc_ret MNone
      | _ => []
      end
  | _ => []
  end.

(* the closed form of the theorem: [n; retained; nins; ins(tag qos retain)...] -> [enough; k; tags...] *)
Definition entry_collect (args : list Z) : list Z :=
  match args with
  | n :: retained :: ni :: rest =>
      let ins := fst (dec_imsgs (Z.to_nat ni) rest) in
      let r := simple_collect n (hz2b retained) ins in
      hb2z (enough n (hz2b retained) ins) :: hlen r :: map i_tag r
  | _ => []
  end.
