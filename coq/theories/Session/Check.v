(* Property statements of C01, C02, C03, C12, C13 as computable checkers over the
   op-structured trace (one list of events per operation).  The same functions are
   (i) what the theorems in Props/ are about and (ii) extracted and applied to traces
   recorded from the implementation.  No proofs here. *)
From PahoV Require Import Base.Prelude Session.Model.

Fixpoint zin (x : Z) (l : list Z) : bool :=
  match l with [] => false | y :: l' => (x =? y) || zin x l' end.
Definition zadd (x : Z) (l : list Z) : list Z := if zin x l then l else l ++ [x].
Fixpoint zrem (x : Z) (l : list Z) : list Z :=
  match l with [] => [] | y :: l' => if x =? y then zrem x l' else y :: zrem x l' end.
Definition zlen (l : list Z) : Z := Z.of_nat (length l).

(* live outgoing QoS>0 messages known from the trace: (tag, mid, qos) *)
Record lmsg := mkL { l_tag : Z; l_mid : Z; l_qos : Z }.
Fixpoint lfind_mid (mid : Z) (l : list lmsg) : option lmsg :=
  match l with [] => None | m :: l' => if l_mid m =? mid then Some m else lfind_mid mid l' end.
Fixpoint lrem_tag (tag : Z) (l : list lmsg) : list lmsg :=
  match l with [] => [] | m :: l' => if l_tag m =? tag then lrem_tag tag l' else m :: lrem_tag tag l' end.
Definition lhas_tag (tag : Z) (l : list lmsg) : bool := existsb (fun m => l_tag m =? tag) l.

(* ------------------------------------------------------------------ C12: in-flight window *)
Record k12 := mkK12 { k12_un : list Z; k12_ok : bool }.
Definition k12_init := mkK12 [] true.
Definition k12_ev (n : Z) (k : k12) (e : event) : k12 :=
  match e with
  | SockOpened _ => mkK12 [] (k12_ok k)
  | Tx _ (PPublish _ q _ tag) =>
      if q =? 0 then k else
      let u := zadd tag (k12_un k) in mkK12 u (k12_ok k && ((n =? 0) || (zlen u <=? n)))
  | Tx _ (PPubrel _ tag) =>
      let u := zadd tag (k12_un k) in mkK12 u (k12_ok k && ((n =? 0) || (zlen u <=? n)))
  | CbPublish _ tag => mkK12 (zrem tag (k12_un k)) (k12_ok k)
  | _ => k
  end.
Definition c12_window_ok (c : cfg) (tr : list (list event)) : bool :=
  k12_ok (fold_left (fun k evs => fold_left (k12_ev (c_max c)) evs k) tr k12_init).

(* queue bound: decided per publish from the number of live messages before the call *)
Record k12q := mkK12q { kq_live : list Z; kq_ok : bool }.
Definition k12q_ev (mq : Z) (k : k12q) (e : event) : k12q :=
  match e with
  | Ret tag _ q rc =>
      if q =? 0 then k else
      let full := (mq >? 0) && (zlen (kq_live k) >=? mq) in
      if full then mkK12q (kq_live k) (kq_ok k && (rc =? 15))
      else if rc =? 15 then k     (* refused because the fresh id is still in use (C14) *)
      else mkK12q (kq_live k ++ [tag]) (kq_ok k)
  | CbPublish _ tag => mkK12q (zrem tag (kq_live k)) (kq_ok k)
  | _ => k
  end.
Definition c12_queue_ok (c : cfg) (tr : list (list event)) : bool :=
  kq_ok (fold_left (fun k evs => fold_left (k12q_ev (c_maxq c)) evs k) tr (mkK12q [] true)).

(* ------------------------------------------------------------------ C02: no re-PUBLISH after PUBREC; DUP *)
Record k02 := mkK02 { k2_live : list lmsg; k2_sent : list Z; k2_rec : list Z; k2_ok : bool }.
Definition k02_init := mkK02 [] [] [] true.
Definition k02_ev (persistent : bool) (k : k02) (e : event) : k02 :=
  match e with
  | Ret tag mid q rc =>
      if (q >? 0) && ((rc =? 0) || (rc =? 4)) then mkK02 (k2_live k ++ [mkL tag mid q]) (k2_sent k) (k2_rec k) (k2_ok k)
      else k
  | Inp (IPubrec mid) =>
      match lfind_mid mid (k2_live k) with
      | Some m => mkK02 (k2_live k) (k2_sent k) (zadd (l_tag m) (k2_rec k)) (k2_ok k)
      | None => k
      end
  | Tx _ (PPublish _ q dup tag) =>
      let ok := (negb persistent || negb (zin tag (k2_rec k)))
                && Bool.eqb dup (zin tag (k2_sent k)) && ((q >? 0) || negb dup) in
      mkK02 (k2_live k) (zadd tag (k2_sent k)) (k2_rec k) (k2_ok k && ok)
  | CbPublish _ tag => mkK02 (lrem_tag tag (k2_live k)) (k2_sent k) (zrem tag (k2_rec k)) (k2_ok k)
  | _ => k
  end.
(* at the end of the operation that processed an accepting CONNACK every message that is past
   PUBREC has had its PUBREL written in that operation *)
Definition is_connack0 (e : event) : bool := match e with Inp (IConnack rc) => rc =? 0 | _ => false end.
Definition pubrel_tags (evs : list event) : list Z :=
  flat_map (fun e => match e with Tx _ (PPubrel _ tag) => [tag] | _ => [] end) evs.
Definition k02_op (persistent : bool) (k : k02) (evs : list event) : k02 :=
  let k' := fold_left (k02_ev persistent) evs k in
  if persistent && existsb is_connack0 evs then
    mkK02 (k2_live k') (k2_sent k') (k2_rec k')
          (k2_ok k' && forallb (fun t => zin t (pubrel_tags evs)) (k2_rec k))
  else k'.
(* the no-re-PUBLISH clauses apply to persistent sessions (clean_session=False, or MQTT 5 without
   clean start: with FIRST_ONLY every PUBREC follows a CONNACK, after which the session persists) *)
Definition c02_ok (c : cfg) (tr : list (list event)) : bool :=
  k2_ok (fold_left (k02_op (negb (c_clean c =? 1))) tr k02_init).

(* ------------------------------------------------------------------ C01: owned until final ack, completes once *)
Record k01 := mkK01 {
  k1_live : list lmsg;      (* accepted, not yet completed *)
  k1_q0 : list Z;           (* QoS 0 tags written, completion pending in the same op *)
  k1_done : list Z;         (* completed tags *)
  k1_onconn : list Z;       (* tags written (PUBLISH or PUBREL) on the current connection *)
  k1_est : bool;            (* an accepting CONNACK was processed on the current connection *)
  k1_ok : bool }.
Definition k01_init := mkK01 [] [] [] [] false true.
Definition k01_ev (k : k01) (e : event) : k01 :=
  match e with
  | Ret tag mid q rc =>
      if (q >? 0) && ((rc =? 0) || (rc =? 4)) then
        mkK01 (k1_live k ++ [mkL tag mid q]) (k1_q0 k) (k1_done k) (k1_onconn k) (k1_est k) (k1_ok k)
      else k
  | Tx _ (PPublish _ q _ tag) =>
      if q =? 0 then mkK01 (k1_live k) (zadd tag (k1_q0 k)) (k1_done k) (k1_onconn k) (k1_est k) (k1_ok k)
      else mkK01 (k1_live k) (k1_q0 k) (k1_done k) (zadd tag (k1_onconn k)) (k1_est k) (k1_ok k)
  | Tx _ (PPubrel _ tag) =>
      mkK01 (k1_live k) (k1_q0 k) (k1_done k) (zadd tag (k1_onconn k)) (k1_est k) (k1_ok k)
  | CbPublish _ tag =>
      if zin tag (k1_q0 k) then k
      else mkK01 (k1_live k) (k1_q0 k) (k1_done k) (k1_onconn k) (k1_est k)
                 (k1_ok k && lhas_tag tag (k1_live k) && negb (zin tag (k1_done k)))
  | Published tag =>
      if zin tag (k1_q0 k) then mkK01 (k1_live k) (zrem tag (k1_q0 k)) (k1_done k) (k1_onconn k) (k1_est k) (k1_ok k)
      else mkK01 (lrem_tag tag (k1_live k)) (k1_q0 k) (k1_done k ++ [tag]) (k1_onconn k) (k1_est k)
                 (k1_ok k && lhas_tag tag (k1_live k) && negb (zin tag (k1_done k)))
  | SockOpened _ => mkK01 (k1_live k) (k1_q0 k) (k1_done k) [] false (k1_ok k)
  | SockLost => mkK01 (k1_live k) (k1_q0 k) (k1_done k) (k1_onconn k) false (k1_ok k)
  | Reconn => mkK01 (k1_live k) (k1_q0 k) (k1_done k) (k1_onconn k) false (k1_ok k)
  | Inp (IConnack rc) => mkK01 (k1_live k) (k1_q0 k) (k1_done k) (k1_onconn k) (rc =? 0) (k1_ok k)
  | _ => k
  end.
(* completion happens only in the operation that processes the final acknowledgement of that id *)
Definition final_ack_of (m : lmsg) (e : event) : bool :=
  match e with
  | Inp (IPuback mid) => (l_qos m =? 1) && (mid =? l_mid m)
  | Inp (IPubcomp mid) => (l_qos m =? 2) && (mid =? l_mid m)
  | _ => false
  end.
Definition completed_tags (evs : list event) : list Z :=
  flat_map (fun e => match e with CbPublish _ tag => [tag] | _ => [] end) evs.
Definition k01_op (n : Z) (k : k01) (evs : list event) : k01 :=
  let k' := fold_left k01_ev evs k in
  (* every QoS>0 completion of this op belongs to a live message finally acknowledged in this op *)
  let ok1 := forallb (fun t =>
                 existsb (fun m => (l_tag m =? t) && existsb (final_ack_of m) evs) (k1_live k)
                 || existsb (fun e => match e with Tx _ (PPublish _ q _ t') => (q =? 0) && (t' =? t) | _ => false end) evs)
               (completed_tags evs) in
  (* on an established connection: every owned message was (re)transmitted on it, or the window is full *)
  let unacked := filter (fun t => lhas_tag t (k1_live k')) (k1_onconn k') in
  let ok2 := negb (k1_est k') ||
             forallb (fun m => zin (l_tag m) (k1_onconn k') || ((n >? 0) && (zlen unacked >=? n))) (k1_live k') in
  mkK01 (k1_live k') (k1_q0 k') (k1_done k') (k1_onconn k') (k1_est k') (k1_ok k' && ok1 && ok2).
Definition c01_ok (c : cfg) (tr : list (list event)) : bool :=
  k1_ok (fold_left (k01_op (c_max c)) tr k01_init).

(* ------------------------------------------------------------------ C13: publish() order on the wire *)
Record k13 := mkK13 { k3_next : Z; k3_bound : Z; k3_old : Z; k3_new : Z; k3_seen : list Z; k3_ok : bool }.
Definition k13_init := mkK13 0 0 (-1) (-1) [] true.
Definition k13_tx (k : k13) (tag : Z) : k13 :=
  if zin tag (k3_seen k) then k
  else if tag <? k3_bound k then
    mkK13 (k3_next k) (k3_bound k) tag (k3_new k) (k3_seen k ++ [tag]) (k3_ok k && (k3_old k <? tag))
  else
    mkK13 (k3_next k) (k3_bound k) (k3_old k) tag (k3_seen k ++ [tag]) (k3_ok k && (k3_new k <? tag)).
Definition k13_ev (k : k13) (e : event) : k13 :=
  match e with
  | Ret tag _ _ _ => mkK13 (tag + 1) (k3_bound k) (k3_old k) (k3_new k) (k3_seen k) (k3_ok k)
  | SockOpened _ => mkK13 (k3_next k) (k3_next k) (-1) (-1) [] (k3_ok k)
  | Tx _ (PPublish _ q _ tag) => if q =? 0 then k else k13_tx k tag
  | Tx _ (PPubrel _ tag) => k13_tx k tag
  | _ => k
  end.
Definition c13_ok (c : cfg) (tr : list (list event)) : bool :=
  k3_ok (fold_left (fun k evs => fold_left k13_ev evs k) tr k13_init).

(* ------------------------------------------------------------------ C03: the abstract receiver *)
(* The inbound-visible events of one operation, predicted from the pending map alone. *)
Definition inbound_ev (e : event) : bool :=
  match e with
  | CbMessage _ _ _ => true
  | Tx _ (PPuback _) | Tx _ (PPubrec _) | Tx _ (PPubcomp _) => true
  | _ => false
  end.
Definition strip_conn (e : event) : event :=
  match e with Tx _ p => Tx 0 p | _ => e end.
Definition raised_in (evs : list event) : bool :=
  existsb (fun e => match e with Raised => true | _ => false end) evs.
Fixpoint first_in (evs : list event) : option inpkt :=
  match evs with [] => None | Inp p :: _ => Some p | _ :: l => first_in l end.

Record k03 := mkK03 { k03_pend : list (Z * Z); k03_first : bool; k03_ok : bool }.
Definition k03_init := mkK03 [] true true.

Definition spec_recv (c : cfg) (pend : list (Z * Z)) (p : inpkt) (raised : bool) : list (Z * Z) * list event :=
  match p with
  | IPublish q mid tag =>
      if q =? 0 then (pend, [CbMessage 0 0 tag])
      else if q =? 1 then
        (pend, CbMessage mid 1 tag :: (if raised || c_manual c then [] else [Tx 0 (PPuback mid)]))
      else (in_set mid tag pend, [Tx 0 (PPubrec mid)])
  | IPubrel mid =>
      match in_find mid pend with
      | Some tag => (in_remove mid pend,
                     CbMessage mid 2 tag :: (if raised || c_manual c then [] else [Tx 0 (PPubcomp mid)]))
      | None => (pend, if c_manual c then [] else [Tx 0 (PPubcomp mid)])
      end
  | _ => (pend, [])
  end.

Fixpoint evlist_eqb (a b : list event) : bool :=
  match a, b with
  | [], [] => true
  | CbMessage m q t :: a', CbMessage m' q' t' :: b' => (m =? m') && (q =? q') && (t =? t') && evlist_eqb a' b'
  | Tx _ (PPuback m) :: a', Tx _ (PPuback m') :: b' => (m =? m') && evlist_eqb a' b'
  | Tx _ (PPubrec m) :: a', Tx _ (PPubrec m') :: b' => (m =? m') && evlist_eqb a' b'
  | Tx _ (PPubcomp m) :: a', Tx _ (PPubcomp m') :: b' => (m =? m') && evlist_eqb a' b'
  | _, _ => false
  end.

Definition is_ack_only (evs : list event) : bool :=
  forallb (fun e => match e with Tx _ (PPuback _) | Tx _ (PPubcomp _) => true | _ => false end) evs.

Definition k03_op (c : cfg) (k : k03) (evs : list event) : k03 :=
  let clean := if c_clean c =? 0 then false else if c_clean c =? 1 then true else k03_first k in
  let inb := filter inbound_ev evs in
  if existsb (fun e => match e with Reconn => true | _ => false end) evs then
    mkK03 (if clean then [] else k03_pend k) (k03_first k) (k03_ok k && match inb with [] => true | _ => false end)
  else
  match first_in evs with
  | Some (IConnack _) => mkK03 (k03_pend k) false (k03_ok k && match inb with [] => true | _ => false end)
  | Some p =>
      let (pend', expect) := spec_recv c (k03_pend k) p (raised_in evs) in
      mkK03 pend' (k03_first k) (k03_ok k && evlist_eqb inb expect)
  | None =>
      (* no broker packet processed: only ack() may emit acknowledgements, and only with manual_ack *)
      mkK03 (k03_pend k) (k03_first k)
            (k03_ok k && (match inb with [] => true | _ => c_manual c && is_ack_only inb end))
  end.
Definition c03_ok (c : cfg) (tr : list (list event)) : bool :=
  k03_ok (fold_left (k03_op c) tr k03_init).

(* the trace of a run, one event list per operation *)
Definition optrace (c : cfg) (ops : list op) : list (list event) :=
  map snd (run_steps c (init c) ops).
