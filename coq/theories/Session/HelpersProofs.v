(* C20 - proofs about the helper callback programs of Session/Helpers.v.  Lists of any length. *)
From PahoV Require Import Base.Prelude Session.Helpers.

(* ================================================================== publish side *)

Lemma hlen_cons {A} (x : A) l : hlen (x :: l) = hlen l + 1.
Proof. unfold hlen. cbn [length]. lia. Qed.
Lemma hlen_nil {A} : hlen (@nil A) = 0.
Proof. reflexivity. Qed.
Lemma hlen_nonneg {A} (l : list A) : 0 <= hlen l.
Proof. unfold hlen. lia. Qed.
Lemma hlen_app {A} (a b : list A) : hlen (a ++ b) = hlen a + hlen b.
Proof. unfold hlen. rewrite app_length. lia. Qed.

Lemma prun_halted : forall evs s, p_halt s = true -> prun s evs = (s, []).
Proof.
  induction evs as [|e evs IH]; intros s H; cbn [prun]; [reflexivity|].
  unfold pstep. rewrite H. cbn [fst snd]. rewrite (IH s H). reflexivity.
Qed.

Lemma prun_cons s e evs :
  prun s (e :: evs) = (fst (prun (fst (pstep s e)) evs), snd (pstep s e) ++ snd (prun (fst (pstep s e)) evs)).
Proof. reflexivity. Qed.

Lemma pmsg_eqb_refl m : pmsg_eqb m m = true.
Proof.
  unfold pmsg_eqb. rewrite !Z.eqb_refl, !Bool.eqb_reflx. reflexivity.
Qed.

Lemma pmsg_eqb_eq a b : pmsg_eqb a b = true -> a = b.
Proof.
  unfold pmsg_eqb. intro H.
  apply andb_true_iff in H as [H H5]. apply andb_true_iff in H as [H H4].
  apply andb_true_iff in H as [H H3]. apply andb_true_iff in H as [H1 H2].
  apply Z.eqb_eq in H1, H2, H4. apply Bool.eqb_prop in H3, H5.
  destruct a, b; cbn in *; subst; reflexivity.
Qed.

Lemma do_publish_valid m ud : msg_valid m = true -> h_do_publish (m :: ud) = (ud, [APublish m]).
Proof.
  unfold msg_valid, form_ok, h_do_publish, call_publish. intro H.
  apply andb_true_iff in H as [Hp Hf]. rewrite Hp.
  destruct (p_form m =? 0); [reflexivity|]. cbn [orb] in Hf. rewrite Hf. reflexivity.
Qed.

Lemma do_publish_invalid m ud : msg_valid m = false ->
  h_do_publish (m :: ud) = (ud, [ARaise (if form_ok m then 1 else 2)]).
Proof.
  unfold msg_valid, form_ok, h_do_publish, call_publish. intro H.
  destruct (p_form m =? 0) eqn:E0; cbn [orb] in *.
  - rewrite andb_true_r in H. rewrite H. reflexivity.
  - destruct ((p_form m =? 1) || (p_form m =? 2)) eqn:E12.
    + rewrite andb_true_r in H. rewrite H. reflexivity.
    + reflexivity.
Qed.

(* ---- one step of the machine, case by case *)
Lemma pstep_pub_valid x l : msg_valid x = true ->
  pstep (mkPst (x :: l) false) EPublished = (mkPst l false, [APublish x]).
Proof.
  intro H. unfold pstep. cbn [p_halt p_ud]. unfold h_on_publish. rewrite hlen_cons.
  assert (E : hlen l + 1 =? 0 = false) by (pose proof (hlen_nonneg l); lia). rewrite E.
  rewrite (do_publish_valid x l H). reflexivity.
Qed.
Lemma pstep_pub_invalid x l : msg_valid x = false ->
  pstep (mkPst (x :: l) false) EPublished = (mkPst l true, [ARaise (if form_ok x then 1 else 2)]).
Proof.
  intro H. unfold pstep. cbn [p_halt p_ud]. unfold h_on_publish. rewrite hlen_cons.
  assert (E : hlen l + 1 =? 0 = false) by (pose proof (hlen_nonneg l); lia). rewrite E.
  rewrite (do_publish_invalid x l H). reflexivity.
Qed.
Lemma pstep_pub_nil : pstep (mkPst [] false) EPublished = (mkPst [] false, [ADisconnect]).
Proof. reflexivity. Qed.
Lemma pstep_conn_valid x l : msg_valid x = true ->
  pstep (mkPst (x :: l) false) (EConnack 0) = (mkPst l false, [APublish x]).
Proof.
  intro H. unfold pstep. cbn [p_halt p_ud]. unfold h_on_connect. rewrite Z.eqb_refl, hlen_cons.
  assert (E : hlen l + 1 >? 0 = true) by (pose proof (hlen_nonneg l); lia). rewrite E.
  rewrite (do_publish_valid x l H). reflexivity.
Qed.
Lemma pstep_conn_invalid x l : msg_valid x = false ->
  pstep (mkPst (x :: l) false) (EConnack 0) = (mkPst l true, [ARaise (if form_ok x then 1 else 2)]).
Proof.
  intro H. unfold pstep. cbn [p_halt p_ud]. unfold h_on_connect. rewrite Z.eqb_refl, hlen_cons.
  assert (E : hlen l + 1 >? 0 = true) by (pose proof (hlen_nonneg l); lia). rewrite E.
  rewrite (do_publish_invalid x l H). reflexivity.
Qed.
Lemma pstep_conn_nil : pstep (mkPst [] false) (EConnack 0) = (mkPst [] false, []).
Proof. reflexivity. Qed.
Lemma pstep_conn_refused rc ud : rc =? 0 = false ->
  pstep (mkPst ud false) (EConnack rc) = (mkPst ud true, [ARaise 3]).
Proof. intro H. unfold pstep. cbn [p_halt p_ud]. unfold h_on_connect. rewrite H. reflexivity. Qed.

(* every step from a running state is one of the seven cases above *)
Inductive pstep_case (ud : list pmsg) (e : cbev) : pst * list api -> Prop :=
| PC_pub x l : ud = x :: l -> pstep_case ud e (mkPst l false, [APublish x])
| PC_raise l k : k <> 6 -> pstep_case ud e (mkPst l true, [ARaise k])
| PC_disc : ud = [] -> pstep_case ud e (mkPst [] false, [ADisconnect])
| PC_idle : ud = [] -> pstep_case ud e (mkPst [] false, []).

Lemma pstep_cases ud e : pstep_case ud e (pstep (mkPst ud false) e).
Proof.
  destruct e as [rc|].
  - destruct (rc =? 0) eqn:Erc.
    + apply Z.eqb_eq in Erc. subst rc. destruct ud as [|x l].
      * rewrite pstep_conn_nil. apply PC_idle. reflexivity.
      * destruct (msg_valid x) eqn:Hx.
        -- rewrite (pstep_conn_valid x l Hx). eapply PC_pub. reflexivity.
        -- rewrite (pstep_conn_invalid x l Hx). apply PC_raise. destruct (form_ok x); discriminate.
    + rewrite (pstep_conn_refused rc ud Erc). apply PC_raise. discriminate.
  - destruct ud as [|x l].
    + rewrite pstep_pub_nil. apply PC_disc. reflexivity.
    + destruct (msg_valid x) eqn:Hx.
      * rewrite (pstep_pub_valid x l Hx). eapply PC_pub. reflexivity.
      * rewrite (pstep_pub_invalid x l Hx). apply PC_raise. destruct (form_ok x); discriminate.
Qed.

Lemma published_swap {A} (l : list A) :
  EPublished :: map (fun _ => EPublished) l = map (fun _ => EPublished) l ++ [EPublished].
Proof. induction l as [|x l IH]; cbn [map app]; [reflexivity|]. rewrite <- IH. reflexivity. Qed.

(* |pre| completions publish the next |pre| messages, whatever follows *)
Lemma prun_prefix : forall pre rest more, msgs_valid pre = true ->
  prun (mkPst (pre ++ rest) false) (map (fun _ => EPublished) pre ++ more) =
  (fst (prun (mkPst rest false) more), map APublish pre ++ snd (prun (mkPst rest false) more)).
Proof.
  induction pre as [|x pre IH]; intros rest more Hv.
  - cbn [app map]. destruct (prun (mkPst rest false) more); reflexivity.
  - cbn [msgs_valid forallb] in Hv. apply andb_true_iff in Hv as [Hx Hv].
    cbn [app map prun]. rewrite (pstep_pub_valid x (pre ++ rest) Hx). cbn [fst snd].
    rewrite (IH rest more Hv). cbn [fst snd app]. reflexivity.
Qed.

Theorem multiple_coop : forall msgs, msgs <> [] -> msgs_valid msgs = true ->
  h_multiple msgs (coop msgs) = (mkPst [] false, map APublish msgs ++ [ADisconnect]).
Proof.
  intros [|m ms] Hne Hv; [congruence|].
  unfold h_multiple. rewrite hlen_cons.
  assert (E : hlen ms + 1 =? 0 = false) by (pose proof (hlen_nonneg ms); lia). rewrite E.
  cbn [msgs_valid forallb] in Hv. apply andb_true_iff in Hv as [Hm Hv].
  unfold coop. cbn [prun]. rewrite (pstep_conn_valid m ms Hm). cbn [fst snd].
  cbn [map]. rewrite published_swap.
  pose proof (prun_prefix ms [] [EPublished] Hv) as P. rewrite app_nil_r in P. rewrite P.
  cbn [prun]. rewrite pstep_pub_nil. cbn [fst snd app map]. reflexivity.
Qed.

(* the completeness checker is exact *)
Lemma c20_pub_complete_iff : forall msgs out,
  c20_pub_complete msgs out = true <-> out = map APublish msgs ++ [ADisconnect].
Proof.
  induction msgs as [|m msgs IH]; intros out; split; intro H.
  - destruct out as [|[x| |k] [|y out]]; cbn in H; try discriminate. reflexivity.
  - subst. reflexivity.
  - destruct out as [|[x| |k] out]; cbn [c20_pub_complete] in H; try discriminate.
    apply andb_true_iff in H as [H1 H2]. apply pmsg_eqb_eq in H1. apply IH in H2. subst. reflexivity.
  - subst. cbn [map app c20_pub_complete]. rewrite pmsg_eqb_refl. apply IH. reflexivity.
Qed.

Theorem multiple_coop_checked : forall msgs, msgs <> [] -> msgs_valid msgs = true ->
  c20_pub_complete msgs (snd (h_multiple msgs (coop msgs))) = true.
Proof.
  intros msgs Hne Hv. rewrite (multiple_coop msgs Hne Hv). cbn [snd].
  apply c20_pub_complete_iff. reflexivity.
Qed.

(* ---- safety for arbitrary callback sequences *)
Lemma pub_safe_from : forall evs ud, c20_pub_ok ud (snd (prun (mkPst ud false) evs)) = true.
Proof.
  induction evs as [|e evs IH]; intros ud; cbn [prun snd]; [reflexivity|].
  destruct (pstep_cases ud e) as [x l E|l k Hk|E|E]; cbn [fst snd app].
  - subst ud. cbn [c20_pub_ok]. rewrite pmsg_eqb_refl. apply IH.
  - rewrite prun_halted by reflexivity. reflexivity.
  - subst ud. cbn [c20_pub_ok is_nil andb]. apply IH.
  - subst ud. apply IH.
Qed.

Theorem multiple_safe : forall msgs evs, c20_pub_ok msgs (snd (h_multiple msgs evs)) = true.
Proof.
  intros msgs evs. unfold h_multiple. destruct (hlen msgs =? 0); [reflexivity|]. apply pub_safe_from.
Qed.

(* what the safety checker means *)
Lemma c20_pub_ok_sound : forall out msgs, c20_pub_ok msgs out = true ->
  (exists rest, msgs = pubs out ++ rest)
  /\ (forall a b, out = a ++ ADisconnect :: b -> pubs a = msgs)
  /\ (forall a k b, out = a ++ ARaise k :: b -> b = []).
Proof.
  induction out as [|x out IH]; intros msgs H.
  - repeat split.
    + exists msgs. reflexivity.
    + intros [|? ?] b E; discriminate E.
    + intros [|? ?] k b E; discriminate E.
  - destruct x as [m| |k]; cbn [c20_pub_ok] in H.
    + destruct msgs as [|r rest]; [discriminate|].
      apply andb_true_iff in H as [H1 H2]. apply pmsg_eqb_eq in H1. subst r.
      destruct (IH rest H2) as (P1 & P2 & P3). repeat split.
      * destruct P1 as [r0 P1]. exists r0. unfold pubs in *. cbn [flat_map app]. rewrite P1 at 1. reflexivity.
      * intros [|y a] b E; [discriminate|]. inversion E; subst y.
        unfold pubs. cbn [flat_map app]. f_equal. apply (P2 a b). assumption.
      * intros [|y a] k b E; [discriminate|]. inversion E. eapply P3; eassumption.
    + apply andb_true_iff in H as [H1 H2]. destruct msgs; [|discriminate].
      destruct (IH [] H2) as (P1 & P2 & P3). repeat split.
      * exact P1.
      * intros [|y a] b E; [reflexivity|]. inversion E; subst y.
        unfold pubs. cbn [flat_map app]. apply (P2 a b). assumption.
      * intros [|y a] k b E; [discriminate|]. inversion E. eapply P3; eassumption.
    + destruct out; [|discriminate]. repeat split.
      * exists msgs. reflexivity.
      * intros [|y [|z a]] b E; discriminate E.
      * intros [|y [|z a]] k' b E; try discriminate E. inversion E. reflexivity.
Qed.

Theorem multiple_safe_explained : forall msgs evs,
  let out := snd (h_multiple msgs evs) in
  (exists rest, msgs = pubs out ++ rest)
  /\ (forall a b, out = a ++ ADisconnect :: b -> pubs a = msgs)
  /\ (forall a k b, out = a ++ ARaise k :: b -> b = []).
Proof. intros msgs evs. apply c20_pub_ok_sound. apply multiple_safe. Qed.

(* popleft() never meets an empty deque *)
Lemma no_index_error_from : forall evs ud, ~ In (ARaise 6) (snd (prun (mkPst ud false) evs)).
Proof.
  induction evs as [|e evs IH]; intros ud; cbn [prun snd]; [intros []|].
  intro Hin. apply in_app_or in Hin.
  destruct (pstep_cases ud e) as [x l E|l k Hk|E|E]; cbn [fst snd] in Hin.
  - destruct Hin as [[Hin|[]]|Hin]; [discriminate|]. exact (IH _ Hin).
  - rewrite prun_halted in Hin by reflexivity. destruct Hin as [[Hin|[]]|[]]. congruence.
  - destruct Hin as [[Hin|[]]|Hin]; [discriminate|]. exact (IH _ Hin).
  - destruct Hin as [[]|Hin]. exact (IH _ Hin).
Qed.

Theorem multiple_no_index_error : forall msgs evs, ~ In (ARaise 6) (snd (h_multiple msgs evs)).
Proof.
  intros msgs evs. unfold h_multiple. destruct (hlen msgs =? 0).
  - cbn [snd]. intros [H|[]]. discriminate.
  - apply no_index_error_from.
Qed.

(* outside the quantifier of C20: a message the client rejects, anywhere in the list.  The messages
   before it are published, the exception leaves multiple(), no DISCONNECT is sent. *)
Theorem multiple_invalid_not_atomic : forall pre m post more,
  msgs_valid pre = true -> msg_valid m = false ->
  h_multiple (pre ++ m :: post) (EConnack 0 :: map (fun _ => EPublished) pre ++ more) =
  (mkPst post true, map APublish pre ++ [ARaise (if form_ok m then 1 else 2)]).
Proof.
  intros pre m post more Hv Hm. unfold h_multiple.
  assert (E : hlen (pre ++ m :: post) =? 0 = false).
  { rewrite hlen_app, hlen_cons. pose proof (hlen_nonneg pre). pose proof (hlen_nonneg post). lia. }
  rewrite E. destruct pre as [|p0 pre].
  - cbn [app map prun]. rewrite (pstep_conn_invalid m post Hm). cbn [fst snd].
    rewrite prun_halted by reflexivity. reflexivity.
  - cbn [msgs_valid forallb] in Hv. apply andb_true_iff in Hv as [H0 Hv].
    rewrite <- app_comm_cons. rewrite prun_cons. rewrite (pstep_conn_valid p0 _ H0). cbn [fst snd].
    cbn [map]. rewrite published_swap, <- app_assoc.
    rewrite (prun_prefix pre (m :: post) ([EPublished] ++ more) Hv).
    cbn [app]. rewrite prun_cons. rewrite (pstep_pub_invalid m post Hm). cbn [fst snd].
    rewrite prun_halted by reflexivity. cbn [fst snd app]. reflexivity.
Qed.

Theorem single_is_multiple : forall tag qos retain bad evs,
  h_single tag qos retain bad evs = h_multiple [mkP tag qos retain 0 bad] evs.
Proof. reflexivity. Qed.

Theorem single_coop : forall tag qos retain,
  (0 <=? qos) && (qos <=? 2) = true ->
  let m := mkP tag qos retain 0 false in
  h_single tag qos retain false (coop [m]) = (mkPst [] false, [APublish m; ADisconnect]).
Proof.
  intros tag qos retain Hq m. unfold h_single.
  apply (multiple_coop [m]); [discriminate|].
  cbn [msgs_valid forallb]. unfold msg_valid, publish_ok, form_ok. subst m. cbn [p_bad p_qos p_form negb].
  apply andb_true_iff in Hq as [H1 H2]. rewrite H1, H2. reflexivity.
Qed.

(* ================================================================== subscribe side *)

Lemma srun_halted : forall mode tp q evs s, u_halt s = true -> srun mode tp q s evs = (s, []).
Proof.
  induction evs as [|e evs IH]; intros s H; cbn [srun]; [reflexivity|].
  unfold sstep. rewrite H. cbn [fst snd]. rewrite (IH s H). reflexivity.
Qed.

Lemma srun_cons mode tp q s e evs :
  srun mode tp q s (e :: evs) =
  (fst (srun mode tp q (fst (sstep mode tp q s e)) evs),
   snd (sstep mode tp q s e) ++ snd (srun mode tp q (fst (sstep mode tp q s e)) evs)).
Proof. reflexivity. Qed.

Lemma subs_no_raise tp q : existsb is_sraise (subs tp q) = false.
Proof.
  destruct tp as [t|l]; cbn [subs]; [reflexivity|].
  induction l as [|x l IH]; cbn [map existsb is_sraise orb]; [reflexivity|exact IH].
Qed.
Lemma nonsub_subs tp q : nonsub (subs tp q) = [].
Proof.
  destruct tp as [t|l]; cbn [subs]; [reflexivity|].
  induction l as [|x l IH]; cbn [map nonsub filter is_ssub negb]; [reflexivity|exact IH].
Qed.
Lemma users_subs tp q : users (subs tp q) = [].
Proof.
  destruct tp as [t|l]; cbn [subs]; [reflexivity|].
  induction l as [|x l IH]; cbn [map users flat_map app]; [reflexivity|exact IH].
Qed.
Lemma disconnects_subs tp q : disconnects (subs tp q) = 0.
Proof.
  unfold disconnects. destruct tp as [t|l]; cbn [subs]; [reflexivity|].
  induction l as [|x l IH]; cbn [map filter]; [reflexivity|exact IH].
Qed.
Lemma connect_sub_ok tp q : h_on_connect_sub 0 tp q = subs tp q.
Proof. destruct tp; reflexivity. Qed.

Lemma sstep_connack mode tp q st :
  sstep mode tp q (mkSub st false) (SEConnack 0) = (mkSub st false, subs tp q).
Proof.
  unfold sstep. cbn [u_halt u_st]. rewrite connect_sub_ok, subs_no_raise. reflexivity.
Qed.

Lemma sstep_refused mode tp q st rc : rc =? 0 = false ->
  sstep mode tp q (mkSub st false) (SEConnack rc) = (mkSub st true, [SRaise 3]).
Proof. intro H. unfold sstep, h_on_connect_sub. cbn [u_halt u_st]. rewrite H. reflexivity. Qed.

(* the message handler alone, without the halting wrapper *)
Fixpoint msteps (s : sstate) (ins : list imsg) : sstate * list sapi :=
  match ins with
  | [] => (s, [])
  | m :: ins' =>
      let r := h_on_message_simple s m in
      let r' := msteps (fst r) ins' in
      (fst r', snd r ++ snd r')
  end.

Lemma msteps_cons s m ins :
  msteps s (m :: ins) =
  (fst (msteps (fst (h_on_message_simple s m)) ins),
   snd (h_on_message_simple s m) ++ snd (msteps (fst (h_on_message_simple s m)) ins)).
Proof. reflexivity. Qed.

(* the states simple() can be in *)
Definition good (s : sstate) : Prop :=
  match s_msgs s with
  | MNone => s_count s = 1
  | MSingle _ => s_count s = 0
  | MList _ => 0 <= s_count s
  end.

Lemma simple_step_good s m : good s ->
  good (fst (h_on_message_simple s m))
  /\ (snd (h_on_message_simple s m) = [] \/ snd (h_on_message_simple s m) = [SDisconnect]).
Proof.
  destruct s as [c ms r]. unfold good, h_on_message_simple. cbn [s_count s_msgs s_retained].
  intro G. destruct (c =? 0) eqn:E0; [cbn [fst snd s_msgs s_count]; auto|].
  destruct (i_retain m && negb r); [cbn [fst snd s_msgs s_count]; auto|].
  destruct ms as [|x|l].
  - subst c. change (1 - 1 =? 0) with true. cbn [fst snd s_msgs s_count]. split; [reflexivity|auto].
  - lia.
  - cbn [fst snd s_msgs s_count]. split; [lia|]. destruct (c - 1 =? 0); auto.
Qed.

Lemma sstep_message_good tp q s m : good s ->
  sstep ModeSimple tp q (mkSub s false) (SEMessage m) =
  (mkSub (fst (h_on_message_simple s m)) false, snd (h_on_message_simple s m)).
Proof.
  intro G. unfold sstep. cbn [u_halt u_st].
  destruct (simple_step_good s m G) as [_ [E|E]]; rewrite E; reflexivity.
Qed.

Lemma srun_msgs tp q : forall ins s, good s ->
  srun ModeSimple tp q (mkSub s false) (map SEMessage ins) =
  (mkSub (fst (msteps s ins)) false, snd (msteps s ins)).
Proof.
  induction ins as [|m ins IH]; intros s G; [reflexivity|].
  cbn [map]. rewrite srun_cons, (sstep_message_good tp q s m G). cbn [fst snd].
  rewrite (IH _ (proj1 (simple_step_good s m G))). reflexivity.
Qed.

Lemma pass_skip r m : i_retain m && negb r = negb (pass r m).
Proof. unfold pass. destruct (i_retain m), r; reflexivity. Qed.

Lemma msteps_zero : forall ins ms r, msteps (mkSS 0 ms r) ins = (mkSS 0 ms r, []).
Proof.
  induction ins as [|m ins IH]; intros ms r; [reflexivity|].
  cbn [msteps]. unfold h_on_message_simple at 1 2 3. cbn [s_count]. change (0 =? 0) with true.
  cbn [fst snd app]. rewrite IH. reflexivity.
Qed.

Lemma step_skip c ms r m : pass r m = false ->
  h_on_message_simple (mkSS c ms r) m = (mkSS c ms r, []).
Proof.
  intro H. unfold h_on_message_simple. cbn [s_count s_retained]. rewrite pass_skip, H.
  destruct (c =? 0); reflexivity.
Qed.

Lemma step_list c acc r m : c =? 0 = false -> pass r m = true ->
  h_on_message_simple (mkSS c (MList acc) r) m =
  (mkSS (c - 1) (MList (acc ++ [m])) r, if c - 1 =? 0 then [SDisconnect] else []).
Proof.
  intros H0 H. unfold h_on_message_simple. cbn [s_count s_retained s_msgs]. rewrite pass_skip, H, H0.
  reflexivity.
Qed.

Lemma step_none r m : pass r m = true ->
  h_on_message_simple (mkSS 1 MNone r) m = (mkSS 0 (MSingle m) r, [SDisconnect]).
Proof.
  intro H. unfold h_on_message_simple. cbn [s_count s_retained s_msgs]. rewrite pass_skip, H.
  reflexivity.
Qed.

Lemma msteps_list : forall ins c acc r, 0 <= c ->
  msteps (mkSS c (MList acc) r) ins =
  (mkSS (c - Z.min c (hlen (filter (pass r) ins)))
        (MList (acc ++ firstn (Z.to_nat c) (filter (pass r) ins))) r,
   if (0 <? c) && (c <=? hlen (filter (pass r) ins)) then [SDisconnect] else []).
Proof.
  induction ins as [|m ins IH]; intros c acc r Hc.
  - cbn [msteps filter]. rewrite firstn_nil, app_nil_r, hlen_nil.
    replace (c - Z.min c 0) with c by lia.
    destruct (0 <? c) eqn:E1; destruct (c <=? 0) eqn:E2; cbn [andb]; try reflexivity. lia.
  - cbn [filter]. destruct (pass r m) eqn:Hp.
    + destruct (c =? 0) eqn:E0.
      * apply Z.eqb_eq in E0. subst c. rewrite msteps_zero.
        change (Z.to_nat 0) with 0%nat. cbn [firstn andb]. rewrite app_nil_r.
        pose proof (hlen_nonneg (m :: filter (pass r) ins)).
        replace (0 - Z.min 0 (hlen (m :: filter (pass r) ins))) with 0 by lia.
        change (0 <? 0) with false. reflexivity.
      * rewrite msteps_cons, (step_list c acc r m E0 Hp). cbn [fst snd].
        rewrite (IH (c - 1) (acc ++ [m]) r) by lia. cbn [fst snd]. rewrite hlen_cons.
        pose proof (hlen_nonneg (filter (pass r) ins)) as HL.
        f_equal.
        -- f_equal; [lia|].
           replace (Z.to_nat c) with (S (Z.to_nat (c - 1))) by lia.
           cbn [firstn]. rewrite <- app_assoc. reflexivity.
        -- destruct (c - 1 =? 0) eqn:E1.
           ++ assert (A1 : 0 <? c - 1 = false) by lia. assert (A2 : 0 <? c = true) by lia.
              assert (A3 : c <=? hlen (filter (pass r) ins) + 1 = true) by lia.
              rewrite A1, A2, A3. reflexivity.
           ++ assert (A1 : (0 <? c - 1) = (0 <? c)) by lia.
              assert (A3 : (c - 1 <=? hlen (filter (pass r) ins)) = (c <=? hlen (filter (pass r) ins) + 1)) by lia.
              rewrite A1, A3. reflexivity.
    + rewrite msteps_cons, (step_skip c (MList acc) r m Hp). cbn [fst snd app].
      rewrite (IH c acc r Hc). reflexivity.
Qed.

Lemma msteps_none : forall ins r,
  msteps (mkSS 1 MNone r) ins =
  match filter (pass r) ins with
  | [] => (mkSS 1 MNone r, [])
  | m :: _ => (mkSS 0 (MSingle m) r, [SDisconnect])
  end.
Proof.
  induction ins as [|m ins IH]; intros r; [reflexivity|].
  cbn [filter]. rewrite msteps_cons. destruct (pass r m) eqn:Hp.
  - rewrite (step_none r m Hp). cbn [fst snd]. rewrite msteps_zero. reflexivity.
  - rewrite (step_skip 1 MNone r m Hp). cbn [fst snd app]. rewrite IH.
    destruct (filter (pass r) ins); reflexivity.
Qed.

Lemma good_init n r : 1 <= n -> good (simple_init n r).
Proof.
  intro H. unfold good, simple_init. destruct (n =? 1) eqn:E; cbn [s_msgs s_count]; lia.
Qed.

Lemma msteps_init n r ins : 1 <= n ->
  msteps (simple_init n r) ins =
  (mkSS (n - Z.min n (hlen (filter (pass r) ins))) (simple_result n r ins) r,
   if enough n r ins then [SDisconnect] else []).
Proof.
  intro Hn. unfold simple_init, simple_result, enough. destruct (n =? 1) eqn:E1.
  - apply Z.eqb_eq in E1. subst n. rewrite msteps_none.
    destruct (filter (pass r) ins) as [|m F].
    + reflexivity.
    + rewrite hlen_cons. pose proof (hlen_nonneg F).
      replace (1 - Z.min 1 (hlen F + 1)) with 0 by lia.
      assert (A : 1 <=? hlen F + 1 = true) by lia. rewrite A. reflexivity.
  - rewrite msteps_list by lia. cbn [app]. unfold simple_collect.
    assert (A : 0 <? n = true) by lia. rewrite A. reflexivity.
Qed.

(* closed form of simple() under the cooperative client, for every inbound sequence *)
Theorem simple_closed tp qos n r ins : 1 <= n -> qos_bad qos = false ->
  h_simple tp qos n r (coop_sub ins) =
  (simple_result n r ins, subs tp qos ++ (if enough n r ins then [SDisconnect] else [])).
Proof.
  intros Hn Hq. unfold h_simple. assert (A : n <? 1 = false) by lia. rewrite A, Hq.
  unfold coop_sub. rewrite srun_cons, sstep_connack. cbn [fst snd].
  rewrite (srun_msgs tp qos ins _ (good_init n r Hn)). rewrite (msteps_init n r ins Hn).
  reflexivity.
Qed.

Lemma ret_list_result n r ins : 1 <= n -> ret_list (simple_result n r ins) = simple_collect n r ins.
Proof.
  intro Hn. unfold simple_result, simple_collect. destruct (n =? 1) eqn:E.
  - apply Z.eqb_eq in E. subst n. change (Z.to_nat 1) with 1%nat.
    destruct (filter (pass r) ins); reflexivity.
  - reflexivity.
Qed.

Theorem simple_returns tp qos n r ins : 1 <= n -> qos_bad qos = false -> enough n r ins = true ->
  exists ret,
    h_simple tp qos n r (coop_sub ins) = (ret, subs tp qos ++ [SDisconnect])
    /\ ret_list ret = simple_collect n r ins
    /\ ret_is_single ret = (n =? 1)
    /\ hlen (ret_list ret) = n.
Proof.
  intros Hn Hq He. exists (simple_result n r ins). rewrite (simple_closed tp qos n r ins Hn Hq), He.
  split; [reflexivity|]. split; [apply ret_list_result; exact Hn|]. split.
  - unfold simple_result. unfold enough in He. destruct (n =? 1) eqn:E; [|reflexivity].
    destruct (filter (pass r) ins); [|reflexivity]. rewrite hlen_nil in He. lia.
  - rewrite (ret_list_result n r ins Hn). unfold simple_collect, enough, hlen in *.
    rewrite firstn_length_le by lia. lia.
Qed.

Theorem simple_starved tp qos n r ins : 1 <= n -> qos_bad qos = false -> enough n r ins = false ->
  h_simple tp qos n r (coop_sub ins) = (simple_result n r ins, subs tp qos)
  /\ ret_list (simple_result n r ins) = filter (pass r) ins
  /\ disconnects (snd (h_simple tp qos n r (coop_sub ins))) = 0.
Proof.
  intros Hn Hq He. rewrite (simple_closed tp qos n r ins Hn Hq), He, app_nil_r. cbn [snd].
  split; [reflexivity|]. split; [|apply disconnects_subs].
  rewrite (ret_list_result n r ins Hn). unfold simple_collect, enough, hlen in *.
  apply firstn_all2. lia.
Qed.

Lemma firstn_snoc1 {A} : forall (F : list A) x tail,
  firstn (S (length F)) (F ++ x :: tail) = F ++ [x].
Proof.
  induction F as [|y F IH]; intros x tail; [reflexivity|].
  change (firstn (S (length (y :: F))) ((y :: F) ++ x :: tail))
    with (y :: firstn (S (length F)) (F ++ x :: tail)).
  rewrite IH. reflexivity.
Qed.
Lemma firstn_snoc {A} (F : list A) x tail k : k = S (length F) ->
  firstn k (F ++ x :: tail) = F ++ [x].
Proof. intros ->. apply firstn_snoc1. Qed.

Lemma filter_len0 {A} (F : list A) : hlen F = 0 -> F = [].
Proof. destruct F; [reflexivity|]. rewrite hlen_cons. pose proof (hlen_nonneg F). lia. Qed.

Theorem simple_disconnect_point tp qos n r pre m post : 1 <= n -> qos_bad qos = false ->
  pass r m = true -> hlen (filter (pass r) pre) = n - 1 ->
  snd (h_simple tp qos n r (coop_sub pre)) = subs tp qos
  /\ snd (h_simple tp qos n r (coop_sub (pre ++ [m]))) = subs tp qos ++ [SDisconnect]
  /\ h_simple tp qos n r (coop_sub (pre ++ m :: post)) = h_simple tp qos n r (coop_sub (pre ++ [m])).
Proof.
  intros Hn Hq Hp HL.
  rewrite !(simple_closed tp qos n r _ Hn Hq). cbn [snd].
  assert (E1 : enough n r pre = false) by (unfold enough; rewrite HL; lia).
  assert (E2 : enough n r (pre ++ [m]) = true).
  { unfold enough. rewrite filter_app, hlen_app. cbn [filter]. rewrite Hp, hlen_cons, hlen_nil, HL. lia. }
  assert (E3 : enough n r (pre ++ m :: post) = true).
  { unfold enough. rewrite filter_app, hlen_app. cbn [filter]. rewrite Hp, hlen_cons, HL.
    pose proof (hlen_nonneg (filter (pass r) post)). lia. }
  rewrite E1, E2, E3, app_nil_r. split; [reflexivity|]. split; [reflexivity|].
  f_equal. unfold simple_result, simple_collect. rewrite !filter_app. cbn [filter]. rewrite Hp.
  destruct (n =? 1) eqn:E.
  - apply Z.eqb_eq in E. subst n. rewrite (filter_len0 _ HL). reflexivity.
  - f_equal. unfold hlen in HL.
    rewrite (firstn_snoc (filter (pass r) pre) m (filter (pass r) post)) by lia.
    rewrite (firstn_snoc (filter (pass r) pre) m []) by lia. reflexivity.
Qed.

(* ---- any interleaving of (accepted) CONNACKs and messages, e.g. messages around a re-subscribe *)
Lemma nonsub_app a b : nonsub (a ++ b) = nonsub a ++ nonsub b.
Proof. unfold nonsub. apply filter_app. Qed.

Lemma srun_any tp q : forall evs s, good s -> connacks_ok evs = true ->
  fst (srun ModeSimple tp q (mkSub s false) evs) = mkSub (fst (msteps s (messages_of evs))) false
  /\ nonsub (snd (srun ModeSimple tp q (mkSub s false) evs)) = snd (msteps s (messages_of evs)).
Proof.
  induction evs as [|e evs IH]; intros s G Hc; [split; reflexivity|].
  cbn [connacks_ok forallb] in Hc. apply andb_true_iff in Hc as [He Hc].
  rewrite srun_cons. destruct e as [rc|m].
  - apply Z.eqb_eq in He. subst rc. rewrite sstep_connack. cbn [fst snd].
    rewrite nonsub_app, nonsub_subs. cbn [app messages_of flat_map]. apply IH; assumption.
  - rewrite (sstep_message_good tp q s m G). cbn [fst snd messages_of flat_map app msteps].
    destruct (IH _ (proj1 (simple_step_good s m G)) Hc) as [I1 I2].
    split; [exact I1|]. rewrite nonsub_app. unfold messages_of in I2. rewrite I2. f_equal.
    destruct (simple_step_good s m G) as [_ [E|E]]; rewrite E; reflexivity.
Qed.

Theorem simple_any_order tp qos n r evs : 1 <= n -> qos_bad qos = false -> connacks_ok evs = true ->
  fst (h_simple tp qos n r evs) = simple_result n r (messages_of evs)
  /\ nonsub (snd (h_simple tp qos n r evs)) =
     if enough n r (messages_of evs) then [SDisconnect] else [].
Proof.
  intros Hn Hq Hc. unfold h_simple. assert (A : n <? 1 = false) by lia. rewrite A, Hq. cbn [fst snd].
  destruct (srun_any tp qos evs _ (good_init n r Hn) Hc) as [I1 I2].
  rewrite I1, I2, (msteps_init n r _ Hn). split; reflexivity.
Qed.

(* ---- argument checks and a refused connection *)
Theorem simple_bad_count tp qos n r evs : n < 1 -> h_simple tp qos n r evs = (MNone, [SRaise 1]).
Proof. intro H. unfold h_simple. assert (A : n <? 1 = true) by lia. rewrite A. reflexivity. Qed.

Theorem sub_refused tp qos n r rc evs : 1 <= n -> qos_bad qos = false -> rc =? 0 = false ->
  snd (h_simple tp qos n r (SEConnack rc :: evs)) = [SRaise 3]
  /\ h_callback tp qos (SEConnack rc :: evs) = [SRaise 3].
Proof.
  intros Hn Hq Hrc. unfold h_simple, h_callback. assert (A : n <? 1 = false) by lia. rewrite A, Hq.
  rewrite !srun_cons, !(sstep_refused _ tp qos _ rc Hrc). cbn [fst snd].
  rewrite !srun_halted by reflexivity. split; reflexivity.
Qed.

(* ---- callback() *)
Lemma srun_callback_msgs tp q st : forall ins,
  srun ModeCallback tp q (mkSub st false) (map SEMessage ins) = (mkSub st false, map SUser ins).
Proof.
  induction ins as [|m ins IH]; [reflexivity|].
  cbn [map]. rewrite srun_cons. unfold sstep at 1 2 3. cbn [u_halt fst snd h_on_message_callback].
  rewrite IH. reflexivity.
Qed.

Theorem callback_coop tp qos ins : qos_bad qos = false ->
  h_callback tp qos (coop_sub ins) = subs tp qos ++ map SUser ins.
Proof.
  intro Hq. unfold h_callback, coop_sub. rewrite Hq, srun_cons, sstep_connack. cbn [fst snd].
  rewrite srun_callback_msgs. reflexivity.
Qed.

Lemma users_app a b : users (a ++ b) = users a ++ users b.
Proof. unfold users. apply flat_map_app. Qed.

Lemma srun_callback_any tp q st : forall evs, connacks_ok evs = true ->
  users (snd (srun ModeCallback tp q (mkSub st false) evs)) = messages_of evs.
Proof.
  induction evs as [|e evs IH]; intro Hc; [reflexivity|].
  cbn [connacks_ok forallb] in Hc. apply andb_true_iff in Hc as [He Hc].
  rewrite srun_cons. destruct e as [rc|m].
  - apply Z.eqb_eq in He. subst rc. rewrite sstep_connack. cbn [fst snd].
    rewrite users_app, users_subs. cbn [app messages_of flat_map]. apply IH. exact Hc.
  - unfold sstep at 1 2 3. cbn [u_halt fst snd]. unfold h_on_message_callback.
    rewrite users_app. cbn [users flat_map app messages_of]. f_equal. apply IH. exact Hc.
Qed.

Theorem callback_any tp qos evs : qos_bad qos = false -> connacks_ok evs = true ->
  users (h_callback tp qos evs) = messages_of evs.
Proof. intros Hq Hc. unfold h_callback. rewrite Hq. apply srun_callback_any. exact Hc. Qed.

Theorem callback_bad_qos tp qos evs : qos_bad qos = true -> h_callback tp qos evs = [SRaise 1].
Proof. intro H. unfold h_callback. rewrite H. reflexivity. Qed.

(* one subscribe per topic, in order; a string is one subscribe *)
Theorem subs_shape qos : (forall t, subs (TSingle t) qos = [SSubscribe t qos])
  /\ (forall l, subs (TList l) qos = map (fun t => SSubscribe t qos) l).
Proof. split; reflexivity. Qed.
