(* C20 - proofs about the helper callback programs of Session/Helpers.v.  Lists of any length. *)
From PahoV Require Import Base.Prelude Session.Helpers.

(* ================================================================== publish side *)

Lemma hlen_cons {A} (x : A) l : hlen (x :: l) = hlen l + 1.
Proof. unfold hlen. cbn [length]. lia. Qed.
Lemma hlen_nil {A} : hlen (@nil A) = 0.
Proof. reflexivity. Qed.
Lemma hlen_nonneg {A} (l : list A) : 0 <= hlen l.
Proof. unfold hlen. lia. Qed.
Lemma hlen_app {A} (a b : list A) : hlen (a ++ b) = hlen a + hlen b.
Proof. unfold hlen. rewrite app_length. lia. Qed.

Lemma prun_halted : forall evs s, p_halt s = true -> prun s evs = (s, []).
Proof.
  induction evs as [|e evs IH]; intros s H; cbn [prun]; [reflexivity|].
  unfold pstep. rewrite H. cbn [fst snd]. rewrite (IH s H). reflexivity.
Qed.

Lemma prun_cons s e evs :
  prun s (e :: evs) = (fst (prun (fst (pstep s e)) evs), snd (pstep s e) ++ snd (prun (fst (pstep s e)) evs)).
Proof. reflexivity. Qed.

Lemma pmsg_eqb_refl m : pmsg_eqb m m = true.
Proof.
  unfold pmsg_eqb. rewrite !Z.eqb_refl, !Bool.eqb_reflx. reflexivity.
Qed.

Lemma pmsg_eqb_eq a b : pmsg_eqb a b = true -> a = b.
Proof.
  unfold pmsg_eqb. intro H.
  apply andb_true_iff in H as [H H5]. apply andb_true_iff in H as [H H4].
  apply andb_true_iff in H as [H H3]. apply andb_true_iff in H as [H1 H2].
  apply Z.eqb_eq in H1, H2, H4. apply Bool.eqb_prop in H3, H5.
  destruct a, b; cbn in *; subst; reflexivity.
Qed.

Lemma do_publish_valid m ud : msg_valid m = true -> h_do_publish (m :: ud) = (ud, [APublish m]).
Proof.
  unfold msg_valid, form_ok, h_do_publish, call_publish. intro H.
  apply andb_true_iff in H as [Hp Hf]. rewrite Hp.
  destruct (p_form m =? 0); [reflexivity|]. cbn [orb] in Hf. rewrite Hf. reflexivity.
Qed.

Lemma do_publish_invalid m ud : msg_valid m = false ->
  h_do_publish (m :: ud) = (ud, [ARaise (if form_ok m then 1 else 2)]).
Proof.
  unfold msg_valid, form_ok, h_do_publish, call_publish. intro H.
  destruct (p_form m =? 0) eqn:E0; cbn [orb] in *.
  - rewrite andb_true_r in H. rewrite H. reflexivity.
  - destruct ((p_form m =? 1) || (p_form m =? 2)) eqn:E12.
    + rewrite andb_true_r in H. rewrite H. reflexivity.
    + reflexivity.
Qed.

(* ---- one step of the machine, case by case *)
Lemma pstep_pub_valid x l : msg_valid x = true ->
  pstep (mkPst (x :: l) false) EPublished = (mkPst l false, [APublish x]).
Proof.
  intro H. unfold pstep. cbn [p_halt p_ud]. unfold h_on_publish. rewrite hlen_cons.
  assert (E : hlen l + 1 =? 0 = false) by (pose proof (hlen_nonneg l); lia). rewrite E.
  rewrite (do_publish_valid x l H). reflexivity.
Qed.
Lemma pstep_pub_invalid x l : msg_valid x = false ->
  pstep (mkPst (x :: l) false) EPublished = (mkPst l true, [ARaise (if form_ok x then 1 else 2)]).
Proof.
  intro H. unfold pstep. cbn [p_halt p_ud]. unfold h_on_publish. rewrite hlen_cons.
  assert (E : hlen l + 1 =? 0 = false) by (pose proof (hlen_nonneg l); lia). rewrite E.
  rewrite (do_publish_invalid x l H). reflexivity.
Qed.
Lemma pstep_pub_nil : pstep (mkPst [] false) EPublished = (mkPst [] false, [ADisconnect]).
Proof. reflexivity. Qed.
Lemma pstep_conn_valid x l : msg_valid x = true ->
  pstep (mkPst (x :: l) false) (EConnack 0) = (mkPst l false, [APublish x]).
Proof.
  intro H. unfold pstep. cbn [p_halt p_ud]. unfold h_on_connect. rewrite Z.eqb_refl, hlen_cons.
  assert (E : hlen l + 1 >? 0 = true) by (pose proof (hlen_nonneg l); lia). rewrite E.
  rewrite (do_publish_valid x l H). reflexivity.
Qed.
Lemma pstep_conn_invalid x l : msg_valid x = false ->
  pstep (mkPst (x :: l) false) (EConnack 0) = (mkPst l true, [ARaise (if form_ok x then 1 else 2)]).
Proof.
  intro H. unfold pstep. cbn [p_halt p_ud]. unfold h_on_connect. rewrite Z.eqb_refl, hlen_cons.
  assert (E : hlen l + 1 >? 0 = true) by (pose proof (hlen_nonneg l); lia). rewrite E.
  rewrite (do_publish_invalid x l H). reflexivity.
Qed.
Lemma pstep_conn_nil : pstep (mkPst [] false) (EConnack 0) = (mkPst [] false, []).
Proof. reflexivity. Qed.
Lemma pstep_conn_refused rc ud : rc =? 0 = false ->
  pstep (mkPst ud false) (EConnack rc) = (mkPst ud true, [ARaise 3]).
Proof. intro H. unfold pstep. cbn [p_halt p_ud]. unfold h_on_connect. rewrite H. reflexivity. Qed.

(* every step from a running state is one of the seven cases above *)
Inductive pstep_case (ud : list pmsg) (e : cbev) : pst * list api -> Prop :=
| PC_pub x l : ud = x :: l -> pstep_case ud e (mkPst l false, [APublish x])
| PC_raise l k : k <> 6 -> pstep_case ud e (mkPst l true, [ARaise k])
| PC_disc : ud = [] -> pstep_case ud e (mkPst [] false, [ADisconnect])
| PC_idle : ud = [] -> pstep_case ud e (mkPst [] false, []).

Lemma pstep_cases ud e : pstep_case ud e (pstep (mkPst ud false) e).
Proof.
  destruct e as [rc|].
  - destruct (rc =? 0) eqn:Erc.
    + apply Z.eqb_eq in Erc. subst rc. destruct ud as [|x l].
      * rewrite pstep_conn_nil. apply PC_idle. reflexivity.
      * destruct (msg_valid x) eqn:Hx.
        -- rewrite (pstep_conn_valid x l Hx). eapply PC_pub. reflexivity.
        -- rewrite (pstep_conn_invalid x l Hx). apply PC_raise. destruct (form_ok x); discriminate.
    + rewrite (pstep_conn_refused rc ud Erc). apply PC_raise. discriminate.
  - destruct ud as [|x l].
    + rewrite pstep_pub_nil. apply PC_disc. reflexivity.
    + destruct (msg_valid x) eqn:Hx.
      * rewrite (pstep_pub_valid x l Hx). eapply PC_pub. reflexivity.
      * rewrite (pstep_pub_invalid x l Hx). apply PC_raise. destruct (form_ok x); discriminate.
Qed.

Lemma published_swap {A} (l : list A) :
  EPublished :: map (fun _ => EPublished) l = map (fun _ => EPublished) l ++ [EPublished].
Proof. induction l as [|x l IH]; cbn [map app]; [reflexivity|]. rewrite <- IH. reflexivity. Qed.

(* |pre| completions publish the next |pre| messages, whatever follows *)
Lemma prun_prefix : forall pre rest more, msgs_valid pre = true ->
  prun (mkPst (pre ++ rest) false) (map (fun _ => EPublished) pre ++ more) =
  (fst (prun (mkPst rest false) more), map APublish pre ++ snd (prun (mkPst rest false) more)).
Proof.
  induction pre as [|x pre IH]; intros rest more Hv.
  - cbn [app map]. destruct (prun (mkPst rest false) more); reflexivity.
  - cbn [msgs_valid forallb] in Hv. apply andb_true_iff in Hv as [Hx Hv].
    cbn [app map prun]. rewrite (pstep_pub_valid x (pre ++ rest) Hx). cbn [fst snd].
    rewrite (IH rest more Hv). cbn [fst snd app]. reflexivity.
Qed.

Theorem multiple_coop : forall msgs, msgs <> [] -> msgs_valid msgs = true ->
  h_multiple msgs (coop msgs) = (mkPst [] false, map APublish msgs ++ [ADisconnect]).
Proof.
  intros [|m ms] Hne Hv; [congruence|].
  unfold h_multiple. rewrite hlen_cons.
  assert (E : hlen ms + 1 =? 0 = false) by (pose proof (hlen_nonneg ms); lia). rewrite E.
  cbn [msgs_valid forallb] in Hv. apply andb_true_iff in Hv as [Hm Hv].
  unfold coop. cbn [prun]. rewrite (pstep_conn_valid m ms Hm). cbn [fst snd].
  cbn [map]. rewrite published_swap.
  pose proof (prun_prefix ms [] [EPublished] Hv) as P. rewrite app_nil_r in P. rewrite P.
  cbn [prun]. rewrite pstep_pub_nil. cbn [fst snd app map]. reflexivity.
Qed.

(* the completeness checker is exact *)
Lemma c20_pub_complete_iff : forall msgs out,
  c20_pub_complete msgs out = true <-> out = map APublish msgs ++ [ADisconnect].
Proof.
  induction msgs as [|m msgs IH]; intros out; split; intro H.
  - destruct out as [|[x| |k] [|y out]]; cbn in H; try discriminate. reflexivity.
  - subst. reflexivity.
  - destruct out as [|[x| |k] out]; cbn [c20_pub_complete] in H; try discriminate.
    apply andb_true_iff in H as [H1 H2]. apply pmsg_eqb_eq in H1. apply IH in H2. subst. reflexivity.
  - subst. cbn [map app c20_pub_complete]. rewrite pmsg_eqb_refl. apply IH. reflexivity.
Qed.

Theorem multiple_coop_checked : forall msgs, msgs <> [] -> msgs_valid msgs = true ->
  c20_pub_complete msgs (snd (h_multiple msgs (coop msgs))) = true.
Proof.
  intros msgs Hne Hv. rewrite (multiple_coop msgs Hne Hv). cbn [snd].
  apply c20_pub_complete_iff. reflexivity.
Qed.

(* ---- safety for arbitrary callback sequences *)
Lemma pub_safe_from : forall evs ud, c20_pub_ok ud (snd (prun (mkPst ud false) evs)) = true.
Proof.
  induction evs as [|e evs IH]; intros ud; cbn [prun snd]; [reflexivity|].
  destruct (pstep_cases ud e) as [x l E|l k Hk|E|E]; cbn [fst snd app].
  - subst ud. cbn [c20_pub_ok]. rewrite pmsg_eqb_refl. apply IH.
  - rewrite prun_halted by reflexivity. reflexivity.
  - subst ud. cbn [c20_pub_ok is_nil andb]. apply IH.
  - subst ud. apply IH.
Qed.

Theorem multiple_safe : forall msgs evs, c20_pub_ok msgs (snd (h_multiple msgs evs)) = true.
Proof.
  intros msgs evs. unfold h_multiple. destruct (hlen msgs =? 0); [reflexivity|]. apply pub_safe_from.
Qed.

(* what the safety checker means *)
Lemma c20_pub_ok_sound : forall out msgs, c20_pub_ok msgs out = true ->
  (exists rest, msgs = pubs out ++ rest)
  /\ (forall a b, out = a ++ ADisconnect :: b -> pubs a = msgs)
  /\ (forall a k b, out = a ++ ARaise k :: b -> b = []).
Proof.
  induction out as [|x out IH]; intros msgs H.
  - repeat split.
    + exists msgs. reflexivity.
    + intros [|? ?] b E; discriminate E.
    + intros [|? ?] k b E; discriminate E.
  - destruct x as [m| |k]; cbn [c20_pub_ok] in H.
    + destruct msgs as [|r rest]; [discriminate|].
      apply andb_true_iff in H as [H1 H2]. apply pmsg_eqb_eq in H1. subst r.
      destruct (IH rest H2) as (P1 & P2 & P3). repeat split.
      * destruct P1 as [r0 P1]. exists r0. unfold pubs in *. cbn [flat_map app]. rewrite P1 at 1. reflexivity.
      * intros [|y a] b E; [discriminate|]. inversion E; subst y.
        unfold pubs. cbn [flat_map app]. f_equal. apply (P2 a b). assumption.
      * intros [|y a] k b E; [discriminate|]. inversion E. eapply P3; eassumption.
    + apply andb_true_iff in H as [H1 H2]. destruct msgs; [|discriminate].
      destruct (IH [] H2) as (P1 & P2 & P3). repeat split.
      * exact P1.
      * intros [|y a] b E; [reflexivity|]. inversion E; subst y.
        unfold pubs. cbn [flat_map app]. apply (P2 a b). assumption.
      * intros [|y a] k b E; [discriminate|]. inversion E. eapply P3; eassumption.
    + destruct out; [|discriminate]. repeat split.
      * exists msgs. reflexivity.
      * intros [|y [|z a]] b E; discriminate E.
      * intros [|y [|z a]] k' b E; try discriminate E. inversion E. reflexivity.
Qed.

Theorem multiple_safe_explained : forall msgs evs,
  let out := snd (h_multiple msgs evs) in
  (exists rest, msgs = pubs out ++ rest)
  /\ (forall a b, out = a ++ ADisconnect :: b -> pubs a = msgs)
  /\ (forall a k b, out = a ++ ARaise k :: b -> b = []).
Proof. intros msgs evs. apply c20_pub_ok_sound. apply multiple_safe. Qed.

(* popleft() never meets an empty deque *)
Lemma no_index_error_from : forall evs ud, ~ In (ARaise 6) (snd (prun (mkPst ud false) evs)).
Proof.
  induction evs as [|e evs IH]; intros ud; cbn [prun snd]; [intros []|].
  intro Hin. apply in_app_or in Hin.
  destruct (pstep_cases ud e) as [x l E|l k Hk|E|E]; cbn [fst snd] in Hin.
  - destruct Hin as [[Hin|[]]|Hin]; [discriminate|]. exact (IH _ Hin).
  - rewrite prun_halted in Hin by reflexivity. destruct Hin as [[Hin|[]]|[]]. congruence.
  - destruct Hin as [[Hin|[]]|Hin]; [discriminate|]. exact (IH _ Hin).
  - destruct Hin as [[]|Hin]. exact (IH _ Hin).
Qed.

Theorem multiple_no_index_error : forall msgs evs, ~ In (ARaise 6) (snd (h_multiple msgs evs)).
Proof.
  intros msgs evs. unfold h_multiple. destruct (hlen msgs =? 0).
  - cbn [snd]. intros [H|[]]. discriminate.
  - apply no_index_error_from.
Qed.

(* outside the quantifier of C20: a message the client rejects, anywhere in the list.  The messages
   before it are published, the exception leaves multiple(), no DISCONNECT is sent. *)
Theorem multiple_invalid_not_atomic : forall pre m post more,
  msgs_valid pre = true -> msg_valid m = false ->
  h_multiple (pre ++ m :: post) (EConnack 0 :: map (fun _ => EPublished) pre ++ more) =
  (mkPst post true, map APublish pre ++ [ARaise (if form_ok m then 1 else 2)]).
Proof.
  intros pre m post more Hv Hm. unfold h_multiple.
  assert (E : hlen (pre ++ m :: post) =? 0 = false).
  { rewrite hlen_app, hlen_cons. pose proof (hlen_nonneg pre). pose proof (hlen_nonneg post). lia. }
  rewrite E. destruct pre as [|p0 pre].
  - cbn [app map prun]. rewrite (pstep_conn_invalid m post Hm). cbn [fst snd].
    rewrite prun_halted by reflexivity. reflexivity.
  - cbn [msgs_valid forallb] in Hv. apply andb_true_iff in Hv as [H0 Hv].
    rewrite <- app_comm_cons. rewrite prun_cons. rewrite (pstep_conn_valid p0 _ H0). cbn [fst snd].
    cbn [map]. rewrite published_swap, <- app_assoc.
    rewrite (prun_prefix pre (m :: post) ([EPublished] ++ more) Hv).
    cbn [app]. rewrite prun_cons. rewrite (pstep_pub_invalid m post Hm). cbn [fst snd].
    rewrite prun_halted by reflexivity. cbn [fst snd app]. reflexivity.
Qed.

Theorem single_is_multiple : forall tag qos retain bad evs,
  h_single tag qos retain bad evs = h_multiple [mkP tag qos retain 0 bad] evs.
Proof. reflexivity. Qed.

Theorem single_coop : forall tag qos retain,
  (0 <=? qos) && (qos <=? 2) = true ->
  let m := mkP tag qos retain 0 false in
  h_single tag qos retain false (coop [m]) = (mkPst [] false, [APublish m; ADisconnect]).
Proof.
  intros tag qos retain Hq m. unfold h_single.
  apply (multiple_coop [m]); [discriminate|].
  cbn [msgs_valid forallb]. unfold msg_valid, publish_ok, form_ok. subst m. cbn [p_bad p_qos p_form negb].
  apply andb_true_iff in Hq as [H1 H2]. rewrite H1, H2. reflexivity.
Qed.
