(* C14 at the session level: live messages never share a packet identifier. *)
From PahoV Require Import Base.Prelude Codec.Mid Codec.MidProofs Session.Model Session.Lemmas Session.Inv.

Theorem c14_nodup c ops : cfg_ok c = true -> conforming c ops = true ->
  NoDup (map o_mid (out (fst (run c ops)))).
Proof. intros Hc Hf. exact (inv_nodup _ _ (inv_reachable c Hc ops Hf)). Qed.

(* a QoS 1/2 publish whose fresh id is still outstanding is refused with MQTT_ERR_QUEUE_SIZE (15) and
   neither stores nor sends anything *)
Theorem c14_refused_when_in_use c s q : q <> 0 ->
  has_mid (mid_next (last_mid s)) (out s) = true ->
  let r := do_publish c s q in
  out (fst r) = out s /\ inflight (fst r) = inflight s /\ inm (fst r) = inm s /\
  snd r = [Ret (ntag s) (mid_next (last_mid s)) q 15].
Proof.
  intros Hq Hh. unfold do_publish. replace (q =? 0) with false by lia. rewrite Hh.
  destruct ((c_maxq c >? 0) && (Z.of_nat (length (out s)) >=? c_maxq c)); cbn; repeat split.
Qed.
