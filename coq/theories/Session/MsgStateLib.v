(* Fixed vocabulary of the definitions that tools/py2v/msgstate.py generates from the message-state
   methods of client.py (Gen/GenMsgState.v).  Definitions only, no proofs.

   Stored outgoing messages are the Session model's own record [omsg]; the OrderedDict
   [_out_messages] is the list of its values in insertion order, keyed by the record's own [o_mid]
   (every store in the translated code is `self._out_messages[message.mid] = message`; the
   translator refuses any other key).  Dictionary operations: [has_mid] (`k in d`), [find_mid]
   (`d[k]`), [remove_mid] (`d.pop(k)`) come from Session.Model, [out_set] (`d[k] = v`) is below.

   Everything a translated method does to the outside is recorded, in call order, as a [gcall]. *)
From PahoV Require Import Base.Prelude Codec.Mid Session.Model.

Inductive gcall :=
| GSendPublish (mid qos : Z) (dup : bool) (tag : Z) (st : mstate)
    (* self._send_publish(x.mid, _, x.payload, qos, _, dup, ...) on an open socket; tag = ghost identity of
       the payload (o_tag x); st = x.state at the moment of the call *)
| GSendPubrel (mid tag : Z)       (* self._send_pubrel(mid); tag = o_tag of the message object the id belongs to *)
| GSendPuback (mid : Z)
| GSendPubrec (mid : Z)
| GSendPubcomp (mid : Z)
| GLoopWrite                      (* self.loop_write() *)
| GCbPublish (mid : Z)            (* the on_publish callback block of _do_on_publish *)
| GSetPublished (tag : Z)         (* msg.info._set_as_published() *)
| GOnMessage (mid qos tag : Z).   (* self._handle_on_message(message) *)

(* attribute assignments on a stored outgoing message *)
Definition g_set_dup (m : omsg) (d : bool) : omsg := mkO (o_mid m) (o_qos m) (o_st m) d (o_tag m).
Definition g_set_qos (m : omsg) (q : Z) : omsg := mkO (o_mid m) q (o_st m) (o_dup m) (o_tag m).
Definition g_set_tag (m : omsg) (t : Z) : omsg := mkO (o_mid m) (o_qos m) (o_st m) (o_dup m) t.
Definition g_set_mid (m : omsg) (k : Z) : omsg := mkO k (o_qos m) (o_st m) (o_dup m) (o_tag m).

(* d[k] = v : overwrite in place, else append *)
Fixpoint out_set (k : Z) (v : omsg) (l : list omsg) : list omsg :=
  match l with
  | [] => [v]
  | m :: l' => if o_mid m =? k then v :: l' else m :: out_set k v l'
  end.

(* stored incoming QoS 2 messages: the model keeps (mid, tag); the source also has a qos field *)
Record imsg := mkI { i_mid : Z; i_qos : Z; i_tag : Z }.

Fixpoint i_find (k : Z) (l : list imsg) : option imsg :=
  match l with
  | [] => None
  | m :: l' => if i_mid m =? k then Some m else i_find k l'
  end.
Definition i_has (k : Z) (l : list imsg) : bool :=
  match i_find k l with Some _ => true | None => false end.
Fixpoint i_remove (k : Z) (l : list imsg) : list imsg :=
  match l with
  | [] => []
  | m :: l' => if i_mid m =? k then l' else m :: i_remove k l'
  end.
Fixpoint i_set (k : Z) (v : imsg) (l : list imsg) : list imsg :=
  match l with
  | [] => [v]
  | m :: l' => if i_mid m =? k then v :: l' else m :: i_set k v l'
  end.

(* the model's view of the incoming store *)
Definition inm_of (l : list imsg) : list (Z * Z) := map (fun m => (i_mid m, i_tag m)) l.
