(* C02: no re-PUBLISH after PUBREC in a persistent session, PUBREL after the accepting CONNACK,
   DUP set exactly on retransmissions - for every protocol-conforming history of the Session model. *)
From PahoV Require Import Base.Prelude Codec.Mid Codec.MidProofs Session.Model Session.Check
  Session.Lemmas Session.Inv Session.Statements.
From Coq Require Import Sorting.Sorted.

(* ---------------------------------------------------------------- sets of tags *)
Lemma zin_app x l l' : zin x (l ++ l') = zin x l || zin x l'.
Proof.
  induction l as [|y l IH]; cbn [zin app]; [reflexivity|]. rewrite IH, orb_assoc. reflexivity.
Qed.

Lemma zin_zadd x y l : zin x (zadd y l) = (x =? y) || zin x l.
Proof.
  unfold zadd. destruct (zin y l) eqn:E.
  - destruct (x =? y) eqn:E2; [|reflexivity]. assert (x = y) by lia. subst. rewrite E. reflexivity.
  - rewrite zin_app. cbn [zin]. rewrite orb_false_r. apply orb_comm.
Qed.

Lemma zin_zrem x y l : zin x (zrem y l) = negb (x =? y) && zin x l.
Proof.
  induction l as [|z l IH]; cbn [zrem zin]; [rewrite andb_false_r; reflexivity|].
  destruct (y =? z) eqn:E.
  - rewrite IH. destruct (x =? y) eqn:E1; destruct (x =? z) eqn:E2; cbn [negb andb orb]; try reflexivity.
    exfalso; lia.
  - cbn [zin]. rewrite IH. destruct (x =? y) eqn:E1; destruct (x =? z) eqn:E2; cbn [negb andb orb]; try reflexivity.
    exfalso; lia.
Qed.

Lemma zin_In x l : zin x l = true <-> In x l.
Proof.
  induction l as [|y l IH]; cbn [zin In]; [split; [discriminate|intros []]|].
  rewrite orb_true_iff, IH. split; (intros [H|H]; [left; lia | right; exact H]).
Qed.

Lemma zin_notin x l : ~ In x l -> zin x l = false.
Proof. intros H. destruct (zin x l) eqn:E; [|reflexivity]. exfalso. apply H. apply zin_In. exact E. Qed.

(* ---------------------------------------------------------------- the live list mirrors out *)
Definition lm (m : omsg) : lmsg := mkL (o_tag m) (o_mid m) (o_qos m).

Lemma lfind_mid_map mid l : lfind_mid mid (map lm l) = option_map lm (find_mid mid l).
Proof.
  induction l as [|x l IH]; cbn [map lfind_mid find_mid]; [reflexivity|].
  change (l_mid (lm x)) with (o_mid x). destruct (o_mid x =? mid); [reflexivity | exact IH].
Qed.

Lemma lrem_tag_app tag a b : lrem_tag tag (a ++ b) = lrem_tag tag a ++ lrem_tag tag b.
Proof.
  induction a as [|x a IH]; cbn [app lrem_tag]; [reflexivity|].
  destruct (l_tag x =? tag); [exact IH | cbn [app]; f_equal; exact IH].
Qed.

Lemma lrem_tag_notin tag l : ~ In tag (tags l) -> lrem_tag tag (map lm l) = map lm l.
Proof.
  induction l as [|x l IH]; cbn [map lrem_tag tags]; [reflexivity|]. intros H.
  change (l_tag (lm x)) with (o_tag x). destruct (o_tag x =? tag) eqn:E.
  - exfalso. apply H. left. lia.
  - f_equal. apply IH. intros H1. apply H. right. exact H1.
Qed.

Lemma lrem_tag_split l1 m l2 : NoDup (tags (l1 ++ m :: l2)) ->
  lrem_tag (o_tag m) (map lm (l1 ++ m :: l2)) = map lm (l1 ++ l2).
Proof.
  rewrite tags_app. cbn [tags map]. intros H. apply NoDup_remove_2 in H.
  rewrite !map_app, lrem_tag_app. cbn [map lrem_tag]. change (l_tag (lm m)) with (o_tag m).
  rewrite Z.eqb_refl. rewrite !lrem_tag_notin; [reflexivity| |].
  - intros H1. apply H. apply in_or_app. right. exact H1.
  - intros H1. apply H. apply in_or_app. left. exact H1.
Qed.

Lemma tag_inj l a b : NoDup (tags l) -> In a l -> In b l -> o_tag a = o_tag b -> a = b.
Proof.
  induction l as [|x l IH]; cbn [tags map]; intros Hn Ha Hb E; [destruct Ha|].
  inversion Hn as [|? ? Hx Hn']; subst.
  destruct Ha as [->|Ha]; destruct Hb as [->|Hb]; [reflexivity| | |apply IH; assumption].
  - exfalso. apply Hx. rewrite E. apply (in_map o_tag). exact Hb.
  - exfalso. apply Hx. rewrite <- E. apply (in_map o_tag). exact Ha.
Qed.

Lemma SSorted_NoDup (l : list Z) : StronglySorted Z.lt l -> NoDup l.
Proof.
  induction 1 as [|a l Hs IH Hf]; constructor; [|assumption].
  intros Hin. rewrite Forall_forall in Hf. specialize (Hf a Hin). lia.
Qed.

Lemma NoDup_map_filter {A B} (g : A -> B) (f : A -> bool) l : NoDup (map g l) -> NoDup (map g (filter f l)).
Proof.
  induction l as [|x l IH]; cbn [map filter]; intros H; [constructor|].
  inversion H as [|? ? Hx Hn]; subst. destruct (f x); [|apply IH; exact Hn].
  cbn [map]. constructor; [|apply IH; exact Hn].
  intros Hin. apply Hx. apply in_map_iff in Hin as (y & Hy & Hin). apply filter_In in Hin as [Hin _].
  rewrite <- Hy. apply in_map. exact Hin.
Qed.

Lemma NoDup_app_l {A} (a b : list A) : NoDup (a ++ b) -> NoDup a.
Proof.
  induction a as [|x a IH]; cbn [app]; intros H; [constructor|].
  inversion H as [|? ? Hx Hn]; subst. constructor; [|apply IH; exact Hn].
  intros Hin. apply Hx. apply in_or_app. left. exact Hin.
Qed.
Lemma NoDup_app_r {A} (a b : list A) : NoDup (a ++ b) -> NoDup b.
Proof.
  induction a as [|x a IH]; cbn [app]; intros H; [exact H|].
  inversion H; subst. apply IH. assumption.
Qed.
Lemma NoDup_app_disj {A} (a b : list A) x : NoDup (a ++ b) -> In x a -> In x b -> False.
Proof.
  induction a as [|y a IH]; cbn [app]; intros H Ha Hb; [destruct Ha|].
  inversion H as [|? ? Hy Hn]; subst. destruct Ha as [->|Ha].
  - apply Hy. apply in_or_app. right. exact Hb.
  - exact (IH Hn Ha Hb).
Qed.

Lemma zin_tags t l : zin t (tags l) = true <-> exists m, In m l /\ o_tag m = t.
Proof.
  rewrite zin_In. unfold tags. rewrite in_map_iff. split; intros (m & H1 & H2); exists m; tauto.
Qed.

(* ---------------------------------------------------------------- per-message facts *)
Definition snt (m : omsg) : bool :=
  is_wait m || match o_st m with MsResendPubrel => true | _ => false end || o_dup m.
Definition isrec (m : omsg) : bool :=
  match o_st m with MsWaitPubcomp | MsResendPubrel => true | _ => false end.
Definition isresend (m : omsg) : bool :=
  match o_st m with MsResendPubrel => true | _ => false end.
Definition isPub (m : omsg) : bool :=
  match o_st m with MsPublish => true | _ => false end.

Ltac mcrush :=
  let mid := fresh "mid" in let q := fresh "q" in let st := fresh "st" in
  let d := fresh "d" in let t := fresh "t" in
  match goal with m : omsg |- _ => destruct m as [mid q st d t] end;
  unfold snt, isrec, isresend, isPub, lm, qos_okb, reset1, toQ, cl1, rel1, wait_of, is_queued, is_wait,
    set_st, set_st_dup in *; cbn in *;
  destruct (q =? 1) eqn:?; destruct (q =? 2) eqn:?; destruct st; cbn in *;
  repeat match goal with H : (_ =? _) = _ |- _ => rewrite H in * end; cbn in *;
  intros; try reflexivity; try discriminate; try lia; try tauto.

Lemma lm_reset1 cl m : lm (reset1 cl m) = lm m.
Proof. destruct cl; mcrush. Qed.
Lemma lm_toQ m : lm (toQ m) = lm m.
Proof. reflexivity. Qed.
Lemma lm_cl1 m : lm (cl1 m) = lm m.
Proof. mcrush. Qed.
Lemma lm_rel1 m : lm (rel1 m) = lm m.
Proof. reflexivity. Qed.

Lemma snt_reset1 cl m : qos_okb m = true -> snt (reset1 cl m) = snt m.
Proof. destruct cl; mcrush. Qed.
Lemma snt_toQ m : o_st m = MsPublish \/ o_st m = MsQueued -> snt (toQ m) = snt m.
Proof. intros [H|H]; mcrush. Qed.
Lemma snt_rel1 m : snt (rel1 m) = true.
Proof. mcrush. Qed.
Lemma snt_cl1_pub m : isPub m = true -> snt (cl1 m) = true.
Proof. mcrush. Qed.
Lemma snt_cl1_other m : isPub m = false -> snt (cl1 m) = snt m.
Proof. mcrush. Qed.
Lemma snt_queued m : is_queued m = true -> snt m = o_dup m.
Proof. mcrush. Qed.
Lemma snt_pub m : isPub m = true -> snt m = o_dup m.
Proof. mcrush. Qed.
Lemma snt_wait m : is_wait m = true -> snt m = true.
Proof. mcrush. Qed.
Lemma qos_pos m : qos_okb m = true -> 0 < o_qos m.
Proof. mcrush. Qed.
Lemma rec_reset1 m : o_qos m = 2 -> isrec m = true ->
  isrec (reset1 false m) = true /\ isresend (reset1 false m) = true.
Proof. mcrush. Qed.
Lemma rec_cl1 m : isrec m = true -> isrec (cl1 m) = true.
Proof. mcrush. Qed.
Lemma cl1_qos m : o_qos (cl1 m) = o_qos m.
Proof. mcrush. Qed.
Lemma rec_nq m : isrec m = true -> is_queued m = false.
Proof. mcrush. Qed.
Lemma rec_npub m : isrec m = true -> isPub m = false.
Proof. mcrush. Qed.
Lemma rec_nPQ m : isrec m = true -> ~ (o_st m = MsPublish \/ o_st m = MsQueued).
Proof. intros H [E|E]; mcrush. Qed.
Lemma queued_npub m : is_queued m = true -> isPub m = false.
Proof. mcrush. Qed.

(* ---------------------------------------------------------------- the relational invariant *)
Record R (c : cfg) (s : sess) (k : k02) : Prop := mkR {
  r_ok : k2_ok k = true;
  r_live : k2_live k = map lm (out s);
  r_sent : forall m, In m (out s) -> zin (o_tag m) (k2_sent k) = snt m;
  r_sentb : forall t, zin t (k2_sent k) = true -> t < ntag s;
  r_rec : c_clean c <> 1 -> forall t, zin t (k2_rec k) = true ->
       exists m, In m (out s) /\ o_tag m = t /\ o_qos m = 2 /\ isrec m = true /\
          (sock s = true -> cack s = false -> isresend m = true);
  r_first : cack s = true -> first s = false;
  r_clean : c_clean c = 2 -> first s = true -> k2_rec k = []
}.

Lemma inv_nodup_tags c s : Inv c s -> NoDup (tags (out s)).
Proof. intros I. apply SSorted_NoDup. apply (inv_sorted _ _ I). Qed.

Lemma inv_tag_lt c s m : Inv c s -> In m (out s) -> 0 <= o_tag m < ntag s.
Proof. intros I H. exact (proj1 (Forall_forall _ _) (inv_tags _ _ I) m H). Qed.

Lemma inv_qos_ok c s m : Inv c s -> In m (out s) -> qos_okb m = true.
Proof. intros I H. exact (proj1 (Forall_forall _ _) (inv_qos _ _ I) m H). Qed.

Lemma rec_msg c s k m : Inv c s -> R c s k -> c_clean c <> 1 -> In m (out s) ->
  zin (o_tag m) (k2_rec k) = true ->
  o_qos m = 2 /\ isrec m = true /\ (sock s = true -> cack s = false -> isresend m = true).
Proof.
  intros I HR Hc Hin Hz. destruct (r_rec _ _ _ HR Hc _ Hz) as (m' & Hin' & Ht & H).
  assert (m' = m) by (eapply tag_inj; [apply (inv_nodup_tags _ _ I)| | |]; eassumption).
  subst. exact H.
Qed.

(* a message that is not past PUBREC is not in k2_rec *)
Lemma notrec_msg c s k m : Inv c s -> R c s k -> c_clean c <> 1 -> In m (out s) ->
  isrec m = false -> zin (o_tag m) (k2_rec k) = false.
Proof.
  intros I HR Hc Hin Hn. destruct (zin (o_tag m) (k2_rec k)) eqn:E; [|reflexivity].
  destruct (rec_msg _ _ _ _ I HR Hc Hin E) as (_ & H & _). congruence.
Qed.

Lemma fresh_notin c s : Inv c s -> ~ In (ntag s) (tags (out s)).
Proof.
  intros I H. unfold tags in H. apply in_map_iff in H as (m & E & Hin).
  pose proof (inv_tag_lt _ _ _ I Hin). lia.
Qed.
Lemma fresh_sent c s k : R c s k -> zin (ntag s) (k2_sent k) = false.
Proof.
  intros HR. destruct (zin (ntag s) (k2_sent k)) eqn:E; [|reflexivity].
  pose proof (r_sentb _ _ _ HR _ E). lia.
Qed.
Lemma fresh_rec c s k : Inv c s -> R c s k -> c_clean c <> 1 -> zin (ntag s) (k2_rec k) = false.
Proof.
  intros I HR Hc. destruct (zin (ntag s) (k2_rec k)) eqn:E; [|reflexivity].
  destruct (r_rec _ _ _ HR Hc _ E) as (m & Hin & Ht & _).
  pose proof (inv_tag_lt _ _ _ I Hin). lia.
Qed.

(* ---------------------------------------------------------------- checker folds *)
Lemma k02_op_plain p k evs : existsb is_connack0 evs = false ->
  k02_op p k evs = fold_left (k02_ev p) evs k.
Proof. intros H. unfold k02_op. rewrite H, andb_false_r. reflexivity. Qed.

Definition quiet (e : event) : bool :=
  match e with
  | Ret _ _ q rc => negb ((q >? 0) && ((rc =? 0) || (rc =? 4)))
  | Inp (IPubrec _) | Inp (IConnack _) => false
  | Tx _ (PPublish _ _ _ _) => false
  | CbPublish _ _ => false
  | _ => true
  end.

Lemma quiet_ev p k e : quiet e = true -> k02_ev p k e = k.
Proof.
  destruct e as [cn pk|tag mid q rc|mid tag|tag|mid q tag| |ip| |cn|]; cbn [quiet k02_ev]; try reflexivity.
  - destruct pk; try reflexivity; discriminate.
  - intros H. destruct ((q >? 0) && ((rc =? 0) || (rc =? 4))); [discriminate|reflexivity].
  - discriminate.
  - destruct ip; try reflexivity; discriminate.
Qed.

Lemma quiet_fold p evs : forall k, forallb quiet evs = true ->
  fold_left (k02_ev p) evs k = k /\ existsb is_connack0 evs = false.
Proof.
  induction evs as [|e evs IH]; intros k H; cbn [fold_left existsb forallb] in *; [split; reflexivity|].
  apply andb_true_iff in H as [H1 H2]. rewrite (quiet_ev p k e H1). destruct (IH k H2) as [E1 E2].
  split; [exact E1|]. rewrite E2, orb_false_r. destruct e as [? ?|? ? ? ?|? ?|?|? ? ?| |ip| |?|]; try reflexivity.
  destruct ip; try reflexivity; discriminate.
Qed.

Lemma quiet_op p k evs : forallb quiet evs = true -> k02_op p k evs = k.
Proof.
  intros H. destruct (quiet_fold p evs k H) as [E1 E2]. rewrite k02_op_plain by exact E2. exact E1.
Qed.

Lemma noconn_rel cn L : existsb is_connack0 (map (rel_ev cn) L) = false.
Proof. induction L as [|m L IH]; cbn [map existsb]; [reflexivity|]. exact IH. Qed.

(* writing the PUBLISH of a list of stored messages with pairwise different tags *)
Lemma fold_pub p cn : forall L k,
  k2_ok k = true -> NoDup (tags L) ->
  (forall m, In m L -> (p = true -> zin (o_tag m) (k2_rec k) = false) /\
                       o_dup m = zin (o_tag m) (k2_sent k) /\ 0 < o_qos m) ->
  k2_ok (fold_left (k02_ev p) (map (rel_ev cn) L) k) = true /\
  k2_live (fold_left (k02_ev p) (map (rel_ev cn) L) k) = k2_live k /\
  k2_rec (fold_left (k02_ev p) (map (rel_ev cn) L) k) = k2_rec k /\
  (forall t, zin t (k2_sent (fold_left (k02_ev p) (map (rel_ev cn) L) k)) = zin t (k2_sent k) || zin t (tags L)).
Proof.
  induction L as [|m L IH]; intros k Hok Hnd Hgood; cbn [map fold_left tags].
  - repeat split; try assumption. intros t. cbn [zin]. rewrite orb_false_r. reflexivity.
  - cbn [tags map] in Hnd. inversion Hnd as [|? ? Hx Hnd']; subst.
    destruct (Hgood m (or_introl eq_refl)) as (Hr & Hd & Hq).
    set (k1 := k02_ev p k (rel_ev cn m)).
    assert (Hl1 : k2_live k1 = k2_live k) by reflexivity.
    assert (Hs1 : k2_sent k1 = zadd (o_tag m) (k2_sent k)) by reflexivity.
    assert (Hr1 : k2_rec k1 = k2_rec k) by reflexivity.
    assert (Hok1 : k2_ok k1 = true).
    { unfold k1, rel_ev. cbn [k02_ev k2_ok]. rewrite Hok, Hd, eqb_reflx.
      replace (o_qos m >? 0) with true by lia. cbn [andb orb].
      destruct p; cbn [negb orb]; [rewrite (Hr eq_refl)|]; reflexivity. }
    clearbody k1.
    destruct (IH k1 Hok1 Hnd') as (H1 & H2 & H3 & H4).
    { intros m' Hin'. destruct (Hgood m' (or_intror Hin')) as (Hr' & Hd' & Hq').
      rewrite Hr1, Hs1. split; [exact Hr'|]. split; [|exact Hq'].
      rewrite zin_zadd. replace (o_tag m' =? o_tag m) with false; [exact Hd'|].
      symmetry. apply Z.eqb_neq. intros E. apply Hx. rewrite <- E. apply (in_map o_tag). exact Hin'. }
    split; [exact H1|]. split; [congruence|]. split; [congruence|].
    intros t. rewrite H4, Hs1. cbn [zin]. rewrite zin_zadd.
    destruct (t =? o_tag m); destruct (zin t (k2_sent k)); reflexivity.
Qed.

Lemma cl_ev_fold p cn m k :
  fold_left (k02_ev p) (cl_ev cn m) k = if isPub m then k02_ev p k (rel_ev cn m) else k.
Proof.
  unfold cl_ev, isPub. destruct (o_st m); try reflexivity. destruct (o_qos m =? 2); reflexivity.
Qed.

Lemma fold_cl p cn : forall C k,
  fold_left (k02_ev p) (flat_map (cl_ev cn) C) k =
  fold_left (k02_ev p) (map (rel_ev cn) (filter isPub C)) k.
Proof.
  induction C as [|m C IH]; intros k; cbn [flat_map filter]; [reflexivity|].
  rewrite fold_left_app, cl_ev_fold, IH. destruct (isPub m); reflexivity.
Qed.

Lemma pubrel_tags_app a b : pubrel_tags (a ++ b) = pubrel_tags a ++ pubrel_tags b.
Proof. unfold pubrel_tags. apply flat_map_app. Qed.

Lemma pubrel_in cn : forall C m, In m C -> isresend m = true -> o_qos m = 2 ->
  zin (o_tag m) (pubrel_tags (flat_map (cl_ev cn) C)) = true.
Proof.
  induction C as [|x C IH]; intros m Hin Hr Hq; [destruct Hin|].
  cbn [flat_map]. rewrite pubrel_tags_app, zin_app. destruct Hin as [->|Hin].
  - unfold cl_ev, isresend in *. destruct (o_st m); try discriminate.
    replace (o_qos m =? 2) with true by lia. cbn. rewrite Z.eqb_refl. reflexivity.
  - rewrite (IH m Hin Hr Hq). apply orb_true_r.
Qed.

(* ---------------------------------------------------------------- the three loops on an invariant state *)
Lemma reset_char c s cl : cfg_ok c = true -> Inv c s ->
  exists A B n, out s = A ++ B /\ Forall (fun m => o_st m = MsPublish \/ o_st m = MsQueued) B /\
    reset_out_list c cl 0 (out s) = (map (reset1 cl) A ++ map toQ B, n).
Proof.
  intros Hcfg I. pose proof (max_nonneg c Hcfg) as Hmax. destruct (inv_shape _ _ I) as (C & U & Q & Sh).
  destruct (reset_out_char c cl Hmax (out s) 0 ltac:(lia)) as (j & Hj & E & Hfull & Hle).
  exists (firstn j (out s)), (skipn j (out s)), (0 + Z.of_nat j).
  split; [symmetry; apply firstn_skipn|]. split; [|exact E].
  destruct (Nat.eq_dec j (length (out s))) as [->|Hne]. { rewrite skipn_all. constructor. }
  assert (Hlt : (j < length (out s))%nat) by lia. destruct (Hfull Hlt) as [Hpos Hge].
  pose proof (sh_max _ _ _ _ _ Sh Hpos) as HC.
  rewrite (sh_out _ _ _ _ _ Sh). rewrite skipn_app. rewrite (skipn_all2 C) by lia. cbn [app].
  apply Forall_skipn. apply Forall_app; split.
  - eapply Forall_impl; [|exact (sh_U _ _ _ _ _ Sh)]. cbn; intros; left; assumption.
  - eapply Forall_impl; [|exact (sh_Q _ _ _ _ _ Sh)]. intros a Ha. right.
    unfold is_queued in Ha. destruct (o_st a); try discriminate; reflexivity.
Qed.

Lemma connack_char c s : Inv c s -> sock s = true ->
  exists C Q, out s = C ++ Q /\ Forall (fun m => is_queued m = false) C /\
    Forall (fun m => is_queued m = true) Q /\
    connack_loop (conn s) (out s) = (map cl1 C ++ Q, flat_map (cl_ev (conn s)) C).
Proof.
  intros I Hs. destruct (inv_shape _ _ I) as (C & U & Q & Sh).
  pose proof Sh as [So Si SC SU SQ Sm Sf Ss Se].
  assert (U = []) by (apply Ss; assumption). subst U. cbn [app] in So.
  exists C, Q. split; [exact So|]. split; [exact SC|]. split; [exact SQ|].
  rewrite So. apply connack_loop_char; assumption.
Qed.

Lemma on_publish_char c s m : cfg_ok c = true -> Inv c s -> sock s = true -> cack s = true ->
  In m (out s) -> is_wait m = true ->
  exists l1 l2 L B n, out s = l1 ++ m :: l2 ++ L ++ B /\ Forall (fun x => is_queued x = true) L /\
    do_on_publish c s m = (with_out s (l1 ++ l2 ++ map rel1 L ++ B) n,
       CbPublish (o_mid m) (o_tag m) :: Published (o_tag m) :: map (rel_ev (conn s)) L).
Proof.
  intros Hcfg I Hs Hck Hin Hw. pose proof (max_nonneg c Hcfg) as Hmax.
  destruct (inv_shape _ _ I) as (C & U & Q & Sh).
  pose proof (wait_in_C _ _ _ _ _ _ Sh Hin Hw) as HinC.
  destruct Sh as [So Si SC SU SQ Sm Sf Ss Se].
  assert (U = []) by (apply Ss; assumption). subst U. cbn [app] in So.
  apply in_split in HinC as (C1 & C2 & ->).
  assert (So' : out s = C1 ++ m :: (C2 ++ Q)) by (rewrite So, <- app_assoc; reflexivity).
  pose proof (inv_nodup _ _ I) as Hnd. rewrite So' in Hnd. destruct (NoDup_mids_remove _ _ _ Hnd) as [_ Hn1].
  assert (Hrm : remove_mid (o_mid m) (out s) = (C1 ++ C2) ++ Q).
  { rewrite So', <- app_assoc. apply remove_mid_split; [assumption|reflexivity]. }
  assert (SC' : Forall (fun x => is_queued x = false) (C1 ++ C2)) by (eapply Forall_remove; exact SC).
  unfold do_on_publish. rewrite Hrm. destruct (c_max c >? 0) eqn:Emax.
  - rewrite (update_inflight_C c (conn s) (C1 ++ C2) Q _ SC').
    assert (Hk : inflight s - 1 <= c_max c).
    { rewrite Si. specialize (Sm ltac:(lia)). rewrite app_length in *. cbn [length] in *. lia. }
    destruct (update_inflight_Q c (conn s) Q _ SQ Hk) as (j & Hj & E & _ & _). rewrite E.
    exists C1, C2, (firstn j Q), (skipn j Q), (inflight s - 1 + Z.of_nat j).
    split; [rewrite firstn_skipn; exact So'|]. split; [apply Forall_firstn; exact SQ|].
    rewrite <- app_assoc. reflexivity.
  - exists C1, C2, [], Q, (inflight s - 1). split; [exact So'|]. split; [constructor|].
    cbn [map app]. rewrite <- app_assoc. reflexivity.
Qed.

(* ---------------------------------------------------------------- preservation: generic moves *)
Definition pers (c : cfg) : bool := negb (c_clean c =? 1).

Lemma R_ext c s s' k : out s' = out s -> ntag s <= ntag s' -> sock s' = sock s -> cack s' = cack s ->
  first s' = first s -> R c s k -> R c s' k.
Proof.
  intros E1 E2 E3 E4 E5 [H1 H2 H3 H4 H5 H6 H7].
  constructor; rewrite ?E1, ?E3, ?E4, ?E5; try assumption.
  intros t Ht. specialize (H4 t Ht). lia.
Qed.

Lemma R_down c s s' k : out s' = out s -> ntag s' = ntag s -> sock s' = false -> cack s' = false ->
  (first s' = true -> first s = true) -> R c s k -> R c s' k.
Proof.
  intros E1 E2 E3 E4 E5 [H1 H2 H3 H4 H5 H6 H7].
  constructor; rewrite ?E1, ?E2; try assumption.
  - intros Hc t Ht. destruct (H5 Hc t Ht) as (m & Hin & Et & Hq & Hr & _).
    exists m. repeat split; try assumption. rewrite E3. discriminate.
  - rewrite E4. discriminate.
  - intros Hc Hf. apply H7; [exact Hc | apply E5; exact Hf].
Qed.

Lemma R_snoc c s s' k k' mn :
  Inv c s -> R c s k ->
  out s' = out s ++ [mn] -> ntag s' = ntag s + 1 -> sock s' = sock s -> cack s' = cack s ->
  first s' = first s -> o_tag mn = ntag s ->
  k2_ok k' = true -> k2_live k' = k2_live k ++ [lm mn] -> k2_rec k' = k2_rec k ->
  (forall t, zin t (k2_sent k') = zin t (k2_sent k) || (snt mn && (t =? ntag s))) ->
  R c s' k'.
Proof.
  intros I HR E1 E2 E3 E4 E5 Et Hok Hl Hr Hs. constructor.
  - exact Hok.
  - rewrite Hl, E1, map_app, (r_live _ _ _ HR). reflexivity.
  - intros m Hin. rewrite E1 in Hin. rewrite Hs. apply in_app_or in Hin as [Hin|[<-|[]]].
    + pose proof (inv_tag_lt _ _ _ I Hin). replace (o_tag m =? ntag s) with false by lia.
      rewrite andb_false_r, orb_false_r. apply (r_sent _ _ _ HR). exact Hin.
    + rewrite Et, (fresh_sent _ _ _ HR), Z.eqb_refl, andb_true_r. reflexivity.
  - intros t Ht. rewrite Hs in Ht. rewrite E2. apply orb_true_iff in Ht as [Ht|Ht].
    + pose proof (r_sentb _ _ _ HR _ Ht). lia.
    + lia.
  - intros Hc t Ht. rewrite Hr in Ht. destruct (r_rec _ _ _ HR Hc t Ht) as (m & Hin & H).
    exists m. rewrite E1, E3, E4. split; [apply in_or_app; left; exact Hin | exact H].
  - rewrite E4, E5. apply (r_first _ _ _ HR).
  - rewrite E5, Hr. apply (r_clean _ _ _ HR).
Qed.

Lemma cfg_clean c : cfg_ok c = true -> c_clean c = 0 \/ c_clean c = 1 \/ c_clean c = 2.
Proof. unfold cfg_ok. lia. Qed.

Lemma pers_true c : pers c = true -> c_clean c <> 1.
Proof. unfold pers. lia. Qed.
Lemma pers_false c : pers c = false -> c_clean c = 1.
Proof. unfold pers. lia. Qed.

(* ---------------------------------------------------------------- publish() *)
Lemma step_publish c s k q : cfg_ok c = true -> Inv c s -> conf_op c s (OPublish q) = true -> R c s k ->
  R c (fst (do_publish c s q)) (k02_op (pers c) k (snd (do_publish c s q))).
Proof.
  intros Hcfg I Hq HR. cbn [conf_op] in Hq. unfold do_publish. cbv zeta.
  set (mid := mid_next (last_mid s)).
  set (s1 := mkS (out s) (inm s) (inflight s) mid (sock s) (first s) (cack s) (conn s) (ntag s + 1)).
  assert (HR1 : R c s1 k) by (apply (R_ext c s); try reflexivity; [cbn; lia | exact HR]).
  destruct (q =? 0) eqn:E0.
  - assert (q = 0) by lia. subst q. destruct (sock s) eqn:Hs; cbn [fst snd].
    + rewrite k02_op_plain by reflexivity. cbn [fold_left k02_ev]. cbn [Z.gtb Z.compare andb orb negb].
      constructor; cbn [k2_ok k2_live k2_sent k2_rec].
      * rewrite (r_ok _ _ _ HR), (fresh_sent _ _ _ HR). cbn [Bool.eqb andb].
        destruct (pers c) eqn:Ep; cbn [negb orb]; [|reflexivity].
        rewrite (fresh_rec _ _ _ I HR (pers_true _ Ep)). reflexivity.
      * rewrite (r_live _ _ _ HR). apply lrem_tag_notin. apply (fresh_notin _ _ I).
      * intros m Hin. cbn [out s1] in Hin. rewrite zin_zadd.
        pose proof (inv_tag_lt _ _ _ I Hin). replace (o_tag m =? ntag s) with false by lia.
        apply (r_sent _ _ _ HR). exact Hin.
      * intros t Ht. rewrite zin_zadd in Ht. cbn [ntag s1]. apply orb_true_iff in Ht as [Ht|Ht]; [lia|].
        pose proof (r_sentb _ _ _ HR _ Ht). lia.
      * intros Hc t Ht. rewrite zin_zrem in Ht. apply andb_true_iff in Ht as [_ Ht].
        exact (r_rec _ _ _ HR1 Hc t Ht).
      * exact (r_first _ _ _ HR1).
      * intros Hc Hf. rewrite (r_clean _ _ _ HR1 Hc Hf). reflexivity.
    + rewrite quiet_op by reflexivity. exact HR1.
  - assert (Hq0 : (q >? 0) = true) by lia.
    destruct ((c_maxq c >? 0) && (Z.of_nat (length (out s)) >=? c_maxq c)); cbn [fst snd].
    { rewrite quiet_op; [exact HR1|]. cbn [forallb quiet]. rewrite Hq0. reflexivity. }
    destruct (has_mid mid (out s)); cbn [fst snd].
    { rewrite quiet_op; [exact HR1|]. cbn [forallb quiet]. rewrite Hq0. reflexivity. }
    destruct (window_free c (inflight s)); [destruct (sock s) eqn:Hs|]; cbn [fst snd].
    + rewrite k02_op_plain by reflexivity. cbn [fold_left k02_ev]. rewrite Hq0. cbn [Z.eqb andb orb negb k2_ok k2_live k2_sent k2_rec].
      eapply (R_snoc c s _ k _ (mkO mid q (wait_of q) false (ntag s)) I HR); try reflexivity; try (cbn; congruence).
      * cbn [k2_ok]. rewrite (r_ok _ _ _ HR), (fresh_sent _ _ _ HR). cbn [Bool.eqb andb].
        destruct (pers c) eqn:Ep; cbn [negb orb]; [|reflexivity].
        rewrite (fresh_rec _ _ _ I HR (pers_true _ Ep)). reflexivity.
      * intros t. cbn [k2_sent]. rewrite zin_zadd.
        replace (snt (mkO mid q (wait_of q) false (ntag s))) with true.
        -- cbn [andb]. apply orb_comm.
        -- unfold snt, is_wait, wait_of. cbn [o_st]. destruct (q =? 1); reflexivity.
    + rewrite k02_op_plain by reflexivity. cbn [fold_left k02_ev]. rewrite Hq0. cbn [Z.eqb andb orb negb k2_ok k2_live k2_sent k2_rec].
      eapply (R_snoc c s _ k _ (mkO mid q MsPublish false (ntag s)) I HR); try reflexivity; try (cbn; congruence).
      * cbn [k2_ok]. exact (r_ok _ _ _ HR).
      * intros t. cbn [k2_sent]. cbn. rewrite orb_false_r. reflexivity.
    + rewrite k02_op_plain by reflexivity. cbn [fold_left k02_ev]. rewrite Hq0. cbn [Z.eqb andb orb negb k2_ok k2_live k2_sent k2_rec].
      eapply (R_snoc c s _ k _ (mkO mid q MsQueued false (ntag s)) I HR); try reflexivity; try (cbn; congruence).
      * cbn [k2_ok]. exact (r_ok _ _ _ HR).
      * intros t. cbn [k2_sent]. cbn. rewrite orb_false_r. reflexivity.
Qed.

(* ---------------------------------------------------------------- reconnect() *)
Lemma R_reset c s k A B i n sk cn :
  cfg_ok c = true -> Inv c s -> R c s k -> out s = A ++ B ->
  Forall (fun m => o_st m = MsPublish \/ o_st m = MsQueued) B ->
  R c (mkS (map (reset1 (clean_now c s)) A ++ map toQ B) i n (last_mid s) sk (first s) false cn (ntag s)) k.
Proof.
  intros Hcfg I HR Eo HB. constructor; cbn [out ntag sock cack first].
  - exact (r_ok _ _ _ HR).
  - rewrite (r_live _ _ _ HR), Eo, !map_app, !map_map. f_equal. apply map_ext; intros a. symmetry. apply lm_reset1.
  - intros m' Hin. apply in_app_or in Hin as [Hin|Hin]; apply in_map_iff in Hin as (x & <- & Hx).
    + assert (Hox : In x (out s)) by (rewrite Eo; apply in_or_app; left; exact Hx).
      rewrite reset1_tag, (snt_reset1 _ _ (inv_qos_ok _ _ _ I Hox)). apply (r_sent _ _ _ HR). exact Hox.
    + assert (Hox : In x (out s)) by (rewrite Eo; apply in_or_app; right; exact Hx).
      change (o_tag (toQ x)) with (o_tag x).
      rewrite (snt_toQ _ (proj1 (Forall_forall _ _) HB x Hx)). apply (r_sent _ _ _ HR). exact Hox.
  - exact (r_sentb _ _ _ HR).
  - intros Hc t Ht. destruct (clean_now c s) eqn:Ecl.
    + unfold clean_now in Ecl. destruct (c_clean c =? 0) eqn:E0; [discriminate|].
      destruct (c_clean c =? 1) eqn:E1; [lia|].
      assert (H2 : c_clean c = 2) by (destruct (cfg_clean c Hcfg) as [?|[?|?]]; lia).
      rewrite (r_clean _ _ _ HR H2 Ecl) in Ht. discriminate.
    + destruct (r_rec _ _ _ HR Hc t Ht) as (m & Hin & Et & Hq & Hr & _).
      rewrite Eo in Hin. apply in_app_or in Hin as [Hin|Hin].
      * destruct (rec_reset1 m Hq Hr) as [H1 H2].
        exists (reset1 false m). split; [apply in_or_app; left; apply in_map; exact Hin|].
        rewrite reset1_tag, reset1_qos. repeat split; intros; assumption.
      * exfalso. apply (rec_nPQ m Hr). exact (proj1 (Forall_forall _ _) HB m Hin).
  - discriminate.
  - exact (r_clean _ _ _ HR).
Qed.

Lemma step_reconnect c s k ok : cfg_ok c = true -> Inv c s -> R c s k ->
  R c (fst (do_reconnect c s ok)) (k02_op (pers c) k (snd (do_reconnect c s ok))).
Proof.
  intros Hcfg I HR. destruct (reset_char c s (clean_now c s) Hcfg I) as (A & B & n & Eo & HB & E).
  unfold do_reconnect. rewrite E. destruct ok; cbn [fst snd]; rewrite quiet_op by reflexivity;
    apply R_reset; assumption.
Qed.

(* ---------------------------------------------------------------- connection lost *)
Lemma step_connlost c s k : R c s k ->
  R c (fst (step c s OConnLost)) (k02_op (pers c) k (snd (step c s OConnLost))).
Proof.
  intros HR. cbn [step]. destruct (sock s) eqn:Hs; cbn [fst snd]; rewrite quiet_op by reflexivity; [|exact HR].
  apply (R_down c s); try reflexivity; [cbn; apply andb_false_r | cbn; tauto | exact HR].
Qed.

(* ---------------------------------------------------------------- the accepting CONNACK *)
Lemma R_connack c s s' k k' C Q :
  Inv c s -> R c s k -> out s = C ++ Q ->
  Forall (fun m => is_queued m = false) C -> Forall (fun m => is_queued m = true) Q ->
  out s' = map cl1 C ++ Q -> ntag s' = ntag s -> cack s' = true -> first s' = false ->
  k2_ok k' = true -> k2_live k' = k2_live k -> k2_rec k' = k2_rec k ->
  (forall t, zin t (k2_sent k') = zin t (k2_sent k) || zin t (tags (filter isPub C))) ->
  R c s' k'.
Proof.
  intros I HR Eo HC HQ Eo' En Ec Ef Hok Hl Hr Hs.
  pose proof (inv_nodup_tags _ _ I) as Hnd.
  assert (HinC : forall x, In x C -> In x (out s)) by (intros; rewrite Eo; apply in_or_app; left; assumption).
  assert (HinQ : forall x, In x Q -> In x (out s)) by (intros; rewrite Eo; apply in_or_app; right; assumption).
  assert (Hf1 : forall x, In x (out s) -> zin (o_tag x) (tags (filter isPub C)) = true -> In x C /\ isPub x = true).
  { intros x Hx Hz. apply zin_tags in Hz as (y & Hy & Et). apply filter_In in Hy as [Hy Hp].
    assert (y = x) by (eapply tag_inj; [exact Hnd|apply HinC; exact Hy|exact Hx|exact Et]). subst. tauto. }
  assert (Hf2 : forall x, In x C -> isPub x = true -> zin (o_tag x) (tags (filter isPub C)) = true).
  { intros x Hx Hp. apply zin_tags. exists x. split; [apply filter_In; tauto | reflexivity]. }
  constructor.
  - exact Hok.
  - rewrite Hl, (r_live _ _ _ HR), Eo, Eo', !map_app, map_map. f_equal. apply map_ext. intros a.
    symmetry. apply lm_cl1.
  - intros m' Hin. rewrite Eo' in Hin. rewrite Hs. apply in_app_or in Hin as [Hin|Hin].
    + apply in_map_iff in Hin as (x & <- & Hx). rewrite cl1_tag. destruct (isPub x) eqn:Ep.
      * rewrite (Hf2 x Hx Ep), orb_true_r. symmetry. apply snt_cl1_pub. exact Ep.
      * rewrite (snt_cl1_other _ Ep), <- (r_sent _ _ _ HR x (HinC x Hx)).
        destruct (zin (o_tag x) (tags (filter isPub C))) eqn:Ez; [|apply orb_false_r].
        destruct (Hf1 x (HinC x Hx) Ez). congruence.
    + rewrite <- (r_sent _ _ _ HR m' (HinQ m' Hin)).
      destruct (zin (o_tag m') (tags (filter isPub C))) eqn:Ez; [|apply orb_false_r].
      destruct (Hf1 m' (HinQ m' Hin) Ez) as [_ Hp].
      pose proof (queued_npub m' (proj1 (Forall_forall _ _) HQ m' Hin)). congruence.
  - intros t Ht. rewrite Hs in Ht. rewrite En. apply orb_true_iff in Ht as [Ht|Ht].
    + exact (r_sentb _ _ _ HR _ Ht).
    + apply zin_tags in Ht as (y & Hy & <-). apply filter_In in Hy as [Hy _].
      apply (inv_tag_lt _ _ _ I (HinC y Hy)).
  - intros Hc t Ht. rewrite Hr in Ht. destruct (r_rec _ _ _ HR Hc t Ht) as (m & Hin & Et & Hq & Hrc & _).
    rewrite Eo in Hin. apply in_app_or in Hin as [Hin|Hin].
    + exists (cl1 m). rewrite Eo', cl1_tag, cl1_qos, Ec.
      split; [apply in_or_app; left; apply in_map; exact Hin|].
      repeat split; try assumption; [apply rec_cl1; exact Hrc | discriminate].
    + exfalso. pose proof (rec_nq m Hrc). pose proof (proj1 (Forall_forall _ _) HQ m Hin). congruence.
  - intros _. exact Ef.
  - rewrite Ef. discriminate.
Qed.

Lemma pub_nrec m : isPub m = true -> isrec m = false.
Proof. mcrush. Qed.
Lemma queued_nrec m : is_queued m = true -> isrec m = false.
Proof. mcrush. Qed.

Lemma step_connack0 c s k rc r : cfg_ok c = true -> Inv c s -> sock s = true -> cack s = false ->
  (rc =? 0) = true -> R c s k ->
  R c (fst (do_rx c s (IConnack rc) r)) (k02_op (pers c) k (snd (do_rx c s (IConnack rc) r))).
Proof.
  intros Hcfg I Hs Hck Erc HR. unfold do_rx. rewrite Hs, Erc. cbn [negb].
  destruct (connack_char c s I Hs) as (C & Q & Eo & HC & HQ & E). rewrite E. cbn [fst snd].
  assert (HinC : forall x, In x C -> In x (out s)) by (intros; rewrite Eo; apply in_or_app; left; assumption).
  assert (HndC : NoDup (tags (filter isPub C))).
  { unfold tags. apply NoDup_map_filter. pose proof (inv_nodup_tags _ _ I) as Hnd.
    rewrite Eo, tags_app in Hnd. apply NoDup_app_l in Hnd. exact Hnd. }
  destruct (fold_pub (pers c) (conn s) (filter isPub C) k (r_ok _ _ _ HR) HndC) as (H1 & H2 & H3 & H4).
  { intros m Hm. apply filter_In in Hm as [Hm Hp]. split; [|split].
    - intros Ep. apply (notrec_msg c s k m I HR (pers_true _ Ep) (HinC m Hm)). apply pub_nrec. exact Hp.
    - rewrite (r_sent _ _ _ HR m (HinC m Hm)). symmetry. apply snt_pub. exact Hp.
    - apply qos_pos. apply (inv_qos_ok _ _ _ I (HinC m Hm)). }
  unfold k02_op. cbn [existsb is_connack0 fold_left k02_ev]. rewrite Erc. cbn [orb]. rewrite andb_true_r.
  rewrite fold_cl.
  set (k' := fold_left (k02_ev (pers c)) (map (rel_ev (conn s)) (filter isPub C)) k) in *.
  destruct (pers c) eqn:Ep.
  - eapply (R_connack c s _ k _ C Q I HR Eo HC HQ); try reflexivity; cbn [k2_ok k2_live k2_sent k2_rec]; try assumption.
    rewrite H1. cbn [andb]. apply forallb_forall. intros t Ht. apply zin_In in Ht.
    destruct (r_rec _ _ _ HR (pers_true _ Ep) t Ht) as (m & Hin & Et & Hq & Hrc & Hrs).
    cbn [pubrel_tags flat_map app]. fold (pubrel_tags (flat_map (cl_ev (conn s)) C)).
    rewrite <- Et. apply pubrel_in; [|apply Hrs; assumption|exact Hq].
    rewrite Eo in Hin. apply in_app_or in Hin as [Hin|Hin]; [exact Hin|].
    exfalso. pose proof (rec_nq m Hrc). pose proof (proj1 (Forall_forall _ _) HQ m Hin). congruence.
  - eapply (R_connack c s _ k _ C Q I HR Eo HC HQ); try reflexivity; try assumption.
Qed.

(* ---------------------------------------------------------------- final acknowledgement (PUBACK / PUBCOMP) *)
Lemma step_final c s k m ip : cfg_ok c = true -> Inv c s -> sock s = true -> cack s = true ->
  In m (out s) -> is_wait m = true -> quiet (Inp ip) = true -> R c s k ->
  R c (fst (do_on_publish c s m)) (k02_op (pers c) k (Inp ip :: snd (do_on_publish c s m))).
Proof.
  intros Hcfg I Hs Hck Hin Hw Hip HR.
  destruct (on_publish_char c s m Hcfg I Hs Hck Hin Hw) as (l1 & l2 & L & B & n & Eo & HL & E).
  rewrite E. cbn [fst snd].
  assert (Hnc : existsb is_connack0 (Inp ip :: CbPublish (o_mid m) (o_tag m) :: Published (o_tag m)
                                       :: map (rel_ev (conn s)) L) = false).
  { cbn [existsb]. rewrite noconn_rel. destruct ip; try reflexivity; discriminate. }
  rewrite k02_op_plain by exact Hnc. cbn [fold_left]. rewrite (quiet_ev _ _ _ Hip). cbn [k02_ev].
  set (k1 := mkK02 (lrem_tag (o_tag m) (k2_live k)) (k2_sent k) (zrem (o_tag m) (k2_rec k)) (k2_ok k)).
  pose proof (inv_nodup_tags _ _ I) as Hnd.
  (* positions *)
  assert (Hi1 : forall x, In x l1 -> In x (out s)) by (intros; rewrite Eo; apply in_or_app; left; assumption).
  assert (Hi2 : forall x, In x l2 -> In x (out s)).
  { intros; rewrite Eo; apply in_or_app; right; right; apply in_or_app; left; assumption. }
  assert (HiL : forall x, In x L -> In x (out s)).
  { intros; rewrite Eo; apply in_or_app; right; right; apply in_or_app; right; apply in_or_app; left; assumption. }
  assert (HiB : forall x, In x B -> In x (out s)).
  { intros; rewrite Eo; apply in_or_app; right; right; apply in_or_app; right; apply in_or_app; right; assumption. }
  pose proof Hnd as Hnd0. rewrite Eo, tags_app in Hnd0.
  pose proof (NoDup_app_r _ _ Hnd0) as Hnd1. cbn [tags map] in Hnd1. fold (tags (l2 ++ L ++ B)) in Hnd1.
  inversion Hnd1 as [|? ? Hm2 Hnd2]; subst. rewrite tags_app in Hnd2.
  pose proof (NoDup_app_r _ _ Hnd2) as Hnd3. rewrite tags_app in Hnd3.
  pose proof (NoDup_app_l _ _ Hnd3) as HndL.
  assert (HLtag : forall x y, In x (out s) -> In y L -> o_tag x = o_tag y -> In x L).
  { intros x y Hx Hy Et. assert (x = y) by (eapply tag_inj; [exact Hnd|exact Hx|apply HiL; exact Hy|exact Et]).
    subst. exact Hy. }
  assert (D1 : forall x, In x l1 -> In x L -> False).
  { intros x H1 H2. apply (NoDup_app_disj _ _ (o_tag x) Hnd0); [apply (in_map o_tag); exact H1|].
    cbn [tags map]. right. unfold tags. rewrite !map_app. apply in_or_app. right. apply in_or_app. left.
    apply (in_map o_tag). exact H2. }
  assert (D2 : forall x, In x l2 -> In x L -> False).
  { intros x H1 H2. apply (NoDup_app_disj _ _ (o_tag x) Hnd2); [apply (in_map o_tag); exact H1|].
    rewrite tags_app. apply in_or_app. left. apply (in_map o_tag). exact H2. }
  assert (D3 : forall x, In x B -> In x L -> False).
  { intros x H1 H2. apply (NoDup_app_disj _ _ (o_tag x) Hnd3); apply (in_map o_tag); assumption. }
  assert (Dm : In m L -> False).
  { intros H. apply Hm2. unfold tags. rewrite !map_app. apply in_or_app. right. apply in_or_app. left.
    apply (in_map o_tag). exact H. }
  assert (HnL : forall x, In x (out s) -> ~ In x L -> zin (o_tag x) (tags L) = false).
  { intros x Hx Hn. destruct (zin (o_tag x) (tags L)) eqn:Ez; [|reflexivity]. exfalso.
    apply zin_tags in Ez as (y & Hy & Et). apply Hn. apply (HLtag x y Hx Hy). symmetry. exact Et. }
  (* the PUBLISH packets released from the queue *)
  destruct (fold_pub (pers c) (conn s) L k1 (r_ok _ _ _ HR) HndL) as (H1 & H2 & H3 & H4).
  { intros x Hx. pose proof (proj1 (Forall_forall _ _) HL x Hx) as Hqx. unfold k1. cbn [k2_rec k2_sent].
    split; [|split].
    - intros Ep. rewrite zin_zrem.
      rewrite (notrec_msg c s k x I HR (pers_true _ Ep) (HiL x Hx) (queued_nrec _ Hqx)). apply andb_false_r.
    - rewrite (r_sent _ _ _ HR x (HiL x Hx)). symmetry. apply snt_queued. exact Hqx.
    - apply qos_pos. apply (inv_qos_ok _ _ _ I (HiL x Hx)). }
  set (k' := fold_left (k02_ev (pers c)) (map (rel_ev (conn s)) L) k1) in *.
  unfold k1 in H2, H3, H4. cbn [k2_live k2_rec k2_sent] in H2, H3, H4.
  constructor; cbn [with_out out ntag sock cack first].
  - exact H1.
  - rewrite H2, (r_live _ _ _ HR), Eo, (lrem_tag_split l1 m (l2 ++ L ++ B)) by (rewrite <- Eo; exact Hnd).
    rewrite !map_app, map_map. reflexivity.
  - intros x Hx. rewrite H4. apply in_app_or in Hx as [Hx|Hx]; [|apply in_app_or in Hx as [Hx|Hx]; [|apply in_app_or in Hx as [Hx|Hx]]].
    + rewrite (HnL x (Hi1 x Hx) (D1 x Hx)), orb_false_r. apply (r_sent _ _ _ HR). apply Hi1. exact Hx.
    + rewrite (HnL x (Hi2 x Hx) (D2 x Hx)), orb_false_r. apply (r_sent _ _ _ HR). apply Hi2. exact Hx.
    + apply in_map_iff in Hx as (y & <- & Hy). rewrite snt_rel1. change (o_tag (rel1 y)) with (o_tag y).
      replace (zin (o_tag y) (tags L)) with true; [apply orb_true_r|].
      symmetry. apply zin_tags. exists y. split; [exact Hy|reflexivity].
    + rewrite (HnL x (HiB x Hx) (D3 x Hx)), orb_false_r. apply (r_sent _ _ _ HR). apply HiB. exact Hx.
  - intros t Ht. rewrite H4 in Ht. apply orb_true_iff in Ht as [Ht|Ht].
    + exact (r_sentb _ _ _ HR _ Ht).
    + apply zin_tags in Ht as (y & Hy & <-). apply (inv_tag_lt _ _ _ I (HiL y Hy)).
  - intros Hc t Ht. rewrite H3, zin_zrem in Ht. apply andb_true_iff in Ht as [Hne Ht].
    destruct (r_rec _ _ _ HR Hc t Ht) as (x & Hx & Et & Hq & Hrc & Hrs).
    exists x. split; [|repeat split; assumption].
    rewrite Eo in Hx. apply in_app_or in Hx as [Hx|[Hx|Hx]].
    * apply in_or_app. left. exact Hx.
    * exfalso. subst x. lia.
    * apply in_or_app. right. apply in_app_or in Hx as [Hx|Hx]; [apply in_or_app; left; exact Hx|].
      apply in_or_app. right. apply in_app_or in Hx as [Hx|Hx]; [|apply in_or_app; right; exact Hx].
      exfalso. pose proof (queued_nrec x (proj1 (Forall_forall _ _) HL x Hx)). congruence.
  - exact (r_first _ _ _ HR).
  - intros Hc Hf. rewrite H3, (r_clean _ _ _ HR Hc Hf). reflexivity.
Qed.

(* ---------------------------------------------------------------- PUBREC *)
Lemma step_pubrec c s k mid r : Inv c s -> sock s = true ->
  conf_op c s (ORx (IPubrec mid) r) = true -> R c s k ->
  R c (fst (do_rx c s (IPubrec mid) r)) (k02_op (pers c) k (snd (do_rx c s (IPubrec mid) r))).
Proof.
  intros I Hs Hconf HR. cbn [conf_op] in Hconf. rewrite Hs in Hconf. cbn [negb] in Hconf.
  unfold do_rx. rewrite Hs. cbn [negb]. unfold has_mid.
  destruct (find_mid mid (out s)) as [m|] eqn:Ef; cbn [fst snd].
  - apply andb_true_iff in Hconf as [Hck Hconf]. apply andb_true_iff in Hconf as [Hq Hst].
    assert (Hw : is_wait m = true) by (unfold is_wait; destruct (o_st m); try reflexivity; discriminate).
    assert (Hq2 : o_qos m = 2) by lia.
    destruct (find_mid_split _ _ _ Ef) as (l1 & l2 & Eo & Hn1 & Hmid).
    rewrite k02_op_plain by reflexivity. cbn [fold_left k02_ev].
    rewrite (r_live _ _ _ HR), lfind_mid_map, Ef. cbn [option_map]. change (l_tag (lm m)) with (o_tag m).
    rewrite <- (r_live _ _ _ HR).
    rewrite Eo, (update_mid_split _ _ l1 m l2 Hn1 Hmid).
    set (m' := set_st m MsWaitPubcomp).
    assert (Hin : In m (out s)) by (rewrite Eo; apply in_or_app; right; left; reflexivity).
    assert (Hsub : forall x, In x (l1 ++ m' :: l2) -> x = m' \/ In x (out s)).
    { intros x Hx. rewrite Eo. apply in_app_or in Hx as [Hx|[Hx|Hx]].
      - right. apply in_or_app. left. exact Hx.
      - left. symmetry. exact Hx.
      - right. apply in_or_app. right. right. exact Hx. }
    assert (Hsup : forall x, In x (out s) -> x = m \/ In x (l1 ++ m' :: l2)).
    { intros x Hx. rewrite Eo in Hx. apply in_app_or in Hx as [Hx|[Hx|Hx]].
      - right. apply in_or_app. left. exact Hx.
      - left. symmetry. exact Hx.
      - right. apply in_or_app. right. right. exact Hx. }
    constructor; cbn [with_out out ntag sock cack first k2_ok k2_live k2_sent k2_rec].
    + exact (r_ok _ _ _ HR).
    + rewrite (r_live _ _ _ HR), Eo, !map_app. reflexivity.
    + intros x Hx. destruct (Hsub x Hx) as [->|Hx'].
      * change (o_tag m') with (o_tag m). rewrite (r_sent _ _ _ HR m Hin). rewrite (snt_wait m Hw). reflexivity.
      * apply (r_sent _ _ _ HR). exact Hx'.
    + exact (r_sentb _ _ _ HR).
    + intros Hc t Ht. rewrite zin_zadd in Ht.
      assert (Hm' : In m' (l1 ++ m' :: l2)) by (apply in_or_app; right; left; reflexivity).
      destruct (t =? o_tag m) eqn:Et.
      * exists m'. split; [exact Hm'|]. repeat split; try assumption; [cbn; lia | congruence].
      * cbn [orb] in Ht. destruct (r_rec _ _ _ HR Hc t Ht) as (x & Hx & Etx & Hqx & Hrc & Hrs).
        destruct (Hsup x Hx) as [->|Hx']; [lia|]. exists x. repeat split; assumption.
    + exact (r_first _ _ _ HR).
    + intros Hc Hf. rewrite (r_first _ _ _ HR Hck) in Hf. discriminate.
  - rewrite k02_op_plain by reflexivity. cbn [fold_left k02_ev].
    rewrite (r_live _ _ _ HR), lfind_mid_map, Ef. cbn [option_map]. exact HR.
Qed.

(* ---------------------------------------------------------------- one operation *)
Lemma with_inm_R c s k i : R c s k -> R c (with_inm s i) k.
Proof. intros HR. apply (R_ext c s); try reflexivity; try (cbn; lia). exact HR. Qed.

Lemma step_R c s k o : cfg_ok c = true -> Inv c s -> conf_op c s o = true -> R c s k ->
  R c (fst (step c s o)) (k02_op (pers c) k (snd (step c s o))).
Proof.
  intros Hcfg I Hconf HR. destruct o as [q|ok| |p r|mid q]; cbn [step].
  - apply step_publish; assumption.
  - apply step_reconnect; assumption.
  - apply step_connlost. exact HR.
  - destruct (sock s) eqn:Hs.
    2:{ unfold do_rx. rewrite Hs. cbn [negb fst snd]. rewrite quiet_op by reflexivity. exact HR. }
    destruct p as [rc|mid|mid|mid|mid|q mid tag].
    + (* CONNACK *)
      cbn [conf_op] in Hconf. rewrite Hs in Hconf. cbn [negb] in Hconf.
      destruct (rc =? 0) eqn:Erc.
      * apply step_connack0; try assumption. destruct (cack s); [discriminate|reflexivity].
      * unfold do_rx. rewrite Hs, Erc. cbn [negb fst snd].
        rewrite k02_op_plain by (cbn [existsb is_connack0]; rewrite Erc; reflexivity).
        cbn [fold_left k02_ev].
        apply (R_down c s); try reflexivity; [cbn; discriminate | exact HR].
    + (* PUBACK *)
      unfold do_rx. rewrite Hs. cbn [negb]. cbn [conf_op] in Hconf. rewrite Hs in Hconf. cbn [negb] in Hconf.
      destruct (find_mid mid (out s)) as [m|] eqn:Ef.
      * apply andb_true_iff in Hconf as [Hck Hconf]. apply andb_true_iff in Hconf as [Hq Hst].
        pose proof (find_mid_In _ _ _ Ef) as [Hin Hmid].
        assert (Hw : is_wait m = true) by (unfold is_wait; destruct (o_st m); try reflexivity; discriminate).
        pose proof (step_final c s k m (IPuback mid) Hcfg I Hs Hck Hin Hw eq_refl HR) as H.
        destruct (do_on_publish c s m) as [s' ev]. exact H.
      * cbn [fst snd]. rewrite quiet_op by reflexivity. exact HR.
    + apply step_pubrec; assumption.
    + (* PUBCOMP *)
      unfold do_rx. rewrite Hs. cbn [negb]. cbn [conf_op] in Hconf. rewrite Hs in Hconf. cbn [negb] in Hconf.
      destruct (find_mid mid (out s)) as [m|] eqn:Ef.
      * apply andb_true_iff in Hconf as [Hck Hconf]. apply andb_true_iff in Hconf as [Hq Hst].
        pose proof (find_mid_In _ _ _ Ef) as [Hin Hmid].
        assert (Hw : is_wait m = true) by (unfold is_wait; destruct (o_st m); try reflexivity; discriminate).
        pose proof (step_final c s k m (IPubcomp mid) Hcfg I Hs Hck Hin Hw eq_refl HR) as H.
        destruct (do_on_publish c s m) as [s' ev]. exact H.
      * cbn [fst snd]. rewrite quiet_op by reflexivity. exact HR.
    + (* PUBREL *)
      unfold do_rx, deliver. rewrite Hs. cbn [negb].
      destruct (in_find mid (inm s)) as [tag|].
      * destruct (r && negb (c_suppress c)); [|destruct (c_manual c)]; cbn [fst snd app];
          rewrite quiet_op by reflexivity; apply with_inm_R; exact HR.
      * destruct (c_manual c); cbn [fst snd]; rewrite quiet_op by reflexivity; exact HR.
    + (* PUBLISH *)
      unfold do_rx, deliver. rewrite Hs. cbn [negb].
      destruct (q =? 0); [|destruct (q =? 1)].
      * destruct (r && negb (c_suppress c)); cbn [fst snd]; rewrite quiet_op by reflexivity; exact HR.
      * destruct (r && negb (c_suppress c)); [|destruct (c_manual c)]; cbn [fst snd app];
          rewrite quiet_op by reflexivity; exact HR.
      * cbn [fst snd]. rewrite quiet_op by reflexivity. apply with_inm_R. exact HR.
  - unfold do_ack. destruct (c_manual c && sock s); [destruct (q =? 1); [|destruct (q =? 2)]|];
      cbn [fst snd]; rewrite quiet_op by reflexivity; exact HR.
Qed.

(* ---------------------------------------------------------------- whole histories *)
Lemma run_R c : cfg_ok c = true -> forall ops s k, Inv c s -> R c s k -> conforming_from c s ops = true ->
  k2_ok (fold_left (k02_op (pers c)) (map snd (run_steps c s ops)) k) = true.
Proof.
  intros Hcfg. induction ops as [|o ops IH]; intros s k I HR Hc; cbn [run_steps map fold_left conforming_from] in *.
  - exact (r_ok _ _ _ HR).
  - apply andb_true_iff in Hc as [Hc1 Hc2].
    pose proof (step_R c s k o Hcfg I Hc1 HR) as HR'. pose proof (inv_step c Hcfg s o I Hc1) as I'.
    destruct (step c s o) as [s' ev]. cbn [fst snd map fold_left] in *.
    apply (IH s'); assumption.
Qed.

Lemma R_init c : R c (init c) k02_init.
Proof.
  constructor; cbn; try reflexivity; try discriminate; try (intros m []).
Qed.

Theorem c02_proved : C02_stmt.
Proof.
  intros c ops Hcfg Hconf. unfold c02_ok, optrace.
  apply (run_R c Hcfg ops (init c) k02_init (inv_init c) (R_init c) Hconf).
Qed.

Print Assumptions c02_proved.
