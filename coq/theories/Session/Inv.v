(* The structural invariant of the Session model and its preservation by every operation
   of a protocol-conforming history. *)
From PahoV Require Import Base.Prelude Codec.Mid Codec.MidProofs Session.Model Session.Lemmas.
From Coq Require Import Sorting.Sorted.

Definition qos_okb (m : omsg) : bool :=
  if o_qos m =? 1 then
    match o_st m with MsPublish | MsWaitPuback | MsQueued => true | _ => false end
  else (o_qos m =? 2) && match o_st m with MsWaitPuback => false | _ => true end.

(* out = C ++ U ++ Q : C counted in _inflight_messages (in the window), U stored while offline
   (state publish, not counted), Q queued behind the window *)
Record shape (c : cfg) (s : sess) (C U Q : list omsg) : Prop := mkShape {
  sh_out : out s = C ++ U ++ Q;
  sh_infl : inflight s = Z.of_nat (length C);
  sh_C : Forall (fun m => is_queued m = false) C;
  sh_U : Forall (fun m => o_st m = MsPublish) U;
  sh_Q : Forall (fun m => is_queued m = true) Q;
  sh_max : 0 < c_max c -> Z.of_nat (length C) <= c_max c;
  sh_full : Q <> [] -> 0 < c_max c /\ Z.of_nat (length C) = c_max c;
  sh_sockU : sock s = true -> U = [];
  sh_est : cack s = true -> Forall (fun m => is_wait m = true) C
}.

Record Inv (c : cfg) (s : sess) : Prop := mkInv {
  inv_shape : exists C U Q, shape c s C U Q;
  inv_nodup : NoDup (mids (out s));
  inv_sorted : StronglySorted Z.lt (tags (out s));
  inv_tags : Forall (fun m => 0 <= o_tag m < ntag s) (out s);
  inv_qos : Forall (fun m => qos_okb m = true) (out s);
  inv_cack : cack s = true -> sock s = true;
  inv_lastmid : 0 <= last_mid s <= 65535;
  inv_ntag : 0 <= ntag s
}.

(* ---------------------------------------------------------------- generic list facts *)
Lemma Forall_firstn {A} (P : A -> Prop) n l : Forall P l -> Forall P (firstn n l).
Proof. intros H. rewrite <- (firstn_skipn n l) in H. apply Forall_app in H. tauto. Qed.
Lemma Forall_skipn {A} (P : A -> Prop) n l : Forall P l -> Forall P (skipn n l).
Proof. intros H. rewrite <- (firstn_skipn n l) in H. apply Forall_app in H. tauto. Qed.

Lemma SSorted_remove (l1 : list Z) x l2 :
  StronglySorted Z.lt (l1 ++ x :: l2) -> StronglySorted Z.lt (l1 ++ l2).
Proof.
  induction l1 as [|y l1 IH]; cbn [app]; intros H.
  - inversion H; assumption.
  - inversion H as [|? ? Hs Hf]; subst. constructor; [apply IH; assumption|].
    apply Forall_app in Hf as [Hf1 Hf2]. inversion Hf2; subst. apply Forall_app. split; assumption.
Qed.

Lemma SSorted_snoc (l : list Z) x :
  StronglySorted Z.lt l -> Forall (fun y => y < x) l -> StronglySorted Z.lt (l ++ [x]).
Proof.
  induction l as [|y l IH]; cbn [app]; intros Hs Hf.
  - constructor; constructor.
  - inversion Hs; subst. inversion Hf; subst. constructor; [apply IH; assumption|].
    apply Forall_app. split; [assumption | constructor; [assumption|constructor]].
Qed.

Lemma NoDup_app_snoc (l : list Z) x : NoDup l -> ~ In x l -> NoDup (l ++ [x]).
Proof.
  intros Hn Hx. apply NoDup_rev in Hn. rewrite <- (rev_involutive (l ++ [x])).
  apply NoDup_rev. rewrite rev_app_distr. cbn. constructor; [|assumption].
  intros H. apply Hx. apply in_rev. assumption.
Qed.

Lemma mids_app l1 l2 : mids (l1 ++ l2) = mids l1 ++ mids l2.
Proof. apply map_app. Qed.
Lemma tags_app l1 l2 : tags (l1 ++ l2) = tags l1 ++ tags l2.
Proof. apply map_app. Qed.

Lemma map_ext_mid (f : omsg -> omsg) l : (forall m, o_mid (f m) = o_mid m) -> mids (map f l) = mids l.
Proof. intros H. unfold mids. rewrite map_map. apply map_ext. exact H. Qed.
Lemma map_ext_tag (f : omsg -> omsg) l : (forall m, o_tag (f m) = o_tag m) -> tags (map f l) = tags l.
Proof. intros H. unfold tags. rewrite map_map. apply map_ext. exact H. Qed.

Lemma Forall_map_iff {A B} (f : A -> B) (P : B -> Prop) l : Forall P (map f l) <-> Forall (fun x => P (f x)) l.
Proof. apply Forall_map. Qed.

Lemma NoDup_mids_remove l1 m l2 : NoDup (mids (l1 ++ m :: l2)) ->
  NoDup (mids (l1 ++ l2)) /\ ~ In (o_mid m) (mids l1).
Proof.
  unfold mids. rewrite !map_app. cbn [map]. intros H. split.
  - eapply NoDup_remove_1; exact H.
  - apply NoDup_remove_2 in H. intros H1. apply H. apply in_or_app. left. exact H1.
Qed.
Lemma SSorted_tags_remove l1 m l2 : StronglySorted Z.lt (tags (l1 ++ m :: l2)) ->
  StronglySorted Z.lt (tags (l1 ++ l2)).
Proof. unfold tags. rewrite !map_app. cbn [map]. apply SSorted_remove. Qed.
Lemma Forall_remove {A} (P : A -> Prop) l1 x l2 : Forall P (l1 ++ x :: l2) -> Forall P (l1 ++ l2).
Proof. intros H. apply Forall_app in H as [H1 H2]. inversion H2; subst. apply Forall_app. split; assumption. Qed.

(* ---------------------------------------------------------------- per-message facts *)
Lemma toQ_mid m : o_mid (toQ m) = o_mid m. Proof. reflexivity. Qed.
Lemma toQ_tag m : o_tag (toQ m) = o_tag m. Proof. reflexivity. Qed.
Lemma cl1_mid m : o_mid (cl1 m) = o_mid m.
Proof. unfold cl1. destruct (o_st m); try reflexivity. destruct (o_qos m =? 2); reflexivity. Qed.
Lemma cl1_tag m : o_tag (cl1 m) = o_tag m.
Proof. unfold cl1. destruct (o_st m); try reflexivity. destruct (o_qos m =? 2); reflexivity. Qed.
Lemma rel1_mid m : o_mid (rel1 m) = o_mid m. Proof. reflexivity. Qed.
Lemma rel1_tag m : o_tag (rel1 m) = o_tag m. Proof. reflexivity. Qed.

Ltac msg_crush :=
  let mid := fresh "mid" in let q := fresh "q" in let st := fresh "st" in
  let d := fresh "d" in let t := fresh "t" in
  match goal with m : omsg |- _ => destruct m as [mid q st d t] end;
  unfold qos_okb, reset1, toQ, cl1, rel1, wait_of, is_queued, is_wait, set_st, set_st_dup in *; cbn in *;
  destruct (q =? 1) eqn:?; destruct (q =? 2) eqn:?; destruct st; cbn in *;
  repeat match goal with H : (_ =? _) = _ |- _ => rewrite H in * end; cbn in *;
  intros; try reflexivity; try discriminate; try lia.

Lemma qos_ok_reset1 cl m : qos_okb m = true -> qos_okb (reset1 cl m) = true.
Proof. destruct cl; msg_crush. Qed.
Lemma qos_ok_toQ m : qos_okb m = true -> qos_okb (toQ m) = true.
Proof. msg_crush. Qed.
Lemma qos_ok_cl1 m : qos_okb m = true -> qos_okb (cl1 m) = true.
Proof. msg_crush. Qed.
Lemma qos_ok_rel1 m : qos_okb m = true -> qos_okb (rel1 m) = true.
Proof. msg_crush. Qed.
Lemma cl1_nq m : is_queued m = false -> is_queued (cl1 m) = false.
Proof. msg_crush. Qed.
Lemma cl1_wait m : qos_okb m = true -> is_queued m = false -> is_wait (cl1 m) = true.
Proof. msg_crush. Qed.
Lemma rel1_wait m : is_wait (rel1 m) = true.
Proof. msg_crush. Qed.
Lemma wait_nq m : is_wait m = true -> is_queued m = false.
Proof. msg_crush. Qed.

(* a message in a wait state lies in the counted part *)
Lemma wait_in_C c s C U Q m : shape c s C U Q -> In m (out s) -> is_wait m = true -> In m C.
Proof.
  intros Sh Hin Hw. rewrite (sh_out _ _ _ _ _ Sh) in Hin.
  apply in_app_or in Hin as [H|H]; [assumption|]. exfalso.
  apply in_app_or in H as [H|H].
  - pose proof (proj1 (Forall_forall _ _) (sh_U _ _ _ _ _ Sh) m H) as E. unfold is_wait in Hw. rewrite E in Hw. discriminate.
  - pose proof (proj1 (Forall_forall _ _) (sh_Q _ _ _ _ _ Sh) m H) as E. apply wait_nq in Hw. congruence.
Qed.

Lemma window_free_Q_nil c s C U Q : 0 <= c_max c -> shape c s C U Q ->
  window_free c (inflight s) = true -> Q = [].
Proof.
  intros Hc Sh W. destruct Q as [|q Q]; [reflexivity|]. exfalso.
  destruct (sh_full _ _ _ _ _ Sh ltac:(discriminate)) as [H1 H2].
  unfold window_free in W. rewrite (sh_infl _ _ _ _ _ Sh) in W. lia.
Qed.

Lemma notfree_full c s C U Q : 0 <= c_max c -> shape c s C U Q ->
  window_free c (inflight s) = false -> 0 < c_max c /\ Z.of_nat (length C) = c_max c.
Proof.
  intros Hc Sh W. unfold window_free in W. rewrite (sh_infl _ _ _ _ _ Sh) in W.
  assert (0 < c_max c) by lia. split; [assumption|]. pose proof (sh_max _ _ _ _ _ Sh H). lia.
Qed.

(* ---------------------------------------------------------------- preservation, op by op *)
Section Preserve.
Variable c : cfg.
Hypothesis Hcfg : cfg_ok c = true.

Lemma max_nonneg : 0 <= c_max c.
Proof. unfold cfg_ok in Hcfg. lia. Qed.

Lemma inv_init : Inv c (init c).
Proof.
  constructor; cbn; try constructor; try lia; try discriminate.
  exists [], [], []. constructor; cbn; try constructor; try lia; try discriminate; try reflexivity.
  all: exfalso; apply H; reflexivity.
Qed.

Lemma inv_publish s q : Inv c s -> conf_op c s (OPublish q) = true -> Inv c (fst (do_publish c s q)).
Proof.
  intros I Hq. cbn [conf_op] in Hq. destruct I as [[C [U [Q Sh]]] Hnd Hso Htg Hqo Hca Hlm Hnt].
  pose proof max_nonneg as Hmax.
  pose proof (mid_next_range (last_mid s) Hlm) as Hmid.
  assert (Htg' : Forall (fun m => 0 <= o_tag m < ntag s + 1) (out s)).
  { eapply Forall_impl; [|exact Htg]. cbn. intros; lia. }
  (* the cases that only advance last_mid / ntag *)
  assert (Hsame : Inv c (mkS (out s) (inm s) (inflight s) (mid_next (last_mid s)) (sock s) (first s) (cack s) (conn s) (ntag s + 1))).
  { constructor; cbn; try assumption; try lia.
    exists C, U, Q. destruct Sh. constructor; cbn in *; assumption. }
  unfold do_publish. destruct (q =? 0) eqn:Eq0.
  { destruct (sock s); cbn [fst]; exact Hsame. }
  destruct ((c_maxq c >? 0) && (Z.of_nat (length (out s)) >=? c_maxq c)); [cbn [fst]; exact Hsame|].
  destruct (has_mid (mid_next (last_mid s)) (out s)) eqn:Hhas; [cbn [fst]; exact Hsame|].
  assert (Hfresh : ~ In (mid_next (last_mid s)) (mids (out s))).
  { intros H. apply has_mid_true in H. congruence. }
  assert (Hqok : forall st, (st = wait_of q \/ st = MsPublish \/ st = MsQueued) ->
                 qos_okb (mkO (mid_next (last_mid s)) q st false (ntag s)) = true).
  { intros st Hst. unfold qos_okb, wait_of in *. cbn. destruct (q =? 1) eqn:E1.
    - destruct Hst as [-> | [-> | ->]]; reflexivity.
    - assert (q = 2) by lia. subst q. destruct Hst as [-> | [-> | ->]]; reflexivity. }
  (* common obligations for out s ++ [new] *)
  assert (Hcommon : forall st infl', (st = wait_of q \/ st = MsPublish \/ st = MsQueued) ->
            (exists C' U' Q', shape c (with_out (mkS (out s) (inm s) (inflight s) (mid_next (last_mid s)) (sock s) (first s) (cack s) (conn s) (ntag s + 1))
                                              (out s ++ [mkO (mid_next (last_mid s)) q st false (ntag s)]) infl') C' U' Q') ->
            Inv c (with_out (mkS (out s) (inm s) (inflight s) (mid_next (last_mid s)) (sock s) (first s) (cack s) (conn s) (ntag s + 1))
                            (out s ++ [mkO (mid_next (last_mid s)) q st false (ntag s)]) infl')).
  { intros st infl' Hst Hsh. constructor; cbn; try assumption; try lia.
    - rewrite mids_app. cbn. apply NoDup_app_snoc; [exact Hnd | exact Hfresh].
    - rewrite tags_app. cbn. apply SSorted_snoc; [assumption|].
      unfold tags. apply Forall_map. eapply Forall_impl; [|exact Htg]. cbn. intros; lia.
    - apply Forall_app. split; [assumption|]. constructor; [cbn; lia|constructor].
    - apply Forall_app. split; [assumption|]. constructor; [apply Hqok; assumption|constructor]. }
  destruct (window_free c (inflight s)) eqn:W.
  - assert (Q = []) by (eapply window_free_Q_nil; eassumption). subst Q.
    destruct (sock s) eqn:Hs; cbn [fst].
    + assert (U = []) by (apply (sh_sockU _ _ _ _ _ Sh); assumption). subst U.
      apply Hcommon; [left; reflexivity|].
      exists (C ++ [mkO (mid_next (last_mid s)) q (wait_of q) false (ntag s)]), [], [].
      destruct Sh as [So Si SC SU SQ Sm Sf Ss Se]. cbn in *. rewrite app_nil_r in So.
      constructor; cbn; rewrite ?app_nil_r.
      * rewrite So. reflexivity.
      * rewrite app_length. cbn. lia.
      * apply Forall_app. split; [assumption|]. constructor; [|constructor].
        unfold is_queued, wait_of. cbn. destruct (q =? 1); reflexivity.
      * constructor.
      * constructor.
      * intros H. rewrite app_length. cbn. unfold window_free in W. rewrite Si in W. lia.
      * intros H; contradiction.
      * reflexivity.
      * intros H. apply Forall_app. split; [apply Se; assumption|]. constructor; [|constructor].
        unfold is_wait, wait_of. cbn. destruct (q =? 1); reflexivity.
    + apply Hcommon; [right; left; reflexivity|].
      exists C, (U ++ [mkO (mid_next (last_mid s)) q MsPublish false (ntag s)]), [].
      destruct Sh as [So Si SC SU SQ Sm Sf Ss Se]. cbn in *.
      constructor; cbn; rewrite ?app_nil_r in *; try assumption.
      * rewrite So. rewrite app_assoc. reflexivity.
      * apply Forall_app. split; [assumption|]. constructor; [reflexivity|constructor].
      * discriminate.
  - cbn [fst]. apply Hcommon; [right; right; reflexivity|].
    destruct (notfree_full _ _ _ _ _ Hmax Sh W) as [Hpos Hfull].
    exists C, U, (Q ++ [mkO (mid_next (last_mid s)) q MsQueued false (ntag s)]).
    destruct Sh as [So Si SC SU SQ Sm Sf Ss Se]. cbn in *.
    constructor; cbn; try assumption.
    + rewrite So. rewrite <- !app_assoc. reflexivity.
    + apply Forall_app. split; [assumption|]. constructor; [reflexivity|constructor].
    + intros _. split; assumption.
Qed.


Lemma inv_reconnect s ok : Inv c s -> Inv c (fst (do_reconnect c s ok)).
Proof.
  intros I. destruct I as [[C [U [Q Sh]]] Hnd Hso Htg Hqo Hca Hlm Hnt].
  pose proof max_nonneg as Hmax.
  unfold do_reconnect.
  destruct (reset_out_char c (clean_now c s) Hmax (out s) 0 ltac:(lia)) as (j & Hj & E & Hfull & Hle).
  rewrite E. clear E.
  set (o' := map (reset1 (clean_now c s)) (firstn j (out s)) ++ map toQ (skipn j (out s))).
  assert (Hm : mids o' = mids (out s)).
  { unfold o'. rewrite mids_app, !map_ext_mid by (intros; auto using reset1_mid, toQ_mid).
    rewrite <- mids_app, firstn_skipn. reflexivity. }
  assert (Ht : tags o' = tags (out s)).
  { unfold o'. rewrite tags_app, !map_ext_tag by (intros; auto using reset1_tag, toQ_tag).
    rewrite <- tags_app, firstn_skipn. reflexivity. }
  assert (Htg' : Forall (fun m => 0 <= o_tag m < ntag s) o').
  { unfold o'. apply Forall_app. split; apply Forall_map.
    - eapply Forall_impl; [|apply Forall_firstn; exact Htg]. cbn. intros a. rewrite reset1_tag. auto.
    - eapply Forall_impl; [|apply Forall_skipn; exact Htg]. cbn. auto. }
  assert (Hqo' : Forall (fun m => qos_okb m = true) o').
  { unfold o'. apply Forall_app. split; apply Forall_map.
    - eapply Forall_impl; [|apply Forall_firstn; exact Hqo]. cbn. intros a. apply qos_ok_reset1.
    - eapply Forall_impl; [|apply Forall_skipn; exact Hqo]. cbn. intros a. apply qos_ok_toQ. }
  assert (Hlen : length (map (reset1 (clean_now c s)) (firstn j (out s))) = j).
  { rewrite map_length, firstn_length. lia. }
  assert (Hsh : forall sk fk cn it,
     exists C' U' Q', shape c (mkS o' it (0 + Z.of_nat j) (last_mid s) sk fk false cn (ntag s)) C' U' Q').
  { intros. exists (map (reset1 (clean_now c s)) (firstn j (out s))), [], (map toQ (skipn j (out s))).
    constructor; cbn.
    - reflexivity.
    - rewrite Hlen. lia.
    - apply Forall_map. apply Forall_forall. intros; apply reset1_nq.
    - constructor.
    - apply Forall_map. apply Forall_forall. intros; reflexivity.
    - intros H. rewrite Hlen. specialize (Hle H). lia.
    - intros H. rewrite Hlen.
      assert (j < length (out s))%nat.
      { destruct (Nat.eq_dec j (length (out s))) as [->|]; [|lia].
        rewrite skipn_all in H. exfalso. apply H. reflexivity. }
      destruct (Hfull H0). specialize (Hle H1). lia.
    - reflexivity.
    - discriminate. }
  destruct ok; cbn [fst]; constructor; cbn -[mids tags]; rewrite ?Hm, ?Ht; try assumption; try discriminate; try lia; apply Hsh.
Qed.

Lemma shape_sock_false s C U Q fk :
  shape c s C U Q ->
  shape c (mkS (out s) (inm s) (inflight s) (last_mid s) false fk false (conn s) (ntag s)) C U Q.
Proof.
  intros [So Si SC SU SQ Sm Sf Ss Se]. constructor; cbn; try assumption; discriminate.
Qed.

Lemma inv_connlost s : Inv c s -> Inv c (fst (step c s OConnLost)).
Proof.
  intros I. cbn [step]. destruct (sock s) eqn:Hs; cbn [fst]; [|assumption].
  destruct I as [[C [U [Q Sh]]] Hnd Hso Htg Hqo Hca Hlm Hnt].
  unfold with_sock. rewrite andb_false_r.
  constructor; cbn; try assumption; try discriminate.
  exists C, U, Q. apply shape_sock_false. assumption.
Qed.

(* removing the acknowledged message and refilling the window *)
Lemma inv_on_publish s m : Inv c s -> sock s = true -> cack s = true ->
  In m (out s) -> is_wait m = true -> Inv c (fst (do_on_publish c s m)).
Proof.
  intros I Hs Hck Hin Hw. destruct I as [[C [U [Q Sh]]] Hnd Hso Htg Hqo Hca Hlm Hnt].
  pose proof max_nonneg as Hmax.
  pose proof (wait_in_C _ _ _ _ _ _ Sh Hin Hw) as HinC.
  destruct Sh as [So Si SC SU SQ Sm Sf Ss Se].
  assert (U = []) by (apply Ss; assumption). subst U. cbn [app] in So.
  apply in_split in HinC as (C1 & C2 & ->).
  assert (So' : out s = C1 ++ m :: (C2 ++ Q)).
  { rewrite So. rewrite <- app_assoc. reflexivity. }
  assert (Has : C1 ++ C2 ++ Q = (C1 ++ C2) ++ Q) by apply app_assoc.
  rewrite So' in Hnd. destruct (NoDup_mids_remove _ _ _ Hnd) as [Hnd' Hn1]. rewrite Has in Hnd'.
  assert (Hrm : remove_mid (o_mid m) (out s) = (C1 ++ C2) ++ Q).
  { rewrite So', <- Has. apply remove_mid_split; [assumption|reflexivity]. }
  assert (Hlen : Z.of_nat (length (C1 ++ m :: C2)) = Z.of_nat (length (C1 ++ C2)) + 1).
  { rewrite !app_length. cbn [length]. lia. }
  assert (SC' : Forall (fun x => is_queued x = false) (C1 ++ C2)) by (eapply Forall_remove; exact SC).
  assert (Se' : Forall (fun x => is_wait x = true) (C1 ++ C2)) by (eapply Forall_remove; exact (Se Hck)).
  assert (Hso' : StronglySorted Z.lt (tags ((C1 ++ C2) ++ Q))).
  { rewrite So' in Hso. apply SSorted_tags_remove in Hso. rewrite Has in Hso. exact Hso. }
  assert (Hsub : forall (P : omsg -> Prop), Forall P (out s) -> Forall P ((C1 ++ C2) ++ Q)).
  { intros P H. rewrite So' in H. apply Forall_remove in H. rewrite Has in H. exact H. }
  unfold do_on_publish. rewrite Hrm. rewrite Si, Hlen.
  replace (Z.of_nat (length (C1 ++ C2)) + 1 - 1) with (Z.of_nat (length (C1 ++ C2))) by lia.
  destruct (c_max c >? 0) eqn:Emax.
  - rewrite (update_inflight_C c (conn s) (C1 ++ C2) Q _ SC').
    assert (Hk : Z.of_nat (length (C1 ++ C2)) <= c_max c).
    { specialize (Sm ltac:(lia)). lia. }
    destruct (update_inflight_Q c (conn s) Q _ SQ Hk) as (j & Hj & E & Hle & Hfull).
    rewrite E. cbn [fst].
    set (o' := (C1 ++ C2) ++ map rel1 (firstn j Q) ++ skipn j Q).
    assert (Hm : mids o' = mids ((C1 ++ C2) ++ Q)).
    { unfold o'. rewrite !mids_app. rewrite map_ext_mid by (intros; apply rel1_mid).
      rewrite <- (mids_app (firstn j Q)), firstn_skipn. reflexivity. }
    assert (Ht : tags o' = tags ((C1 ++ C2) ++ Q)).
    { unfold o'. rewrite !tags_app. rewrite map_ext_tag by (intros; apply rel1_tag).
      rewrite <- (tags_app (firstn j Q)), firstn_skipn. reflexivity. }
    constructor; cbn -[mids tags]; rewrite ?Hm, ?Ht; try assumption.
    + exists ((C1 ++ C2) ++ map rel1 (firstn j Q)), [], (skipn j Q).
      constructor; cbn.
      * unfold o'. rewrite <- !app_assoc. reflexivity.
      * rewrite (app_length (C1 ++ C2)), map_length, firstn_length. lia.
      * apply Forall_app. split; [assumption|]. apply Forall_map. apply Forall_forall. intros x _.
        apply wait_nq. apply rel1_wait.
      * constructor.
      * apply Forall_skipn. assumption.
      * intros _. rewrite (app_length (C1 ++ C2)), map_length, firstn_length. lia.
      * intros H. split; [lia|]. rewrite (app_length (C1 ++ C2)), map_length, firstn_length.
        assert (j < length Q)%nat.
        { destruct (Nat.eq_dec j (length Q)) as [->|]; [|lia]. rewrite skipn_all in H. exfalso; apply H; reflexivity. }
        specialize (Hfull H0). lia.
      * reflexivity.
      * intros _. apply Forall_app. split; [assumption|]. apply Forall_map. apply Forall_forall. intros x _. apply rel1_wait.
    + unfold o'. pose proof (Hsub _ Htg) as H. apply Forall_app in H as [H1 H2].
      apply Forall_app. split; [exact H1|]. apply Forall_app. split.
      * apply Forall_map. apply Forall_firstn. exact H2.
      * apply Forall_skipn. exact H2.
    + unfold o'. pose proof (Hsub _ Hqo) as H. apply Forall_app in H as [H1 H2].
      apply Forall_app. split; [exact H1|]. apply Forall_app. split.
      * apply Forall_map. eapply Forall_impl; [|apply Forall_firstn; exact H2]. cbn. intros a. apply qos_ok_rel1.
      * apply Forall_skipn. exact H2.
  - cbn [fst].
    assert (Q = []).
    { destruct Q; [reflexivity|]. destruct (Sf ltac:(discriminate)). lia. }
    subst Q. rewrite app_nil_r in *.
    constructor; cbn; try assumption.
    + exists (C1 ++ C2), [], []. constructor; cbn; rewrite ?app_nil_r; try assumption; try reflexivity;
        try (intros Hx; exfalso; apply Hx; reflexivity); try (intros _; assumption); try lia; constructor.
    + apply (Hsub _ Htg).
    + apply (Hsub _ Hqo).
Qed.


Lemma inv_with_inm s i : Inv c s -> Inv c (with_inm s i).
Proof.
  intros [[C [U [Q [So Si SC SU SQ Sm Sf Ss Se]]]] Hnd Hso Htg Hqo Hca Hlm Hnt].
  constructor; cbn; try assumption. exists C, U, Q. constructor; cbn; assumption.
Qed.

Lemma inv_rx s p r : Inv c s -> conf_op c s (ORx p r) = true -> Inv c (fst (do_rx c s p r)).
Proof.
  intros I Hconf. cbn [conf_op] in Hconf. unfold do_rx.
  destruct (sock s) eqn:Hs; cbn [negb] in *; [|cbn [fst]; exact I].
  destruct p as [rc|mid|mid|mid|mid|q mid tag].
  - (* CONNACK *)
    destruct I as [[C [U [Q Sh]]] Hnd Hso Htg Hqo Hca Hlm Hnt].
    destruct (rc =? 0) eqn:Erc.
    + pose proof Sh as [So Si SC SU SQ Sm Sf Ss Se].
      assert (U = []) by (apply Ss; assumption). subst U. cbn [app] in So.
      rewrite So, (connack_loop_char (conn s) C Q SC SQ). cbn [fst].
      assert (Hm : mids (map cl1 C ++ Q) = mids (C ++ Q)).
      { rewrite !mids_app. rewrite map_ext_mid by apply cl1_mid. reflexivity. }
      assert (Ht : tags (map cl1 C ++ Q) = tags (C ++ Q)).
      { rewrite !tags_app. rewrite map_ext_tag by apply cl1_tag. reflexivity. }
      rewrite So in Hnd, Hso, Htg, Hqo. apply Forall_app in Htg as [Htg1 Htg2]. apply Forall_app in Hqo as [Hqo1 Hqo2].
      constructor; cbn -[mids tags]; rewrite ?Hm, ?Ht; try assumption; try (intros _; assumption).
      * exists (map cl1 C), [], Q. constructor; cbn; try assumption; try reflexivity.
        -- rewrite map_length. assumption.
        -- apply Forall_map. eapply Forall_impl; [|exact SC]. cbn. intros a. apply cl1_nq.
        -- rewrite map_length. assumption.
        -- rewrite map_length. assumption.
        -- intros _. apply Forall_map. apply Forall_forall. intros x Hx.
           apply cl1_wait; [exact (proj1 (Forall_forall _ _) Hqo1 x Hx) | exact (proj1 (Forall_forall _ _) SC x Hx)].
      * apply Forall_app. split; [|assumption]. apply Forall_map. eapply Forall_impl; [|exact Htg1]. cbn. intros a. rewrite cl1_tag. auto.
      * apply Forall_app. split; [|assumption]. apply Forall_map. eapply Forall_impl; [|exact Hqo1]. cbn. intros a. apply qos_ok_cl1.
      * intros _. reflexivity.
    + cbn [fst]. unfold with_sock. cbn. constructor; cbn; try assumption; try discriminate.
      exists C, U, Q. apply (shape_sock_false s C U Q false Sh).
  - (* PUBACK *)
    destruct (find_mid mid (out s)) as [m|] eqn:Ef; [|cbn [fst]; exact I].
    pose proof (find_mid_In _ _ _ Ef) as [Hin Hmid].
    pose proof (inv_on_publish s m I Hs) as H.
    destruct (do_on_publish c s m) as [s' ev] eqn:Ed. cbn [fst] in *.
    apply andb_true_iff in Hconf as [Hck Hconf]. apply andb_true_iff in Hconf as [Hq Hst].
    apply H; [assumption | assumption |]. unfold is_wait. destruct (o_st m); try reflexivity; discriminate.
  - (* PUBREC *)
    destruct (has_mid mid (out s)) eqn:Eh; [|cbn [fst]; exact I].
    unfold has_mid in Eh. destruct (find_mid mid (out s)) as [m|] eqn:Ef; [|discriminate].
    pose proof (find_mid_In _ _ _ Ef) as [Hin Hmid].
    apply andb_true_iff in Hconf as [Hck Hconf]. apply andb_true_iff in Hconf as [Hq Hst].
    assert (Hw : is_wait m = true) by (unfold is_wait; destruct (o_st m); try reflexivity; discriminate).
    assert (Hq2 : o_qos m = 2) by lia.
    destruct I as [[C [U [Q Sh]]] Hnd Hso Htg Hqo Hca Hlm Hnt].
    pose proof (wait_in_C _ _ _ _ _ _ Sh Hin Hw) as HinC.
    destruct Sh as [So Si SC SU SQ Sm Sf Ss Se].
    apply in_split in HinC as (C1 & C2 & ->).
    assert (So' : out s = C1 ++ m :: (C2 ++ U ++ Q)) by (rewrite So, <- app_assoc; reflexivity).
    pose proof Hnd as Hnd0. rewrite So' in Hnd0. destruct (NoDup_mids_remove _ _ _ Hnd0) as [_ Hn1].
    assert (Hup : update_mid mid (fun m0 => set_st m0 MsWaitPubcomp) (out s) = (C1 ++ set_st m MsWaitPubcomp :: C2) ++ U ++ Q).
    { rewrite So'. rewrite <- Hmid. rewrite update_mid_split; [|exact Hn1|reflexivity]. rewrite <- app_assoc. reflexivity. }
    cbn [fst]. unfold with_out. rewrite Hup.
    set (m' := set_st m MsWaitPubcomp).
    assert (Hm : mids ((C1 ++ m' :: C2) ++ U ++ Q) = mids (out s)).
    { rewrite So. unfold mids. rewrite !map_app. reflexivity. }
    assert (Ht : tags ((C1 ++ m' :: C2) ++ U ++ Q) = tags (out s)).
    { rewrite So. unfold tags. rewrite !map_app. reflexivity. }
    assert (Hrep : forall (P : omsg -> Prop), P m' -> Forall P (out s) -> Forall P ((C1 ++ m' :: C2) ++ U ++ Q)).
    { intros P Hp H. rewrite So in H. apply Forall_app in H as [H1 H2]. apply Forall_app. split; [|assumption].
      apply Forall_app in H1 as [H3 H4]. inversion H4; subst. apply Forall_app. split; [assumption|]. constructor; assumption. }
    constructor; cbn -[mids tags]; rewrite ?Hm, ?Ht; try assumption.
    + exists (C1 ++ m' :: C2), U, Q. constructor; cbn; try assumption.
      * reflexivity.
      * rewrite Si. rewrite !app_length. reflexivity.
      * apply Forall_app in SC as [H3 H4]. inversion H4; subst. apply Forall_app. split; [assumption|]. constructor; [reflexivity|assumption].
      * intros H. specialize (Sm H). rewrite !app_length in *. cbn [length] in *. lia.
      * intros H. specialize (Sf H). rewrite !app_length in *. cbn [length] in *. lia.
      * intros H. specialize (Se H). apply Forall_app in Se as [H3 H4]. inversion H4; subst.
        apply Forall_app. split; [assumption|]. constructor; [reflexivity|assumption].
    + apply Hrep; [|assumption]. unfold m'. cbn. exact (proj1 (Forall_forall _ _) Htg m Hin).
    + apply Hrep; [|assumption]. unfold m', qos_okb. cbn. rewrite Hq2. reflexivity.
  - (* PUBCOMP *)
    destruct (find_mid mid (out s)) as [m|] eqn:Ef; [|cbn [fst]; exact I].
    pose proof (find_mid_In _ _ _ Ef) as [Hin Hmid].
    pose proof (inv_on_publish s m I Hs) as H.
    destruct (do_on_publish c s m) as [s' ev] eqn:Ed. cbn [fst] in *.
    apply andb_true_iff in Hconf as [Hck Hconf]. apply andb_true_iff in Hconf as [Hq Hst].
    apply H; [assumption | assumption |]. unfold is_wait. destruct (o_st m); try reflexivity; discriminate.
  - (* PUBREL *)
    destruct (in_find mid (inm s)) as [tag|].
    + destruct (deliver c mid 2 tag r) as [ev pr]. destruct pr; [|destruct (c_manual c)]; cbn [fst]; apply inv_with_inm; exact I.
    + destruct (c_manual c); cbn [fst]; exact I.
  - (* PUBLISH *)
    destruct (q =? 0).
    + destruct (deliver c 0 0 tag r) as [ev pr]. cbn [fst]. exact I.
    + destruct (q =? 1).
      * destruct (deliver c mid 1 tag r) as [ev pr]. destruct pr; [|destruct (c_manual c)]; cbn [fst]; exact I.
      * cbn [fst]. apply inv_with_inm. exact I.
Qed.

Theorem inv_step s o : Inv c s -> conf_op c s o = true -> Inv c (fst (step c s o)).
Proof.
  intros I Hc. destruct o as [q|ok| |p r|mid q]; cbn [step].
  - apply inv_publish; assumption.
  - apply inv_reconnect; assumption.
  - apply (inv_connlost s I).
  - apply inv_rx; assumption.
  - unfold do_ack. destruct (c_manual c && sock s); [destruct (q =? 1); [|destruct (q =? 2)]|]; cbn [fst]; exact I.
Qed.

Lemma run_from_fst_indep : forall ops s tr tr', fst (run_from c s tr ops) = fst (run_from c s tr' ops).
Proof.
  induction ops as [|o ops IH]; intros s tr tr'; cbn [run_from]; [reflexivity|].
  destruct (step c s o) as [s' ev]. apply IH.
Qed.

(* every state reached by a conforming history satisfies the invariant *)
Theorem inv_reachable_from : forall ops s, Inv c s -> conforming_from c s ops = true ->
  Inv c (fst (run_from c s [] ops)) /\
  Forall (fun st => Inv c (fst st)) (run_steps c s ops).
Proof.
  induction ops as [|o ops IH]; intros s I Hc; cbn [run_from run_steps conforming_from] in *.
  - split; [exact I | constructor].
  - apply andb_true_iff in Hc as [Hc1 Hc2].
    pose proof (inv_step s o I Hc1) as I'.
    destruct (step c s o) as [s' ev] eqn:Es. cbn [fst] in *.
    destruct (IH s' I' Hc2) as [H1 H2]. split.
    + rewrite (run_from_fst_indep ops s' ([] ++ ev) []). exact H1.
    + constructor; [exact I' | exact H2].
Qed.

Theorem inv_reachable ops : conforming c ops = true -> Inv c (fst (run c ops)).
Proof. intros H. apply inv_reachable_from; [apply inv_init | exact H]. Qed.

End Preserve.
