(* C12: the in-flight window and the queue bound hold on every conforming history of the
   Session model, and no accepted message waits while a window slot is free. *)
From PahoV Require Import Base.Prelude Codec.Mid Codec.MidProofs Session.Model Session.Check
  Session.Lemmas Session.Inv Session.Statements.
From Coq Require Import Sorting.Sorted.

(* ---------------------------------------------------------------- zin / zadd / zrem *)
Lemma zin_notIn x l : zin x l = false -> ~ In x l.
Proof.
  induction l as [|y l IH]; cbn [zin In]; intros H; [intros []|].
  apply orb_false_iff in H as [H1 H2]. intros [H3|H3]; [lia | exact (IH H2 H3)].
Qed.

Lemma zrem_In y x l : In y (zrem x l) -> In y l /\ y <> x.
Proof.
  induction l as [|a l IH]; cbn [zrem]; [intros []|].
  destruct (x =? a) eqn:E; cbn [In]; intros H.
  - apply IH in H. destruct H. split; [right; assumption | assumption].
  - destruct H as [H|H].
    + subst y. split; [left; reflexivity | lia].
    + apply IH in H. destruct H. split; [right; assumption | assumption].
Qed.

Lemma zrem_NoDup x l : NoDup l -> NoDup (zrem x l).
Proof.
  induction l as [|a l IH]; cbn [zrem]; intros H; [constructor|].
  inversion H as [|? ? Hn Hd]; subst. destruct (x =? a); [apply IH; assumption|].
  constructor; [|apply IH; assumption]. intros Hin. apply zrem_In in Hin. tauto.
Qed.

Lemma zrem_notin x l : ~ In x l -> zrem x l = l.
Proof.
  induction l as [|a l IH]; cbn [zrem In]; intros H; [reflexivity|].
  destruct (x =? a) eqn:E; [exfalso; apply H; left; lia|].
  f_equal. apply IH. intros H1. apply H. right. assumption.
Qed.

Lemma zrem_mid x l1 l2 : ~ In x l1 -> ~ In x l2 -> zrem x (l1 ++ x :: l2) = l1 ++ l2.
Proof.
  induction l1 as [|a l1 IH]; cbn [app zrem In]; intros H1 H2.
  - rewrite Z.eqb_refl. apply zrem_notin. assumption.
  - destruct (x =? a) eqn:E; [exfalso; apply H1; left; lia|].
    f_equal. apply IH; [|assumption]. intros H. apply H1. right. assumption.
Qed.

Lemma zadd_NoDup x l : NoDup l -> NoDup (zadd x l).
Proof.
  intros H. unfold zadd. destruct (zin x l) eqn:E; [assumption|].
  apply NoDup_app_snoc; [assumption | apply zin_notIn; assumption].
Qed.

Lemma zadd_incl x l T : incl l T -> In x T -> incl (zadd x l) T.
Proof.
  intros H Hx. unfold zadd. destruct (zin x l); [assumption|].
  apply incl_app; [assumption|]. intros y [Hy|[]]. subst y. assumption.
Qed.

(* ---------------------------------------------------------------- generic list facts *)
Lemma SSorted_NoDup l : StronglySorted Z.lt l -> NoDup l.
Proof.
  induction l as [|a l IH]; intros H; [constructor|].
  inversion H as [|? ? Hs Hf]; subst. constructor; [|apply IH; assumption].
  intros Hin. pose proof (proj1 (Forall_forall _ _) Hf a Hin). lia.
Qed.

Lemma filter_len {A} (f : A -> bool) l : (length (filter f l) <= length l)%nat.
Proof. induction l as [|x l IH]; cbn [filter length]; [lia|]. destruct (f x); cbn [length]; lia. Qed.

Lemma filter_none {A} (f : A -> bool) l : Forall (fun x => f x = false) l -> filter f l = [].
Proof.
  induction l as [|x l IH]; intros H; cbn [filter]; [reflexivity|].
  inversion H as [|? ? Hx Hl]; subst. rewrite Hx. apply IH. assumption.
Qed.

(* tags of the messages in a wait state *)
Definition wt (l : list omsg) : list Z := map o_tag (filter is_wait l).

Lemma wt_app l1 l2 : wt (l1 ++ l2) = wt l1 ++ wt l2.
Proof. unfold wt. rewrite filter_app, map_app. reflexivity. Qed.

Lemma wt_cons x l : wt (x :: l) = if is_wait x then o_tag x :: wt l else wt l.
Proof. unfold wt. cbn [filter]. destruct (is_wait x); reflexivity. Qed.

Lemma wt_In_tags t l : In t (wt l) -> In t (tags l).
Proof.
  unfold wt, tags. rewrite !in_map_iff. intros (m & E & Hin). apply filter_In in Hin.
  exists m. tauto.
Qed.

Lemma wt_NoDup_of l : NoDup (tags l) -> NoDup (wt l).
Proof.
  induction l as [|a l IH]; intros H; [constructor|].
  unfold tags in H. cbn [map] in H. inversion H as [|? ? Hn Hd]; subst.
  rewrite wt_cons. destruct (is_wait a); [|apply IH; assumption].
  constructor; [|apply IH; assumption]. intros Hin. apply Hn. apply wt_In_tags. assumption.
Qed.

Lemma queued_notwait m : is_queued m = true -> is_wait m = false.
Proof. unfold is_queued, is_wait. destruct (o_st m); try discriminate; reflexivity. Qed.

Lemma publish_notwait m : o_st m = MsPublish -> is_wait m = false.
Proof. unfold is_wait. intros ->. reflexivity. Qed.

(* ---------------------------------------------------------------- the window checker *)
Definition txtags (e : event) : list Z :=
  match e with
  | Tx _ (PPublish _ q _ tag) => if q =? 0 then [] else [tag]
  | Tx _ (PPubrel _ tag) => [tag]
  | _ => []
  end.

Definition P12 (T : list Z) (k : k12) : Prop :=
  k12_ok k = true /\ NoDup (k12_un k) /\ incl (k12_un k) T.

Lemma P12_zadd n T k tag : (n = 0 \/ Z.of_nat (length T) <= n) -> In tag T -> P12 T k ->
  P12 T (mkK12 (zadd tag (k12_un k)) (k12_ok k && ((n =? 0) || (zlen (zadd tag (k12_un k)) <=? n)))).
Proof.
  intros Hn Hin (Hok & Hnd & Hincl). unfold P12. cbn [k12_un k12_ok].
  pose proof (zadd_NoDup tag _ Hnd) as Hnd'. pose proof (zadd_incl tag _ T Hincl Hin) as Hincl'.
  split; [|split; assumption].
  rewrite Hok. cbn [andb]. pose proof (NoDup_incl_length Hnd' Hincl') as Hlen. unfold zlen. lia.
Qed.

Lemma k12_ev_P n T k e : (n = 0 \/ Z.of_nat (length T) <= n) ->
  (forall t, In t (txtags e) -> In t T) -> P12 T k -> P12 T (k12_ev n k e).
Proof.
  intros Hn Htx HP.
  destruct e as [cn p|tag mid q rc|mid tag|tag|mid q tag| |p| |cn|]; try exact HP.
  - destruct p as [|mid q dup tag|mid tag|mid|mid|mid]; try exact HP.
    + cbn [k12_ev]. cbn [txtags] in Htx. destruct (q =? 0); [exact HP|].
      apply P12_zadd; [assumption | apply Htx; left; reflexivity | assumption].
    + cbn [k12_ev]. cbn [txtags] in Htx.
      apply P12_zadd; [assumption | apply Htx; left; reflexivity | assumption].
  - destruct HP as (Hok & Hnd & Hincl). unfold P12. cbn [k12_ev k12_un k12_ok].
    split; [assumption|]. split; [apply zrem_NoDup; assumption|].
    intros y Hy. apply zrem_In in Hy. apply Hincl. tauto.
  - destruct HP as (Hok & Hnd & Hincl). unfold P12. cbn [k12_ev k12_un k12_ok].
    split; [assumption|]. split; [constructor | apply incl_nil_l].
Qed.

Lemma k12_fold_P n T : (n = 0 \/ Z.of_nat (length T) <= n) -> forall evs k,
  (forall e t, In e evs -> In t (txtags e) -> In t T) -> P12 T k ->
  P12 T (fold_left (k12_ev n) evs k).
Proof.
  intros Hn. induction evs as [|e evs IH]; intros k Htx HP; cbn [fold_left]; [exact HP|].
  apply IH.
  - intros e' t He Ht. apply (Htx e' t); [right; assumption | assumption].
  - apply k12_ev_P; [assumption | | assumption]. intros t Ht. apply (Htx e t); [left; reflexivity | assumption].
Qed.

(* ---- the loops: wait-state tags only grow, and every transmitted tag is a wait-state tag afterwards *)
Lemma cl_wt cn : forall l,
  incl (wt l) (wt (fst (connack_loop cn l))) /\
  (forall e t, In e (snd (connack_loop cn l)) -> In t (txtags e) -> In t (wt (fst (connack_loop cn l)))).
Proof.
  induction l as [|m l IH]; cbn [connack_loop].
  - cbn [fst snd]. split; [apply incl_refl | intros e t []].
  - destruct (connack_loop cn l) as [r ev]. cbn [fst snd] in IH. destruct IH as [IH1 IH2].
    assert (Hkeep : incl (wt (m :: l)) (wt (m :: r)) /\
                    (forall e t, In e ev -> In t (txtags e) -> In t (wt (m :: r)))).
    { rewrite !wt_cons. destruct (is_wait m).
      - split; [apply incl_cons; [left; reflexivity | apply incl_tl; assumption]|].
        intros e t He Ht. right. eapply IH2; eassumption.
      - split; [assumption | exact IH2]. }
    destruct (o_st m) eqn:Est; cbn [fst snd]; try exact Hkeep.
    + (* MsPublish *)
      assert (Hw : is_wait m = false) by (apply publish_notwait; assumption).
      change (set_st m (wait_of (o_qos m))) with (rel1 m).
      rewrite !wt_cons, Hw, rel1_wait, rel1_tag. split; [apply incl_tl; assumption|].
      intros e t [He|He] Ht.
      * subst e. cbn [txtags] in Ht. destruct (o_qos m =? 0); [destruct Ht|].
        destruct Ht as [Ht|[]]. left. assumption.
      * right. eapply IH2; eassumption.
    + (* MsResendPubrel *)
      destruct (o_qos m =? 2); cbn [fst snd]; [|exact Hkeep].
      assert (Hw : is_wait m = false) by (unfold is_wait; rewrite Est; reflexivity).
      rewrite !wt_cons, Hw. cbn [is_wait set_st o_st o_tag]. split; [apply incl_tl; assumption|].
      intros e t [He|He] Ht.
      * subst e. cbn [txtags] in Ht. destruct Ht as [Ht|[]]. left. assumption.
      * right. eapply IH2; eassumption.
    + (* MsQueued: the loop stops *)
      split; [apply incl_refl | intros e t []].
Qed.

Lemma ui_wt c cn : forall l infl,
  incl (wt l) (wt (fst (fst (update_inflight c cn infl l)))) /\
  (forall e t, In e (snd (update_inflight c cn infl l)) -> In t (txtags e) ->
               In t (wt (fst (fst (update_inflight c cn infl l))))).
Proof.
  induction l as [|m l IH]; intros infl; cbn [update_inflight].
  - cbn [fst snd]. split; [apply incl_refl | intros e t []].
  - destruct (infl <? c_max c); [|cbn [fst snd]; split; [apply incl_refl | intros e t []]].
    destruct (is_queued m) eqn:Hq.
    + specialize (IH (infl + 1)). destruct (update_inflight c cn (infl + 1) l) as [[r n] ev].
      cbn [fst snd] in *. destruct IH as [IH1 IH2].
      change (set_st m (wait_of (o_qos m))) with (rel1 m).
      rewrite !wt_cons, (queued_notwait m Hq), rel1_wait, rel1_tag. split; [apply incl_tl; assumption|].
      intros e t [He|He] Ht.
      * subst e. cbn [txtags] in Ht. destruct (o_qos m =? 0); [destruct Ht|].
        destruct Ht as [Ht|[]]. left. assumption.
      * right. eapply IH2; eassumption.
    + specialize (IH infl). destruct (update_inflight c cn infl l) as [[r n] ev].
      cbn [fst snd] in *. destruct IH as [IH1 IH2].
      rewrite !wt_cons. destruct (is_wait m).
      * split; [apply incl_cons; [left; reflexivity | apply incl_tl; assumption]|].
        intros e t He Ht. right. eapply IH2; eassumption.
      * split; [assumption | exact IH2].
Qed.

Lemma remove_wt mid l m t : find_mid mid l = Some m ->
  In t (wt l) -> t <> o_tag m -> In t (wt (remove_mid mid l)).
Proof.
  intros Hf Hin Hne. destruct (find_mid_split _ _ _ Hf) as (l1 & l2 & -> & Hn & Hm).
  rewrite (remove_mid_split mid l1 m l2 Hn Hm). rewrite wt_app in *. rewrite wt_cons in Hin.
  apply in_or_app. apply in_app_or in Hin as [H|H]; [left; assumption|]. right.
  destruct (is_wait m); [|assumption]. destruct H as [H|H]; [congruence | assumption].
Qed.

Lemma upd_wt mid : forall l m, find_mid mid l = Some m ->
  incl (wt l) (wt (update_mid mid (fun m0 => set_st m0 MsWaitPubcomp) l)) /\
  In (o_tag m) (wt (update_mid mid (fun m0 => set_st m0 MsWaitPubcomp) l)).
Proof.
  induction l as [|x l IH]; intros m; cbn [find_mid update_mid]; [discriminate|].
  destruct (o_mid x =? mid); intros H.
  - inversion H; subst x. rewrite !wt_cons. cbn [is_wait set_st o_st o_tag].
    split; [|left; reflexivity]. destruct (is_wait m); [apply incl_refl | apply incl_tl, incl_refl].
  - destruct (IH m H) as [H1 H2]. rewrite !wt_cons. destruct (is_wait x).
    + split; [apply incl_cons; [left; reflexivity | apply incl_tl; assumption] | right; assumption].
    + split; assumption.
Qed.

(* ================================================================ per-configuration part *)
Section C12.
Variable c : cfg.
Hypothesis Hcfg : cfg_ok c = true.

Lemma wt_NoDup s : Inv c s -> NoDup (wt (out s)).
Proof. intros I. apply wt_NoDup_of. apply SSorted_NoDup. exact (inv_sorted _ _ I). Qed.

Lemma wt_bound s : Inv c s -> c_max c = 0 \/ Z.of_nat (length (wt (out s))) <= c_max c.
Proof.
  intros I. destruct (inv_shape _ _ I) as (C & U & Q & [So Si SC SU SQ Sm Sf Ss Se]).
  pose proof (max_nonneg c Hcfg) as Hmax.
  destruct (Z.eq_dec (c_max c) 0) as [E|E]; [left; assumption|right].
  specialize (Sm ltac:(lia)).
  unfold wt. rewrite map_length, So, !filter_app.
  rewrite (filter_none is_wait U), (filter_none is_wait Q).
  - rewrite app_nil_r. pose proof (filter_len is_wait C). lia.
  - eapply Forall_impl; [|exact SQ]. cbn. intros a. apply queued_notwait.
  - eapply Forall_impl; [|exact SU]. cbn. intros a. apply publish_notwait.
Qed.

Definition R12 (s : sess) (k : k12) : Prop :=
  k12_ok k = true /\ NoDup (k12_un k) /\ (sock s = true -> incl (k12_un k) (wt (out s))).

Lemma R12_mono s s' k : R12 s k ->
  (sock s' = true -> sock s = true /\ incl (wt (out s)) (wt (out s'))) -> R12 s' k.
Proof.
  intros (Hok & Hnd & Hun) H. split; [assumption|]. split; [assumption|].
  intros Hs'. destruct (H Hs') as [Hs Hi]. eapply incl_tran; [apply Hun; assumption | assumption].
Qed.

Lemma P12_R12 s k : P12 (wt (out s)) k -> R12 s k.
Proof. intros (H1 & H2 & H3). split; [assumption|]. split; [assumption|]. intros _. assumption. Qed.

Lemma win_on s s' evs k : Inv c s' -> sock s = true -> incl (wt (out s)) (wt (out s')) ->
  (forall e t, In e evs -> In t (txtags e) -> In t (wt (out s'))) ->
  R12 s k -> R12 s' (fold_left (k12_ev (c_max c)) evs k).
Proof.
  intros I' Hs Hincl Htx (Hok & Hnd & Hun). apply P12_R12.
  apply k12_fold_P; [apply wt_bound; assumption | assumption |].
  split; [assumption|]. split; [assumption|].
  eapply incl_tran; [apply Hun; assumption | assumption].
Qed.

Lemma win_publish s q k : R12 s k ->
  Inv c (fst (do_publish c s q)) ->
  R12 (fst (do_publish c s q)) (fold_left (k12_ev (c_max c)) (snd (do_publish c s q)) k).
Proof.
  intros HR. unfold do_publish. cbv zeta.
  destruct (q =? 0) eqn:Eq0.
  { destruct (sock s) eqn:Hs; cbn [fst snd]; intros I'.
    - eapply win_on; [exact I' | exact Hs | cbn [out]; apply incl_refl | | exact HR].
      intros e t He Ht. cbn [In] in He.
      destruct He as [He|[He|[He|[He|[]]]]]; subst e; cbn in Ht; contradiction.
    - cbn [fold_left k12_ev]. eapply R12_mono; [exact HR|]. cbn [sock]. discriminate. }
  destruct ((c_maxq c >? 0) && (Z.of_nat (length (out s)) >=? c_maxq c)).
  { cbn [fst snd fold_left k12_ev]. intros _. eapply R12_mono; [exact HR|]. cbn [sock out].
    intros H; split; [exact H | apply incl_refl]. }
  destruct (has_mid (mid_next (last_mid s)) (out s)).
  { cbn [fst snd fold_left k12_ev]. intros _. eapply R12_mono; [exact HR|]. cbn [sock out].
    intros H; split; [exact H | apply incl_refl]. }
  destruct (window_free c (inflight s)).
  - destruct (sock s) eqn:Hs; cbn [fst snd]; intros I'.
    + eapply win_on; [exact I' | exact Hs | | | exact HR]; cbn [out with_out].
      * rewrite wt_app. apply incl_appl, incl_refl.
      * intros e t He Ht. cbn [In] in He. destruct He as [He|[He|[]]]; subst e; cbn [txtags] in Ht; [|contradiction].
        rewrite Eq0 in Ht. destruct Ht as [Ht|[]]. subst t.
        rewrite wt_app. apply in_or_app. right. unfold wt, is_wait, wait_of. cbn.
        destruct (q =? 1); left; reflexivity.
    + cbn [fold_left k12_ev]. eapply R12_mono; [exact HR|]. cbn [sock with_out]. discriminate.
  - cbn [fst snd fold_left k12_ev]. intros _. eapply R12_mono; [exact HR|]. cbn [sock out with_out].
    intros H; split; [exact H|]. rewrite wt_app. apply incl_appl, incl_refl.
Qed.

Lemma win_reconnect s ok k : R12 s k ->
  R12 (fst (do_reconnect c s ok)) (fold_left (k12_ev (c_max c)) (snd (do_reconnect c s ok)) k).
Proof.
  intros HR. unfold do_reconnect. destruct (reset_out_list c (clean_now c s) 0 (out s)) as [o n].
  destruct ok; cbn [fst snd fold_left k12_ev].
  - destruct HR as (Hok & _ & _). split; [assumption|]. cbn [k12_un]. split; [constructor|].
    intros _. apply incl_nil_l.
  - eapply R12_mono; [exact HR|]. cbn [sock]. discriminate.
Qed.

(* the final acknowledgement of a stored message *)
Lemma on_publish_char s m : sock s = true -> find_mid (o_mid m) (out s) = Some m ->
  exists s' ev, do_on_publish c s m = (s', CbPublish (o_mid m) (o_tag m) :: Published (o_tag m) :: ev) /\
    sock s' = true /\
    (forall t, In t (wt (out s)) -> t <> o_tag m -> In t (wt (out s'))) /\
    (forall e t, In e ev -> In t (txtags e) -> In t (wt (out s'))).
Proof.
  intros Hs Hf. unfold do_on_publish. destruct (c_max c >? 0).
  - pose proof (ui_wt c (conn s) (remove_mid (o_mid m) (out s)) (inflight s - 1)) as H.
    destruct (update_inflight c (conn s) (inflight s - 1) (remove_mid (o_mid m) (out s))) as [[o' n] ev].
    cbn [fst snd] in H. destruct H as [H1 H2].
    exists (with_out s o' n), ev. split; [reflexivity|]. cbn [sock out with_out].
    split; [assumption|]. split; [|exact H2].
    intros t Ht Hne. apply H1. eapply remove_wt; eassumption.
  - exists (with_out s (remove_mid (o_mid m) (out s)) (inflight s - 1)), [].
    split; [reflexivity|]. cbn [sock out with_out]. split; [assumption|]. split; [|intros e t []].
    intros t Ht Hne. eapply remove_wt; eassumption.
Qed.

Lemma win_on_publish s m p k : sock s = true -> find_mid (o_mid m) (out s) = Some m -> R12 s k ->
  Inv c (fst (do_on_publish c s m)) ->
  R12 (fst (do_on_publish c s m)) (fold_left (k12_ev (c_max c)) (Inp p :: snd (do_on_publish c s m)) k).
Proof.
  intros Hs Hf (Hok & Hnd & Hun).
  destruct (on_publish_char s m Hs Hf) as (s' & ev & E & Hs' & Hrem & Htx). rewrite E.
  cbn [fst snd fold_left k12_ev]. intros I'. apply P12_R12.
  apply k12_fold_P; [apply wt_bound; assumption | assumption |].
  split; [assumption|]. cbn [k12_un]. split; [apply zrem_NoDup; assumption|].
  intros y Hy. apply zrem_In in Hy as [Hy1 Hy2]. apply Hrem; [|assumption]. apply (Hun Hs). assumption.
Qed.

Lemma win_rx s p r k : R12 s k -> conf_op c s (ORx p r) = true ->
  Inv c (fst (do_rx c s p r)) ->
  R12 (fst (do_rx c s p r)) (fold_left (k12_ev (c_max c)) (snd (do_rx c s p r)) k).
Proof.
  intros HR Hconf. cbn [conf_op] in Hconf. unfold do_rx.
  destruct (sock s) eqn:Hs; cbn [negb] in *; [|cbn [fst snd fold_left]; intros _; exact HR].
  assert (Hsame : forall s', sock s' = sock s -> out s' = out s -> R12 s' k).
  { intros s' E1 E2. eapply R12_mono; [exact HR|]. rewrite E1, E2. intros H; split; [assumption | apply incl_refl]. }
  destruct p as [rc|mid|mid|mid|mid|q mid tag].
  - (* CONNACK *)
    destruct (rc =? 0).
    + pose proof (cl_wt (conn s) (out s)) as [H1 H2].
      destruct (connack_loop (conn s) (out s)) as [o ev]. cbn [fst snd] in *. intros I'.
      eapply win_on; [exact I' | exact Hs | cbn [out with_out]; exact H1 | | exact HR].
      cbn [out with_out]. intros e t [He|He] Ht; [subst e; destruct Ht | eapply H2; eassumption].
    + cbn [fst snd fold_left k12_ev]. intros _. eapply R12_mono; [exact HR|]. cbn [sock with_sock]. discriminate.
  - (* PUBACK *)
    destruct (find_mid mid (out s)) as [m|] eqn:Ef; [|cbn [fst snd fold_left k12_ev]; intros _; exact HR].
    pose proof (find_mid_In _ _ _ Ef) as [_ Hmid]. subst mid.
    pose proof (win_on_publish s m (IPuback (o_mid m)) k Hs Ef HR) as H.
    destruct (do_on_publish c s m) as [s' ev]. cbn [fst snd] in *. exact H.
  - (* PUBREC *)
    destruct (has_mid mid (out s)) eqn:Eh; [|cbn [fst snd fold_left k12_ev]; intros _; exact HR].
    unfold has_mid in Eh. destruct (find_mid mid (out s)) as [m|] eqn:Ef; [|discriminate].
    destruct (upd_wt mid (out s) m Ef) as [H1 H2]. cbn [fst snd]. intros I'.
    eapply win_on; [exact I' | exact Hs | cbn [out with_out]; exact H1 | | exact HR].
    cbn [out with_out]. intros e t He Ht. cbn [In] in He.
    destruct He as [He|[He|[]]]; subst e; cbn [txtags] in Ht; [destruct Ht|].
    destruct Ht as [Ht|[]]. subst t. exact H2.
  - (* PUBCOMP *)
    destruct (find_mid mid (out s)) as [m|] eqn:Ef; [|cbn [fst snd fold_left k12_ev]; intros _; exact HR].
    pose proof (find_mid_In _ _ _ Ef) as [_ Hmid]. subst mid.
    pose proof (win_on_publish s m (IPubcomp (o_mid m)) k Hs Ef HR) as H.
    destruct (do_on_publish c s m) as [s' ev]. cbn [fst snd] in *. exact H.
  - (* PUBREL *)
    destruct (in_find mid (inm s)) as [tag|]; unfold deliver.
    + destruct (r && negb (c_suppress c)); [|destruct (c_manual c)];
        cbn [fst snd app fold_left k12_ev]; intros _; apply Hsame; reflexivity.
    + destruct (c_manual c); cbn [fst snd app fold_left k12_ev]; intros _; exact HR.
  - (* PUBLISH *)
    unfold deliver. destruct (q =? 0).
    + destruct (r && negb (c_suppress c)); cbn [fst snd app fold_left k12_ev]; intros _; exact HR.
    + destruct (q =? 1).
      * destruct (r && negb (c_suppress c)); [|destruct (c_manual c)];
          cbn [fst snd app fold_left k12_ev]; intros _; exact HR.
      * cbn [fst snd app fold_left k12_ev]. intros _. apply Hsame; reflexivity.
Qed.

Lemma win_step s o k : Inv c s -> conf_op c s o = true -> R12 s k ->
  R12 (fst (step c s o)) (fold_left (k12_ev (c_max c)) (snd (step c s o)) k).
Proof.
  intros I Hc HR. pose proof (inv_step c Hcfg s o I Hc) as I'.
  destruct o as [q|ok| |p r|mid q]; cbn [step] in *.
  - apply win_publish; assumption.
  - apply win_reconnect; assumption.
  - destruct (sock s) eqn:Hs; cbn [fst snd fold_left k12_ev]; [|exact HR].
    eapply R12_mono; [exact HR|]. cbn [sock with_sock]. discriminate.
  - apply win_rx; assumption.
  - unfold do_ack. destruct (c_manual c && sock s); [destruct (q =? 1); [|destruct (q =? 2)]|];
      cbn [fst snd fold_left k12_ev]; exact HR.
Qed.

(* ================================================================ the queue bound *)
Lemma tags_reset cl : forall l infl, tags (fst (reset_out_list c cl infl l)) = tags l.
Proof.
  induction l as [|m l IH]; intros infl; cbn [reset_out_list]; [reflexivity|].
  destruct (window_free c infl).
  - specialize (IH (infl + 1)). destruct (reset_out_list c cl (infl + 1) l) as [r n].
    cbn [fst] in *. unfold tags in *. cbn [map]. rewrite reset1_tag, IH. reflexivity.
  - specialize (IH infl). destruct (reset_out_list c cl infl l) as [r n].
    cbn [fst] in *. unfold tags in *. cbn [map set_st o_tag]. rewrite IH. reflexivity.
Qed.

Lemma cl_q mq cn : forall l,
  tags (fst (connack_loop cn l)) = tags l /\
  (forall k, fold_left (k12q_ev mq) (snd (connack_loop cn l)) k = k).
Proof.
  induction l as [|m l IH]; cbn [connack_loop]; [split; [reflexivity | intros; reflexivity]|].
  destruct (connack_loop cn l) as [r ev]. cbn [fst snd] in IH. destruct IH as [IH1 IH2].
  unfold tags in *.
  destruct (o_st m); [| | |destruct (o_qos m =? 2)| |];
    cbn [fst snd map fold_left k12q_ev set_st o_tag];
    (split; [rewrite ?IH1; reflexivity | first [exact IH2 | intros; reflexivity]]).
Qed.

Lemma ui_q mq cn : forall l infl,
  tags (fst (fst (update_inflight c cn infl l))) = tags l /\
  (forall k, fold_left (k12q_ev mq) (snd (update_inflight c cn infl l)) k = k).
Proof.
  induction l as [|m l IH]; intros infl; cbn [update_inflight]; [split; [reflexivity | intros; reflexivity]|].
  destruct (infl <? c_max c); [|split; [reflexivity | intros; reflexivity]].
  destruct (is_queued m).
  - specialize (IH (infl + 1)). destruct (update_inflight c cn (infl + 1) l) as [[r n] ev].
    cbn [fst snd] in *. destruct IH as [IH1 IH2]. unfold tags in *.
    cbn [map fold_left k12q_ev set_st o_tag]. split; [rewrite IH1; reflexivity | exact IH2].
  - specialize (IH infl). destruct (update_inflight c cn infl l) as [[r n] ev].
    cbn [fst snd] in *. destruct IH as [IH1 IH2]. unfold tags in *.
    cbn [map]. split; [rewrite IH1; reflexivity | exact IH2].
Qed.

Lemma tags_update_mid mid st : forall l, tags (update_mid mid (fun m => set_st m st) l) = tags l.
Proof.
  induction l as [|x l IH]; cbn [update_mid]; [reflexivity|].
  destruct (o_mid x =? mid); unfold tags in *; cbn [map set_st o_tag]; [reflexivity | rewrite IH; reflexivity].
Qed.

Lemma tags_remove mid l m : find_mid mid l = Some m -> NoDup (tags l) ->
  tags (remove_mid mid l) = zrem (o_tag m) (tags l).
Proof.
  intros Hf Hnd. destruct (find_mid_split _ _ _ Hf) as (l1 & l2 & -> & Hn & Hm).
  rewrite (remove_mid_split mid l1 m l2 Hn Hm). unfold tags in *. rewrite !map_app in *. cbn [map] in *.
  symmetry. pose proof (NoDup_remove_2 _ _ _ Hnd) as H. apply zrem_mid.
  - intros H1. apply H. apply in_or_app. left. assumption.
  - intros H1. apply H. apply in_or_app. right. assumption.
Qed.

Definition Rq (s : sess) (k : k12q) : Prop := kq_ok k = true /\ kq_live k = tags (out s).

Lemma q_publish s q k : Inv c s -> Rq s k ->
  Rq (fst (do_publish c s q)) (fold_left (k12q_ev (c_maxq c)) (snd (do_publish c s q)) k).
Proof.
  intros I (Hok & Hlive).
  assert (Hfull : (c_maxq c >? 0) && (zlen (kq_live k) >=? c_maxq c) =
                  (c_maxq c >? 0) && (Z.of_nat (length (out s)) >=? c_maxq c)).
  { unfold zlen. rewrite Hlive. unfold tags. rewrite map_length. reflexivity. }
  assert (Hfresh : ~ In (ntag s) (tags (out s))).
  { intros Hin. unfold tags in Hin. apply in_map_iff in Hin as (m & E & Hin).
    pose proof (proj1 (Forall_forall _ _) (inv_tags _ _ I) m Hin) as H. cbn beta in H. lia. }
  unfold do_publish. cbv zeta. destruct (q =? 0) eqn:Eq0.
  { destruct (sock s); cbn [fst snd fold_left k12q_ev]; rewrite ?Eq0.
    - split; cbn [kq_ok kq_live out]; [assumption|]. rewrite Hlive. apply zrem_notin. assumption.
    - split; cbn [kq_ok kq_live out]; assumption. }
  destruct ((c_maxq c >? 0) && (Z.of_nat (length (out s)) >=? c_maxq c)) eqn:Efull.
  { cbn [fst snd fold_left k12q_ev]. rewrite Eq0, Hfull.
    split; cbn [kq_ok kq_live out]; [rewrite Hok; reflexivity | assumption]. }
  destruct (has_mid (mid_next (last_mid s)) (out s)).
  { cbn [fst snd fold_left k12q_ev]. rewrite Eq0, Hfull.
    change (15 =? 15) with true. split; cbn [kq_ok kq_live out]; assumption. }
  destruct (window_free c (inflight s)); [destruct (sock s)|];
    cbn [fst snd fold_left k12q_ev]; rewrite Eq0, Hfull.
  all: try change (0 =? 15) with false; try change (4 =? 15) with false;
    (split; cbn [kq_ok kq_live out with_out]; [assumption|]); rewrite tags_app, Hlive; reflexivity.
Qed.

Lemma q_reconnect s ok k : Rq s k ->
  Rq (fst (do_reconnect c s ok)) (fold_left (k12q_ev (c_maxq c)) (snd (do_reconnect c s ok)) k).
Proof.
  intros (Hok & Hlive). unfold do_reconnect.
  pose proof (tags_reset (clean_now c s) (out s) 0) as Ht.
  destruct (reset_out_list c (clean_now c s) 0 (out s)) as [o n]. cbn [fst] in Ht.
  destruct ok; cbn [fst snd fold_left k12q_ev]; (split; cbn [out]; [assumption | rewrite Ht; assumption]).
Qed.

Lemma q_on_publish s m p k : Inv c s -> find_mid (o_mid m) (out s) = Some m -> Rq s k ->
  Rq (fst (do_on_publish c s m)) (fold_left (k12q_ev (c_maxq c)) (Inp p :: snd (do_on_publish c s m)) k).
Proof.
  intros I Hf (Hok & Hlive).
  assert (Hrm : tags (remove_mid (o_mid m) (out s)) = zrem (o_tag m) (kq_live k)).
  { rewrite Hlive. apply tags_remove; [assumption|]. apply SSorted_NoDup. exact (inv_sorted _ _ I). }
  unfold do_on_publish. destruct (c_max c >? 0).
  - pose proof (ui_q (c_maxq c) (conn s) (remove_mid (o_mid m) (out s)) (inflight s - 1)) as H.
    destruct (update_inflight c (conn s) (inflight s - 1) (remove_mid (o_mid m) (out s))) as [[o' n] ev].
    cbn [fst snd] in *. destruct H as [H1 H2]. cbn [fold_left k12q_ev]. rewrite H2.
    split; cbn [kq_ok kq_live out with_out]; [assumption|]. rewrite H1, Hrm. reflexivity.
  - cbn [fst snd fold_left k12q_ev]. split; cbn [kq_ok kq_live out with_out]; [assumption|].
    rewrite Hrm. reflexivity.
Qed.

Lemma q_rx s p r k : Inv c s -> Rq s k ->
  Rq (fst (do_rx c s p r)) (fold_left (k12q_ev (c_maxq c)) (snd (do_rx c s p r)) k).
Proof.
  intros I HR. unfold do_rx.
  destruct (sock s) eqn:Hs; cbn [negb]; [|cbn [fst snd fold_left]; exact HR].
  destruct p as [rc|mid|mid|mid|mid|q mid tag].
  - (* CONNACK *)
    destruct (rc =? 0).
    + pose proof (cl_q (c_maxq c) (conn s) (out s)) as [H1 H2].
      destruct (connack_loop (conn s) (out s)) as [o ev]. cbn [fst snd] in *.
      cbn [fold_left k12q_ev]. rewrite H2. destruct HR as (Hok & Hlive).
      split; cbn [out with_out]; [assumption | rewrite H1; assumption].
    + cbn [fst snd fold_left k12q_ev]. exact HR.
  - (* PUBACK *)
    destruct (find_mid mid (out s)) as [m|] eqn:Ef; [|cbn [fst snd fold_left k12q_ev]; exact HR].
    pose proof (find_mid_In _ _ _ Ef) as [_ Hmid]. subst mid.
    pose proof (q_on_publish s m (IPuback (o_mid m)) k I Ef HR) as H.
    destruct (do_on_publish c s m) as [s' ev]. cbn [fst snd] in *. exact H.
  - (* PUBREC *)
    destruct (has_mid mid (out s)) eqn:Eh; [|cbn [fst snd fold_left k12q_ev]; exact HR].
    destruct HR as (Hok & Hlive).
    destruct (find_mid mid (out s)) as [m|]; cbn [fst snd fold_left k12q_ev];
      (split; cbn [out with_out]; [assumption | rewrite tags_update_mid; assumption]).
  - (* PUBCOMP *)
    destruct (find_mid mid (out s)) as [m|] eqn:Ef; [|cbn [fst snd fold_left k12q_ev]; exact HR].
    pose proof (find_mid_In _ _ _ Ef) as [_ Hmid]. subst mid.
    pose proof (q_on_publish s m (IPubcomp (o_mid m)) k I Ef HR) as H.
    destruct (do_on_publish c s m) as [s' ev]. cbn [fst snd] in *. exact H.
  - (* PUBREL *)
    destruct (in_find mid (inm s)) as [tag|]; unfold deliver.
    + destruct (r && negb (c_suppress c)); [|destruct (c_manual c)];
        cbn [fst snd app fold_left k12q_ev]; exact HR.
    + destruct (c_manual c); cbn [fst snd app fold_left k12q_ev]; exact HR.
  - (* PUBLISH *)
    unfold deliver. destruct (q =? 0).
    + destruct (r && negb (c_suppress c)); cbn [fst snd app fold_left k12q_ev]; exact HR.
    + destruct (q =? 1).
      * destruct (r && negb (c_suppress c)); [|destruct (c_manual c)];
          cbn [fst snd app fold_left k12q_ev]; exact HR.
      * cbn [fst snd app fold_left k12q_ev]. exact HR.
Qed.

Lemma q_step s o k : Inv c s -> conf_op c s o = true -> Rq s k ->
  Rq (fst (step c s o)) (fold_left (k12q_ev (c_maxq c)) (snd (step c s o)) k).
Proof.
  intros I _ HR. destruct o as [q|ok| |p r|mid q]; cbn [step].
  - apply q_publish; assumption.
  - apply q_reconnect; assumption.
  - destruct (sock s); cbn [fst snd fold_left k12q_ev]; exact HR.
  - apply q_rx; assumption.
  - unfold do_ack. destruct (c_manual c && sock s); [destruct (q =? 1); [|destruct (q =? 2)]|];
      cbn [fst snd fold_left k12q_ev]; exact HR.
Qed.

(* ================================================================ lifting over a history *)
Section Lift.
Variables (K : Type) (ev : K -> event -> K) (R : sess -> K -> Prop).
Hypothesis Hstep : forall s o k, Inv c s -> conf_op c s o = true -> R s k ->
  R (fst (step c s o)) (fold_left ev (snd (step c s o)) k).

Lemma lift : forall ops s k, Inv c s -> conforming_from c s ops = true -> R s k ->
  exists s', R s' (fold_left (fun k0 evs => fold_left ev evs k0) (map snd (run_steps c s ops)) k).
Proof.
  induction ops as [|o ops IH]; intros s k I Hc HR; cbn [run_steps conforming_from] in *.
  - exists s. exact HR.
  - apply andb_true_iff in Hc as [Hc1 Hc2].
    pose proof (inv_step c Hcfg s o I Hc1) as I'. pose proof (Hstep s o k I Hc1 HR) as HR'.
    destruct (step c s o) as [s1 e1]. cbn [fst snd map fold_left] in *.
    exact (IH s1 _ I' Hc2 HR').
Qed.
End Lift.

Lemma c12_window_cfg ops : conforming c ops = true -> c12_window_ok c (optrace c ops) = true.
Proof.
  intros Hc. unfold c12_window_ok, optrace.
  destruct (lift k12 (k12_ev (c_max c)) R12 win_step ops (init c) k12_init (inv_init c) Hc) as (s' & H & _).
  - split; [reflexivity|]. split; [constructor|]. intros _. apply incl_nil_l.
  - exact H.
Qed.

Lemma c12_queue_cfg ops : conforming c ops = true -> c12_queue_ok c (optrace c ops) = true.
Proof.
  intros Hc. unfold c12_queue_ok, optrace.
  destruct (lift k12q (k12q_ev (c_maxq c)) Rq q_step ops (init c) (mkK12q [] true) (inv_init c) Hc) as (s' & H & _).
  - split; reflexivity.
  - exact H.
Qed.

End C12.

(* ================================================================ the theorems *)
Theorem c12_window_proved : C12_window_stmt.
Proof. intros c ops Hcfg Hc. apply c12_window_cfg; assumption. Qed.

Theorem c12_queue_proved : C12_queue_stmt.
Proof. intros c ops Hcfg Hc. apply c12_queue_cfg; assumption. Qed.

(* On an established connection no accepted message waits while a window slot is free:
   every stored message has been (re)transmitted and awaits its acknowledgement, or it is
   queued and the window is exactly full. *)
Theorem c12_no_idle_slot c s : Inv c s -> cack s = true ->
  Forall (fun m => is_wait m = true \/
                   (is_queued m = true /\ inflight s = c_max c /\ 0 < c_max c)) (out s).
Proof.
  intros I Hck. destruct (inv_shape _ _ I) as (C & U & Q & [So Si SC SU SQ Sm Sf Ss Se]).
  pose proof (inv_cack _ _ I Hck) as Hs. rewrite (Ss Hs) in So. cbn [app] in So.
  rewrite So. apply Forall_app. split.
  - eapply Forall_impl; [|exact (Se Hck)]. cbn beta. intros a Ha. left. exact Ha.
  - destruct Q as [|x Q]; [constructor|]. destruct (Sf ltac:(discriminate)) as [Hpos Hfull].
    eapply Forall_impl; [|exact SQ]. cbn beta. intros a Ha. right.
    split; [exact Ha|]. split; [lia | exact Hpos].
Qed.

(* the same, for the states actually reached by conforming histories *)
Theorem c12_no_idle_slot_reachable c ops : cfg_ok c = true -> conforming c ops = true ->
  let s := fst (run c ops) in
  cack s = true ->
  Forall (fun m => is_wait m = true \/
                   (is_queued m = true /\ inflight s = c_max c /\ 0 < c_max c)) (out s).
Proof.
  intros Hcfg Hc s Hck. apply c12_no_idle_slot; [|assumption].
  apply inv_reachable; assumption.
Qed.

Print Assumptions c12_window_proved.
Print Assumptions c12_queue_proved.
Print Assumptions c12_no_idle_slot.
Print Assumptions c12_no_idle_slot_reachable.
