(* The theorem statements of the Session properties, fixed here so that proof files cannot
   quietly weaken them.  [optrace c ops] is the op-structured trace of the model run;
   [conforming] is the broker-conformance predicate of Model.v; the checkers are in Check.v. *)
From PahoV Require Import Base.Prelude Session.Model Session.Check.

Definition C01_stmt : Prop := forall c ops,
  cfg_ok c = true -> conforming c ops = true -> c01_ok c (optrace c ops) = true.

Definition C02_stmt : Prop := forall c ops,
  cfg_ok c = true -> conforming c ops = true -> c02_ok c (optrace c ops) = true.

Definition C03_stmt : Prop := forall c ops,
  c03_ok c (optrace c ops) = true.     (* arbitrary histories: no conformance hypothesis *)

Definition C12_window_stmt : Prop := forall c ops,
  cfg_ok c = true -> conforming c ops = true -> c12_window_ok c (optrace c ops) = true.

Definition C12_queue_stmt : Prop := forall c ops,
  cfg_ok c = true -> conforming c ops = true -> c12_queue_ok c (optrace c ops) = true.

Definition C13_stmt : Prop := forall c ops,
  cfg_ok c = true -> conforming c ops = true -> c13_ok c (optrace c ops) = true.
