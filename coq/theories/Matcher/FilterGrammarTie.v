(* C11 x C19: the two hand-written readings of the topic-filter grammar - Codec/ValidateSpec.v
   (spec_filter_ok: what subscribe() must accept, C19) and Matcher/TrieSpec.v (valid_filter: the filters
   the matching theorems quantify over, C11) - were written independently, with different splitters and
   different per-level tests.  They are the same grammar, up to the 65535-byte bound that only the wire
   format imposes: so every filter subscribe() accepts is one the matching theorems of C11 speak about. *)
From PahoV Require Import Base.Prelude Codec.Validate Codec.ValidateSpec Codec.ValidateProofs
  Matcher.Level Matcher.TrieSpec.

Lemma memz_mem c s : memz c s = mem c s.
Proof. unfold mem. induction s as [|x s IH]; cbn [memz existsb]; [reflexivity|]. rewrite IH. reflexivity. Qed.

Lemma spec_level_ok_alt is_last l :
  spec_level_ok is_last l =
  (if memz HASH l then is_hash l && is_last else true) && (if memz PLUS l then is_plus l else true).
Proof.
  unfold spec_level_ok, is_hash, is_plus, level_eqb, lvl_hash, lvl_plus, HASH, PLUS.
  destruct (zlist_eqb l [43]) eqn:E1.
  - apply zlist_eqb_eq in E1; subst l. reflexivity.
  - destruct (zlist_eqb l [35]) eqn:E2.
    + apply zlist_eqb_eq in E2; subst l. cbn. rewrite andb_true_r. reflexivity.
    + rewrite <- !memz_mem. destruct (memz 35 l), (memz 43 l); reflexivity.
Qed.

Lemma levels_ok_same ls : spec_levels_ok ls = filter_levels_ok ls.
Proof.
  induction ls as [|p [|q rest] IH].
  - reflexivity.
  - cbn [spec_levels_ok filter_levels_ok is_nil]. rewrite spec_level_ok_alt, !andb_true_r. reflexivity.
  - change (spec_levels_ok (p :: q :: rest)) with (spec_level_ok false p && spec_levels_ok (q :: rest)).
    rewrite IH, spec_level_ok_alt. cbn [filter_levels_ok is_nil]. reflexivity.
Qed.

Theorem filter_grammars_agree s :
  spec_filter_ok s = valid_filter s && (Z.of_nat (length s) <=? 65535).
Proof.
  unfold spec_filter_ok, valid_filter, split_slash, SLASH. rewrite spec_levels_split, levels_ok_same.
  destruct s as [|c s]; [reflexivity|]. cbn [length Nat.eqb is_nil negb andb].
  apply andb_comm.
Qed.

(* the same for topic names: every non-empty topic publish() accepts is a valid topic name of C11 *)
Lemma memz_false_notin c s : memz c s = false <-> ~ In c s.
Proof.
  induction s as [|x s IH]; cbn [memz In]; [tauto|].
  rewrite orb_false_iff, IH. split.
  - intros [H1 H2] [H|H]; [lia|tauto].
  - intros H; split; [destruct (x =? c) eqn:E; [exfalso; apply H; left; lia|reflexivity] | tauto].
Qed.

Theorem accepted_topics_are_valid t : topic_check t = Ok 0 -> t <> [] -> valid_topic t = true.
Proof.
  intros H Hne. apply topic_grammar in H as (Hp & Hh & _).
  unfold valid_topic, PLUS, HASH. apply memz_false_notin in Hp, Hh. rewrite Hp, Hh.
  destruct t; [congruence|reflexivity].
Qed.
