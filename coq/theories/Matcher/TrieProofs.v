(* C11 part (b): the trie refines a finite map from filters (level lists) to values.
   abstraction [abs], invariant [wf], get/set/del against the reference dictionary of TrieSpec.v.
   All statements are for arbitrary depth, arbitrary bytes, arbitrary values. *)
From PahoV Require Import Base.Prelude Matcher.Level Matcher.Trie Matcher.TrieSpec Matcher.AlistProofs.
From Coq Require Import Permutation.

Section Refine.
Variable V : Type.
Notation node := (node V).
Implicit Types (n m : node) (ch : list (level * node)) (v : V).

(* ---------------------------------------------------------------- induction on the nested type *)
Section NodeInd.
  Variable P : node -> Prop.
  Hypothesis HNode : forall c ch, Forall (fun kc => P (snd kc)) ch -> P (Node c ch).

  Fixpoint node_ind' (n : node) : P n :=
    match n with
    | Node c ch =>
        HNode c ch
          ((fix go (l : list (level * node)) : Forall (fun kc => P (snd kc)) l :=
              match l with
              | [] => Forall_nil _
              | kc :: l' => Forall_cons kc (node_ind' (snd kc)) (go l')
              end) ch)
    end.
End NodeInd.

(* ---------------------------------------------------------------- abstraction *)
Definition pk (k : level) (fv : list level * V) : list level * V := (k :: fst fv, snd fv).

Definition opt_entry (c : option V) : list (list level * V) :=
  match c with Some v => [([], v)] | None => [] end.

(* the stored (filter, value) pairs: the node's own content under the empty path, then every
   child's pairs with the child's key in front *)
Fixpoint abs (n : node) : list (list level * V) :=
  match n with
  | Node c ch =>
      opt_entry c ++
      (fix go (l : list (level * node)) : list (list level * V) :=
         match l with
         | [] => []
         | kc :: l' => map (pk (fst kc)) (abs (snd kc)) ++ go l'
         end) ch
  end.

Definition abs_children (ch : list (level * node)) : list (list level * V) :=
  flat_map (fun kc => map (pk (fst kc)) (abs (snd kc))) ch.

Lemma abs_eq c ch : abs (Node c ch) = opt_entry c ++ abs_children ch.
Proof.
  reflexivity.   (* the inner fix is flat_map, up to conversion *)
Qed.

Lemma abs_node n : abs n = opt_entry (content n) ++ abs_children (children n).
Proof. destruct n. apply abs_eq. Qed.

(* ---------------------------------------------------------------- invariant
   children key-unique at every node (what a dict guarantees), and no non-root node without
   content and without children (what the pruning loop of __delitem__ maintains) *)
Inductive wf : node -> Prop :=
| wf_node c ch :
    NoDup (map fst ch) ->
    (forall k n, In (k, n) ch -> wf n) ->
    (forall k n, In (k, n) ch -> prunable n = false) ->
    wf (Node c ch).

Lemma wf_inv n :
  wf n -> NoDup (map fst (children n)) /\
          (forall k c, In (k, c) (children n) -> wf c) /\
          (forall k c, In (k, c) (children n) -> prunable c = false).
Proof. intro H. inversion H; subst. simpl. auto. Qed.

Lemma wf_child n k c : wf n -> alist_get k (children n) = Some c -> wf c /\ prunable c = false.
Proof.
  intros W E. apply wf_inv in W as (_ & W1 & W2). apply alist_get_in in E. split; eauto.
Qed.

Lemma wf_empty : wf empty.
Proof. constructor; simpl; [constructor | intros ? ? [] | intros ? ? []]. Qed.

(* ---------------------------------------------------------------- get / set *)
Lemma get_empty ks : get_levels ks (@empty V) = None.
Proof. destruct ks; reflexivity. Qed.

Lemma get_prunable ks n : prunable n = true -> get_levels ks n = None.
Proof.
  destruct n as [c ch]. unfold prunable; simpl. intro H. apply andb_true_iff in H as [H1 H2].
  apply is_nil_true in H1; subst ch. destruct c; [discriminate|]. destruct ks; reflexivity.
Qed.

Lemma get_set ks' v : forall ks n,
  get_levels ks (set_levels ks' v n) = if levels_eqb ks ks' then Some v else get_levels ks n.
Proof.
  induction ks' as [|k' r' IH]; intros ks n.
  - destruct ks as [|k r]; reflexivity.
  - destruct ks as [|k r]; [reflexivity|].
    cbn [set_levels get_levels children levels_eqb].
    destruct (level_eqb k k') eqn:E.
    + apply level_eqb_eq in E; subst k'. rewrite alist_get_set_same, IH. cbn [andb].
      destruct (levels_eqb r r'); [reflexivity|].
      destruct (alist_get k (children n)); [reflexivity | apply get_empty].
    + apply level_eqb_neq in E. rewrite alist_get_set_other by exact E. reflexivity.
Qed.

Lemma set_not_prunable ks v n : prunable (set_levels ks v n) = false.
Proof.
  destruct ks as [|k r]; unfold prunable; simpl.
  - apply andb_false_r.
  - rewrite alist_set_not_nil. reflexivity.
Qed.

Lemma wf_set ks v : forall n, wf n -> wf (set_levels ks v n).
Proof.
  induction ks as [|k r IH]; intros n W.
  - destruct n as [c ch]. inversion W; subst. constructor; assumption.
  - cbn [set_levels]. pose proof (wf_inv n W) as (ND & W1 & W2).
    assert (Wc : wf (match alist_get k (children n) with Some c => c | None => empty end)).
    { destruct (alist_get k (children n)) eqn:E; [eapply wf_child; eassumption | apply wf_empty]. }
    constructor.
    + apply alist_set_NoDup. exact ND.
    + intros k2 n2 Hin. apply alist_set_in in Hin as [[_ ->]|Hin]; [apply IH; exact Wc | eauto].
    + intros k2 n2 Hin. apply alist_set_in in Hin as [[_ ->]|Hin]; [apply set_not_prunable | eauto].
Qed.

(* ---------------------------------------------------------------- del: the two loops as one recursion *)
Fixpoint del_rec (ks : list level) (n : node) : option node :=
  match ks with
  | [] => Some (Node None (children n))
  | k :: ks' =>
      match alist_get k (children n) with
      | None => None
      | Some c =>
          match del_rec ks' c with
          | None => None
          | Some c' =>
              Some (Node (content n)
                         (if prunable c' then alist_del k (children n)
                          else alist_set k c' (children n)))
          end
      end
  end.

(* once the loop has hit `break` nothing changes any more: the rebuilt ancestors are not prunable *)
Lemma cleanup_stopped frames (cur : node) :
  prunable cur = false -> cleanup frames cur true = cleanup frames cur false.
Proof. intro H. destruct frames as [|[p k] fr]; simpl; [reflexivity|]. rewrite H. reflexivity. Qed.

Lemma del_levels_gen ks : forall (n : node) acc,
  match descend ks n acc with
  | None => None
  | Some (m, fr) => Some (cleanup fr (Node None (children m)) false)
  end = option_map (fun n' => cleanup acc n' false) (del_rec ks n).
Proof.
  induction ks as [|k r IH]; intros n acc; [reflexivity|].
  cbn [descend del_rec]. destruct (alist_get k (children n)) as [c|]; [|reflexivity].
  rewrite IH. destruct (del_rec r c) as [c'|]; [|reflexivity].
  cbn [option_map cleanup negb andb]. destruct (prunable c') eqn:Ep; [reflexivity|].
  rewrite cleanup_stopped; [reflexivity|]. unfold prunable; simpl. rewrite alist_set_not_nil. reflexivity.
Qed.

Lemma del_levels_rec ks (t : node) : del_levels ks t = del_rec ks t.
Proof.
  unfold del_levels. rewrite (del_levels_gen ks t []).
  destruct (del_rec ks t); reflexivity.
Qed.

Lemma get_del ks' : forall ks n n',
  del_rec ks' n = Some n' ->
  get_levels ks n' = if levels_eqb ks ks' then None else get_levels ks n.
Proof.
  induction ks' as [|k' r' IH]; intros ks n n' H.
  - inversion H; subst. destruct ks; reflexivity.
  - cbn [del_rec] in H. destruct (alist_get k' (children n)) as [c|] eqn:Ec; [|discriminate].
    destruct (del_rec r' c) as [c'|] eqn:Ed; [|discriminate]. inversion H; subst n'; clear H.
    destruct ks as [|k r]; [reflexivity|].
    cbn [get_levels children levels_eqb].
    destruct (level_eqb k k') eqn:E.
    + apply level_eqb_eq in E; subst k'. rewrite Ec. cbn [andb]. pose proof (IH r c c' Ed) as IHr.
      destruct (prunable c') eqn:Ep.
      * rewrite alist_get_del_same. rewrite (get_prunable r c' Ep) in IHr.
        destruct (levels_eqb r r'); [reflexivity | exact IHr].
      * rewrite alist_get_set_same. exact IHr.
    + apply level_eqb_neq in E. cbn [andb].
      destruct (prunable c'); [rewrite alist_get_del_other by exact E | rewrite alist_get_set_other by exact E];
        reflexivity.
Qed.

(* KeyError exactly when the path is missing; a stored key is always deletable *)
Lemma del_none_get ks : forall n, del_rec ks n = None -> get_levels ks n = None.
Proof.
  induction ks as [|k r IH]; intros n H; [discriminate|].
  cbn [del_rec get_levels] in *. destruct (alist_get k (children n)) as [c|]; [|reflexivity].
  destruct (del_rec r c) eqn:Ed; [discriminate|]. apply IH. exact Ed.
Qed.

Lemma wf_del ks : forall n n', wf n -> del_rec ks n = Some n' -> wf n'.
Proof.
  induction ks as [|k r IH]; intros n n' W H.
  - inversion H; subst. destruct n as [c ch]. inversion W; subst. constructor; assumption.
  - cbn [del_rec] in H. destruct (alist_get k (children n)) as [c|] eqn:Ec; [|discriminate].
    destruct (del_rec r c) as [c'|] eqn:Ed; [|discriminate]. inversion H; subst n'; clear H.
    pose proof (wf_inv n W) as (ND & W1 & W2).
    destruct (wf_child n k c W Ec) as [Wc _]. pose proof (IH c c' Wc Ed) as Wc'.
    destruct (prunable c') eqn:Ep; constructor.
    + apply alist_del_NoDup; exact ND.
    + intros k2 n2 Hin. apply alist_del_in in Hin as [_ Hin]. eauto.
    + intros k2 n2 Hin. apply alist_del_in in Hin as [_ Hin]. eauto.
    + apply alist_set_NoDup; exact ND.
    + intros k2 n2 Hin. apply alist_set_in in Hin as [[_ ->]|Hin]; [exact Wc' | eauto].
    + intros k2 n2 Hin. apply alist_set_in in Hin as [[_ ->]|Hin]; [exact Ep | eauto].
Qed.

(* deleting a filter that is not stored: KeyError, or the structurally identical trie *)
Lemma del_absent ks : forall n, wf n -> get_levels ks n = None ->
  del_rec ks n = None \/ del_rec ks n = Some n.
Proof.
  induction ks as [|k r IH]; intros n W G.
  - right. destruct n as [c ch]. simpl in G; subst c. reflexivity.
  - cbn [del_rec get_levels] in *. destruct (alist_get k (children n)) as [c|] eqn:Ec; [|left; reflexivity].
    destruct (wf_child n k c W Ec) as [Wc Pc].
    destruct (IH c Wc G) as [H|H]; rewrite H; [left; reflexivity|]. right.
    rewrite Pc, (alist_set_same k c _ Ec). destruct n; reflexivity.
Qed.

(* ---------------------------------------------------------------- lookups in abs *)
Lemma d_lookup_app k (d1 d2 : dict V) :
  d_lookup k (d1 ++ d2) = match d_lookup k d1 with Some v => Some v | None => d_lookup k d2 end.
Proof.
  induction d1 as [|[k' v] d1 IH]; simpl; [reflexivity|]. destruct (levels_eqb k k'); [reflexivity | exact IH].
Qed.

Lemma d_lookup_pk_nil k (d : dict V) : d_lookup [] (map (pk k) d) = None.
Proof. induction d as [|[f v] d IH]; simpl; [reflexivity | exact IH]. Qed.

Lemma d_lookup_pk k k' r (d : dict V) :
  d_lookup (k :: r) (map (pk k') d) = if level_eqb k k' then d_lookup r d else None.
Proof.
  induction d as [|[f v] d IH]; simpl; [destruct (level_eqb k k'); reflexivity|].
  destruct (level_eqb k k') eqn:E; simpl; [|exact IH].
  destruct (levels_eqb r f); [reflexivity|]. rewrite IH. reflexivity.
Qed.

Lemma d_lookup_children_nil ch : d_lookup [] (abs_children ch) = None.
Proof.
  unfold abs_children. induction ch as [|[k c] ch IH]; simpl; [reflexivity|].
  rewrite d_lookup_app, d_lookup_pk_nil. exact IH.
Qed.

Lemma d_lookup_children k r ch : NoDup (map fst ch) ->
  d_lookup (k :: r) (abs_children ch) =
  match alist_get k ch with Some c => d_lookup r (abs c) | None => None end.
Proof.
  unfold abs_children. induction ch as [|[k1 c1] ch IH]; simpl; intro ND; [reflexivity|].
  inversion ND; subst. rewrite d_lookup_app, d_lookup_pk, (IH H2).
  destruct (level_eqb k k1) eqn:E; [|reflexivity].
  apply level_eqb_eq in E; subst k1.
  destruct (d_lookup r (abs c1)); [reflexivity|].
  apply alist_get_none in H1. rewrite H1. reflexivity.
Qed.

(* __getitem__ is the lookup in the abstract map *)
Lemma get_abs ks : forall n, wf n -> get_levels ks n = d_lookup ks (abs n).
Proof.
  induction ks as [|k r IH]; intros n W; rewrite abs_node.
  - destruct n as [[v|] ch]; simpl; [reflexivity|]. symmetry. apply d_lookup_children_nil.
  - pose proof (wf_inv n W) as (ND & W1 & _).
    rewrite d_lookup_app.
    replace (d_lookup (k :: r) (opt_entry (content n))) with (@None V) by (destruct (content n); reflexivity).
    rewrite d_lookup_children by exact ND. cbn [get_levels].
    destruct (alist_get k (children n)) as [c|] eqn:Ec; [|reflexivity].
    apply IH. eapply wf_child; eassumption.
Qed.

(* ---------------------------------------------------------------- abs is key-unique *)
Lemma abs_children_keys_in f ch :
  In f (map fst (abs_children ch)) -> exists k r, f = k :: r /\ In k (map fst ch).
Proof.
  unfold abs_children. intro H. apply in_map_iff in H as [[f' v] [H1 H2]]. simpl in H1; subst f'.
  apply in_flat_map in H2 as [[k c] [H2 H3]]. apply in_map_iff in H3 as [[r v'] [H3 H4]].
  inversion H3; subst. exists k, r. split; [reflexivity|]. change k with (fst (k, c)). apply in_map. exact H2.
Qed.

Lemma abs_keys_NoDup n : wf n -> NoDup (map fst (abs n)).
Proof.
  induction 1 as [c ch ND W1 IH W2]. rewrite abs_eq, map_app.
  apply NoDup_app_intro.
  - destruct c; simpl; constructor; [intros [] | constructor].
  - clear W2. unfold abs_children. induction ch as [|[k1 c1] ch IHch]; simpl; [constructor|].
    inversion ND; subst. rewrite map_app. apply NoDup_app_intro.
    + rewrite map_map. simpl.
      rewrite <- (map_map fst (cons k1)). apply NoDup_map_inj; [intros x y E; inversion E; reflexivity|].
      apply (IH k1 c1). left; reflexivity.
    + apply IHch; [assumption | | ]; intros k n Hin; [apply (W1 k n) | apply (IH k n)]; right; exact Hin.
    + intros f Hf1 Hf2. apply abs_children_keys_in in Hf2 as (k & r & -> & Hk).
      apply in_map_iff in Hf1 as [[f' v] [E1 E2]]. apply in_map_iff in E2 as [[r' v'] [E2 _]].
      inversion E2; subst. simpl in E1. inversion E1; subst. contradiction.
  - intros f Hf1 Hf2. apply abs_children_keys_in in Hf2 as (k & r & -> & _).
    destruct c; simpl in Hf1; [destruct Hf1 as [Hf1|[]]; discriminate | destruct Hf1].
Qed.

(* ---------------------------------------------------------------- dictionaries *)
Lemma d_lookup_in k v (d : dict V) : d_lookup k d = Some v -> In (k, v) d.
Proof.
  induction d as [|[k' v'] d IH]; simpl; [discriminate|].
  destruct (levels_eqb k k') eqn:E.
  - apply levels_eqb_eq in E; subst. intro H; inversion H; subst. left; reflexivity.
  - intro H. right. apply IH. exact H.
Qed.

Lemma d_in_lookup k v (d : dict V) : NoDup (map fst d) -> In (k, v) d -> d_lookup k d = Some v.
Proof.
  induction d as [|[k' v'] d IH]; simpl; [intros _ []|].
  intros ND [H|H].
  - inversion H; subst. rewrite levels_eqb_refl. reflexivity.
  - inversion ND; subst. destruct (levels_eqb k k') eqn:E.
    + apply levels_eqb_eq in E; subst. exfalso. apply H2. change k' with (fst (k', v)). apply in_map. exact H.
    + apply IH; assumption.
Qed.

(* two key-unique dictionaries with the same lookups hold the same pairs *)
Lemma dict_ext_perm (d1 d2 : dict V) :
  NoDup (map fst d1) -> NoDup (map fst d2) ->
  (forall k, d_lookup k d1 = d_lookup k d2) -> Permutation d1 d2.
Proof.
  intros N1 N2 H. apply NoDup_Permutation.
  - eapply NoDup_map_inv; exact N1.
  - eapply NoDup_map_inv; exact N2.
  - intros [k v]. split; intro Hin.
    + apply d_lookup_in. rewrite <- H. apply d_in_lookup; assumption.
    + apply d_lookup_in. rewrite H. apply d_in_lookup; assumption.
Qed.

Lemma d_lookup_perm k (d1 d2 : dict V) :
  NoDup (map fst d1) -> Permutation d1 d2 -> d_lookup k d1 = d_lookup k d2.
Proof.
  intros N1 P.
  assert (N2 : NoDup (map fst d2)) by (eapply Permutation_NoDup; [apply Permutation_map; exact P | exact N1]).
  destruct (d_lookup k d1) as [v|] eqn:E1.
  - symmetry. apply d_in_lookup; [exact N2|]. eapply Permutation_in; [exact P|]. apply d_lookup_in; exact E1.
  - destruct (d_lookup k d2) as [v|] eqn:E2; [|reflexivity].
    apply d_lookup_in in E2. apply (Permutation_in _ (Permutation_sym P)) in E2.
    apply (d_in_lookup _ _ _ N1) in E2. congruence.
Qed.

Lemma d_remove_in k k' v (d : dict V) : In (k', v) (d_remove k d) -> k' <> k /\ In (k', v) d.
Proof.
  induction d as [|[k2 v2] d IH]; simpl; [intros []|].
  destruct (levels_eqb k k2) eqn:E; simpl.
  - intro H. destruct (IH H). split; [assumption | right; assumption].
  - intros [H|H].
    + inversion H; subst. apply levels_eqb_neq in E. split; [congruence | left; reflexivity].
    + destruct (IH H). split; [assumption | right; assumption].
Qed.

Lemma d_remove_NoDup k (d : dict V) : NoDup (map fst d) -> NoDup (map fst (d_remove k d)).
Proof.
  induction d as [|[k2 v2] d IH]; simpl; intro ND; [constructor|].
  inversion ND; subst. destruct (levels_eqb k k2); simpl; [apply IH; assumption|].
  constructor; [|apply IH; assumption]. intro H. apply in_map_iff in H as [[k3 v3] [E1 E2]].
  simpl in E1; subst k3. apply d_remove_in in E2 as [_ E2]. apply H1.
  change k2 with (fst (k2, v3)). apply in_map. exact E2.
Qed.

Lemma d_lookup_remove k k' (d : dict V) :
  d_lookup k (d_remove k' d) = if levels_eqb k k' then None else d_lookup k d.
Proof.
  induction d as [|[k2 v2] d IH]; simpl; [destruct (levels_eqb k k'); reflexivity|].
  destruct (levels_eqb k' k2) eqn:E2; simpl.
  - apply levels_eqb_eq in E2; subst k2. rewrite IH. destruct (levels_eqb k k'); reflexivity.
  - destruct (levels_eqb k k2) eqn:E; [|exact IH].
    apply levels_eqb_eq in E; subst k2. destruct (levels_eqb k k') eqn:E3; [|reflexivity].
    apply levels_eqb_eq in E3; subst k'. rewrite levels_eqb_refl in E2. discriminate.
Qed.

Lemma d_insert_NoDup k v (d : dict V) : NoDup (map fst d) -> NoDup (map fst (d_insert k v d)).
Proof.
  intro ND. unfold d_insert. simpl. constructor; [|apply d_remove_NoDup; exact ND].
  intro H. apply in_map_iff in H as [[k3 v3] [E1 E2]]. simpl in E1; subst k3.
  apply d_remove_in in E2 as [E2 _]. congruence.
Qed.

Lemma d_lookup_insert k k' v (d : dict V) :
  d_lookup k (d_insert k' v d) = if levels_eqb k k' then Some v else d_lookup k d.
Proof.
  unfold d_insert. simpl. destruct (levels_eqb k k') eqn:E; [reflexivity|].
  rewrite d_lookup_remove, E. reflexivity.
Qed.

(* ---------------------------------------------------------------- abs of set / del *)
Lemma abs_set ks v n : wf n ->
  Permutation (abs (set_levels ks v n)) (d_insert ks v (abs n)).
Proof.
  intro W. apply dict_ext_perm.
  - apply abs_keys_NoDup, wf_set, W.
  - apply d_insert_NoDup, abs_keys_NoDup, W.
  - intro k. rewrite <- get_abs by (apply wf_set, W). rewrite get_set, d_lookup_insert, <- get_abs by exact W.
    reflexivity.
Qed.

Lemma abs_del ks n n' : wf n -> del_rec ks n = Some n' ->
  Permutation (abs n') (d_remove ks (abs n)).
Proof.
  intros W H. pose proof (wf_del ks n n' W H) as W'. apply dict_ext_perm.
  - apply abs_keys_NoDup, W'.
  - apply d_remove_NoDup, abs_keys_NoDup, W.
  - intro k. rewrite <- get_abs by exact W'. rewrite (get_del ks k n n' H), d_lookup_remove, <- get_abs by exact W.
    reflexivity.
Qed.

(* ---------------------------------------------------------------- the invariant as a boolean
   (decidable; proved equivalent to [wf] with the induction principle for the nested type) *)
Fixpoint mem_level (k : level) (l : list level) : bool :=
  match l with [] => false | x :: l' => level_eqb k x || mem_level k l' end.

Fixpoint nodupb (l : list level) : bool :=
  match l with [] => true | x :: l' => negb (mem_level x l') && nodupb l' end.

Fixpoint wfb (n : node) : bool :=
  match n with
  | Node c ch =>
      nodupb (map fst ch)
      && (fix go (l : list (level * node)) : bool :=
            match l with
            | [] => true
            | kc :: l' => (wfb (snd kc) && negb (prunable (snd kc))) && go l'
            end) ch
  end.

Lemma wfb_eq c ch :
  wfb (Node c ch) = nodupb (map fst ch) && forallb (fun kc => wfb (snd kc) && negb (prunable (snd kc))) ch.
Proof. reflexivity. Qed.

Lemma mem_level_spec k l : mem_level k l = true <-> In k l.
Proof.
  induction l as [|x l IH]; simpl; [split; [discriminate | intros []]|].
  rewrite orb_true_iff, IH, level_eqb_eq. split; intros [H|H]; auto.
Qed.

Lemma nodupb_spec l : nodupb l = true <-> NoDup l.
Proof.
  induction l as [|x l IH]; simpl; [split; [constructor | reflexivity]|].
  rewrite andb_true_iff, negb_true_iff, IH. split.
  - intros [H1 H2]. constructor; [|exact H2]. intro Hin. apply mem_level_spec in Hin. congruence.
  - intro H. inversion H; subst. split; [|assumption].
    destruct (mem_level x l) eqn:E; [|reflexivity]. apply mem_level_spec in E. contradiction.
Qed.

Lemma wfb_spec n : wfb n = true <-> wf n.
Proof.
  induction n as [c ch IH] using node_ind'. rewrite wfb_eq, andb_true_iff, nodupb_spec, forallb_forall.
  rewrite Forall_forall in IH. split.
  - intros [ND H]. constructor; [exact ND | |]; intros k n Hin; specialize (H _ Hin); simpl in H;
      apply andb_true_iff in H as [H1 H2].
    + apply (IH _ Hin). exact H1.
    + apply negb_true_iff in H2. exact H2.
  - intro W. inversion W as [c' ch' ND W1 W2]; subst. split; [exact ND|].
    intros [k n] Hin. simpl. apply andb_true_iff. split.
    + apply (IH _ Hin). simpl. eapply W1; exact Hin.
    + apply negb_true_iff. eapply W2; exact Hin.
Qed.

End Refine.

Arguments abs {V} n.
Arguments abs_children {V} ch.
Arguments wf {V} n.
Arguments wfb {V} n.
Arguments del_rec {V} ks n.
Arguments pk {V} k fv.
Arguments opt_entry {V} c.
