(* C11: the hand-written matching specification (TrieSpec.spec_match) read back against the clauses of
   the property text, for ALL filters and topics - so that the specification the matcher and the trie
   are proved equal to is itself pinned down by laws, not only by the OASIS examples. *)
From PahoV Require Import Base.Prelude Matcher.Level Matcher.TrieSpec.

Lemma level_eqb_refl x : level_eqb x x = true.
Proof. apply zlist_eqb_eq; reflexivity. Qed.

Lemma level_eqb_true x y : level_eqb x y = true <-> x = y.
Proof. apply zlist_eqb_eq. Qed.

Lemma levels_eqb_true a : forall b, levels_eqb a b = true <-> a = b.
Proof.
  induction a as [|x a IH]; intros [|y b]; cbn [levels_eqb]; split; intros H; try reflexivity; try discriminate.
  - apply andb_true_iff in H as [H1 H2]. apply level_eqb_true in H1. apply IH in H2. congruence.
  - inv H. rewrite level_eqb_refl. cbn [andb]. apply IH; reflexivity.
Qed.

(* a level that is neither "+" nor "#" *)
Definition lit (x : level) : bool := negb (is_plus x) && negb (is_hash x).

(* '+' stands for exactly one level - any one, also the empty one *)
Lemma plus_one_level f y t :
  match_levels (lvl_plus :: f) (y :: t) = match_levels f t.
Proof. cbn [match_levels]. change (is_hash lvl_plus) with false. change (is_plus lvl_plus) with true. reflexivity. Qed.

Lemma plus_needs_a_level f : match_levels (lvl_plus :: f) [] = false.
Proof. cbn [match_levels]. change (is_hash lvl_plus) with false. reflexivity. Qed.

(* a literal level matches exactly the byte-identical level (case-sensitively: bytes are compared) *)
Lemma literal_level x f y t : lit x = true ->
  match_levels (x :: f) (y :: t) = level_eqb x y && match_levels f t.
Proof.
  unfold lit; intros H. apply andb_true_iff in H as [Hp Hh].
  apply negb_true_iff in Hp, Hh. cbn [match_levels]. rewrite Hp, Hh. reflexivity.
Qed.

(* a filter without wildcards matches its own level list and nothing else *)
Lemma literal_filter f : forallb lit f = true -> forall t, match_levels f t = levels_eqb f t.
Proof.
  induction f as [|x f IH]; intros Hf t.
  - destruct t; reflexivity.
  - cbn [forallb] in Hf. apply andb_true_iff in Hf as [Hx Hf].
    destruct t as [|y t].
    + cbn [match_levels levels_eqb]. unfold lit in Hx. apply andb_true_iff in Hx as [_ Hh].
      apply negb_true_iff in Hh. rewrite Hh. reflexivity.
    + rewrite literal_level by assumption. cbn [levels_eqb]. rewrite IH by assumption. reflexivity.
Qed.

(* a trailing '#' matches the parent and any number of further levels ... *)
Lemma hash_parent_and_children p : forall rest, match_levels (p ++ [lvl_hash]) (p ++ rest) = true.
Proof.
  induction p as [|x p IH]; intros rest.
  - reflexivity.
  - cbn [app match_levels]. destruct (is_hash x && is_nil (p ++ [lvl_hash])); [reflexivity|].
    rewrite level_eqb_refl, orb_true_r. cbn [andb]. apply IH.
Qed.

(* ... and, behind a literal prefix, nothing else *)
Lemma hash_only_below_parent p : forallb lit p = true -> forall t,
  match_levels (p ++ [lvl_hash]) t = true -> exists rest, t = p ++ rest.
Proof.
  induction p as [|x p IH]; intros Hp t H.
  - exists t; reflexivity.
  - cbn [forallb] in Hp. apply andb_true_iff in Hp as [Hx Hp].
    cbn [app] in H. destruct t as [|y t].
    + cbn [match_levels] in H. unfold lit in Hx. apply andb_true_iff in Hx as [_ Hh].
      apply negb_true_iff in Hh. rewrite Hh in H. discriminate.
    + rewrite literal_level in H by assumption. apply andb_true_iff in H as [H1 H2].
      apply level_eqb_true in H1. destruct (IH Hp t H2) as [rest ->]. exists rest. subst; reflexivity.
Qed.

(* "#" alone matches every topic that does not begin with '$' *)
Lemma hash_alone t : dollar_topic t = false -> spec_match [lvl_hash] t = true.
Proof. intros H. unfold spec_match. rewrite H, andb_false_r. reflexivity. Qed.

(* a wildcard in the first level never matches a topic beginning with '$' ... *)
Lemma dollar_rule f t : first_wild f = true -> dollar_topic t = true -> spec_match f t = false.
Proof. intros Hf Ht. unfold spec_match. rewrite Hf, Ht. apply andb_false_r. Qed.

(* ... and that is the only effect of '$': everywhere else the level-wise match decides *)
Lemma dollar_rule_only f t : first_wild f && dollar_topic t = false -> spec_match f t = match_levels f t.
Proof. intros H. unfold spec_match. rewrite H. apply andb_true_r. Qed.
