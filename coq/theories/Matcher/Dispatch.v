(* C15: model of per-topic message callbacks (client.py message_callback_add / message_callback_remove
   2989-3036, _handle_on_message 4476-4514) over the trie of Trie.v with callback ids (Z) as values.
   Model and the property checker only; proofs are in DispatchProofs.v.

   def message_callback_add(self, sub, callback):
       with self._callback_mutex: self._on_message_filtered[sub] = callback
   def message_callback_remove(self, sub):
       with self._callback_mutex:
           try: del self._on_message_filtered[sub]
           except KeyError: pass
   def _handle_on_message(self, message):
       try: topic = message.topic                      # bytes.decode('utf-8')
       except UnicodeDecodeError: topic = None
       on_message_callbacks = []
       with self._callback_mutex:
           if topic is not None:
               on_message_callbacks = list(self._on_message_filtered.iter_match(message.topic))
           if len(on_message_callbacks) == 0: on_message = self.on_message
           else: on_message = None
       for callback in on_message_callbacks: callback(self, self._userdata, message)
       if on_message: on_message(self, self._userdata, message)

   The list of handlers to run is fixed (a snapshot) before the first of them runs; what a handler
   does to the registrations affects later messages only.
   Every handler runs inside its own try/except: with suppress_exceptions an exception is logged and the
   remaining handlers still run; without it the exception propagates and ends the dispatch ([cut]). *)
From PahoV Require Import Base.Prelude Matcher.Level Matcher.Trie Matcher.TrieSpec.

(* a registration change: the API calls, usable from the main program and from inside a callback *)
Inductive regop : Type :=
| RAdd (filter : list Z) (cb : Z)        (* message_callback_add(filter, cb_<id>)  - insert or replace *)
| RRemove (filter : list Z)              (* message_callback_remove(filter) *)
| RSetOnMessage (present : bool).        (* client.on_message = f / None *)

Record cstate : Type := { filtered : node Z; on_message : bool }.

(* Client.__init__: self._on_message_filtered = MQTTMatcher(); self._on_message = None *)
Definition c_init : cstate := {| filtered := empty; on_message := false |}.

Definition reg_step (o : regop) (s : cstate) : cstate :=
  match o with
  | RAdd f cb => {| filtered := t_set f cb (filtered s); on_message := on_message s |}
  | RRemove f => {| filtered := match t_del f (filtered s) with Some t => t | None => filtered s end;
                    on_message := on_message s |}
  | RSetOnMessage b => {| filtered := filtered s; on_message := b |}
  end.

Fixpoint reg_steps (os : list regop) (s : cstate) : cstate :=
  match os with
  | [] => s
  | o :: os' => reg_steps os' (reg_step o s)
  end.

(* who gets called for one message *)
Inductive handler : Type :=
| HFiltered (cb : Z)
| HOnMessage.

(* _handle_on_message: the handlers invoked, in invocation order.
   [decodable] = message._topic.decode('utf-8') succeeds (computed by the harness with Python's codec). *)
Definition dispatch (s : cstate) (decodable : bool) (topic : list Z) : list handler :=
  let on_message_callbacks := if decodable then iter_match (filtered s) topic else [] in
  map HFiltered on_message_callbacks
  ++ (if is_nil on_message_callbacks && on_message s then [HOnMessage] else []).

(* histories: registration changes from the main program, and deliveries of inbound messages.
   [inner] = what the handlers invoked for this message do to the registrations from inside the
   callback: the j-th invoked handler performs the j-th list (nothing if there is none). *)
Inductive hop : Type :=
| HReg (o : regop)
| HDeliver (topic : list Z) (decodable : bool) (inner : list (list regop)) (raises : list bool).
                                 (* raises: does the j-th invoked handler raise (after its registration changes) *)

(* the handlers that actually run when exceptions propagate: up to and including the first one that raises *)
Fixpoint cut (raises : list bool) (l : list handler) : list handler :=
  match l with
  | [] => []
  | h :: l' =>
      match raises with
      | true :: _ => [h]
      | _ :: r' => h :: cut r' l'
      | [] => h :: l'
      end
  end.

(* the log: what was executed, in execution order; LDeliver is written when the dispatch starts
   and lists every handler the dispatch runs *)
Inductive logev : Type :=
| LReg (o : regop)
| LDeliver (topic : list Z) (decodable : bool) (ran : list handler).

(* [suppress] = client.suppress_exceptions *)
Definition h_step (suppress : bool) (o : hop) (s : cstate) : cstate * list logev :=
  match o with
  | HReg r => (reg_step r s, [LReg r])
  | HDeliver topic decodable inner raises =>
      let all := dispatch s decodable topic in
      let ran := if suppress then all else cut raises all in
      let executed := concat (firstn (length ran) inner) in
      (reg_steps executed s, LDeliver topic decodable ran :: map LReg executed)
  end.

Fixpoint h_run (suppress : bool) (h : list hop) (s : cstate) : cstate * list logev :=
  match h with
  | [] => (s, [])
  | o :: h' =>
      let (s1, l1) := h_step suppress o s in
      let (s2, l2) := h_run suppress h' s1 in
      (s2, l1 ++ l2)
  end.

Definition h_log (suppress : bool) (h : list hop) : list logev := snd (h_run suppress h c_init).

(* ---------------------------------------------------------------- the property as a checker on logs
   (also extracted, so that logs recorded from the real client are judged by the same function) *)

(* multiset equality of two lists of callback ids *)
Fixpoint remove_one (x : Z) (l : list Z) : option (list Z) :=
  match l with
  | [] => None
  | y :: l' => if x =? y then Some l'
               else match remove_one x l' with Some r => Some (y :: r) | None => None end
  end.

Fixpoint perm_zb (l1 l2 : list Z) : bool :=
  match l1 with
  | [] => is_nil l2
  | x :: l1' => match remove_one x l2 with Some l2' => perm_zb l1' l2' | None => false end
  end.

Fixpoint ran_filtered (ran : list handler) : list Z :=
  match ran with
  | [] => []
  | HFiltered cb :: r => cb :: ran_filtered r
  | HOnMessage :: r => ran_filtered r
  end.

Fixpoint ran_on_message (ran : list handler) : Z :=
  match ran with
  | [] => 0
  | HFiltered _ :: r => ran_on_message r
  | HOnMessage :: r => 1 + ran_on_message r
  end.

(* one delivery against the registrations [d] (filter -> callback id) in force when it started:
   the filtered callbacks that ran are, as a multiset, exactly the callbacks of the registered
   filters matching the topic (each registration once; none for an undecodable topic);
   on_message ran once if there is no such registration and on_message is set, else not at all *)
Definition delivery_ok (d : dict Z) (on_msg : bool) (topic : list Z) (decodable : bool) (ran : list handler) : bool :=
  let expected := if decodable then d_matching d (split_slash topic) else [] in
  perm_zb (ran_filtered ran) expected
  && (ran_on_message ran =? (if is_nil expected && on_msg then 1 else 0)).

(* replay the registration changes of the log on the reference dictionary and judge every delivery *)
Fixpoint c15_ok_from (d : dict Z) (on_msg : bool) (log : list logev) : bool :=
  match log with
  | [] => true
  | LReg (RAdd f cb) :: l => c15_ok_from (d_insert (split_slash f) cb d) on_msg l
  | LReg (RRemove f) :: l => c15_ok_from (d_remove (split_slash f) d) on_msg l
  | LReg (RSetOnMessage b) :: l => c15_ok_from d b l
  | LDeliver topic decodable ran :: l =>
      delivery_ok d on_msg topic decodable ran && c15_ok_from d on_msg l
  end.

Definition c15_ok (log : list logev) : bool := c15_ok_from [] false log.

(* hypothesis of the theorem: every decodable delivered topic is a valid topic name
   (MQTT-3.3.2-2: a PUBLISH topic name must not contain wildcard characters) *)
Fixpoint deliveries_valid (h : list hop) : bool :=
  match h with
  | [] => true
  | HReg _ :: h' => deliveries_valid h'
  | HDeliver topic decodable _ _ :: h' => (negb decodable || valid_topic topic) && deliveries_valid h'
  end.

(* no handler raises *)
Fixpoint no_raise (h : list hop) : bool :=
  match h with
  | [] => true
  | HReg _ :: h' => no_raise h'
  | HDeliver _ _ _ raises :: h' => negb (existsb (fun b => b) raises) && no_raise h'
  end.
