(* M4 Matcher: executable model of paho.mqtt.matcher.MQTTMatcher (matcher.py, 78 lines) and of
   client.py topic_matches_sub.  Model only, no proofs (see TrieProofs.v / MatchProofs.v).

   class Node: _children = {} (dict level -> Node), _content = None | value
   A Python dict is modelled by an association list in insertion order: `alist_set` replaces the
   binding in place or appends a new one at the end, `alist_del` removes it - exactly the order
   a CPython dict keeps.  No observable of MQTTMatcher depends on that order (children are only
   probed by key).  Values are never None (None is the "no content" marker of the source). *)
From PahoV Require Import Base.Prelude Matcher.Level.

(* ---------------------------------------------------------------- dict as association list *)
Fixpoint alist_get {A} (k : level) (l : list (level * A)) : option A :=
  match l with
  | [] => None
  | (k', a) :: l' => if level_eqb k k' then Some a else alist_get k l'
  end.

(* d[k] = a *)
Fixpoint alist_set {A} (k : level) (a : A) (l : list (level * A)) : list (level * A) :=
  match l with
  | [] => [(k, a)]
  | (k', a') :: l' => if level_eqb k k' then (k, a) :: l' else (k', a') :: alist_set k a l'
  end.

(* del d[k] *)
Fixpoint alist_del {A} (k : level) (l : list (level * A)) : list (level * A) :=
  match l with
  | [] => []
  | (k', a') :: l' => if level_eqb k k' then alist_del k l' else (k', a') :: alist_del k l'
  end.

Definition opt_list {A} (o : option A) : list A :=
  match o with Some a => [a] | None => [] end.

Section Trie.
Variable V : Type.

Inductive node : Type :=
| Node (content : option V) (children : list (level * node)).

Definition content (n : node) : option V := match n with Node c _ => c end.
Definition children (n : node) : list (level * node) := match n with Node _ ch => ch end.

(* MQTTMatcher.Node() / MQTTMatcher()._root *)
Definition empty : node := Node None [].

(* ---------------------------------------------------------------- __setitem__ (19-25)
     node = self._root
     for sym in key.split('/'): node = node._children.setdefault(sym, self.Node())
     node._content = value *)
Fixpoint set_levels (ks : list level) (v : V) (n : node) : node :=
  match ks with
  | [] => Node (Some v) (children n)
  | k :: ks' =>
      let c := match alist_get k (children n) with Some c => c | None => empty end in
      Node (content n) (alist_set k (set_levels ks' v c) (children n))
  end.

Definition t_set (key : list Z) (v : V) (t : node) : node :=
  set_levels (split_slash key) v t.

(* ---------------------------------------------------------------- __getitem__ (27-37)
   None = KeyError (missing child, or node without content).  Reads only. *)
Fixpoint get_levels (ks : list level) (n : node) : option V :=
  match ks with
  | [] => content n
  | k :: ks' =>
      match alist_get k (children n) with
      | Some c => get_levels ks' c
      | None => None
      end
  end.

Definition t_get (key : list Z) (t : node) : option V := get_levels (split_slash key) t.

(* ---------------------------------------------------------------- __delitem__ (39-55)
     lst = []
     parent, node = None, self._root
     for k in key.split('/'):
         parent, node = node, node._children[k]        # KeyError -> re-raised, nothing mutated yet
         lst.append((parent, k, node))
     node._content = None                               # also when it was None already: no KeyError
     for parent, k, node in reversed(lst):              # cleanup
         if node._children or node._content is not None: break
         del parent._children[k]

   `descend` is the first loop; it returns the reached node and reversed(lst) as the list of
   (parent, k) frames, innermost first.  `cleanup` is the second loop over those frames: `cur` is
   the (already updated) node of the frame; `stopped` is the `break`.  Python mutates in place, the
   model rebuilds the parent with the updated child. *)
Definition prunable (n : node) : bool := is_nil (children n) && is_none (content n).

Fixpoint descend (ks : list level) (n : node) (acc : list (node * level))
  : option (node * list (node * level)) :=
  match ks with
  | [] => Some (n, acc)
  | k :: ks' =>
      match alist_get k (children n) with
      | Some c => descend ks' c ((n, k) :: acc)
      | None => None
      end
  end.

Fixpoint cleanup (frames : list (node * level)) (cur : node) (stopped : bool) : node :=
  match frames with
  | [] => cur
  | (parent, k) :: frames' =>
      if negb stopped && prunable cur
      then cleanup frames' (Node (content parent) (alist_del k (children parent))) false
      else cleanup frames' (Node (content parent) (alist_set k cur (children parent))) true
  end.

(* None = KeyError raised (the trie is untouched in that case) *)
Definition del_levels (ks : list level) (t : node) : option node :=
  match descend ks t [] with
  | None => None
  | Some (n, frames) => Some (cleanup frames (Node None (children n)) false)
  end.

Definition t_del (key : list Z) (t : node) : option node := del_levels (split_slash key) t.

(* ---------------------------------------------------------------- iter_match (57-78)
     lst = topic.split('/'); normal = not topic.startswith('$')
     def rec(node, i=0):
         if i == len(lst):
             if node._content is not None: yield node._content
         else:
             part = lst[i]
             if part in node._children: yield from rec(node._children[part], i + 1)
             if '+' in node._children and (normal or i > 0): yield from rec(node._children['+'], i + 1)
         if '#' in node._children and (normal or i > 0):
             content = node._children['#']._content
             if content is not None: yield content
   `rec_match` is `rec`; `rest` is lst[i:].  The list is the sequence of yielded values, in yield order. *)
Fixpoint rec_match (normal : bool) (rest : list level) (i : Z) (n : node) : list V :=
  (match rest with
   | [] => opt_list (content n)
   | part :: rest' =>
       (match alist_get part (children n) with
        | Some c => rec_match normal rest' (i + 1) c
        | None => []
        end)
       ++
       (match alist_get lvl_plus (children n) with
        | Some c => if normal || (i >? 0) then rec_match normal rest' (i + 1) c else []
        | None => []
        end)
   end)
  ++
  (match alist_get lvl_hash (children n) with
   | Some c => if normal || (i >? 0) then opt_list (content c) else []
   | None => []
   end).

Definition iter_match (t : node) (topic : list Z) : list V :=
  rec_match (negb (starts_dollar topic)) (split_slash topic) 0 t.

(* ---------------------------------------------------------------- operation sequences *)
Inductive t_op : Type :=
| OSet (key : list Z) (v : V)      (* m[key] = v          (insert or overwrite) *)
| ODel (key : list Z)              (* del m[key]          (KeyError possible)   *)
| OGet (key : list Z)              (* m[key]              (KeyError possible)   *)
| OIter (topic : list Z).          (* list(m.iter_match(topic))                 *)

Inductive opres : Type :=
| RDone                            (* statement completed, no value *)
| RKeyError
| RVal (v : V)
| RVals (vs : list V).

Definition t_step (o : t_op) (t : node) : node * opres :=
  match o with
  | OSet k v => (t_set k v t, RDone)
  | ODel k => match t_del k t with Some t' => (t', RDone) | None => (t, RKeyError) end
  | OGet k => (t, match t_get k t with Some v => RVal v | None => RKeyError end)
  | OIter topic => (t, RVals (iter_match t topic))
  end.

(* the trie after the whole sequence *)
Fixpoint t_run (ops : list t_op) (t : node) : node :=
  match ops with
  | [] => t
  | o :: ops' => t_run ops' (fst (t_step o t))
  end.

(* every intermediate trie and result, oldest first (used by the correspondence) *)
Fixpoint t_run_trace (ops : list t_op) (t : node) : list (node * opres) :=
  match ops with
  | [] => []
  | o :: ops' => let r := t_step o t in r :: t_run_trace ops' (fst r)
  end.

End Trie.

Arguments Node {V} content children.
Arguments content {V} n.
Arguments children {V} n.
Arguments empty {V}.
Arguments set_levels {V} ks v n.
Arguments t_set {V} key v t.
Arguments get_levels {V} ks n.
Arguments t_get {V} key t.
Arguments prunable {V} n.
Arguments descend {V} ks n acc.
Arguments cleanup {V} frames cur stopped.
Arguments del_levels {V} ks t.
Arguments t_del {V} key t.
Arguments rec_match {V} normal rest i n.
Arguments iter_match {V} t topic.
Arguments OSet {V} key v.
Arguments ODel {V} key.
Arguments OGet {V} key.
Arguments OIter {V} topic.
Arguments RDone {V}.
Arguments RKeyError {V}.
Arguments RVal {V} v.
Arguments RVals {V} vs.
Arguments t_step {V} o t.
Arguments t_run {V} ops t.
Arguments t_run_trace {V} ops t.

(* ---------------------------------------------------------------- client.py topic_matches_sub (423-437)
     matcher = MQTTMatcher(); matcher[sub] = True
     try: next(matcher.iter_match(topic)); return True
     except StopIteration: return False *)
Definition topic_matches_sub (sub topic : list Z) : bool :=
  let matcher := t_set sub true empty in
  negb (is_nil (iter_match matcher topic)).
