(* C15: every delivery of every history runs exactly the registered callbacks whose filter
   spec-matches the topic (each registration once), on_message iff there is none, and only
   on_message for an undecodable topic.  Corollary of C11 (the sim lemmas of TrieRefine.v) plus the dispatch lemma. *)
From PahoV Require Import Base.Prelude Matcher.Level Matcher.Trie Matcher.TrieSpec
  Matcher.AlistProofs Matcher.TrieProofs Matcher.MatchProofs Matcher.TrieRefine Matcher.Dispatch.
From Coq Require Import Permutation.

(* ---------------------------------------------------------------- the multiset test is exact *)
Lemma remove_one_perm x l l' : remove_one x l = Some l' -> Permutation l (x :: l').
Proof.
  revert l'. induction l as [|y l IH]; intros l' H; simpl in H; [discriminate|].
  destruct (x =? y) eqn:E.
  - apply Z.eqb_eq in E; subst y. inversion H; subst. reflexivity.
  - destruct (remove_one x l) as [r|]; [|discriminate]. inversion H; subst.
    etransitivity; [apply perm_skip; apply IH; reflexivity|]. apply perm_swap.
Qed.

Lemma remove_one_in x l : In x l -> exists l', remove_one x l = Some l'.
Proof.
  induction l as [|y l IH]; simpl; [intros []|]. intro H.
  destruct (x =? y) eqn:E; [eexists; reflexivity|].
  destruct H as [H|H]; [subst; rewrite Z.eqb_refl in E; discriminate|].
  destruct (IH H) as [r ->]. eexists; reflexivity.
Qed.

Lemma perm_zb_complete l1 : forall l2, perm_zb l1 l2 = true -> Permutation l1 l2.
Proof.
  induction l1 as [|x l1 IH]; intros l2 H; simpl in H.
  - apply is_nil_true in H; subst. constructor.
  - destruct (remove_one x l2) as [l2'|] eqn:E; [|discriminate].
    apply remove_one_perm in E. symmetry. etransitivity; [exact E|]. apply perm_skip. symmetry. apply IH, H.
Qed.

Lemma perm_zb_sound l1 : forall l2, Permutation l1 l2 -> perm_zb l1 l2 = true.
Proof.
  induction l1 as [|x l1 IH]; intros l2 P; simpl.
  - apply Permutation_nil in P; subst. reflexivity.
  - assert (Hin : In x l2) by (eapply Permutation_in; [exact P | left; reflexivity]).
    destruct (remove_one_in x l2 Hin) as [l2' E]. rewrite E. apply IH.
    apply remove_one_perm in E. apply (Permutation_cons_inv (a := x)). etransitivity; eassumption.
Qed.

Lemma perm_zb_iff l1 l2 : perm_zb l1 l2 = true <-> Permutation l1 l2.
Proof. split; [apply perm_zb_complete | apply perm_zb_sound]. Qed.

(* ---------------------------------------------------------------- what a dispatch runs *)
Lemma ran_filtered_app a b : ran_filtered (a ++ b) = ran_filtered a ++ ran_filtered b.
Proof. induction a as [|[cb|] a IH]; simpl; [reflexivity | rewrite IH; reflexivity | exact IH]. Qed.

Lemma ran_filtered_map cbs : ran_filtered (map HFiltered cbs) = cbs.
Proof. induction cbs as [|c cbs IH]; simpl; [reflexivity | rewrite IH; reflexivity]. Qed.

Lemma ran_on_message_app a b : ran_on_message (a ++ b) = ran_on_message a + ran_on_message b.
Proof. induction a as [|[cb|] a IH]; simpl; [reflexivity | exact IH | rewrite IH; lia]. Qed.

Lemma ran_on_message_map cbs : ran_on_message (map HFiltered cbs) = 0.
Proof. induction cbs as [|c cbs IH]; simpl; [reflexivity | exact IH]. Qed.

Lemma dispatch_filtered s dec topic :
  ran_filtered (dispatch s dec topic) = if dec then iter_match (filtered s) topic else [].
Proof.
  unfold dispatch. cbv zeta. rewrite ran_filtered_app, ran_filtered_map.
  destruct (is_nil _ && on_message s); simpl; apply app_nil_r.
Qed.

Lemma dispatch_on_message s dec topic :
  ran_on_message (dispatch s dec topic) =
  if is_nil (if dec then iter_match (filtered s) topic else []) && on_message s then 1 else 0.
Proof.
  unfold dispatch. cbv zeta. rewrite ran_on_message_app, ran_on_message_map.
  destruct (is_nil _ && on_message s); reflexivity.
Qed.

(* a message whose topic is not valid UTF-8 goes to on_message only *)
Lemma dispatch_undecodable s topic :
  dispatch s false topic = if on_message s then [HOnMessage] else [].
Proof. reflexivity. Qed.

(* the state represents the registrations [d] and the on_message flag *)
Definition c_sim (s : cstate) (d : dict Z) (on_msg : bool) : Prop :=
  sim (filtered s) d /\ on_message s = on_msg.

Lemma c_sim_init : c_sim c_init [] false.
Proof. split; [apply sim_empty | reflexivity]. Qed.

Lemma is_nil_perm {A} (l l' : list A) : Permutation l l' -> is_nil l = is_nil l'.
Proof.
  intro P. destruct l, l'; try reflexivity.
  - apply Permutation_nil in P. discriminate.
  - apply Permutation_sym, Permutation_nil in P. discriminate.
Qed.

(* the dispatch lemma, explicit form *)
Lemma dispatch_spec s d on_msg topic :
  c_sim s d on_msg -> no_wild_level (split_slash topic) = true ->
  let ran := dispatch s true topic in
  let expected := d_matching d (split_slash topic) in
  Permutation (ran_filtered ran) expected
  /\ ran_on_message ran = (if is_nil expected && on_msg then 1 else 0).
Proof.
  intros [S O] NW. cbv zeta. rewrite dispatch_filtered, dispatch_on_message.
  pose proof (sim_iter_match_levels Z _ _ topic S NW) as P.
  split; [exact P|]. rewrite (is_nil_perm _ _ P), O. reflexivity.
Qed.

Lemma dispatch_ok s d on_msg topic dec :
  c_sim s d on_msg -> (negb dec || valid_topic topic) = true ->
  delivery_ok d on_msg topic dec (dispatch s dec topic) = true.
Proof.
  intros S H. unfold delivery_ok. cbv zeta. destruct dec.
  - simpl in H. apply valid_topic_no_wild in H.
    destruct (dispatch_spec s d on_msg topic S H) as [P E].
    apply andb_true_iff. split; [apply perm_zb_sound; exact P | rewrite E; apply Z.eqb_refl].
  - destruct S as [_ O]. rewrite dispatch_undecodable. cbn [is_nil andb].
    rewrite O. destruct on_msg; reflexivity.
Qed.

(* ---------------------------------------------------------------- registration changes *)
Definition reg_d (o : regop) (st : dict Z * bool) : dict Z * bool :=
  match o with
  | RAdd f cb => (d_insert (split_slash f) cb (fst st), snd st)
  | RRemove f => (d_remove (split_slash f) (fst st), snd st)
  | RSetOnMessage b => (fst st, b)
  end.

Lemma c15_ok_from_reg d on_msg o l :
  c15_ok_from d on_msg (LReg o :: l) = c15_ok_from (fst (reg_d o (d, on_msg))) (snd (reg_d o (d, on_msg))) l.
Proof. destruct o; reflexivity. Qed.

Lemma reg_step_sim o s d on_msg :
  c_sim s d on_msg -> c_sim (reg_step o s) (fst (reg_d o (d, on_msg))) (snd (reg_d o (d, on_msg))).
Proof.
  intros [S O]. destruct o as [f cb|f|b]; cbn [reg_step reg_d fst snd]; split; cbn [filtered on_message]; try assumption.
  - apply sim_set. exact S.
  - apply (sim_del Z _ _ (split_slash f) S).
  - reflexivity.
Qed.

Lemma regs_ok rs : forall s d on_msg, c_sim s d on_msg ->
  exists d' on_msg', c_sim (reg_steps rs s) d' on_msg' /\
    forall l, c15_ok_from d on_msg (map LReg rs ++ l) = c15_ok_from d' on_msg' l.
Proof.
  induction rs as [|o rs IH]; intros s d on_msg S.
  - exists d, on_msg. split; [exact S | reflexivity].
  - destruct (IH _ _ _ (reg_step_sim o s d on_msg S)) as (d' & on_msg' & S' & H).
    exists d', on_msg'. split; [exact S'|]. intro l. cbn [map app]. rewrite c15_ok_from_reg. apply H.
Qed.

(* ---------------------------------------------------------------- all histories *)
Lemma h_run_cons sup o h s :
  h_run sup (o :: h) s =
  (fst (h_run sup h (fst (h_step sup o s))), snd (h_step sup o s) ++ snd (h_run sup h (fst (h_step sup o s)))).
Proof.
  cbn [h_run]. destruct (h_step sup o s) as [s1 l1]. cbn [fst snd]. destruct (h_run sup h s1) as [s2 l2]. reflexivity.
Qed.

(* when no handler raises, nothing is cut *)
Lemma cut_no_raise raises : existsb (fun b => b) raises = false -> forall l, cut raises l = l.
Proof.
  induction raises as [|b r IH]; intros H l.
  - destruct l; reflexivity.
  - cbn [existsb] in H. apply orb_false_iff in H as [Hb Hr]. subst b.
    destruct l as [|x l]; [reflexivity|]. cbn [cut]. rewrite (IH Hr l). reflexivity.
Qed.

(* suppress_exceptions, or handlers that do not raise: every delivery runs its whole snapshot *)
Lemma h_run_ok sup h : forall s d on_msg, c_sim s d on_msg -> deliveries_valid h = true ->
  sup = true \/ no_raise h = true ->
  c15_ok_from d on_msg (snd (h_run sup h s)) = true.
Proof.
  induction h as [|o h IH]; intros s d on_msg S DV NR; [reflexivity|].
  rewrite h_run_cons. cbn [snd]. destruct o as [r|topic dec inner raises].
  - cbn [h_step fst snd app]. rewrite c15_ok_from_reg.
    apply IH; [apply reg_step_sim; exact S | exact DV | destruct NR as [NR|NR]; [left; exact NR | right; exact NR]].
  - cbn [deliveries_valid] in DV. apply andb_true_iff in DV as [DV1 DV2].
    assert (Eran : (if sup then dispatch s dec topic else cut raises (dispatch s dec topic)) = dispatch s dec topic).
    { destruct NR as [->|NR]; [reflexivity|]. destruct sup; [reflexivity|].
      cbn [no_raise] in NR. apply andb_true_iff in NR as [NR _]. apply negb_true_iff in NR. apply cut_no_raise. exact NR. }
    assert (NR' : sup = true \/ no_raise h = true).
    { destruct NR as [NR|NR]; [left; exact NR|]. right. cbn [no_raise] in NR. apply andb_true_iff in NR as [_ NR]. exact NR. }
    cbn [h_step fst snd app c15_ok_from]. rewrite Eran. rewrite (dispatch_ok s d on_msg topic dec S DV1). cbn [andb].
    destruct (regs_ok (concat (firstn (length (dispatch s dec topic)) inner)) s d on_msg S)
      as (d' & on_msg' & S' & H).
    rewrite H. apply IH; assumption.
Qed.

Lemma c15_all_histories sup h : deliveries_valid h = true -> sup = true \/ no_raise h = true ->
  c15_ok (h_log sup h) = true.
Proof. intros DV NR. unfold c15_ok, h_log. apply h_run_ok; [apply c_sim_init | exact DV | exact NR]. Qed.

(* registration changes made inside the callbacks of a delivery do not alter what that delivery runs *)
Lemma dispatch_snapshot sup s topic dec inner inner' raises :
  hd (LDeliver [] false []) (snd (h_step sup (HDeliver topic dec inner raises) s)) =
  hd (LDeliver [] false []) (snd (h_step sup (HDeliver topic dec inner' raises) s)).
Proof. reflexivity. Qed.

(* Outside valid topic names: a PUBLISH whose topic carries a level "+" (forbidden by MQTT-3.3.2-2,
   never sent by a conforming broker, not rejected by the client) runs a matching callback twice. *)
Lemma c15_wildcard_topic_double :
  let h := [HReg (RAdd [97; 47; 43] 1); HDeliver [97; 47; 43] true [] []] in
  h_log true h = [LReg (RAdd [97; 47; 43] 1); LDeliver [97; 47; 43] true [HFiltered 1; HFiltered 1]]
  /\ c15_ok (h_log true h) = false.
Proof. split; reflexivity. Qed.

(* Outside the property: without suppress_exceptions a handler that raises ends the dispatch - the exception
   reaches the caller of loop_read() - and the remaining matching handlers do not run *)
Lemma c15_propagating_exception_cuts_dispatch :
  let h := [HReg (RAdd [97] 1); HReg (RAdd [43] 2); HDeliver [97] true [] [true]] in
  h_log false h = [LReg (RAdd [97] 1); LReg (RAdd [43] 2); LDeliver [97] true [HFiltered 1]]
  /\ c15_ok (h_log false h) = false
  /\ h_log true h = [LReg (RAdd [97] 1); LReg (RAdd [43] 2); LDeliver [97] true [HFiltered 1; HFiltered 2]]
  /\ c15_ok (h_log true h) = true.
Proof. repeat split; reflexivity. Qed.
