(* Lemmas about level equality, association lists (the model of a Python dict), '/'-splitting,
   and a few list/permutation facts missing from the 8.16 standard library. *)
From PahoV Require Import Base.Prelude Matcher.Level Matcher.Trie.
From Coq Require Import Permutation.

(* ---------------------------------------------------------------- equality tests *)
Lemma level_eqb_eq a b : level_eqb a b = true <-> a = b.
Proof. apply zlist_eqb_eq. Qed.

Lemma level_eqb_refl a : level_eqb a a = true.
Proof. apply level_eqb_eq; reflexivity. Qed.

Lemma level_eqb_neq a b : level_eqb a b = false <-> a <> b.
Proof.
  split; intro H.
  - intro E. apply level_eqb_eq in E. congruence.
  - destruct (level_eqb a b) eqn:E; [|reflexivity]. apply level_eqb_eq in E. contradiction.
Qed.

Lemma level_eqb_sym a b : level_eqb a b = level_eqb b a.
Proof.
  destruct (level_eqb a b) eqn:E.
  - apply level_eqb_eq in E; subst. symmetry; apply level_eqb_refl.
  - apply level_eqb_neq in E. symmetry. apply level_eqb_neq. congruence.
Qed.

Lemma levels_eqb_eq a b : levels_eqb a b = true <-> a = b.
Proof.
  revert b; induction a as [|x a IH]; intros [|y b]; simpl; split; intro H;
    try congruence; try reflexivity.
  - apply andb_true_iff in H as [H1 H2]. apply level_eqb_eq in H1. apply IH in H2. congruence.
  - inversion H; subst. apply andb_true_iff; split; [apply level_eqb_refl | apply IH; reflexivity].
Qed.

Lemma levels_eqb_refl a : levels_eqb a a = true.
Proof. apply levels_eqb_eq; reflexivity. Qed.

Lemma levels_eqb_neq a b : levels_eqb a b = false <-> a <> b.
Proof.
  split; intro H.
  - intro E. apply levels_eqb_eq in E. congruence.
  - destruct (levels_eqb a b) eqn:E; [|reflexivity]. apply levels_eqb_eq in E. contradiction.
Qed.

Lemma level_eq_dec (a b : level) : {a = b} + {a <> b}.
Proof.
  destruct (level_eqb a b) eqn:E; [left; apply level_eqb_eq; exact E | right; apply level_eqb_neq; exact E].
Qed.

Lemma plus_neq_hash : lvl_plus <> lvl_hash.
Proof. discriminate. Qed.

Lemma is_plus_true l : is_plus l = true <-> l = lvl_plus.
Proof. apply level_eqb_eq. Qed.

Lemma is_hash_true l : is_hash l = true <-> l = lvl_hash.
Proof. apply level_eqb_eq. Qed.

Lemma is_nil_true {A} (l : list A) : is_nil l = true <-> l = [].
Proof. destruct l; simpl; split; congruence. Qed.

(* ---------------------------------------------------------------- association lists *)
Section Alist.
Context {A : Type}.
Implicit Types (l : list (level * A)) (k : level) (a : A).

Lemma alist_get_set_same k a l : alist_get k (alist_set k a l) = Some a.
Proof.
  induction l as [|[k' a'] l IH]; simpl.
  - rewrite level_eqb_refl; reflexivity.
  - destruct (level_eqb k k') eqn:E; simpl.
    + rewrite level_eqb_refl; reflexivity.
    + rewrite E. exact IH.
Qed.

Lemma alist_get_set_other k k' a l : k <> k' -> alist_get k (alist_set k' a l) = alist_get k l.
Proof.
  intro N. induction l as [|[k2 a2] l IH]; simpl.
  - apply level_eqb_neq in N. rewrite N. reflexivity.
  - destruct (level_eqb k' k2) eqn:E; simpl.
    + apply level_eqb_eq in E; subst k2. apply level_eqb_neq in N. rewrite N. reflexivity.
    + destruct (level_eqb k k2); [reflexivity | exact IH].
Qed.

Lemma alist_get_del_same k l : alist_get k (alist_del k l) = None.
Proof.
  induction l as [|[k' a'] l IH]; simpl; [reflexivity|].
  destruct (level_eqb k k') eqn:E; simpl; [exact IH | rewrite E; exact IH].
Qed.

Lemma alist_get_del_other k k' l : k <> k' -> alist_get k (alist_del k' l) = alist_get k l.
Proof.
  intro N. induction l as [|[k2 a2] l IH]; simpl; [reflexivity|].
  destruct (level_eqb k' k2) eqn:E; simpl.
  - apply level_eqb_eq in E; subst k2. apply level_eqb_neq in N. rewrite N. exact IH.
  - destruct (level_eqb k k2); [reflexivity | exact IH].
Qed.

Lemma alist_get_none k l : alist_get k l = None <-> ~ In k (map fst l).
Proof.
  induction l as [|[k' a'] l IH]; simpl.
  - split; [intros _ []|reflexivity].
  - destruct (level_eqb k k') eqn:E.
    + apply level_eqb_eq in E; subst. split; [discriminate | intro H; exfalso; apply H; left; reflexivity].
    + apply level_eqb_neq in E. rewrite IH. split.
      * intros H [H1|H1]; [congruence | contradiction].
      * intros H H1. apply H. right. exact H1.
Qed.

Lemma alist_get_in k a l : alist_get k l = Some a -> In (k, a) l.
Proof.
  induction l as [|[k' a'] l IH]; simpl; [discriminate|].
  destruct (level_eqb k k') eqn:E.
  - apply level_eqb_eq in E; subst. intro H; inversion H; subst. left; reflexivity.
  - intro H. right. apply IH. exact H.
Qed.

Lemma alist_in_get k a l : NoDup (map fst l) -> In (k, a) l -> alist_get k l = Some a.
Proof.
  induction l as [|[k' a'] l IH]; simpl; [intros _ []|].
  intros ND [H|H].
  - inversion H; subst. rewrite level_eqb_refl. reflexivity.
  - inversion ND; subst. destruct (level_eqb k k') eqn:E.
    + apply level_eqb_eq in E; subst. exfalso. apply H2. change k' with (fst (k', a)). apply in_map. exact H.
    + apply IH; assumption.
Qed.

Lemma alist_set_same k a l : alist_get k l = Some a -> alist_set k a l = l.
Proof.
  induction l as [|[k' a'] l IH]; simpl; [discriminate|].
  destruct (level_eqb k k') eqn:E.
  - apply level_eqb_eq in E; subst. intro H; inversion H; subst. reflexivity.
  - intro H. rewrite IH by exact H. reflexivity.
Qed.

Lemma alist_del_absent k l : alist_get k l = None -> alist_del k l = l.
Proof.
  induction l as [|[k' a'] l IH]; simpl; [reflexivity|].
  destruct (level_eqb k k') eqn:E; [discriminate|].
  intro H. rewrite IH by exact H. reflexivity.
Qed.

Lemma alist_set_not_nil k a l : is_nil (alist_set k a l) = false.
Proof. destruct l as [|[k' a'] l]; simpl; [reflexivity|]. destruct (level_eqb k k'); reflexivity. Qed.

Lemma alist_set_in k a k' a' l :
  In (k', a') (alist_set k a l) -> (k' = k /\ a' = a) \/ In (k', a') l.
Proof.
  induction l as [|[k2 a2] l IH]; simpl.
  - intros [H|[]]. inversion H; subst. left; split; reflexivity.
  - destruct (level_eqb k k2) eqn:E; simpl.
    + intros [H|H]; [inversion H; subst; left; split; reflexivity | right; right; exact H].
    + intros [H|H]; [right; left; exact H|]. destruct (IH H) as [H1|H1]; [left; exact H1 | right; right; exact H1].
Qed.

Lemma alist_del_in k k' a' l : In (k', a') (alist_del k l) -> k' <> k /\ In (k', a') l.
Proof.
  induction l as [|[k2 a2] l IH]; simpl; [intros []|].
  destruct (level_eqb k k2) eqn:E; simpl.
  - intro H. destruct (IH H) as [H1 H2]. split; [exact H1 | right; exact H2].
  - intros [H|H].
    + inversion H; subst. apply level_eqb_neq in E. split; [congruence | left; reflexivity].
    + destruct (IH H) as [H1 H2]. split; [exact H1 | right; exact H2].
Qed.

Lemma alist_set_keys_in k a k' l :
  In k' (map fst (alist_set k a l)) -> k' = k \/ In k' (map fst l).
Proof.
  intro H. apply in_map_iff in H as [[k2 a2] [H1 H2]]. simpl in H1; subst k2.
  apply alist_set_in in H2 as [[H2 _]|H2]; [left; exact H2|].
  right. change k' with (fst (k', a2)). apply in_map. exact H2.
Qed.

Lemma alist_set_NoDup k a l : NoDup (map fst l) -> NoDup (map fst (alist_set k a l)).
Proof.
  induction l as [|[k' a'] l IH]; simpl; intro ND.
  - constructor; [intros [] | constructor].
  - inversion ND; subst. destruct (level_eqb k k') eqn:E; simpl.
    + apply level_eqb_eq in E; subst. constructor; assumption.
    + constructor; [|apply IH; assumption].
      intro H. apply alist_set_keys_in in H as [H|H]; [|contradiction].
      apply level_eqb_neq in E. congruence.
Qed.

Lemma alist_del_keys_in k k' l : In k' (map fst (alist_del k l)) -> In k' (map fst l).
Proof.
  intro H. apply in_map_iff in H as [[k2 a2] [H1 H2]]. simpl in H1; subst k2.
  apply alist_del_in in H2 as [_ H2]. change k' with (fst (k', a2)). apply in_map. exact H2.
Qed.

Lemma alist_del_NoDup k l : NoDup (map fst l) -> NoDup (map fst (alist_del k l)).
Proof.
  induction l as [|[k' a'] l IH]; simpl; intro ND; [constructor|].
  inversion ND; subst. destruct (level_eqb k k'); simpl; [apply IH; assumption|].
  constructor; [|apply IH; assumption]. intro H. apply alist_del_keys_in in H. contradiction.
Qed.

Lemma alist_perm_extract k a l :
  NoDup (map fst l) -> alist_get k l = Some a -> Permutation l ((k, a) :: alist_del k l).
Proof.
  induction l as [|[k' a'] l IH]; simpl; [discriminate|].
  intros ND H. inversion ND; subst. destruct (level_eqb k k') eqn:E.
  - apply level_eqb_eq in E; subst k'. inversion H; subst a'.
    rewrite alist_del_absent; [reflexivity|]. apply alist_get_none. assumption.
  - etransitivity; [apply perm_skip; apply IH; assumption|]. apply perm_swap.
Qed.

End Alist.

(* ---------------------------------------------------------------- list facts *)
Lemma Permutation_filter' {A} (p : A -> bool) (l l' : list A) :
  Permutation l l' -> Permutation (filter p l) (filter p l').
Proof.
  induction 1; simpl.
  - constructor.
  - destruct (p x); [apply perm_skip|]; assumption.
  - destruct (p x), (p y); try reflexivity; try apply perm_swap.
  - etransitivity; eassumption.
Qed.

Lemma NoDup_app_intro {A} (l1 l2 : list A) :
  NoDup l1 -> NoDup l2 -> (forall x, In x l1 -> In x l2 -> False) -> NoDup (l1 ++ l2).
Proof.
  induction l1 as [|x l1 IH]; simpl; intros N1 N2 D; [exact N2|].
  inversion N1; subst. constructor.
  - intro H. apply in_app_or in H as [H|H]; [contradiction|]. apply (D x); [left; reflexivity | exact H].
  - apply IH; [assumption | assumption |]. intros y Hy1 Hy2. apply (D y); [right; exact Hy1 | exact Hy2].
Qed.

Lemma NoDup_map_inj {A B} (f : A -> B) (l : list A) :
  (forall x y, f x = f y -> x = y) -> NoDup l -> NoDup (map f l).
Proof.
  intros Inj. induction 1 as [|x l Hx ND IH]; simpl; constructor; [|exact IH].
  intro H. apply in_map_iff in H as [y [Hy1 Hy2]]. apply Inj in Hy1. subst y. contradiction.
Qed.

Lemma filter_flat_map {A B} (p : B -> bool) (g : A -> list B) (l : list A) :
  filter p (flat_map g l) = flat_map (fun x => filter p (g x)) l.
Proof.
  induction l as [|x l IH]; simpl; [reflexivity|]. rewrite filter_app, IH. reflexivity.
Qed.

Lemma map_flat_map {A B C} (f : B -> C) (g : A -> list B) (l : list A) :
  map f (flat_map g l) = flat_map (fun x => map f (g x)) l.
Proof.
  induction l as [|x l IH]; simpl; [reflexivity|]. rewrite map_app, IH. reflexivity.
Qed.

Lemma filter_map_comm {A B} (p : B -> bool) (f : A -> B) (l : list A) :
  filter p (map f l) = map f (filter (fun x => p (f x)) l).
Proof.
  induction l as [|x l IH]; simpl; [reflexivity|]. destruct (p (f x)); simpl; rewrite IH; reflexivity.
Qed.

Lemma flat_map_nil_all {A B} (g : A -> list B) (l : list A) :
  (forall x, In x l -> g x = []) -> flat_map g l = [].
Proof.
  induction l as [|x l IH]; simpl; intro H; [reflexivity|].
  rewrite (H x) by (left; reflexivity). rewrite IH; [reflexivity|]. intros y Hy. apply H. right; exact Hy.
Qed.

Lemma flat_map_ext_in {A B} (g h : A -> list B) (l : list A) :
  (forall x, In x l -> g x = h x) -> flat_map g l = flat_map h l.
Proof.
  induction l as [|x l IH]; simpl; intro H; [reflexivity|].
  rewrite (H x) by (left; reflexivity). rewrite IH; [reflexivity|]. intros y Hy. apply H. right; exact Hy.
Qed.

Lemma Permutation_flat_map_l {A B} (g : A -> list B) (l l' : list A) :
  Permutation l l' -> Permutation (flat_map g l) (flat_map g l').
Proof.
  induction 1; simpl.
  - constructor.
  - apply Permutation_app_head. assumption.
  - rewrite !app_assoc. apply Permutation_app_tail. apply Permutation_app_comm.
  - etransitivity; eassumption.
Qed.

(* Selecting the children that can contribute: if [G] is empty for every binding whose key is
   outside the duplicate-free key list [ks], the concatenation over the (key-unique) association
   list is a permutation of the concatenation over [ks] of what is bound there. *)
Lemma alist_select {A B} (G : level -> A -> list B) (ks : list level) :
  NoDup ks -> forall (l : list (level * A)),
  NoDup (map fst l) ->
  (forall k a, In (k, a) l -> ~ In k ks -> G k a = []) ->
  Permutation (flat_map (fun ka => G (fst ka) (snd ka)) l)
              (flat_map (fun k => match alist_get k l with Some a => G k a | None => [] end) ks).
Proof.
  induction 1 as [|k ks Hk NDk IH]; intros l ND Hout.
  - simpl. rewrite flat_map_nil_all; [constructor|].
    intros [k a] Hin. simpl. apply Hout; [exact Hin | intros []].
  - simpl. destruct (alist_get k l) as [a|] eqn:E.
    + pose proof (alist_perm_extract k a l ND E) as P.
      etransitivity; [apply Permutation_flat_map_l; exact P|]. simpl.
      apply Permutation_app_head.
      etransitivity; [apply IH|].
      * apply alist_del_NoDup; exact ND.
      * intros k' a' Hin Hn. apply alist_del_in in Hin as [Hne Hin].
        apply Hout; [exact Hin|]. intros [H|H]; [congruence | contradiction].
      * apply Permutation_refl'. apply flat_map_ext_in. intros k' Hk'.
        rewrite alist_get_del_other; [reflexivity|]. intro; subst; contradiction.
    + etransitivity; [apply IH|].
      * exact ND.
      * intros k' a' Hin Hn. apply Hout; [exact Hin|]. intros [H|H]; [|contradiction].
        subst k'. apply alist_get_none in E. apply E. change k with (fst (k, a')). apply in_map. exact Hin.
      * reflexivity.
Qed.

(* ---------------------------------------------------------------- splitting at '/' *)
Lemma split_on_not_nil sep s : split_on sep s <> [].
Proof.
  induction s as [|c s IH]; simpl; [discriminate|].
  destruct (c =? sep); [discriminate|]. destruct (split_on sep s); [contradiction | discriminate].
Qed.

Lemma split_on_cons sep c s :
  split_on sep (c :: s) =
  if c =? sep then [] :: split_on sep s
  else (c :: hd [] (split_on sep s)) :: tl (split_on sep s).
Proof.
  simpl. destruct (c =? sep); [reflexivity|].
  pose proof (split_on_not_nil sep s). destruct (split_on sep s); [contradiction | reflexivity].
Qed.

Lemma split_slash_not_nil s : split_slash s <> [].
Proof. apply split_on_not_nil. Qed.

(* every byte of every level is a byte of the string, and none is the separator *)
Lemma split_on_bytes sep s l x : In l (split_on sep s) -> In x l -> In x s /\ x <> sep.
Proof.
  revert l. induction s as [|c s IH]; intros l Hl Hx.
  - simpl in Hl. destruct Hl as [Hl|[]]. subst l. destruct Hx.
  - rewrite split_on_cons in Hl. destruct (c =? sep) eqn:E.
    + destruct Hl as [Hl|Hl]; [subst l; destruct Hx|].
      destruct (IH l Hl Hx) as [H1 H2]. split; [right; exact H1 | exact H2].
    + pose proof (split_on_not_nil sep s) as NN.
      destruct (split_on sep s) as [|p ps] eqn:Es; [contradiction|]. simpl in Hl.
      destruct Hl as [Hl|Hl].
      * subst l. destruct Hx as [Hx|Hx].
        -- subst x. split; [left; reflexivity | lia].
        -- destruct (IH p (or_introl eq_refl) Hx) as [H1 H2]. split; [right; exact H1 | exact H2].
      * destruct (IH l (or_intror Hl) Hx) as [H1 H2]. split; [right; exact H1 | exact H2].
Qed.

(* '/'.join(s.split('/')) == s : distinct strings have distinct level lists *)
Lemma join_slash_cons2 l l2 ls : join_slash (l :: l2 :: ls) = l ++ SLASH :: join_slash (l2 :: ls).
Proof. reflexivity. Qed.

Lemma join_split s : join_slash (split_slash s) = s.
Proof.
  unfold split_slash. induction s as [|c s IH]; [reflexivity|].
  rewrite split_on_cons. pose proof (split_on_not_nil SLASH s) as NN.
  destruct (split_on SLASH s) as [|p ps] eqn:Es; [contradiction|].
  destruct (c =? SLASH) eqn:E.
  - apply Z.eqb_eq in E; subst c. rewrite join_slash_cons2. simpl. f_equal. exact IH.
  - cbn [hd tl]. destruct ps as [|q ps].
    + simpl in IH. simpl. f_equal. exact IH.
    + rewrite join_slash_cons2. change (c :: p ++ SLASH :: join_slash (q :: ps) = c :: s).
      f_equal. exact IH.
Qed.

Lemma split_slash_inj s s' : split_slash s = split_slash s' -> s = s'.
Proof. intro H. rewrite <- (join_split s), <- (join_split s'), H. reflexivity. Qed.

Lemma memz_in c s : memz c s = true <-> In c s.
Proof.
  induction s as [|x s IH]; simpl; [split; [discriminate | intros []]|].
  rewrite orb_true_iff, IH, Z.eqb_eq. reflexivity.
Qed.
