(* C11 parts (c) and (a): iter_match yields exactly the values of the stored filters that
   spec-match the topic, each once; topic_matches_sub is spec_match. *)
From PahoV Require Import Base.Prelude Matcher.Level Matcher.Trie Matcher.TrieSpec
  Matcher.AlistProofs Matcher.TrieProofs.
From Coq Require Import Permutation.

(* spec_match with the '$' rule abstracted into a flag: g = "the topic does not begin with '$'" *)
Definition gmatch (g : bool) (f t : list level) : bool :=
  match_levels f t && (g || negb (first_wild f)).

Lemma spec_match_gmatch f t : spec_match f t = gmatch (negb (dollar_topic t)) f t.
Proof.
  unfold spec_match, gmatch.
  destruct (match_levels f t), (first_wild f), (dollar_topic t); reflexivity.
Qed.

Lemma gmatch_true f t : gmatch true f t = match_levels f t.
Proof. unfold gmatch. simpl. apply andb_true_r. Qed.

Lemma gmatch_nil_nil g : gmatch g [] [] = true.
Proof. unfold gmatch; simpl. rewrite orb_true_r. reflexivity. Qed.

Lemma gmatch_nil_cons g p r : gmatch g [] (p :: r) = false.
Proof. reflexivity. Qed.

Lemma is_hash_hash : is_hash lvl_hash = true.
Proof. reflexivity. Qed.

Lemma is_plus_plus : is_plus lvl_plus = true.
Proof. reflexivity. Qed.

Lemma is_hash_plus : is_hash lvl_plus = false.
Proof. reflexivity. Qed.

Lemma is_plus_hash : is_plus lvl_hash = false.
Proof. reflexivity. Qed.

(* a stored '#' level against a topic whose next level (if any) is not "#" *)
Lemma gmatch_hash g f' t :
  match t with [] => True | y :: _ => is_hash y = false end ->
  gmatch g (lvl_hash :: f') t = is_nil f' && g.
Proof.
  intro H. unfold gmatch. cbn [match_levels first_wild]. rewrite is_hash_hash, is_plus_hash. cbn [andb orb negb].
  rewrite orb_false_r.
  destruct (is_nil f'); [reflexivity|]. destruct t as [|y t']; [reflexivity|].
  unfold is_hash in H. rewrite level_eqb_sym in H. rewrite H. reflexivity.
Qed.

Lemma gmatch_plus g f' part rest :
  gmatch g (lvl_plus :: f') (part :: rest) = match_levels f' rest && g.
Proof.
  unfold gmatch. cbn [match_levels first_wild]. rewrite is_hash_plus, is_plus_plus. cbn [andb orb negb].
  rewrite orb_false_r. reflexivity.
Qed.

Lemma gmatch_lit g f' part rest :
  is_plus part = false -> is_hash part = false ->
  gmatch g (part :: f') (part :: rest) = match_levels f' rest.
Proof.
  intros Hp Hh. unfold gmatch. cbn [match_levels first_wild]. rewrite Hp, Hh, level_eqb_refl. cbn [andb orb negb].
  rewrite orb_true_r. apply andb_true_r.
Qed.

Lemma gmatch_other_cons g k f' part rest :
  k <> part -> k <> lvl_plus -> k <> lvl_hash -> gmatch g (k :: f') (part :: rest) = false.
Proof.
  intros H1 H2 H3. unfold gmatch. cbn [match_levels].
  apply level_eqb_neq in H1, H2, H3. unfold is_hash, is_plus. rewrite H1, H2, H3. reflexivity.
Qed.

Lemma gmatch_other_nil g k f' : k <> lvl_hash -> gmatch g (k :: f') [] = false.
Proof.
  intros H3. unfold gmatch. cbn [match_levels]. apply level_eqb_neq in H3. unfold is_hash. rewrite H3. reflexivity.
Qed.

Section Match.
Variable V : Type.
Notation node := (node V).
Implicit Types (n : node) (d : dict V).

Definition matching_g (g : bool) d (t : list level) : list V :=
  map snd (filter (fun fv => gmatch g (fst fv) t) d).

Lemma d_matching_g d t : d_matching d t = matching_g (negb (dollar_topic t)) d t.
Proof.
  unfold d_matching, matching_g. f_equal. apply filter_ext. intro fv. apply spec_match_gmatch.
Qed.

(* contribution of the child bound to key k *)
Definition contrib (g : bool) (t : list level) (k : level) n : list V :=
  map snd (filter (fun fv => gmatch g (k :: fst fv) t) (abs n)).

Lemma matching_children g t (ch : list (level * node)) :
  matching_g g (abs_children ch) t = flat_map (fun kc => contrib g t (fst kc) (snd kc)) ch.
Proof.
  unfold matching_g, abs_children, contrib. rewrite filter_flat_map, map_flat_map.
  apply flat_map_ext. intros [k c]. cbn [fst snd].
  rewrite filter_map_comm, map_map. reflexivity.
Qed.

Lemma filter_nil_keys_children (ch : list (level * node)) :
  filter (fun fv => is_nil (fst fv)) (abs_children ch) = [].
Proof.
  unfold abs_children. rewrite filter_flat_map. apply flat_map_nil_all. intros [k c] _.
  cbn [fst snd]. rewrite filter_map_comm. cbn [pk fst is_nil].
  induction (abs c) as [|x l IH]; [reflexivity | exact IH].
Qed.

Lemma nil_entries n :
  map snd (filter (fun fv => is_nil (fst fv)) (abs n)) = opt_list (content n).
Proof.
  rewrite abs_node, filter_app, filter_nil_keys_children, app_nil_r.
  destruct (content n); reflexivity.
Qed.

Lemma contrib_hash g t n :
  match t with [] => True | y :: _ => is_hash y = false end ->
  contrib g t lvl_hash n = if g then opt_list (content n) else [].
Proof.
  intro H. unfold contrib.
  rewrite (filter_ext _ (fun fv => is_nil (fst fv) && g)) by (intro fv; apply gmatch_hash; exact H).
  destruct g.
  - rewrite (filter_ext _ (fun fv => is_nil (fst fv))) by (intro; apply andb_true_r). apply nil_entries.
  - rewrite (filter_ext _ (fun _ => false)) by (intro; apply andb_false_r).
    induction (abs n) as [|x l IH]; [reflexivity | exact IH].
Qed.

Lemma contrib_false g t k n :
  (forall f', gmatch g (k :: f') t = false) -> contrib g t k n = [].
Proof.
  intro H. unfold contrib. rewrite (filter_ext _ (fun _ => false)) by (intro; apply H).
  induction (abs n) as [|x l IH]; [reflexivity | exact IH].
Qed.

(* The heart of C11: by induction on the remaining topic levels, for every (sub)trie.
   [i] is the index of the Python code, only its sign matters. *)
Lemma rec_match_spec normal : forall lst n i,
  0 <= i -> wf n -> no_wild_level lst = true ->
  Permutation (rec_match normal lst i n) (matching_g (normal || (i >? 0)) (abs n) lst).
Proof.
  assert (Hsplit : forall g n lst, matching_g g (abs n) lst =
            map snd (filter (fun fv => gmatch g (fst fv) lst) (opt_entry (content n)))
            ++ flat_map (fun kc => contrib g lst (fst kc) (snd kc)) (children n)).
  { intros g n lst. rewrite <- matching_children. unfold matching_g.
    rewrite abs_node, filter_app, map_app. reflexivity. }
  induction lst as [|part rest IH]; intros n i Hi W NW;
    pose proof (wf_inv _ n W) as (ND & W1 & _);
    set (g := normal || (i >? 0));
    rewrite Hsplit.
  - (* topic exhausted: own content, then the content of a '#' child *)
    cbn [rec_match]. apply Permutation_app.
    + destruct (content n); simpl; [rewrite gmatch_nil_nil|]; reflexivity.
    + etransitivity; [|symmetry; apply (alist_select (contrib g []) [lvl_hash])].
      * cbn [flat_map]. rewrite app_nil_r.
        destruct (alist_get lvl_hash (children n)) as [c|]; [|reflexivity].
        rewrite contrib_hash by exact I. reflexivity.
      * constructor; [intros [] | constructor].
      * exact ND.
      * intros k a _ Hk. apply contrib_false. intro f'. apply gmatch_other_nil.
        intro; subst. apply Hk. left; reflexivity.
  - cbn [no_wild_level forallb] in NW. apply andb_true_iff in NW as [NW1 NW].
    apply andb_true_iff in NW1 as [Hp Hh]. apply negb_true_iff in Hp, Hh.
    assert (Npp : part <> lvl_plus) by (apply level_eqb_neq; exact Hp).
    assert (Nph : part <> lvl_hash) by (apply level_eqb_neq; exact Hh).
    assert (Hg1 : normal || (i + 1 >? 0) = true) by (apply orb_true_iff; right; lia).
    assert (Hrec : forall c : node, wf c ->
              Permutation (rec_match normal rest (i + 1) c)
                          (map snd (filter (fun fv => match_levels (fst fv) rest) (abs c)))).
    { intros c Wc. pose proof (IH c (i + 1) ltac:(lia) Wc NW) as P. rewrite Hg1 in P.
      unfold matching_g in P.
      rewrite (filter_ext _ (fun fv => match_levels (fst fv) rest)) in P by (intro; apply gmatch_true).
      exact P. }
    cbn [rec_match]. fold g.
    replace (map snd (filter (fun fv => gmatch g (fst fv) (part :: rest)) (opt_entry (content n))))
      with (@nil V) by (destruct (content n); reflexivity).
    cbn [app].
    etransitivity; [|symmetry; apply (alist_select (contrib g (part :: rest)) [part; lvl_plus; lvl_hash])].
    + cbn [flat_map]. rewrite app_nil_r, <- app_assoc.
      apply Permutation_app; [|apply Permutation_app].
      * (* literal child *)
        destruct (alist_get part (children n)) as [c|] eqn:Ec; [|reflexivity].
        unfold contrib.
        rewrite (filter_ext _ (fun fv => match_levels (fst fv) rest))
          by (intro; apply gmatch_lit; assumption).
        apply Hrec. eapply wf_child; eassumption.
      * (* '+' child *)
        destruct (alist_get lvl_plus (children n)) as [c|] eqn:Ec; [|reflexivity].
        unfold contrib.
        rewrite (filter_ext _ (fun fv => match_levels (fst fv) rest && g))
          by (intro; apply gmatch_plus).
        destruct g.
        -- rewrite (filter_ext _ (fun fv => match_levels (fst fv) rest)) by (intro; apply andb_true_r).
           apply Hrec. eapply wf_child; eassumption.
        -- rewrite (filter_ext _ (fun _ => false)) by (intro; apply andb_false_r).
           induction (abs c) as [|x l IHl]; [reflexivity | exact IHl].
      * (* '#' child *)
        destruct (alist_get lvl_hash (children n)) as [c|] eqn:Ec; [|reflexivity].
        rewrite contrib_hash by exact Hh. reflexivity.
    + constructor; [|constructor; [|constructor; [intros [] | constructor]]].
      * intros [H|[H|[]]]; congruence.
      * intros [H|[]]. apply plus_neq_hash. symmetry; exact H.
    + exact ND.
    + intros k a _ Hk. apply contrib_false. intro f'. apply gmatch_other_cons.
      * intro; subst. apply Hk. left; reflexivity.
      * intro; subst. apply Hk. right; left; reflexivity.
      * intro; subst. apply Hk. right; right; left; reflexivity.
Qed.

(* ---------------------------------------------------------------- topics as byte strings *)
Lemma dollar_topic_split s : dollar_topic (split_slash s) = starts_dollar s.
Proof.
  unfold split_slash. destruct s as [|c s]; [reflexivity|].
  rewrite split_on_cons. destruct (c =? SLASH) eqn:E.
  - apply Z.eqb_eq in E; subst c. reflexivity.
  - reflexivity.
Qed.

Lemma valid_topic_no_wild s : valid_topic s = true -> no_wild_level (split_slash s) = true.
Proof.
  unfold valid_topic. intro H. apply andb_true_iff in H as [H Hh]. apply andb_true_iff in H as [_ Hp].
  apply negb_true_iff in Hp, Hh.
  unfold no_wild_level. apply forallb_forall. intros l Hl.
  apply andb_true_iff; split; apply negb_true_iff.
  - destruct (is_plus l) eqn:E; [|reflexivity]. apply is_plus_true in E; subst l.
    destruct (split_on_bytes SLASH s lvl_plus PLUS Hl (or_introl eq_refl)) as [Hin _].
    apply memz_in in Hin. congruence.
  - destruct (is_hash l) eqn:E; [|reflexivity]. apply is_hash_true in E; subst l.
    destruct (split_on_bytes SLASH s lvl_hash HASH Hl (or_introl eq_refl)) as [Hin _].
    apply memz_in in Hin. congruence.
Qed.

(* (c) for any well-formed trie and any topic without a level "+" or "#" *)
Lemma iter_match_spec_levels (t : node) topic :
  wf t -> no_wild_level (split_slash topic) = true ->
  Permutation (iter_match t topic) (d_matching (abs t) (split_slash topic)).
Proof.
  intros W NW. unfold iter_match. rewrite d_matching_g, dollar_topic_split.
  pose proof (rec_match_spec (negb (starts_dollar topic)) (split_slash topic) t 0 ltac:(lia) W NW) as P.
  replace (negb (starts_dollar topic) || (0 >? 0)) with (negb (starts_dollar topic)) in P
    by (rewrite orb_false_r; reflexivity).
  exact P.
Qed.

Lemma iter_match_spec (t : node) topic :
  wf t -> valid_topic topic = true ->
  Permutation (iter_match t topic) (d_matching (abs t) (split_slash topic)).
Proof. intros W H. apply iter_match_spec_levels; [exact W | apply valid_topic_no_wild; exact H]. Qed.

Lemma d_matching_perm d d' t : Permutation d d' -> Permutation (d_matching d t) (d_matching d' t).
Proof. intro P. unfold d_matching. apply Permutation_map, Permutation_filter', P. Qed.

End Match.

Arguments matching_g {V} g d t.

(* ---------------------------------------------------------------- (a) topic_matches_sub *)
Lemma topic_matches_sub_levels sub topic :
  no_wild_level (split_slash topic) = true ->
  topic_matches_sub sub topic = spec_match (split_slash sub) (split_slash topic).
Proof.
  intro NW. unfold topic_matches_sub. cbv zeta.
  assert (W : wf (t_set sub true empty)) by (apply wf_set, wf_empty).
  pose proof (iter_match_spec_levels bool _ topic W NW) as P.
  assert (P2 : Permutation (abs (t_set sub true empty)) [(split_slash sub, true)]).
  { unfold t_set. etransitivity; [apply abs_set, wf_empty|]. reflexivity. }
  pose proof (Permutation_trans P (d_matching_perm bool _ _ (split_slash topic) P2)) as P3.
  unfold d_matching in P3. cbn [filter fst] in P3.
  destruct (spec_match (split_slash sub) (split_slash topic)); cbn [map snd] in P3.
  - destruct (iter_match (t_set sub true empty) topic); [|reflexivity].
    apply Permutation_nil in P3. discriminate.
  - apply Permutation_sym, Permutation_nil in P3. rewrite P3. reflexivity.
Qed.

Lemma topic_matches_sub_spec sub topic :
  valid_filter sub = true -> valid_topic topic = true ->
  topic_matches_sub sub topic = spec_match (split_slash sub) (split_slash topic).
Proof. intros _ H. apply topic_matches_sub_levels, valid_topic_no_wild, H. Qed.

(* outside valid topics the double probe of matcher.py shows: a topic level that is itself "+"
   is found under the literal key and under the '+' key *)
Lemma iter_match_wild_topic_twice :
  iter_match (t_set [97; 47; 43] 7 empty) [97; 47; 43] = [7; 7].
Proof. reflexivity. Qed.
