(* M4 Matcher: vocabulary shared by the model (Trie.v) and the specification (TrieSpec.v).
   A topic / topic filter is a byte string (list Z, UTF-8); a level is the byte string between
   two '/' separators.  Definitions only, no proofs. *)
From PahoV Require Import Base.Prelude.

Definition level := list Z.

Definition SLASH  : Z := 47.   (* '/' *)
Definition PLUS   : Z := 43.   (* '+' *)
Definition HASH   : Z := 35.   (* '#' *)
Definition DOLLAR : Z := 36.   (* '$' *)

Definition lvl_plus : level := [PLUS].
Definition lvl_hash : level := [HASH].

Definition level_eqb (a b : level) : bool := zlist_eqb a b.

Fixpoint levels_eqb (a b : list level) : bool :=
  match a, b with
  | [], [] => true
  | x :: a', y :: b' => level_eqb x y && levels_eqb a' b'
  | _, _ => false
  end.

Definition is_plus (l : level) : bool := level_eqb l lvl_plus.
Definition is_hash (l : level) : bool := level_eqb l lvl_hash.

Definition is_nil {A} (l : list A) : bool := match l with [] => true | _ :: _ => false end.

(* `c in s` for one byte *)
Fixpoint memz (c : Z) (s : list Z) : bool :=
  match s with
  | [] => false
  | x :: s' => (x =? c) || memz c s'
  end.

(* str.split('/') on the UTF-8 bytes: always at least one level *)
Definition split_slash (s : list Z) : list level := split_on SLASH s.

(* '/'.join(levels) *)
Fixpoint join_slash (ls : list level) : list Z :=
  match ls with
  | [] => []
  | [l] => l
  | l :: ls' => l ++ SLASH :: join_slash ls'
  end.

(* s.startswith('$') *)
Definition starts_dollar (s : list Z) : bool :=
  match s with
  | c :: _ => c =? DOLLAR
  | [] => false
  end.
