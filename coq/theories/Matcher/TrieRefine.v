(* C11 at the level of operation sequences: after any sequence of insertions, overwrites,
   deletions (and lookups) starting from MQTTMatcher(), the trie is well-formed, represents the
   dictionary obtained by running the same operations on the reference dictionary, and every
   result is the dictionary's result. *)
From PahoV Require Import Base.Prelude Matcher.Level Matcher.Trie Matcher.TrieSpec
  Matcher.AlistProofs Matcher.TrieProofs Matcher.MatchProofs.
From Coq Require Import Permutation.

Section Run.
Variable V : Type.
Notation node := (node V).
Implicit Types (t : node) (d : dict V).

(* ---------------------------------------------------------------- dictionary semantics *)
Definition d_step (o : t_op V) d : dict V :=
  match o with
  | OSet k v => d_insert (split_slash k) v d
  | ODel k => d_remove (split_slash k) d
  | OGet _ => d
  | OIter _ => d
  end.

Fixpoint d_run (ops : list (t_op V)) d : dict V :=
  match ops with
  | [] => d
  | o :: ops' => d_run ops' (d_step o d)
  end.

(* the trie represents the dictionary *)
Definition sim t d : Prop := wf t /\ Permutation (abs t) d.

Lemma sim_keys_NoDup t d : sim t d -> NoDup (map fst d).
Proof.
  intros [W P]. eapply Permutation_NoDup; [apply Permutation_map; exact P | apply abs_keys_NoDup; exact W].
Qed.

Lemma sim_empty : sim empty [].
Proof. split; [apply wf_empty | reflexivity]. Qed.

Lemma sim_get t d ks : sim t d -> get_levels ks t = d_lookup ks d.
Proof.
  intros [W P]. rewrite (get_abs V ks t W). apply d_lookup_perm; [apply abs_keys_NoDup; exact W | exact P].
Qed.

Lemma d_remove_perm k d d' : Permutation d d' -> Permutation (d_remove k d) (d_remove k d').
Proof.
  induction 1 as [|[k1 v1] l l' P IH|[k1 v1] [k2 v2] l|l1 l2 l3 P1 IH1 P2 IH2]; simpl.
  - constructor.
  - destruct (levels_eqb k k1); [exact IH | apply perm_skip; exact IH].
  - destruct (levels_eqb k k1), (levels_eqb k k2); try reflexivity. apply perm_swap.
  - etransitivity; eassumption.
Qed.

Lemma d_remove_absent k d : d_lookup k d = None -> d_remove k d = d.
Proof.
  induction d as [|[k1 v1] d IH]; simpl; [reflexivity|].
  destruct (levels_eqb k k1); [discriminate|]. intro H. rewrite IH by exact H. reflexivity.
Qed.

Lemma sim_set t d ks v : sim t d -> sim (set_levels ks v t) (d_insert ks v d).
Proof.
  intros [W P]. split; [apply wf_set; exact W|].
  etransitivity; [apply abs_set; exact W|]. unfold d_insert. apply perm_skip, d_remove_perm, P.
Qed.

(* `del m[k]`, with message_callback_remove's "except KeyError: pass" reading: the state afterwards *)
Definition del_state (ks : list level) t : node :=
  match del_levels ks t with Some t' => t' | None => t end.

Lemma sim_del t d ks : sim t d -> sim (del_state ks t) (d_remove ks d).
Proof.
  intros S. pose proof S as [W P]. unfold del_state. rewrite del_levels_rec.
  destruct (del_rec ks t) as [t'|] eqn:E.
  - split; [eapply wf_del; eassumption|].
    etransitivity; [eapply abs_del; eassumption|]. apply d_remove_perm, P.
  - rewrite d_remove_absent; [exact S|]. rewrite <- (sim_get t d ks S). apply del_none_get. exact E.
Qed.

Lemma step_sim o t d : sim t d -> sim (fst (t_step o t)) (d_step o d).
Proof.
  intro S. destruct o as [k v|k|k|topic]; cbn [t_step d_step].
  - apply sim_set. exact S.
  - pose proof (sim_del t d (split_slash k) S) as S'. unfold del_state, t_del in *.
    destruct (del_levels (split_slash k) t); exact S'.
  - exact S.
  - exact S.
Qed.

Lemma run_sim ops : forall t d, sim t d -> sim (t_run ops t) (d_run ops d).
Proof.
  induction ops as [|o ops IH]; intros t d S; [exact S|]. cbn [t_run d_run]. apply IH, step_sim, S.
Qed.

(* ---------------------------------------------------------------- results of single operations *)
Lemma sim_t_get t d key : sim t d -> t_get key t = d_lookup (split_slash key) d.
Proof. apply sim_get. Qed.

Lemma sim_iter_match t d topic : sim t d -> valid_topic topic = true ->
  Permutation (iter_match t topic) (d_matching d (split_slash topic)).
Proof.
  intros [W P] H. etransitivity; [apply iter_match_spec; assumption|]. apply d_matching_perm, P.
Qed.

Lemma sim_iter_match_levels t d topic : sim t d -> no_wild_level (split_slash topic) = true ->
  Permutation (iter_match t topic) (d_matching d (split_slash topic)).
Proof.
  intros [W P] H. etransitivity; [apply iter_match_spec_levels; assumption|]. apply d_matching_perm, P.
Qed.

(* a filter that is not stored: del raises KeyError or completes, and the trie is the same value *)
Lemma sim_del_absent t d key : sim t d -> d_lookup (split_slash key) d = None ->
  t_del key t = None \/ t_del key t = Some t.
Proof.
  intros S H. unfold t_del. rewrite del_levels_rec. apply del_absent; [apply S|].
  rewrite (sim_get t d _ S). exact H.
Qed.

(* a stored filter can always be deleted (no KeyError) *)
Lemma sim_del_stored t d key v : sim t d -> d_lookup (split_slash key) d = Some v ->
  exists t', t_del key t = Some t'.
Proof.
  intros S H. unfold t_del. rewrite del_levels_rec.
  destruct (del_rec (split_slash key) t) as [t'|] eqn:E; [exists t'; reflexivity|].
  apply del_none_get in E. rewrite (sim_get t d _ S) in E. congruence.
Qed.

(* ---------------------------------------------------------------- every step of every history *)
Definition res_ok (o : t_op V) d (r : opres V) : Prop :=
  match o with
  | OSet _ _ => r = RDone
  | ODel k => match d_lookup (split_slash k) d with
              | Some _ => r = RDone
              | None => r = RDone \/ r = RKeyError
              end
  | OGet k => r = match d_lookup (split_slash k) d with Some v => RVal v | None => RKeyError end
  | OIter topic => exists vs, r = RVals vs /\
        (no_wild_level (split_slash topic) = true -> Permutation vs (d_matching d (split_slash topic)))
  end.

(* the operation does not touch the stored filters *)
Definition is_noop (o : t_op V) d : bool :=
  match o with
  | OSet _ _ => false
  | ODel k => is_none (d_lookup (split_slash k) d)
  | OGet _ => true
  | OIter _ => true
  end.

Lemma step_res_ok o t d : sim t d -> res_ok o d (snd (t_step o t)).
Proof.
  intro S. destruct o as [k v|k|k|topic]; cbn [t_step res_ok].
  - reflexivity.
  - destruct (d_lookup (split_slash k) d) as [v|] eqn:E.
    + destruct (sim_del_stored t d k v S E) as [t' ->]. reflexivity.
    + destruct (sim_del_absent t d k S E) as [-> | ->]; [right | left]; reflexivity.
  - rewrite (sim_t_get t d k S). destruct (d_lookup (split_slash k) d); reflexivity.
  - eexists; split; [reflexivity|]. intro H. apply sim_iter_match_levels; assumption.
Qed.

Lemma step_noop o t d : sim t d -> is_noop o d = true -> fst (t_step o t) = t.
Proof.
  intros S H. destruct o as [k v|k|k|topic]; cbn [t_step is_noop] in *; try reflexivity; [discriminate|].
  destruct (d_lookup (split_slash k) d) eqn:E; [discriminate|].
  destruct (sim_del_absent t d k S E) as [-> | ->]; reflexivity.
Qed.

Fixpoint all_steps_ok (ops : list (t_op V)) t d : Prop :=
  match ops with
  | [] => True
  | o :: ops' =>
      res_ok o d (snd (t_step o t))
      /\ (is_noop o d = true -> fst (t_step o t) = t)
      /\ sim (fst (t_step o t)) (d_step o d)
      /\ all_steps_ok ops' (fst (t_step o t)) (d_step o d)
  end.

Lemma all_steps ops : forall t d, sim t d -> all_steps_ok ops t d.
Proof.
  induction ops as [|o ops IH]; intros t d S; [exact I|]. cbn [all_steps_ok].
  split; [apply step_res_ok; exact S|]. split; [apply step_noop; exact S|].
  split; [apply step_sim; exact S|]. apply IH, step_sim, S.
Qed.

(* ---------------------------------------------------------------- from MQTTMatcher() *)
Lemma run_refines ops :
  let t := t_run ops (@empty V) in
  wf t /\ Permutation (abs t) (d_run ops []) /\ NoDup (map fst (d_run ops [])).
Proof.
  pose proof (run_sim ops empty [] sim_empty) as S. cbv zeta.
  split; [apply S|]. split; [apply S|]. eapply sim_keys_NoDup; exact S.
Qed.

Lemma run_get ops key : t_get key (t_run ops (@empty V)) = d_lookup (split_slash key) (d_run ops []).
Proof. apply sim_t_get, run_sim, sim_empty. Qed.

Lemma run_iter_match ops topic : valid_topic topic = true ->
  Permutation (iter_match (t_run ops (@empty V)) topic) (d_matching (d_run ops []) (split_slash topic)).
Proof. intro H. apply sim_iter_match; [apply run_sim, sim_empty | exact H]. Qed.

Lemma run_del_absent ops key :
  let t := t_run ops (@empty V) in
  t_get key t = None -> t_del key t = None \/ t_del key t = Some t.
Proof.
  cbv zeta. intro H. pose proof (run_sim ops empty [] sim_empty) as S.
  eapply sim_del_absent; [exact S|]. rewrite <- (sim_t_get _ _ key S). exact H.
Qed.

Lemma run_del_stored ops key v :
  let t := t_run ops (@empty V) in
  t_get key t = Some v ->
  exists t', t_del key t = Some t' /\ wf t' /\
             Permutation (abs t') (d_remove (split_slash key) (d_run ops [])).
Proof.
  cbv zeta. intro H. pose proof (run_sim ops empty [] sim_empty) as S.
  rewrite (sim_t_get _ _ key S) in H.
  destruct (sim_del_stored _ _ key v S H) as [t' E]. exists t'. split; [exact E|].
  pose proof (sim_del _ _ (split_slash key) S) as S'. unfold del_state in S'. unfold t_del in E.
  rewrite E in S'. exact S'.
Qed.

Lemma run_all_steps ops : all_steps_ok ops (@empty V) [].
Proof. apply all_steps, sim_empty. Qed.

End Run.

Arguments d_step {V} o d.
Arguments d_run {V} ops d.
Arguments sim {V} t d.
Arguments del_state {V} ks t.
Arguments res_ok {V} o d r.
Arguments is_noop {V} o d.
Arguments all_steps_ok {V} ops t d.
