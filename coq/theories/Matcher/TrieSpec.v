(* Specification of topic-filter matching, transcribed from OASIS MQTT 3.1.1 / 5.0 section 4.7
   (Topic Names and Topic Filters).  Written independently of the trie model: this file does not
   import Trie.v.  Definitions only.

   4.7.1.1  '/' separates levels; adjacent separators denote a zero-length level.
   4.7.1.2  '#' (multi-level wildcard) "matches any number of levels within a topic"; it "represents
            the parent and any number of child levels"; it MUST be the last character of the filter
            and be either alone or follow a '/'  [MQTT-4.7.1-2].
            "sport/tennis/player1/#" matches "sport/tennis/player1",
            "sport/tennis/player1/ranking", "sport/tennis/player1/score/wimbledon";
            "sport/#" also matches the singular "sport"; "#" alone matches every topic.
   4.7.1.3  '+' (single-level wildcard) "matches only one topic level"; it MUST occupy an entire
            level of the filter [MQTT-4.7.1-3]; it may be used at any level, also together with '#'.
            "sport/+" does not match "sport" but it does match "sport/";
            "+/+" and "/+" match "/finance", "+" does not.
   4.7.2    "The Server MUST NOT match Topic Filters starting with a wildcard character (# or +)
            with Topic Names beginning with a $ character" [MQTT-4.7.2-1].
            "$SYS/#" matches "$SYS/..."; "+/monitor/Clients" does not match "$SYS/monitor/Clients";
            "$SYS/monitor/+" does.
   4.7.3    Topic names and filters are at least one character long, case sensitive, may contain
            spaces; a leading or trailing '/' creates a distinct name; wildcard characters MUST NOT
            be used within a Topic Name [MQTT-4.7.1-1]. *)
From PahoV Require Import Base.Prelude Matcher.Level.

(* level-by-level matching of a filter against a topic name, '$' rule apart *)
Fixpoint match_levels (f t : list level) : bool :=
  match f with
  | [] => is_nil t                                   (* filter exhausted: the topic must be, too *)
  | x :: f' =>
      if is_hash x && is_nil f' then true             (* trailing '#': the parent and any number of further levels *)
      else
        match t with
        | [] => false                                 (* '+' or a literal needs exactly one level *)
        | y :: t' => (is_plus x || level_eqb x y)     (* '+': any one level, also the empty one; else byte-wise equal *)
                     && match_levels f' t'
        end
  end.

(* the filter starts with a wildcard character *)
Definition first_wild (f : list level) : bool :=
  match f with
  | x :: _ => is_plus x || is_hash x
  | [] => false
  end.

(* the topic name begins with '$' *)
Definition dollar_topic (t : list level) : bool :=
  match t with
  | (c :: _) :: _ => c =? DOLLAR
  | _ => false
  end.

Definition spec_match (filter_levels topic_levels : list level) : bool :=
  match_levels filter_levels topic_levels
  && negb (first_wild filter_levels && dollar_topic topic_levels).

(* on byte strings *)
Definition spec_match_str (filter topic : list Z) : bool :=
  spec_match (split_slash filter) (split_slash topic).

(* ---------------------------------------------------------------- well-formedness (4.7.1, 4.7.3) *)

(* a topic name: at least one character, no wildcard character anywhere *)
Definition valid_topic (s : list Z) : bool :=
  negb (is_nil s) && negb (memz PLUS s) && negb (memz HASH s).

(* '#' only as a whole level and only as the last one; '+' only as a whole level *)
Fixpoint filter_levels_ok (ls : list level) : bool :=
  match ls with
  | [] => true
  | l :: r =>
      (if memz HASH l then is_hash l && is_nil r else true)
      && (if memz PLUS l then is_plus l else true)
      && filter_levels_ok r
  end.

Definition valid_filter (s : list Z) : bool :=
  negb (is_nil s) && filter_levels_ok (split_slash s).

(* what the trie proofs actually need of a topic: no level is exactly "+" or "#"
   (implied by valid_topic, see MatchProofs.valid_topic_no_wild) *)
Definition no_wild_level (t : list level) : bool :=
  forallb (fun l => negb (is_plus l) && negb (is_hash l)) t.

(* ---------------------------------------------------------------- reference dictionary
   The "set of stored filters" of the property text: a key-unique association list from filter
   (as level list) to value, with the obvious insert / delete / lookup, and the lookup of a topic
   defined through spec_match. *)
Section Dict.
Variable V : Type.

Definition dict := list (list level * V).

Fixpoint d_lookup (k : list level) (d : dict) : option V :=
  match d with
  | [] => None
  | (k', v) :: d' => if levels_eqb k k' then Some v else d_lookup k d'
  end.

Fixpoint d_remove (k : list level) (d : dict) : dict :=
  match d with
  | [] => []
  | (k', v) :: d' => if levels_eqb k k' then d_remove k d' else (k', v) :: d_remove k d'
  end.

Definition d_insert (k : list level) (v : V) (d : dict) : dict := (k, v) :: d_remove k d.

(* the values of the stored filters that match the topic *)
Definition d_matching (d : dict) (topic_levels : list level) : list V :=
  map snd (filter (fun fv => spec_match (fst fv) topic_levels) d).

End Dict.

Arguments d_lookup {V} k d.
Arguments d_remove {V} k d.
Arguments d_insert {V} k v d.
Arguments d_matching {V} d topic_levels.
