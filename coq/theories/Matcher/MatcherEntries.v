(* Correspondence entry points (list Z -> list Z) for the Matcher models: decoding of the flat
   integer inputs, running Trie.v / TrieSpec.v / Dispatch.v functions, encoding of the results.
   No proofs; nothing here is used by a theorem.  A malformed input yields [-1].

   byte string  s      = len, b1 .. b_len
   counted list        = n, item_1 .. item_n *)
From PahoV Require Import Base.Prelude Matcher.Level Matcher.Trie Matcher.TrieSpec
  Matcher.TrieRefine Matcher.Dispatch.

(* ---------------------------------------------------------------- decoding *)
Definition dec (A : Type) := list Z -> option (A * list Z).

Definition take_z : dec Z := fun l => match l with [] => None | x :: r => Some (x, r) end.
Definition take_bool : dec bool := fun l => match l with [] => None | x :: r => Some (negb (x =? 0), r) end.

Definition take_str : dec (list Z) := fun l =>
  match l with
  | [] => None
  | n :: r =>
      if (n <? 0) || (Z.of_nat (length r) <? n) then None
      else Some (firstn (Z.to_nat n) r, skipn (Z.to_nat n) r)
  end.

Fixpoint take_n {A} (take : dec A) (n : nat) : dec (list A) := fun l =>
  match n with
  | O => Some ([], l)
  | S n' =>
      match take l with
      | None => None
      | Some (a, r) =>
          match take_n take n' r with
          | None => None
          | Some (rest, r') => Some (a :: rest, r')
          end
      end
  end.

Definition take_counted {A} (take : dec A) : dec (list A) := fun l =>
  match l with
  | [] => None
  | n :: r => if n <? 0 then None else take_n take (Z.to_nat n) r
  end.

Definition enc_str (s : list Z) : list Z := Z.of_nat (length s) :: s.
Definition enc_bool (b : bool) : Z := if b then 1 else 0.
Definition enc_counted {A} (enc : A -> list Z) (l : list A) : list Z :=
  Z.of_nat (length l) :: flat_map enc l.

(* ---------------------------------------------------------------- sorting (for canonical dumps) *)
Fixpoint lex_leb (a b : list Z) : bool :=
  match a, b with
  | [], _ => true
  | _ :: _, [] => false
  | x :: a', y :: b' => if x <? y then true else if y <? x then false else lex_leb a' b'
  end.

Fixpoint insert_by {A} (leb : A -> A -> bool) (x : A) (l : list A) : list A :=
  match l with
  | [] => [x]
  | y :: l' => if leb x y then x :: l else y :: insert_by leb x l'
  end.

Fixpoint isort {A} (leb : A -> A -> bool) (l : list A) : list A :=
  match l with
  | [] => []
  | x :: l' => insert_by leb x (isort leb l')
  end.

(* ---------------------------------------------------------------- entry 1: matching matrix
   in : counted list of filters, counted list of topics
   out: for every filter (outer) and topic (inner) one code
        1*topic_matches_sub + 2*spec_match + 4*valid_filter + 8*valid_topic *)
Definition match_code (f t : list Z) : Z :=
  enc_bool (topic_matches_sub f t)
  + 2 * enc_bool (spec_match (split_slash f) (split_slash t))
  + 4 * enc_bool (valid_filter f)
  + 8 * enc_bool (valid_topic t).

Definition entry_match_matrix (args : list Z) : list Z :=
  match take_counted take_str args with
  | None => [-1]
  | Some (fs, r) =>
      match take_counted take_str r with
      | Some (ts, []) => flat_map (fun f => map (match_code f) ts) fs
      | _ => [-1]
      end
  end.

(* ---------------------------------------------------------------- entry 2: trie operation sequences
   in : mode, counted list of ops
   op : 1 key v | 2 key | 3 key | 4 topic          (set / del / get / iter_match)
   out: per op   result, dump of the trie after the op
        result : 0 | 1 (KeyError) | 2 v | 3 n v1..vn (yield order)
        dump   : node = c, nchildren, (key, node)*   c = 0 for None else v+1; children sorted by key *)
Definition take_op : dec (t_op Z) := fun l =>
  match l with
  | 1 :: r => match take_str r with
              | Some (k, v :: r') => Some (OSet k v, r')
              | _ => None
              end
  | 2 :: r => match take_str r with Some (k, r') => Some (ODel k, r') | None => None end
  | 3 :: r => match take_str r with Some (k, r') => Some (OGet k, r') | None => None end
  | 4 :: r => match take_str r with Some (k, r') => Some (OIter k, r') | None => None end
  | _ => None
  end.

Definition enc_res (r : opres Z) : list Z :=
  match r with
  | RDone => [0]
  | RKeyError => [1]
  | RVal v => [2; v]
  | RVals vs => 3 :: Z.of_nat (length vs) :: vs
  end.

Fixpoint dump (n : node Z) : list Z :=
  match n with
  | Node c ch =>
      (match c with Some v => v + 1 | None => 0 end)
      :: Z.of_nat (length ch)
      :: flat_map (fun kd => enc_str (fst kd) ++ snd kd)
           (isort (fun a b => lex_leb (fst a) (fst b))
              ((fix go (l : list (level * node Z)) : list (level * list Z) :=
                  match l with
                  | [] => []
                  | kc :: l' => (fst kc, dump (snd kc)) :: go l'
                  end) ch))
  end.

Definition mutating (o : t_op Z) : bool :=
  match o with OSet _ _ | ODel _ => true | OGet _ | OIter _ => false end.

(* mode 0: dump after every op; mode 1: dump after set/del only (get/iter_match return no trie) *)
Fixpoint trie_trace (mode : Z) (ops : list (t_op Z)) (t : node Z) : list Z :=
  match ops with
  | [] => []
  | o :: ops' =>
      let r := t_step o t in
      enc_res (snd r)
      ++ (if (mode =? 0) || mutating o then dump (fst r) else [])
      ++ trie_trace mode ops' (fst r)
  end.

Definition entry_trie_ops (args : list Z) : list Z :=
  match args with
  | mode :: r =>
      match take_counted take_op r with
      | Some (ops, []) => trie_trace mode ops empty
      | _ => [-1]
      end
  | [] => [-1]
  end.

(* ---------------------------------------------------------------- entry 3: the same sequences on the
   reference dictionary (specification side: d_insert / d_remove / d_lookup / d_matching)
   out: per op   result, dictionary after the op
        result : 0 | 1 (not stored) | 2 v | 3 n v1..vn (sorted)
        dict   : n, (filter string, v)*   sorted by filter string *)
Definition d_result (o : t_op Z) (d : dict Z) : list Z :=
  match o with
  | OSet _ _ => [0]
  | ODel k => match d_lookup (split_slash k) d with Some _ => [0] | None => [1] end
  | OGet k => match d_lookup (split_slash k) d with Some v => [2; v] | None => [1] end
  | OIter topic =>
      let vs := isort Z.leb (d_matching d (split_slash topic)) in
      3 :: Z.of_nat (length vs) :: vs
  end.

Definition dump_dict (d : dict Z) : list Z :=
  enc_counted (fun kv => enc_str (fst kv) ++ [snd kv])
    (isort (fun a b => lex_leb (fst a) (fst b))
       (map (fun kv => (join_slash (fst kv), snd kv)) d)).

Fixpoint d_trace (mode : Z) (ops : list (t_op Z)) (d : dict Z) : list Z :=
  match ops with
  | [] => []
  | o :: ops' =>
      d_result o d
      ++ (if (mode =? 0) || mutating o then dump_dict (d_step o d) else [])
      ++ d_trace mode ops' (d_step o d)
  end.

Definition entry_dict_ops (args : list Z) : list Z :=
  match args with
  | mode :: r =>
      match take_counted take_op r with
      | Some (ops, []) => d_trace mode ops []
      | _ => [-1]
      end
  | [] => [-1]
  end.

(* ---------------------------------------------------------------- entries 4, 5: dispatch histories
   regop   : 1 filter cb | 2 filter | 3 b
   hop     : 1 regop | 2 topic decodable inner raises   inner = counted list of counted lists of regop, raises = counted list of 0/1
   logev   : 1 regop | 2 topic decodable n h1..hn        handler = 0 (on_message) | cb+1
   entry 4 : suppress_exceptions, history -> log (counted), c15_ok log
   entry 5 : log (counted) -> c15_ok log *)
Definition take_regop : dec regop := fun l =>
  match l with
  | 1 :: r => match take_str r with
              | Some (f, cb :: r') => Some (RAdd f cb, r')
              | _ => None
              end
  | 2 :: r => match take_str r with Some (f, r') => Some (RRemove f, r') | None => None end
  | 3 :: b :: r => Some (RSetOnMessage (negb (b =? 0)), r)
  | _ => None
  end.

Definition take_hop : dec hop := fun l =>
  match l with
  | 1 :: r => match take_regop r with Some (o, r') => Some (HReg o, r') | None => None end
  | 2 :: r =>
      match take_str r with
      | Some (topic, d :: r') =>
          match take_counted (take_counted take_regop) r' with
          | Some (inner, r'') =>
              match take_counted take_bool r'' with
              | Some (raises, r3) => Some (HDeliver topic (negb (d =? 0)) inner raises, r3)
              | None => None
              end
          | None => None
          end
      | _ => None
      end
  | _ => None
  end.

Definition take_handler : dec handler := fun l =>
  match l with
  | [] => None
  | x :: r => Some (if x =? 0 then HOnMessage else HFiltered (x - 1), r)
  end.

Definition take_logev : dec logev := fun l =>
  match l with
  | 1 :: r => match take_regop r with Some (o, r') => Some (LReg o, r') | None => None end
  | 2 :: r =>
      match take_str r with
      | Some (topic, d :: r') =>
          match take_counted take_handler r' with
          | Some (ran, r'') => Some (LDeliver topic (negb (d =? 0)) ran, r'')
          | None => None
          end
      | _ => None
      end
  | _ => None
  end.

Definition enc_regop (o : regop) : list Z :=
  match o with
  | RAdd f cb => 1 :: enc_str f ++ [cb]
  | RRemove f => 2 :: enc_str f
  | RSetOnMessage b => [3; enc_bool b]
  end.

Definition enc_handler (h : handler) : list Z :=
  match h with HOnMessage => [0] | HFiltered cb => [cb + 1] end.

Definition enc_logev (e : logev) : list Z :=
  match e with
  | LReg o => 1 :: enc_regop o
  | LDeliver topic d ran => 2 :: enc_str topic ++ enc_bool d :: enc_counted enc_handler ran
  end.

(* first argument: suppress_exceptions *)
Definition entry_dispatch (args : list Z) : list Z :=
  match args with
  | sup :: args' =>
      match take_counted take_hop args' with
      | Some (h, []) => let log := h_log (negb (sup =? 0)) h in enc_counted enc_logev log ++ [enc_bool (c15_ok log)]
      | _ => [-1]
      end
  | [] => [-1]
  end.

Definition entry_c15_ok (args : list Z) : list Z :=
  match take_counted take_logev args with
  | Some (log, []) => [enc_bool (c15_ok log)]
  | _ => [-1]
  end.
