(* Common imports and tactic setup for every model and proof file. *)
From Coq Require Export ZArith List Bool Lia.
From Coq Require Export ZifyBool ZifyNat.
Export ListNotations.
Open Scope Z_scope.

(* let lia see through / and mod *)
Ltac Zify.zify_post_hook ::= Z.to_euclidean_division_equations.

Arguments Z.add : simpl never.
Arguments Z.sub : simpl never.
Arguments Z.mul : simpl never.
Arguments Z.div : simpl never.
Arguments Z.modulo : simpl never.
Arguments Z.pow : simpl never.
Arguments Z.of_nat : simpl never.

(* destruct the first boolean test / if found in the goal, keeping the equation *)
Ltac case_if :=
  match goal with
  | |- context [if ?b then _ else _] => destruct b eqn:?
  end.

Ltac case_if_in H :=
  match type of H with
  | context [if ?b then _ else _] => destruct b eqn:?
  end.

Ltac inv H := inversion H; subst; clear H.

(* list equality on Z, used by the correspondence entry points *)
Fixpoint zlist_eqb (a b : list Z) : bool :=
  match a, b with
  | [], [] => true
  | x :: a', y :: b' => (x =? y) && zlist_eqb a' b'
  | _, _ => false
  end.

Lemma zlist_eqb_eq a b : zlist_eqb a b = true <-> a = b.
Proof.
  revert b; induction a as [|x a IH]; intros [|y b]; simpl; split; intro H;
    try congruence; try reflexivity.
  - apply andb_true_iff in H as [H1 H2]. apply Z.eqb_eq in H1. apply IH in H2. congruence.
  - inversion H; subst. apply andb_true_iff; split; [apply Z.eqb_refl | apply IH; reflexivity].
Qed.

(* result type of translated / modelled Python functions *)
Inductive res (A : Type) : Type :=
| Ok (a : A)
| Raise (kind : Z)      (* 1 ValueError, 2 TypeError, 3 MQTTException, 4 MalformedPacket, 5 RuntimeError *)
| OutOfFuel.
Arguments Ok {A} a.
Arguments Raise {A} kind.
Arguments OutOfFuel {A}.

Definition is_none {A} (o : option A) : bool := match o with None => true | Some _ => false end.

(* bytes.split(sep) for a single-byte separator: always returns at least one piece *)
Fixpoint split_on (sep : Z) (s : list Z) : list (list Z) :=
  match s with
  | [] => [[]]
  | c :: s' =>
      if c =? sep then [] :: split_on sep s'
      else match split_on sep s' with
           | [] => [[c]]            (* unreachable: split_on never returns [] *)
           | p :: ps => (c :: p) :: ps
           end
  end.

Fixpoint prefixb (p s : list Z) : bool :=
  match p, s with
  | [], _ => true
  | x :: p', y :: s' => (x =? y) && prefixb p' s'
  | _ :: _, [] => false
  end.

(* `p in s` for byte strings *)
Fixpoint infixb (p s : list Z) : bool :=
  prefixb p s || match s with [] => false | _ :: s' => infixb p s' end.
