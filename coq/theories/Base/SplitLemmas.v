(* General facts about Prelude's split_on (bytes.split for a one-byte separator) and infixb
   (the byte-string `in` test). Used by Codec/ValidateProofs.v (C19). *)
From PahoV Require Import Base.Prelude.

(* sep.join(pieces) - the inverse of split_on *)
Fixpoint join_on (sep : Z) (ls : list (list Z)) : list Z :=
  match ls with
  | [] => []
  | [p] => p
  | p :: rest => p ++ sep :: join_on sep rest
  end.

(* the last byte of p is a (false for the empty string) *)
Fixpoint ends_with (a : Z) (p : list Z) : bool :=
  match p with
  | [] => false
  | [c] => c =? a
  | _ :: p' => ends_with a p'
  end.

Lemma split_on_nonempty sep s : split_on sep s <> [].
Proof.
  destruct s as [|c s]; cbn [split_on]; [discriminate|].
  destruct (c =? sep); [discriminate|]. destruct (split_on sep s); discriminate.
Qed.

Lemma split_on_cons_other sep c s : c <> sep ->
  exists p ps, split_on sep s = p :: ps /\ split_on sep (c :: s) = (c :: p) :: ps.
Proof.
  intros Hc. cbn [split_on]. destruct (c =? sep) eqn:E; [apply Z.eqb_eq in E; contradiction|].
  destruct (split_on sep s) as [|p ps] eqn:Es; [exfalso; eapply split_on_nonempty; eassumption|].
  exists p, ps; split; reflexivity.
Qed.

(* a string without the separator is a single piece *)
Lemma split_on_nosep sep p : ~ In sep p -> split_on sep p = [p].
Proof.
  induction p as [|c p IH]; intros Hn; [reflexivity|].
  cbn [split_on]. destruct (c =? sep) eqn:E.
  - apply Z.eqb_eq in E. exfalso. apply Hn. left; assumption.
  - rewrite IH; [reflexivity|]. intros Hin; apply Hn; right; assumption.
Qed.

(* the first separator ends the first piece *)
Lemma split_on_app_sep sep p r : ~ In sep p ->
  split_on sep (p ++ sep :: r) = p :: split_on sep r.
Proof.
  induction p as [|c p IH]; intros Hn.
  - cbn [app split_on]. rewrite Z.eqb_refl. reflexivity.
  - cbn [app split_on]. destruct (c =? sep) eqn:E.
    + apply Z.eqb_eq in E. exfalso. apply Hn. left; assumption.
    + rewrite IH; [reflexivity|]. intros Hin; apply Hn; right; assumption.
Qed.

(* every string either has no separator or is  p ++ sep :: r  with p free of it *)
Lemma split_decomp sep s :
  ~ In sep s \/ exists p r : list Z, s = p ++ sep :: r /\ ~ In sep p.
Proof.
  induction s as [|c s IH]; [left; intros []|].
  destruct (Z.eq_dec c sep) as [->|Hc].
  - right. exists [], s. split; [reflexivity|intros []].
  - destruct IH as [Hn|(p & r & -> & Hp)].
    + left. intros [H|H]; [congruence|contradiction].
    + right. exists (c :: p), r. split; [reflexivity|].
      intros [H|H]; [congruence|contradiction].
Qed.

(* induction over the pieces of a string *)
Lemma split_ind (sep : Z) (P : list Z -> Prop) :
  (forall p, ~ In sep p -> P p) ->
  (forall p r, ~ In sep p -> P r -> P (p ++ sep :: r)) ->
  forall s, P s.
Proof.
  intros Hbase Hstep s.
  remember (length s) as n eqn:Hn. revert s Hn.
  induction n as [n IH] using lt_wf_ind. intros s Hn.
  destruct (split_decomp sep s) as [Hs|(p & r & -> & Hp)].
  - apply Hbase; assumption.
  - apply Hstep; [assumption|].
    apply (IH (length r)); [|reflexivity].
    subst n. rewrite app_length. cbn [length]. lia.
Qed.

Lemma split_on_pieces_nosep sep s : Forall (fun p => ~ In sep p) (split_on sep s).
Proof.
  induction s as [p Hp | p r Hp IH] using (split_ind sep).
  - rewrite split_on_nosep by assumption. constructor; [assumption|constructor].
  - rewrite split_on_app_sep by assumption. constructor; assumption.
Qed.

Lemma join_split sep s : join_on sep (split_on sep s) = s.
Proof.
  induction s as [p Hp | p r Hp IH] using (split_ind sep).
  - rewrite split_on_nosep by assumption. reflexivity.
  - rewrite split_on_app_sep by assumption.
    destruct (split_on sep r) as [|q qs] eqn:E; [exfalso; eapply split_on_nonempty; eassumption|].
    cbn [join_on]. cbn [join_on] in IH. rewrite IH. reflexivity.
Qed.

Lemma split_join sep ls : ls <> [] -> Forall (fun p => ~ In sep p) ls ->
  split_on sep (join_on sep ls) = ls.
Proof.
  induction ls as [|p rest IH]; intros Hne Hall; [contradiction|].
  inversion Hall as [|? ? Hp Hrest]; subst.
  destruct rest as [|q rest'].
  - cbn [join_on]. apply split_on_nosep; assumption.
  - change (join_on sep (p :: q :: rest')) with (p ++ sep :: join_on sep (q :: rest')).
    rewrite split_on_app_sep by assumption. rewrite IH; [reflexivity|discriminate|assumption].
Qed.

(* the total length is the pieces plus one separator between neighbours *)
Lemma split_on_length sep s :
  Z.of_nat (length s) =
  fold_right (fun p acc => Z.of_nat (length p) + acc) 0 (split_on sep s)
  + Z.of_nat (length (split_on sep s)) - 1.
Proof.
  induction s as [p Hp | p r Hp IH] using (split_ind sep).
  - rewrite split_on_nosep by assumption. cbn [fold_right length]. lia.
  - rewrite split_on_app_sep by assumption. rewrite app_length. cbn [fold_right length].
    lia.
Qed.

(* ------------------------------------------------------------------ prefixb / infixb *)

Lemma existsb_eqb_In c s : existsb (Z.eqb c) s = true <-> In c s.
Proof.
  rewrite existsb_exists. split.
  - intros (x & Hin & Hx). apply Z.eqb_eq in Hx. subst. assumption.
  - intros H. exists c. split; [assumption|apply Z.eqb_refl].
Qed.

Lemma existsb_eqb_notIn c s : existsb (Z.eqb c) s = false <-> ~ In c s.
Proof.
  rewrite <- existsb_eqb_In. destruct (existsb (Z.eqb c) s); split; intro H; congruence.
Qed.

Lemma prefixb_spec p s : prefixb p s = true <-> exists r, s = p ++ r.
Proof.
  revert s; induction p as [|x p IH]; intros s.
  - cbn. split; [intros _; exists s; reflexivity|reflexivity].
  - destruct s as [|y s]; cbn [prefixb].
    + split; [discriminate|intros (r & H); discriminate].
    + rewrite andb_true_iff, Z.eqb_eq, IH. split.
      * intros (-> & r & ->). exists r. reflexivity.
      * intros (r & H). inversion H; subst. split; [reflexivity|exists r; reflexivity].
Qed.

Lemma infixb_spec p s : infixb p s = true <-> exists a b, s = a ++ p ++ b.
Proof.
  induction s as [|y s IH].
  - cbn [infixb]. rewrite orb_false_r, prefixb_spec. split.
    + intros (r & H). exists [], r. exact H.
    + intros (a & b & H). destruct a; [exists b; exact H|discriminate].
  - cbn [infixb]. rewrite orb_true_iff, prefixb_spec, IH. split.
    + intros [(r & H)|(a & b & H)].
      * exists [], r. exact H.
      * exists (y :: a), b. rewrite H. reflexivity.
    + intros (a & b & H). destruct a as [|x a].
      * left. exists b. exact H.
      * right. inversion H; subst. exists a, b. reflexivity.
Qed.

(* a two-byte pattern can only be found where its second byte occurs *)
Lemma infixb2_In a b s : infixb [a; b] s = true -> In b s.
Proof.
  rewrite infixb_spec. intros (x & y & ->). apply in_or_app. right. right. left. reflexivity.
Qed.

Lemma infixb2_nosep a sep p : ~ In sep p -> infixb [a; sep] p = false.
Proof.
  intros Hn. destruct (infixb [a; sep] p) eqn:E; [|reflexivity].
  exfalso. apply Hn. eapply infixb2_In. eassumption.
Qed.

(* "a sep" occurs in  p ++ sep :: r  (p free of sep, a <> sep) exactly when p ends with a,
   or it occurs in r *)
Lemma infixb2_app_sep a sep p r : a <> sep -> ~ In sep p ->
  infixb [a; sep] (p ++ sep :: r) = ends_with a p || infixb [a; sep] r.
Proof.
  intros Ha. induction p as [|c p IH]; intros Hn.
  - cbn [app ends_with orb]. cbn [infixb prefixb].
    destruct (a =? sep) eqn:E; [apply Z.eqb_eq in E; contradiction|]. reflexivity.
  - assert (Hn' : ~ In sep p) by (intros H; apply Hn; right; assumption).
    assert (Hc : c <> sep) by (intros H; apply Hn; left; assumption).
    specialize (IH Hn').
    change ((c :: p) ++ sep :: r) with (c :: (p ++ sep :: r)).
    cbn [infixb]. rewrite IH.
    destruct p as [|d p'].
    + cbn [app prefixb ends_with]. rewrite Z.eqb_refl.
      rewrite (Z.eqb_sym a c). destruct (c =? a); reflexivity.
    + cbn [app prefixb].
      assert (Hd : (sep =? d) = false).
      { apply Z.eqb_neq. intros H. apply Hn'. left. symmetry. assumption. }
      rewrite Hd. rewrite andb_false_r.
      change (ends_with a (c :: d :: p')) with (ends_with a (d :: p')). reflexivity.
Qed.

Lemma ends_with_In a p : ends_with a p = true -> In a p.
Proof.
  induction p as [|c p IH]; [discriminate|].
  destruct p as [|d p'].
  - cbn [ends_with]. intros H. apply Z.eqb_eq in H. left. assumption.
  - change (ends_with a (c :: d :: p')) with (ends_with a (d :: p')). intros H. right. apply IH. assumption.
Qed.
