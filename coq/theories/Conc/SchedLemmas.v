(* Generic lemmas about the interleaving model: list update, frame properties of the three kinds of
   step, and the induction principle "an invariant of every step holds after every schedule". *)
From PahoV Require Import Base.Prelude Codec.Mid Conc.Sched.

(* ------------------------------------------------------------------ upd *)
Lemma upd_length {A} i (x : A) l : length (upd i x l) = length l.
Proof. revert i; induction l as [|h t IH]; intros [|i]; cbn; try reflexivity. now rewrite IH. Qed.

Lemma nth_upd_eq {A} i (x y : A) l : nth_error l i = Some y -> nth_error (upd i x l) i = Some x.
Proof.
  revert i; induction l as [|h t IH]; intros [|i]; cbn; try discriminate; try reflexivity.
  apply IH.
Qed.

Lemma nth_upd_neq {A} i j (x : A) l : i <> j -> nth_error (upd i x l) j = nth_error l j.
Proof.
  revert i j; induction l as [|h t IH]; intros [|i] [|j] Hn; cbn; try reflexivity; try congruence.
  apply IH. congruence.
Qed.

Lemma nth_upd {A} i j (x y : A) l : nth_error l i = Some y ->
  nth_error (upd i x l) j = if Nat.eqb i j then Some x else nth_error l j.
Proof.
  intros H. destruct (Nat.eqb i j) eqn:E.
  - apply Nat.eqb_eq in E; subst. eapply nth_upd_eq; eassumption.
  - apply Nat.eqb_neq in E. now apply nth_upd_neq.
Qed.

Lemma nth_upd_inv {A} i j (x q : A) l :
  nth_error (upd i x l) j = Some q -> (i = j /\ q = x) \/ (i <> j /\ nth_error l j = Some q).
Proof.
  destruct (Nat.eq_dec i j) as [->|Hn].
  - intros H. left. split; [reflexivity|].
    assert (Hl : (j < length (upd j x l))%nat) by (apply nth_error_Some; congruence).
    rewrite upd_length in Hl. apply nth_error_Some in Hl.
    destruct (nth_error l j) as [y|] eqn:E; [|congruence].
    rewrite (nth_upd_eq j x y l E) in H. congruence.
  - rewrite nth_upd_neq by assumption. intros H. right. split; assumption.
Qed.

(* ------------------------------------------------------------------ shape of a step *)
Lemma tstep_cases t c c' : tstep t c = Some c' ->
  (t = Loop /\ lstep c = Some c') \/ (t = Timeout /\ timeout_step c = Some c') \/
  (exists i p, t = Pub i /\ nth_error (pubs c) i = Some p /\ pstep i p c = Some c').
Proof.
  destruct t as [|i|]; cbn [tstep]; intros H.
  - left; split; [reflexivity|assumption].
  - right; right. destruct (nth_error (pubs c) i) as [p|] eqn:E; [|discriminate].
    exists i, p. repeat split; assumption.
  - right; left; split; [reflexivity|assumption].
Qed.

(* an invariant of every enabled step holds along every schedule *)
Lemma run_inv (P : conf -> Prop) :
  (forall t c c', P c -> tstep t c = Some c' -> P c') ->
  forall s c, P c -> P (sched_run s c).
Proof.
  intros Hstep s. induction s as [|t s IH]; intros c Hc; cbn [sched_run]; [assumption|].
  apply IH. unfold step_or_skip. destruct (tstep t c) as [c'|] eqn:E; [|assumption].
  eapply Hstep; eassumption.
Qed.

(* the loop thread and the timeout never touch the publishers' state or the id generator *)
Lemma lstep_frame c c' : lstep c = Some c' ->
  pubs c' = pubs c /\ last_mid c' = last_mid c /\ mid_lock c' = mid_lock c /\ alloc_log c' = alloc_log c.
Proof.
  unfold lstep. intros H.
  destruct (loop c) as [|wl| | | |p| | | | | | |];
    repeat match type of H with
           | context [if ?b then _ else _] => destruct b
           | context [match ?x with _ => _ end] => destruct x
           end; try discriminate; inversion H; subst; cbn; repeat split; reflexivity.
Qed.

Lemma timeout_frame c c' : timeout_step c = Some c' ->
  pubs c' = pubs c /\ last_mid c' = last_mid c /\ mid_lock c' = mid_lock c /\ alloc_log c' = alloc_log c /\
  out_packet c' = out_packet c /\ wire c' = wire c /\ pipe c' = pipe c /\ sock c' = sock c /\
  loop c = LSelect false /\ pipe c = O /\ loop c' = LWant /\
  nconn c' = nconn c.
Proof.
  unfold timeout_step. intros H.
  destruct (loop c) as [|[|]| | | |p| | | | | | |]; try discriminate.
  destruct (0 <? pipe c)%nat eqn:E; [discriminate|].
  inversion H; subst; cbn. apply Nat.ltb_ge in E.
  repeat split; try reflexivity. lia.
Qed.

(* publisher steps never touch wire, socket, loop pc, crash flag, timeouts *)
Lemma pstep_frame i p c c' : pstep i p c = Some c' ->
  wire c' = wire c /\ sock c' = sock c /\ loop c' = loop c /\ timeouts c' = timeouts c /\
  nconn c' = nconn c /\ length (pubs c') = length (pubs c).
Proof.
  unfold pstep. intros H.
  destruct (pc p);
    repeat match type of H with
           | context [match ?x with _ => _ end] => destruct x eqn:?
           end; try discriminate; inversion H; subst; unfold set_pub; cbn; rewrite ?upd_length;
    repeat split; try reflexivity; try assumption; try (symmetry; assumption).
Qed.

(* ------------------------------------------------------------------ mid arithmetic used by MidGen *)
Lemma mid_iter_S_r k : forall m, mid_iter (S k) m = mid_next (mid_iter k m).
Proof. induction k as [|k IH]; intros m; [reflexivity|]. cbn [mid_iter] in *. apply IH. Qed.

Lemma mid_seq_snoc k : forall m, mid_seq (S k) m = mid_seq k m ++ [mid_iter (S k) m].
Proof.
  induction k as [|k IH]; intros m; [reflexivity|].
  change (mid_seq (S (S k)) m) with (mid_next m :: mid_seq (S k) (mid_next m)).
  rewrite IH. reflexivity.
Qed.

Lemma mid_iter_range0 k m : 0 <= m <= 65535 -> 0 <= mid_iter k m <= 65535.
Proof.
  revert m; induction k as [|k IH]; intros m Hm; cbn [mid_iter]; [assumption|].
  apply IH. unfold mid_next. destruct (m + 1 =? 65536) eqn:E; lia.
Qed.

(* _connect_queued is written by reconnect() / _packet_queue(CONNECT) only *)
Lemma pstep_cq i p c c' : pstep i p c = Some c' -> cq c' = cq c.
Proof.
  unfold pstep. intros H.
  destruct (pc p);
    repeat match type of H with
           | context [match ?x with _ => _ end] => destruct x eqn:?
           end; try discriminate; inversion H; subst; reflexivity.
Qed.

Lemma timeout_cq c c' : timeout_step c = Some c' -> cq c' = cq c.
Proof.
  unfold timeout_step. intros H.
  destruct (loop c) as [|[|]| | | |p| | | | | | |]; try discriminate.
  destruct (0 <? pipe c)%nat; [discriminate|]. inversion H; reflexivity.
Qed.
