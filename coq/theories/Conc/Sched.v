(* M5: interleaving model of concurrent publish() with the loop thread (property C07, C14 thread clause).
   Model only, no proofs (see MidGen.v, Handoff.v, Wake.v, ConnFirst.v).

   A configuration is the shared state of the client plus one program counter (and the local
   variables) per thread.  [tstep t c] executes ONE shared-memory access of thread t - a lock
   acquire or release, one attribute load or store, one deque operation, one send/recv on the wake
   pipe, one send() on the socket - and returns None when t is blocked or has finished.  A schedule is
   any list of thread ids; [sched_run] skips the picks that are not enabled.

   ASSUMPTION (trusted, CPython): a single collections.deque operation (append, popleft, appendleft,
   clear, creation / advance of an iterator), a single attribute load or store and a single send/recv
   on the socket pair are atomic under the GIL; they are the steps of this model.  Source anchors:

     publisher  = publish() QoS 0 path of client.py:
       _mid_generate      with self._mid_generate_mutex:          PAcq            (acquire)
                            self._last_mid += 1                   PRd1, PWr1      (load, store)
                            if self._last_mid == 65536:           PRd2            (load)
                                self._last_mid = 1                PWrap           (store)
                            return self._last_mid                 PRd3            (load)
                          (end of with)                           PRel            (release)
       _send_publish      if self._sock is None: return NO_CONN   PSock           (load)
       _packet_queue      self._out_packet.append(mpkt)           PAppend         (deque append)
                          self._sockpairW.send(b"0")              PPipe           (pipe send)
                          if self._thread is None ...             PRet            (load; the loop thread
                          self._call_socket_register_write()                       exists, so no direct write;
                                                                                   _registered_write is not modelled)
     loop thread = one iteration of _loop():
       if self.want_write(): wlist = [sock]                       LWant           (len(deque))
       select.select([sock, sockpairR], wlist, [], timeout)       LSelect wl      (parked iff pipe = 0 and wl = false;
                                                                                   the token Timeout releases it)
       self._sockpairR.recv(10000); force a write                 LDrain          (pipe recv)
       loop_write(): if not self._connect_queued: return          LGate           (load)
       loop_write -> _packet_write: popleft / send until empty    LPop, LSend p
     and, optionally, the body of reconnect() executed by the loop thread before it enters _loop():
       self._sock_close()                                         RClose
       while True: pkt = self._out_packet.popleft() ... mark      RDrain  (one popleft per step, until IndexError)
       self._connect_queued = False                               RFlag
       self._sock = self._create_socket()                         RSock
       _send_connect -> _packet_queue: appendleft(CONNECT),       RConnect
                        self._connect_queued = True, pipe send    RFlagT, RWake
     loop_write() begins with `if not self._connect_queued: return` (LGate): nothing is written on a new socket
     before its CONNECT is queued (/repo 9f497e7)
     (code as of /repo commits c6905fd and 0ed8c5c; the earlier `for pkt in deque` / `clear()` / `append(CONNECT)`
      version was refuted: findings F-C07a, b, d, now fixed)
*)
From PahoV Require Import Base.Prelude Codec.Mid.

Inductive tid : Type := Loop | Pub (i : nat) | Timeout.

Inductive pkt : Type :=
| Connect (conn : Z)
| Publish (owner idx : nat) (mid : Z).

(* ------------------------------------------------------------------ publisher threads *)
Inductive ppc : Type :=
| PAcq | PRd1 | PWr1 | PRd2 | PWrap | PRd3 | PRel | PSock | PAppend | PPipe | PRet | PDone.

Record pub : Type := mkPub {
  pc : ppc;
  tmp : Z;                         (* value loaded from _last_mid *)
  ret : Z;                         (* value returned by _mid_generate for the current message *)
  idx : nat;                       (* index of the current message *)
  todo : nat;                      (* messages still to publish, including the current one *)
  results : list (nat * Z * bool); (* (message index, mid returned, queued?) oldest first; false = MQTT_ERR_NO_CONN *)
  sentp : list pkt                 (* ghost: packets this thread appended to _out_packet, oldest first *)
}.

(* ------------------------------------------------------------------ loop thread *)
Inductive lpc : Type :=
| LWant | LSelect (wl : bool) | LDrain | LGate | LPop | LSend (p : pkt)
| RClose | RDrain | RFlag | RSock | RConnect | RFlagT | RWake.

Record conf : Type := mkConf {
  last_mid : Z;
  mid_lock : option nat;           (* owner of _mid_generate_mutex *)
  out_packet : list pkt;           (* the deque, head first *)
  pipe : nat;                      (* bytes in the wake pipe *)
  sock : option Z;                 (* current connection *)
  nconn : Z;                       (* id the next connection will get *)
  wire : list (Z * pkt);           (* (connection, packet) in the order of send() *)
  loop : lpc;
  pubs : list pub;
  timeouts : nat;                  (* ghost: select() timeouts consumed *)
  alloc_log : list (nat * nat * Z);(* ghost: (publisher, message index, mid) in the order _mid_generate returned them *)
  marked : list pkt;               (* ghost: packets reconnect() marked as lost (rc = MQTT_ERR_CONN_LOST, published) *)
  cq : bool                        (* _connect_queued: False between the creation of a socket and the queuing of its CONNECT *)
}.

Fixpoint upd {A : Type} (i : nat) (x : A) (l : list A) : list A :=
  match l, i with
  | [], _ => []
  | _ :: t, O => x :: t
  | h :: t, S i' => h :: upd i' x t
  end.

Definition set_pub (c : conf) (i : nat) (p : pub) : conf :=
  mkConf (last_mid c) (mid_lock c) (out_packet c) (pipe c) (sock c) (nconn c) (wire c) (loop c)
         (upd i p (pubs c)) (timeouts c) (alloc_log c) (marked c) (cq c).

Definition with_pc (p : pub) (k : ppc) : pub :=
  mkPub k (tmp p) (ret p) (idx p) (todo p) (results p) (sentp p).

(* the current message is over: record the result and move to the next one *)
Definition next_msg (p : pub) (queued : bool) : pub :=
  mkPub (match todo p with S (S _) => PAcq | _ => PDone end)
        (tmp p) (ret p) (S (idx p)) (Nat.pred (todo p))
        (results p ++ [(idx p, ret p, queued)]) (sentp p).

Definition pstep (i : nat) (p : pub) (c : conf) : option conf :=
  match pc p with
  | PAcq =>
      match mid_lock c with
      | Some _ => None
      | None =>
          Some (mkConf (last_mid c) (Some i) (out_packet c) (pipe c) (sock c) (nconn c) (wire c) (loop c)
                       (upd i (with_pc p PRd1) (pubs c)) (timeouts c) (alloc_log c) (marked c) (cq c))
      end
  | PRd1 =>
      Some (set_pub c i (mkPub PWr1 (last_mid c) (ret p) (idx p) (todo p) (results p) (sentp p)))
  | PWr1 =>
      Some (mkConf (tmp p + 1) (mid_lock c) (out_packet c) (pipe c) (sock c) (nconn c) (wire c) (loop c)
                   (upd i (with_pc p PRd2) (pubs c)) (timeouts c) (alloc_log c) (marked c) (cq c))
  | PRd2 =>
      Some (set_pub c i (mkPub (if last_mid c =? 65536 then PWrap else PRd3)
                               (last_mid c) (ret p) (idx p) (todo p) (results p) (sentp p)))
  | PWrap =>
      Some (mkConf 1 (mid_lock c) (out_packet c) (pipe c) (sock c) (nconn c) (wire c) (loop c)
                   (upd i (with_pc p PRd3) (pubs c)) (timeouts c) (alloc_log c) (marked c) (cq c))
  | PRd3 =>
      Some (mkConf (last_mid c) (mid_lock c) (out_packet c) (pipe c) (sock c) (nconn c) (wire c) (loop c)
                   (upd i (mkPub PRel (tmp p) (last_mid c) (idx p) (todo p) (results p) (sentp p)) (pubs c))
                   (timeouts c) (alloc_log c ++ [(i, idx p, last_mid c)]) (marked c) (cq c))
  | PRel =>
      Some (mkConf (last_mid c) None (out_packet c) (pipe c) (sock c) (nconn c) (wire c) (loop c)
                   (upd i (with_pc p PSock) (pubs c)) (timeouts c) (alloc_log c) (marked c) (cq c))
  | PSock =>
      match sock c with
      | None => Some (set_pub c i (next_msg p false))
      | Some _ => Some (set_pub c i (with_pc p PAppend))
      end
  | PAppend =>
      let k := Publish i (idx p) (ret p) in
      Some (mkConf (last_mid c) (mid_lock c) (out_packet c ++ [k]) (pipe c) (sock c) (nconn c) (wire c)
                   (loop c)
                   (upd i (mkPub PPipe (tmp p) (ret p) (idx p) (todo p) (results p) (sentp p ++ [k])) (pubs c))
                   (timeouts c) (alloc_log c) (marked c) (cq c))
  | PPipe =>
      Some (mkConf (last_mid c) (mid_lock c) (out_packet c) (S (pipe c)) (sock c) (nconn c) (wire c) (loop c)
                   (upd i (with_pc p PRet) (pubs c)) (timeouts c) (alloc_log c) (marked c) (cq c))
  | PRet => Some (set_pub c i (next_msg p true))
  | PDone => None
  end.

(* self._sockpairR.recv(10000) *)
Definition recv_max : nat := Z.to_nat 10000.

Definition set_loop (c : conf) (l : lpc) : conf :=
  mkConf (last_mid c) (mid_lock c) (out_packet c) (pipe c) (sock c) (nconn c) (wire c) l
         (pubs c) (timeouts c) (alloc_log c) (marked c) (cq c).

Definition is_nil {A : Type} (l : list A) : bool := match l with [] => true | _ => false end.

Definition lstep (c : conf) : option conf :=
  match loop c with
  | LWant => Some (set_loop c (LSelect (negb (is_nil (out_packet c)))))
  | LSelect wl =>
      if (0 <? pipe c)%nat then Some (set_loop c LDrain)
      else if wl then Some (set_loop c LGate)
      else None                                              (* parked in select() *)
  | LDrain =>
      Some (mkConf (last_mid c) (mid_lock c) (out_packet c) (pipe c - Nat.min (pipe c) recv_max)%nat (sock c)
                   (nconn c) (wire c) LGate (pubs c) (timeouts c) (alloc_log c) (marked c) (cq c))
  | LGate =>                                                 (* loop_write(): writes nothing until CONNECT is queued *)
      Some (set_loop c (if cq c then LPop else LWant))
  | LPop =>
      match out_packet c with
      | [] => Some (set_loop c LWant)                        (* IndexError: _packet_write returns *)
      | p :: q =>
          Some (mkConf (last_mid c) (mid_lock c) q (pipe c) (sock c) (nconn c) (wire c) (LSend p)
                       (pubs c) (timeouts c) (alloc_log c) (marked c) (cq c))
      end
  | LSend p =>
      match sock c with
      | Some k =>
          Some (mkConf (last_mid c) (mid_lock c) (out_packet c) (pipe c) (sock c) (nconn c)
                       (wire c ++ [(k, p)]) LPop (pubs c) (timeouts c) (alloc_log c) (marked c) (cq c))
      | None =>                                              (* no socket: appendleft, give up *)
          Some (mkConf (last_mid c) (mid_lock c) (p :: out_packet c) (pipe c) (sock c) (nconn c)
                       (wire c) LWant (pubs c) (timeouts c) (alloc_log c) (marked c) (cq c))
      end
  | RClose =>
      Some (mkConf (last_mid c) (mid_lock c) (out_packet c) (pipe c) None (nconn c) (wire c) RDrain
                   (pubs c) (timeouts c) (alloc_log c) (marked c) (cq c))
  | RDrain =>                                                (* popleft until IndexError; every packet taken is marked *)
      match out_packet c with
      | [] => Some (set_loop c RFlag)
      | p :: q =>
          Some (mkConf (last_mid c) (mid_lock c) q (pipe c) (sock c) (nconn c) (wire c) RDrain
                       (pubs c) (timeouts c) (alloc_log c) (marked c ++ [p]) (cq c))
      end
  | RFlag =>                                                 (* self._connect_queued = False *)
      Some (mkConf (last_mid c) (mid_lock c) (out_packet c) (pipe c) (sock c) (nconn c) (wire c) RSock
                   (pubs c) (timeouts c) (alloc_log c) (marked c) false)
  | RSock =>
      Some (mkConf (last_mid c) (mid_lock c) (out_packet c) (pipe c) (Some (nconn c)) (nconn c + 1) (wire c)
                   RConnect (pubs c) (timeouts c) (alloc_log c) (marked c) (cq c))
  | RConnect =>                                              (* _packet_queue(CONNECT): appendleft *)
      match sock c with
      | Some k =>
          Some (mkConf (last_mid c) (mid_lock c) (Connect k :: out_packet c) (pipe c) (sock c) (nconn c)
                       (wire c) RFlagT (pubs c) (timeouts c) (alloc_log c) (marked c) (cq c))
      | None => None
      end
  | RFlagT =>                                                (* self._connect_queued = True *)
      Some (mkConf (last_mid c) (mid_lock c) (out_packet c) (pipe c) (sock c) (nconn c) (wire c) RWake
                   (pubs c) (timeouts c) (alloc_log c) (marked c) true)
  | RWake =>
      Some (mkConf (last_mid c) (mid_lock c) (out_packet c) (S (pipe c)) (sock c) (nconn c) (wire c) LWant
                   (pubs c) (timeouts c) (alloc_log c) (marked c) (cq c))
  end.

(* select() times out: only while the loop thread is parked with nothing ready *)
Definition timeout_step (c : conf) : option conf :=
  match loop c with
  | LSelect false =>
      if (0 <? pipe c)%nat then None
      else Some (mkConf (last_mid c) (mid_lock c) (out_packet c) (pipe c) (sock c) (nconn c) (wire c) LWant
                        (pubs c) (S (timeouts c)) (alloc_log c) (marked c) (cq c))
  | _ => None
  end.

Definition tstep (t : tid) (c : conf) : option conf :=
  match t with
  | Loop => lstep c
  | Timeout => timeout_step c
  | Pub i => match nth_error (pubs c) i with Some p => pstep i p c | None => None end
  end.

Definition step_or_skip (t : tid) (c : conf) : conf :=
  match tstep t c with Some c' => c' | None => c end.

Fixpoint sched_run (s : list tid) (c : conf) : conf :=
  match s with
  | [] => c
  | t :: s' => sched_run s' (step_or_skip t c)
  end.

(* number of picks that were not enabled (the correspondence requires 0) *)
Fixpoint sched_skipped (s : list tid) (c : conf) : nat :=
  match s with
  | [] => O
  | t :: s' => match tstep t c with
               | Some c' => sched_skipped s' c'
               | None => S (sched_skipped s' c)
               end
  end.

(* ------------------------------------------------------------------ initial configurations *)
Definition new_pub (n : nat) : pub :=
  mkPub (match n with O => PDone | _ => PAcq end) 0 0 O n [] [].

(* connection 1 established, CONNECT already written, [nmsgs] = messages per publisher *)
Definition init (m0 : Z) (l0 : lpc) (pipe0 : nat) (nmsgs : list nat) : conf :=
  mkConf m0 None [] pipe0 (Some 1) 2 [(1, Connect 1)] l0 (map new_pub nmsgs) O [] [] true.

Definition init_steady (m0 : Z) (nmsgs : list nat) : conf := init m0 LWant O nmsgs.
Definition init_reconnect (m0 : Z) (nmsgs : list nat) : conf := init m0 RClose O nmsgs.

(* ------------------------------------------------------------------ observations *)
Definition is_publish (p : pkt) : bool := match p with Publish _ _ _ => true | Connect _ => false end.
Definition owner_is (i : nat) (p : pkt) : bool :=
  match p with Publish o _ _ => Nat.eqb o i | Connect _ => false end.
Definition is_connect_of (k : Z) (p : pkt) : bool :=
  match p with Connect k' => k' =? k | Publish _ _ _ => false end.

Definition in_send (l : lpc) : list pkt := match l with LSend p => [p] | _ => [] end.

(* everything handed over so far, in hand-over order: written ++ being written ++ queued *)
Definition flight (c : conf) : list pkt := map snd (wire c) ++ in_send (loop c) ++ out_packet c.

Definition all_done (c : conf) : bool :=
  forallb (fun p => match pc p with PDone => true | _ => false end) (pubs c).

Definition at_pc (k : ppc) (p : pub) : bool :=
  match pc p, k with
  | PAcq, PAcq | PRd1, PRd1 | PWr1, PWr1 | PRd2, PRd2 | PWrap, PWrap | PRd3, PRd3 | PRel, PRel
  | PSock, PSock | PAppend, PAppend | PPipe, PPipe | PRet, PRet | PDone, PDone => true
  | _, _ => false
  end.

(* CONNECT first: scanning the wire, the first packet seen on each connection is its CONNECT *)
Fixpoint seen (k : Z) (w : list (Z * pkt)) : bool :=
  match w with
  | [] => false
  | (k', _) :: r => (k' =? k) || seen k r
  end.

Fixpoint wire_ok_from (pre : list (Z * pkt)) (w : list (Z * pkt)) : bool :=
  match w with
  | [] => true
  | (k, p) :: r => (seen k pre || is_connect_of k p) && wire_ok_from (pre ++ [(k, p)]) r
  end.
Definition wire_ok (w : list (Z * pkt)) : bool := wire_ok_from [] w.

Definition pkt_eqb (a b : pkt) : bool :=
  match a, b with
  | Connect x, Connect y => x =? y
  | Publish o i m, Publish o' i' m' => Nat.eqb o o' && Nat.eqb i i' && (m =? m')
  | _, _ => false
  end.

(* nothing is lost silently: every packet a publisher appended is written, in hand, queued or marked lost *)
Definition conserved (c : conf) : bool :=
  forallb (fun p => forallb (fun x => existsb (pkt_eqb x) (flight c ++ marked c)) (sentp p)) (pubs c).

(* ------------------------------------------------------------------ integer interface for the correspondence *)
Definition enc_pkt (p : pkt) : list Z :=
  match p with
  | Connect k => [0; k; 0; 0]
  | Publish o i m => [1; Z.of_nat o; Z.of_nat i; m]
  end.

Definition lpc_code (l : lpc) : Z :=
  match l with
  | LWant => 0 | LSelect false => 1 | LSelect true => 2 | LDrain => 3 | LPop => 4 | LSend _ => 5 | LGate => 6
  | RClose => 10 | RDrain => 11 | RFlag => 13 | RSock => 14 | RConnect => 15 | RFlagT => 17 | RWake => 16
  end.

Definition lpc_of_code (z : Z) : lpc :=
  if z =? 1 then LSelect false else if z =? 10 then RClose else LWant.

Definition tid_of_code (z : Z) : tid :=
  if z =? 0 then Loop else if z <? 0 then Timeout else Pub (Z.to_nat (z - 1)).

Fixpoint take_n {A : Type} (n : nat) (l : list A) : list A * list A :=
  match n, l with
  | O, _ => ([], l)
  | S n', x :: r => let '(a, b) := take_n n' r in (x :: a, b)
  | S _, [] => ([], [])
  end.

Definition enc_pub (p : pub) : list Z :=
  Z.of_nat (length (results p)) ::
  flat_map (fun r : nat * Z * bool => let '(i, m, q) := r in [Z.of_nat i; m; if q then 1 else 0]) (results p).

(* input : m0, loop start code, pipe0, n, nmsg_1 .. nmsg_n, tokens (0 Loop, -1 Timeout, k>=1 Pub (k-1))
   output: skipped, 0, timeouts, loop pc code, pipe, last_mid,
           #wire, (conn, kind, owner, idx, mid)*, #queue, (kind, owner, idx, mid)*, per publisher: #results, (idx, mid, queued)* *)
Definition entry_sched (args : list Z) : list Z :=
  match args with
  | m0 :: l0 :: pipe0 :: n :: rest =>
      let '(ns, toks) := take_n (Z.to_nat n) rest in
      let c0 := init m0 (lpc_of_code l0) (Z.to_nat pipe0) (map Z.to_nat ns) in
      let s := map tid_of_code toks in
      let c := sched_run s c0 in
      [Z.of_nat (sched_skipped s c0); 0; Z.of_nat (timeouts c); lpc_code (loop c);
       Z.of_nat (pipe c); last_mid c]
      ++ Z.of_nat (length (wire c)) :: flat_map (fun kp => fst kp :: enc_pkt (snd kp)) (wire c)
      ++ Z.of_nat (length (in_send (loop c) ++ out_packet c)) :: flat_map enc_pkt (in_send (loop c) ++ out_packet c)
      ++ flat_map enc_pub (pubs c)
  | _ => [-1]
  end.
