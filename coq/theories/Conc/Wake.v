(* C07.3: no lost wake-up.  _packet_queue appends to the deque and THEN writes one byte to the wake
   pipe; _loop reads want_write() BEFORE select() and, when the pipe was readable, drains it and forces a
   write.  Invariant, for every schedule and any number of publishers:

     a packet is queued  /\  the loop thread is parked in select() with an empty write list
       ==>  the pipe is non-empty  \/  some publisher is between its append and its pipe write.

   Consequences: a select() timeout can only be consumed while the queue is empty or a publisher is still
   inside _packet_queue; once the publishers have returned, the loop thread alone writes everything that
   is queued without consuming a single Timeout token. *)
From PahoV Require Import Base.Prelude Codec.Mid Conc.Sched Conc.SchedLemmas Conc.MidGen Conc.Handoff.

Definition wake_ok (c : conf) : Prop :=
  out_packet c <> [] -> loop c = LSelect false ->
  (0 < pipe c)%nat \/ exists i p, nth_error (pubs c) i = Some p /\ pc p = PPipe.

Lemma wake_init m0 l0 pipe0 nmsgs : wake_ok (init m0 l0 pipe0 nmsgs).
Proof. unfold wake_ok, init; cbn. intros H; contradiction. Qed.

(* shape of a publisher step with respect to queue, pipe and the PPipe position *)
Lemma pstep_wake_shape i p c c' : pstep i p c = Some c' ->
  exists p', pubs c' = upd i p' (pubs c) /\
    ( (pc p = PAppend /\ pc p' = PPipe)
   \/ (pc p = PPipe /\ pipe c' = S (pipe c))
   \/ (pc p <> PAppend /\ pc p <> PPipe /\ out_packet c' = out_packet c /\ pipe c' = pipe c) ).
Proof.
  intros Hs. unfold pstep in Hs.
  destruct (pc p) eqn:Epc;
    repeat match type of Hs with
           | context [match ?x with _ => _ end] => destruct x eqn:?
           end; try discriminate; inversion Hs; subst; clear Hs; unfold set_pub;
    (eexists; split; [reflexivity|]); cbn.
  all: try (right; right; repeat split; (discriminate || reflexivity)).
  - left. split; reflexivity.
  - right; left. split; reflexivity.
Qed.

Lemma wake_step t c c' : wake_ok c -> tstep t c = Some c' -> wake_ok c'.
Proof.
  intros HW Hs. apply tstep_cases in Hs as [[_ Hs]|[[_ Hs]|(i & p & _ & Hp & Hs)]].
  - (* loop thread: it is never left parked with a non-empty queue *)
    unfold wake_ok. intros Hq Hl. exfalso. revert Hs Hq Hl. unfold lstep.
    destruct (loop c) as [|wl| | | |x| | | | | | |];
      repeat match goal with
             | |- context [if ?b then _ else _] => destruct b eqn:?
             | |- context [match ?x with _ => _ end] => destruct x eqn:?
             end; intros Hs; try discriminate; inversion Hs; subst; cbn; intros Hq Hl; try discriminate.
    (* LWant with a non-empty queue gives LSelect true *)
    destruct (out_packet c); [contradiction | discriminate].
  - destruct (timeout_frame c c' Hs) as (_ & _ & _ & _ & _ & _ & _ & _ & _ & _ & El' & _).
    unfold wake_ok. intros _ Hl. rewrite El' in Hl. discriminate.
  - destruct (pstep_frame i p c c' Hs) as (_ & _ & El & _).
    destruct (pstep_wake_shape i p c c' Hs) as (p' & Epubs & [(Epc & Epc')|[(Epc & Epipe)|(N1 & N2 & Eq & Epipe)]]).
    + intros _ _. right. exists i, p'. rewrite Epubs. split; [eapply nth_upd_eq; eassumption | assumption].
    + intros _ _. left. lia.
    + intros Hq Hl. rewrite Eq in Hq. rewrite El in Hl. destruct (HW Hq Hl) as [H|(j & q & Hj & Hpc)].
      * left. lia.
      * right. exists j, q. split; [|assumption]. rewrite Epubs.
        rewrite nth_upd_neq; [assumption|]. intros ->. rewrite Hp in Hj. inversion Hj; subst. contradiction.
Qed.

Lemma wake_run m0 l0 pipe0 nmsgs s : wake_ok (sched_run s (init m0 l0 pipe0 nmsgs)).
Proof. apply run_inv; [intros t c c'; apply wake_step | apply wake_init]. Qed.

(* ------------------------------------------------------------------ the theorems *)
Theorem no_lost_wakeup m0 l0 pipe0 nmsgs s :
  let c := sched_run s (init m0 l0 pipe0 nmsgs) in
  out_packet c <> [] -> loop c = LSelect false ->
  (0 < pipe c)%nat \/ exists i p, nth_error (pubs c) i = Some p /\ pc p = PPipe.
Proof. intros c. apply wake_run. Qed.

(* a Timeout token is consumed only while nothing is queued, or a publisher has not yet sent its wake byte *)
Theorem timeout_only_when_idle m0 l0 pipe0 nmsgs s c' :
  let c := sched_run s (init m0 l0 pipe0 nmsgs) in
  tstep Timeout c = Some c' ->
  out_packet c = [] \/ exists i p, nth_error (pubs c) i = Some p /\ pc p = PPipe.
Proof.
  intros c Hs. cbn [tstep] in Hs.
  destruct (timeout_frame c c' Hs) as (_ & _ & _ & _ & _ & _ & _ & _ & El & Ep & _).
  destruct (out_packet c) as [|x q] eqn:Eq; [left; reflexivity|right].
  assert (Hne : out_packet c <> []) by (rewrite Eq; discriminate).
  destruct (wake_run m0 l0 pipe0 nmsgs s Hne El) as [H|H].
  - exfalso. fold c in H. lia.
  - exact H.
Qed.

(* with a packet queued and every publisher out of _packet_queue, the loop thread is not blocked *)
Theorem loop_runs_when_queued m0 l0 pipe0 nmsgs s :
  let c := sched_run s (init m0 l0 pipe0 nmsgs) in
  steady (loop c) = true -> out_packet c <> [] ->
  (forall i p, nth_error (pubs c) i = Some p -> pc p <> PPipe) ->
  tstep Loop c <> None.
Proof.
  intros c Hst Hq Hnp. cbn [tstep]. unfold lstep.
  destruct (loop c) as [|wl| | | |x| | | | | | |] eqn:El; try discriminate Hst; try discriminate.
  - destruct (0 <? pipe c)%nat eqn:Ep; [discriminate|]. destruct wl; [discriminate|].
    exfalso. destruct (wake_run m0 l0 pipe0 nmsgs s Hq El) as [H|(i & p & Hi & Hp)].
    + apply Nat.ltb_ge in Ep. fold c in H. lia.
    + exact (Hnp i p Hi Hp).
  - destruct (out_packet c); discriminate.
  - destruct (sock c); discriminate.
Qed.

(* ------------------------------------------------------------------ draining: liveness without Timeout *)
Definition quiet_pubs (c : conf) : Prop := forall i p, nth_error (pubs c) i = Some p -> pc p <> PPipe.

(* running the loop thread alone *)
Fixpoint loop_n (n : nat) (c : conf) : option conf :=
  match n with
  | O => Some c
  | S n' => match lstep c with Some c' => loop_n n' c' | None => None end
  end.

Lemma loop_n_run n : forall c c', loop_n n c = Some c' ->
  sched_run (repeat Loop n) c = c' /\ sched_skipped (repeat Loop n) c = O.
Proof.
  induction n as [|n IH]; intros c c' H; cbn in H |- *.
  - inversion H; auto.
  - unfold step_or_skip. cbn [tstep]. destruct (lstep c) as [c1|] eqn:E; [|discriminate].
    apply IH; assumption.
Qed.

Lemma loop_n_app a b c c1 c2 : loop_n a c = Some c1 -> loop_n b c1 = Some c2 -> loop_n (a + b) c = Some c2.
Proof.
  revert c; induction a as [|a IH]; intros c H1 H2; cbn in H1 |- *.
  - inversion H1; subst; assumption.
  - destruct (lstep c) as [c'|]; [|discriminate]. apply IH; assumption.
Qed.

(* from _packet_write's popleft loop: everything queued is written, then want_write() is read again *)
Lemma drain_from_pop k0 : forall q c, out_packet c = q -> loop c = LPop -> sock c = Some k0 ->
  exists c', loop_n (2 * length q + 1) c = Some c' /\
    out_packet c' = [] /\ loop c' = LWant /\ map snd (wire c') = map snd (wire c) ++ q /\
    timeouts c' = timeouts c /\ pubs c' = pubs c /\ sock c' = Some k0 /\ pipe c' = pipe c.
Proof.
  induction q as [|x q IH]; intros c Hq Hl Hk.
  - cbn. unfold lstep. rewrite Hl, Hq. eexists; split; [reflexivity|]. cbn. rewrite app_nil_r. repeat split; assumption.
  - replace (2 * length (x :: q) + 1)%nat with (2 + (2 * length q + 1))%nat by (cbn; lia).
    set (c1 := mkConf (last_mid c) (mid_lock c) q (pipe c) (Some k0) (nconn c)
                      (wire c ++ [(k0, x)]) LPop (pubs c) (timeouts c) (alloc_log c) (marked c) (cq c)).
    assert (H2 : loop_n 2 c = Some c1).
    { cbn. unfold lstep at 1. rewrite Hl, Hq. unfold lstep; cbn. rewrite Hk. reflexivity. }
    destruct (IH c1 eq_refl eq_refl eq_refl) as (c' & Hn & E1 & E2 & E3 & E4 & E5 & E6 & E7).
    exists c'. split; [eapply loop_n_app; eassumption|]. cbn in E3, E4, E5, E7.
    repeat split; try assumption. rewrite E3, map_app. cbn. rewrite <- app_assoc. reflexivity.
Qed.

(* steady runs never touch _connect_queued *)
Lemma cq_steady m0 l0 pipe0 nmsgs s : steady l0 = true ->
  cq (sched_run s (init m0 l0 pipe0 nmsgs)) = true.
Proof.
  intros Hs.
  assert (G : steady (loop (sched_run s (init m0 l0 pipe0 nmsgs))) = true /\ cq (sched_run s (init m0 l0 pipe0 nmsgs)) = true).
  { apply (run_inv (fun c => steady (loop c) = true /\ cq c = true)); [|split; [exact Hs|reflexivity]].
    intros t c c' [H1 H2] Hst. apply tstep_cases in Hst as [[_ Hst]|[[_ Hst]|(i & p & _ & Hp & Hst)]].
    - unfold lstep in Hst. destruct (loop c) as [|wl| | | |x| | | | | | |] eqn:El; try discriminate H1;
        repeat match type of Hst with
               | context [if ?b then _ else _] => destruct b eqn:?
               | context [match ?x with _ => _ end] => destruct x eqn:?
               end; try discriminate; inversion Hst; subst; cbn; split; try reflexivity; assumption.
    - destruct (timeout_frame c c' Hst) as (_ & _ & _ & _ & _ & _ & _ & _ & _ & _ & El' & _).
      rewrite El', (timeout_cq c c' Hst). split; [reflexivity|assumption].
    - destruct (pstep_frame i p c c' Hst) as (_ & _ & El & _). rewrite El, (pstep_cq i p c c' Hst). split; assumption. }
  exact (proj2 G).
Qed.

(* from the gate of loop_write(), with CONNECT queued long ago *)
Lemma drain_from_gate k0 c : loop c = LGate -> cq c = true -> sock c = Some k0 ->
  exists c', loop_n (1 + (2 * length (out_packet c) + 1)) c = Some c' /\
    out_packet c' = [] /\ loop c' = LWant /\ map snd (wire c') = map snd (wire c) ++ out_packet c /\
    timeouts c' = timeouts c /\ pubs c' = pubs c.
Proof.
  intros El Hq Hk.
  assert (H1 : loop_n 1 c = Some (set_loop c LPop)) by (cbn [loop_n]; unfold lstep; rewrite El, Hq; reflexivity).
  destruct (drain_from_pop k0 (out_packet c) (set_loop c LPop) eq_refl eq_refl Hk) as (c' & Hn & E1 & E2 & E3 & E4 & E5 & _).
  exists c'. split; [eapply loop_n_app; [exact H1|exact Hn]|]. repeat split; assumption.
Qed.

(* the loop thread, wherever it is in its iteration, reaches the state "queue empty, nothing in hand" in a
   bounded number of its own steps, none of which is a Timeout, provided the no-lost-wake-up invariant
   holds and no publisher is still about to send a wake byte *)
Theorem drains_without_timeout m0 l0 pipe0 nmsgs s : 0 <= m0 <= 65535 -> steady l0 = true -> in_send l0 = [] ->
  let c := sched_run s (init m0 l0 pipe0 nmsgs) in
  quiet_pubs c ->
  exists n c', loop_n n c = Some c' /\ out_packet c' = [] /\ in_send (loop c') = [] /\
    timeouts c' = timeouts c /\ map snd (wire c') = flight c /\ pubs c' = pubs c.
Proof.
  intros Hm Hs0 Hi0 c Hquiet.
  destruct (HInv_run m0 l0 pipe0 nmsgs s Hm Hs0 Hi0) as (Hst & Hk & _). fold c in Hst, Hk.
  pose proof (wake_run m0 l0 pipe0 nmsgs s) as HW. fold c in HW.
  pose proof (cq_steady m0 l0 pipe0 nmsgs s Hs0) as Hq. fold c in Hq.
  unfold flight.
  (* from LDrain *)
  assert (FromDrain : forall d, loop d = LDrain -> cq d = true -> sock d = Some 1 ->
            exists n d', loop_n n d = Some d' /\ out_packet d' = [] /\ loop d' = LWant /\
              map snd (wire d') = map snd (wire d) ++ out_packet d /\ timeouts d' = timeouts d /\ pubs d' = pubs d).
  { intros d El Hqd Hkd.
    set (d1 := mkConf (last_mid d) (mid_lock d) (out_packet d) (pipe d - Nat.min (pipe d) recv_max)%nat
                      (sock d) (nconn d) (wire d) LGate (pubs d) (timeouts d) (alloc_log d) (marked d) (cq d)).
    assert (H1 : loop_n 1 d = Some d1) by (cbn [loop_n]; unfold lstep; rewrite El; reflexivity).
    destruct (drain_from_gate 1 d1 eq_refl Hqd Hkd) as (d' & Hn & E1 & E2 & E3 & E4 & E5).
    eexists _, d'. split; [eapply loop_n_app; [exact H1|exact Hn]|]. repeat split; assumption. }
  (* from LSelect, not parked *)
  assert (FromSelect : forall d wl, loop d = LSelect wl -> cq d = true -> sock d = Some 1 ->
            ((0 <? pipe d)%nat = true \/ wl = true) ->
            exists n d', loop_n n d = Some d' /\ out_packet d' = [] /\ loop d' = LWant /\
              map snd (wire d') = map snd (wire d) ++ out_packet d /\ timeouts d' = timeouts d /\ pubs d' = pubs d).
  { intros d wl El Hqd Hkd Hen. destruct (0 <? pipe d)%nat eqn:Ep.
    - assert (H1 : loop_n 1 d = Some (set_loop d LDrain)) by (cbn [loop_n]; unfold lstep; rewrite El, Ep; reflexivity).
      destruct (FromDrain (set_loop d LDrain) eq_refl Hqd Hkd) as (n & d' & Hn & E).
      eexists _, d'. split; [eapply loop_n_app; [exact H1|exact Hn]|]. exact E.
    - destruct Hen as [Hen|Hen]; [discriminate|]. subst wl.
      assert (H1 : loop_n 1 d = Some (set_loop d LGate)) by (cbn [loop_n]; unfold lstep; rewrite El, Ep; reflexivity).
      destruct (drain_from_gate 1 (set_loop d LGate) eq_refl Hqd Hkd) as (d' & Hn & E).
      eexists _, d'. split; [eapply loop_n_app; [exact H1|exact Hn]|]. exact E. }
  destruct (loop c) as [|wl| | | |x| | | | | | |] eqn:El; try discriminate Hst; cbn [in_send app].
  - (* LWant *)
    destruct (out_packet c) as [|y q] eqn:Eq.
    + exists O, c. cbn. rewrite El, Eq, app_nil_r. repeat split; reflexivity.
    + assert (H1 : loop_n 1 c = Some (set_loop c (LSelect true))) by (cbn [loop_n]; unfold lstep; rewrite El, Eq; reflexivity).
      destruct (FromSelect (set_loop c (LSelect true)) true eq_refl Hq Hk (or_intror eq_refl)) as (n & c' & Hn & E1 & E2 & E3 & E4 & E5).
      eexists _, c'. split; [eapply loop_n_app; [exact H1|exact Hn]|].
      rewrite E2. cbn [in_send]. cbn in E3. rewrite Eq in E3. repeat split; assumption.
  - (* LSelect wl *)
    destruct (0 <? pipe c)%nat eqn:Ep; [|destruct wl].
    + destruct (FromSelect c wl El Hq Hk (or_introl Ep)) as (n & c' & Hn & E1 & E2 & E3 & E4 & E5).
      exists n, c'. split; [exact Hn|]. rewrite E2. cbn [in_send]. repeat split; assumption.
    + destruct (FromSelect c true El Hq Hk (or_intror eq_refl)) as (n & c' & Hn & E1 & E2 & E3 & E4 & E5).
      exists n, c'. split; [exact Hn|]. rewrite E2. cbn [in_send]. repeat split; assumption.
    + (* parked: by the invariant the queue is empty *)
      destruct (out_packet c) as [|y q] eqn:Eq.
      * exists O, c. cbn. rewrite El, Eq, app_nil_r. repeat split; reflexivity.
      * exfalso. assert (Hne : out_packet c <> []) by (rewrite Eq; discriminate).
        destruct (HW Hne El) as [H|(i & p & Hi & Hp)].
        -- apply Nat.ltb_ge in Ep. lia.
        -- exact (Hquiet i p Hi Hp).
  - (* LDrain *)
    destruct (FromDrain c El Hq Hk) as (n & c' & Hn & E1 & E2 & E3 & E4 & E5).
    exists n, c'. split; [exact Hn|]. rewrite E2. cbn [in_send]. repeat split; assumption.
  - (* LGate *)
    destruct (drain_from_gate 1 c El Hq Hk) as (c' & Hn & E1 & E2 & E3 & E4 & E5).
    eexists _, c'. split; [exact Hn|]. rewrite E2. cbn [in_send]. repeat split; assumption.
  - (* LPop *)
    destruct (drain_from_pop 1 (out_packet c) c eq_refl El Hk) as (c' & Hn & E1 & E2 & E3 & E4 & E5 & _).
    exists (2 * length (out_packet c) + 1)%nat, c'. split; [exact Hn|].
    rewrite E2. cbn [in_send]. repeat split; assumption.
  - (* LSend x *)
    set (c1 := mkConf (last_mid c) (mid_lock c) (out_packet c) (pipe c) (Some 1) (nconn c)
                      (wire c ++ [(1, x)]) LPop (pubs c) (timeouts c) (alloc_log c) (marked c) (cq c)).
    assert (H1 : loop_n 1 c = Some c1) by (cbn [loop_n]; unfold lstep; rewrite El, Hk; reflexivity).
    destruct (drain_from_pop 1 (out_packet c) c1 eq_refl eq_refl eq_refl) as (c' & Hn & E1 & E2 & E3 & E4 & E5 & _).
    exists (1 + (2 * length (out_packet c) + 1))%nat, c'.
    split; [eapply loop_n_app; [exact H1|exact Hn]|].
    rewrite E2. cbn [in_send]. cbn in E3. rewrite map_app in E3. cbn in E3. rewrite <- app_assoc in E3.
    repeat split; assumption.
Qed.
