(* M5 (part): lock / call / callback graph of the client - syntax, one-thread operational
   semantics with a held-lock multiset, and an executable abstract interpreter.
   Model only, no proofs (see LockGraphSound.v).  The program itself is generated from
   client.py on every run (Gen/GenLockGraph.v). *)
From PahoV Require Import Base.Prelude.
From Coq Require Export NArith.

(* ------------------------------------------------------------------ syntax *)
Inductive act : Type :=
| Acq (l : N) (body : list act)        (* with self._l: body *)
| TryAcq (l : N) (body : list act)     (* if self._l.acquire(False): self._l.release(); body *)
| IfCb (c : N) (body : list act)       (* if <user callback c is installed>: body *)
| Call (m : N)                         (* self.m(...) *)
| UserCb (c : N)                       (* the user's callback c is invoked here *)
| JoinLoopUnlessSelf                   (* loop_stop: join the loop thread unless we are it *)
| Block (w : N).                       (* may wait for another thread for ever (Condition.wait, unguarded join) *)

Definition program := list (N * list act).

Record params := mkParams {
  p_prog : program;
  p_kinds : list (N * bool);     (* lock -> true = Plain (threading.Lock), false = Reentrant *)
  p_apis : list N;               (* methods user code may call from inside a callback *)
  p_inst : list N;               (* callbacks the application has installed *)
  p_entries : list N             (* methods called by the application with nothing held *)
}.

Fixpoint assoc {A : Type} (k : N) (l : list (N * A)) : option A :=
  match l with
  | [] => None
  | (k', v) :: r => if N.eqb k k' then Some v else assoc k r
  end.

Definition body_of (P : params) (m : N) : list act :=
  match assoc m (p_prog P) with Some b => b | None => [] end.

(* a lock of unknown kind is treated as Plain (conservative) *)
Definition plainb (P : params) (l : N) : bool :=
  match assoc l (p_kinds P) with Some b => b | None => true end.

Definition memN (x : N) (l : list N) : bool := existsb (N.eqb x) l.

(* ------------------------------------------------------------------ concrete semantics: ONE thread *)
Inductive item : Type :=
| Do (m : N) (a : act)     (* action a of method m still to be executed *)
| Rel (l : N)              (* end of a with-block: release one hold of l *)
| Pop.                     (* the API call made by a user callback returned *)

(* held-lock multiset, stack of (callback, API method) contexts (ghost, innermost first), continuation *)
Definition config : Type := (list N * list (N * N) * list item)%type.

Fixpoint remove1 (l : N) (h : list N) : list N :=
  match h with
  | [] => []
  | x :: t => if N.eqb x l then t else x :: remove1 l t
  end.

(* Every action may be skipped (branch not taken, early return, exception: control flow is
   over-approximated); release items are never skipped.  Executing [Acq l] with l Plain and
   already held has no successor other than the skip: the thread blocks for ever. *)
Inductive step (P : params) : config -> config -> Prop :=
| s_skip h c m a k :
    step P (h, c, Do m a :: k) (h, c, k)
| s_acq h c m l b k :
    plainb P l && memN l h = false ->
    step P (h, c, Do m (Acq l b) :: k) (l :: h, c, map (Do m) b ++ Rel l :: k)
| s_rel h c l k :
    step P (h, c, Rel l :: k) (remove1 l h, c, k)
| s_try h c m l b k :
    memN l h = false ->          (* held by this thread: acquire(False) fails, body not run *)
    step P (h, c, Do m (TryAcq l b) :: k) (h, c, map (Do m) b ++ k)
| s_ifcb h c m cb b k :
    memN cb (p_inst P) = true ->
    step P (h, c, Do m (IfCb cb b) :: k) (h, c, map (Do m) b ++ k)
| s_call h c m m' k :
    step P (h, c, Do m (Call m') :: k) (h, c, map (Do m') (body_of P m') ++ k)
| s_cb h c m cb a k :          (* the callback calls API method a with the locks currently held, *)
    memN cb (p_inst P) = true -> (* and may go on to make further calls afterwards                 *)
    memN a (p_apis P) = true ->
    step P (h, c, Do m (UserCb cb) :: k) (h, (cb, a) :: c, Do m (Call a) :: Pop :: Do m (UserCb cb) :: k)
| s_pop h x c k :
    step P (h, x :: c, Pop :: k) (h, c, k).

Inductive star (P : params) : config -> config -> Prop :=
| star_refl x : star P x x
| star_step x y z : star P x y -> step P y z -> star P x z.

Definition init (e : N) : config := ([], [], [Do 0%N (Call e)]).

Definition reachable (P : params) (cfg : config) : Prop :=
  exists e, In e (p_entries P) /\ star P (init e) cfg.

(* where and why a configuration is stuck: innermost (callback, API) context, reason, method *)
Inductive why : Type := WLock (l : N) | WBlock (w : N).
Definition site : Type := (option (N * N) * why * N)%type.

Definition stuck_info (P : params) (cfg : config) : option site :=
  let '(h, c, k) := cfg in
  match k with
  | Do m (Acq l _) :: _ => if plainb P l && memN l h then Some (hd_error c, WLock l, m) else None
  | Do m (Block w) :: _ => Some (hd_error c, WBlock w, m)
  | _ => None
  end.

Definition no_stuck_reachable (P : params) : Prop :=
  forall cfg, reachable P cfg -> stuck_info P cfg = None.

(* ------------------------------------------------------------------ abstract interpreter *)
(* abstract state: method about to be entered, set of held locks (bit mask), innermost context *)
Definition state : Type := (N * N * option (N * N))%type.

Definition set_of (h : list N) : N := fold_right (fun l H => N.setbit H l) 0%N h.

Inductive out : Type := OState (s : state) | OStuck (t : site).

Fixpoint walk_act (P : params) (m : N) (ctx : option (N * N)) (H : N) (a : act) {struct a} : list out :=
  match a with
  | Acq l b =>
      if plainb P l && N.testbit H l then [OStuck (ctx, WLock l, m)]
      else flat_map (walk_act P m ctx (N.setbit H l)) b
  | TryAcq l b => if N.testbit H l then [] else flat_map (walk_act P m ctx H) b
  | IfCb cb b => if memN cb (p_inst P) then flat_map (walk_act P m ctx H) b else []
  | Call m' => [OState (m', H, ctx)]
  | UserCb cb =>
      if memN cb (p_inst P) then map (fun a => OState (a, H, Some (cb, a))) (p_apis P) else []
  | JoinLoopUnlessSelf => []
  | Block w => [OStuck (ctx, WBlock w, m)]
  end.

Definition outs_of (P : params) (s : state) : list out :=
  let '(m, H, ctx) := s in flat_map (walk_act P m ctx H) (body_of P m).

(* ---- equality tests *)
(* written with [if] rather than && / ||: vm_compute evaluates function arguments strictly *)
Definition pair_eqb (a b : N * N) : bool := if N.eqb (fst a) (fst b) then N.eqb (snd a) (snd b) else false.
Fixpoint mem_pair (x : N * N) (l : list (N * N)) : bool :=
  match l with
  | [] => false
  | y :: r => if pair_eqb x y then true else mem_pair x r
  end.
Definition ctx_eqb (a b : option (N * N)) : bool :=
  match a, b with
  | None, None => true
  | Some x, Some y => pair_eqb x y
  | _, _ => false
  end.
Definition why_eqb (a b : why) : bool :=
  match a, b with
  | WLock x, WLock y => N.eqb x y
  | WBlock x, WBlock y => N.eqb x y
  | _, _ => false
  end.
Definition site_eqb (a b : site) : bool :=
  let '(c1, y1, m1) := a in let '(c2, y2, m2) := b in
  if ctx_eqb c1 c2 then (if why_eqb y1 y2 then N.eqb m1 m2 else false) else false.
Definition mem_site (t : site) (K : list site) : bool := existsb (site_eqb t) K.

(* ---- a set of abstract states, indexed by context: list of (ctx, list of (method, held)) *)
Definition index : Type := list (option (N * N) * list (N * N)).

Definition idx_states (Ix : index) : list state :=
  flat_map (fun b => map (fun mh => (fst mh, snd mh, fst b)) (snd b)) Ix.

Fixpoint idx_mem (s : state) (Ix : index) : bool :=
  match Ix with
  | [] => false
  | (c, l) :: r =>
      if ctx_eqb c (snd s) then (if mem_pair (fst s) l then true else idx_mem s r) else idx_mem s r
  end.

Fixpoint idx_add (s : state) (Ix : index) : index :=
  match Ix with
  | [] => [(snd s, [fst s])]
  | (c, l) :: r => if ctx_eqb c (snd s) then (c, fst s :: l) :: r else (c, l) :: idx_add s r
  end.

Fixpoint idx_size (Ix : index) : nat :=
  match Ix with [] => O | (_, l) :: r => (length l + idx_size r)%nat end.

(* [closedb P K Ix]: Ix contains the entry states, every successor of a member is a member,
   and every stuck site met is in the allowed list K *)
Definition out_okb (K : list site) (Ix : index) (o : out) : bool :=
  match o with
  | OState s => idx_mem s Ix
  | OStuck t => mem_site t K
  end.

Definition closedb (P : params) (K : list site) (Ix : index) : bool :=
  forallb (fun e => idx_mem (e, 0%N, None) Ix) (p_entries P) &&
  forallb (fun s => forallb (out_okb K Ix) (outs_of P s)) (idx_states Ix).

(* ---- fuelled worklist exploration (not verified: its result is checked by closedb) *)
Fixpoint add_new (os : list out) (work : list state) (Ix : index) : list state * index :=
  match os with
  | [] => (work, Ix)
  | OState s :: r => if idx_mem s Ix then add_new r work Ix else add_new r (s :: work) (idx_add s Ix)
  | OStuck _ :: r => add_new r work Ix
  end.

Fixpoint explore_loop (P : params) (fuel : nat) (work : list state) (Ix : index) : index :=
  match fuel with
  | O => Ix
  | S f =>
      match work with
      | [] => Ix
      | s :: w => let '(w', Ix') := add_new (outs_of P s) w Ix in explore_loop P f w' Ix'
      end
  end.

Definition entry_outs (P : params) : list out := map (fun e => OState (e, 0%N, None)) (p_entries P).

Definition explore (P : params) (fuel : nat) : index :=
  let '(w, Ix) := add_new (entry_outs P) [] [] in explore_loop P fuel w Ix.

(* reachable (method, held-locks-at-entry) pairs, without the ghost context *)
Definition explore_pairs (P : params) (fuel : nat) : list (N * N) :=
  flat_map (fun b => snd b) (explore P fuel).

Fixpoint nodup_sites (l : list site) : list site :=
  match l with
  | [] => []
  | x :: r => if mem_site x r then nodup_sites r else x :: nodup_sites r
  end.

Definition stucks_of_outs (os : list out) : list site :=
  flat_map (fun o => match o with OStuck t => [t] | _ => [] end) os.

(* all stuck sites met from the states of Ix *)
Definition stuck_sites_of (P : params) (Ix : index) : list site :=
  nodup_sites (flat_map (fun s => stucks_of_outs (outs_of P s)) (idx_states Ix)).

Definition stuck_sites (P : params) (fuel : nat) : list site := stuck_sites_of P (explore P fuel).

(* callback invocation contexts: (callback, held set) *)
Fixpoint cb_sites_act (P : params) (H : N) (a : act) {struct a} : list (N * N) :=
  match a with
  | Acq l b => if plainb P l && N.testbit H l then [] else flat_map (cb_sites_act P (N.setbit H l)) b
  | TryAcq l b => if N.testbit H l then [] else flat_map (cb_sites_act P H) b
  | IfCb cb b => if memN cb (p_inst P) then flat_map (cb_sites_act P H) b else []
  | UserCb cb => if memN cb (p_inst P) then [(cb, H)] else []
  | _ => []
  end.

Fixpoint nodup_pairs (l : list (N * N)) : list (N * N) :=
  match l with
  | [] => []
  | x :: r => if mem_pair x r then nodup_pairs r else x :: nodup_pairs r
  end.

Definition cb_contexts (P : params) (fuel : nat) : list (N * N) :=
  nodup_pairs (flat_map (fun s => flat_map (cb_sites_act P (snd (fst s))) (body_of P (fst (fst s))))
                        (idx_states (explore P fuel))).

(* prediction for ONE nested call: callback cb, running with held set H, calls API method a.
   Nested callbacks are not followed (they are contexts of their own). *)
Definition predict (P : params) (fuel : nat) (cb H a : N) : list site :=
  let P' := mkParams (p_prog P) (p_kinds P) [] (p_inst P) [] in
  let s0 : state := (a, H, Some (cb, a)) in
  stuck_sites_of P' (explore_loop P' fuel [s0] (idx_add s0 [])).

(* ------------------------------------------------------------------ executing a concrete run from a list of choices *)
Inductive choice : Type := CSkip | CEnter | CApi (a : N).

Definition step_by (P : params) (ch : choice) (cfg : config) : option config :=
  let '(h, c, k) := cfg in
  match ch, k with
  | CSkip, Do _ _ :: k' => Some (h, c, k')
  | CEnter, Do m (Acq l b) :: k' =>
      if plainb P l && memN l h then None else Some (l :: h, c, map (Do m) b ++ Rel l :: k')
  | CEnter, Rel l :: k' => Some (remove1 l h, c, k')
  | CEnter, Do m (TryAcq l b) :: k' => if memN l h then None else Some (h, c, map (Do m) b ++ k')
  | CEnter, Do m (IfCb cb b) :: k' => if memN cb (p_inst P) then Some (h, c, map (Do m) b ++ k') else None
  | CEnter, Do m (Call m') :: k' => Some (h, c, map (Do m') (body_of P m') ++ k')
  | CEnter, Pop :: k' => match c with _ :: c' => Some (h, c', k') | [] => None end
  | CApi a, Do m (UserCb cb) :: k' =>
      if memN cb (p_inst P) && memN a (p_apis P)
      then Some (h, (cb, a) :: c, Do m (Call a) :: Pop :: Do m (UserCb cb) :: k') else None
  | _, _ => None
  end.

Fixpoint run_by (P : params) (chs : list choice) (cfg : config) : option config :=
  match chs with
  | [] => Some cfg
  | ch :: r => match step_by P ch cfg with Some cfg' => run_by P r cfg' | None => None end
  end.

Definition check_witness (P : params) (t : site) (w : N * list choice) : bool :=
  memN (fst w) (p_entries P) &&
  match run_by P (snd w) (init (fst w)) with
  | Some cfg => match stuck_info P cfg with Some t' => site_eqb t' t | None => false end
  | None => false
  end.

(* ---- witness search (not verified: its result is checked by check_witness) *)
(* positions: index path into the nested bodies of a method *)
Definition prefix_pos (i : nat) (x : list nat * out) : list nat * out := (i :: fst x, snd x).

Fixpoint walk_pos (P : params) (m : N) (ctx : option (N * N)) (H : N) (a : act) {struct a} : list (list nat * out) :=
  let go := fun (H' : N) =>
    fix go (i : nat) (bs : list act) : list (list nat * out) :=
      match bs with
      | [] => []
      | x :: r => map (prefix_pos i) (walk_pos P m ctx H' x) ++ go (S i) r
      end in
  match a with
  | Acq l b => if plainb P l && N.testbit H l then [([], OStuck (ctx, WLock l, m))] else go (N.setbit H l) O b
  | TryAcq l b => if N.testbit H l then [] else go H O b
  | IfCb cb b => if memN cb (p_inst P) then go H O b else []
  | Call m' => [([], OState (m', H, ctx))]
  | UserCb cb => if memN cb (p_inst P) then map (fun a => ([], OState (a, H, Some (cb, a)))) (p_apis P) else []
  | JoinLoopUnlessSelf => []
  | Block w => [([], OStuck (ctx, WBlock w, m))]
  end.

Fixpoint walk_body_pos (P : params) (m : N) (ctx : option (N * N)) (H : N) (i : nat) (bs : list act)
  : list (list nat * out) :=
  match bs with
  | [] => []
  | x :: r => map (prefix_pos i) (walk_pos P m ctx H x) ++ walk_body_pos P m ctx H (S i) r
  end.

Definition outs_pos (P : params) (s : state) : list (list nat * out) :=
  let '(m, H, ctx) := s in walk_body_pos P m ctx H O (body_of P m).

Definition state_eqb (a b : state) : bool :=
  if pair_eqb (fst a) (fst b) then ctx_eqb (snd a) (snd b) else false.

(* parent table: child state -> (parent state, position of the Call / UserCb in the parent's body) *)
Definition parents : Type := list (state * (state * list nat)).

Fixpoint add_new_p (from : state) (os : list (list nat * out)) (work : list state) (Ix : index) (T : parents)
  : list state * index * parents :=
  match os with
  | [] => (work, Ix, T)
  | (p, OState s) :: r =>
      if idx_mem s Ix then add_new_p from r work Ix T
      else add_new_p from r (work ++ [s]) (idx_add s Ix) ((s, (from, p)) :: T)
  | (_, OStuck _) :: r => add_new_p from r work Ix T
  end.

Fixpoint explore_p (P : params) (fuel : nat) (work : list state) (Ix : index) (T : parents) : index * parents :=
  match fuel with
  | O => (Ix, T)
  | S f =>
      match work with
      | [] => (Ix, T)
      | s :: w => let '(w', Ix', T') := add_new_p s (outs_pos P s) w Ix T in explore_p P f w' Ix' T'
      end
  end.

Definition explore_tree (P : params) (fuel : nat) : index * parents :=
  let ws := map (fun e => (e, 0%N, None)) (p_entries P) in
  explore_p P fuel ws (fold_right idx_add [] ws) [].

Fixpoint find_parent (s : state) (T : parents) : option (state * list nat) :=
  match T with
  | [] => None
  | (s', v) :: r => if state_eqb s s' then Some v else find_parent s r
  end.

(* skip i items, enter, skip j items, enter, ..., skip the last index: arrive AT the action *)
Fixpoint choices_of_pos (p : list nat) : list choice :=
  match p with
  | [] => []
  | [i] => repeat CSkip i
  | i :: r => repeat CSkip i ++ CEnter :: choices_of_pos r
  end.

(* the choices that lead from the entry of [from] through the action at position p into state s *)
Definition edge_choices (from s : state) (p : list nat) : list choice :=
  choices_of_pos p ++
  (if ctx_eqb (snd from) (snd s) then [CEnter]
   else match snd s with Some (_, a) => [CApi a; CEnter] | None => [CEnter] end).

Fixpoint path_to (T : parents) (fuel : nat) (s : state) (acc : list choice) : option (N * list choice) :=
  match fuel with
  | O => None
  | S f =>
      match find_parent s T with
      | None => match snd s with
                | None => Some (fst (fst s), CEnter :: acc)      (* an entry state *)
                | Some _ => None
                end
      | Some (from, p) => path_to T f from (edge_choices from s p ++ acc)
      end
  end.

Definition find_stuck_pos (P : params) (t : site) (s : state) : option (list nat) :=
  match filter (fun x => match snd x with OStuck t' => site_eqb t' t | _ => false end) (outs_pos P s) with
  | x :: _ => Some (fst x)
  | [] => None
  end.

Fixpoint first_some {A B : Type} (f : A -> option B) (l : list A) : option B :=
  match l with
  | [] => None
  | x :: r => match f x with Some y => Some y | None => first_some f r end
  end.

Definition witness (P : params) (IxT : index * parents) (t : site) : option (N * list choice) :=
  first_some (fun s => match find_stuck_pos P t s with
                       | Some p => path_to (snd IxT) 200 s (choices_of_pos p)
                       | None => None
                       end)
             (idx_states (fst IxT)).

Definition all_witnessed (P : params) (fuel : nat) (K : list site) : bool :=
  let IxT := explore_tree P fuel in
  forallb (fun t => match witness P IxT t with Some w => check_witness P t w | None => false end) K.

(* every Call target is a method of the program *)
Fixpoint calls_defined_act (prog : program) (a : act) {struct a} : bool :=
  match a with
  | Acq _ b | TryAcq _ b | IfCb _ b => forallb (calls_defined_act prog) b
  | Call m => match assoc m prog with Some _ => true | None => false end
  | _ => true
  end.
Definition calls_defined (prog : program) : bool :=
  forallb (fun mb => forallb (calls_defined_act prog) (snd mb)) prog.

(* ------------------------------------------------------------------ integer interface for the correspondence *)
Fixpoint mask_to_list (fuel : nat) (i : N) (mask : N) : list N :=
  match fuel with
  | O => []
  | S f => (if N.testbit mask i then [i] else []) ++ mask_to_list f (N.succ i) mask
  end.

Definition enc_site (t : site) : list Z :=
  let '(c, y, m) := t in
  (match c with Some (cb, a) => [Z.of_N cb; Z.of_N a] | None => [0; 0] end) ++
  (match y with WLock l => [0; Z.of_N l] | WBlock w => [1; Z.of_N w] end) ++ [Z.of_N m].
