(* C18: the verified decision procedure of LockGraphSound.v applied, by vm_compute, to the lock
   graph generated from the CURRENT client.py (Gen/GenLockGraph.v, regenerated on every run).
   If a new lock nesting appears in the source, [closedb ... = true] stops being true and this
   file stops compiling; if a listed site disappears, the [_refuted] lemmas stop compiling. *)
From PahoV Require Import Base.Prelude Conc.LockGraph Conc.LockGraphSound Gen.GenLockGraph Conc.LockGraphEntry.
Open Scope N_scope.

(* ------------------------------------------------------------------ the translator was able to classify everything *)
Lemma translation_clean : translation_problems = [] /\ calls_defined prog = true.
Proof. split; [reflexivity | vm_cast_no_check (eq_refl true)]. Qed.

(* ------------------------------------------------------------------ parameters (c18_apis, c18_entries, fuel: LockGraphEntry.v) *)
(* configuration A: every user callback installed (incl. all socket callbacks, on_log, on_pre_connect) *)
Definition P_all : params := mkParams prog lock_kinds c18_apis all_callbacks c18_entries.

(* configuration B: as A but on_socket_open / on_socket_close not installed *)
Definition inst_nosock : list N :=
  filter (fun c => negb (memN c [cb_on_socket_open; cb_on_socket_close])) all_callbacks.
Definition P_nosock : params := mkParams prog lock_kinds c18_apis inst_nosock c18_entries.

(* configuration C: as A, and the callbacks may also call connect() / connect_async() *)
Definition P_ext : params :=
  mkParams prog lock_kinds (c18_apis ++ [m_connect; m_connect_async]) all_callbacks c18_entries.

(* ------------------------------------------------------------------ statements *)
(* the full property: no reachable configuration blocks for ever *)
Definition C18_full : Prop := no_stuck_reachable P_all.
Definition C18_full_connect : Prop := no_stuck_reachable P_ext.

(* ------------------------------------------------------------------ the reachable sets, computed once *)
Definition Ix_all : index := Eval vm_compute in explore P_all fuel.
Definition Ix_nosock : index := Eval vm_compute in explore P_nosock fuel.
Definition Ix_ext : index := Eval vm_compute in explore P_ext fuel.

Lemma closed_all : closedb P_all [] Ix_all = true.
Proof. vm_cast_no_check (eq_refl true). Qed.

Lemma closed_nosock : closedb P_nosock [] Ix_nosock = true.
Proof. vm_cast_no_check (eq_refl true). Qed.

Lemma closed_ext : closedb P_ext [] Ix_ext = true.
Proof. vm_cast_no_check (eq_refl true). Qed.

(* ------------------------------------------------------------------ results *)
(* A. every callback installed: nothing reachable blocks - for runs of any length and any
      callback -> API -> callback nesting depth *)
Lemma c18_full : C18_full.
Proof. exact (closed_sound P_all Ix_all closed_all). Qed.

(* B. the configuration without on_socket_open / on_socket_close (kept: it is a separate point of the
      product {socket callbacks installed or not}; IfCb bodies are entered only for installed callbacks) *)
Lemma c18_nosock : no_stuck_reachable P_nosock.
Proof. exact (closed_sound P_nosock Ix_nosock closed_nosock). Qed.

(* C. callbacks may also call connect() / connect_async() *)
Lemma c18_full_connect : C18_full_connect.
Proof. exact (closed_sound P_ext Ix_ext closed_ext). Qed.

(* ------------------------------------------------------------------ non-vacuity and sanity of the generated object *)
(* the interpreter meets no stuck site at all *)
Lemma no_stuck_sites : stuck_sites_of P_all Ix_all = [] /\ stuck_sites_of P_ext Ix_ext = [].
Proof. split; vm_cast_no_check (eq_refl (@nil site)). Qed.

(* the entry points named in the design are entry points *)
Lemma entries_cover :
  forallb (fun e => memN e c18_entries)
          ([m_loop; m_loop_read; m_loop_write; m_loop_misc; m_loop_forever; m_loop_start; m_connect; m_connect_async;
            m_reconnect; m_priv_thread_main] ++ c18_apis) = true.
Proof. vm_cast_no_check (eq_refl true). Qed.

(* every callback kind is invoked somewhere with _in_callback_mutex held, so the nested calls are really explored;
   on_publish also runs under _out_message_mutex (PUBACK path) *)
Definition cbctx_all : list (N * N) := Eval vm_compute in cb_contexts P_all fuel.

(* the callback kinds the library runs under _in_callback_mutex (the socket callbacks and on_pre_connect
   run under it only when nested in another callback's API call) *)
Definition all_callback_kinds : list N :=
  [cb_on_connect; cb_on_connect_fail; cb_on_disconnect; cb_on_log; cb_on_message; cb_on_pre_connect;
   cb_on_publish; cb_on_socket_close; cb_on_socket_open; cb_on_socket_register_write;
   cb_on_socket_unregister_write; cb_on_subscribe; cb_on_unsubscribe; cb_topic_callback].

Lemma callbacks_run_under_lock :
  forallb (fun c => existsb (fun x => N.eqb (fst x) c && N.testbit (snd x) l_priv_in_callback_mutex) cbctx_all)
          all_callback_kinds
  && existsb (fun x => N.eqb (fst x) cb_on_publish && N.testbit (snd x) l_priv_out_message_mutex) cbctx_all = true.
Proof. vm_cast_no_check (eq_refl true). Qed.

(* the try-lock guard of _packet_queue is what keeps publish() inside a callback from re-entering
   _packet_write: with the guard, _packet_queue is reached with the lock held but loop_write is not ... *)
Definition held_in_cb : N := N.setbit 0 l_priv_in_callback_mutex.

Lemma guard_effective :
  idx_mem (m_priv_packet_queue, held_in_cb, Some (cb_on_connect, m_publish)) Ix_all
  && negb (idx_mem (m_loop_write, held_in_cb, Some (cb_on_connect, m_publish)) Ix_all) = true.
Proof. vm_cast_no_check (eq_refl true). Qed.

(* ... and with the guard removed (TryAcq l body replaced by body) the checker reports the re-entrant
   acquisition in _packet_write: the decision procedure does detect unguarded nestings *)
Fixpoint strip_try (a : act) : list act :=
  match a with
  | Acq l b => [Acq l (flat_map strip_try b)]
  | TryAcq _ b => flat_map strip_try b
  | IfCb c b => [IfCb c (flat_map strip_try b)]
  | x => [x]
  end.
Definition prog_noguard : program := map (fun mb => (fst mb, flat_map strip_try (snd mb))) prog.
Definition P_noguard : params := mkParams prog_noguard lock_kinds c18_apis all_callbacks c18_entries.

Lemma noguard_detected :
  mem_site (Some (cb_on_connect, m_publish), WLock l_priv_in_callback_mutex, m_priv_packet_write)
           (stuck_sites P_noguard fuel) = true.
Proof. vm_cast_no_check (eq_refl true). Qed.

(* ... and with the shape _call_socket_open / _call_socket_close had before 5844bc2 (user callback called
   inside `with self._in_callback_mutex`) the checker reports F-C18b/c again *)
Definition relock (a : act) : act :=
  match a with
  | IfCb c b => IfCb c [Acq l_priv_in_callback_mutex b]
  | x => x
  end.
Definition prog_oldsock : program :=
  map (fun mb => if N.eqb (fst mb) m_priv_call_socket_close || N.eqb (fst mb) m_priv_call_socket_open
                 then (fst mb, map relock (snd mb)) else mb) prog.
Definition P_oldsock : params := mkParams prog_oldsock lock_kinds c18_apis all_callbacks c18_entries.

Lemma old_socket_locking_detected :
  let ss := stuck_sites P_oldsock fuel in
  mem_site (Some (cb_on_connect, m_reconnect), WLock l_priv_in_callback_mutex, m_priv_call_socket_close) ss
  && mem_site (Some (cb_on_disconnect, m_reconnect), WLock l_priv_in_callback_mutex, m_priv_call_socket_open) ss
  && Nat.eqb (length ss) 28 = true.
Proof. vm_cast_no_check (eq_refl true). Qed.

(* the only potentially unbounded wait in the model (Condition.wait in wait_for_publish) is not reachable
   from any Client entry point or API call: Block sites would otherwise appear among the stuck sites above *)
Lemma lock_kinds_read :
  plainb P_all l_priv_in_callback_mutex = true /\ plainb P_all l_priv_in_message_mutex = true /\
  plainb P_all l_priv_callback_mutex = false /\ plainb P_all l_priv_out_message_mutex = false.
Proof. repeat split; reflexivity. Qed.
