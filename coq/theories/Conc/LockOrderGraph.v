(* C07.4, tie to the source: the held-while-acquiring relation of the lock / call graph that tools/py2v
   generates from client.py on every run (Gen/GenLockGraph.v, shared with C18).

   [edges_act] collects, for an action executed with held-lock mask H, every pair (mask at that moment, lock
   acquired with a blocking acquire); try-locks (`acquire(False)`) never wait and are not order edges.
   SOUNDNESS (every program, any callback / API nesting depth): if the set Ix of abstract states is closed
   (Conc/LockGraphSound.v) and every pair collected from Ix passes [edge_okb], then in EVERY reachable
   configuration of the one-thread semantics whose next action is `with self._l:`, every lock x already held
   satisfies  x = l and l reentrant,  or  rank x < rank l.
   INSTANCE: the generated program with every callback installed and passive (user code inside callbacks makes
   no API call - nested API calls are C18's subject): the relation is exactly the one of the hand-written
   skeletons of Conc/LockOrder.v, so the lock order used there is the lock order of the source. *)
From PahoV Require Import Base.Prelude Conc.LockOrder.
From PahoV Require Import Conc.LockGraph Conc.LockGraphSound Gen.GenLockGraph Conc.LockGraphEntry.
Open Scope N_scope.

Fixpoint edges_act (P : params) (H : N) (a : act) {struct a} : list (N * N) :=
  match a with
  | Acq l b => (H, l) :: (if plainb P l && N.testbit H l then [] else flat_map (edges_act P (N.setbit H l)) b)
  | TryAcq l b => if N.testbit H l then [] else flat_map (edges_act P H) b
  | IfCb cb b => if memN cb (p_inst P) then flat_map (edges_act P H) b else []
  | _ => []
  end.

Definition state_edges (P : params) (s : state) : list (N * N) :=
  let '(m, H, ctx) := s in flat_map (edges_act P H) (body_of P m).

Definition graph_edges (P : params) (Ix : index) : list (N * N) := flat_map (state_edges P) (idx_states Ix).

Section Sound.
  Variable P : params.
  Variable rank : N -> nat.
  Variable K : list site.
  Variable Ix : index.
  Hypothesis Hclosed : closedb P K Ix = true.

  Definition pair_okb (x l : N) : bool := (N.eqb x l && negb (plainb P l)) || (rank x <? rank l)%nat.
  Definition edge_okb (e : N * N) : bool :=
    (fst e <? 2 ^ 16) && forallb (fun x => pair_okb x (snd e)) (mask_to_list 16 0 (fst e)).
  Hypothesis Hedges : forallb edge_okb (graph_edges P Ix) = true.

  Definition act_edges_ok (H : N) (a : act) : Prop := forall e, In e (edges_act P H a) -> edge_okb e = true.

  Fixpoint cont_inv2 (h : list N) (k : list item) {struct k} : Prop :=
    match k with
    | [] => True
    | Do m a :: k' => act_edges_ok (set_of h) a /\ cont_inv2 h k'
    | Rel l :: k' => cont_inv2 (remove1 l h) k'
    | Pop :: k' => cont_inv2 h k'
    end.

  Definition inv2 (cfg : config) : Prop := let '(h, c, k) := cfg in cont_inv2 h k.

  Lemma member_edges_ok m H cx : In (m, H, cx) (idx_states Ix) -> forall a, In a (body_of P m) -> act_edges_ok H a.
  Proof.
    intros Hin a Ha e He. rewrite forallb_forall in Hedges. apply Hedges.
    unfold graph_edges. apply in_flat_map. exists (m, H, cx). split; [assumption|].
    cbn. apply in_flat_map. exists a. split; assumption.
  Qed.

  Lemma cont_inv2_app_do m h b k :
    (forall a, In a b -> act_edges_ok (set_of h) a) -> cont_inv2 h k -> cont_inv2 h (map (Do m) b ++ k).
  Proof.
    induction b as [|a b IH]; intros Hb Hk; cbn [map app cont_inv2]; [assumption|].
    split; [apply Hb; left; reflexivity | apply IH; [intros; apply Hb; right; assumption | assumption]].
  Qed.

  Lemma flat_map_edges_ok H b :
    (forall e, In e (flat_map (edges_act P H) b) -> edge_okb e = true) -> forall a, In a b -> act_edges_ok H a.
  Proof. intros Hall a Ha e He. apply Hall. apply in_flat_map. exists a; split; assumption. Qed.

  Lemma step_inv2 cfg cfg' : step P cfg cfg' -> inv P K Ix cfg -> inv2 cfg -> inv2 cfg'.
  Proof.
    intros Hs; destruct Hs; unfold inv, inv2; cbn [cont_inv cont_inv2].
    - (* skip *) intros _ [_ Hk]; assumption.
    - (* acq *) intros _ [Ha Hk]. apply cont_inv2_app_do.
      + unfold act_edges_ok in Ha. cbn [edges_act] in Ha. rewrite testbit_set_of, H in Ha.
        cbn [set_of fold_right]. fold (set_of h). apply flat_map_edges_ok. intros e He. apply Ha. right; assumption.
      + cbn [cont_inv2 remove1]. rewrite N.eqb_refl. assumption.
    - (* rel *) intros _ Hk; assumption.
    - (* try *) intros _ [Ha Hk]. apply cont_inv2_app_do; [|assumption].
      unfold act_edges_ok in Ha. cbn [edges_act] in Ha. rewrite testbit_set_of, H in Ha.
      apply flat_map_edges_ok; assumption.
    - (* ifcb *) intros _ [Ha Hk]. apply cont_inv2_app_do; [|assumption].
      unfold act_edges_ok in Ha. cbn [edges_act] in Ha. rewrite H in Ha. apply flat_map_edges_ok; assumption.
    - (* call: the callee's entry state is a member of Ix *)
      intros [Hact _] [_ Hk]. apply cont_inv2_app_do; [|assumption].
      apply (member_edges_ok m' (set_of h) (hd_error c)).
      apply (Hact (OState (m', set_of h, hd_error c))). cbn [walk_act]. left; reflexivity.
    - (* user callback makes an API call *)
      intros _ [Ha Hk]. repeat split; try assumption; intros e He; cbn [edges_act] in He; contradiction.
    - (* pop *) intros _ Hk; assumption.
  Qed.

  Lemma init_inv2 e : inv2 (init e).
  Proof. unfold inv2, init. cbn [cont_inv2]. split; [|exact I]. intros x Hx. cbn [edges_act] in Hx. contradiction. Qed.

  Lemma reachable_inv2 cfg : reachable P cfg -> inv2 cfg.
  Proof.
    intros [e [He Hstar]].
    assert (G : inv P K Ix cfg /\ inv2 cfg).
    { remember (init e) as c0 eqn:E0. induction Hstar.
      - subst. split; [apply init_inv; assumption | apply init_inv2].
      - destruct (IHHstar E0) as [I1 I2]. split; [eapply step_inv; eassumption | eapply step_inv2; eassumption]. }
    exact (proj2 G).
  Qed.

  (* reading a mask *)
  Lemma mask_to_list_In f : forall i H x, (i <= x < i + N.of_nat f) -> N.testbit H x = true -> In x (mask_to_list f i H).
  Proof.
    induction f as [|f IH]; intros i H x Hr Hb; [lia|].
    cbn [mask_to_list]. apply in_or_app. destruct (N.eq_dec x i) as [->|Hne].
    - left. rewrite Hb. left; reflexivity.
    - right. apply IH; [lia|assumption].
  Qed.

  Lemma testbit_small H x : H < 2 ^ 16 -> N.testbit H x = true -> x < 16.
  Proof.
    intros Hlt Hb. destruct (N.lt_ge_cases x 16) as [|Hge]; [assumption|].
    destruct (N.eq_dec H 0) as [->|Hnz]; [rewrite N.bits_0 in Hb; discriminate|].
    assert (N.log2 H < 16) by (apply N.log2_lt_pow2; lia).
    rewrite N.bits_above_log2 in Hb by lia. discriminate.
  Qed.

  (* the discipline holds at every blocking acquisition of every reachable configuration *)
  Theorem graph_lock_order h c m l b k x :
    reachable P (h, c, Do m (Acq l b) :: k) -> In x h -> pair_okb x l = true.
  Proof.
    intros Hr Hx. apply reachable_inv2 in Hr. unfold inv2 in Hr. cbn [cont_inv2] in Hr. destruct Hr as [Ha _].
    specialize (Ha (set_of h, l)). cbn [edges_act] in Ha. specialize (Ha (or_introl eq_refl)).
    unfold edge_okb in Ha. cbn [fst snd] in Ha. apply andb_true_iff in Ha as [Hlt Hall].
    apply N.ltb_lt in Hlt. rewrite forallb_forall in Hall. apply Hall.
    assert (Hb : N.testbit (set_of h) x = true).
    { rewrite testbit_set_of. unfold memN. apply existsb_exists. exists x. split; [assumption|apply N.eqb_refl]. }
    apply mask_to_list_In; [|assumption]. pose proof (testbit_small _ _ Hlt Hb). lia.
  Qed.
End Sound.

(* ------------------------------------------------------------------ the generated program *)
(* every callback installed, no API call from inside callbacks (those are C18); every public method and
   _thread_main as entry points *)
Definition P07 : params := mkParams prog lock_kinds [] all_callbacks c18_entries.
Definition Ix07 : index := Eval vm_compute in explore P07 fuel.

Definition gen_rank (l : N) : nat :=
  if N.eqb l l_priv_out_message_mutex then 0%nat else if N.eqb l l_priv_in_callback_mutex then 1%nat else 2%nat.

Lemma closed07 : closedb P07 [] Ix07 = true.
Proof. vm_compute. reflexivity. Qed.

Lemma edges07_ok : forallb (edge_okb P07 gen_rank) (graph_edges P07 Ix07) = true.
Proof. vm_compute. reflexivity. Qed.

(* in the source-derived graph: whenever `with self._l:` is about to be executed, every lock already held is l
   itself (reentrant) or ranks strictly below l *)
Theorem gen_lock_order h c m l b k x :
  reachable P07 (h, c, Do m (Acq l b) :: k) -> In x h ->
  (x = l /\ plainb P07 l = false) \/ (gen_rank x < gen_rank l)%nat.
Proof.
  intros Hr Hx. pose proof (graph_lock_order P07 gen_rank [] Ix07 closed07 edges07_ok h c m l b k x Hr Hx) as H.
  unfold pair_okb in H. apply orb_true_iff in H as [H|H].
  - apply andb_true_iff in H as [H1 H2]. apply N.eqb_eq in H1. apply negb_true_iff in H2. left; auto.
  - apply Nat.ltb_lt in H. right; assumption.
Qed.

(* ... and no thread of the source-derived graph blocks on a lock it holds itself (no self-deadlock with passive callbacks) *)
Theorem gen_no_self_deadlock : no_stuck_reachable P07.
Proof. exact (closed_sound P07 Ix07 closed07). Qed.

(* the relation of the generated graph is the relation of the skeletons of Conc/LockOrder.v *)
Definition lock_of_gen (l : N) : nat :=
  if N.eqb l l_priv_mid_generate_mutex then L_mid else if N.eqb l l_priv_out_message_mutex then L_out
  else if N.eqb l l_priv_in_callback_mutex then L_incb else if N.eqb l l_priv_callback_mutex then L_cb
  else if N.eqb l l_priv_msgtime_mutex then L_time else if N.eqb l l_priv_in_message_mutex then L_inmsg
  else if N.eqb l l_priv_reconnect_delay_mutex then L_delay else L_cond.

Definition gen_pairs : list (nat * nat) :=
  dedup (flat_map (fun e => map (fun x => (lock_of_gen x, lock_of_gen (snd e))) (mask_to_list 16 0 (fst e)))
                  (graph_edges P07 Ix07)).

Definition subset_pairs (a b : list (nat * nat)) : bool :=
  forallb (fun x => existsb (fun y => Nat.eqb (fst x) (fst y) && Nat.eqb (snd x) (snd y)) b) a.

Lemma gen_relation_is_model_relation :
  subset_pairs gen_pairs (dedup client_edges) && subset_pairs (dedup client_edges) gen_pairs = true.
Proof. vm_compute. reflexivity. Qed.

Lemma gen_ranks_agree : forallb (fun l => Nat.eqb (gen_rank l) (client_rank (lock_of_gen l)))
  [l_priv_callback_mutex; l_priv_in_callback_mutex; l_priv_in_message_mutex; l_priv_mid_generate_mutex;
   l_priv_msgtime_mutex; l_priv_out_message_mutex; l_priv_reconnect_delay_mutex; l_info_condition] = true.
Proof. vm_compute. reflexivity. Qed.
