(* C07.5 and the races between publish() and reconnect() executed by the loop thread.
   The FULL statements (every schedule) are FALSE in the faithful model; each gets
     - a [_refuted] lemma with a concrete witness schedule (checked by vm_compute), and
     - a [_partial] theorem: the statement holds for every schedule that never visits a configuration in
       which a publisher sits between its `self._sock is None` test and its deque append while the loop
       thread is inside the corresponding window of reconnect().
   (a) CONNECT first      window = after `_out_packet.clear()`, until CONNECT has been appended   [race_a]
   (b) no internal error  window = the `for pkt in self._out_packet` iteration                     [race_b]
   (d) no silent loss     window = from the start of that iteration until `clear()`                [race_d] *)
From PahoV Require Import Base.Prelude Codec.Mid Conc.Sched Conc.SchedLemmas.

(* ------------------------------------------------------------------ schedules that avoid a set of configurations *)
Lemma safe_run_inv (bad : conf -> bool) (P : conf -> Prop) :
  (forall t c c', P c -> bad c = false -> tstep t c = Some c' -> P c') ->
  forall s c, safe_run bad s c = true -> P c -> P (sched_run s c).
Proof.
  intros Hstep s. induction s as [|t s IH]; intros c Hs Hc; cbn [safe_run sched_run] in *; [assumption|].
  apply andb_true_iff in Hs as [Hb Hs]. apply negb_true_iff in Hb.
  apply IH; [assumption|]. unfold step_or_skip. destruct (tstep t c) as [c'|] eqn:E; [|assumption].
  eapply Hstep; eassumption.
Qed.

Lemma no_race_no_append (w : lpc -> bool) c i p :
  w (loop c) && existsb (at_pc PAppend) (pubs c) = false -> w (loop c) = true ->
  nth_error (pubs c) i = Some p -> pc p <> PAppend.
Proof.
  intros Hr Hw Hp E. rewrite Hw in Hr. cbn in Hr.
  assert (X : existsb (at_pc PAppend) (pubs c) = true).
  { apply existsb_exists. exists p. split; [eapply nth_error_In; eassumption|]. unfold at_pc. rewrite E. reflexivity. }
  congruence.
Qed.

(* what a publisher step does to the deque *)
Lemma pstep_queue_shape i p c c' : pstep i p c = Some c' ->
  marked c' = marked c /\
  ( (pc p = PAppend /\ out_packet c' = out_packet c ++ [Publish i (idx p) (ret p)] /\ qver c' = S (qver c) /\
     exists p', pubs c' = upd i p' (pubs c) /\ sentp p' = sentp p ++ [Publish i (idx p) (ret p)])
 \/ (pc p <> PAppend /\ out_packet c' = out_packet c /\ qver c' = qver c /\
     exists p', pubs c' = upd i p' (pubs c) /\ sentp p' = sentp p) ).
Proof.
  intros Hs. unfold pstep in Hs.
  destruct (pc p) eqn:Epc;
    repeat match type of Hs with
           | context [match ?x with _ => _ end] => destruct x eqn:?
           end; try discriminate; inversion Hs; subst; clear Hs; unfold set_pub; cbn; (split; [reflexivity|]).
  all: try (right; repeat split; try discriminate; eexists; split; reflexivity).
  left. repeat split. eexists; split; reflexivity.
Qed.

(* ================================================================== (a) CONNECT first *)
Lemma seen_app k w1 w2 : seen k (w1 ++ w2) = seen k w1 || seen k w2.
Proof.
  induction w1 as [|[k' p'] w1 IH]; cbn; [reflexivity|]. rewrite IH. now rewrite orb_assoc.
Qed.

Lemma wire_ok_from_snoc w : forall pre k p,
  wire_ok_from pre (w ++ [(k, p)]) = wire_ok_from pre w && (seen k (pre ++ w) || is_connect_of k p).
Proof.
  induction w as [|[k' p'] w IH]; intros pre k p; cbn [app wire_ok_from].
  - rewrite app_nil_r, andb_true_r. reflexivity.
  - rewrite IH. rewrite <- app_assoc. cbn [app]. now rewrite andb_assoc.
Qed.

Lemma wire_ok_snoc w k p : wire_ok (w ++ [(k, p)]) = wire_ok w && (seen k w || is_connect_of k p).
Proof. unfold wire_ok. rewrite wire_ok_from_snoc. reflexivity. Qed.

Lemma seen_tag k w : seen k w = true -> exists p, In (k, p) w.
Proof.
  induction w as [|[k' p'] w IH]; cbn; [discriminate|]. intros H. apply orb_true_iff in H as [H|H].
  - apply Z.eqb_eq in H; subst. eexists; left; reflexivity.
  - destruct (IH H) as [p Hp]. exists p; right; assumption.
Qed.

Definition after_connect (l : lpc) : bool :=
  match l with LWant | LSelect _ | LDrain | LPop | LSend _ | RWake => true | _ => false end.

Definition pending (c : conf) : list pkt := in_send (loop c) ++ out_packet c.

Definition KInv (c : conf) : Prop :=
  wire_ok (wire c) = true /\
  (forall k p, In (k, p) (wire c) -> k < nconn c) /\
  (forall k, sock c = Some k -> k < nconn c) /\
  (forall k, sock c = Some k -> after_connect (loop c) = true -> seen k (wire c) = false ->
             exists rest, pending c = Connect k :: rest) /\
  (in_window_a (loop c) = true -> out_packet c = []).

Lemma KInv_init m0 l0 pipe0 nmsgs : in_send l0 = [] -> in_window_a l0 = false -> KInv (init m0 l0 pipe0 nmsgs).
Proof.
  intros Hi Hw. unfold KInv, init; cbn. split; [reflexivity|]. split; [|split; [|split]].
  - intros k p [H|[]]. inversion H; subst. lia.
  - intros k H. inversion H; subst. lia.
  - intros k H _ Hs. inversion H; subst. cbn in Hs. discriminate.
  - intros H. congruence.
Qed.

Lemma KInv_pstep i p c c' : KInv c -> race_a c = false -> nth_error (pubs c) i = Some p ->
  pstep i p c = Some c' -> KInv c'.
Proof.
  intros (K1 & K2 & K3 & K4 & K5) Hr Hp Hs.
  destruct (pstep_frame i p c c' Hs) as (Ew & Es & El & _ & _ & En & _).
  destruct (pstep_queue_shape i p c c' Hs) as (_ & Hq).
  unfold KInv, pending. rewrite Ew, Es, El, En.
  destruct Hq as [(Epc & Eq & _)|(Epc & Eq & _)]; rewrite Eq.
  - repeat split; try assumption.
    + intros k Hk Ha Hsn. destruct (K4 k Hk Ha Hsn) as [rest Hrest]. unfold pending in Hrest.
      exists (rest ++ [Publish i (idx p) (ret p)]). rewrite app_assoc, Hrest. reflexivity.
    + intros Hw. exfalso. exact (no_race_no_append in_window_a c i p Hr Hw Hp Epc).
  - repeat split; assumption.
Qed.

Ltac fin_k4 K4 :=
  let k := fresh "k" in let Hk := fresh "Hk" in let Ha := fresh "Ha" in let Hsn := fresh "Hsn" in
  intros k Hk Ha Hsn; try discriminate;
  repeat match goal with E : out_packet _ = _ |- _ => rewrite E end;
  specialize (K4 k Hk eq_refl Hsn); cbn in K4 |- *; exact K4.

Lemma KInv_lstep c c' : KInv c -> lstep c = Some c' -> KInv c'.
Proof.
  intros (K1 & K2 & K3 & K4 & K5) Hs. unfold lstep in Hs. unfold KInv, pending in *.
  destruct (loop c) as [|wl| | |x| | |ver k| | | | |] eqn:El; cbn [after_connect in_window_a in_send] in *.
  - (* LWant *) inversion Hs; subst; cbn. repeat split; auto; try (intros H; discriminate).
  - (* LSelect *)
    destruct (0 <? pipe c)%nat; [|destruct wl; [|discriminate]]; inversion Hs; subst; cbn; repeat split; auto;
      try (intros H; discriminate).
  - (* LDrain *) inversion Hs; subst; cbn. repeat split; auto; try (intros H; discriminate).
  - (* LPop *)
    destruct (out_packet c) as [|y q] eqn:Eq; inversion Hs; subst; cbn; repeat split; auto;
      try (intros H; discriminate); fin_k4 K4.
  - (* LSend *)
    destruct (sock c) as [k|] eqn:Ek; inversion Hs; subst; cbn.
    + split; [|split; [|split; [|split]]].
      * rewrite wire_ok_snoc, K1. cbn. destruct (seen k (wire c)) eqn:Esn; [reflexivity|].
        destruct (K4 k eq_refl eq_refl Esn) as [rest Hrest]. cbn in Hrest. inversion Hrest; subst. cbn.
        apply Z.eqb_refl.
      * intros k' p' Hin. apply in_app_or in Hin as [Hin|[Hin|[]]]; [eapply K2; eassumption|].
        inversion Hin; subst. apply K3; reflexivity.
      * assumption.
      * intros k' Hk' _ Hsn. inversion Hk'; subst. rewrite seen_app in Hsn. cbn in Hsn.
        rewrite Z.eqb_refl, orb_true_r in Hsn. discriminate.
      * intros H; discriminate.
    + split; [assumption|]. split; [assumption|]. split; [intros k' H; discriminate|].
      split; [intros k' H; discriminate | intros H; discriminate].
  - (* RClose *) inversion Hs; subst; cbn. split; [assumption|]. split; [assumption|].
    split; [intros k' H; discriminate|]. split; [intros k' H; discriminate | intros H; discriminate].
  - (* RIterStart *) inversion Hs; subst; cbn. split; [assumption|]. split; [assumption|]. split; [assumption|].
    split; [intros k' H H'; discriminate | intros H; discriminate].
  - (* RIter *)
    destruct (negb (Nat.eqb (qver c) ver)); [|destruct k]; inversion Hs; subst; cbn;
      (split; [assumption|]; split; [assumption|]; split; [assumption|];
       split; [intros k' H H'; discriminate | intros H; discriminate]).
  - (* RClear *) inversion Hs; subst; cbn. split; [assumption|]. split; [assumption|]. split; [assumption|].
    split; [intros k' H H'; discriminate | reflexivity].
  - (* RSock *) inversion Hs; subst; cbn. split; [assumption|]. split; [|split; [|split]].
    + intros k' p' Hin. specialize (K2 k' p' Hin). lia.
    + intros k' H. inversion H; subst. lia.
    + intros k' H H'; discriminate.
    + intros _. apply K5. reflexivity.
  - (* RConnect *)
    destruct (sock c) as [k|] eqn:Ek; [|discriminate]. inversion Hs; subst; cbn.
    split; [assumption|]. split; [assumption|]. split; [assumption|]. split.
    + intros k' Hk' _ _. inversion Hk'; subst. rewrite (K5 eq_refl). exists []. reflexivity.
    + intros H; discriminate.
  - (* RWake *) inversion Hs; subst; cbn. split; [assumption|]. split; [assumption|]. split; [assumption|].
    split; [fin_k4 K4 | intros H; discriminate].
  - discriminate.
Qed.

Lemma KInv_step t c c' : KInv c -> race_a c = false -> tstep t c = Some c' -> KInv c'.
Proof.
  intros HK Hr Hs. apply tstep_cases in Hs as [[_ Hs]|[[_ Hs]|(i & p & _ & Hp & Hs)]].
  - eapply KInv_lstep; eassumption.
  - destruct HK as (K1 & K2 & K3 & K4 & K5).
    destruct (timeout_frame c c' Hs) as (_ & _ & _ & _ & Eo & Ew & _ & Es & El & _ & El' & _ & _ & En).
    unfold KInv, pending. rewrite Ew, Es, En, Eo, El'. cbn. repeat split; try assumption.
    + intros k Hk _ Hsn. assert (Ha : after_connect (loop c) = true) by (rewrite El; reflexivity).
      specialize (K4 k Hk Ha Hsn). unfold pending in K4. rewrite El in K4. exact K4.
    + intros H; discriminate.
  - eapply KInv_pstep; eassumption.
Qed.

Definition connect_first_full : Prop :=
  forall m0 nmsgs s, wire_ok (wire (sched_run s (init_reconnect m0 nmsgs))) = true.

(* witness: reconnect() up to `self._sock = ...`, then one whole publish(), then _send_connect and a write *)
Definition witness_a : list tid := repeat Loop 5 ++ repeat (Pub 0) 8 ++ repeat Loop 7.

Lemma connect_first_refuted :
  wire (sched_run witness_a (init_reconnect 0 [1%nat])) = [(1, Connect 1); (2, Publish 0 0 1)] /\
  wire_ok (wire (sched_run witness_a (init_reconnect 0 [1%nat]))) = false /\
  sched_skipped witness_a (init_reconnect 0 [1%nat]) = O.
Proof. vm_compute. repeat split; reflexivity. Qed.

Lemma connect_first_full_false : ~ connect_first_full.
Proof. intros H. specialize (H 0 [1%nat] witness_a). destruct connect_first_refuted as (_ & E & _). congruence. Qed.

Theorem connect_first_partial m0 l0 pipe0 nmsgs s : in_send l0 = [] -> in_window_a l0 = false ->
  safe_run race_a s (init m0 l0 pipe0 nmsgs) = true ->
  wire_ok (wire (sched_run s (init m0 l0 pipe0 nmsgs))) = true.
Proof.
  intros Hi Hw Hsafe.
  assert (G : KInv (sched_run s (init m0 l0 pipe0 nmsgs))).
  { apply (safe_run_inv race_a KInv); [intros t c c'; apply KInv_step | assumption | apply KInv_init; assumption]. }
  exact (proj1 G).
Qed.

(* ================================================================== (b) deque mutated during iteration *)
Definition BInv (c : conf) : Prop :=
  crashed c = false /\ (forall ver k, loop c = RIter ver k -> qver c = ver).

Lemma BInv_step t c c' : BInv c -> race_b c = false -> tstep t c = Some c' -> BInv c'.
Proof.
  intros (B1 & B2) Hr Hs. apply tstep_cases in Hs as [[_ Hs]|[[_ Hs]|(i & p & _ & Hp & Hs)]].
  - unfold lstep in Hs. unfold BInv.
    destruct (loop c) as [|wl| | |x| | |ver k| | | | |] eqn:El;
      try (repeat match type of Hs with
                  | context [if ?b then _ else _] => destruct b eqn:?
                  | context [match ?x with _ => _ end] => destruct x eqn:?
                  end; try discriminate; inversion Hs; subst; cbn; (split; [assumption|]);
           intros v k' H; try discriminate; inversion H; subst; reflexivity).
    (* RIter: the version still matches, so the iterator does not raise *)
    rewrite (B2 ver k eq_refl), Nat.eqb_refl in Hs. cbn in Hs.
    destruct k; inversion Hs; subst; cbn; (split; [assumption|]); intros v k' H; try discriminate.
    inversion H; subst. apply (B2 v (S k') eq_refl).
  - destruct (timeout_frame c c' Hs) as (_ & _ & _ & _ & _ & _ & _ & _ & _ & _ & El' & Ec & _).
    unfold BInv. rewrite Ec, El'. split; [assumption|]. intros v k H; discriminate.
  - destruct (pstep_frame i p c c' Hs) as (_ & _ & El & Ec & _).
    destruct (pstep_queue_shape i p c c' Hs) as (_ & [(Epc & _ & Eq & _)|(Epc & _ & Eq & _)]).
    + unfold BInv. rewrite Ec, El. split; [assumption|]. intros v k H. exfalso.
      apply (no_race_no_append in_window_b c i p Hr); [rewrite H; reflexivity | assumption | assumption].
    + unfold BInv. rewrite Ec, El, Eq. split; assumption.
Qed.

Definition no_internal_error_full : Prop :=
  forall m0 nmsgs s, crashed (sched_run s (init_reconnect m0 nmsgs)) = false.

(* witness: the publisher passes `self._sock is None` on the old connection, reconnect() starts iterating,
   the publisher appends, the iterator notices *)
Definition witness_b : list tid := repeat (Pub 0) 7 ++ [Loop; Loop; Pub 0; Loop].

Lemma no_internal_error_refuted :
  crashed (sched_run witness_b (init_reconnect 0 [1%nat])) = true /\
  sched_skipped witness_b (init_reconnect 0 [1%nat]) = O.
Proof. vm_compute. split; reflexivity. Qed.

Lemma no_internal_error_full_false : ~ no_internal_error_full.
Proof. intros H. specialize (H 0 [1%nat] witness_b). destruct no_internal_error_refuted as (E & _). congruence. Qed.

Theorem no_internal_error_partial m0 l0 pipe0 nmsgs s :
  (forall ver k, l0 <> RIter ver k) ->
  safe_run race_b s (init m0 l0 pipe0 nmsgs) = true ->
  crashed (sched_run s (init m0 l0 pipe0 nmsgs)) = false.
Proof.
  intros Hl Hsafe.
  assert (G : BInv (sched_run s (init m0 l0 pipe0 nmsgs))).
  { apply (safe_run_inv race_b BInv); [intros t c c'; apply BInv_step | assumption |].
    split; [reflexivity|]. intros v k H. cbn in H. exfalso. exact (Hl v k H). }
  exact (proj1 G).
Qed.

(* ================================================================== (d) packets dropped without being marked lost *)
Definition DInv (c : conf) : Prop :=
  (forall i p x, nth_error (pubs c) i = Some p -> In x (sentp p) -> In x (flight c) \/ In x (marked c)) /\
  (in_window_d (loop c) = true -> incl (out_packet c) (marked c)).

Lemma DInv_init m0 l0 pipe0 nmsgs : in_window_d l0 = false -> DInv (init m0 l0 pipe0 nmsgs).
Proof.
  intros Hw. unfold DInv, init; cbn. split.
  - intros i p x Hp Hx. apply nth_error_In in Hp. apply in_map_iff in Hp as [n [<- _]]. destruct n; contradiction.
  - intros H; congruence.
Qed.

Lemma DInv_lstep c c' : DInv c -> lstep c = Some c' -> DInv c'.
Proof.
  intros (D1 & D2) Hs. destruct (lstep_frame c c' Hs) as (Ep & _).
  unfold lstep in Hs. unfold DInv, flight in *. rewrite Ep.
  destruct (loop c) as [|wl| | |x| | |ver k| | | | |] eqn:El; cbn [in_window_d in_send] in *.
  - inversion Hs; subst; cbn. split; [exact D1 | intros H; discriminate].
  - destruct (0 <? pipe c)%nat; [|destruct wl; [|discriminate]]; inversion Hs; subst; cbn;
      (split; [exact D1 | intros H; discriminate]).
  - inversion Hs; subst; cbn. split; [exact D1 | intros H; discriminate].
  - destruct (out_packet c) as [|y q] eqn:Eq; inversion Hs; subst; cbn in D1 |- *; rewrite ?Eq;
      (split; [|intros H; discriminate]).
    + exact D1.
    + intros i p x Hp Hx. exact (D1 i p x Hp Hx).
  - destruct (sock c) as [k|] eqn:Ek; inversion Hs; subst; cbn; (split; [|intros H; discriminate]).
    + intros i p z Hp Hz. destruct (D1 i p z Hp Hz) as [H|H]; [left|right; assumption].
      rewrite map_app. cbn. rewrite <- app_assoc. exact H.
    + intros i p z Hp Hz. exact (D1 i p z Hp Hz).
  - inversion Hs; subst; cbn. split; [exact D1 | intros H; discriminate].
  - (* RIterStart: everything queued now is going to be marked *)
    inversion Hs; subst; cbn. split.
    + intros i p z Hp Hz. destruct (D1 i p z Hp Hz) as [H|H]; [left; exact H | right; apply in_or_app; left; exact H].
    + intros _ z Hz. apply in_or_app; right; exact Hz.
  - (* RIter *)
    destruct (negb (Nat.eqb (qver c) ver)); [|destruct k]; inversion Hs; subst; cbn.
    + split; [exact D1 | intros H; discriminate].
    + split; [exact D1 | intros _; apply D2; reflexivity].
    + split; [exact D1 | intros _; apply D2; reflexivity].
  - (* RClear: whatever disappears has been marked *)
    inversion Hs; subst; cbn. split; [|intros H; discriminate].
    intros i p z Hp Hz. destruct (D1 i p z Hp Hz) as [H|H]; [|right; assumption].
    apply in_app_or in H as [H|H]; [left; apply in_or_app; left; exact H|].
    cbn in H. right. apply (D2 eq_refl). exact H.
  - inversion Hs; subst; cbn. split; [exact D1 | intros H; discriminate].
  - destruct (sock c) as [k|]; [|discriminate]. inversion Hs; subst; cbn. split; [|intros H; discriminate].
    intros i p z Hp Hz. destruct (D1 i p z Hp Hz) as [H|H]; [left|right; assumption].
    cbn in H. rewrite app_assoc. apply in_or_app; left. exact H.
  - inversion Hs; subst; cbn. split; [exact D1 | intros H; discriminate].
  - discriminate.
Qed.

Lemma DInv_step t c c' : DInv c -> race_d c = false -> tstep t c = Some c' -> DInv c'.
Proof.
  intros HD Hr Hs. apply tstep_cases in Hs as [[_ Hs]|[[_ Hs]|(i & p & _ & Hp & Hs)]].
  - eapply DInv_lstep; eassumption.
  - destruct HD as (D1 & D2).
    destruct (timeout_frame c c' Hs) as (Ep & _ & _ & _ & Eo & Ew & _ & _ & El & _ & El' & _).
    assert (Em : marked c' = marked c).
    { unfold timeout_step in Hs. rewrite El in Hs. destruct (0 <? pipe c)%nat; [discriminate|]. inversion Hs; reflexivity. }
    unfold DInv, flight. rewrite Ep, Eo, Ew, El', Em. cbn. split; [|intros H; discriminate].
    intros j q x Hq Hx. specialize (D1 j q x Hq Hx). unfold flight in D1. rewrite El in D1. exact D1.
  - destruct HD as (D1 & D2).
    destruct (pstep_frame i p c c' Hs) as (Ew & _ & El & _).
    destruct (pstep_queue_shape i p c c' Hs) as (Em & Hq).
    unfold DInv, flight. rewrite Ew, El, Em.
    destruct Hq as [(Epc & Eq & _ & p' & Epubs & Es)|(Epc & Eq & _ & p' & Epubs & Es)]; rewrite Eq, Epubs.
    + split.
      * intros j q x Hj Hx. apply nth_upd_inv in Hj as [[<- ->]|[Hne Hj]].
        -- rewrite Es in Hx. apply in_app_or in Hx as [Hx|[Hx|[]]].
           ++ destruct (D1 i p x Hp Hx) as [H|H]; [left|right; assumption].
              unfold flight in H. rewrite !app_assoc. apply in_or_app; left. rewrite <- app_assoc. exact H.
           ++ subst x. left. rewrite !app_assoc. apply in_or_app; right; left; reflexivity.
        -- destruct (D1 j q x Hj Hx) as [H|H]; [left|right; assumption].
           unfold flight in H. rewrite !app_assoc. apply in_or_app; left. rewrite <- app_assoc. exact H.
      * intros Hw. exfalso. exact (no_race_no_append in_window_d c i p Hr Hw Hp Epc).
    + split; [|exact D2].
      intros j q x Hj Hx. apply nth_upd_inv in Hj as [[<- ->]|[Hne Hj]].
      * rewrite Es in Hx. exact (D1 i p x Hp Hx).
      * exact (D1 j q x Hj Hx).
Qed.

Lemma pkt_eqb_refl x : pkt_eqb x x = true.
Proof. destruct x; cbn; rewrite ?Nat.eqb_refl, ?Z.eqb_refl; reflexivity. Qed.

Lemma DInv_conserved c : DInv c -> conserved c = true.
Proof.
  intros (D1 & _). unfold conserved. apply forallb_forall. intros p Hp. apply forallb_forall. intros x Hx.
  apply In_nth_error in Hp as [i Hi]. apply existsb_exists. exists x. split; [|apply pkt_eqb_refl].
  apply in_or_app. exact (D1 i p x Hi Hx).
Qed.

Definition no_silent_loss_full : Prop :=
  forall m0 nmsgs s, conserved (sched_run s (init_reconnect m0 nmsgs)) = true.

(* witness: reconnect() finishes its (empty) marking loop, the publisher appends, clear() discards the packet *)
Definition witness_d : list tid := repeat (Pub 0) 7 ++ [Loop; Loop; Loop; Pub 0; Loop].

Lemma no_silent_loss_refuted :
  let c := sched_run witness_d (init_reconnect 0 [1%nat]) in
  conserved c = false /\ out_packet c = [] /\ marked c = [] /\ wire c = [(1, Connect 1)] /\
  sched_skipped witness_d (init_reconnect 0 [1%nat]) = O.
Proof. vm_compute. repeat split; reflexivity. Qed.

Lemma no_silent_loss_full_false : ~ no_silent_loss_full.
Proof. intros H. specialize (H 0 [1%nat] witness_d). destruct no_silent_loss_refuted as (E & _). congruence. Qed.

Theorem no_silent_loss_partial m0 l0 pipe0 nmsgs s : in_window_d l0 = false ->
  safe_run race_d s (init m0 l0 pipe0 nmsgs) = true ->
  conserved (sched_run s (init m0 l0 pipe0 nmsgs)) = true.
Proof.
  intros Hw Hsafe. apply DInv_conserved.
  apply (safe_run_inv race_d DInv); [intros t c c'; apply DInv_step | assumption | apply DInv_init; assumption].
Qed.

(* the exclusions are satisfiable by schedules in which publishers and reconnect() really overlap *)
Example exclusions_nonvacuous :
  let s := [Pub 0; Loop; Pub 0; Loop; Loop; Pub 0; Loop; Pub 0; Pub 0; Pub 0; Loop; Loop; Pub 0; Loop; Loop; Loop;
            Loop; Loop; Loop; Pub 0; Pub 0; Pub 0; Pub 0; Pub 0; Pub 0; Pub 0; Pub 0; Pub 0; Pub 0; Loop; Loop; Loop;
            Loop; Loop; Loop; Loop; Loop] in
  let c0 := init_reconnect 0 [2%nat] in
  safe_run race_a s c0 && safe_run race_b s c0 && safe_run race_d s c0 = true /\
  wire (sched_run s c0) = [(1, Connect 1); (2, Connect 2); (2, Publish 0 0 1)] /\
  map results (pubs (sched_run s c0)) = [[(0%nat, 1, true)]] /\ sched_skipped s c0 = O.
Proof. vm_compute. repeat split; reflexivity. Qed.
