(* C07.5 and the interplay of publish() with reconnect() executed by the loop thread - code as of /repo
   commits c6905fd (reconnect() drains the queue with one popleft per step and marks what it takes) and
   0ed8c5c (CONNECT is queued with appendleft).  With these the three statements that the earlier code refuted
   (findings F-C07a, F-C07b, F-C07d; their witness schedules are kept in corpus/C07 as regression replays) are
   FULL theorems: every schedule, any number of publishers, any starting point of the loop thread, no exclusion.
   (a) CONNECT is the first packet on every connection;
   (b) the loop thread has no failing step: the only configuration in which it cannot step is "parked in
       select() with nothing ready" (no iterator over a deque that others mutate, popleft on empty is handled);
   (d) nothing is lost silently: every packet a publisher appended is written, in hand, queued or marked lost. *)
From PahoV Require Import Base.Prelude Codec.Mid Conc.Sched Conc.SchedLemmas.

(* what a publisher step does to the deque *)
Lemma pstep_queue_shape i p c c' : pstep i p c = Some c' ->
  marked c' = marked c /\
  ( (pc p = PAppend /\ out_packet c' = out_packet c ++ [Publish i (idx p) (ret p)] /\
     exists p', pubs c' = upd i p' (pubs c) /\ sentp p' = sentp p ++ [Publish i (idx p) (ret p)])
 \/ (pc p <> PAppend /\ out_packet c' = out_packet c /\
     exists p', pubs c' = upd i p' (pubs c) /\ sentp p' = sentp p) ).
Proof.
  intros Hs. unfold pstep in Hs.
  destruct (pc p) eqn:Epc;
    repeat match type of Hs with
           | context [match ?x with _ => _ end] => destruct x eqn:?
           end; try discriminate; inversion Hs; subst; clear Hs; unfold set_pub; cbn; (split; [reflexivity|]).
  all: try (right; repeat split; try discriminate; eexists; split; reflexivity).
  left. repeat split. eexists; split; reflexivity.
Qed.

(* ================================================================== (a) CONNECT first *)
Lemma seen_app k w1 w2 : seen k (w1 ++ w2) = seen k w1 || seen k w2.
Proof.
  induction w1 as [|[k' p'] w1 IH]; cbn; [reflexivity|]. rewrite IH. now rewrite orb_assoc.
Qed.

Lemma wire_ok_from_snoc w : forall pre k p,
  wire_ok_from pre (w ++ [(k, p)]) = wire_ok_from pre w && (seen k (pre ++ w) || is_connect_of k p).
Proof.
  induction w as [|[k' p'] w IH]; intros pre k p; cbn [app wire_ok_from].
  - rewrite app_nil_r, andb_true_r. reflexivity.
  - rewrite IH. rewrite <- app_assoc. cbn [app]. now rewrite andb_assoc.
Qed.

Lemma wire_ok_snoc w k p : wire_ok (w ++ [(k, p)]) = wire_ok w && (seen k w || is_connect_of k p).
Proof. unfold wire_ok. rewrite wire_ok_from_snoc. reflexivity. Qed.

Lemma seen_tag k w : seen k w = true -> exists p, In (k, p) w.
Proof.
  induction w as [|[k' p'] w IH]; cbn; [discriminate|]. intros H. apply orb_true_iff in H as [H|H].
  - apply Z.eqb_eq in H; subst. eexists; left; reflexivity.
  - destruct (IH H) as [p Hp]. exists p; right; assumption.
Qed.

Definition after_connect (l : lpc) : bool :=
  match l with LWant | LSelect _ | LDrain | LGate | LPop | LSend _ | RFlagT | RWake => true | _ => false end.

Definition pending (c : conf) : list pkt := in_send (loop c) ++ out_packet c.

Definition KInv (c : conf) : Prop :=
  wire_ok (wire c) = true /\
  (forall k p, In (k, p) (wire c) -> k < nconn c) /\
  (forall k, sock c = Some k -> k < nconn c) /\
  (forall k, sock c = Some k -> after_connect (loop c) = true -> seen k (wire c) = false ->
             exists rest, pending c = Connect k :: rest).

Lemma KInv_init m0 l0 pipe0 nmsgs : KInv (init m0 l0 pipe0 nmsgs).
Proof.
  unfold KInv, init; cbn. split; [reflexivity|]. split; [|split].
  - intros k p [H|[]]. inversion H; subst. lia.
  - intros k H. inversion H; subst. lia.
  - intros k H _ Hs. inversion H; subst. cbn in Hs. discriminate.
Qed.

Lemma KInv_pstep i p c c' : KInv c -> pstep i p c = Some c' -> KInv c'.
Proof.
  intros (K1 & K2 & K3 & K4) Hs.
  destruct (pstep_frame i p c c' Hs) as (Ew & Es & El & _ & En & _).
  destruct (pstep_queue_shape i p c c' Hs) as (_ & Hq).
  unfold KInv, pending. rewrite Ew, Es, El, En.
  destruct Hq as [(Epc & Eq & _)|(Epc & Eq & _)]; rewrite Eq.
  - split; [assumption|]. split; [assumption|]. split; [assumption|].
    intros k Hk Ha Hsn. destruct (K4 k Hk Ha Hsn) as [rest Hrest]. unfold pending in Hrest.
    exists (rest ++ [Publish i (idx p) (ret p)]). rewrite app_assoc, Hrest. reflexivity.
  - split; [assumption|]. split; [assumption|]. split; assumption.
Qed.

Ltac fin_k4 K4 :=
  let k := fresh "k" in let Hk := fresh "Hk" in let Ha := fresh "Ha" in let Hsn := fresh "Hsn" in
  intros k Hk Ha Hsn; try discriminate;
  repeat match goal with E : out_packet _ = _ |- _ => rewrite E end;
  specialize (K4 k Hk eq_refl Hsn); cbn in K4 |- *; exact K4.

Lemma KInv_lstep c c' : KInv c -> lstep c = Some c' -> KInv c'.
Proof.
  intros (K1 & K2 & K3 & K4) Hs. unfold lstep in Hs. unfold KInv, pending in *.
  destruct (loop c) as [|wl| | | |x| | | | | | |] eqn:El; cbn [after_connect in_send] in *.
  - (* LWant *) inversion Hs; subst; cbn. repeat split; auto.
  - (* LSelect *)
    destruct (0 <? pipe c)%nat; [|destruct wl; [|discriminate]]; inversion Hs; subst; cbn; repeat split; auto.
  - (* LDrain *) inversion Hs; subst; cbn. repeat split; auto.
  - (* LGate *) inversion Hs; subst; cbn. destruct (cq c); cbn; repeat split; auto.
  - (* LPop *)
    destruct (out_packet c) as [|y q] eqn:Eq; inversion Hs; subst; cbn; repeat split; auto; fin_k4 K4.
  - (* LSend *)
    destruct (sock c) as [k|] eqn:Ek; inversion Hs; subst; cbn.
    + split; [|split; [|split]].
      * rewrite wire_ok_snoc, K1. cbn. destruct (seen k (wire c)) eqn:Esn; [reflexivity|].
        destruct (K4 k eq_refl eq_refl Esn) as [rest Hrest]. cbn in Hrest. inversion Hrest; subst. cbn.
        apply Z.eqb_refl.
      * intros k' p' Hin. apply in_app_or in Hin as [Hin|[Hin|[]]]; [eapply K2; eassumption|].
        inversion Hin; subst. apply K3; reflexivity.
      * assumption.
      * intros k' Hk' _ Hsn. inversion Hk'; subst. rewrite seen_app in Hsn. cbn in Hsn.
        rewrite Z.eqb_refl, orb_true_r in Hsn. discriminate.
    + split; [assumption|]. split; [assumption|]. split; intros k' H; discriminate.
  - (* RClose *) inversion Hs; subst; cbn. split; [assumption|]. split; [assumption|].
    split; intros k' H; discriminate.
  - (* RDrain *)
    destruct (out_packet c) as [|y q] eqn:Eq; inversion Hs; subst; cbn;
      (split; [assumption|]; split; [assumption|]; split; [assumption|]; intros k' H H'; discriminate).
  - (* RFlag *) inversion Hs; subst; cbn. split; [assumption|]. split; [assumption|]. split; [assumption|].
    intros k' H H'; discriminate.
  - (* RSock *) inversion Hs; subst; cbn. split; [assumption|]. split; [|split].
    + intros k' p' Hin. specialize (K2 k' p' Hin). lia.
    + intros k' H. inversion H; subst. lia.
    + intros k' H H'; discriminate.
  - (* RConnect: appendleft puts CONNECT ahead of whatever was queued since the socket exists *)
    destruct (sock c) as [k|] eqn:Ek; [|discriminate]. inversion Hs; subst; cbn.
    split; [assumption|]. split; [assumption|]. split; [assumption|].
    intros k' Hk' _ _. inversion Hk'; subst. eexists. reflexivity.
  - (* RFlagT *) inversion Hs; subst; cbn. split; [assumption|]. split; [assumption|]. split; [assumption|].
    fin_k4 K4.
  - (* RWake *) inversion Hs; subst; cbn. split; [assumption|]. split; [assumption|]. split; [assumption|].
    fin_k4 K4.
Qed.

Lemma KInv_step t c c' : KInv c -> tstep t c = Some c' -> KInv c'.
Proof.
  intros HK Hs. apply tstep_cases in Hs as [[_ Hs]|[[_ Hs]|(i & p & _ & Hp & Hs)]].
  - eapply KInv_lstep; eassumption.
  - destruct HK as (K1 & K2 & K3 & K4).
    destruct (timeout_frame c c' Hs) as (_ & _ & _ & _ & Eo & Ew & _ & Es & El & _ & El' & En).
    unfold KInv, pending. rewrite Ew, Es, En, Eo, El'. cbn. split; [assumption|]. split; [assumption|].
    split; [assumption|].
    intros k Hk _ Hsn. assert (Ha : after_connect (loop c) = true) by (rewrite El; reflexivity).
    specialize (K4 k Hk Ha Hsn). unfold pending in K4. rewrite El in K4. exact K4.
  - eapply KInv_pstep; eassumption.
Qed.

(* (a) every schedule: the first packet written on each connection is its CONNECT *)
Theorem connect_first m0 l0 pipe0 nmsgs s :
  wire_ok (wire (sched_run s (init m0 l0 pipe0 nmsgs))) = true.
Proof.
  assert (G : KInv (sched_run s (init m0 l0 pipe0 nmsgs))).
  { apply run_inv; [intros t c c'; apply KInv_step | apply KInv_init]. }
  exact (proj1 G).
Qed.

(* ================================================================== (b) the loop thread never fails *)
Definition SInv (c : conf) : Prop := loop c = RConnect -> exists k, sock c = Some k.

Lemma SInv_step t c c' : SInv c -> tstep t c = Some c' -> SInv c'.
Proof.
  intros HS Hs. apply tstep_cases in Hs as [[_ Hs]|[[_ Hs]|(i & p & _ & Hp & Hs)]].
  - unfold lstep in Hs. unfold SInv in *.
    destruct (loop c) as [|wl| | | |x| | | | | | |] eqn:El;
      repeat match type of Hs with
             | context [if ?b then _ else _] => destruct b eqn:?
             | context [match ?x with _ => _ end] => destruct x eqn:?
             end; try discriminate; inversion Hs; subst; cbn; intros H; try discriminate.
    eexists; reflexivity.
  - destruct (timeout_frame c c' Hs) as (_ & _ & _ & _ & _ & _ & _ & _ & _ & _ & El' & _).
    unfold SInv. rewrite El'. discriminate.
  - destruct (pstep_frame i p c c' Hs) as (_ & Es & El & _). unfold SInv. rewrite Es, El. exact HS.
Qed.

Theorem loop_never_fails m0 l0 pipe0 nmsgs s :
  let c := sched_run s (init m0 l0 pipe0 nmsgs) in
  tstep Loop c = None -> loop c = LSelect false /\ pipe c = O.
Proof.
  intros c Hn.
  assert (HS : SInv c).
  { apply run_inv; [intros t x x'; apply SInv_step|]. unfold SInv, init; cbn. intros _. eexists; reflexivity. }
  cbn [tstep] in Hn. unfold lstep in Hn.
  destruct (loop c) as [|wl| | | |x| | | | | | |] eqn:El; try discriminate.
  - destruct (0 <? pipe c)%nat eqn:Ep; [discriminate|]. destruct wl; [discriminate|].
    apply Nat.ltb_ge in Ep. split; [reflexivity|lia].
  - destruct (out_packet c); discriminate.
  - destruct (sock c); discriminate.
  - destruct (out_packet c); discriminate.
  - destruct (HS El) as [k Hk]. rewrite Hk in Hn. discriminate.
Qed.

(* ================================================================== (d) nothing is dropped unmarked *)
Definition DInv (c : conf) : Prop :=
  forall i p x, nth_error (pubs c) i = Some p -> In x (sentp p) -> In x (flight c) \/ In x (marked c).

Lemma DInv_init m0 l0 pipe0 nmsgs : DInv (init m0 l0 pipe0 nmsgs).
Proof.
  unfold DInv, init; cbn. intros i p x Hp Hx.
  apply nth_error_In in Hp. apply in_map_iff in Hp as [n [<- _]]. destruct n; contradiction.
Qed.

Lemma DInv_lstep c c' : DInv c -> lstep c = Some c' -> DInv c'.
Proof.
  intros D1 Hs. destruct (lstep_frame c c' Hs) as (Ep & _).
  unfold lstep in Hs. unfold DInv, flight in *. rewrite Ep.
  destruct (loop c) as [|wl| | | |x| | | | | | |] eqn:El; cbn [in_send] in *.
  - inversion Hs; subst; cbn. exact D1.
  - destruct (0 <? pipe c)%nat; [|destruct wl; [|discriminate]]; inversion Hs; subst; cbn; exact D1.
  - inversion Hs; subst; cbn. exact D1.
  - inversion Hs; subst; cbn. destruct (cq c); cbn; exact D1.
  - destruct (out_packet c) as [|y q] eqn:Eq; inversion Hs; subst; cbn in D1 |- *; rewrite ?Eq; exact D1.
  - destruct (sock c) as [k|] eqn:Ek; inversion Hs; subst; cbn.
    + intros i p z Hp Hz. destruct (D1 i p z Hp Hz) as [H|H]; [left|right; assumption].
      rewrite map_app. cbn. rewrite <- app_assoc. exact H.
    + intros i p z Hp Hz. exact (D1 i p z Hp Hz).
  - inversion Hs; subst; cbn. exact D1.
  - (* RDrain: what leaves the queue is marked *)
    destruct (out_packet c) as [|y q] eqn:Eq; inversion Hs; subst; cbn in D1 |- *; rewrite ?Eq; [exact D1|].
    intros i p z Hp Hz. destruct (D1 i p z Hp Hz) as [H|H].
    + apply in_app_or in H as [H|[H|H]].
      * left. apply in_or_app; left; exact H.
      * subst z. right. apply in_or_app; right; left; reflexivity.
      * left. apply in_or_app; right; exact H.
    + right. apply in_or_app; left; exact H.
  - inversion Hs; subst; cbn. exact D1.
  - inversion Hs; subst; cbn. exact D1.
  - destruct (sock c) as [k|]; [|discriminate]. inversion Hs; subst; cbn.
    intros i p z Hp Hz. destruct (D1 i p z Hp Hz) as [H|H]; [left|right; assumption].
    cbn in H. apply in_app_or in H as [H|H]; apply in_or_app; [left; exact H | right; right; exact H].
  - inversion Hs; subst; cbn. exact D1.
  - inversion Hs; subst; cbn. exact D1.
Qed.

Lemma DInv_step t c c' : DInv c -> tstep t c = Some c' -> DInv c'.
Proof.
  intros D1 Hs. apply tstep_cases in Hs as [[_ Hs]|[[_ Hs]|(i & p & _ & Hp & Hs)]].
  - eapply DInv_lstep; eassumption.
  - destruct (timeout_frame c c' Hs) as (Ep & _ & _ & _ & Eo & Ew & _ & _ & El & _ & El' & _).
    assert (Em : marked c' = marked c).
    { unfold timeout_step in Hs. rewrite El in Hs. destruct (0 <? pipe c)%nat; [discriminate|]. inversion Hs; reflexivity. }
    unfold DInv, flight. rewrite Ep, Eo, Ew, El', Em. cbn.
    intros j q x Hq Hx. specialize (D1 j q x Hq Hx). unfold flight in D1. rewrite El in D1. exact D1.
  - destruct (pstep_frame i p c c' Hs) as (Ew & _ & El & _).
    destruct (pstep_queue_shape i p c c' Hs) as (Em & Hq).
    unfold DInv, flight. rewrite Ew, El, Em.
    destruct Hq as [(Epc & Eq & p' & Epubs & Es)|(Epc & Eq & p' & Epubs & Es)]; rewrite Eq, Epubs.
    + intros j q x Hj Hx. apply nth_upd_inv in Hj as [[<- ->]|[Hne Hj]].
      * rewrite Es in Hx. apply in_app_or in Hx as [Hx|[Hx|[]]].
        -- destruct (D1 i p x Hp Hx) as [H|H]; [left|right; assumption].
           unfold flight in H. rewrite !app_assoc. apply in_or_app; left. rewrite <- app_assoc. exact H.
        -- subst x. left. rewrite !app_assoc. apply in_or_app; right; left; reflexivity.
      * destruct (D1 j q x Hj Hx) as [H|H]; [left|right; assumption].
        unfold flight in H. rewrite !app_assoc. apply in_or_app; left. rewrite <- app_assoc. exact H.
    + intros j q x Hj Hx. apply nth_upd_inv in Hj as [[<- ->]|[Hne Hj]].
      * rewrite Es in Hx. exact (D1 i p x Hp Hx).
      * exact (D1 j q x Hj Hx).
Qed.

Lemma pkt_eqb_refl x : pkt_eqb x x = true.
Proof. destruct x; cbn; rewrite ?Nat.eqb_refl, ?Z.eqb_refl; reflexivity. Qed.

Lemma DInv_conserved c : DInv c -> conserved c = true.
Proof.
  intros D1. unfold conserved. apply forallb_forall. intros p Hp. apply forallb_forall. intros x Hx.
  apply In_nth_error in Hp as [i Hi]. apply existsb_exists. exists x. split; [|apply pkt_eqb_refl].
  apply in_or_app. exact (D1 i p x Hi Hx).
Qed.

Theorem no_silent_loss m0 l0 pipe0 nmsgs s :
  conserved (sched_run s (init m0 l0 pipe0 nmsgs)) = true.
Proof.
  apply DInv_conserved. apply run_inv; [intros t c c'; apply DInv_step | apply DInv_init].
Qed.

(* ------------------------------------------------------------------ the schedules that refuted the earlier code *)
(* the interleavings of findings F-C07a, F-C07b, F-C07d, re-timed for the new step structure of reconnect():
   a publisher passes the `_sock` test and appends while the loop thread is inside reconnect() *)
Definition old_a : list tid := repeat Loop 4 ++ repeat (Pub 0) 8 ++ repeat Loop 11.
Definition old_bd : list tid := repeat (Pub 0) 7 ++ [Loop; Loop; Pub 0] ++ repeat Loop 14.

Example old_witnesses_now_hold :
  let a := sched_run old_a (init_reconnect 0 [1%nat]) in
  let b := sched_run old_bd (init_reconnect 0 [1%nat]) in
  wire a = [(1, Connect 1); (2, Connect 2); (2, Publish 0 0 1)] /\ wire_ok (wire a) = true /\
  sched_skipped old_a (init_reconnect 0 [1%nat]) = O /\
  wire b = [(1, Connect 1); (2, Connect 2); (2, Publish 0 0 1)] /\ conserved b = true /\ marked b = [].
Proof. vm_compute. repeat split; reflexivity. Qed.

(* ... and a packet that IS in the queue when reconnect() drains it is marked, not written *)
Example drained_packet_is_marked :
  let s := repeat (Pub 0) 8 ++ repeat Loop 16 in
  let c := sched_run s (init_reconnect 0 [1%nat]) in
  marked c = [Publish 0 0 1] /\ wire c = [(1, Connect 1); (2, Connect 2)] /\ conserved c = true.
Proof. vm_compute. repeat split; reflexivity. Qed.
