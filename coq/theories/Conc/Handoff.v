(* C07.2: hand-off of packets from the publisher threads to the loop thread through the lock-free
   deque, in the steady state (connection established, no reconnect() running, the loop thread is the
   only writer).  For EVERY schedule and ANY number of publishers:
     [flight c] = written ++ being written ++ queued  restricted to publisher i  =  the packets i appended,
   in i's own order (so [flight] is an order-preserving interleaving of the publishers' sequences), no
   packet occurs twice, every packet carries the id _mid_generate returned for it, and when every
   thread has finished and the queue is drained each message is on the wire exactly once. *)
From PahoV Require Import Base.Prelude Codec.Mid Conc.Sched Conc.SchedLemmas Conc.MidGen.

Definition steady (l : lpc) : bool :=
  match l with LWant | LSelect _ | LDrain | LGate | LPop | LSend _ => true | _ => false end.

Definition pkt_idx (p : pkt) : nat := match p with Publish _ k _ => k | Connect _ => O end.

Definition appended (k : ppc) : bool := match k with PPipe | PRet => true | _ => false end.

(* what holds for publisher i (with n messages to publish) against the hand-over list fl *)
Definition pub_ok (i n : nat) (p : pub) (fl : list pkt) : Prop :=
  filter (owner_is i) fl = sentp p /\
  map pkt_idx (sentp p) = seq 0 (length (sentp p)) /\
  length (sentp p) = (idx p + (if appended (pc p) then 1 else 0))%nat /\
  (idx p + todo p = n)%nat /\
  (pc p = PDone <-> todo p = O).

Definition HInv (nmsgs : list nat) (k0 : Z) (c : conf) : Prop :=
  steady (loop c) = true /\ sock c = Some k0 /\ length (pubs c) = length nmsgs /\
  (forall i p n, nth_error (pubs c) i = Some p -> nth_error nmsgs i = Some n -> pub_ok i n p (flight c)) /\
  NoDup (filter is_publish (flight c)) /\
  (forall o k m, In (Publish o k m) (flight c) -> In (o, k, m) (alloc_log c)).

(* ------------------------------------------------------------------ list facts *)
Lemma filter_app_single {A} (f : A -> bool) l x :
  filter f (l ++ [x]) = filter f l ++ (if f x then [x] else []).
Proof. rewrite filter_app. reflexivity. Qed.

Lemma seq_snoc a n : seq a (S n) = seq a n ++ [(a + n)%nat].
Proof. rewrite seq_S. reflexivity. Qed.

Lemma NoDup_snoc {A} (l : list A) x : NoDup l -> ~ In x l -> NoDup (l ++ [x]).
Proof.
  intros Hn Hx. apply NoDup_rev in Hn. rewrite <- (rev_involutive (l ++ [x])). apply NoDup_rev.
  rewrite rev_app_distr. cbn. constructor; [rewrite <- in_rev; assumption | assumption].
Qed.

Lemma owner_is_other i j k m : i <> j -> owner_is j (Publish i k m) = false.
Proof. intros H. cbn. apply Nat.eqb_neq. assumption. Qed.

(* ------------------------------------------------------------------ the loop thread only moves packets along *)
Lemma lstep_flight c c' k0 : lstep c = Some c' -> steady (loop c) = true -> sock c = Some k0 ->
  flight c' = flight c /\ steady (loop c') = true /\ sock c' = Some k0.
Proof.
  unfold lstep, flight. intros H Hs Hk.
  destruct (loop c) as [|wl| | | |p| | | | | | |]; try discriminate Hs.
  - inversion H; subst; cbn. auto.
  - destruct (0 <? pipe c)%nat; [|destruct wl; [|discriminate]]; inversion H; subst; cbn; auto.
  - inversion H; subst; cbn. auto.
  - inversion H; subst; cbn. destruct (cq c); auto.
  - destruct (out_packet c) as [|x q] eqn:E; inversion H; subst; cbn; rewrite ?E; auto.
  - rewrite Hk in H. inversion H; subst; cbn. rewrite map_app. cbn. rewrite <- app_assoc. auto.
Qed.

(* ------------------------------------------------------------------ initial configuration *)
Lemma nth_map_new_pub nmsgs i p n :
  nth_error (map new_pub nmsgs) i = Some p -> nth_error nmsgs i = Some n -> p = new_pub n.
Proof. intros H1 H2. rewrite nth_error_map, H2 in H1. cbn in H1. congruence. Qed.

Lemma HInv_init m0 l0 pipe0 nmsgs : steady l0 = true -> in_send l0 = [] -> HInv nmsgs 1 (init m0 l0 pipe0 nmsgs).
Proof.
  intros Hs Hi. unfold HInv, init, flight; cbn. rewrite Hi. cbn.
  split; [assumption|]. split; [reflexivity|]. split; [apply map_length|]. split; [|split].
  - intros i p n H H0. rewrite (nth_map_new_pub _ _ _ _ H H0). unfold pub_ok.
    destruct n; cbn; repeat split; try reflexivity; try discriminate; try lia.
  - constructor.
  - intros o k m [H|[]]. discriminate H.
Qed.

(* ------------------------------------------------------------------ publisher steps *)
Lemma next_msg_ok i n p b fl : pc p <> PDone ->
  filter (owner_is i) fl = sentp p -> map pkt_idx (sentp p) = seq 0 (length (sentp p)) ->
  length (sentp p) = S (idx p) -> (idx p + todo p = n)%nat -> (pc p = PDone <-> todo p = O) ->
  pub_ok i n (next_msg p b) fl.
Proof.
  intros Hnd H1 H2 H3 H4 H5. unfold pub_ok, next_msg; cbn.
  assert (todo p <> O) by (intro E; apply H5 in E; contradiction).
  destruct (todo p) as [|[|t]] eqn:Et; [contradiction| |]; cbn; repeat split; try assumption; try lia;
    try discriminate; try reflexivity.
Qed.

(* shape of a publisher step when a socket is present *)
Lemma pstep_shape i p c c' k0 : pstep i p c = Some c' -> sock c = Some k0 ->
  exists p', pubs c' = upd i p' (pubs c) /\ (forall x, In x (alloc_log c) -> In x (alloc_log c')) /\
    ( (pc p = PAppend /\ flight c' = flight c ++ [Publish i (idx p) (ret p)] /\
       sentp p' = sentp p ++ [Publish i (idx p) (ret p)] /\ idx p' = idx p /\ todo p' = todo p /\ pc p' = PPipe)
   \/ (pc p = PRet /\ flight c' = flight c /\ p' = next_msg p true)
   \/ (pc p <> PAppend /\ pc p <> PRet /\ flight c' = flight c /\ sentp p' = sentp p /\ idx p' = idx p /\
       todo p' = todo p /\ pc p' <> PDone /\ appended (pc p') = appended (pc p)) ).
Proof.
  intros Hs Hk. unfold pstep in Hs. rewrite Hk in Hs.
  destruct (pc p) eqn:Epc;
    repeat match type of Hs with
           | context [match ?x with _ => _ end] => destruct x eqn:?
           end; try discriminate; inversion Hs; subst; clear Hs; unfold set_pub;
    (eexists; split; [reflexivity|]); cbn [alloc_log].
  all: try (split; [intros x Hx; first [assumption | apply in_or_app; left; assumption]|]).
  all: try (right; right; unfold flight; cbn; repeat split; (discriminate || reflexivity)).
  - (* PAppend *) left. unfold flight; cbn. rewrite !app_assoc. repeat split; reflexivity.
  - (* PRet *) right; left. unfold flight; cbn. repeat split; reflexivity.
Qed.

Lemma pstep_HInv nmsgs k0 m0 i p c c' :
  Inv m0 c -> HInv nmsgs k0 c -> nth_error (pubs c) i = Some p -> pstep i p c = Some c' -> HInv nmsgs k0 c'.
Proof.
  intros HI (Hst & Hk & Hlen & Hpub & Hnd & Hmid) Hp Hs.
  destruct HI as (_ & _ & _ & Hres).
  assert (Hn : exists n, nth_error nmsgs i = Some n).
  { assert (Hl : (i < length nmsgs)%nat) by (rewrite <- Hlen; apply nth_error_Some; congruence).
    destruct (nth_error nmsgs i) eqn:E; [eauto|]. apply nth_error_None in E. lia. }
  destruct Hn as [n Hn]. destruct (Hpub i p n Hp Hn) as (P1 & P2 & P3 & P4 & P5).
  destruct (pstep_frame i p c c' Hs) as (Ew & Es & El & _ & _ & Elen).
  destruct (pstep_shape i p c c' k0 Hs Hk) as (p' & Epubs & Elog & Hcase).
  unfold HInv. rewrite El, Es, Elen. split; [assumption|]. split; [assumption|]. split; [assumption|].
  destruct Hcase as [(Epc & Efl & E1 & E2 & E3 & E4)|[(Epc & Efl & ->)|(N1 & N2 & Efl & E1 & E2 & E3 & E4 & E5)]].
  - (* PAppend *)
    rewrite Efl. rewrite Epc in P3; cbn [appended] in P3.
    assert (Hfresh : ~ In (Publish i (idx p) (ret p)) (flight c)).
    { intros Hin. assert (Hin' : In (Publish i (idx p) (ret p)) (sentp p)).
      { rewrite <- P1. apply filter_In. split; [assumption|]. cbn. apply Nat.eqb_refl. }
      apply (in_map pkt_idx) in Hin'. rewrite P2 in Hin'. cbn [pkt_idx] in Hin'. apply in_seq in Hin'. lia. }
    split; [|split].
    + intros j q nj Hq Hnj. rewrite Epubs in Hq. apply nth_upd_inv in Hq as [[<- ->]|[Hne Hq]].
      * assert (nj = n) by congruence; subst nj. unfold pub_ok. rewrite E1, E2, E3, E4. cbn [appended].
        rewrite filter_app_single. cbn [owner_is]. rewrite Nat.eqb_refl, P1.
        rewrite map_app, app_length, P2. cbn [map length pkt_idx].
        repeat split; try lia.
        -- rewrite Nat.add_1_r, seq_snoc. rewrite P3. cbn. rewrite Nat.add_0_r. reflexivity.
        -- discriminate.
        -- intros E. apply P5 in E. rewrite Epc in E. discriminate.
      * destruct (Hpub j q nj Hq Hnj) as (Q1 & Q2 & Q3 & Q4 & Q5). unfold pub_ok.
        rewrite filter_app_single. rewrite (owner_is_other i j _ _ Hne). rewrite app_nil_r. exact (conj Q1 (conj Q2 (conj Q3 (conj Q4 Q5)))).
    + rewrite filter_app_single. cbn [is_publish]. apply NoDup_snoc; [assumption|].
      intros Hin. apply filter_In in Hin as [Hin _]. contradiction.
    + intros o k m Hin. apply in_app_or in Hin as [Hin|[Hin|[]]]; [apply Elog; apply Hmid; assumption|].
      inversion Hin; subst. apply Elog. destruct (Hres o p Hp) as [Ha _]. apply Ha. rewrite Epc. reflexivity.
  - (* PRet *)
    rewrite Efl. rewrite Epc in P3; cbn [appended] in P3. split; [|split; [assumption|]].
    + intros j q nj Hq Hnj. rewrite Epubs in Hq. apply nth_upd_inv in Hq as [[<- ->]|[Hne Hq]]; [|apply Hpub; assumption].
      assert (nj = n) by congruence; subst nj. apply next_msg_ok; try assumption; try lia.
      rewrite Epc; discriminate.
    + intros o k m Hin. apply Elog. apply Hmid. assumption.
  - (* any other step *)
    rewrite Efl. split; [|split; [assumption|]].
    + intros j q nj Hq Hnj. rewrite Epubs in Hq. apply nth_upd_inv in Hq as [[<- ->]|[Hne Hq]]; [|apply Hpub; assumption].
      assert (nj = n) by congruence; subst nj. unfold pub_ok. rewrite E1, E2, E3, E5.
      repeat split; try assumption.
      * intros E; contradiction.
      * intros E. apply P5 in E. unfold pstep in Hs. rewrite E in Hs. discriminate.
    + intros o k m Hin. apply Elog. apply Hmid. assumption.
Qed.

Lemma HInv_step nmsgs k0 m0 t c c' :
  Inv m0 c -> HInv nmsgs k0 c -> tstep t c = Some c' -> HInv nmsgs k0 c'.
Proof.
  intros HI HH Hs. apply tstep_cases in Hs as [[_ Hs]|[[_ Hs]|(i & p & _ & Hp & Hs)]].
  - destruct HH as (Hst & Hk & Hlen & Hpub & Hnd & Hmid).
    destruct (lstep_flight c c' k0 Hs Hst Hk) as (Ef & Est & Esk).
    destruct (lstep_frame c c' Hs) as (Ep & _ & _ & Ea).
    unfold HInv. rewrite Ef, Ep, Ea. exact (conj Est (conj Esk (conj Hlen (conj Hpub (conj Hnd Hmid))))).
  - destruct HH as (Hst & Hk & Hlen & Hpub & Hnd & Hmid).
    destruct (timeout_frame c c' Hs) as (Ep & _ & _ & Ea & Eo & Ew & _ & Esk & El & _ & El' & _).
    assert (Ef : flight c' = flight c) by (unfold flight; rewrite Eo, Ew, El, El'; reflexivity).
    unfold HInv. rewrite Ef, Ep, Ea, Esk, El'. exact (conj eq_refl (conj Hk (conj Hlen (conj Hpub (conj Hnd Hmid))))).
  - eapply pstep_HInv; eassumption.
Qed.

Lemma HInv_run m0 l0 pipe0 nmsgs s : 0 <= m0 <= 65535 -> steady l0 = true -> in_send l0 = [] ->
  HInv nmsgs 1 (sched_run s (init m0 l0 pipe0 nmsgs)).
Proof.
  intros Hm Hs Hi.
  assert (G : Inv m0 (sched_run s (init m0 l0 pipe0 nmsgs)) /\ HInv nmsgs 1 (sched_run s (init m0 l0 pipe0 nmsgs))).
  { apply (run_inv (fun c => Inv m0 c /\ HInv nmsgs 1 c)).
    - intros t c c' [H1 H2] Hst. split; [eapply Inv_step; eassumption | eapply HInv_step; eassumption].
    - split; [apply Inv_init | apply HInv_init; assumption]. }
  exact (proj2 G).
Qed.

(* ------------------------------------------------------------------ the theorems *)
(* per publisher: its packets appear in [flight] exactly as, and in the order in which, it appended them,
   numbered 0, 1, 2, ... *)
Theorem handoff_order m0 l0 pipe0 nmsgs s i p : 0 <= m0 <= 65535 -> steady l0 = true -> in_send l0 = [] ->
  let c := sched_run s (init m0 l0 pipe0 nmsgs) in
  nth_error (pubs c) i = Some p ->
  filter (owner_is i) (flight c) = sentp p /\ map pkt_idx (sentp p) = seq 0 (length (sentp p)).
Proof.
  intros Hm Hs Hi c Hp. destruct (HInv_run m0 l0 pipe0 nmsgs s Hm Hs Hi) as (_ & _ & Hlen & Hpub & _).
  fold c in Hlen, Hpub.
  assert (Hl : (i < length nmsgs)%nat) by (rewrite <- Hlen; apply nth_error_Some; congruence).
  destruct (nth_error nmsgs i) as [n|] eqn:E; [|apply nth_error_None in E; lia].
  destruct (Hpub i p n Hp E) as (P1 & P2 & _). split; assumption.
Qed.

(* no packet is handed over twice *)
Theorem handoff_at_most_once m0 l0 pipe0 nmsgs s : 0 <= m0 <= 65535 -> steady l0 = true -> in_send l0 = [] ->
  NoDup (filter is_publish (flight (sched_run s (init m0 l0 pipe0 nmsgs)))).
Proof. intros Hm Hs Hi. destruct (HInv_run m0 l0 pipe0 nmsgs s Hm Hs Hi) as (_ & _ & _ & _ & Hnd & _). exact Hnd. Qed.

(* every packet carries the id that _mid_generate returned for that (thread, message) *)
Theorem handoff_mids m0 l0 pipe0 nmsgs s o k m : 0 <= m0 <= 65535 -> steady l0 = true -> in_send l0 = [] ->
  let c := sched_run s (init m0 l0 pipe0 nmsgs) in
  In (Publish o k m) (flight c) -> In (o, k, m) (alloc_log c).
Proof. intros Hm Hs Hi c. destruct (HInv_run m0 l0 pipe0 nmsgs s Hm Hs Hi) as (_ & _ & _ & _ & _ & Hmid). apply Hmid. Qed.

(* all threads finished and the queue drained: every message of every publisher is on the wire exactly once,
   in publication order *)
Theorem handoff_final m0 l0 pipe0 nmsgs s i n : 0 <= m0 <= 65535 -> steady l0 = true -> in_send l0 = [] ->
  let c := sched_run s (init m0 l0 pipe0 nmsgs) in
  all_done c = true -> out_packet c = [] -> in_send (loop c) = [] ->
  nth_error nmsgs i = Some n ->
  map pkt_idx (filter (owner_is i) (map snd (wire c))) = seq 0 n.
Proof.
  intros Hm Hs Hi c Hdone Hq Hsend Hn.
  destruct (HInv_run m0 l0 pipe0 nmsgs s Hm Hs Hi) as (_ & _ & Hlen & Hpub & _). fold c in Hlen, Hpub.
  assert (Hl : (i < length (pubs c))%nat) by (rewrite Hlen; apply nth_error_Some; congruence).
  destruct (nth_error (pubs c) i) as [p|] eqn:Ep; [|apply nth_error_None in Ep; lia].
  destruct (Hpub i p n Ep Hn) as (P1 & P2 & P3 & P4 & P5).
  assert (Hd : pc p = PDone).
  { unfold all_done in Hdone. rewrite forallb_forall in Hdone. specialize (Hdone p (nth_error_In _ _ Ep)).
    destruct (pc p); try discriminate; reflexivity. }
  unfold flight in P1. rewrite Hq, Hsend, !app_nil_r in P1. rewrite P1, P2.
  rewrite Hd in P3; cbn [appended] in P3. apply P5 in Hd. f_equal. lia.
Qed.
