(* C07.5 with THREE kinds of threads: publishers, the loop_start() thread in its steady loop, and an APPLICATION
   thread that calls reconnect() (or connect()) on the same client while the loop thread is running.

   The base configuration and the publisher / loop / Timeout steps are those of Conc/Sched.v; [cstep] adds the body of
   reconnect() as steps of the application thread:
     _sock_close                         CClose
     popleft until IndexError, mark      CDrain
     self._connect_queued = False        CFlag
     self._sock = self._create_socket()  CSock
     _packet_queue(CONNECT): appendleft  CConnect
     self._connect_queued = True         CFlagT
     wake byte                           CWake
   ASSUMPTIONS as in Sched.v; in addition the loop thread sees no inbound data and no socket error while the
   application thread reconnects (its teardown paths are not modelled).

   RESULT.  CONNECT-first is FALSE here (finding F-C07g, reproduced on the real client by harness/c07.py, scenario
   "appreconnect"): _packet_write() pops a packet and only then reads self._sock in _sock_send(); if the application
   thread replaces the socket in between, the popped packet is written on the NEW socket ahead of CONNECT.  The gate
   `if not self._connect_queued: return` at the top of loop_write() does not help a loop thread that is already past it.
   It holds for every schedule that never has the loop thread inside the write loop of _packet_write (pc LPop or
   LSend: past the gate) while the new socket exists and its CONNECT is not queued yet ([race_g]).  Nothing is lost
   silently in any schedule. *)
From PahoV Require Import Base.Prelude Codec.Mid Conc.Sched Conc.SchedLemmas Conc.Handoff Conc.ConnFirst.

Inductive cpc : Type := CClose | CDrain | CFlag | CSock | CConnect | CFlagT | CWake | CDone.

Record aconf : Type := mkA { base : conf; ctl : cpc }.

Inductive atid : Type := ABase (t : tid) | ACtl.

Definition cstep (a : aconf) : option aconf :=
  let c := base a in
  match ctl a with
  | CClose =>
      Some (mkA (mkConf (last_mid c) (mid_lock c) (out_packet c) (pipe c) None (nconn c) (wire c) (loop c)
                        (pubs c) (timeouts c) (alloc_log c) (marked c) (cq c)) CDrain)
  | CDrain =>
      match out_packet c with
      | [] => Some (mkA c CFlag)
      | p :: q =>
          Some (mkA (mkConf (last_mid c) (mid_lock c) q (pipe c) (sock c) (nconn c) (wire c) (loop c)
                            (pubs c) (timeouts c) (alloc_log c) (marked c ++ [p]) (cq c)) CDrain)
      end
  | CFlag =>
      Some (mkA (mkConf (last_mid c) (mid_lock c) (out_packet c) (pipe c) (sock c) (nconn c) (wire c) (loop c)
                        (pubs c) (timeouts c) (alloc_log c) (marked c) false) CSock)
  | CSock =>
      Some (mkA (mkConf (last_mid c) (mid_lock c) (out_packet c) (pipe c) (Some (nconn c)) (nconn c + 1) (wire c) (loop c)
                        (pubs c) (timeouts c) (alloc_log c) (marked c) (cq c)) CConnect)
  | CConnect =>
      match sock c with
      | Some k =>
          Some (mkA (mkConf (last_mid c) (mid_lock c) (Connect k :: out_packet c) (pipe c) (sock c) (nconn c) (wire c)
                            (loop c) (pubs c) (timeouts c) (alloc_log c) (marked c) (cq c)) CFlagT)
      | None => None
      end
  | CFlagT =>
      Some (mkA (mkConf (last_mid c) (mid_lock c) (out_packet c) (pipe c) (sock c) (nconn c) (wire c) (loop c)
                        (pubs c) (timeouts c) (alloc_log c) (marked c) true) CWake)
  | CWake =>
      Some (mkA (mkConf (last_mid c) (mid_lock c) (out_packet c) (S (pipe c)) (sock c) (nconn c) (wire c) (loop c)
                        (pubs c) (timeouts c) (alloc_log c) (marked c) (cq c)) CDone)
  | CDone => None
  end.

Definition astep (t : atid) (a : aconf) : option aconf :=
  match t with
  | ABase t' => match tstep t' (base a) with Some c' => Some (mkA c' (ctl a)) | None => None end
  | ACtl => cstep a
  end.

Fixpoint arun (s : list atid) (a : aconf) : aconf :=
  match s with
  | [] => a
  | t :: s' => arun s' (match astep t a with Some a' => a' | None => a end)
  end.

Fixpoint askipped (s : list atid) (a : aconf) : nat :=
  match s with
  | [] => O
  | t :: s' => match astep t a with Some a' => askipped s' a' | None => S (askipped s' a) end
  end.

(* established connection 1, loop thread anywhere in its steady loop, the application thread about to call reconnect() *)
Definition ainit (m0 : Z) (l0 : lpc) (pipe0 : nat) (nmsgs : list nat) : aconf := mkA (init m0 l0 pipe0 nmsgs) CClose.

(* the loop thread is past the gate of loop_write() (inside _packet_write's loop) while the new socket exists and its
   CONNECT has not been queued *)
Definition loop_writing (l : lpc) : bool := match l with LPop | LSend _ => true | _ => false end.
Definition race_g (a : aconf) : bool :=
  match ctl a with CConnect => loop_writing (loop (base a)) | _ => false end.

Fixpoint asafe_run (bad : aconf -> bool) (s : list atid) (a : aconf) : bool :=
  negb (bad a) &&
  match s with
  | [] => true
  | t :: s' => asafe_run bad s' (match astep t a with Some a' => a' | None => a end)
  end.

Lemma arun_inv (P : aconf -> Prop) :
  (forall t a a', P a -> astep t a = Some a' -> P a') -> forall s a, P a -> P (arun s a).
Proof.
  intros Hstep s. induction s as [|t s IH]; intros a Ha; cbn [arun]; [assumption|].
  apply IH. destruct (astep t a) as [a'|] eqn:E; [eapply Hstep; eassumption | assumption].
Qed.

Lemma asafe_run_inv (bad : aconf -> bool) (P : aconf -> Prop) :
  (forall t a a', P a -> bad a = false -> astep t a = Some a' -> P a') ->
  forall s a, asafe_run bad s a = true -> P a -> P (arun s a).
Proof.
  intros Hstep s. induction s as [|t s IH]; intros a Hs Ha; cbn [asafe_run arun] in *; [assumption|].
  apply andb_true_iff in Hs as [Hb Hs]. apply negb_true_iff in Hb.
  apply IH; [assumption|]. destruct (astep t a) as [a'|] eqn:E; [eapply Hstep; eassumption | assumption].
Qed.

(* ------------------------------------------------------------------ the loop thread stays in its steady loop *)
Lemma lstep_steady c c' : lstep c = Some c' -> steady (loop c) = true -> steady (loop c') = true.
Proof.
  unfold lstep. intros H Hs.
  destruct (loop c) as [|wl| | | |x| | | | | | |]; try discriminate Hs;
    repeat match type of H with
           | context [if ?b then _ else _] => destruct b eqn:?
           | context [match ?x with _ => _ end] => destruct x eqn:?
           end; try discriminate; inversion H; subst; cbn; reflexivity.
Qed.

(* ------------------------------------------------------------------ CONNECT first: refuted *)
Definition app_connect_first_full : Prop :=
  forall m0 nmsgs s, wire_ok (wire (base (arun s (ainit m0 LWant O nmsgs)))) = true.

(* one whole publish(); the loop thread wakes, passes the gate and pops the packet; the application thread runs
   reconnect() to the end; the loop thread sends what it holds *)
Definition witness_g : list atid :=
  repeat (ABase (Pub 0)) 10 ++ repeat (ABase Loop) 5 ++ repeat ACtl 7 ++ [ABase Loop].

Lemma app_connect_first_refuted :
  let a := arun witness_g (ainit 0 LWant O [1%nat]) in
  wire (base a) = [(1, Connect 1); (2, Publish 0 0 1)] /\ wire_ok (wire (base a)) = false /\
  out_packet (base a) = [Connect 2] /\ askipped witness_g (ainit 0 LWant O [1%nat]) = O.
Proof. vm_compute. repeat split; reflexivity. Qed.

Lemma app_connect_first_full_false : ~ app_connect_first_full.
Proof. intros H. specialize (H 0 [1%nat] witness_g). destruct app_connect_first_refuted as (_ & E & _). congruence. Qed.

(* ------------------------------------------------------------------ CONNECT first: partial *)
Definition ctl_after_connect (k : cpc) : bool := match k with CFlagT | CWake | CDone => true | _ => false end.

Definition AInv (a : aconf) : Prop :=
  let c := base a in
  steady (loop c) = true /\
  wire_ok (wire c) = true /\
  (forall k p, In (k, p) (wire c) -> k < nconn c) /\
  (forall k, sock c = Some k -> k < nconn c) /\
  (ctl a = CSock \/ ctl a = CConnect -> cq c = false) /\
  (forall k, sock c = Some k -> seen k (wire c) = false ->
     ctl a = CConnect \/ (ctl_after_connect (ctl a) = true /\ exists rest, pending c = Connect k :: rest)).

Lemma AInv_init m0 l0 pipe0 nmsgs : steady l0 = true -> AInv (ainit m0 l0 pipe0 nmsgs).
Proof.
  intros Hs. unfold AInv, ainit, init; cbn. split; [assumption|]. split; [reflexivity|]. split; [|split; [|split]].
  - intros k p [H|[]]. inversion H; subst. lia.
  - intros k H. inversion H; subst. lia.
  - intros [H|H]; discriminate.
  - intros k H Hsn. inversion H; subst. cbn in Hsn. discriminate.
Qed.

Lemma AInv_pstep a i p c' : AInv a -> pstep i p (base a) = Some c' -> AInv (mkA c' (ctl a)).
Proof.
  intros (A0 & A1 & A2 & A3 & A4 & A5) Hs.
  destruct (pstep_frame i p (base a) c' Hs) as (Ew & Es & El & _ & En & _).
  destruct (pstep_queue_shape i p (base a) c' Hs) as (_ & Hq).
  pose proof (pstep_cq i p (base a) c' Hs) as Eq'.
  unfold AInv, pending; cbn [base ctl]. rewrite Ew, Es, El, En, Eq'.
  split; [assumption|]. split; [assumption|]. split; [assumption|]. split; [assumption|]. split; [assumption|].
  intros k Hk Hsn. destruct (A5 k Hk Hsn) as [H|[H1 [rest Hrest]]]; [left; assumption|right]. split; [assumption|].
  unfold pending in Hrest.
  destruct Hq as [(Epc & Eq & _)|(Epc & Eq & _)]; rewrite Eq.
  - exists (rest ++ [Publish i (idx p) (ret p)]). rewrite app_assoc, Hrest. reflexivity.
  - exists rest. assumption.
Qed.

Lemma AInv_lstep a c' : AInv a -> race_g a = false -> lstep (base a) = Some c' -> AInv (mkA c' (ctl a)).
Proof.
  intros (A0 & A1 & A2 & A3 & A4 & A5) Hr Hs.
  pose proof (lstep_steady _ _ Hs A0) as A0'.
  unfold lstep in Hs. unfold AInv, pending in *; cbn [base ctl] in *.
  destruct (loop (base a)) as [|wl| | | |x| | | | | | |] eqn:El; try discriminate A0; cbn [in_send] in *.
  - (* LWant *) inversion Hs; subst; cbn in *. repeat (split; [assumption|]). exact A5.
  - (* LSelect *)
    destruct (0 <? pipe (base a))%nat; [|destruct wl; [|discriminate]]; inversion Hs; subst; cbn in *;
      repeat (split; [assumption|]); exact A5.
  - (* LDrain *) inversion Hs; subst; cbn in *. repeat (split; [assumption|]). exact A5.
  - (* LGate *) inversion Hs; subst; cbn in *. split; [assumption|]. repeat (split; [assumption|]).
    intros k Hk Hsn. destruct (A5 k Hk Hsn) as [H|H]; [left; assumption|right].
    destruct (cq (base a)); cbn; exact H.
  - (* LPop *)
    destruct (out_packet (base a)) as [|y q] eqn:Eq; inversion Hs; subst; cbn in *; rewrite ?Eq;
      repeat (split; [assumption|]); intros k Hk Hsn; specialize (A5 k Hk Hsn); cbn in A5; exact A5.
  - (* LSend *)
    destruct (sock (base a)) as [k|] eqn:Ek; inversion Hs; subst; cbn in *.
    + split; [assumption|]. split; [|split; [|split; [|split]]].
      * rewrite wire_ok_snoc, A1. cbn. destruct (seen k (wire (base a))) eqn:Esn; [reflexivity|].
        destruct (A5 k eq_refl Esn) as [H|[_ [rest Hrest]]].
        -- exfalso. unfold race_g in Hr. rewrite H, El in Hr. discriminate.
        -- cbn in Hrest. inversion Hrest; subst. cbn. apply Z.eqb_refl.
      * intros k' p' Hin. apply in_app_or in Hin as [Hin|[Hin|[]]]; [eapply A2; eassumption|].
        inversion Hin; subst. apply A3; reflexivity.
      * assumption.
      * assumption.
      * intros k' Hk' Hsn. inversion Hk'; subst. rewrite seen_app in Hsn. cbn in Hsn.
        rewrite Z.eqb_refl, orb_true_r in Hsn. discriminate.
    + repeat (split; [assumption|]). intros k' H; discriminate.
Qed.

Lemma AInv_cstep a a' : AInv a -> race_g a = false -> cstep a = Some a' -> AInv a'.
Proof.
  intros (A0 & A1 & A2 & A3 & A4 & A5) Hr Hs. unfold cstep in Hs. unfold AInv, pending in *.
  destruct (ctl a) eqn:Ec.
  - (* CClose *) inversion Hs; subst; cbn. repeat (split; [assumption|]). split; [intros k H; discriminate|].
    split; [intros [H|H]; discriminate|]. intros k H; discriminate.
  - (* CDrain *)
    destruct (out_packet (base a)) as [|y q] eqn:Eq; inversion Hs; subst; cbn.
    + repeat (split; [assumption|]). split; [intros [H|H]; discriminate|].
      intros k Hk Hsn. destruct (A5 k Hk Hsn) as [H|[H _]]; discriminate.
    + repeat (split; [assumption|]).
      intros k Hk Hsn. destruct (A5 k Hk Hsn) as [H|[H _]]; discriminate.
  - (* CFlag *) inversion Hs; subst; cbn. repeat (split; [assumption|]). split; [intros _; reflexivity|].
    intros k Hk Hsn. destruct (A5 k Hk Hsn) as [H|[H _]]; discriminate.
  - (* CSock *) inversion Hs; subst; cbn. split; [assumption|]. split; [assumption|]. split; [|split; [|split]].
    + intros k' p' Hin. specialize (A2 k' p' Hin). lia.
    + intros k' H. inversion H; subst. lia.
    + intros _. apply A4. left; reflexivity.
    + intros k' _ _. left; reflexivity.
  - (* CConnect: the loop thread holds nothing, so CONNECT becomes the head of what is pending *)
    destruct (sock (base a)) as [k|] eqn:Ek; [|discriminate]. inversion Hs; subst; cbn.
    repeat (split; [assumption|]). split; [intros [H|H]; discriminate|].
    intros k' Hk' Hsn. inversion Hk'; subst. right. split; [reflexivity|].
    unfold race_g in Hr. rewrite Ec in Hr.
    destruct (loop (base a)); cbn in Hr; try discriminate; cbn; eexists; reflexivity.
  - (* CFlagT *) inversion Hs; subst; cbn. repeat (split; [assumption|]). split; [intros [H|H]; discriminate|].
    intros k Hk Hsn. destruct (A5 k Hk Hsn) as [H|[_ H]]; [discriminate|]. right. split; [reflexivity|assumption].
  - (* CWake *) inversion Hs; subst; cbn. repeat (split; [assumption|]). split; [intros [H|H]; discriminate|].
    intros k Hk Hsn. destruct (A5 k Hk Hsn) as [H|[_ H]]; [discriminate|]. right. split; [reflexivity|assumption].
  - discriminate.
Qed.

Lemma AInv_step t a a' : AInv a -> race_g a = false -> astep t a = Some a' -> AInv a'.
Proof.
  intros HA Hr Hs. destruct t as [t|]; cbn [astep] in Hs.
  - destruct (tstep t (base a)) as [c'|] eqn:E; [|discriminate]. inversion Hs; subst.
    apply tstep_cases in E as [[_ E]|[[_ E]|(i & p & _ & Hp & E)]].
    + eapply AInv_lstep; eassumption.
    + destruct HA as (A0 & A1 & A2 & A3 & A4 & A5).
      destruct (timeout_frame _ _ E) as (_ & _ & _ & _ & Eo & Ew & _ & Es & El & _ & El' & En).
      pose proof (timeout_cq _ _ E) as Eq'.
      unfold AInv, pending in *; cbn [base ctl] in *. rewrite Ew, Es, En, Eo, El', Eq'. cbn.
      split; [reflexivity|]. repeat (split; [assumption|]).
      intros k Hk Hsn. specialize (A5 k Hk Hsn). rewrite El in A5. exact A5.
    + eapply AInv_pstep; eassumption.
  - eapply AInv_cstep; eassumption.
Qed.

Theorem app_connect_first_partial m0 l0 pipe0 nmsgs s : steady l0 = true ->
  asafe_run race_g s (ainit m0 l0 pipe0 nmsgs) = true ->
  wire_ok (wire (base (arun s (ainit m0 l0 pipe0 nmsgs)))) = true.
Proof.
  intros Hs Hsafe.
  assert (G : AInv (arun s (ainit m0 l0 pipe0 nmsgs))).
  { apply (asafe_run_inv race_g AInv); [intros t a a'; apply AInv_step | assumption | apply AInv_init; assumption]. }
  destruct G as (_ & G & _). exact G.
Qed.

(* ------------------------------------------------------------------ nothing is lost silently: full *)
Lemma DInv_cstep a a' : DInv (base a) -> cstep a = Some a' -> DInv (base a').
Proof.
  intros D1 Hs. unfold cstep in Hs. unfold DInv, flight in *.
  destruct (ctl a); try (inversion Hs; subst; cbn; exact D1).
  - destruct (out_packet (base a)) as [|y q] eqn:Eq; inversion Hs; subst; cbn; rewrite ?Eq; [exact D1|].
    intros i p z Hp Hz. destruct (D1 i p z Hp Hz) as [H|H].
    + apply in_app_or in H as [H|H]; [left; apply in_or_app; left; exact H|].
      apply in_app_or in H as [H|[H|H]].
      * left. apply in_or_app; right. apply in_or_app; left; exact H.
      * subst z. right. apply in_or_app; right; left; reflexivity.
      * left. apply in_or_app; right. apply in_or_app; right; exact H.
    + right. apply in_or_app; left; exact H.
  - destruct (sock (base a)) as [k|]; [|discriminate]. inversion Hs; subst; cbn.
    intros i p z Hp Hz. destruct (D1 i p z Hp Hz) as [H|H]; [left|right; assumption].
    apply in_app_or in H as [H|H]; [apply in_or_app; left; exact H|].
    apply in_app_or in H as [H|H]; apply in_or_app; right; apply in_or_app; [left; exact H | right; right; exact H].
Qed.

Theorem app_no_silent_loss m0 l0 pipe0 nmsgs s :
  conserved (base (arun s (ainit m0 l0 pipe0 nmsgs))) = true.
Proof.
  apply DInv_conserved.
  apply (arun_inv (fun a => DInv (base a))); [|apply DInv_init].
  intros t a a' HD Hs. destruct t as [t|]; cbn [astep] in Hs.
  - destruct (tstep t (base a)) as [c'|] eqn:E; [|discriminate]. inversion Hs; subst. cbn.
    eapply DInv_step; eassumption.
  - eapply DInv_cstep; eassumption.
Qed.

(* the exclusion is satisfiable while all three threads really overlap: the publisher appends after the new socket
   exists, the loop thread meets the closed gate, CONNECT goes first *)
Example app_exclusion_nonvacuous :
  let s := repeat ACtl 4 ++ repeat (ABase (Pub 0)) 10 ++ repeat (ABase Loop) 5 ++ repeat ACtl 3 ++ repeat (ABase Loop) 8 in
  let a0 := ainit 0 LWant O [1%nat] in
  asafe_run race_g s a0 = true /\
  wire (base (arun s a0)) = [(1, Connect 1); (2, Connect 2); (2, Publish 0 0 1)].
Proof. vm_compute. split; reflexivity. Qed.
